import Bifrost.Model.SolicitHub
import Bifrost.Lemmas.SolicitSysBase
/-! The hub is the product of its links' exchanges: projection lemmas. -/
namespace Bifrost.SolicitHub
open Bifrost Bifrost.Solicit Bifrost.SolicitSys

theorem stepAll_length (H : Bytes → Bytes) (o : SolicitSys.Op) :
    ∀ (cfgs : List Cfg) (st : State), (stepAll H o cfgs st).length = st.length
  | [], st => by cases st <;> simp [stepAll]
  | _ :: _, [] => by simp [stepAll]
  | _ :: cs, _ :: ss => by simp [stepAll, stepAll_length H o cs ss]

theorem stepAll_get (H : Bytes → Bytes) (o : SolicitSys.Op) :
    ∀ (cfgs : List Cfg) (st : State) (i : Nat) (c : Cfg) (s : SolicitSys.State),
      cfgs[i]? = some c → st[i]? = some s → (stepAll H o cfgs st)[i]? = some (SolicitSys.step H c s o)
  | [], _, _, _, _, hc, _ => by simp at hc
  | _ :: _, [], _, _, _, _, hs => by simp at hs
  | c0 :: cs, s0 :: ss, 0, c, s, hc, hs => by
    simp at hc hs; subst hc; subst hs; simp [stepAll]
  | c0 :: cs, s0 :: ss, i + 1, c, s, hc, hs => by
    simp at hc hs
    simp [stepAll]
    exact stepAll_get H o cs ss i c s hc hs

theorem stepAt_length (H : Bytes → Bytes) (o : SolicitSys.Op) :
    ∀ (i : Nat) (cfgs : List Cfg) (st : State), (stepAt H o i cfgs st).length = st.length
  | 0, [], st => by cases st <;> simp [stepAt]
  | 0, _ :: _, [] => by simp [stepAt]
  | 0, _ :: _, _ :: _ => by simp [stepAt]
  | _ + 1, [], st => by cases st <;> simp [stepAt]
  | _ + 1, _ :: _, [] => by simp [stepAt]
  | i + 1, _ :: cs, _ :: ss => by simp [stepAt, stepAt_length H o i cs ss]

theorem stepAt_get_self (H : Bytes → Bytes) (o : SolicitSys.Op) :
    ∀ (i : Nat) (cfgs : List Cfg) (st : State) (c : Cfg) (s : SolicitSys.State),
      cfgs[i]? = some c → st[i]? = some s → (stepAt H o i cfgs st)[i]? = some (SolicitSys.step H c s o)
  | 0, [], _, _, _, hc, _ => by simp at hc
  | 0, _ :: _, [], _, _, _, hs => by simp at hs
  | 0, c0 :: _, s0 :: _, c, s, hc, hs => by
    simp at hc hs; subst hc; subst hs; simp [stepAt]
  | _ + 1, [], _, _, _, hc, _ => by simp at hc
  | _ + 1, _ :: _, [], _, _, _, hs => by simp at hs
  | i + 1, _ :: cs, _ :: ss, c, s, hc, hs => by
    simp at hc hs
    simp [stepAt]
    exact stepAt_get_self H o i cs ss c s hc hs

theorem stepAt_get_ne (H : Bytes → Bytes) (o : SolicitSys.Op) :
    ∀ (i : Nat) (cfgs : List Cfg) (st : State) (j : Nat), j ≠ i →
      (stepAt H o i cfgs st)[j]? = st[j]?
  | 0, [], st, _, _ => by cases st <;> simp [stepAt]
  | 0, _ :: _, [], _, _ => by simp [stepAt]
  | 0, _ :: _, _ :: _, j, hj => by
    cases j with
    | zero => exact absurd rfl hj
    | succ j => simp [stepAt]
  | _ + 1, [], st, _, _ => by cases st <;> simp [stepAt]
  | _ + 1, _ :: _, [], _, _ => by simp [stepAt]
  | i + 1, _ :: cs, _ :: ss, j, hj => by
    cases j with
    | zero => simp [stepAt]
    | succ j =>
      simp [stepAt]
      exact stepAt_get_ne H o i cs ss j (by omega)

theorem sys_run_append (H : Bytes → Bytes) (c : Cfg) (l l' : List SolicitSys.Op) :
    SolicitSys.run H c (l ++ l') = SolicitSys.runFrom H c (SolicitSys.run H c l) l' := by
  simp [SolicitSys.run, SolicitSys.runFrom, List.foldl_append]

/-- The invariant that makes the hub the product of its links: link `i`'s state is the state of
the two-sided exchange after link `i`'s projection of the history. -/
def IsProduct (H : Bytes → Bytes) (cfgs : List Cfg) (st : State) (ops : List Op) : Prop :=
  st.length = cfgs.length ∧
    ∀ (i : Nat) (c : Cfg), cfgs[i]? = some c → st[i]? = some (SolicitSys.run H c (projOps i ops))

theorem isProduct_init (H : Bytes → Bytes) (cfgs : List Cfg) : IsProduct H cfgs (init cfgs) [] := by
  constructor
  · simp [init]
  · intro i c hc
    simp [init, projOps, SolicitSys.run, SolicitSys.runFrom, hc]

theorem projOps_snoc (i : Nat) (ops : List Op) (o : Op) : projOps i (ops ++ [o]) = projOps i ops ++ proj i o := by
  simp [projOps]

theorem get_of_length {α} (l : List α) (cfgs : List Cfg) (h : l.length = cfgs.length) (i : Nat) (c : Cfg)
    (hc : cfgs[i]? = some c) : ∃ s, l[i]? = some s := by
  have hi : i < cfgs.length := by
    rcases Nat.lt_or_ge i cfgs.length with h' | h'
    · exact h'
    · rw [List.getElem?_eq_none h'] at hc; cases hc
  exact ⟨l[i]'(by omega), List.getElem?_eq_getElem _⟩

theorem isProduct_step (H : Bytes → Bytes) (cfgs : List Cfg) (st : State) (ops : List Op) (o : Op)
    (h : IsProduct H cfgs st ops) : IsProduct H cfgs (step H cfgs st o) (ops ++ [o]) := by
  obtain ⟨hl, hp⟩ := h
  cases o with
  | add d =>
    refine ⟨by simp [step, stepAll_length, hl], ?_⟩
    intro i c hc
    rw [projOps_snoc, sys_run_append]
    simp only [step, proj]
    rw [stepAll_get H _ cfgs st i c _ hc (hp i c hc)]
    rfl
  | remove id =>
    refine ⟨by simp [step, stepAll_length, hl], ?_⟩
    intro i c hc
    rw [projOps_snoc, sys_run_append]
    simp only [step, proj]
    rw [stepAll_get H _ cfgs st i c _ hc (hp i c hc)]
    rfl
  | link j o =>
    by_cases hh : hubDir o = true
    · refine ⟨by simp [step, hh, hl], ?_⟩
      intro i c hc
      rw [projOps_snoc]
      simp [step, proj, hh, hp i c hc]
    · have hh' : hubDir o = false := by simpa using hh
      refine ⟨by simp [step, hh', stepAt_length, hl], ?_⟩
      intro i c hc
      rw [projOps_snoc, sys_run_append]
      by_cases hji : j = i
      · subst hji
        simp only [step, hh', proj]
        simp only [Bool.false_eq_true, if_false, and_self, if_true]
        rw [stepAt_get_self H o j cfgs st c _ hc (hp j c hc)]
        rfl
      · simp only [step, hh', proj]
        simp only [Bool.false_eq_true, if_false, hji, false_and]
        rw [stepAt_get_ne H o j cfgs st i (Ne.symm hji)]
        simpa [SolicitSys.runFrom] using hp i c hc

theorem isProduct_foldl (H : Bytes → Bytes) (cfgs : List Cfg) (ops : List Op) :
    ∀ (st : State) (pre : List Op), IsProduct H cfgs st pre →
      IsProduct H cfgs (ops.foldl (step H cfgs) st) (pre ++ ops) := by
  induction ops with
  | nil => intro st pre h; simpa using h
  | cons o rest ih =>
    intro st pre h
    have := ih (step H cfgs st o) (pre ++ [o]) (isProduct_step H cfgs st pre o h)
    simpa [List.append_assoc] using this

theorem isProduct_run (H : Bytes → Bytes) (cfgs : List Cfg) (ops : List Op) :
    IsProduct H cfgs (run H cfgs ops) ops := by
  have := isProduct_foldl H cfgs ops (init cfgs) [] (isProduct_init H cfgs)
  simpa [run] using this

end Bifrost.SolicitHub

/-! ### What is put on the wire of one link: only hashes of admitted directives -/
namespace Bifrost.SolicitSys
open Bifrost Bifrost.Solicit

/-- `P x d`: directive `d` was added on side `x` at some point. Every directive present was added,
and every hash a side ever sent is the hash of a directive added on that side whose constraints
admit the link. -/
structure Wire (H : Bytes → Bytes) (c : Cfg) (st : State) (P : Side → Dir → Prop) : Prop where
  dirsAdded : ∀ x, ∀ i ∈ (st.node x).dirs, P x i.d
  everAdmitted : ∀ x, ∀ h ∈ (st.node x).everSent,
    ∃ d, P x d ∧ admits d (c.view x) = true ∧ dirHash H c x d = h

theorem wire_mono (H : Bytes → Bytes) (c : Cfg) (st : State) (P Q : Side → Dir → Prop)
    (hPQ : ∀ x d, P x d → Q x d) (h : Wire H c st P) : Wire H c st Q := by
  obtain ⟨h1, h2⟩ := h
  constructor
  · intro x i hi; exact hPQ _ _ (h1 x i hi)
  · intro x h hh
    obtain ⟨d, hd, ha, he⟩ := h2 x h hh
    exact ⟨d, hPQ _ _ hd, ha, he⟩

theorem wire_frame (H : Bytes → Bytes) (c : Cfg) (st st' : State) (P : Side → Dir → Prop)
    (h : Wire H c st P)
    (hd : ∀ y, (st'.node y).dirs = (st.node y).dirs)
    (he : ∀ y, (st'.node y).everSent = (st.node y).everSent) : Wire H c st' P := by
  obtain ⟨h1, h2⟩ := h
  constructor <;> simp only [hd, he] <;> assumption

theorem wire_step (H : Bytes → Bytes) (c : Cfg) (st : State) (o : Op) (P : Side → Dir → Prop)
    (h : Wire H c st P) : Wire H c (step H c st o) (fun x d => P x d ∨ o = .add x d) := by
  have hw : Wire H c st (fun x d => P x d ∨ o = .add x d) :=
    wire_mono H c st P _ (fun _ _ hp => Or.inl hp) h
  cases o with
  | add x d =>
    obtain ⟨h1, h2⟩ := hw
    constructor
    · intro y; rcases eq_or_other x y with rfl | rfl
      · simp only [step, node_setNode_self]
        intro i hi
        rw [List.mem_append, List.mem_singleton] at hi
        rcases hi with hi | rfl
        · exact h1 y i hi
        · exact Or.inr rfl
      · simpa [step] using h1 x.other
    · intro y; rcases eq_or_other x y with rfl | rfl
      · simpa [step] using h2 y
      · simpa [step] using h2 x.other
  | remove x id =>
    obtain ⟨h1, h2⟩ := hw
    constructor
    · intro y; rcases eq_or_other x y with rfl | rfl
      · simp only [step, node_setNode_self]
        intro i hi
        exact h1 y i (List.mem_filter.mp hi).1
      · simpa [step] using h1 x.other
    · intro y; rcases eq_or_other x y with rfl | rfl
      · simpa [step] using h2 y
      · simpa [step] using h2 x.other
  | sync x =>
    by_cases he : hashList H c x (st.node x) = (st.node x).sent
    · refine wire_frame H c st _ _ hw ?_ ?_ <;>
        (intro y; rcases eq_or_other x y with rfl | rfl <;> simp [step, he])
    · obtain ⟨h1, h2⟩ := hw
      constructor
      · intro y; rcases eq_or_other x y with rfl | rfl
        · simpa [step, he] using h1 y
        · simpa [step, he] using h1 x.other
      · intro y; rcases eq_or_other x y with rfl | rfl
        · simp only [step, he, if_false, node_setNode_other', node_setNode_self, evaluate_everSent]
          intro hh hm
          rw [List.mem_append] at hm
          rcases hm with hm | hm
          · exact h2 y hh hm
          · have ho := mem_hashList H c y (st.node y) hh hm
            simp only [offered, List.mem_map, List.mem_filter] at ho
            obtain ⟨d, ⟨hd, ha⟩, hq⟩ := ho
            obtain ⟨i, hi, rfl⟩ := hd
            exact ⟨i.d, h1 y i hi, ha, hq⟩
        · simpa [step, he] using h2 x.other
  | deliver x =>
    cases hi : (st.node x).inbox with
    | nil => simp only [step, hi]; exact hw
    | cons m rest =>
      refine wire_frame H c st _ _ hw ?_ ?_ <;>
        (intro y; rcases eq_or_other x y with rfl | rfl <;> simp [step, hi])
  | «open» x hh =>
    by_cases hp : hh ∈ (st.node x).pendingOpen
    · refine wire_frame H c st _ _ hw ?_ ?_ <;>
        (intro y; rcases eq_or_other x y with rfl | rfl <;> simp [step, hp])
    · simp only [step, hp]; exact hw
  | arrive x s =>
    by_cases hp : s ∈ (st.node x).arriving
    · cases hs : st.streams[s]? with
      | none => simp only [step, hp, hs]; exact hw
      | some sr =>
        refine wire_frame H c st _ _ hw ?_ ?_ <;>
          (intro y; rcases eq_or_other x y with rfl | rfl <;> simp [step, hp, hs])
    · simp only [step, hp]; exact hw

theorem wire_runFrom (H : Bytes → Bytes) (c : Cfg) (ops : List Op) :
    ∀ (st : State) (pre : List Op), Wire H c st (fun x d => Op.add x d ∈ pre) →
      Wire H c (runFrom H c st ops) (fun x d => Op.add x d ∈ pre ++ ops) := by
  induction ops with
  | nil => intro st pre h; simpa [runFrom] using h
  | cons o rest ih =>
    intro st pre h
    have h1 := wire_step H c st o _ h
    have h2 : Wire H c (step H c st o) (fun x d => Op.add x d ∈ pre ++ [o]) := by
      refine wire_mono H c _ _ _ ?_ h1
      intro x d hd
      rcases hd with hd | hd
      · exact List.mem_append_left _ hd
      · exact List.mem_append_right _ (by simp [hd])
    have := ih (step H c st o) (pre ++ [o]) h2
    simpa [runFrom, List.append_assoc] using this

theorem wire_run (H : Bytes → Bytes) (c : Cfg) (ops : List Op) :
    Wire H c (run H c ops) (fun x d => Op.add x d ∈ ops) := by
  have h0 : Wire H c ({} : State) (fun x d => Op.add x d ∈ ([] : List Op)) := by
    constructor <;> intro x <;> cases x <;> simp [State.node]
  simpa [run] using wire_runFrom H c ops {} [] h0

end Bifrost.SolicitSys

/-! ### The hub's directive set is the same on every link -/
namespace Bifrost.SolicitHub
open Bifrost Bifrost.Solicit Bifrost.SolicitSys

/-- the effect of an exchange op on side `A`'s directive set: (instance id, parameters) list and
next id -/
def dirStep (acc : List (Nat × Dir) × Nat) : SolicitSys.Op → List (Nat × Dir) × Nat
  | .add .A d => (acc.1 ++ [(acc.2, d)], acc.2 + 1)
  | .remove .A id => (acc.1.filter (fun p => p.1 != id), acc.2)
  | _ => acc

/-- the hub's directive set after a hub history — computed from the hub's `add` / `remove` ops
alone: no link, no configuration, no hash function in it -/
def sharedStep (acc : List (Nat × Dir) × Nat) : Op → List (Nat × Dir) × Nat
  | .add d => dirStep acc (.add .A d)
  | .remove id => dirStep acc (.remove .A id)
  | .link _ _ => acc

def sharedDirs (ops : List Op) : List (Nat × Dir) × Nat := ops.foldl sharedStep ([], 0)

theorem dirStep_of_not_hubDir (acc : List (Nat × Dir) × Nat) (o : SolicitSys.Op) (h : hubDir o = false) :
    dirStep acc o = acc := by
  cases o with
  | add x d => cases x <;> simp_all [hubDir, dirStep]
  | remove x id => cases x <;> simp_all [hubDir, dirStep]
  | _ => rfl

theorem aDirs_step (H : Bytes → Bytes) (c : Cfg) (s : SolicitSys.State) (o : SolicitSys.Op) :
    (hubDirs (SolicitSys.step H c s o), (SolicitSys.step H c s o).a.nextDir) =
      dirStep (hubDirs s, s.a.nextDir) o := by
  have key : ∀ s' : SolicitSys.State, (∀ y, (s'.node y).dirs = (s.node y).dirs) →
      (∀ y, (s'.node y).nextDir = (s.node y).nextDir) →
      (hubDirs s', s'.a.nextDir) = (hubDirs s, s.a.nextDir) := by
    intro s' h1 h2
    have h1 := h1 .A
    have h2 := h2 .A
    simp only [State.node] at h1 h2
    simp [hubDirs, h1, h2]
  cases o with
  | add x d =>
    cases x
    · simp [SolicitSys.step, hubDirs, dirStep, State.setNode, State.node]
    · simp [SolicitSys.step, hubDirs, dirStep, State.setNode, State.node]
  | remove x id =>
    cases x
    · simp [SolicitSys.step, hubDirs, dirStep, State.setNode, State.node, List.filter_map, Function.comp_def]
    · simp [SolicitSys.step, hubDirs, dirStep, State.setNode, State.node]
  | sync x =>
    simp only [dirStep]
    by_cases he : hashList H c x (s.node x) = (s.node x).sent
    · apply key <;> (intro y; rcases eq_or_other x y with rfl | rfl <;> simp [SolicitSys.step, he])
    · apply key <;> (intro y; rcases eq_or_other x y with rfl | rfl <;> simp [SolicitSys.step, he])
  | deliver x =>
    simp only [dirStep]
    cases hi : (s.node x).inbox with
    | nil => simp [SolicitSys.step, hi]
    | cons m rest =>
      apply key <;> (intro y; rcases eq_or_other x y with rfl | rfl <;> simp [SolicitSys.step, hi])
  | «open» x hh =>
    simp only [dirStep]
    by_cases hp : hh ∈ (s.node x).pendingOpen
    · apply key <;> (intro y; rcases eq_or_other x y with rfl | rfl <;> simp [SolicitSys.step, hp])
    · simp [SolicitSys.step, hp]
  | arrive x t =>
    simp only [dirStep]
    by_cases hp : t ∈ (s.node x).arriving
    · cases hs : s.streams[t]? with
      | none => simp [SolicitSys.step, hp, hs]
      | some sr =>
        apply key <;> (intro y; rcases eq_or_other x y with rfl | rfl <;> simp [SolicitSys.step, hp, hs])
    · simp [SolicitSys.step, hp]

theorem aDirs_runFrom (H : Bytes → Bytes) (c : Cfg) (l : List SolicitSys.Op) :
    ∀ s : SolicitSys.State,
      (hubDirs (SolicitSys.runFrom H c s l), (SolicitSys.runFrom H c s l).a.nextDir) =
        l.foldl dirStep (hubDirs s, s.a.nextDir) := by
  induction l with
  | nil => intro s; rfl
  | cons o rest ih =>
    intro s
    simp only [SolicitSys.runFrom, List.foldl_cons]
    have := ih (SolicitSys.step H c s o)
    simp only [SolicitSys.runFrom] at this
    rw [this, aDirs_step]

theorem foldl_proj (i : Nat) (ops : List Op) :
    ∀ acc, (projOps i ops).foldl dirStep acc = ops.foldl sharedStep acc := by
  induction ops with
  | nil => intro acc; rfl
  | cons o rest ih =>
    intro acc
    simp only [projOps, List.flatMap_cons, List.foldl_append, List.foldl_cons] at ih ⊢
    rw [← ih]
    congr 1
    cases o with
    | add d => rfl
    | remove id => rfl
    | link j o' =>
      simp only [proj, sharedStep]
      split
      · rename_i h; simp [dirStep_of_not_hubDir _ _ h.2]
      · rfl

/-- On every link the hub's side holds the same directive instances (ids and parameters): the set
computed from the hub's own history. -/
theorem hubDirs_of_link (H : Bytes → Bytes) (cfgs : List Cfg) (ops : List Op) (i : Nat) (c : Cfg)
    (s : SolicitSys.State) (hc : cfgs[i]? = some c) (hs : (run H cfgs ops)[i]? = some s) :
    hubDirs s = (sharedDirs ops).1 := by
  have hp := (isProduct_run H cfgs ops).2 i c hc
  rw [hp] at hs
  cases hs
  have := aDirs_runFrom H c (projOps i ops) {}
  simp only [SolicitSys.run]
  have h2 := congrArg Prod.fst this
  simp only at h2
  rw [h2, foldl_proj]
  rfl

/-- membership of a hub `add` in a link's projection -/
theorem add_of_mem_projOps (i : Nat) (ops : List SolicitHub.Op) (d : Dir)
    (h : SolicitSys.Op.add .A d ∈ projOps i ops) : SolicitHub.Op.add d ∈ ops := by
  obtain ⟨o, ho, hm⟩ := List.mem_flatMap.mp h
  cases o with
  | add d' => simp [proj] at hm; subst hm; exact ho
  | remove id => simp [proj] at hm
  | link j o' =>
    simp only [proj] at hm
    split at hm
    · rename_i hj
      simp at hm; subst hm
      simp [hubDir] at hj
    · simp at hm


end Bifrost.SolicitHub
