import Bifrost.Lemmas.DialSys
/-! The reachable-state invariant `WF` of the dialing system: dialer objects, `t.dialers`,
link dialers, and what every stored / returned / pushed link is. Helper lemmas for C05Sys. -/
namespace Bifrost
namespace DialSys
open Links (Link)

/-- What holds of one link dialer, given the links created so far and the dialer objects. -/
def LDOk (cr : List QuicTable.Entry) (qds : List QDialer) (ld : LDialer) : Prop :=
  ld.key.1 ≠ 0 ∧
  (∀ d, ld.rt = .awaiting d → d < qds.length ∧ ∀ qd ∈ qds, qd.id = d → qd.addr = ld.key.2) ∧
  (∀ l, ld.rt = .got (some l) → l.remote = ld.key.1 ∧ ∃ a, (a, l) ∈ cr) ∧
  (∀ l, ld.lnk = some l → l.remote = ld.key.1 ∧ (∃ a, (a, l) ∈ cr) ∧ ld.rt = .done)

/-- `qds'` extends `qds`: the old objects keep identity and address. -/
def QExt (qds qds' : List QDialer) : Prop :=
  qds.length ≤ qds'.length ∧
  ∀ x' ∈ qds', x'.id < qds.length → ∃ x ∈ qds, x.id = x'.id ∧ x.addr = x'.addr

theorem QExt.refl (qds : List QDialer) : QExt qds qds :=
  ⟨Nat.le_refl _, fun x hx _ => ⟨x, hx, rfl, rfl⟩⟩

theorem QExt.setRes (s : State) (d : Nat) (r : DRes) : QExt s.qdialers (setQDRes s d r).qdialers := by
  refine ⟨by simp, ?_⟩
  intro x' hx' _
  obtain ⟨y, hy, h1, h2, _⟩ := mem_setQDRes hx'
  exact ⟨y, hy, h1.symm, h2.symm⟩

theorem QExt.cons (qds : List QDialer) (a x : Nat) (r : DRes) :
    QExt qds (⟨qds.length, a, x, r⟩ :: qds) := by
  refine ⟨by simp, ?_⟩
  intro x' hx' hlt
  rcases List.mem_cons.1 hx' with rfl | h
  · exact absurd hlt (Nat.lt_irrefl _)
  · exact ⟨x', h, rfl, rfl⟩

theorem LDOk.mono {cr cr' : List QuicTable.Entry} {qds qds' : List QDialer} {ld : LDialer}
    (hcr : ∀ e ∈ cr, e ∈ cr') (hq : QExt qds qds') (h : LDOk cr qds ld) : LDOk cr' qds' ld := by
  obtain ⟨h1, h2, h3, h4⟩ := h
  refine ⟨h1, ?_, ?_, ?_⟩
  · intro d hd
    obtain ⟨hlt, ha⟩ := h2 d hd
    refine ⟨Nat.lt_of_lt_of_le hlt hq.1, ?_⟩
    intro qd hqd hid
    obtain ⟨x, hx, hxi, hxa⟩ := hq.2 qd hqd (hid ▸ hlt)
    rw [← hxa]; exact ha x hx (hxi.trans hid)
  · intro l hl
    obtain ⟨a, ha⟩ := (h3 l hl).2
    exact ⟨(h3 l hl).1, a, hcr _ ha⟩
  · intro l hl
    obtain ⟨a, ha⟩ := (h4 l hl).2.1
    exact ⟨(h4 l hl).1, ⟨a, hcr _ ha⟩, (h4 l hl).2.2⟩

structure WF (cfg : Cfg) (lp : Nat) (s : State) : Prop where
  /-- dialer object ids are the creation indices -/
  ids : s.qdialers.map (·.id) = (List.range s.qdialers.length).reverse
  /-- a dialer's link was created by a session at the address the dialer's dial address resolves to -/
  res_cr : ∀ qd ∈ s.qdialers, ∀ l, qd.res = .link l → (cfg.resolve qd.addr, l) ∈ s.q.created
  /-- an entry of `t.dialers` is a dialer object created for that dial address; one entry per address -/
  dmap_ok : ∀ e ∈ s.dmap, e.2 < s.qdialers.length ∧ ∀ qd ∈ s.qdialers, qd.id = e.2 → qd.addr = e.1
  dmap_nd : (s.dmap.map (·.1)).Nodup
  /-- a finished dialer that is still in `t.dialers` has its deferred removal pending -/
  fin_pend : ∀ e ∈ s.dmap, ∀ qd ∈ s.qdialers, qd.id = e.2 → qd.res ≠ .pending → e.2 ∈ s.pendExit
  /-- the deferred removal is pending only for dialers that exist -/
  pend_lt : ∀ d ∈ s.pendExit, d < s.qdialers.length
  keys_nd : (s.lds.map (·.key)).Nodup
  ld_ok : ∀ ld ∈ s.lds, LDOk s.q.created s.qdialers ld
  ret_ok : ∀ e ∈ s.returned, e.2.remote = e.1.1 ∧ ∃ a, (a, e.2) ∈ s.q.created
  push_ok : ∀ e ∈ s.pushed, ∃ k, tptKey cfg lp e.1 = some k ∧ e.2.remote = k.1 ∧ ∃ a, (a, e.2) ∈ s.q.created

theorem WF.id_lt {cfg : Cfg} {lp : Nat} {s : State} (h : WF cfg lp s) :
    ∀ qd ∈ s.qdialers, qd.id < s.qdialers.length := by
  intro qd hqd
  have : qd.id ∈ s.qdialers.map (·.id) := List.mem_map.2 ⟨qd, hqd, rfl⟩
  rw [h.ids] at this
  simpa using this

theorem WF.id_inj {cfg : Cfg} {lp : Nat} {s : State} (h : WF cfg lp s) :
    ∀ x ∈ s.qdialers, ∀ y ∈ s.qdialers, x.id = y.id → x = y := by
  apply Links.inj_of_nodup_map (fun (x : QDialer) => x.id)
  rw [h.ids]
  unfold List.Nodup
  rw [List.pairwise_reverse]
  exact (List.nodup_range (n := s.qdialers.length)).imp (fun h => Ne.symm h)

theorem WF.getQD_of_lt {cfg : Cfg} {lp : Nat} {s : State} (h : WF cfg lp s) {d : Nat}
    (hd : d < s.qdialers.length) : ∃ qd, getQD s d = some qd := by
  have : d ∈ s.qdialers.map (·.id) := by rw [h.ids]; simpa using hd
  obtain ⟨qd, hqd, hid⟩ := List.mem_map.1 this
  cases hf : getQD s d with
  | some qd => exact ⟨qd, rfl⟩
  | none =>
    unfold getQD at hf
    have := List.find?_eq_none.1 hf qd hqd
    simp [hid] at this

theorem wf_init (cfg : Cfg) (lp : Nat) : WF cfg lp (init cfg lp) := by
  constructor <;> simp [init]

theorem dmapGet_of_mem {s : State} (hnd : (s.dmap.map (·.1)).Nodup) {a d : Nat} (h : (a, d) ∈ s.dmap) :
    dmapGet s a = some d := by
  unfold dmapGet
  cases hf : s.dmap.find? (fun e => e.1 = a) with
  | none =>
    have := List.find?_eq_none.1 hf (a, d) h
    simp at this
  | some e =>
    have he := List.mem_of_find?_eq_some hf
    have hk : e.1 = a := by simpa using List.find?_some hf
    have : e = (a, d) := Links.inj_of_nodup_map (fun (x : Nat × Nat) => x.1) hnd e he (a, d) h hk
    rw [this]; rfl

/-! ### transformers -/

/-- only the link dialers change, by replacing the one for a key that exists -/
theorem WF.setLD {cfg : Cfg} {lp : Nat} {s : State} (h : WF cfg lp s) {ld' : LDialer}
    (hok : LDOk s.q.created s.qdialers ld') :
    WF cfg lp (setLD s ld') :=
  { ids := h.ids, res_cr := h.res_cr, dmap_ok := h.dmap_ok, dmap_nd := h.dmap_nd, fin_pend := h.fin_pend,
    pend_lt := h.pend_lt
    keys_nd := by rw [setLD_keys]; exact h.keys_nd
    ld_ok := forall_setLD h.ld_ok hok
    ret_ok := h.ret_ok, push_ok := h.push_ok }

/-- a state that differs from `s` only in `lds`, by a map that keeps the keys and `LDOk` -/
theorem WF.mapLD {cfg : Cfg} {lp : Nat} {s : State} (h : WF cfg lp s) (f : LDialer → LDialer)
    (hk : ∀ ld, (f ld).key = ld.key)
    (hok : ∀ ld ∈ s.lds, LDOk s.q.created s.qdialers (f ld)) :
    WF cfg lp { s with lds := s.lds.map f } :=
  { ids := h.ids, res_cr := h.res_cr, dmap_ok := h.dmap_ok, dmap_nd := h.dmap_nd, fin_pend := h.fin_pend,
    pend_lt := h.pend_lt
    keys_nd := by
      show ((s.lds.map f).map (·.key)).Nodup
      rw [List.map_map]
      have : ((fun x : LDialer => x.key) ∘ f) = (fun x : LDialer => x.key) := by
        funext x; exact hk x
      rw [this]; exact h.keys_nd
    ld_ok := by
      intro ld hld
      obtain ⟨y, hy, rfl⟩ := List.mem_map.1 hld
      exact hok y hy
    ret_ok := h.ret_ok, push_ok := h.push_ok }

/-- the component `q` changes (its `created` list only grows) -/
theorem WF.setQ {cfg : Cfg} {lp : Nat} {s : State} (h : WF cfg lp s) (q' : QuicTable.State)
    (hcr : ∀ e ∈ s.q.created, e ∈ q'.created) : WF cfg lp { s with q := q' } :=
  { ids := h.ids
    res_cr := fun qd hqd l hl => hcr _ (h.res_cr qd hqd l hl)
    dmap_ok := h.dmap_ok, dmap_nd := h.dmap_nd, fin_pend := h.fin_pend, pend_lt := h.pend_lt
    keys_nd := h.keys_nd
    ld_ok := fun ld hld => (h.ld_ok ld hld).mono hcr (QExt.refl _)
    ret_ok := by
      intro e he
      obtain ⟨a, ha⟩ := (h.ret_ok e he).2
      exact ⟨(h.ret_ok e he).1, a, hcr _ ha⟩
    push_ok := by
      intro e he
      obtain ⟨k, h1, h2, a, h3⟩ := h.push_ok e he
      exact ⟨k, h1, h2, a, hcr _ h3⟩ }

/-- only history variables that no invariant mentions change -/
theorem WF.setStale {cfg : Cfg} {lp : Nat} {s : State} (h : WF cfg lp s) (st : List Nat) :
    WF cfg lp { s with staleStore := st } :=
  { ids := h.ids, res_cr := h.res_cr, dmap_ok := h.dmap_ok, dmap_nd := h.dmap_nd, fin_pend := h.fin_pend,
    pend_lt := h.pend_lt, keys_nd := h.keys_nd, ld_ok := h.ld_ok, ret_ok := h.ret_ok, push_ok := h.push_ok }

/-- `delete(t.dialers, a)` -/
theorem WF.delDmap {cfg : Cfg} {lp : Nat} {s : State} (h : WF cfg lp s) (a : Nat) :
    WF cfg lp { s with dmap := dmapDel s.dmap a } :=
  { ids := h.ids, res_cr := h.res_cr
    dmap_ok := fun e he => h.dmap_ok e (mem_dmapDel.1 he).1
    dmap_nd := Links.nodup_map_filter _ _ h.dmap_nd
    fin_pend := fun e he => h.fin_pend e (mem_dmapDel.1 he).1
    pend_lt := h.pend_lt, keys_nd := h.keys_nd, ld_ok := h.ld_ok, ret_ok := h.ret_ok, push_ok := h.push_ok }

/-- a new dialer object is created for a dial address that has no entry, and entered in `t.dialers` -/
theorem WF.newDialer {cfg : Cfg} {lp : Nat} {s : State} (h : WF cfg lp s) (a x : Nat)
    (hfree : dmapGet s a = none) :
    WF cfg lp { s with qdialers := ⟨s.qdialers.length, a, x, .pending⟩ :: s.qdialers,
                        dmap := (a, s.qdialers.length) :: s.dmap } :=
  { ids := by
      show (s.qdialers.length :: s.qdialers.map (·.id)) = (List.range (s.qdialers.length + 1)).reverse
      rw [h.ids, List.range_succ, List.reverse_append]; rfl
    res_cr := by
      intro qd hqd l hl
      rcases List.mem_cons.1 hqd with rfl | hq
      · cases hl
      · exact h.res_cr qd hq l hl
    dmap_ok := by
      intro e he
      rcases List.mem_cons.1 he with rfl | he
      · refine ⟨by simp, ?_⟩
        intro qd hqd hid
        rcases List.mem_cons.1 hqd with rfl | hq
        · rfl
        · exact absurd hid (Nat.ne_of_lt (h.id_lt qd hq))
      · obtain ⟨h1, h2⟩ := h.dmap_ok e he
        refine ⟨Nat.lt_succ_of_lt h1, ?_⟩
        intro qd hqd hid
        rcases List.mem_cons.1 hqd with rfl | hq
        · exact absurd hid.symm (Nat.ne_of_lt h1)
        · exact h2 qd hq hid
    dmap_nd := by
      show (a :: s.dmap.map (·.1)).Nodup
      refine List.nodup_cons.2 ⟨?_, h.dmap_nd⟩
      intro hm
      obtain ⟨e, he, hk⟩ := List.mem_map.1 hm
      exact dmapGet_none hfree e he hk
    fin_pend := by
      intro e he qd hqd hid hres
      rcases List.mem_cons.1 he with rfl | he
      · rcases List.mem_cons.1 hqd with rfl | hq
        · exact absurd rfl hres
        · exact absurd hid (Nat.ne_of_lt (h.id_lt qd hq))
      · rcases List.mem_cons.1 hqd with rfl | hq
        · exact absurd hid.symm (Nat.ne_of_lt (h.dmap_ok e he).1)
        · exact h.fin_pend e he qd hq hid hres
    pend_lt := fun d hd => Nat.lt_succ_of_lt (h.pend_lt d hd)
    keys_nd := h.keys_nd
    ld_ok := fun ld hld => (h.ld_ok ld hld).mono (fun _ he => he) (QExt.cons _ _ _ _)
    ret_ok := h.ret_ok, push_ok := h.push_ok }

/-- a pending dialer finishes (`SetResult`): its deferred removal becomes pending. The caller shows
where a link result comes from. -/
theorem WF.finishDialer {cfg : Cfg} {lp : Nat} {s : State} (h : WF cfg lp s) {d : Nat} {qd : QDialer}
    (hg : getQD s d = some qd) (r : DRes)
    (hr : ∀ l, r = .link l → (cfg.resolve qd.addr, l) ∈ s.q.created) :
    WF cfg lp { setQDRes s d r with pendExit := d :: s.pendExit } := by
  obtain ⟨hqm, hqid⟩ := getQD_some hg
  exact
  { ids := by
      show (setQDRes s d r).qdialers.map (·.id) = (List.range (setQDRes s d r).qdialers.length).reverse
      rw [setQDRes_ids, setQDRes_length]; exact h.ids
    res_cr := by
      intro x hx l hl
      obtain ⟨y, hy, _, h2, _, h4⟩ := mem_setQDRes hx
      show (cfg.resolve x.addr, l) ∈ s.q.created
      rcases h4 with ⟨hyd, hres⟩ | ⟨_, hres⟩
      · have : y = qd := h.id_inj y hy qd hqm (hyd.trans hqid.symm)
        rw [h2, this]; exact hr l (hres ▸ hl)
      · rw [h2]; exact h.res_cr y hy l (hres ▸ hl)
    dmap_ok := by
      intro e he
      obtain ⟨h1, h2⟩ := h.dmap_ok e he
      refine ⟨by show e.2 < (setQDRes s d r).qdialers.length; rw [setQDRes_length]; exact h1, ?_⟩
      intro x hx hid
      obtain ⟨y, hy, h1', h2', _, _⟩ := mem_setQDRes hx
      exact h2' ▸ h2 y hy (h1' ▸ hid)
    dmap_nd := h.dmap_nd
    fin_pend := by
      intro e he x hx hid hres
      obtain ⟨y, hy, h1', _, _, h4⟩ := mem_setQDRes hx
      show e.2 ∈ d :: s.pendExit
      rcases h4 with ⟨hyd, _⟩ | ⟨_, hr'⟩
      · rw [← hid, h1', hyd]; exact List.mem_cons_self
      · exact List.mem_cons_of_mem _ (h.fin_pend e he y hy (h1' ▸ hid) (hr' ▸ hres))
    pend_lt := by
      intro d' hd'
      show d' < (setQDRes s d r).qdialers.length
      rw [setQDRes_length]
      rcases List.mem_cons.1 hd' with rfl | hd'
      · exact hqid ▸ h.id_lt qd hqm
      · exact h.pend_lt d' hd'
    keys_nd := h.keys_nd
    ld_ok := fun ld hld => (h.ld_ok ld hld).mono (fun _ he => he) (QExt.setRes s d _)
    ret_ok := h.ret_ok, push_ok := h.push_ok }

/-- the deferred removal of a finished dialer runs -/
theorem WF.dexit {cfg : Cfg} {lp : Nat} {s : State} (h : WF cfg lp s) {d : Nat} {qd : QDialer}
    (hg : getQD s d = some qd) :
    WF cfg lp { s with pendExit := s.pendExit.erase d,
                        dmap := if dmapGet s qd.addr = some d then dmapDel s.dmap qd.addr else s.dmap } := by
  obtain ⟨hqm, hqid⟩ := getQD_some hg
  have hsub : ∀ e ∈ (if dmapGet s qd.addr = some d then dmapDel s.dmap qd.addr else s.dmap), e ∈ s.dmap := by
    intro e he
    split at he
    · exact (mem_dmapDel.1 he).1
    · exact he
  exact
  { ids := h.ids, res_cr := h.res_cr
    dmap_ok := fun e he => h.dmap_ok e (hsub e he)
    dmap_nd := by
      show ((if dmapGet s qd.addr = some d then dmapDel s.dmap qd.addr else s.dmap).map (·.1)).Nodup
      split
      · exact Links.nodup_map_filter _ _ h.dmap_nd
      · exact h.dmap_nd
    fin_pend := by
      intro e he x hx hid hres
      have he' := hsub e he
      have hin := h.fin_pend e he' x hx hid hres
      by_cases hed : e.2 = d
      · -- the entry of the exiting dialer itself cannot have survived
        exfalso
        have hx' : x = qd := h.id_inj x hx qd hqm (hid.trans (hed.trans hqid.symm))
        have hk : e.1 = qd.addr := by rw [← hx']; exact ((h.dmap_ok e he').2 x hx hid).symm
        have hget : dmapGet s qd.addr = some d := by
          apply dmapGet_of_mem h.dmap_nd
          have : e = (qd.addr, d) := by cases e; simp_all
          exact this ▸ he'
        rw [if_pos hget] at he
        exact (mem_dmapDel.1 he).2 hk
      · exact (List.mem_erase_of_ne hed).2 hin
    pend_lt := fun d' hd' => h.pend_lt d' (List.mem_of_mem_erase hd')
    keys_nd := h.keys_nd, ld_ok := h.ld_ok, ret_ok := h.ret_ok, push_ok := h.push_ok }

end DialSys
end Bifrost
