import Bifrost.Lemmas.SigSess
/-! Session-side per-call invariant `CallInv` and its preservation at record level
(pure facts about `Sess`/`SCall`/`Att` records; no heap). -/
namespace Bifrost
namespace SigSess
open Bifrost.Sig

/-- strengthened `wakeOk` (without the "outbox non-empty" escape), on the records. -/
def WakeCond (t : Sess) (c : SCall) : Prop :=
  c.ended = true ∨ c.failing = true ∨ c.waitGen < t.gen ∨
    ∃ o, (t.sides c.isA).1 = some o ∧ o.call = c.id ∧
      c.announced = (if (t.sides c.isA).2.isSome then some t.seqno else none) ∧
      ((t.sides c.isA).2 = none ∨ (o.recv = none ∧ o.outAcked = none))

/-- Per-call invariant, `t` being the session tracker of `c`, `A e m` = "m was accepted for c in epoch e". -/
structure CallInv (A : Nat → Msg → Prop) (t : Sess) (c : SCall) : Prop where
  key : (sessKey c.src c.dst).1 = (t.a, t.b)
  gen : c.waitGen ≤ t.gen
  stored : ∀ o m, (t.sides c.isA).1 = some o → o.call = c.id → o.recv = some m → A t.seqno m
  fwd : ∀ m, Resp.recv m ∈ c.outbox → ∃ e, c.announced = some e ∧ A e m
  wake : WakeCond t c

variable {A A' : Nat → Msg → Prop} {t : Sess} {c d : SCall}

/-- only the generation grows -/
theorem CallInv.bcast (h : CallInv A t c) (hA : ∀ e m, A e m → A' e m) : CallInv A' t.bcast c := by
  obtain ⟨h1, h2, h3, h4, h5⟩ := h
  refine ⟨h1, ?_, ?_, ?_, ?_⟩
  · simp [Sess.bcast]; omega
  · intro o m; simpa [Sess.bcast, Sess.sides] using fun a b c => hA _ _ (h3 o m a b c)
  · intro m hm; obtain ⟨e, he, ha⟩ := h4 m hm; exact ⟨e, he, hA _ _ ha⟩
  · right; right; left; simp [Sess.bcast]; omega

/-! ### the new trackers written by the steps -/

def clearAtt (o : Att) : Att := { o with recv := none, recvSent := none }

def initSess (t : Sess) (isA : Bool) (call : Nat) (other : Option Att) : Sess :=
  let t1 := t.setSides isA (some { call := call }) (other.map clearAtt)
  ({ t1 with seqno := t1.seqno + 1 }).bcast

def sendSess (t : Sess) (isA : Bool) (ours other : Att) (m : Msg) : Sess :=
  (t.setSides isA (some ours) (some { other with recv := some m, recvSent := none })).bcast

def ackSess (t : Sess) (isA : Bool) (ours other : Att) (k : Nat) : Sess :=
  (t.setSides isA (some { ours with recvSent := none }) (some { other with outAcked := some k })).bcast

def clearSess1 (t : Sess) (isA : Bool) (ours other : Att) : Sess :=
  t.setSides isA (some ours) (some { other with recv := none })

def clearSess2 (t : Sess) (isA : Bool) (ours other : Att) (k : Nat) : Sess :=
  t.setSides isA (some ours) (some { other with recvSent := none, recvClear := some k })

def loopAtt (ours : Att) : Att :=
  { ours with recv := none, recvClear := none, outAcked := none,
              recvSent := (match ours.recv with | some m => some m.seqno | none => ours.recvSent) }

def loopSess (t : Sess) (isA : Bool) (ours : Att) (otherO : Option Att) : Sess :=
  if ours.recv.isSome then (t.setSides isA (some (loopAtt ours)) otherO).bcast
  else t.setSides isA (some (loopAtt ours)) otherO

def loopOut (d : SCall) (t : Sess) (ours : Att) : List Resp :=
  (if d.announced ≠ some t.seqno then [Resp.opened t.seqno] else [])
    ++ (match ours.outAcked with | some k => [Resp.ack k] | none => [])
    ++ (match ours.recvClear with | some k => [Resp.clear k] | none => [])
    ++ (match ours.recv with | some m => [Resp.recv m] | none => [])

def endSess (t : Sess) (isA : Bool) (other : Option Att) : Sess :=
  let t1 := t.setSides isA none (other.map clearAtt)
  ({ t1 with seqno := t1.seqno + 1 }).bcast

@[simp] theorem setSides_a (t : Sess) (isA o1 o2) : (t.setSides isA o1 o2).a = t.a := by cases isA <;> rfl
@[simp] theorem setSides_b (t : Sess) (isA o1 o2) : (t.setSides isA o1 o2).b = t.b := by cases isA <;> rfl
@[simp] theorem setSides_sid (t : Sess) (isA o1 o2) : (t.setSides isA o1 o2).sid = t.sid := by cases isA <;> rfl
@[simp] theorem setSides_gen (t : Sess) (isA o1 o2) : (t.setSides isA o1 o2).gen = t.gen := by cases isA <;> rfl
@[simp] theorem setSides_seqno (t : Sess) (isA o1 o2) : (t.setSides isA o1 o2).seqno = t.seqno := by cases isA <;> rfl
@[simp] theorem setSides_sides_same (t : Sess) (isA o1 o2) : (t.setSides isA o1 o2).sides isA = (o1, o2) := by
  cases isA <;> rfl
@[simp] theorem setSides_sides_opp (t : Sess) (isA o1 o2) : (t.setSides isA o1 o2).sides (!isA) = (o2, o1) := by
  cases isA <;> rfl
theorem setSides_sides_ne (t : Sess) {isA isA' : Bool} (h : isA' ≠ isA) (o1 o2) :
    (t.setSides isA o1 o2).sides isA' = (o2, o1) := by
  cases isA <;> cases isA' <;> first | rfl | exact absurd rfl h
theorem sides_opp (t : Sess) {isA isA' : Bool} (h : isA' ≠ isA) :
    t.sides isA' = ((t.sides isA).2, (t.sides isA).1) := by
  cases isA <;> cases isA' <;> first | rfl | exact absurd rfl h
@[simp] theorem bcast_a (t : Sess) : t.bcast.a = t.a := rfl
@[simp] theorem bcast_b (t : Sess) : t.bcast.b = t.b := rfl
@[simp] theorem bcast_sid (t : Sess) : t.bcast.sid = t.sid := rfl
@[simp] theorem bcast_gen (t : Sess) : t.bcast.gen = t.gen + 1 := rfl
@[simp] theorem bcast_seqno (t : Sess) : t.bcast.seqno = t.seqno := rfl
@[simp] theorem bcast_sides (t : Sess) (isA) : t.bcast.sides isA = t.sides isA := by cases isA <;> rfl

@[simp] theorem initSess_a (t : Sess) (isA call o) : (initSess t isA call o).a = t.a := by simp [initSess]
@[simp] theorem initSess_b (t : Sess) (isA call o) : (initSess t isA call o).b = t.b := by simp [initSess]
@[simp] theorem initSess_sid (t : Sess) (isA call o) : (initSess t isA call o).sid = t.sid := by simp [initSess]
@[simp] theorem initSess_gen (t : Sess) (isA call o) : (initSess t isA call o).gen = t.gen + 1 := by simp [initSess]
@[simp] theorem initSess_seqno (t : Sess) (isA call o) : (initSess t isA call o).seqno = t.seqno + 1 := by simp [initSess]
theorem initSess_sides (t : Sess) (isA call o) :
    (initSess t isA call o).sides isA = (some { call := call }, o.map clearAtt) := by
  cases isA <;> rfl

@[simp] theorem sendSess_a (t : Sess) (isA o1 o2 m) : (sendSess t isA o1 o2 m).a = t.a := by simp [sendSess]
@[simp] theorem sendSess_b (t : Sess) (isA o1 o2 m) : (sendSess t isA o1 o2 m).b = t.b := by simp [sendSess]
@[simp] theorem sendSess_sid (t : Sess) (isA o1 o2 m) : (sendSess t isA o1 o2 m).sid = t.sid := by simp [sendSess]
@[simp] theorem sendSess_gen (t : Sess) (isA o1 o2 m) : (sendSess t isA o1 o2 m).gen = t.gen + 1 := by simp [sendSess]
@[simp] theorem sendSess_seqno (t : Sess) (isA o1 o2 m) : (sendSess t isA o1 o2 m).seqno = t.seqno := by simp [sendSess]

@[simp] theorem ackSess_a (t : Sess) (isA o1 o2 m) : (ackSess t isA o1 o2 m).a = t.a := by simp [ackSess]
@[simp] theorem ackSess_b (t : Sess) (isA o1 o2 m) : (ackSess t isA o1 o2 m).b = t.b := by simp [ackSess]
@[simp] theorem ackSess_sid (t : Sess) (isA o1 o2 m) : (ackSess t isA o1 o2 m).sid = t.sid := by simp [ackSess]
@[simp] theorem ackSess_gen (t : Sess) (isA o1 o2 m) : (ackSess t isA o1 o2 m).gen = t.gen + 1 := by simp [ackSess]
@[simp] theorem ackSess_seqno (t : Sess) (isA o1 o2 m) : (ackSess t isA o1 o2 m).seqno = t.seqno := by simp [ackSess]

@[simp] theorem clearSess1_a (t : Sess) (isA o1 o2) : (clearSess1 t isA o1 o2).a = t.a := by simp [clearSess1]
@[simp] theorem clearSess1_b (t : Sess) (isA o1 o2) : (clearSess1 t isA o1 o2).b = t.b := by simp [clearSess1]
@[simp] theorem clearSess1_sid (t : Sess) (isA o1 o2) : (clearSess1 t isA o1 o2).sid = t.sid := by simp [clearSess1]
@[simp] theorem clearSess1_gen (t : Sess) (isA o1 o2) : (clearSess1 t isA o1 o2).gen = t.gen := by simp [clearSess1]
@[simp] theorem clearSess1_seqno (t : Sess) (isA o1 o2) : (clearSess1 t isA o1 o2).seqno = t.seqno := by simp [clearSess1]

@[simp] theorem clearSess2_a (t : Sess) (isA o1 o2 k) : (clearSess2 t isA o1 o2 k).a = t.a := by simp [clearSess2]
@[simp] theorem clearSess2_b (t : Sess) (isA o1 o2 k) : (clearSess2 t isA o1 o2 k).b = t.b := by simp [clearSess2]
@[simp] theorem clearSess2_sid (t : Sess) (isA o1 o2 k) : (clearSess2 t isA o1 o2 k).sid = t.sid := by simp [clearSess2]
@[simp] theorem clearSess2_gen (t : Sess) (isA o1 o2 k) : (clearSess2 t isA o1 o2 k).gen = t.gen := by simp [clearSess2]
@[simp] theorem clearSess2_seqno (t : Sess) (isA o1 o2 k) : (clearSess2 t isA o1 o2 k).seqno = t.seqno := by simp [clearSess2]

@[simp] theorem loopSess_a (t : Sess) (isA o1 o2) : (loopSess t isA o1 o2).a = t.a := by
  simp only [loopSess]; split <;> simp
@[simp] theorem loopSess_b (t : Sess) (isA o1 o2) : (loopSess t isA o1 o2).b = t.b := by
  simp only [loopSess]; split <;> simp
@[simp] theorem loopSess_sid (t : Sess) (isA o1 o2) : (loopSess t isA o1 o2).sid = t.sid := by
  simp only [loopSess]; split <;> simp
@[simp] theorem loopSess_seqno (t : Sess) (isA o1 o2) : (loopSess t isA o1 o2).seqno = t.seqno := by
  simp only [loopSess]; split <;> simp
theorem loopSess_gen (t : Sess) (isA o1 o2) :
    (loopSess t isA o1 o2).gen = if o1.recv.isSome then t.gen + 1 else t.gen := by
  simp only [loopSess]; split <;> simp
theorem loopSess_sides (t : Sess) (isA o1 o2) : (loopSess t isA o1 o2).sides isA = (some (loopAtt o1), o2) := by
  simp only [loopSess]; split <;> simp

@[simp] theorem endSess_a (t : Sess) (isA o) : (endSess t isA o).a = t.a := by simp [endSess]
@[simp] theorem endSess_b (t : Sess) (isA o) : (endSess t isA o).b = t.b := by simp [endSess]
@[simp] theorem endSess_sid (t : Sess) (isA o) : (endSess t isA o).sid = t.sid := by simp [endSess]
@[simp] theorem endSess_gen (t : Sess) (isA o) : (endSess t isA o).gen = t.gen + 1 := by simp [endSess]
@[simp] theorem endSess_seqno (t : Sess) (isA o) : (endSess t isA o).seqno = t.seqno + 1 := by simp [endSess]
theorem endSess_sides (t : Sess) (isA o) : (endSess t isA o).sides isA = (none, o.map clearAtt) := by
  cases isA <;> rfl

/-! ### preservation of `CallInv` -/

theorem CallInv.readerDone (h : CallInv A t c) (hA : ∀ e m, A e m → A' e m) :
    CallInv A' t { c with readerDone := true } := by
  obtain ⟨h1, h2, h3, h4, h5⟩ := h
  exact ⟨h1, h2, fun o m a b c => hA _ _ (h3 o m a b c),
    fun m hm => let ⟨e, he, ha⟩ := h4 m hm; ⟨e, he, hA _ _ ha⟩, h5⟩

theorem CallInv.init_other (h : CallInv A t c) (hA : ∀ e m, A e m → A' e m) (isA : Bool) (call : Nat)
    {other : Option Att} (ho : (t.sides isA).2 = other) :
    CallInv A' (initSess t isA call other) c := by
  subst ho
  obtain ⟨h1, h2, h3, h4, h5⟩ := h
  refine ⟨by simpa using h1, by simp; omega, ?_, fun m hm => let ⟨e, he, ha⟩ := h4 m hm; ⟨e, he, hA _ _ ha⟩, ?_⟩
  · intro o m
    cases isA <;> cases c.isA <;> simp [initSess, Sess.bcast, Sess.setSides, Sess.sides, clearAtt] <;> grind
  · right; right; left
    simp; omega


theorem CallInv.init_new (t : Sess) (call src dst dstTkr : Nat) (other : Option Att) (hkey : (sessKey src dst).1 = (t.a, t.b)) :
    CallInv A' (initSess t (sessKey src dst).2 call other)
      { id := call, src := src, dst := dst, sess := t.sid, dstTkr := dstTkr, waitGen := t.gen } := by
  refine ⟨by simpa using hkey, by simp, ?_, by simp, ?_⟩
  · intro o m
    simp only [SCall.isA, initSess_sides]
    grind
  · right; right; left; simp

theorem activePair_eq {t : Sess} {d : SCall} {ours other : Att} :
    activePair t d = some (ours, other) ↔ t.sides d.isA = (some ours, some other) ∧ ours.call = d.id := by
  unfold activePair
  split
  · rename_i o1 o2 h
    rw [h]
    split <;> grind
  · rename_i h
    constructor
    · simp
    · intro ⟨h1, _⟩
      exact absurd h1 (h _ _)

theorem CallInv.send (h : CallInv A t c) (hA : ∀ e m, A e m → A' e m) {ours other : Att}
    (hp : activePair t d = some (ours, other)) (m : Msg) (hm : c.isA ≠ d.isA → A' t.seqno m) :
    CallInv A' (sendSess t d.isA ours other m) c := by
  obtain ⟨h1, h2, h3, h4, h5⟩ := h
  have ⟨hs, hcall⟩ := activePair_eq.1 hp
  refine ⟨by simpa using h1, by simp; omega, ?_, fun m hm => let ⟨e, he, ha⟩ := h4 m hm; ⟨e, he, hA _ _ ha⟩, ?_⟩
  · intro o m'
    revert hs h3 hm
    cases d.isA <;> cases c.isA <;> simp [sendSess, Sess.bcast, Sess.setSides, Sess.sides] <;> grind
  · right; right; left; simp; omega

theorem CallInv.ack (h : CallInv A t c) (hA : ∀ e m, A e m → A' e m) {ours other : Att}
    (hp : activePair t d = some (ours, other)) (k : Nat) :
    CallInv A' (ackSess t d.isA ours other k) c := by
  obtain ⟨h1, h2, h3, h4, h5⟩ := h
  have ⟨hs, hcall⟩ := activePair_eq.1 hp
  refine ⟨by simpa using h1, by simp; omega, ?_, fun m hm => let ⟨e, he, ha⟩ := h4 m hm; ⟨e, he, hA _ _ ha⟩, ?_⟩
  · intro o m'
    revert hs h3
    cases d.isA <;> cases c.isA <;> simp [ackSess, Sess.bcast, Sess.setSides, Sess.sides] <;> grind
  · right; right; left; simp; omega

theorem CallInv.clear1 (h : CallInv A t c) (hA : ∀ e m, A e m → A' e m) {ours other : Att}
    (hp : activePair t d = some (ours, other)) :
    CallInv A' (clearSess1 t d.isA ours other) c := by
  obtain ⟨h1, h2, h3, h4, h5⟩ := h
  have ⟨hs, hcall⟩ := activePair_eq.1 hp
  refine ⟨by simpa using h1, by simp; omega, ?_, fun m hm => let ⟨e, he, ha⟩ := h4 m hm; ⟨e, he, hA _ _ ha⟩, ?_⟩
  · intro o m'
    revert hs h3
    cases d.isA <;> cases c.isA <;> simp [clearSess1, Sess.setSides, Sess.sides] <;> grind
  · revert hs h5
    unfold WakeCond
    cases d.isA <;> cases c.isA <;> simp [clearSess1, Sess.setSides, Sess.sides] <;> grind

theorem CallInv.clear2 (h : CallInv A t c) (hA : ∀ e m, A e m → A' e m) {ours other : Att}
    (hp : activePair t d = some (ours, other)) (k : Nat) :
    CallInv A' (clearSess2 t d.isA ours other k) c := by
  obtain ⟨h1, h2, h3, h4, h5⟩ := h
  have ⟨hs, hcall⟩ := activePair_eq.1 hp
  refine ⟨by simpa using h1, by simp; omega, ?_, fun m hm => let ⟨e, he, ha⟩ := h4 m hm; ⟨e, he, hA _ _ ha⟩, ?_⟩
  · intro o m'
    revert hs h3
    cases d.isA <;> cases c.isA <;> simp [clearSess2, Sess.setSides, Sess.sides] <;> grind
  · revert hs h5
    unfold WakeCond
    cases d.isA <;> cases c.isA <;> simp [clearSess2, Sess.setSides, Sess.sides] <;> grind


theorem CallInv.loop_usurped (h : CallInv A t d) (hA : ∀ e m, A e m → A' e m) :
    CallInv A' t { d with waitGen := t.gen, failing := true } := by
  obtain ⟨h1, h2, h3, h4, h5⟩ := h
  exact ⟨h1, Nat.le_refl _, fun o m a b c => hA _ _ (h3 o m a b c),
    fun m hm => let ⟨e, he, ha⟩ := h4 m hm; ⟨e, he, hA _ _ ha⟩, Or.inr (Or.inl rfl)⟩

theorem CallInv.loop_closed (h : CallInv A t d) (hA : ∀ e m, A e m → A' e m) {ours : Att}
    (hs : t.sides d.isA = (some ours, none)) (hcall : ours.call = d.id) (hout : d.outbox = []) :
    CallInv A' t { d with waitGen := t.gen, announced := none,
                          outbox := d.outbox ++ (if d.announced ≠ none then [Resp.closed] else []) } := by
  obtain ⟨h1, h2, h3, h4, h5⟩ := h
  refine ⟨h1, Nat.le_refl _, fun o m a b c => hA _ _ (h3 o m a b c), ?_, ?_⟩
  · intro m hm
    simp only [hout, List.nil_append] at hm
    split at hm <;> simp at hm
  · right; right; right
    exact ⟨ours, by show (t.sides d.isA).1 = _; rw [hs], hcall, by show none = if (t.sides d.isA).2.isSome then _ else _; rw [hs]; rfl,
      Or.inl (by show (t.sides d.isA).2 = none; rw [hs])⟩

theorem CallInv.loop_main (h : CallInv A t d) (hA : ∀ e m, A e m → A' e m) {ours other : Att}
    (hs : t.sides d.isA = (some ours, some other)) (hcall : ours.call = d.id) (hout : d.outbox = []) :
    CallInv A' (loopSess t d.isA ours (some other))
      { d with waitGen := t.gen, announced := some t.seqno, outbox := d.outbox ++ loopOut d t ours } := by
  obtain ⟨h1, h2, h3, h4, h5⟩ := h
  refine ⟨by simpa using h1, ?_, ?_, ?_, ?_⟩
  · simp only [loopSess_gen]; split <;> omega
  · intro o m ho
    have : (loopSess t d.isA ours (some other)).sides d.isA = _ := loopSess_sides _ _ _ _
    change ((loopSess t d.isA ours (some other)).sides d.isA).1 = some o at ho
    rw [this] at ho
    simp at ho; subst ho
    simp [loopAtt]
  · intro m hm
    simp only [hout, List.nil_append, loopOut] at hm
    refine ⟨t.seqno, rfl, ?_⟩
    have hrecv : ours.recv = some m := by
      simp only [List.mem_append] at hm
      rcases hm with ((hm | hm) | hm) | hm
      · split at hm <;> simp at hm
      · split at hm <;> simp at hm
      · split at hm <;> simp at hm
      · split at hm
        · simp at hm; subst hm; assumption
        · simp at hm
    exact hA _ _ (h3 ours m (by rw [hs]) hcall hrecv)
  · right; right; right
    have : (loopSess t d.isA ours (some other)).sides d.isA = _ := loopSess_sides _ _ _ _
    refine ⟨loopAtt ours, ?_, hcall, ?_, Or.inr ⟨rfl, rfl⟩⟩
    · change ((loopSess t d.isA ours (some other)).sides d.isA).1 = _; rw [this]
    · change some t.seqno = if ((loopSess t d.isA ours (some other)).sides d.isA).2.isSome then _ else _
      rw [this]; simp

theorem CallInv.loop_other_core (h : CallInv A t c) (hA : ∀ e m, A e m → A' e m) {ours other : Att}
    (hs : t.sides d.isA = (some ours, some other)) (hcall : ours.call = d.id) (hne : c.id ≠ d.id) :
    CallInv A' (t.setSides d.isA (some (loopAtt ours)) (some other)) c := by
  obtain ⟨h1, h2, h3, h4, h5⟩ := h
  refine ⟨by simpa using h1, by simp; omega, ?_, fun m hm => let ⟨e, he, ha⟩ := h4 m hm; ⟨e, he, hA _ _ ha⟩, ?_⟩
  · intro o m'
    revert hs h3
    cases d.isA <;> cases c.isA <;> simp [loopAtt, Sess.setSides, Sess.sides] <;> grind
  · revert hs h5
    unfold WakeCond
    cases d.isA <;> cases c.isA <;> simp [loopAtt, Sess.setSides, Sess.sides] <;> grind

theorem CallInv.loop_other (h : CallInv A t c) (hA : ∀ e m, A e m → A' e m) {ours other : Att}
    (hs : t.sides d.isA = (some ours, some other)) (hcall : ours.call = d.id) (hne : c.id ≠ d.id) :
    CallInv A' (loopSess t d.isA ours (some other)) c := by
  unfold loopSess
  split
  · exact (h.loop_other_core hA hs hcall hne).bcast (fun _ _ h => h)
  · exact h.loop_other_core hA hs hcall hne

theorem CallInv.end_self (h : CallInv A t d) (hA : ∀ e m, A e m → A' e m) :
    CallInv A' t { d with ended := true, failing := true, outbox := [] } := by
  obtain ⟨h1, h2, h3, h4, h5⟩ := h
  exact ⟨h1, h2, fun o m a b c => hA _ _ (h3 o m a b c), by simp, Or.inl rfl⟩

theorem CallInv.end_att (h : CallInv A t c) (hA : ∀ e m, A e m → A' e m) (isA : Bool)
    {other : Option Att} (ho : (t.sides isA).2 = other) :
    CallInv A' (endSess t isA other) c := by
  subst ho
  obtain ⟨h1, h2, h3, h4, h5⟩ := h
  refine ⟨by simpa using h1, by simp; omega, ?_, fun m hm => let ⟨e, he, ha⟩ := h4 m hm; ⟨e, he, hA _ _ ha⟩, ?_⟩
  · intro o m
    cases isA <;> cases c.isA <;> simp [endSess, Sess.bcast, Sess.setSides, Sess.sides, clearAtt] <;> grind
  · right; right; left
    simp; omega

theorem CallInv.tx (h : CallInv A t d) (hA : ∀ e m, A e m → A' e m) {x : Resp} {rest : List Resp}
    (hout : d.outbox = x :: rest) : CallInv A' t { d with outbox := rest } := by
  obtain ⟨h1, h2, h3, h4, h5⟩ := h
  refine ⟨h1, h2, fun o m a b c => hA _ _ (h3 o m a b c), ?_, h5⟩
  intro m hm
  obtain ⟨e, he, ha⟩ := h4 m (by rw [hout]; exact List.mem_cons_of_mem _ hm)
  exact ⟨e, he, hA _ _ ha⟩

end SigSess
end Bifrost
