import Bifrost.Lemmas.EncryptLayout
/-! The form of every ciphertext `EncryptToEd25519` produces and of every ciphertext
`DecryptWithEd25519` accepts. -/
namespace Bifrost.Encrypt
open Bifrost Bifrost.Lo25519

/-- `ct` is the assembly, for recipient public key `tPub` and context `ctx`, of message key
`mp` and sealed payload `c` under shared secret `ss` with nonce `nonce`:
`nonce[:4] ‖ AES_{kdf(prefix‖ctx, tPub‖nonce[:4])}(mp[:16]) ‖ mp[16:] ‖ seal(ss, nonce, c, aad = mp)`,
the nonce being derived from `mp`. -/
structure Sealed (P : Prims) (tPub ctx mp c ss nonce ct : Bytes) : Prop where
  mp_len : mp.length = 32
  ss_len : ss.length = 32
  nonce_of : ∃ h, P (.kdf (domNonce ++ ctx) mp 32) = some h ∧ xorNonce h = .ok nonce
  asm : ∃ aesSeed e16 body, P (.kdf (domPrefix ++ ctx) (tPub ++ nonce.take 4) 32) = some aesSeed ∧
    P (.blkEnc (aesSeed.take 32) (mp.take 16)) = some e16 ∧ P (.seal ss nonce c mp) = some body ∧
    ct = nonce.take 4 ++ (e16 ++ (mp.drop 16 ++ body))

theorem Sealed.nonce_len {P : Prims} (hl : LenLaws P) {tPub ctx mp c ss nonce ct : Bytes}
    (s : Sealed P tPub ctx mp c ss nonce ct) : nonce.length = 24 := by
  obtain ⟨h, hk, hx⟩ := s.nonce_of
  exact xorNonce_ok_len h nonce hx (hl.kdf _ _ _ _ hk)

/-- the AEAD body of an assembled ciphertext starts at offset 36 -/
theorem Sealed.body {P : Prims} (hl : LenLaws P) {tPub ctx mp c ss nonce ct : Bytes}
    (s : Sealed P tPub ctx mp c ss nonce ct) : P (.seal ss nonce c mp) = some (ct.drop 36) ∧ 36 ≤ ct.length := by
  have hn := s.nonce_len hl
  obtain ⟨aesSeed, e16, body, _, he, hb, rfl⟩ := s.asm
  have l1 : (nonce.take 4).length = 4 := by simp [hn]
  have l2 : e16.length = 16 := hl.blkEnc _ _ _ (by simp [s.mp_len]) he
  have l3 : (mp.drop 16).length = 16 := by simp [s.mp_len]
  have := layout_drop36 _ _ _ body l1 l2 l3
  have h36 := (sliceFrom_eq_some _ _ _ this)
  constructor
  · rw [← h36.2]; exact hb
  · exact h36.1

/-- Two assembled ciphertexts with the same AEAD body have the same message key, payload,
shared secret and nonce (a sealed box determines its inputs). -/
theorem Sealed.inj {P : Prims} (hl : LenLaws P) (hc : CryptoLaws P)
    {tPub ctx mp c ss nonce ct tPub' ctx' mp' c' ss' nonce' ct' : Bytes}
    (s : Sealed P tPub ctx mp c ss nonce ct) (s' : Sealed P tPub' ctx' mp' c' ss' nonce' ct')
    (hb : ct.drop 36 = ct'.drop 36) : ss = ss' ∧ nonce = nonce' ∧ c = c' ∧ mp = mp' := by
  have h1 := (s.body hl).1
  have h2 := (s'.body hl).1
  rw [hb] at h1
  exact hc.seal_inj _ _ _ _ _ _ _ _ _ h1 h2

/-- The assembly is a function of its parameters. -/
theorem Sealed.det {P : Prims} {tPub ctx mp c ss nonce ct ct' : Bytes}
    (s : Sealed P tPub ctx mp c ss nonce ct) (s' : Sealed P tPub ctx mp c ss nonce ct') : ct = ct' := by
  obtain ⟨a, e, b, h1, h2, h3, rfl⟩ := s.asm
  obtain ⟨a', e', b', h1', h2', h3', rfl⟩ := s'.asm
  rw [h1] at h1'
  injection h1' with h1'
  subst h1'
  rw [h2] at h2'
  injection h2' with h2'
  rw [h3] at h3'
  injection h3' with h3'
  rw [h2', h3']

/-- What `EncryptToEd25519` returns. -/
theorem encrypt_sealed (P : Prims) (hl : LenLaws P) (tPub ctx msg ct : Bytes)
    (he : encrypt P tPub ctx msg = .ok ct) :
    tPub.length = 32 ∧ ∃ msgSeed msgPub msgX64 tX cmsg ss nonce,
      P (.kdf (domSeed ++ ctx) (msg ++ tPub) 32) = some msgSeed ∧
      P (.edPub msgSeed) = some msgPub ∧ P (.clamp msgSeed) = some msgX64 ∧
      toX P tPub = .ok (some tX) ∧ P (.s2enc msg) = some cmsg ∧
      P (.x25519 (msgX64.take 32) tX) = some ss ∧
      Sealed P tPub ctx msgPub cmsg ss nonce ct := by
  unfold encrypt encryptProg at he
  simp only [failIf_ok, askE_ok, panicIf_ok, need_ok, bindO_ok, pubToX_ok, orErr_ok, done_ok] at he
  obtain ⟨hlen, msgSeed, hSeed, _, msgPub, hPub, msgX64, hX64, msgX, hmsgX, h, hh, nonce, hnonce,
    o, hto, tX, rfl, _, cmsg, hcmsg, n4, hn4, aesSeed, haes, aesKey, haesKey, e16, he16, ss, hss,
    hsslen, body, hbody, rfl⟩ := he
  have lp : msgPub.length = 32 := hl.edPub _ _ hPub
  have hX := (sliceTo_eq_some _ _ _ hmsgX).2
  have hn := (sliceTo_eq_some _ _ _ hn4).2
  have hk := (sliceTo_eq_some _ _ _ haesKey).2
  subst hX hn hk
  rw [copy32_of_len _ lp] at he16
  refine ⟨by simpa using hlen, msgSeed, msgPub, msgX64, tX, cmsg, ss, nonce, hSeed, hPub, hX64, hto, hcmsg, hss, ?_⟩
  refine ⟨lp, by simpa using hsslen, ⟨h, hh, hnonce⟩, aesSeed, e16, body, haes, he16, hbody, ?_⟩
  rw [copy32_of_len _ lp]
  simp

/-- What `DecryptWithEd25519` accepts: exactly assembled ciphertexts whose message key has the
Montgomery form of the key derived from (context, returned plaintext, recipient public key),
whose payload decompresses to the returned plaintext, sealed under the X25519 secret between
the recipient's converted private key and the message key. -/
theorem decrypt_sealed (P : Prims) (hl : LenLaws P) (hc : CryptoLaws P) (tPriv ctx ct msg : Bytes)
    (hd : decrypt P tPriv ctx ct = .ok msg) :
    tPriv.length = 64 ∧ ∃ mp mX tX64 c ss nonce seed' ed',
      toX P mp = .ok (some mX) ∧ P (.clamp (tPriv.take 32)) = some tX64 ∧
      P (.x25519 (tX64.take 32) mX) = some ss ∧ P (.s2dec c) = some msg ∧
      P (.kdf (domSeed ++ ctx) (msg ++ tPriv.drop 32) 32) = some seed' ∧
      P (.edPub seed') = some ed' ∧ toX P ed' = .ok (some mX) ∧
      Sealed P (tPriv.drop 32) ctx mp c ss nonce ct := by
  have hk : tPriv.length = 64 := by
    unfold decrypt decryptProg at hd
    rw [failIf_ok] at hd
    simpa using hd.1
  have h36 : 36 ≤ ct.length := by
    unfold decrypt decryptProg at hd
    rw [failIf_ok, failIf_ok] at hd
    have := hd.2.1
    omega
  obtain ⟨n4, e16, r16, body, ln, le, lr, rfl⟩ := layout_exists ct h36
  unfold decrypt at hd
  rw [decryptProg_layout _ _ _ _ _ _ hk ln le lr] at hd
  unfold decryptCore at hd
  simp only [failIf_ok, askE_ok, panicIf_ok, need_ok, bindO_ok, pubToX_ok, orErr_ok, done_ok] at hd
  obtain ⟨aesSeed, haes, aesKey, haesKey, d16, hd16, o, hto, mX, rfl, _, tX64, htX64, tX, htX, ss, hss,
    h, hh, nonce, hnonce, n4', hn4', hn4eq, hsslen, msgDec, hopen, msgSrc, hs2, msgSeed, hseed, _,
    mEd, hmEd, o', hto', exp, rfl, hexp, rfl⟩ := hd
  have hkx := (sliceTo_eq_some _ _ _ haesKey)
  have htx := (sliceTo_eq_some _ _ _ htX).2
  have hn := (sliceTo_eq_some _ _ _ hn4').2
  have hkey := hkx.2
  subst htx hn hkey
  have hn4 : nonce.take 4 = n4 := by simpa using hn4eq
  have hexp' : exp = mX := by simpa using hexp
  subst hexp'
  have laes : aesSeed.length = 32 := hl.kdf _ _ _ _ haes
  have ld16 : d16.length = 16 := hl.blkDec _ _ _ le hd16
  have hblk := hc.blk_enc_dec _ _ _ (by simp [laes]) le hd16
  have hseal := hc.open_only _ _ _ _ _ hopen
  refine ⟨hk, d16 ++ r16, exp, tX64, msgDec, ss, nonce, msgSeed, mEd, hto, htX64, hss, hs2, hseed, hmEd, hto', ?_⟩
  refine ⟨by simp [ld16, lr], by simpa using hsslen, ⟨h, hh, hnonce⟩, aesSeed, e16, body, ?_, ?_, hseal, ?_⟩
  · rw [hn4]; exact haes
  · have : (d16 ++ r16).take 16 = d16 := by rw [← ld16, List.take_left]
    rw [this]; exact hblk
  · have : (d16 ++ r16).drop 16 = r16 := by rw [← ld16, List.drop_left]
    rw [this, hn4]

end Bifrost.Encrypt
