import Bifrost.Model.Pubsub
/-! Helper lemmas for C29: the controller's link table (`Pubsub.Ctl`), the receiving side of the
subscription announcements (`Pubsub.Recv`) and the per-session send queue (`Pubsub.SendQ`). -/
namespace Bifrost
namespace Pubsub

namespace Ctl

theorem run_append (s : State) (a b : List Ev) : run s (a ++ b) = run (run s a) b := by
  simp [run, List.foldl_append]

theorem run_cons (s : State) (e : Ev) (l : List Ev) : run s (e :: l) = run (step s e) l := rfl

/-- every stream the controller opened is on a link whose OWN local identity makes it the opener -/
def OpenedOk (s : State) : Prop := ∀ l ∈ s.opened, opensStream l.localId l.remoteId = true

theorem step_openedOk (s : State) (ev : Ev) (h : OpenedOk s) : OpenedOk (step s ev) := by
  cases ev with
  | added l => exact h
  | removed l => exact h
  | loop => exact h
  | track k =>
    simp only [step]
    split
    · exact h
    · rename_i l hl
      intro x hx
      simp only at hx
      split at hx
      · rename_i ho
        rcases List.mem_append.mp hx with hx | hx
        · exact h x hx
        · simp only [List.mem_singleton] at hx
          subst hx
          exact ho
      · exact h x hx

theorem run_openedOk (s : State) (evs : List Ev) (h : OpenedOk s) : OpenedOk (run s evs) := by
  induction evs generalizing s with
  | nil => exact h
  | cons e t ih => exact ih _ (step_openedOk s e h)

theorem init_openedOk : OpenedOk {} := by
  intro l hl
  cases hl

theorem step_opened_mono (s : State) (ev : Ev) (l : Link) (h : l ∈ s.opened) : l ∈ (step s ev).opened := by
  cases ev with
  | added _ => exact h
  | removed _ => exact h
  | loop => exact h
  | track k =>
    simp only [step]
    split
    · exact h
    · simp only
      split
      · exact List.mem_append_left _ h
      · exact h

theorem run_opened_mono (s : State) (evs : List Ev) (l : Link) (h : l ∈ s.opened) : l ∈ (run s evs).opened := by
  induction evs generalizing s with
  | nil => exact h
  | cons e t ih => exact ih _ (step_opened_mono s e l h)

end Ctl

namespace Recv

theorem run_append (s : State) (a b : List Ev) : run s (a ++ b) = run (run s a) b := by
  simp [run, List.foldl_append]

/-- announcements of a live session are applied in order; nothing else changes -/
theorem run_recvs (s : State) (k : Nat) (hk : s.live.contains k = true) (anns : List (Nat × Bool)) :
    run s (anns.map fun a => Ev.recv k a.1 a.2) =
      { s with know := anns.foldl Exec.applyChange s.know } := by
  induction anns generalizing s with
  | nil => rfl
  | cons a t ih =>
    simp only [List.map_cons, run, List.foldl_cons]
    have hs : step s (.recv k a.1 a.2) = { s with know := Exec.applyChange s.know (a.1, a.2) } := by
      simp only [step, hk, if_true]
    have := ih { s with know := Exec.applyChange s.know (a.1, a.2) } hk
    simp only [run] at this
    rw [hs, this]

end Recv

namespace SendQ

/-- nothing `writePacket` accepted is lost or re-ordered -/
def Lossless (s : State) : Prop := s.accepted = s.delivered ++ s.inflight.toList ++ s.queue

theorem step_lossless (s : State) (ev : Ev) (h : Lossless s) : Lossless (step s ev) := by
  unfold Lossless at *
  cases ev with
  | write p =>
    simp only [step]
    split
    · simp only [h, List.append_assoc]
    · exact h
  | take =>
    simp only [step]
    split
    · rename_i p q hi hq
      simp only [hi, hq, Option.toList_none, List.append_nil] at h
      simp [h]
    · exact h
  | flush =>
    simp only [step]
    split
    · rename_i p hi
      simp only [hi, Option.toList_some] at h
      simp [h]
    · exact h

theorem run_lossless (s : State) (evs : List Ev) (h : Lossless s) : Lossless (run s evs) := by
  induction evs generalizing s with
  | nil => exact h
  | cons e t ih => exact ih _ (step_lossless s e h)

theorem step_cap (s : State) (ev : Ev) : (step s ev).cap = s.cap := by
  cases ev with
  | write p => simp only [step]; split <;> rfl
  | take => simp only [step]; split <;> rfl
  | flush => simp only [step]; split <;> rfl

theorem step_bounded (s : State) (ev : Ev) (h : s.queue.length ≤ s.cap) : (step s ev).queue.length ≤ (step s ev).cap := by
  rw [step_cap]
  cases ev with
  | write p =>
    simp only [step]
    split
    · simp only [List.length_append, List.length_singleton]; omega
    · exact h
  | take =>
    simp only [step]
    split
    · rename_i p q hi hq
      simp only [hq, List.length_cons] at h
      simp only; omega
    · exact h
  | flush =>
    simp only [step]
    split <;> exact h

theorem run_bounded (s : State) (evs : List Ev) (h : s.queue.length ≤ s.cap) : (run s evs).queue.length ≤ (run s evs).cap := by
  induction evs generalizing s with
  | nil => exact h
  | cons e t ih => exact ih _ (step_bounded s e h)

end SendQ

end Pubsub
end Bifrost
