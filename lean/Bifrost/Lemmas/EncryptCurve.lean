import Bifrost.Model.Lo25519
import Bifrost.Gen.EdBlacklist
/-!
Definitions used by the C14 statements: edwards25519 arithmetic over `Nat` (closed terms, so
`decide` evaluates them with the kernel's GMP arithmetic), the witness x-coordinates for the
generated blacklist rows, and the symbolic Diffie–Hellman structure with a toy instance.
-/
namespace Bifrost.Lo25519.Curve
open Bifrost Bifrost.Lo25519 Bifrost.Gen.EdBlacklist

def p : Nat := 2 ^ 255 - 19
def d : Nat := 37095705934669439343138083508754565189542113879843219016388785533085940283555

/-- `d = -121665/121666 (mod p)`, the edwards25519 constant. -/
theorem d_def : (d * 121666 + 121665) % p = 0 := by decide

/-- affine twisted Edwards equation `-x² + y² = 1 + d x² y²` over GF(p). -/
def onCurve (x y : Nat) : Prop :=
  (y * y + (p - x * x % p)) % p = (1 + d * (x * x % p) % p * (y * y % p)) % p

instance (x y : Nat) : Decidable (onCurve x y) := by unfold onCurve; exact inferInstance

structure Pt where
  X : Nat
  Y : Nat
  Z : Nat

def sub (a b : Nat) : Nat := (a + (p - b % p)) % p

/-- projective addition law of the twisted Edwards curve a = -1 (complete for this curve). -/
def add (P Q : Pt) : Pt :=
  let A := P.Z * Q.Z % p
  let B := A * A % p
  let C := P.X * Q.X % p
  let D := P.Y * Q.Y % p
  let E := d * C % p * D % p
  let F := sub B E
  let G := (B + E) % p
  ⟨A * F % p * (sub (sub ((P.X + P.Y) * (Q.X + Q.Y) % p) C) D) % p,
   A * G % p * ((D + C) % p) % p,
   F * G % p⟩

def dbl (P : Pt) : Pt := add P P

/-- the neutral element (0 : 1 : 1) in projective form -/
def isIdentity (P : Pt) : Prop := P.X % p = 0 ∧ P.Y % p = P.Z % p ∧ P.Z % p ≠ 0

instance (P : Pt) : Decidable (isIdentity P) := by unfold isIdentity; exact inferInstance

/-- `[8](x, y) = O`. -/
def mul8IsIdentity (x y : Nat) : Prop := isIdentity (dbl (dbl (dbl ⟨x % p, y % p, 1⟩)))

instance (x y : Nat) : Decidable (mul8IsIdentity x y) := by unfold mul8IsIdentity; exact inferInstance

/-- x-coordinates for the rows, in table order. -/
def xs : List Nat := [
  19681161376707505956807079304988542015446066515923890162744021073123829784752, 0,
  14399317868200118260347934320527232580618823971194345261214217575416788799818,
  14399317868200118260347934320527232580618823971194345261214217575416788799818,
  0, 19681161376707505956807079304988542015446066515923890162744021073123829784752, 0]

theorem rows_witnessed :
    (rows.zip xs).all (fun rx => decide (rx.2 < p ∧ onCurve rx.2 (leNat rx.1) ∧ mul8IsIdentity rx.2 (leNat rx.1))) = true ∧
    xs.length = rows.length := by
  decide

/-- X25519 as a commutative scalar action on points, with the two conversions related the way
the code documents ("the resulting curve25519 public key will equal the result from
PublicKeyToCurve25519"). Hypotheses of the theorem below; `ToyDh` is an instance. -/
structure Dh where
  /-- `X25519(scalar, point)` -/
  act : Bytes → Bytes → Bytes
  base : Bytes
  /-- `PrivateKeyToCurve25519(seed)[:32]` -/
  xPriv : Bytes → Bytes
  /-- Ed25519 public key of a seed -/
  edPub : Bytes → Bytes
  /-- `PublicKeyToCurve25519` on honest keys -/
  xPub : Bytes → Option Bytes
  act_comm : ∀ a b P, act a (act b P) = act b (act a P)
  convert_consistent : ∀ seed, xPub (edPub seed) = some (act (xPriv seed) base)

/-- A concrete instance: scalars and points are byte strings read as numbers, the action is
multiplication modulo 251 (commutative), so the hypotheses are satisfiable. -/
def toyAct (a P : Bytes) : Bytes := [UInt8.ofNat ((leNat a % 251) * (leNat P % 251) % 251)]

theorem toyAct_comm (a b P : Bytes) : toyAct a (toyAct b P) = toyAct b (toyAct a P) := by
  unfold toyAct
  congr 2
  simp only [leNat, Nat.mul_zero, Nat.add_zero, UInt8.toNat_ofNat']
  have h1 : ∀ n, n % 251 % 2 ^ 8 = n % 251 := fun n => Nat.mod_eq_of_lt (by omega)
  rw [h1, h1]
  generalize leNat a % 251 = x
  generalize leNat b % 251 = y
  generalize leNat P % 251 = z
  rw [Nat.mod_mod, Nat.mod_mod, Nat.mul_mod_mod, Nat.mul_mod_mod, Nat.mul_left_comm]

def ToyDh : Dh where
  act := toyAct
  base := [2]
  xPriv := id
  edPub := id
  xPub := fun s => some (toyAct s [2])
  act_comm := toyAct_comm
  convert_consistent := fun _ => rfl

end Bifrost.Lo25519.Curve
