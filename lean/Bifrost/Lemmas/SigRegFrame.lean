import Bifrost.Lemmas.SigRegInv
/-! Session-internal events (`send`, `ack`, `clear`, `loop`, `send_`) preserve the invariant. -/
namespace Bifrost
namespace SigReg
open Bifrost.Sig

theorem oursCall_setSides (t : Sess) (isA : Bool) (o1 o2 : Option Att) (b : Bool) :
    oursCall (t.setSides isA o1 o2) b = if b = isA then o1.map (·.call) else o2.map (·.call) := by
  cases isA <;> cases b <;> simp [oursCall, Sess.setSides, Sess.sides]

theorem activePair_some {t : Sess} {c : SCall} {ours other : Att} (h : activePair t c = some (ours, other)) :
    (t.sides c.isA) = (some ours, some other) ∧ ours.call = c.id := by
  unfold activePair at h
  split at h
  · rename_i o1 o2 heq
    split at h
    · simp at h; simp [heq, h]; grind
    · simp at h
  · simp at h

theorem oursCall_of_sides {t : Sess} {isA : Bool} {o1 o2 : Option Att} (h : t.sides isA = (o1, o2)) (b : Bool) :
    oursCall t b = if b = isA then o1.map (·.call) else o2.map (·.call) := by
  cases isA <;> cases b <;> simp_all [oursCall, Sess.sides]

/-- generic: replacing a session tracker and a call by framed versions -/
theorem frameS_set {s : State} (hinv : Inv s) {t t' : Sess} {c c' : SCall} (acc : List (Nat × Nat × Nat × Msg × Bool × Nat))
    (ht : getSess s t'.sid = some t) (hc : getSCall s c'.id = some c)
    (hft : SessFr t t') (hfc : SCallFr s c c') :
    Inv { setSCall (setSess s t') c' with accepted := acc } := by
  have e1 : ∀ x, getSess { setSCall (setSess s t') c' with accepted := acc } x = getSess (setSCall (setSess s t') c') x := fun _ => rfl
  have e2 : ∀ x, getSCall { setSCall (setSess s t') c' with accepted := acc } x = getSCall (setSCall (setSess s t') c') x := fun _ => rfl
  refine frameS hinv rfl rfl rfl rfl rfl ?hids ?hss ?hss' ?hsc ?hsc'
  case hids => exact scalls_ids_setSCall _ _
  case hss => intro x t0 h0; rw [e1]; simp; grind [SessFr.refl]
  case hss' => intro x t0 h0; rw [e1] at h0; simp at h0; grind [SessFr.refl]
  case hsc => intro x t0 h0; rw [e2]; simp; grind [SCallFr.refl]
  case hsc' => intro x t0 h0; rw [e2] at h0; simp at h0; grind [SCallFr.refl]

theorem frameS_sc {s : State} (hinv : Inv s) {c c' : SCall}
    (hc : getSCall s c'.id = some c) (hfc : SCallFr s c c') : Inv (setSCall s c') := by
  refine frameS hinv rfl rfl rfl rfl rfl ?hids ?hss ?hss' ?hsc ?hsc'
  case hids => exact scalls_ids_setSCall _ _
  case hss => intro x t0 h0; simp; grind [SessFr.refl]
  case hss' => intro x t0 h0; simp at h0; grind [SessFr.refl]
  case hsc => intro x t0 h0; simp; grind [SCallFr.refl]
  case hsc' => intro x t0 h0; simp at h0; grind [SCallFr.refl]

theorem frameS_ss {s : State} (hinv : Inv s) {t t' : Sess} (acc : List (Nat × Nat × Nat × Msg × Bool × Nat))
    (ht : getSess s t'.sid = some t) (hft : SessFr t t') : Inv { setSess s t' with accepted := acc } := by
  have e1 : ∀ x, getSess { setSess s t' with accepted := acc } x = getSess (setSess s t') x := fun _ => rfl
  have e2 : ∀ x, getSCall { setSess s t' with accepted := acc } x = getSCall s x := fun _ => rfl
  refine frameS hinv rfl rfl rfl rfl rfl ?hids ?hss ?hss' ?hsc ?hsc'
  case hids => rfl
  case hss => intro x t0 h0; rw [e1]; simp; grind [SessFr.refl]
  case hss' => intro x t0 h0; rw [e1] at h0; simp at h0; grind [SessFr.refl]
  case hsc => intro x t0 h0; rw [e2]; grind [SCallFr.refl]
  case hsc' => intro x t0 h0; rw [e2] at h0; grind [SCallFr.refl]

theorem frameS_ss' {s : State} (hinv : Inv s) {t t' : Sess}
    (ht : getSess s t'.sid = some t) (hft : SessFr t t') : Inv (setSess s t') :=
  frameS_ss hinv s.accepted ht hft

@[simp] theorem setSides_sid (t : Sess) (isA : Bool) (o1 o2 : Option Att) : (t.setSides isA o1 o2).sid = t.sid := by
  cases isA <;> rfl
@[simp] theorem bcast_sid (t : Sess) : t.bcast.sid = t.sid := rfl

theorem sessFr_setSides {t : Sess} {isA : Bool} {o1 o2 o1' o2' : Option Att}
    (h : t.sides isA = (o1, o2)) (h1 : o1'.map (·.call) = o1.map (·.call)) (h2 : o2'.map (·.call) = o2.map (·.call)) :
    SessFr t (t.setSides isA o1' o2') ∧ SessFr t (t.setSides isA o1' o2').bcast ∧ (t.setSides isA o1' o2').sid = t.sid := by
  cases isA <;> simp_all [SessFr, Sess.setSides, Sess.sides, Sess.bcast, oursCall]

theorem sSend_inv {s : State} (hinv : Inv s) (call epoch : Nat) (m : Msg) (v : Bool) (g : Nat) :
    Inv (sSend s call epoch m v g) := by
  unfold sSend
  split
  · exact hinv
  rename_i c hc
  have hid := getSCall_id hc
  have hR : Inv (setSCall s { c with readerDone := true }) :=
    frameS_sc hinv (c := c) (by simpa [hid] using hc) (by simp [SCallFr])
  split
  · exact hR
  split
  · exact hinv
  rename_i t ht
  split
  · exact hR
  split
  · exact hinv
  split
  · exact hinv
  rename_i ours other hap
  have hs := (activePair_some hap).1
  have hf := sessFr_setSides hs (o1' := some ours) (o2' := some { other with recv := some m, recvSent := none }) rfl rfl
  have hsid := getSess_sid ht
  exact frameS_ss hinv _ (t := t) (by simp [Sess.bcast, hsid, ht]) hf.2.1

theorem sAck_inv {s : State} (hinv : Inv s) (call epoch k : Nat) : Inv (sAck s call epoch k) := by
  unfold sAck
  split
  · exact hinv
  rename_i c hc
  have hid := getSCall_id hc
  have hR : Inv (setSCall s { c with readerDone := true }) :=
    frameS_sc hinv (c := c) (by simpa [hid] using hc) (by simp [SCallFr])
  split
  · exact hinv
  rename_i t ht
  split
  · exact hR
  split
  · exact hinv
  split
  · exact hinv
  rename_i ours other hap
  have hs := (activePair_some hap).1
  have hsid := getSess_sid ht
  split
  · have hf := sessFr_setSides hs (o1' := some { ours with recvSent := none }) (o2' := some { other with outAcked := some k }) rfl rfl
    exact frameS_ss' hinv (t := t) (by simp [Sess.bcast, hsid, ht]) hf.2.1
  · exact hinv

theorem sClear_inv {s : State} (hinv : Inv s) (call epoch k : Nat) : Inv (sClear s call epoch k) := by
  unfold sClear
  split
  · exact hinv
  rename_i c hc
  have hid := getSCall_id hc
  have hR : Inv (setSCall s { c with readerDone := true }) :=
    frameS_sc hinv (c := c) (by simpa [hid] using hc) (by simp [SCallFr])
  split
  · exact hinv
  rename_i t ht
  split
  · exact hR
  split
  · exact hinv
  split
  · exact hinv
  rename_i ours other hap
  have hs := (activePair_some hap).1
  have hsid := getSess_sid ht
  split
  · have hf := sessFr_setSides hs (o1' := some ours) (o2' := some { other with recv := none }) rfl rfl
    exact frameS_ss' hinv (t := t) (by simp [hsid, ht]) hf.1
  · split
    · have hf := sessFr_setSides hs (o1' := some ours) (o2' := some { other with recvSent := none, recvClear := some k }) rfl rfl
      exact frameS_ss' hinv (t := t) (by simp [hsid, ht]) hf.1
    · exact hinv

theorem sTx_inv {s : State} (hinv : Inv s) (call : Nat) (r : Resp) : Inv ((sTx s call r).getD s) := by
  unfold sTx
  split
  · exact hinv
  rename_i c hc
  have hid := getSCall_id hc
  split
  · split
    · exact frameS_sc hinv (c := c) (by simpa [hid] using hc) (by simp [SCallFr])
    · exact hinv
  · exact hinv

theorem sLoop_inv {s : State} (hinv : Inv s) (call : Nat) : Inv (sLoop s call) := by
  unfold sLoop
  split
  · exact hinv
  rename_i c hc
  have hid := getSCall_id hc
  split
  · exact hinv
  rename_i t ht
  have hsid := getSess_sid ht
  cases hs : t.sides c.isA with
  | mk oursO otherO =>
  simp only []
  have hoc := oursCall_of_sides hs
  have hcc : getSCall s c.id = some c := by simpa [hid] using hc
  have hU : Inv (setSCall s { c with waitGen := t.gen, failing := true }) := by
    refine frameS_sc hinv (c := c) hcc ?_
    simp [SCallFr]
    exact Or.inr ⟨t, ht, rfl⟩
  cases oursO with
  | none => simpa using hU
  | some ours =>
  by_cases hus : ours.call = call
  · have hatt : oursCall t c.isA = some c.id := by simp [hoc, hus, hid]
    simp only [hus, bne_self_eq_false, Bool.false_eq_true, ↓reduceIte]
    cases otherO with
    | none =>
      simp only [Option.isSome_none, Bool.false_eq_true, ↓reduceIte, Option.isNone_none]
      refine frameS_sc hinv (c := c) hcc ?_
      simp [SCallFr]
      exact Or.inr ⟨t, ht, rfl, Or.inr hatt⟩
    | some other =>
      simp only [Option.isSome_some, ↓reduceIte, Option.isNone_some, Bool.false_eq_true]
      have hf := sessFr_setSides hs (o1' := some { call := call, recvSent := (match ours.recv with | some m => some m.seqno | none => ours.recvSent) }) (o2' := some other) (by simp [hus]) rfl
      refine frameS_set hinv s.accepted (t := t) (c := c) ?_ hcc ?_ ?_
      · have hb : ∀ (b : Bool) (X : Sess), (if b = true then X.bcast else X).sid = X.sid := by
          intros; split <;> rfl
        rw [hb, setSides_sid, hsid]; exact ht
      · by_cases hr : ours.recv.isSome = true
        · rw [if_pos hr]; exact hf.2.1
        · rw [if_neg hr]; exact hf.1
      · simp [SCallFr]
        exact Or.inr ⟨t, ht, rfl, Or.inr hatt⟩
  · have : (ours.call != call) = true := by simpa using hus
    simpa [this] using hU

theorem frameL_set {s : State} (hinv : Inv s) {l l' : LCall} (hl : getLCall s l'.id = some l)
    (hsame : l'.pid = l.pid ∧ l'.tkr = l.tkr ∧ l'.myNonce = l.myNonce ∧ l'.ended = l.ended)
    (hwg : ∀ t, getTkr s l.tkr = some t → l'.waitGen ≤ t.gen)
    (hrepl : ∀ t, getTkr s l.tkr = some t → l'.ended = false → l'.failing = false → l'.myNonce ≠ t.nonce →
      l'.runnable = true ∨ l'.waitGen < t.gen)
    (hq : ∀ t, getTkr s l.tkr = some t → l'.ended = false → l'.failing = false → l'.runnable = false →
      t.gen ≤ l'.waitGen → l'.outbox = [] ∧ ∀ w, w ∈ l'.sentWant ↔ w ∈ t.wants) :
    Inv (setLCall s l') := by
  have hid := getLCall_id hl
  have hatt : ∀ c, Attd (setLCall s l') c ↔ Attd s c := fun c => Iff.rfl
  constructor
  · have := hinv.tkLt; grind
  · have := hinv.ssLt; grind
  · have := hinv.pmTk; grind
  · have := hinv.smSs; grind
  · exact hinv.pmNd
  · exact hinv.scNd
  · rw [lcalls_ids_setLCall]; exact hinv.lcNd
  · have := hinv.tkIn; grind
  · have := hinv.pmLive; grind
  · intro x t ht hlis
    obtain ⟨i, l0, h1, h2, h3, h4⟩ := hinv.lsnr x t ht hlis
    by_cases hi : i = l'.id
    · exact ⟨i, l', by simp [hi, hl], by grind, by grind, by grind⟩
    · exact ⟨i, l0, by simp [hi, h1], h2, h3, h4⟩
  · have := hinv.lcTk; grind
  · have := hinv.lcUniq; grind
  · have := hinv.lcRepl; grind
  · have := hinv.lcQ; grind
  · have := hinv.ssIn; grind
  · have := hinv.smLive; grind
  · have := hinv.attC; grind
  · have := hinv.scOk; grind
  · have := hinv.scRepl; grind
  · intro x t w ht
    have := hinv.wants x t w ht
    simp only [hatt]
    exact this

theorem lUsurped_inv {s : State} (hinv : Inv s) (call : Nat) : Inv ((lUsurped s call).getD s) := by
  unfold lUsurped
  split
  · exact hinv
  rename_i l hl
  have hid := getLCall_id hl
  split
  · exact hinv
  rename_i t ht
  split
  · simp only [Option.getD_some]
    refine frameL_set hinv (l := l) (by simpa [hid] using hl) (by simp) ?_ (by simp) (by simp)
    intro t' ht'
    have := hinv.lcTk _ _ hl
    grind
  · exact hinv

theorem lTx_inv {s : State} (hinv : Inv s) (call : Nat) (r : Resp) : Inv ((lTx s call r).getD s) := by
  unfold lTx
  split
  · exact hinv
  rename_i l hl
  have hid := getLCall_id hl
  split
  · rename_i x rest hout
    split
    · exact hinv
    · simp only [Option.getD_some]
      refine frameL_set hinv (l := l) (by simpa [hid] using hl) (by simp) ?_ ?_ ?_
      · have := hinv.lcTk _ _ hl
        grind
      · intro t ht
        have := hinv.lcRepl _ _ t hl ht
        simpa using this
      · intro t ht h1 h2 h3 h4
        have := hinv.lcQ _ _ t hl ht h1 h2 h3 h4
        simp [hout] at this
  · exact hinv

theorem lLoop_eq_some {s s' : State} {call want notWant : Nat} (h : lLoop s call want notWant = some s') :
    ∃ l t, getLCall s call = some l ∧ getTkr s l.tkr = some t ∧ t.nonce = l.myNonce ∧
      (want = 0 → ∀ w ∈ t.wants, w ∈ l.sentWant) ∧ (notWant = 0 → ∀ w ∈ l.sentWant, w ∈ t.wants) ∧
      s' = setLCall s { l with waitGen := t.gen, runnable := decide (want ≠ 0 ∨ notWant ≠ 0), outbox := l.outbox ++ ((if notWant = 0 then [] else [Resp.clearPeer notWant]) ++ (if want = 0 then [] else [Resp.setPeer want])) } := by
  unfold lLoop at h
  cases hl : getLCall s call with
  | none => simp [hl] at h
  | some l =>
    simp only [hl] at h
    cases ht : getTkr s l.tkr with
    | none => simp [ht] at h
    | some t =>
      simp only [ht] at h
      by_cases hn : t.nonce ≠ l.myNonce
      · simp [hn] at h
      · rw [if_neg hn] at h
        rw [Option.ite_none_left_eq_some] at h
        obtain ⟨hok, h⟩ := h
        simp only [Decidable.not_not] at hok hn
        refine ⟨l, t, rfl, ht, hn, ?_, ?_, ?_⟩
        · intro hw; have := hok.1; simp [hw] at this; exact this
        · intro hw; have := hok.2; simp [hw] at this; exact this
        · simpa using h.symm

theorem lLoop_inv {s : State} (hinv : Inv s) (call want notWant : Nat)
    (hen : enabled s (.lloop call want notWant) = true) : Inv ((lLoop s call want notWant).getD s) := by
  cases h : lLoop s call want notWant with
  | none => exact hinv
  | some s' =>
  obtain ⟨l, t, hl, ht, hn, hW, hN, rfl⟩ := lLoop_eq_some h
  simp only [enabled, hl] at hen
  have hid := getLCall_id hl
  simp only [Option.getD_some]
  refine frameL_set hinv (l := l) (by simpa [hid] using hl) (by simp) ?_ ?_ ?_
  · intro t' ht'; simp_all
  · intro t' ht'; simp_all
  · intro t' ht'
    simp only [ht, Option.some.injEq] at ht'
    subst ht'
    simp only [decide_eq_false_iff_not, not_or, Decidable.not_not]
    intro _ _ h0 _
    obtain ⟨hw, hn⟩ := h0
    subst hw hn
    simp at hen
    simp [hen.1.1.2]
    intro w
    exact ⟨hN rfl w, hW rfl w⟩

end SigReg
end Bifrost
