import Bifrost.Model.Config
import Bifrost.Lemmas.Codec
/-! Helper lemmas for C11 / C39: TrimSpace on text that has no white space at its ends, the
PrivateKey protobuf round trip, the Ed25519 raw forms, the law assumed of `encoding/pem` and a
concrete codec satisfying it. -/
namespace Bifrost
namespace Config
open Codec

/-! ### TrimSpace -/

theorem trimWith_zero (len : Bytes → Nat) (fuel : Nat) (s : Bytes) (h : len s = 0) :
    trimWith len fuel s = s := by
  cases fuel with
  | zero => rfl
  | succ f => simp [trimWith, h]

/-- A byte that cannot start (or end) a white-space rune. -/
def plain (c : UInt8) : Bool :=
  !asciiSpace c && c != 0xC2 && c != 0xE1 && c != 0xE2 && c != 0xE3 && c != 0x85 && c != 0xA0
    && c != 0x80 && !(0x80 ≤ c && c ≤ 0x8A) && c != 0xA8 && c != 0xA9 && c != 0xAF && c != 0x9F

theorem spaceLen_plain (c : UInt8) (r : Bytes) (h : plain c = true) : spaceLen (c :: r) = 0 := by
  unfold plain at h
  simp only [Bool.and_eq_true, Bool.not_eq_eq_eq_not, Bool.not_true, bne_iff_ne, ne_eq] at h
  obtain ⟨⟨⟨⟨⟨⟨⟨⟨⟨⟨⟨⟨h0, h1⟩, h2⟩, h3⟩, h4⟩, _⟩, _⟩, _⟩, _⟩, _⟩, _⟩, _⟩, _⟩ := h
  unfold spaceLen
  simp [h0, h1, h2, h3, h4]

theorem spaceLenRev_plain (c : UInt8) (r : Bytes) (h : plain c = true) : spaceLenRev (c :: r) = 0 := by
  unfold plain at h
  simp only [Bool.and_eq_true, Bool.not_eq_eq_eq_not, Bool.not_true, bne_iff_ne, ne_eq,
    Bool.and_eq_false_imp] at h
  obtain ⟨⟨⟨⟨⟨⟨⟨⟨⟨⟨⟨⟨h0, _⟩, _⟩, _⟩, _⟩, h5⟩, h6⟩, h7⟩, h8⟩, h9⟩, h10⟩, h11⟩, h12⟩ := h
  unfold spaceLenRev
  simp only [h0, Bool.false_eq_true, ↓reduceIte]
  cases r with
  | nil => rfl
  | cons y r2 =>
    have e1 : (c == 0x85 || c == 0xA0) = false := by simp [h5, h6]
    simp only [e1, Bool.and_false, Bool.false_eq_true, ↓reduceIte]
    cases r2 with
    | nil => rfl
    | cons x r3 =>
      have e2 : (c == 0x80) = false := by simp [h7]
      have e3 : ((0x80 ≤ c && c ≤ 0x8A) || c == 0xA8 || c == 0xA9 || c == 0xAF) = false := by
        simp only [Bool.or_eq_false_iff, beq_eq_false_iff_ne, ne_eq]
        refine ⟨⟨⟨?_, h9⟩, h10⟩, h11⟩
        cases hx : (0x80 ≤ c && c ≤ 0x8A) with
        | false => rfl
        | true => exact absurd hx (by simpa using h8)
      have e4 : (c == 0x9F) = false := by simp [h12]
      simp [e2, e3, e4]

/-- Text that starts and ends with plain bytes is unchanged by `TrimSpace`. -/
theorem trimSpace_plain (s : Bytes) (a z : UInt8) (r r' : Bytes) (hs : s = a :: r)
    (hr : s.reverse = z :: r') (ha : plain a = true) (hz : plain z = true) : trimSpace s = s := by
  unfold trimSpace trimLeft trimRight
  have h1 : trimWith spaceLen s.length s = s := by
    apply trimWith_zero; rw [hs]; exact spaceLen_plain a r ha
  rw [h1]
  have h2 : trimWith spaceLenRev s.length s.reverse = s.reverse := by
    apply trimWith_zero; rw [hr]; exact spaceLenRev_plain z r' hz
  rw [h2, List.reverse_reverse]

theorem b58_char_plain : ∀ d, d < 58 → plain (B58.charOf d) = true ∧ B58.charOf d ≠ 45 := by decide

theorem b58_encode_chars (b : Bytes) : ∀ c ∈ B58.encode b, plain c = true ∧ c ≠ 45 := by
  intro c hc
  unfold B58.encode at hc
  obtain ⟨d, hd, rfl⟩ := List.mem_map.mp hc
  exact b58_char_plain d (B58.encodeDigits_lt b d hd)

/-- Base58 text is unchanged by `TrimSpace`. -/
theorem trimSpace_b58 (b : Bytes) : trimSpace (B58.encode b) = B58.encode b := by
  cases hs : B58.encode b with
  | nil => rfl
  | cons a r =>
    have hne : (a :: r).reverse ≠ [] := by simp
    cases hr : (a :: r).reverse with
    | nil => exact absurd hr hne
    | cons z r' =>
      have ha : a ∈ B58.encode b := by rw [hs]; simp
      have hz : z ∈ B58.encode b := by
        rw [hs]; rw [← List.mem_reverse, hr]; simp
      exact trimSpace_plain (a :: r) a z r r' rfl hr (b58_encode_chars b a ha).1 (b58_encode_chars b z hz).1

/-- Base58 text never starts with `-----BEGIN`. -/
theorem b58_not_pem (b : Bytes) : hasPrefix (B58.encode b) pemBegin = false := by
  cases hs : B58.encode b with
  | nil => rfl
  | cons a r =>
    have ha : a ∈ B58.encode b := by rw [hs]; simp
    have := (b58_encode_chars b a ha).2
    unfold hasPrefix pemBegin
    simp only [List.isPrefixOf_cons₂, Bool.and_eq_false_imp, beq_iff_eq]
    intro h
    exact absurd h.symm this

/-! ### Ed25519 raw private keys -/

theorem unmarshalEd_64 (d : Bytes) (h : d.length = 64) : unmarshalEd25519PrivateKey d = .ok d := by
  unfold unmarshalEd25519PrivateKey
  simp [h]

theorem unmarshalEd_96 (d : Bytes) (h : d.length = 96) :
    unmarshalEd25519PrivateKey d =
      if (d.take 64).drop 32 = d.drop 64 then .ok (d.take 64) else .err := by
  unfold unmarshalEd25519PrivateKey sliceFrom? slice? ctEq
  simp only [h, ↓reduceIte, Nat.reduceLeDiff, and_self, Nat.zero_le, List.drop_zero]
  by_cases he : (d.take 64).drop 32 = d.drop 64
  · simp [he, h]
  · simp [he, h]

theorem unmarshalEd_other (d : Bytes) (h1 : d.length ≠ 64) (h2 : d.length ≠ 96) :
    unmarshalEd25519PrivateKey d = .err := by
  unfold unmarshalEd25519PrivateKey
  simp [h1, h2]

theorem unmarshalEd_ne_panic (d : Bytes) : unmarshalEd25519PrivateKey d ≠ .panic := by
  by_cases h96 : d.length = 96
  · rw [unmarshalEd_96 d h96]; split <;> simp
  · by_cases h64 : d.length = 64
    · rw [unmarshalEd_64 d h64]; simp
    · rw [unmarshalEd_other d h64 h96]; simp

theorem unmarshalEd_ok_length (d k : Bytes) (h : unmarshalEd25519PrivateKey d = .ok k) : k.length = 64 := by
  by_cases h96 : d.length = 96
  · rw [unmarshalEd_96 d h96] at h
    split at h
    · injection h with h; subst h; simp [h96]
    · cases h
  · by_cases h64 : d.length = 64
    · rw [unmarshalEd_64 d h64] at h; injection h with h; subst h; exact h64
    · rw [unmarshalEd_other d h64 h96] at h; cases h

/-! ### crypto.PrivateKey -/

theorem unmarshal_marshalPrivateKey (k : Bytes) (h : k.length = 64) :
    unmarshalPrivateKey (marshalPrivateKey k) = .ok k := by
  unfold unmarshalPrivateKey marshalPrivateKey
  have := PW.decode_vb 1 k (by norm_num) (by omega)
  rw [show pubKeySchema = PW.vbSchema from rfl, this]
  simp only [PW.vb_lastVarint, PW.vb_lastBytes]
  have : PW.toInt32 1 = keyTypeEd25519 := by decide
  simp [this, unmarshalEd_64 k h]

/-- The libp2p 96-byte form `k ‖ public(k)` inside the message decodes to `k`. -/
theorem unmarshal_marshalPrivateKey_redundant (k : Bytes) (h : k.length = 64) :
    unmarshalPrivateKey (marshalPrivateKey (k ++ k.drop 32)) = .ok k := by
  unfold unmarshalPrivateKey marshalPrivateKey
  have hl : (k ++ k.drop 32).length = 96 := by simp [h]
  have := PW.decode_vb 1 (k ++ k.drop 32) (by norm_num) (by omega)
  rw [show pubKeySchema = PW.vbSchema from rfl, this]
  simp only [PW.vb_lastVarint, PW.vb_lastBytes]
  have : PW.toInt32 1 = keyTypeEd25519 := by decide
  rw [unmarshalEd_96 _ hl]
  have e1 : (k ++ k.drop 32).take 64 = k := by
    rw [List.take_append_of_le_length (by omega), List.take_of_length_le (by omega)]
  have e2 : (k ++ k.drop 32).drop 64 = k.drop 32 := by
    rw [← h, List.drop_left]
  simp [this, e1, e2]

theorem unmarshalPrivateKey_ne_panic (b : Bytes) : unmarshalPrivateKey b ≠ .panic := by
  unfold unmarshalPrivateKey
  split
  · simp
  · split
    · simp
    · exact unmarshalEd_ne_panic _

theorem unmarshalPrivateKey_ok_length (b k : Bytes) (h : unmarshalPrivateKey b = .ok k) : k.length = 64 := by
  unfold unmarshalPrivateKey at h
  split at h
  · cases h
  · split at h
    · cases h
    · exact unmarshalEd_ok_length _ _ h

theorem unmarshalPublicKeyR_ne_panic (b : Bytes) : unmarshalPublicKeyR b ≠ .panic := by
  unfold unmarshalPublicKeyR; split <;> simp

theorem unmarshalPublicKeyR_marshal (p : Bytes) (h : p.length = 32) :
    unmarshalPublicKeyR (marshalPublicKey p) = .ok p := by
  unfold unmarshalPublicKeyR; rw [unmarshal_marshalPublicKey p h]

theorem getPublic_of_length (k : Bytes) (h : 32 ≤ k.length) : getPublic k = .ok (k.drop 32) := by
  unfold getPublic sliceFrom?; simp [h]

theorem parsePrivKeyPem_ne_panic (P : PemCodec) (b : Bytes) : parsePrivKeyPem P b ≠ .panic := by
  unfold parsePrivKeyPem
  split
  · simp
  · split
    · simp
    · split
      · simp
      · simp
      · rename_i hk; exact absurd hk (unmarshalPrivateKey_ne_panic _)

theorem parsePrivKeyPem_ok_length (P : PemCodec) (b k : Bytes)
    (h : parsePrivKeyPem P b = .ok (some k)) : k.length = 64 := by
  unfold parsePrivKeyPem at h
  cases hd : P.decode b with
  | none => rw [hd] at h; simp at h
  | some tbr =>
    obtain ⟨t, d, r⟩ := tbr
    rw [hd] at h
    simp only at h
    by_cases ht : t ≠ privPemType
    · rw [if_pos ht] at h; cases h
    · rw [if_neg ht] at h
      cases hu : unmarshalPrivateKey d with
      | ok k' =>
        rw [hu] at h
        simp only [Res.ok.injEq, Option.some.injEq] at h
        subst h
        exact unmarshalPrivateKey_ok_length _ _ hu
      | err => rw [hu] at h; cases h
      | panic => rw [hu] at h; cases h

theorem parseKeyPem_ne_panic (P : PemCodec) (d : Bytes) : parseKeyPem P d ≠ .panic := by
  unfold parseKeyPem
  split
  · simp
  · split
    · split
      · rename_i k hk
        rw [getPublic_of_length k (by have := unmarshalPrivateKey_ok_length _ _ hk; omega)]
        simp
      · simp
      · rename_i hk; exact absurd hk (unmarshalPrivateKey_ne_panic _)
    · split
      · split
        · simp
        · simp
        · rename_i hk; exact absurd hk (unmarshalPublicKeyR_ne_panic _)
      · simp

theorem parsePubKeyPem_ne_panic (P : PemCodec) (d : Bytes) : parsePubKeyPem P d ≠ .panic := by
  unfold parsePubKeyPem
  split
  · simp
  · simp
  · rename_i hk; exact absurd hk (parseKeyPem_ne_panic P d)

theorem marshalPrivateKey_ne_nil (k : Bytes) : marshalPrivateKey k ≠ [] := by
  unfold marshalPrivateKey PW.encVarintOpt
  simp [PW.encVarint_ne_nil]

theorem marshalPublicKey_ne_nil (k : Bytes) : marshalPublicKey k ≠ [] := by
  unfold marshalPublicKey PW.encVarintOpt
  simp [PW.encVarint_ne_nil]

/-! ### peer IDs in text form -/

theorem parsePeerId_of_valid (id : Bytes) (h : idFromBytes id = some id) :
    parsePeerId (idB58Encode id) = some id := by
  obtain ⟨_, r, hr⟩ := idFromBytes_some id id h
  have hne := decodeMultihash_ne_nil id r hr
  unfold parsePeerId
  have : (idB58Encode id).isEmpty = false := by
    cases hx : idB58Encode id with
    | nil => exact absurd ((B58.encode_eq_nil id).mp hx) hne
    | cons => rfl
  rw [this]
  unfold idB58Decode idB58Encode
  simp only [Bool.false_eq_true, ↓reduceIte]
  rw [B58.decode_encode id hne]
  exact h

theorem trimSpace_nil : trimSpace [] = [] := rfl

theorem parsePrivateKey_nil (P : PemCodec) : parsePrivateKey P [] = .ok none := rfl
theorem parsePublicKey_nil (P : PemCodec) : parsePublicKey P [] = .ok none := rfl

/-! ### the law assumed of encoding/pem -/

/-- What Go's `encoding/pem` guarantees for the two block types bifrost writes: the encoder's
output — as is, and with the white space around it removed (it ends in a newline) — decodes to
the same type and bytes with nothing left over, and starts with `-----BEGIN`. These are
hypotheses of the theorems (checked on the library itself by the harness), never axioms. -/
structure PemLaw (P : PemCodec) : Prop where
  rt : ∀ t b, t = privPemType ∨ t = pubPemType → P.decode (P.encode t b) = some (t, b, [])
  rt_trim : ∀ t b, t = privPemType ∨ t = pubPemType →
    P.decode (trimSpace (P.encode t b)) = some (t, b, [])
  begins : ∀ t b, t = privPemType ∨ t = pubPemType →
    hasPrefix (trimSpace (P.encode t b)) pemBegin = true

/-- A concrete codec satisfying the law (non-vacuity): `-----BEGIN ‖ tag ‖ bytes ‖ '-'`. -/
def toyPemEncode (t b : Bytes) : Bytes :=
  pemBegin ++ (if t = privPemType then 1 else 2) :: (b ++ [45])

def toyPemDecode (d : Bytes) : Option (Bytes × Bytes × Bytes) :=
  if hasPrefix d pemBegin then
    match d.drop pemBegin.length with
    | c :: rest =>
      if rest.isEmpty then none
      else some (if c = 1 then privPemType else pubPemType, rest.dropLast, [])
    | [] => none
  else none

def ToyPem : PemCodec := { encode := toyPemEncode, decode := toyPemDecode }

theorem toyPem_rt (t b : Bytes) (ht : t = privPemType ∨ t = pubPemType) :
    toyPemDecode (toyPemEncode t b) = some (t, b, []) := by
  unfold toyPemDecode toyPemEncode hasPrefix
  have hp : pemBegin.isPrefixOf (pemBegin ++ (if t = privPemType then 1 else 2) :: (b ++ [45])) = true := by
    simp
  rw [hp]
  simp only [↓reduceIte, List.drop_left]
  have hne : (b ++ [45]).isEmpty = false := by simp
  rw [hne]
  simp only [Bool.false_eq_true, ↓reduceIte, List.dropLast_concat]
  rcases ht with rfl | rfl
  · simp
  · have : pubPemType ≠ privPemType := by decide
    simp [this]

theorem toyPem_trim (t b : Bytes) : trimSpace (toyPemEncode t b) = toyPemEncode t b := by
  have hr : (toyPemEncode t b).reverse = 45 :: ((if t = privPemType then (1 : UInt8) else 2) :: b).reverse ++ pemBegin.reverse := by
    unfold toyPemEncode
    simp
  exact trimSpace_plain _ 45 45 _ _ rfl (by rw [hr]; rfl) (by decide) (by decide)

theorem toyPem_law : PemLaw ToyPem where
  rt := toyPem_rt
  rt_trim := by
    intro t b ht
    show toyPemDecode (trimSpace (toyPemEncode t b)) = _
    rw [toyPem_trim]; exact toyPem_rt t b ht
  begins := by
    intro t b _
    show hasPrefix (trimSpace (toyPemEncode t b)) pemBegin = true
    rw [toyPem_trim]
    unfold toyPemEncode hasPrefix
    simp

theorem pemLaw_trim_nonempty {P : PemCodec} (L : PemLaw P) (t b : Bytes)
    (ht : t = privPemType ∨ t = pubPemType) : (trimSpace (P.encode t b)).isEmpty = false := by
  have := L.begins t b ht
  cases h : trimSpace (P.encode t b) with
  | nil => rw [h] at this; simp [hasPrefix, pemBegin] at this
  | cons => rfl

/-- Concurrent first start: the fold keeps the path missing-or-file and serves every caller. -/
theorem concurrent_fold (P : PemCodec) (ks : List Bytes) (acc : List KeyErr) (fs : FsState)
    (hfs : fs = .missing ∨ ∃ b, fs = .file b) :
    let r := ks.foldl (fun (acc : List KeyErr × FsState) k =>
      ((acc.1 ++ [(writeAfterMissing P k acc.2).1]), (writeAfterMissing P k acc.2).2)) (acc, fs)
    r.1 = acc ++ ks.map (fun k => (⟨some k, false⟩ : KeyErr)) ∧ (r.2 = .missing ∨ ∃ b, r.2 = .file b) := by
  induction ks generalizing acc fs with
  | nil => simp [hfs]
  | cons k ks ih =>
    simp only [List.foldl_cons]
    have hstep : writeAfterMissing P k fs = (⟨some k, false⟩, .file (marshalPrivKeyPem P k)) := by
      rcases hfs with h | ⟨b, h⟩ <;> subst h <;> rfl
    rw [hstep]
    have := ih (acc ++ [⟨some k, false⟩]) (.file (marshalPrivKeyPem P k)) (.inr ⟨_, rfl⟩)
    simp only [List.map_cons]
    constructor
    · rw [this.1]; simp
    · exact this.2


end Config
end Bifrost
