import Bifrost.Model.Envelope
/-!
Lemmas about the envelope model (`Bifrost/Model/Envelope.lean`): laws assumed of the
primitives, invariants of the share-collection loop, the behaviour of `UnlockEnvelope` on an
envelope produced by `BuildEnvelope`. Core Lean only.
-/
namespace Bifrost
namespace Envelope

/-! ### laws of the primitives (hypotheses of theorems, never axioms) -/

/-- Functional correctness of the primitives: the two round trips. -/
structure PrimsLaw (P : Prims) : Prop where
  /-- a private key whose public key is the recipient decrypts, under the same context, what was
  encrypted -/
  pk_roundtrip : ∀ sk ctx m c, P.genuine sk = true → P.pkEnc (P.pub sk) ctx m = some c → P.pkDec sk ctx c = some m
  /-- a key object whose private half does not belong to the public key it reports (a 64-byte
  Ed25519 key with a foreign public half) decrypts nothing that was sealed to that public key -/
  shadow_fails : ∀ sk ctx m c, P.genuine sk = false → P.pkEnc (P.pub sk) ctx m = some c → P.pkDec sk ctx c = none
  /-- AEAD round trip -/
  aead_roundtrip : ∀ k n p, P.aopen k n (P.aseal k n p) = some p

/-- Idealised integrity of the primitives (used only by the tamper / context theorems). -/
structure PrimsSecure (P : Prims) : Prop extends PrimsLaw P where
  /-- a ciphertext made by encryption decrypts only with the recipient's key and under the same
  context, and then to the encrypted message -/
  pk_bind : ∀ pk ctx m c sk ctx' m', P.pkEnc pk ctx m = some c → P.pkDec sk ctx' c = some m' →
    P.pub sk = pk ∧ ctx' = ctx ∧ m' = m
  /-- AEAD integrity: a sealed ciphertext opens — under whatever key — only to what was sealed -/
  aead_only : ∀ k k' n p p', P.aopen k' n (P.aseal k n p) = some p' → p' = p

/-- Laws of the scalar byte codec. -/
structure CodecLaw {S : Type} (F : Scalars S) : Prop where
  decode_encode : ∀ s, F.decode (F.encode s) = some s
  encode_len : ∀ s, (F.encode s).length ≤ 32

section
variable {S : Type} [DecidableEq S]

theorem CodecLaw.encode_inj {F : Scalars S} (h : CodecLaw F) {a b : S} (e : F.encode a = F.encode b) : a = b := by
  have h1 := h.decode_encode a
  rw [e, h.decode_encode b] at h1
  exact (Option.some.inj h1).symm

/-! ### `areAllDifferent` -/

theorem allDifferent_iff_nodup : ∀ (l : List S), allDifferent l = true ↔ l.Nodup
  | [] => by simp [allDifferent]
  | a :: l => by
    rw [allDifferent, Bool.and_eq_true, allDifferent_iff_nodup l, List.nodup_cons]
    constructor
    · rintro ⟨h1, h2⟩
      exact ⟨by simpa using h1, h2⟩
    · rintro ⟨h1, h2⟩
      exact ⟨by simpa using h1, h2⟩

theorem recover_ne_panic (F : Scalars S) (t : Nat) (l : List (S × S)) (hnd : (l.map (·.1)).Nodup) :
    recover F t l ≠ .panic := by
  unfold recover
  split
  · intro h; cases h
  · have hsub : ((l.take (t + 1)).map (·.1)).Sublist (l.map (·.1)) := (List.take_sublist _ _).map _
    simp only [(allDifferent_iff_nodup _).mpr (hnd.sublist hsub), ↓reduceIte]
    intro h; cases h

/-! ### the share loop: de-duplication invariant -/

/-- `seen` holds exactly the canonical encodings of the collected IDs. -/
def AccInv (F : Scalars S) (acc : Acc S) : Prop :=
  acc.seen = acc.collected.map (fun c => F.encode c.1) ∧ (acc.collected.map (·.1)).Nodup

theorem accInv_empty (F : Scalars S) : AccInv F ({} : Acc S) := by
  constructor <;> simp

theorem addShares_inv (F : Scalars S) : ∀ (shares : List Share) (acc : Acc S), AccInv F acc →
    AccInv F (addShares F (canonicalKey F) shares acc)
  | [], acc, h => by simpa [addShares] using h
  | s :: rest, acc, h => by
    rw [addShares]
    split
    · exact addShares_inv F rest acc h
    · rename_i id hid
      simp only
      split
      · exact addShares_inv F rest acc h
      · rename_i hnot
        split
        · exact addShares_inv F rest acc h
        · rename_i v hv
          apply addShares_inv F rest
          obtain ⟨h1, h2⟩ := h
          constructor
          · simp [h1, canonicalKey]
          · simp only [List.map_append, List.map_cons, List.map_nil]
            rw [List.nodup_append]
            refine ⟨h2, by simp, ?_⟩
            intro a ha b hb hab
            simp only [List.mem_singleton] at hb
            subst hb
            subst hab
            apply hnot
            simp only [List.contains_eq_mem, decide_eq_true_eq, h1, canonicalKey]
            obtain ⟨c, hc, hca⟩ := List.mem_map.mp ha
            exact List.mem_map.mpr ⟨c, hc, by rw [hca]⟩

theorem collect_inv (P : Prims) (F : Scalars S) (matched : Nat → List Bytes) (envId ctx : Bytes) :
    ∀ (gs : List Grant) (gi : Nat) (acc : Acc S) (unl : List Nat), AccInv F acc →
      AccInv F (collect P F (canonicalKey F) matched envId ctx gi gs acc unl).1
  | [], gi, acc, unl, h => by simpa [collect] using h
  | g :: rest, gi, acc, unl, h => by
    rw [collect]
    split
    · exact collect_inv P F matched envId ctx rest _ _ _ h
    · split
      · exact collect_inv P F matched envId ctx rest _ _ _ h
      · split
        · exact collect_inv P F matched envId ctx rest _ _ _ h
        · exact collect_inv P F matched envId ctx rest _ _ _ (addShares_inv F _ _ h)

/-- `UnlockEnvelope` (as fixed) never panics, whatever the envelope and the keys. -/
theorem unlock_ne_panic (P : Prims) (F : Scalars S) (ctx : Bytes) (env : Envelope) (keys : List Bytes) :
    unlock P F ctx env keys ≠ .panic := by
  unfold unlock unlockWith
  split
  · intro h; cases h
  split
  · intro h; cases h
  split
  · intro h; cases h
  simp only
  have hinv := collect_inv P F (matchKeys P env keys) env.envelopeId ctx env.grants 0 {} [] (accInv_empty F)
  unfold finish
  simp only
  split
  · intro h; cases h
  · have := recover_ne_panic F env.threshold _ hinv.2
    split
    · intro h; cases h
    · rename_i hp; exact absurd hp this
    · unfold openPayload
      simp only
      split
      · intro h; cases h
      · split <;> (intro h; cases h)

theorem unlockWire_ne_panic (P : Prims) (F : Scalars S) (ctx wire : Bytes) (keys : List Bytes) :
    unlockWire P F ctx wire keys ≠ .panic := by
  unfold unlockWire
  split
  · intro h; cases h
  · exact unlock_ne_panic P F ctx _ keys

/-! ### processing honest grants -/

theorem addShares_honest (F : Scalars S) (hF : CodecLaw F) : ∀ (sh : List (S × S)) (acc : Acc S), AccInv F acc →
    (acc.collected.map (·.1) ++ sh.map (·.1)).Nodup →
    addShares F (canonicalKey F) (sh.map (encShare F)) acc =
      { collected := acc.collected ++ sh, seen := acc.seen ++ sh.map (fun c => F.encode c.1) }
  | [], acc, _, _ => by simp [addShares]
  | (x, y) :: sh, acc, hinv, hnd => by
    obtain ⟨h1, h2⟩ := hinv
    have hx : x ∉ acc.collected.map (·.1) := by
      intro hm
      exact (List.nodup_append.mp hnd).2.2 x hm x (by simp) rfl
    have hnot : acc.seen.contains (F.encode x) = false := by
      rw [Bool.eq_false_iff]
      intro hc
      simp only [List.contains_eq_mem, decide_eq_true_eq, h1] at hc
      obtain ⟨c, hc1, hc2⟩ := List.mem_map.mp hc
      exact hx (List.mem_map.mpr ⟨c, hc1, hF.encode_inj hc2⟩)
    rw [List.map_cons, addShares]
    simp only [encShare, hF.decode_encode, canonicalKey, hnot, Bool.false_eq_true, ↓reduceIte]
    have hinv' : AccInv F { collected := acc.collected ++ [(x, y)], seen := acc.seen ++ [F.encode x] } := by
      constructor
      · simp [h1]
      · simp only [List.map_append, List.map_cons, List.map_nil]
        rw [List.nodup_append]
        refine ⟨h2, by simp, ?_⟩
        intro a ha b hb hab
        simp only [List.mem_singleton] at hb
        subst hb; subst hab
        exact hx ha
    have hnd' : (({ collected := acc.collected ++ [(x, y)], seen := acc.seen ++ [F.encode x] } : Acc S).collected.map (·.1)
        ++ sh.map (·.1)).Nodup := by
      simpa [List.append_assoc] using hnd
    have ih := addShares_honest F hF sh _ hinv' hnd'
    rw [ih]
    simp [List.append_assoc]

/-- the key matching of `matchPrivKeys` for an envelope carrying `keypairs` -/
def MatchedFor (P : Prims) (keypairs sks : List Bytes) (matched : Nat → List Bytes) : Prop :=
  ∀ k, matched k = match keypairs[k]? with
    | none => []
    | some pem => sks.filter (fun sk => P.pub sk = pem)

theorem matchKey_matchedFor (P : Prims) (env : Envelope) (sks : List Bytes) :
    MatchedFor P env.keypairs sks (matchKeys P env sks) := by
  intro k; rfl

/-- the keys claiming one keypair, tried in order on an honest ciphertext: genuine ones decrypt
it, shadow keys are passed over -/
theorem tryKeys_honest (P : Prims) (hP : PrimsLaw P) (pk ectx inner ct : Bytes)
    (hct : P.pkEnc pk ectx inner = some ct) :
    ∀ l : List Bytes, (∀ sk ∈ l, P.pub sk = pk) →
      tryKeys P ectx ct l = if l.any P.genuine then some inner else none
  | [], _ => by simp [tryKeys]
  | sk :: rest, h => by
    have hpub : P.pub sk = pk := h sk (by simp)
    have ih := tryKeys_honest P hP pk ectx inner ct hct rest (fun x hx => h x (by simp [hx]))
    rw [tryKeys]
    cases hg : P.genuine sk with
    | true =>
      rw [hP.pk_roundtrip sk ectx inner ct hg (by rw [hpub]; exact hct)]
      simp [hg]
    | false =>
      rw [hP.shadow_fails sk ectx inner ct hg (by rw [hpub]; exact hct)]
      simp only [ih, List.any_cons, hg, Bool.false_or]

theorem tryDecrypt_honest (P : Prims) (hP : PrimsLaw P) (keypairs sks : List Bytes) (ectx inner : Bytes)
    (matched : Nat → List Bytes) (hm : MatchedFor P keypairs sks matched) :
    ∀ (idxs : List Nat) (cts : List Bytes), encAll P keypairs ectx inner idxs = .ok cts →
      cts.length = idxs.length ∧
      tryDecrypt P matched ectx (idxs.zip cts) = if canOpen P keypairs sks idxs then some inner else none
  | [], cts, h => by
    simp only [encAll, Outcome.ok.injEq] at h
    subst h
    simp [tryDecrypt, canOpen]
  | k :: ks, cts, h => by
    rw [encAll] at h
    split at h
    · cases h
    · rename_i pk hk
      split at h
      · cases h
      · rename_i ct hct
        split at h
        · rename_i cts' hrest
          simp only [Outcome.ok.injEq] at h
          subst h
          obtain ⟨ihl, iht⟩ := tryDecrypt_honest P hP keypairs sks ectx inner matched hm ks cts' hrest
          refine ⟨by simp [ihl], ?_⟩
          rw [List.zip_cons_cons, tryDecrypt]
          have hmk := hm k
          rw [hk] at hmk
          simp only at hmk
          rw [hmk, tryKeys_honest P hP pk ectx inner ct hct _
            (by intro sk hsk; simpa using (List.mem_filter.mp hsk).2)]
          have hany : ((sks.filter fun sk => P.pub sk = pk).any P.genuine) =
              sks.any fun sk => P.genuine sk && decide (P.pub sk = pk) := by
            rw [List.any_filter]
            congr 1
            funext x
            exact Bool.and_comm _ _
          rw [hany]
          cases hb : (sks.any fun sk => P.genuine sk && decide (P.pub sk = pk)) with
          | true => simp [canOpen, hk, hb]
          | false =>
            simp only [Bool.false_eq_true, ↓reduceIte]
            rw [iht]
            simp [canOpen, hk, hb]
        · cases h
        · cases h

theorem reachShares_sublist {α : Type} (op : List Nat → Bool) : ∀ (pairs : List (GrantConfig × List α)),
    (reachShares op pairs).Sublist (pairs.flatMap (·.2))
  | [] => by simp [reachShares]
  | (gc, sh) :: rest => by
    rw [reachShares, List.flatMap_cons]
    apply List.Sublist.append _ (reachShares_sublist op rest)
    split
    · exact List.Sublist.refl _
    · exact List.nil_sublist _

theorem collect_honest (P : Prims) (hP : PrimsLaw P) (F : Scalars S) (hF : CodecLaw F)
    (hcodec : ∀ l : List (S × S), decodeInner (encodeInner (l.map (encShare F))) = some (l.map (encShare F)))
    (keypairs sks : List Bytes) (envId ctx : Bytes) (matched : Nat → List Bytes)
    (hm : MatchedFor P keypairs sks matched) :
    ∀ (pairs : List (GrantConfig × List (S × S))) (gi : Nat) (gs : List Grant) (acc : Acc S) (unl : List Nat),
      mkGrants P F keypairs envId ctx gi pairs = .ok gs → AccInv F acc →
      (acc.collected.map (·.1) ++ (pairs.flatMap (·.2)).map (·.1)).Nodup →
      collect P F (canonicalKey F) matched envId ctx gi gs acc unl =
        ({ collected := acc.collected ++ reachShares (canOpen P keypairs sks) pairs,
           seen := acc.seen ++ (reachShares (canOpen P keypairs sks) pairs).map (fun c => F.encode c.1) },
         unl ++ (reachIdx (canOpen P keypairs sks) gi (pairs.map (·.1))).map u32)
  | [], gi, gs, acc, unl, h, _, _ => by
    simp only [mkGrants, Outcome.ok.injEq] at h
    subst h
    simp [collect, reachShares, reachIdx]
  | (gc, sh) :: rest, gi, gs, acc, unl, h, hinv, hnd => by
    rw [mkGrants] at h
    split at h
    · cases h
    · cases h
    · rename_i cts hcts
      split at h
      · rename_i gs' hrest
        simp only [Outcome.ok.injEq] at h
        subst h
        obtain ⟨hlen, htry⟩ := tryDecrypt_honest P hP keypairs sks _ _ matched hm _ _ hcts
        rw [collect]
        simp only [hlen, ne_eq, not_true_eq_false, ↓reduceIte, htry]
        have hnd_rest : (acc.collected.map (·.1) ++ (rest.flatMap (·.2)).map (·.1)).Nodup := by
          refine List.Nodup.sublist ?_ hnd
          apply List.Sublist.append (List.Sublist.refl _)
          apply List.Sublist.map
          rw [List.flatMap_cons]
          exact List.sublist_append_right _ _
        by_cases hop : canOpen P keypairs sks gc.keypairIndexes = true
        · simp only [hop, ↓reduceIte, hcodec]
          have hnd_sh : (acc.collected.map (·.1) ++ sh.map (·.1)).Nodup := by
            refine List.Nodup.sublist ?_ hnd
            apply List.Sublist.append (List.Sublist.refl _)
            apply List.Sublist.map
            rw [List.flatMap_cons]
            exact List.sublist_append_left _ _
          rw [addShares_honest F hF sh acc hinv hnd_sh]
          have hinv' := addShares_inv F (sh.map (encShare F)) acc hinv
          rw [addShares_honest F hF sh acc hinv hnd_sh] at hinv'
          have hnd' : (({ collected := acc.collected ++ sh, seen := acc.seen ++ sh.map (fun c => F.encode c.1) } : Acc S).collected.map (·.1)
              ++ (rest.flatMap (·.2)).map (·.1)).Nodup := by
            simpa [List.flatMap_cons, List.append_assoc] using hnd
          rw [collect_honest P hP F hF hcodec keypairs sks envId ctx matched hm rest (gi + 1) gs' _ _ hrest hinv' hnd']
          simp [reachShares, reachIdx, hop, List.append_assoc]
        · have hop' : canOpen P keypairs sks gc.keypairIndexes = false := by simpa using hop
          simp only [hop', Bool.false_eq_true, ↓reduceIte]
          rw [collect_honest P hP F hF hcodec keypairs sks envId ctx matched hm rest (gi + 1) gs' _ _ hrest hinv hnd_rest]
          simp [reachShares, reachIdx, hop']
      · cases h
      · cases h

/-! ### share placement -/

theorem place_map_fst {α : Type} : ∀ (gcs : List GrantConfig) (sh : List α), (place gcs sh).map (·.1) = gcs
  | [], _ => rfl
  | gc :: rest, sh => by simp [place, place_map_fst rest]

theorem place_flat_sublist {α : Type} : ∀ (gcs : List GrantConfig) (sh : List α),
    ((place gcs sh).flatMap (·.2)).Sublist sh
  | [], _ => by simp [place]
  | gc :: rest, sh => by
    rw [place, List.flatMap_cons]
    have := List.Sublist.append (List.Sublist.refl (sh.take (effCount gc))) (place_flat_sublist rest (sh.drop (effCount gc)))
    rwa [List.take_append_drop] at this

theorem reachShares_place_length {α : Type} (op : List Nat → Bool) : ∀ (gcs : List GrantConfig) (sh : List α),
    (reachShares op (place gcs sh)).length = reachCount op gcs sh.length
  | [], _ => rfl
  | gc :: rest, sh => by
    rw [place, reachShares, reachCount, List.length_append, reachShares_place_length op rest]
    simp only [List.length_drop]
    have e : sh.length - min (effCount gc) sh.length = sh.length - effCount gc := by omega
    rw [e]
    split <;> simp [List.length_take]

theorem reachCount_le (op : List Nat → Bool) : ∀ (gcs : List GrantConfig) (n : Nat), reachCount op gcs n ≤ n
  | [], _ => Nat.zero_le _
  | gc :: rest, n => by
    rw [reachCount]
    have := reachCount_le op rest (n - min (effCount gc) n)
    split <;> omega

theorem usableShares_eq_reachCount : ∀ (gcs : List GrantConfig) (n : Nat),
    usableShares gcs n = reachCount (fun idxs => !idxs.isEmpty) gcs n
  | [], _ => rfl
  | gc :: rest, n => by
    rw [usableShares, reachCount, usableShares_eq_reachCount rest]
    by_cases h : gc.keypairIndexes.isEmpty <;> simp [h]

theorem reachIdx_lt (op : List Nat → Bool) : ∀ (gcs : List GrantConfig) (gi : Nat), ∀ i ∈ reachIdx op gi gcs,
    i < gi + gcs.length
  | [], _, i, h => by simp [reachIdx] at h
  | gc :: rest, gi, i, h => by
    rw [reachIdx] at h
    have ih := reachIdx_lt op rest (gi + 1)
    simp only [List.length_cons]
    split at h
    · rcases List.mem_cons.mp h with h | h
      · omega
      · have := ih i h; omega
    · have := ih i h; omega

theorem splitShares_length (F : Scalars S) (cs : List S) (n : Nat) : (splitShares F cs n).length = n := by
  simp [splitShares]

theorem splitShares_mem (F : Scalars S) (cs : List S) (n : Nat) (s : S × S) (h : s ∈ splitShares F cs n) :
    s.2 = polyEval F cs s.1 := by
  unfold splitShares at h
  obtain ⟨i, _, rfl⟩ := List.mem_map.mp h
  rfl

theorem sumShares_lt (nkeys : Nat) : ∀ (gcs : List GrantConfig) (acc sum : Nat), acc < 2 ^ 32 →
    sumShares nkeys gcs acc = some sum → sum < 2 ^ 32
  | [], acc, sum, ha, h => by
    simp only [sumShares, Option.some.injEq] at h
    omega
  | gc :: rest, acc, sum, _, h => by
    rw [sumShares] at h
    split at h
    · cases h
    · exact sumShares_lt nkeys rest _ sum (Nat.mod_lt _ (by decide)) h

/-- every keypair index of every grant is in range when the validation loop succeeds -/
theorem sumShares_valid (nkeys : Nat) : ∀ (gcs : List GrantConfig) (acc sum : Nat),
    sumShares nkeys gcs acc = some sum → ∀ gc ∈ gcs, ∀ k ∈ gc.keypairIndexes, k < nkeys
  | [], _, _, _, gc, hgc => by cases hgc
  | g :: rest, acc, sum, h, gc, hgc => by
    rw [sumShares] at h
    split at h
    · cases h
    · rename_i hany
      rcases List.mem_cons.mp hgc with rfl | hmem
      · intro k hk
        have : ¬ (gc.keypairIndexes.any fun idx => decide (idx ≥ nkeys)) = true := hany
        rw [List.any_eq_true] at this
        exact Nat.lt_of_not_le fun hge => this ⟨k, hk, by simpa using hge⟩
      · exact sumShares_valid nkeys rest _ sum h gc hmem

/-! ### what `BuildEnvelope` establishes -/

theorem mkGrants_length (P : Prims) (F : Scalars S) (keypairs : List Bytes) (envId ctx : Bytes) :
    ∀ (pairs : List (GrantConfig × List (S × S))) (gi : Nat) (gs : List Grant),
      mkGrants P F keypairs envId ctx gi pairs = .ok gs → gs.length = pairs.length
  | [], gi, gs, h => by
    simp only [mkGrants, Outcome.ok.injEq] at h
    subst h; rfl
  | (gc, sh) :: rest, gi, gs, h => by
    rw [mkGrants] at h
    split at h
    · cases h
    · cases h
    · split at h
      · rename_i gs' hrest
        simp only [Outcome.ok.injEq] at h
        subst h
        simp [mkGrants_length P F keypairs envId ctx rest (gi + 1) gs' hrest]
      · cases h
      · cases h

theorem place_length {α : Type} : ∀ (gcs : List GrantConfig) (sh : List α), (place gcs sh).length = gcs.length
  | [], _ => rfl
  | gc :: rest, sh => by simp [place, place_length rest]

/-- everything `BuildEnvelope` established when it returned an envelope -/
theorem build_ok (P : Prims) (F : Scalars S) (secret : S) (coeff : Nat → S) (nonce ctx payload : Bytes)
    (keypairs : List Bytes) (cfg : Config) (env : Envelope)
    (h : build P F secret coeff nonce ctx payload keypairs cfg = .ok env) :
    payload ≠ [] ∧ keypairs ≠ [] ∧ cfg.grants ≠ [] ∧
    ∃ sum, sumShares keypairs.length cfg.grants 0 = some sum ∧
      cfg.threshold + 1 ≤ usableShares cfg.grants (totalOf cfg sum) ∧
      ∃ gs, mkGrants P F keypairs env.envelopeId ctx 0
              (place cfg.grants (splitShares F (polyOf secret coeff cfg.threshold) (totalOf cfg sum))) = .ok gs ∧
        env.grants = gs ∧ env.keypairs = keypairs ∧ env.threshold = cfg.threshold ∧
        env.contextHash = P.ctxHash ctx ∧
        env.ciphertext = nonce ++ P.aseal (P.kdf (kdContext env.envelopeId ctx) (F.encode secret)) nonce payload := by
  unfold build at h
  split at h
  · cases h
  rename_i hp
  split at h
  · cases h
  rename_i hk
  split at h
  · cases h
  rename_i hg
  split at h
  · cases h
  rename_i sum hsum
  simp only at h
  split at h
  · cases h
  rename_i hth
  split at h
  · cases h
  split at h
  · cases h
  · cases h
  rename_i gs hgs
  simp only [Outcome.ok.injEq] at h
  subst h
  refine ⟨by simpa using hp, by simpa using hk, by simpa using hg, sum, hsum, by omega, gs, hgs, rfl, rfl, rfl, rfl, rfl⟩

theorem buildTotal_eq (nkeys : Nat) (cfg : Config) (sum : Nat) (h : sumShares nkeys cfg.grants 0 = some sum) :
    buildTotal nkeys cfg = totalOf cfg sum := by
  unfold buildTotal
  rw [h]; rfl

/-! ### `UnlockEnvelope` on an envelope made by `BuildEnvelope` -/

/-- The result record `UnlockEnvelope` reports for a configuration and a set of offered keys. -/
def expectedResult (P : Prims) (keypairs sks : List Bytes) (cfg : Config) (ok : Bool) : UnlockResult :=
  { success := ok
    sharesAvailable := reachCount (canOpen P keypairs sks) cfg.grants (buildTotal keypairs.length cfg)
    sharesNeeded := cfg.threshold + 1
    unlockedGrantIndexes := reachIdx (canOpen P keypairs sks) 0 cfg.grants }

/-- the shares a set of offered keys collects from an envelope made by `BuildEnvelope` -/
theorem collect_build (P : Prims) (hP : PrimsLaw P) (F : Scalars S) (hF : CodecLaw F)
    (hcodec : ∀ l : List (S × S), decodeInner (encodeInner (l.map (encShare F))) = some (l.map (encShare F)))
    (secret : S) (coeff : Nat → S) (nonce ctx payload : Bytes) (keypairs : List Bytes) (cfg : Config) (env : Envelope)
    (hb : build P F secret coeff nonce ctx payload keypairs cfg = .ok env)
    (hids : ((splitShares F (polyOf secret coeff cfg.threshold) (buildTotal keypairs.length cfg)).map (·.1)).Nodup)
    (sks : List Bytes) :
    ∃ col : List (S × S),
      (collect P F (canonicalKey F) (matchKeys P env sks) env.envelopeId ctx 0 env.grants {} []).1.collected = col ∧
      (collect P F (canonicalKey F) (matchKeys P env sks) env.envelopeId ctx 0 env.grants {} []).2 =
        (reachIdx (canOpen P keypairs sks) 0 cfg.grants).map u32 ∧
      col.length = reachCount (canOpen P keypairs sks) cfg.grants (buildTotal keypairs.length cfg) ∧
      (col.map (·.1)).Nodup ∧
      (∀ s ∈ col, s ∈ splitShares F (polyOf secret coeff cfg.threshold) (buildTotal keypairs.length cfg)) := by
  obtain ⟨_, _, _, sum, hsum, _, gs, hgs, hgr, hkp, _, _, _⟩ :=
    build_ok P F secret coeff nonce ctx payload keypairs cfg env hb
  rw [buildTotal_eq _ _ _ hsum] at hids ⊢
  generalize hshares : splitShares F (polyOf secret coeff cfg.threshold) (totalOf cfg sum) = shares at *
  have hm : MatchedFor P keypairs sks (matchKeys P env sks) := by
    have := matchKey_matchedFor P env sks
    rwa [hkp] at this
  have hsub : ((place cfg.grants shares).flatMap (·.2)).Sublist shares := place_flat_sublist _ _
  have hnd0 : ((({} : Acc S).collected).map (·.1) ++ ((place cfg.grants shares).flatMap (·.2)).map (·.1)).Nodup := by
    simp only [List.map_nil, List.nil_append]
    exact List.Nodup.sublist (hsub.map _) hids
  have hc := collect_honest P hP F hF hcodec keypairs sks env.envelopeId ctx (matchKeys P env sks) hm
    (place cfg.grants shares) 0 gs {} [] hgs (accInv_empty F) hnd0
  rw [hgr, hc]
  have hsub2 := (reachShares_sublist (canOpen P keypairs sks) (place cfg.grants shares)).trans hsub
  refine ⟨reachShares (canOpen P keypairs sks) (place cfg.grants shares), by simp, by simp [place_map_fst], ?_, ?_, ?_⟩
  · rw [reachShares_place_length, ← hshares, splitShares_length]
  · exact List.Nodup.sublist (hsub2.map _) hids
  · intro s hs
    exact hsub2.subset hs

theorem u32_of_lt {n : Nat} (h : n < 2 ^ 32) : u32 n = n := Nat.mod_eq_of_lt h

/-- The payload step of `UnlockEnvelope` for an envelope made by `BuildEnvelope` whose payload
ciphertext has been replaced by `c'` (`c'` = the original ciphertext: the honest envelope). -/
def openWith (P : Prims) (key c' : Bytes) (r : UnlockResult) : UnlockOutcome :=
  if c'.length < 24 then .err .decryptionFailed
  else
    match P.aopen key (c'.take 24) (c'.drop 24) with
    | none => .err .decryptionFailed
    | some p => .opened p r

/-- **`UnlockEnvelope ∘ BuildEnvelope`**, with the payload ciphertext possibly replaced: the exact
outcome for any list of offered keys. -/
theorem unlock_build_ct (P : Prims) (hP : PrimsLaw P) (F : Scalars S) (hF : CodecLaw F)
    (hcodec : ∀ l : List (S × S), decodeInner (encodeInner (l.map (encShare F))) = some (l.map (encShare F)))
    (secret : S) (coeff : Nat → S) (nonce ctx payload : Bytes) (keypairs : List Bytes) (cfg : Config) (env : Envelope)
    (hb : build P F secret coeff nonce ctx payload keypairs cfg = .ok env)
    (hw : cfg.totalShares < 2 ^ 32 ∧ cfg.grants.length ≤ 2 ^ 32)
    (hids : ((splitShares F (polyOf secret coeff cfg.threshold) (buildTotal keypairs.length cfg)).map (·.1)).Nodup)
    (hrec : ∀ l : List (S × S),
      (∀ s ∈ l, s ∈ splitShares F (polyOf secret coeff cfg.threshold) (buildTotal keypairs.length cfg)) →
      (l.map (·.1)).Nodup → cfg.threshold < l.length → recover F cfg.threshold l = .ok secret)
    (sks : List Bytes) (c' : Bytes) :
    unlock P F ctx { env with ciphertext := c' } sks =
      if cfg.threshold + 1 ≤ reachCount (canOpen P keypairs sks) cfg.grants (buildTotal keypairs.length cfg)
      then openWith P (P.kdf (kdContext env.envelopeId ctx) (F.encode secret)) c' (expectedResult P keypairs sks cfg true)
      else .locked (expectedResult P keypairs sks cfg false) := by
  obtain ⟨col, hcol, hunl, hlen, hnd, hmem⟩ :=
    collect_build P hP F hF hcodec secret coeff nonce ctx payload keypairs cfg env hb hids sks
  obtain ⟨_, hk, hg, sum, hsum, hth, gs, hgs, hgr, hkp, het, hch, _⟩ :=
    build_ok P F secret coeff nonce ctx payload keypairs cfg env hb
  have htot : buildTotal keypairs.length cfg < 2 ^ 32 := by
    rw [buildTotal_eq _ _ _ hsum]
    unfold totalOf
    split
    · exact hw.1
    · exact sumShares_lt _ _ _ _ (by decide) hsum
  have havail_le := reachCount_le (canOpen P keypairs sks) cfg.grants (buildTotal keypairs.length cfg)
  have husable_le : usableShares cfg.grants (totalOf cfg sum) ≤ totalOf cfg sum := by
    rw [usableShares_eq_reachCount]; exact reachCount_le _ _ _
  rw [← buildTotal_eq _ _ _ hsum] at husable_le hth
  have hgne : env.grants.isEmpty = false := by
    rw [hgr]
    have := mkGrants_length P F keypairs env.envelopeId ctx _ _ _ hgs
    rw [place_length] at this
    cases hgl : gs with
    | nil => rw [hgl] at this; exact absurd (List.length_eq_zero_iff.mp this.symm) hg
    | cons a l => rfl
  have hkne : env.keypairs.isEmpty = false := by
    rw [hkp]
    cases hkl : keypairs with
    | nil => exact absurd hkl hk
    | cons a l => rfl
  have hunl' : (reachIdx (canOpen P keypairs sks) 0 cfg.grants).map u32 = reachIdx (canOpen P keypairs sks) 0 cfg.grants := by
    conv => rhs; rw [← List.map_id (reachIdx (canOpen P keypairs sks) 0 cfg.grants)]
    apply List.map_congr_left
    intro i hi
    have := reachIdx_lt _ _ _ i hi
    exact u32_of_lt (by omega)
  unfold unlock unlockWith
  show (if env.grants.isEmpty then UnlockOutcome.err Err.noGrants
    else if env.keypairs.isEmpty then UnlockOutcome.err Err.noKeypairs
    else if env.contextHash ≠ P.ctxHash ctx then UnlockOutcome.err Err.contextMismatch
    else finish P F ctx { env with ciphertext := c' }
      (collect P F (canonicalKey F) (matchKeys P env sks) env.envelopeId ctx 0 env.grants {} []).1.collected
      (collect P F (canonicalKey F) (matchKeys P env sks) env.envelopeId ctx 0 env.grants {} []).2) = _
  rw [hgne, hkne, hcol, hunl, hunl']
  simp only [Bool.false_eq_true, ↓reduceIte, hch, ne_eq, not_true_eq_false]
  unfold finish
  simp only [het]
  rw [u32_of_lt (show col.length < 2 ^ 32 by omega), u32_of_lt (show cfg.threshold + 1 < 2 ^ 32 by omega), hlen]
  by_cases hen : cfg.threshold + 1 ≤ reachCount (canOpen P keypairs sks) cfg.grants (buildTotal keypairs.length cfg)
  · rw [if_neg (by omega), if_pos hen, hrec col hmem hnd (by omega)]
    simp only
    unfold openPayload openWith
    rfl
  · rw [if_pos (by omega), if_neg hen]
    rfl

/-- **`UnlockEnvelope ∘ BuildEnvelope`**: the exact outcome for any list of offered keys. -/
theorem unlock_build (P : Prims) (hP : PrimsLaw P) (F : Scalars S) (hF : CodecLaw F)
    (hcodec : ∀ l : List (S × S), decodeInner (encodeInner (l.map (encShare F))) = some (l.map (encShare F)))
    (secret : S) (coeff : Nat → S) (nonce ctx payload : Bytes) (keypairs : List Bytes) (cfg : Config) (env : Envelope)
    (hb : build P F secret coeff nonce ctx payload keypairs cfg = .ok env)
    (hn : nonce.length = 24)
    (hw : cfg.totalShares < 2 ^ 32 ∧ cfg.grants.length ≤ 2 ^ 32)
    (hids : ((splitShares F (polyOf secret coeff cfg.threshold) (buildTotal keypairs.length cfg)).map (·.1)).Nodup)
    (hrec : ∀ l : List (S × S),
      (∀ s ∈ l, s ∈ splitShares F (polyOf secret coeff cfg.threshold) (buildTotal keypairs.length cfg)) →
      (l.map (·.1)).Nodup → cfg.threshold < l.length → recover F cfg.threshold l = .ok secret)
    (sks : List Bytes) :
    unlock P F ctx env sks =
      if cfg.threshold + 1 ≤ reachCount (canOpen P keypairs sks) cfg.grants (buildTotal keypairs.length cfg)
      then .opened payload (expectedResult P keypairs sks cfg true)
      else .locked (expectedResult P keypairs sks cfg false) := by
  have h := unlock_build_ct P hP F hF hcodec secret coeff nonce ctx payload keypairs cfg env hb hw hids hrec sks env.ciphertext
  have he : ({ env with ciphertext := env.ciphertext } : Envelope) = env := rfl
  rw [he] at h
  rw [h]
  obtain ⟨_, _, _, _, _, _, _, _, _, _, _, _, hct⟩ := build_ok P F secret coeff nonce ctx payload keypairs cfg env hb
  split
  · unfold openWith
    simp only [hct, List.length_append, hn]
    rw [if_neg (by omega)]
    have htake : (nonce ++ P.aseal (P.kdf (kdContext env.envelopeId ctx) (F.encode secret)) nonce payload).take 24 = nonce := by
      rw [← hn]; exact List.take_left
    have hdrop : (nonce ++ P.aseal (P.kdf (kdContext env.envelopeId ctx) (F.encode secret)) nonce payload).drop 24 =
        P.aseal (P.kdf (kdContext env.envelopeId ctx) (F.encode secret)) nonce payload := by
      rw [← hn]; exact List.drop_left
    rw [htake, hdrop, hP.aead_roundtrip]
  · rfl

/-! ### all recipients together (C17) -/

/-- every recipient public key has its private key among the offered ones -/
def AllRecipients (P : Prims) (keypairs sks : List Bytes) : Prop :=
  ∀ pk ∈ keypairs, ∃ sk ∈ sks, P.genuine sk = true ∧ P.pub sk = pk

theorem canOpen_all (P : Prims) (keypairs sks : List Bytes) (hall : AllRecipients P keypairs sks)
    (idxs : List Nat) (hv : ∀ k ∈ idxs, k < keypairs.length) :
    canOpen P keypairs sks idxs = !idxs.isEmpty := by
  cases idxs with
  | nil => rfl
  | cons k ks =>
    have hk := hv k (by simp)
    obtain ⟨sk, hsk, hgen, hpub⟩ := hall keypairs[k] (List.getElem_mem hk)
    have hany : (sks.any fun sk' => P.genuine sk' && decide (P.pub sk' = keypairs[k])) = true := by
      rw [List.any_eq_true]
      exact ⟨sk, hsk, by simp [hgen, hpub]⟩
    simp [canOpen, List.getElem?_eq_getElem hk, hany]

theorem canOpen_nonempty (P : Prims) (keypairs sks : List Bytes) (idxs : List Nat)
    (h : canOpen P keypairs sks idxs = true) : (!idxs.isEmpty) = true := by
  cases idxs with
  | nil => simp [canOpen] at h
  | cons k ks => rfl

theorem reachCount_congr (op op' : List Nat → Bool) : ∀ (gcs : List GrantConfig) (n : Nat),
    (∀ gc ∈ gcs, op gc.keypairIndexes = op' gc.keypairIndexes) → reachCount op gcs n = reachCount op' gcs n
  | [], _, _ => rfl
  | gc :: rest, n, h => by
    rw [reachCount, reachCount, h gc (by simp), reachCount_congr op op' rest _ (fun g hg => h g (by simp [hg]))]

theorem reachIdx_congr (op op' : List Nat → Bool) : ∀ (gcs : List GrantConfig) (gi : Nat),
    (∀ gc ∈ gcs, op gc.keypairIndexes = op' gc.keypairIndexes) → reachIdx op gi gcs = reachIdx op' gi gcs
  | [], _, _ => rfl
  | gc :: rest, gi, h => by
    rw [reachIdx, reachIdx, h gc (by simp), reachIdx_congr op op' rest _ (fun g hg => h g (by simp [hg]))]

theorem reachCount_mono (op op' : List Nat → Bool) : ∀ (gcs : List GrantConfig) (n : Nat),
    (∀ gc ∈ gcs, op gc.keypairIndexes = true → op' gc.keypairIndexes = true) →
    reachCount op gcs n ≤ reachCount op' gcs n
  | [], _, _ => Nat.le_refl _
  | gc :: rest, n, h => by
    rw [reachCount, reachCount]
    have ih := reachCount_mono op op' rest (n - min (effCount gc) n) (fun g hg => h g (by simp [hg]))
    have hh := h gc (by simp)
    cases h1 : op gc.keypairIndexes <;> cases h2 : op' gc.keypairIndexes <;> simp_all <;> omega

/-! ### acceptance (C17) -/

theorem reach_le_usable (P : Prims) (keypairs sks : List Bytes) (gcs : List GrantConfig) (n : Nat) :
    reachCount (canOpen P keypairs sks) gcs n ≤ usableShares gcs n := by
  rw [usableShares_eq_reachCount]
  apply reachCount_mono
  intro gc _ h
  exact canOpen_nonempty P keypairs sks _ h

theorem reach_all (P : Prims) (keypairs sks : List Bytes) (hall : AllRecipients P keypairs sks)
    (gcs : List GrantConfig) (hv : ∀ gc ∈ gcs, ∀ k ∈ gc.keypairIndexes, k < keypairs.length) (n : Nat) :
    reachCount (canOpen P keypairs sks) gcs n = usableShares gcs n ∧
      ∀ gi, reachIdx (canOpen P keypairs sks) gi gcs = reachIdx (fun idxs => !idxs.isEmpty) gi gcs := by
  have hc : ∀ gc ∈ gcs, canOpen P keypairs sks gc.keypairIndexes = !gc.keypairIndexes.isEmpty :=
    fun gc hgc => canOpen_all P keypairs sks hall _ (hv gc hgc)
  exact ⟨by rw [usableShares_eq_reachCount]; exact reachCount_congr _ _ gcs n hc,
    fun gi => reachIdx_congr _ _ gcs gi hc⟩

theorem exists_all_keys (P : Prims) : ∀ (keypairs : List Bytes), (∀ pk ∈ keypairs, ∃ sk, P.genuine sk = true ∧ P.pub sk = pk) →
    ∃ sks, AllRecipients P keypairs sks
  | [], _ => ⟨[], by intro pk h; cases h⟩
  | pk :: rest, h => by
    obtain ⟨sks, hs⟩ := exists_all_keys P rest (fun p hp => h p (by simp [hp]))
    obtain ⟨sk, hsk⟩ := h pk (by simp)
    refine ⟨sk :: sks, ?_⟩
    intro p hp
    rcases List.mem_cons.mp hp with rfl | hp
    · exact ⟨sk, by simp, hsk⟩
    · obtain ⟨s, hs1, hs2⟩ := hs p hp
      exact ⟨s, by simp [hs1], hs2⟩

/-- `BuildEnvelope` rejects with `ErrInvalidThreshold` exactly when the structural checks pass
and fewer than threshold+1 shares land in decryptable grants. -/
theorem build_invalidThreshold_iff (P : Prims) (F : Scalars S) (secret : S) (coeff : Nat → S)
    (nonce ctx payload : Bytes) (keypairs : List Bytes) (cfg : Config) :
    build P F secret coeff nonce ctx payload keypairs cfg = .err .invalidThreshold ↔
      payload ≠ [] ∧ keypairs ≠ [] ∧ cfg.grants ≠ [] ∧
      ∃ sum, sumShares keypairs.length cfg.grants 0 = some sum ∧
        usableShares cfg.grants (totalOf cfg sum) < cfg.threshold + 1 := by
  unfold build
  constructor
  · intro h
    split at h
    · cases h
    rename_i hp
    split at h
    · cases h
    rename_i hk
    split at h
    · cases h
    rename_i hg
    split at h
    · cases h
    rename_i sum hsum
    simp only at h
    split at h
    · rename_i hth
      exact ⟨by simpa using hp, by simpa using hk, by simpa using hg, sum, hsum, hth⟩
    · split at h
      · cases h
      · split at h
        · rename_i e he
          -- an encryption failure is a different error class
          exfalso
          have : ∀ (pairs : List (GrantConfig × List (S × S))) (gi : Nat) (envId : Bytes) (e : Err),
              mkGrants P F keypairs envId ctx gi pairs = .err e → e = .encrypt := by
            intro pairs
            induction pairs with
            | nil => intro gi envId e h; simp [mkGrants] at h
            | cons pr rest ih =>
              intro gi envId e h
              obtain ⟨gc, sh⟩ := pr
              rw [mkGrants] at h
              split at h
              · rename_i e' he'
                have henc : ∀ (idxs : List Nat) (ectx inner : Bytes) (e : Err),
                    encAll P keypairs ectx inner idxs = .err e → e = .encrypt := by
                  intro idxs
                  induction idxs with
                  | nil => intro ectx inner e h; simp [encAll] at h
                  | cons k ks ih2 =>
                    intro ectx inner e h
                    rw [encAll] at h
                    split at h
                    · cases h
                    · split at h
                      · simp only [Outcome.err.injEq] at h; exact h.symm
                      · split at h
                        · cases h
                        · rename_i e2 he2
                          simp only [Outcome.err.injEq] at h
                          subst h
                          exact ih2 _ _ _ he2
                        · cases h
                simp only [Outcome.err.injEq] at h
                subst h
                exact henc _ _ _ _ he'
              · cases h
              · split at h
                · cases h
                · rename_i e2 he2
                  simp only [Outcome.err.injEq] at h
                  subst h
                  exact ih _ _ _ he2
                · cases h
          have := this _ _ _ _ he
          simp only [Outcome.err.injEq] at h
          rw [this] at h
          cases h
        · cases h
        · cases h
  · rintro ⟨hp, hk, hg, sum, hsum, hth⟩
    have e1 : payload.isEmpty = false := by cases payload with | nil => exact absurd rfl hp | cons a l => rfl
    have e2 : keypairs.isEmpty = false := by cases keypairs with | nil => exact absurd rfl hk | cons a l => rfl
    have e3 : cfg.grants.isEmpty = false := by
      cases hh : cfg.grants with
      | nil => exact absurd hh hg
      | cons a l => rfl
    simp [e1, e2, e3, hsum, hth]

/-- the threshold check as it was before the fix: `threshold > 0 && totalShares < threshold+1`
(in `uint32`) rejects -/
def oldCheckPasses (cfg : Config) (total : Nat) : Bool :=
  !(decide (cfg.threshold > 0) && decide (total < u32 (cfg.threshold + 1)))

/-! ### the context strings are unambiguous in the context (C18) -/

theorem u8_ofNat_ne_58 (d : Nat) (hd : d < 10) : UInt8.ofNat (48 + d) ≠ 58 := by
  intro h
  have h2 := congrArg UInt8.toNat h
  have h3 : (UInt8.ofNat (48 + d)).toNat = 48 + d := by
    rw [UInt8.toNat_ofNat']
    omega
  rw [h3] at h2
  have : (58 : UInt8).toNat = 58 := rfl
  omega

theorem itoaAux_no_colon : ∀ (fuel n : Nat) (acc : Bytes), (∀ b ∈ acc, b ≠ 58) → ∀ b ∈ itoaAux fuel n acc, b ≠ 58
  | 0, _, acc, h => by simpa [itoaAux] using h
  | fuel + 1, n, acc, h => by
    rw [itoaAux]
    have hacc : ∀ b ∈ UInt8.ofNat (48 + n % 10) :: acc, b ≠ 58 := by
      intro b hb
      rcases List.mem_cons.mp hb with rfl | hb
      · exact u8_ofNat_ne_58 _ (Nat.mod_lt _ (by decide))
      · exact h b hb
    split
    · exact hacc
    · exact itoaAux_no_colon fuel _ _ hacc

theorem itoa_no_colon (n : Nat) : (58 : UInt8) ∉ itoa n := by
  intro h
  exact itoaAux_no_colon (n + 1) n [] (by simp) 58 h rfl

/-- two lists split at the first occurrence of a separator agree piecewise -/
theorem append_sep_inj {α : Type} (a : α) : ∀ (l1 l2 r1 r2 : List α), a ∉ l1 → a ∉ l2 →
    l1 ++ a :: r1 = l2 ++ a :: r2 → l1 = l2 ∧ r1 = r2
  | [], [], _, _, _, _, h => by
    simp only [List.nil_append, List.cons.injEq, true_and] at h
    exact ⟨rfl, h⟩
  | [], y :: l2, _, _, _, h2, h => by
    simp only [List.nil_append, List.cons_append, List.cons.injEq] at h
    exact absurd (by rw [← h.1]; simp) h2
  | x :: l1, [], _, _, h1, _, h => by
    simp only [List.nil_append, List.cons_append, List.cons.injEq] at h
    exact absurd (by rw [h.1]; simp) h1
  | x :: l1, y :: l2, r1, r2, h1, h2, h => by
    simp only [List.cons_append, List.cons.injEq] at h
    obtain ⟨ih1, ih2⟩ := append_sep_inj a l1 l2 r1 r2 (fun hm => h1 (by simp [hm])) (fun hm => h2 (by simp [hm])) h.2
    exact ⟨by rw [h.1, ih1], ih2⟩

theorem lenPrefixed_inj (a b : Bytes) (h : lenPrefixed a = lenPrefixed b) : a = b := by
  unfold lenPrefixed at h
  simp only [List.append_assoc, List.singleton_append] at h
  exact (append_sep_inj 58 _ _ _ _ (itoa_no_colon _) (itoa_no_colon _) h).2

/-- for a fixed envelope id and grant index, the grant encryption context determines the context -/
theorem grantEncContext_ctx_inj (envId ctx ctx' : Bytes) (gi : Nat)
    (h : grantEncContext envId ctx gi = grantEncContext envId ctx' gi) : ctx = ctx' := by
  unfold grantEncContext at h
  simp only [List.append_assoc] at h
  have h1 := List.append_cancel_left h
  have h2 := List.append_cancel_left h1
  have h3 := List.append_cancel_left h2
  have h4 := List.append_cancel_left h3
  rw [← List.append_assoc, ← List.append_assoc (lenPrefixed ctx')] at h4
  have h5 := List.append_cancel_right h4
  have h6 := List.append_cancel_right h5
  exact lenPrefixed_inj _ _ h6

theorem tryKeys_other_ctx (P : Prims) (hP : PrimsSecure P) (pk ectx ectx' inner ct : Bytes)
    (hne : ectx' ≠ ectx) (hct : P.pkEnc pk ectx inner = some ct) :
    ∀ l : List Bytes, tryKeys P ectx' ct l = none
  | [] => rfl
  | sk :: rest => by
    rw [tryKeys]
    cases hd : P.pkDec sk ectx' ct with
    | none => exact tryKeys_other_ctx P hP pk ectx ectx' inner ct hne hct rest
    | some m' => exact absurd (hP.pk_bind pk ectx inner ct sk ectx' m' hct hd).2.1 hne

theorem tryDecrypt_other_ctx (P : Prims) (hP : PrimsSecure P) (keypairs : List Bytes) (ectx ectx' inner : Bytes)
    (hne : ectx' ≠ ectx) (matched : Nat → List Bytes) :
    ∀ (idxs : List Nat) (cts : List Bytes), encAll P keypairs ectx inner idxs = .ok cts →
      cts.length = idxs.length ∧ tryDecrypt P matched ectx' (idxs.zip cts) = none
  | [], cts, h => by
    simp only [encAll, Outcome.ok.injEq] at h
    subst h
    simp [tryDecrypt]
  | k :: ks, cts, h => by
    rw [encAll] at h
    split at h
    · cases h
    · rename_i pk hk
      split at h
      · cases h
      · rename_i ct hct
        split at h
        · rename_i cts' hrest
          simp only [Outcome.ok.injEq] at h
          subst h
          obtain ⟨ihl, iht⟩ := tryDecrypt_other_ctx P hP keypairs ectx ectx' inner hne matched ks cts' hrest
          refine ⟨by simp [ihl], ?_⟩
          rw [List.zip_cons_cons, tryDecrypt, tryKeys_other_ctx P hP pk ectx ectx' inner ct hne hct]
          exact iht
        · cases h
        · cases h

theorem collect_other_ctx (P : Prims) (hP : PrimsSecure P) (F : Scalars S) (dk : DedupKey S) (keypairs : List Bytes)
    (envId ctx ctx' : Bytes) (hne : ctx' ≠ ctx) (matched : Nat → List Bytes) :
    ∀ (pairs : List (GrantConfig × List (S × S))) (gi : Nat) (gs : List Grant) (acc : Acc S) (unl : List Nat),
      mkGrants P F keypairs envId ctx gi pairs = .ok gs →
      collect P F dk matched envId ctx' gi gs acc unl = (acc, unl)
  | [], gi, gs, acc, unl, h => by
    simp only [mkGrants, Outcome.ok.injEq] at h
    subst h
    rfl
  | (gc, sh) :: rest, gi, gs, acc, unl, h => by
    rw [mkGrants] at h
    split at h
    · cases h
    · cases h
    · rename_i cts hcts
      split at h
      · rename_i gs' hrest
        simp only [Outcome.ok.injEq] at h
        subst h
        have hectx : grantEncContext envId ctx' gi ≠ grantEncContext envId ctx gi :=
          fun he => hne (grantEncContext_ctx_inj envId ctx' ctx gi he)
        obtain ⟨hlen, htry⟩ := tryDecrypt_other_ctx P hP keypairs _ _ _ hectx matched _ _ hcts
        rw [collect]
        simp only [hlen, ne_eq, not_true_eq_false, ↓reduceIte, htry]
        exact collect_other_ctx P hP F dk keypairs envId ctx ctx' hne matched rest (gi + 1) gs' acc unl hrest
      · cases h
      · cases h

/-- **Context binding without any assumption on the context hash**: an envelope sealed under
`ctx` and unsealed under `ctx' ≠ ctx` is either rejected as a context mismatch or (should the
two context hashes collide) no grant decrypts and nothing opens. -/
theorem unlock_other_ctx (P : Prims) (hP : PrimsSecure P) (F : Scalars S)
    (secret : S) (coeff : Nat → S) (nonce ctx payload : Bytes) (keypairs : List Bytes) (cfg : Config) (env : Envelope)
    (hb : build P F secret coeff nonce ctx payload keypairs cfg = .ok env)
    (hw : cfg.totalShares < 2 ^ 32) (ctx' : Bytes) (hne : ctx' ≠ ctx) (sks : List Bytes) :
    unlock P F ctx' env sks = .err .contextMismatch ∨
      unlock P F ctx' env sks =
        .locked { success := false, sharesAvailable := 0, sharesNeeded := cfg.threshold + 1, unlockedGrantIndexes := [] } := by
  obtain ⟨_, hk, hg, sum, hsum, hth, gs, hgs, hgr, hkp, het, hch, _⟩ :=
    build_ok P F secret coeff nonce ctx payload keypairs cfg env hb
  have htot : totalOf cfg sum < 2 ^ 32 := by
    unfold totalOf
    split
    · exact hw
    · exact sumShares_lt _ _ _ _ (by decide) hsum
  have husable_le : usableShares cfg.grants (totalOf cfg sum) ≤ totalOf cfg sum := by
    rw [usableShares_eq_reachCount]; exact reachCount_le _ _ _
  have hgne : env.grants.isEmpty = false := by
    rw [hgr]
    have := mkGrants_length P F keypairs env.envelopeId ctx _ _ _ hgs
    rw [place_length] at this
    cases hgl : gs with
    | nil => rw [hgl] at this; exact absurd (List.length_eq_zero_iff.mp this.symm) hg
    | cons a l => rfl
  have hkne : env.keypairs.isEmpty = false := by
    rw [hkp]
    cases hkl : keypairs with
    | nil => exact absurd hkl hk
    | cons a l => rfl
  unfold unlock unlockWith
  rw [hgne, hkne]
  simp only [Bool.false_eq_true, ↓reduceIte]
  split
  · exact Or.inl rfl
  · right
    rw [hgr, collect_other_ctx P hP F _ keypairs env.envelopeId ctx ctx' hne _ _ 0 gs {} [] hgs]
    unfold finish
    simp only [het, List.length_nil]
    rw [u32_of_lt (show cfg.threshold + 1 < 2 ^ 32 by omega)]
    have : u32 0 = 0 := rfl
    rw [this, if_pos (by omega)]

/-! ### tampering (C18) -/

/-- Whatever `UnlockEnvelope` returns as payload is what the AEAD opened from the envelope's
payload ciphertext under some key. -/
theorem unlock_opened (P : Prims) (F : Scalars S) (ctx : Bytes) (env : Envelope) (keys : List Bytes)
    (p : Bytes) (r : UnlockResult) (h : unlock P F ctx env keys = .opened p r) :
    24 ≤ env.ciphertext.length ∧ ∃ k, P.aopen k (env.ciphertext.take 24) (env.ciphertext.drop 24) = some p := by
  unfold unlock unlockWith at h
  split at h
  · cases h
  split at h
  · cases h
  split at h
  · cases h
  simp only at h
  unfold finish at h
  simp only at h
  split at h
  · cases h
  split at h
  · cases h
  · cases h
  · unfold openPayload at h
    simp only at h
    split at h
    · cases h
    · rename_i hl
      split at h
      · cases h
      · rename_i p' hp
        simp only [UnlockOutcome.opened.injEq] at h
        exact ⟨by omega, _, by rw [← h.1]; exact hp⟩

theorem unlock_context_mismatch (P : Prims) (F : Scalars S) (ctx : Bytes) (env : Envelope) (keys : List Bytes)
    (hg : env.grants ≠ []) (hk : env.keypairs ≠ []) (hc : env.contextHash ≠ P.ctxHash ctx) :
    unlock P F ctx env keys = .err .contextMismatch := by
  unfold unlock unlockWith
  have h1 : env.grants.isEmpty = false := by
    cases hh : env.grants with
    | nil => exact absurd hh hg
    | cons a l => rfl
  have h2 : env.keypairs.isEmpty = false := by
    cases hh : env.keypairs with
    | nil => exact absurd hh hk
    | cons a l => rfl
  simp [h1, h2, hc]

end

end Envelope
end Bifrost
