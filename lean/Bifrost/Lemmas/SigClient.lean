import Bifrost.Model.SigClient
/-! Invariants of the signaling client tracker LTS (C19, C21, C23). -/
namespace Bifrost
namespace SigClient
open Bifrost.SigC

/-! ### `getSend` / `setSend` -/

theorem find_map_set (l : List SendCall) (c : SendCall) (id : Nat) :
    (l.map fun x => if x.id = c.id then c else x).find? (fun x => decide (x.id = id)) =
      if id = c.id then (l.find? (fun x => decide (x.id = id))).map (fun _ => c)
      else l.find? (fun x => decide (x.id = id)) := by
  induction l with
  | nil => simp
  | cons a l ih =>
    simp only [List.map_cons, List.find?_cons]
    grind

theorem getSend_setSend (s : State) (c : SendCall) (id : Nat) :
    getSend (setSend s c) id =
      if id = c.id then (getSend s id).map (fun _ => c) else getSend s id := by
  simp only [getSend, setSend]
  exact find_map_set s.sends c id

theorem getSend_id {s : State} {id : Nat} {c : SendCall} (h : getSend s id = some c) : c.id = id := by
  have := List.find?_some h
  simpa using this

theorem getSend_mem {s : State} {id : Nat} {c : SendCall} (h : getSend s id = some c) : c ∈ s.sends :=
  List.mem_of_find?_eq_some h

theorem mem_setSend {s : State} {c x : SendCall} (h : x ∈ (setSend s c).sends) :
    x = c ∨ x ∈ s.sends := by
  simp only [setSend, List.mem_map] at h
  obtain ⟨y, hy, rfl⟩ := h
  split
  · exact Or.inl rfl
  · exact Or.inr hy

theorem getSend_sendStart {s : State} {m : Msg} {id : Nat} {c : SendCall}
    (h : getSend s id = some c) : getSend (sendStart s m) id = some c := by
  simp only [getSend, sendStart] at *
  rw [List.find?_append, h]; rfl

/-! ### The invariant -/

structure Inv (s : State) : Prop where
  k0 : s.open_ = none → s.out = none
  k1 : ∀ c ∈ s.sends, c.msg.seqno = c.id
  k2 : ∀ o, s.out = some o → ∃ c, getSend s o.seqno = some c ∧ c.msg = o ∧
        ((c.result = none ∧ c.txed = true) ∨ (c.result = some false ∧ s.outCancel = true))
  k3a : ∀ r, s.recv = some r → (r, true, true, s.open_) ∈ s.accepted
  k3b : ∀ r, s.recv = some r → s.recvProcessed = true → (r, s.open_) ∈ s.delivered
  k4 : s.outAcked = true → ∃ o, s.out = some o ∧ ∃ ep, (o.seqno, ep) ∈ s.ackedLog
  da : ∀ m ep, (m, ep) ∈ s.delivered → (m, true, true, ep) ∈ s.accepted
  ad : ∀ e k, Req.ack e k ∈ s.emitted → ∃ m, (m, some e) ∈ s.delivered ∧ m.seqno = k
  sa : ∀ c ∈ s.sends, c.result = some true → ∃ ep, (c.id, ep) ∈ s.ackedLog

theorem inv_init : Inv {} := by
  constructor <;> simp [getSend]

theorem inv_close {s : State} (h : Inv s) : Inv (close s) := by
  obtain ⟨k0, k1, k2, k3a, k3b, k4, da, ad, sa⟩ := h
  constructor <;> simp_all [close]

theorem inv_opened {s : State} (h : Inv s) (e : Nat) : Inv (opened s e) := by
  unfold opened
  split
  · exact h
  · obtain ⟨k0, k1, k2, k3a, k3b, k4, da, ad, sa⟩ := h
    constructor <;> simp_all [getSend]

theorem inv_recvMsg {s : State} (h : Inv s) (m : Msg) (v g : Bool) : Inv (recvMsg s m v g) := by
  obtain ⟨k0, k1, k2, k3a, k3b, k4, da, ad, sa⟩ := h
  unfold recvMsg
  split
  · constructor <;> simp_all [getSend]
  · constructor <;> simp_all [getSend] <;> grind

theorem inv_clearMsg {s : State} (h : Inv s) (k : Nat) : Inv (clearMsg s k) := by
  unfold clearMsg
  split
  · obtain ⟨k0, k1, k2, k3a, k3b, k4, da, ad, sa⟩ := h
    constructor <;> simp_all [getSend]
  · exact h

theorem inv_ackMsg {s : State} (h : Inv s) (k : Nat) : Inv (ackMsg s k) := by
  unfold ackMsg
  split
  · obtain ⟨k0, k1, k2, k3a, k3b, k4, da, ad, sa⟩ := h
    split
    · constructor <;> simp_all [getSend]
    · constructor <;> simp_all [getSend] <;> grind
  · exact h

theorem inv_recvStep {s : State} (h : Inv s) : Inv (recvStep s) := by
  unfold recvStep
  split
  · split
    · exact h
    · obtain ⟨k0, k1, k2, k3a, k3b, k4, da, ad, sa⟩ := h
      constructor <;> simp_all [getSend] <;> grind
  · exact h

theorem inv_txLoop {s : State} (h : Inv s) : Inv (txLoop s).1 := by
  obtain ⟨k0, k1, k2, k3a, k3b, k4, da, ad, sa⟩ := h
  unfold txLoop
  split
  · constructor <;> assumption
  · split
    · split
      · constructor <;> simp_all [getSend]
      · split
        · constructor <;> simp_all [getSend]
        · split
          · split
            · constructor <;> simp_all [getSend] <;> grind
            · constructor <;> assumption
          · constructor <;> assumption
    · split
      · split
        · constructor <;> simp_all [getSend] <;> grind
        · constructor <;> assumption
      · constructor <;> assumption

theorem inv_sendStart {s : State} (h : Inv s) (m : Msg) : Inv (sendStart s m) := by
  obtain ⟨k0, k1, k2, k3a, k3b, k4, da, ad, sa⟩ := h
  constructor
  · simpa [sendStart] using k0
  · intro c hc
    simp only [sendStart, List.mem_append, List.mem_singleton] at hc
    rcases hc with hc | rfl
    · exact k1 c hc
    · rfl
  · intro o ho
    obtain ⟨c, hc, h2⟩ := k2 o (by simpa [sendStart] using ho)
    exact ⟨c, getSend_sendStart hc, by simpa [sendStart] using h2⟩
  · simpa [sendStart] using k3a
  · simpa [sendStart] using k3b
  · simpa [sendStart] using k4
  · simpa [sendStart] using da
  · simpa [sendStart] using ad
  · intro c hc
    simp only [sendStart, List.mem_append, List.mem_singleton] at hc
    rcases hc with hc | rfl
    · simpa [sendStart] using sa c hc
    · simp

/-! ### list-level view of `getSend`/`setSend` -/

def findL (l : List SendCall) (id : Nat) : Option SendCall := l.find? (fun x => decide (x.id = id))
def setL (l : List SendCall) (c : SendCall) : List SendCall := l.map fun x => if x.id = c.id then c else x

theorem getSend_def (s : State) (id : Nat) : getSend s id = findL s.sends id := rfl
theorem setSend_def (s : State) (c : SendCall) : setSend s c = { s with sends := setL s.sends c } := rfl

theorem findL_setL (l : List SendCall) (c : SendCall) (id : Nat) :
    findL (setL l c) id = if id = c.id then (findL l id).map (fun _ => c) else findL l id :=
  find_map_set l c id

theorem mem_setL {l : List SendCall} {c x : SendCall} (h : x ∈ setL l c) : x = c ∨ x ∈ l := by
  simp only [setL, List.mem_map] at h
  obtain ⟨y, hy, rfl⟩ := h
  split
  · exact Or.inl rfl
  · exact Or.inr hy

theorem findL_id {l : List SendCall} {id : Nat} {c : SendCall} (h : findL l id = some c) : c.id = id := by
  have := List.find?_some h
  simpa using this

theorem findL_mem {l : List SendCall} {id : Nat} {c : SendCall} (h : findL l id = some c) : c ∈ l :=
  List.mem_of_find?_eq_some h

theorem inv_sendCancel {s : State} (h : Inv s) (id : Nat) : Inv (sendCancel s id) := by
  unfold sendCancel
  split
  · exact h
  · rename_i c hc
    split
    · exact h
    · rename_i hr
      obtain ⟨k0, k1, k2, k3a, k3b, k4, da, ad, sa⟩ := h
      have hid := findL_id hc
      have hm := findL_mem hc
      simp only [getSend_def] at hc k2
      simp only [setSend_def]
      split
      · constructor
        · exact k0
        · intro x hx; rcases mem_setL hx with rfl | hx
          · exact k1 c hm
          · exact k1 x hx
        · intro o ho
          obtain ⟨c0, h0, h1, h2⟩ := k2 o ho
          simp only [getSend_def, findL_setL]
          grind
        · exact k3a
        · exact k3b
        · exact k4
        · exact da
        · exact ad
        · intro x hx; rcases mem_setL hx with rfl | hx
          · simp
          · exact sa x hx
      · rename_i htx
        have hk1 : ∀ x ∈ setL s.sends { c with result := some false }, x.msg.seqno = x.id := by
          intro x hx; rcases mem_setL hx with rfl | hx
          · exact k1 c hm
          · exact k1 x hx
        have hsa : ∀ x ∈ setL s.sends { c with result := some false }, x.result = some true →
            ∃ ep, (x.id, ep) ∈ s.ackedLog := by
          intro x hx; rcases mem_setL hx with rfl | hx
          · simp
          · exact sa x hx
        split
        · rename_i hout
          split
          · constructor
            · simp
            · exact hk1
            · simp
            · exact k3a
            · exact k3b
            · simp
            · exact da
            · exact ad
            · exact hsa
          · split
            · constructor
              · exact k0
              · exact hk1
              · intro o ho
                obtain ⟨c0, h0, h1, h2⟩ := k2 o ho
                simp only [getSend_def, findL_setL]
                grind
              · exact k3a
              · exact k3b
              · exact k4
              · exact da
              · exact ad
              · exact hsa
            · constructor
              · exact k0
              · exact hk1
              · intro o ho
                obtain ⟨c0, h0, h1, h2⟩ := k2 o ho
                simp only [getSend_def, findL_setL]
                grind
              · exact k3a
              · exact k3b
              · exact k4
              · exact da
              · exact ad
              · exact hsa
        · rename_i hout
          constructor
          · exact k0
          · exact hk1
          · intro o ho
            obtain ⟨c0, h0, h1, h2⟩ := k2 o ho
            simp only [getSend_def, findL_setL]
            grind
          · exact k3a
          · exact k3b
          · exact k4
          · exact da
          · exact ad
          · exact hsa

inductive StepRes (s : State) (c : SendCall) : State → Prop
  | keep (c' : SendCall) : c'.id = c.id → c'.msg = c.msg → c'.result = none →
      (∀ o, s.out = some o → o.seqno = c.id → c'.txed = c.txed) → StepRes s c (setSend s c')
  | take (c' : SendCall) : c'.id = c.id → c'.msg = c.msg → c'.result = none → c'.txed = true →
      s.open_ ≠ none → s.out = none → StepRes s c (setSend { s with out := some c.msg } c')
  | done (c' : SendCall) (o : Msg) : c'.id = c.id → c'.msg = c.msg → c'.result = some true →
      s.out = some o → o.seqno = c.id → s.outAcked = true →
      StepRes s c (setSend { s with out := none, outSent := false, outAcked := false } c')

theorem sendStep_cases {s : State} {id : Nat} {c : SendCall}
    (hc : getSend s id = some c) (hr : c.result = none) (hk0 : s.open_ = none → s.out = none) :
    StepRes s c (sendStep s id) := by
  obtain ⟨cid, cmsg, ctx, cep, cres⟩ := c
  obtain ⟨open_, out, outSent, outAcked, outCancel, recv, recvProcessed, sends, delivered, emitted,
    accepted, ackedLog, failed⟩ := s
  simp only at hr hk0
  subst hr
  cases open_ with
  | none =>
    have := hk0 rfl
    subst this
    simp only [sendStep, hc]
    exact StepRes.keep _ rfl rfl rfl (by simp)
  | some e =>
    cases out with
    | none =>
      by_cases hep : cep = some e <;> cases ctx <;> simp [sendStep, hc, hep] <;>
        exact StepRes.take _ rfl rfl rfl rfl (by simp) rfl
    | some o =>
      by_cases hoid : o.seqno = cid <;> by_cases hep : cep = some e <;> cases ctx <;>
        cases outAcked <;> simp [sendStep, hc, hep, hoid] <;>
        first
          | exact StepRes.done _ _ rfl rfl rfl rfl hoid rfl
          | exact StepRes.keep _ rfl rfl rfl (by simp [hoid])

theorem inv_sendStep {s : State} (h : Inv s) (id : Nat) : Inv (sendStep s id) := by
  cases hc : getSend s id with
  | none => simp only [sendStep, hc]; exact h
  | some c =>
    cases hr : c.result with
    | some b => simp only [sendStep, hc, hr, Option.isSome_some, if_true]; exact h
    | none =>
      have hcases := sendStep_cases hc hr h.k0
      obtain ⟨k0, k1, k2, k3a, k3b, k4, da, ad, sa⟩ := h
      have hid := findL_id hc
      have hm := findL_mem hc
      simp only [getSend_def] at hc k2
      generalize sendStep s id = s' at hcases
      cases hcases with
      | keep c' h1 h2 h3 h4 =>
        simp only [setSend_def]
        constructor
        · exact k0
        · intro x hx; rcases mem_setL hx with rfl | hx
          · rw [h1, h2]; exact k1 c hm
          · exact k1 x hx
        · intro o ho
          obtain ⟨c0, h0, h5, h6⟩ := k2 o ho
          simp only [getSend_def, findL_setL]
          grind
        · exact k3a
        · exact k3b
        · exact k4
        · exact da
        · exact ad
        · intro x hx; rcases mem_setL hx with rfl | hx
          · simp [h3]
          · exact sa x hx
      | take c' h1 h2 h3 h4 h5 h6 =>
        simp only [setSend_def]
        constructor
        · simpa using h5
        · intro x hx; rcases mem_setL hx with rfl | hx
          · rw [h1, h2]; exact k1 c hm
          · exact k1 x hx
        · intro o ho
          have hk := k1 c hm
          simp only [getSend_def, findL_setL]
          grind
        · exact k3a
        · exact k3b
        · intro ha; obtain ⟨o, ho, _⟩ := k4 ha; simp [h6] at ho
        · exact da
        · exact ad
        · intro x hx; rcases mem_setL hx with rfl | hx
          · simp [h3]
          · exact sa x hx
      | done c' o h1 h2 h3 h4 h5 h6 =>
        simp only [setSend_def]
        constructor
        · simp
        · intro x hx; rcases mem_setL hx with rfl | hx
          · rw [h1, h2]; exact k1 c hm
          · exact k1 x hx
        · simp
        · exact k3a
        · exact k3b
        · simp
        · exact da
        · exact ad
        · intro x hx; rcases mem_setL hx with rfl | hx
          · intro _
            obtain ⟨o', ho', ep, hep⟩ := k4 h6
            refine ⟨ep, ?_⟩
            grind
          · exact sa x hx

theorem inv_step {s : State} (h : Inv s) (e : Ev) : Inv (step s e) := by
  cases e with
  | close => exact inv_close h
  | opened e => exact inv_opened h e
  | recvMsg m v g => exact inv_recvMsg h m v g
  | clearMsg k => exact inv_clearMsg h k
  | ackMsg k => exact inv_ackMsg h k
  | txLoop => exact inv_txLoop h
  | sendStart m => exact inv_sendStart h m
  | sendStep id => exact inv_sendStep h id
  | sendCancel id => exact inv_sendCancel h id
  | recvStep => exact inv_recvStep h

theorem inv_of_reachable {s : State} (h : Reachable s) : Inv s := by
  induction h with
  | init => exact inv_init
  | step e _ _ ih => exact inv_step ih e

/-! ### The observations follow from the invariant -/

theorem deliveredAuthentic_of_inv {s : State} (h : Inv s) : deliveredAuthentic s = true := by
  simp only [deliveredAuthentic, List.all_eq_true, List.any_eq_true]
  rintro ⟨m, ep⟩ hm
  exact ⟨(m, true, true, ep), h.da m ep hm, by simp⟩

theorem acksAreDelivered_of_inv {s : State} (h : Inv s) : acksAreDelivered s = true := by
  simp only [acksAreDelivered, List.all_eq_true]
  intro r hr
  cases r with
  | ack e k =>
    obtain ⟨m, hm, hk⟩ := h.ad e k hr
    simp only [List.any_eq_true]
    exact ⟨(m, some e), hm, by simp [hk]⟩
  | clear e k => rfl
  | send e m => rfl

theorem sendSuccessAcked_of_inv {s : State} (h : Inv s) : sendSuccessAcked s = true := by
  simp only [sendSuccessAcked, List.all_eq_true, List.any_eq_true, Bool.or_eq_true]
  intro c hc
  by_cases hr : c.result = some true
  · obtain ⟨ep, hep⟩ := h.sa c hc hr
    exact Or.inr ⟨(c.id, ep), hep, by simp⟩
  · exact Or.inl (by simp [hr])

theorem outOwned_of_inv {s : State} (h : Inv s) : outOwned s = true := by
  unfold outOwned
  split
  · rfl
  · rename_i o ho
    obtain ⟨c, hc, hm, h2⟩ := h.k2 o ho
    simp only [List.any_eq_true]
    refine ⟨c, getSend_mem hc, ?_⟩
    have := getSend_id hc
    rcases h2 with ⟨_, h3⟩ | ⟨h3, _⟩ <;> simp [this, hm, h3]

theorem noOrphanOut_of_inv {s : State} (h : Inv s) : noOrphanOut s = true := by
  unfold noOrphanOut
  split
  · rfl
  · rename_i o ho
    obtain ⟨c, hc, hm, h2⟩ := h.k2 o ho
    simp only [List.any_eq_true, Bool.or_eq_true]
    rcases h2 with ⟨h3, h4⟩ | ⟨_, h3⟩
    · refine Or.inr ⟨c, getSend_mem hc, ?_⟩
      have := getSend_id hc
      simp [this, h3, h4]
    · exact Or.inl h3

end SigClient
end Bifrost
