import Bifrost.Model.SigClient
/-! Invariants of the signaling client tracker LTS (C19, C21, C23). -/
namespace Bifrost
end Bifrost
