import Bifrost.Lemmas.SigRegInit
/-! `maybeReleaseSession` specification; `end_` preserves the invariant. -/
namespace Bifrost
namespace SigReg
open Bifrost.Sig

theorem sEnd_noop_inv {s s' : State} (hinv : Inv s) (call : Nat) (c c' : SCall) (t : Sess)
    (hc : getSCall s call = some c) (ht : getSess s c.sess = some t)
    (hnatt : oursCall t c.isA ≠ some call)
    (hc' : c'.id = call ∧ c'.src = c.src ∧ c'.dst = c.dst ∧ c'.sess = c.sess ∧ c'.dstTkr = c.dstTkr ∧
      c'.waitGen = c.waitGen ∧ c'.ended = true ∧ c'.failing = true)
    (vtk : ∀ x, getTkr s' x = getTkr s x)
    (vpm : ∀ p, lookupPeer s' p = lookupPeer s p)
    (vss : ∀ x, getSess s' x = getSess s x)
    (vsm : ∀ x, lookupSess s' x = lookupSess s x)
    (vsc : ∀ x, getSCall s' x = if x = call then some c' else getSCall s x)
    (vlc : ∀ x, getLCall s' x = getLCall s x)
    (vnx : s'.next = s.next)
    (hpmNd : (s'.peerMap.map (·.1)).Nodup) (hscNd : (s'.scalls.map (·.id)).Nodup) (hlcNd : (s'.lcalls.map (·.id)).Nodup) :
    Inv s' := by
  have hid := getSCall_id hc
  have hisA : c'.isA = c.isA := by simp [SCall.isA, hc']
  constructor
  · have := hinv.tkLt; grind
  · have := hinv.ssLt; grind
  · have := hinv.pmTk; grind
  · have := hinv.smSs; grind
  · exact hpmNd
  · exact hscNd
  · exact hlcNd
  · have := hinv.tkIn; grind
  · have := hinv.pmLive; grind
  · have := hinv.lsnr; grind
  · have := hinv.lcTk; grind
  · have := hinv.lcUniq; grind
  · have := hinv.lcRepl; grind
  · have := hinv.lcQ; grind
  · have := hinv.ssIn; grind
  · have := hinv.smLive; grind
  · have := hinv.attC; grind
  · have := hinv.scOk; grind
  · have := hinv.scRepl; grind
  · have := hinv.wants; grind [Attd]

theorem sEnd_views_inv {s s' : State} (hinv : Inv s) (call : Nat) (c c' : SCall) (t t2 : Sess) (dt dt' : Tkr)
    (hc : getSCall s call = some c) (ht : getSess s c.sess = some t) (hdt : getTkr s c.dstTkr = some dt)
    (hce : c.ended = false)
    (hatt : oursCall t c.isA = some call)
    (hc' : c'.id = call ∧ c'.src = c.src ∧ c'.dst = c.dst ∧ c'.sess = c.sess ∧ c'.dstTkr = c.dstTkr ∧
      c'.waitGen = c.waitGen ∧ c'.ended = true ∧ c'.failing = true)
    (ht2 : t2.sid = t.sid ∧ t2.a = t.a ∧ t2.b = t.b ∧
      (∀ b, oursCall t2 b = if b = c.isA then none else oursCall t b) ∧ t.gen < t2.gen)
    (hdt' : dt'.tid = dt.tid ∧ dt'.pid = dt.pid ∧ dt'.listening = dt.listening ∧ dt'.nonce = dt.nonce ∧
      (∀ w, w ∈ dt'.wants ↔ w ∈ dt.wants ∧ w ≠ c.src) ∧ dt.gen < dt'.gen)
    (vtk : ∀ x, getTkr s' x = if x = c.dstTkr then some dt' else getTkr s x)
    (vpm : ∀ p, lookupPeer s' p = if p = c.dst ∧ ¬(dt'.listening = true ∨ dt'.wants ≠ []) then none else lookupPeer s p)
    (vss : ∀ x, getSess s' x = if x = c.sess then some t2 else getSess s x)
    (vsm : ∀ k, lookupSess s' k = if k = (sessKey c.src c.dst).1 ∧ oursCall t (!c.isA) = none then none else lookupSess s k)
    (vsc : ∀ x, getSCall s' x = if x = call then some c' else getSCall s x)
    (vlc : ∀ x, getLCall s' x = getLCall s x)
    (vnx : s'.next = s.next)
    (hpmNd : (s'.peerMap.map (·.1)).Nodup) (hscNd : (s'.scalls.map (·.id)).Nodup) (hlcNd : (s'.lcalls.map (·.id)).Nodup) :
    Inv s' := by
  have hid := getSCall_id hc
  have hisA : c'.isA = c.isA := by simp [SCall.isA, hc']
  have hcok := hinv.scOk _ _ hc
  have hdtid := getTkr_tid hdt
  have htsid := getSess_sid ht
  have hids : ∀ i c, getSCall s i = some c → c.id = i := fun _ _ h => getSCall_id h
  have hcatt : Attd s c := ⟨t, ht, by rw [hatt, hid]⟩
  have hsrc : c.src ∈ dt.wants := (hinv.wants _ dt c.src hdt).2 ⟨call, c, hc, hce, hcatt, rfl, rfl⟩
  have hlk : lookupPeer s c.dst = some c.dstTkr := by
    have := hinv.tkIn _ _ hdt (Or.inr (List.ne_nil_of_mem hsrc))
    grind
  constructor
  · have := hinv.tkLt; grind
  · have := hinv.ssLt; grind
  · have := hinv.pmTk; grind
  · have := hinv.smSs; grind
  · exact hpmNd
  · exact hscNd
  · exact hlcNd
  · have := hinv.tkIn; grind
  · have := hinv.pmLive; have := hinv.pmTk; grind
  · have := hinv.lsnr; grind
  · have := hinv.lcTk; grind
  · have := hinv.lcUniq; grind
  · have := hinv.lcRepl; have := hinv.lcTk; grind
  · have := hinv.lcQ; have := hinv.lcTk; grind
  · have := hinv.ssIn; grind
  · have hW : oursCall t (!c.isA) ≠ none → ∃ isA cid, oursCall t2 isA = some cid := by
      intro h
      obtain ⟨cid, hcid⟩ := Option.ne_none_iff_exists'.1 h
      refine ⟨!c.isA, cid, ?_⟩
      rw [ht2.2.2.2.1]; simpa using hcid
    have := hinv.smLive; have := hinv.smSs; grind
  · have := hinv.attC; grind
  · have := hinv.scOk; grind
  · have := hinv.scRepl; grind
  · have B2 : ∀ i c0, getSCall s i = some c0 → i ≠ call → (Attd s' c0 ↔ Attd s c0) := by
      intro i c0 h0 hi
      have := hids _ _ h0
      unfold Attd
      grind
    have B3 : ∀ i c0, getSCall s i = some c0 → Attd s c0 → c0.dstTkr = c.dstTkr → c0.src = c.src → i = call := by
      intro i c0 h0 ha hd hs
      have h1 := hinv.scOk _ _ h0
      have h2 := hinv.ssIn
      have := hids _ _ h0
      have hdst : c0.dst = c.dst := by grind
      have hisA0 : c0.isA = c.isA := by simp [SCall.isA, hdst, hs]
      obtain ⟨t0, ht0, ho0⟩ := ha
      have e1 := h2 _ _ _ _ ht0 ho0
      have e2 := h2 _ _ _ _ ht hatt
      grind
    have hw := hinv.wants
    intro x tk w htk
    rw [vtk] at htk
    constructor
    · intro hmem
      by_cases hxd : x = c.dstTkr
      · simp only [hxd, if_true, Option.some.injEq] at htk
        subst htk
        obtain ⟨hwd, hwne⟩ := (hdt'.2.2.2.2.1 w).1 hmem
        obtain ⟨i, c0, h0, he, ha, hsw, hx⟩ := (hw _ _ w hdt).1 hwd
        have hi : i ≠ call := by grind
        exact ⟨i, c0, by rw [vsc, if_neg hi]; exact h0, he, (B2 _ _ h0 hi).2 ha, hsw, by rw [hxd]; exact hx⟩
      · simp only [hxd, if_false] at htk
        obtain ⟨i, c0, h0, he, ha, hsw, hx⟩ := (hw _ _ w htk).1 hmem
        have hi : i ≠ call := by grind
        exact ⟨i, c0, by rw [vsc, if_neg hi]; exact h0, he, (B2 _ _ h0 hi).2 ha, hsw, hx⟩
    · rintro ⟨i, c0, h0, he, ha, hsw, hx⟩
      rw [vsc] at h0
      by_cases hi : i = call
      · simp only [hi, if_true, Option.some.injEq] at h0
        subst h0
        rw [hc'.2.2.2.2.2.2.1] at he
        simp at he
      · simp only [hi, if_false] at h0
        have ha' := (B2 _ _ h0 hi).1 ha
        by_cases hxd : x = c.dstTkr
        · simp only [hxd, if_true, Option.some.injEq] at htk
          subst htk
          rw [hdt'.2.2.2.2.1]
          refine ⟨(hw _ _ w hdt).2 ⟨i, c0, h0, he, ha', hsw, by rw [← hxd]; exact hx⟩, ?_⟩
          intro hws
          exact hi (B3 _ _ h0 ha' (by rw [← hxd]; exact hx) (by rw [hsw, hws]))
        · simp only [hxd, if_false] at htk
          exact (hw _ _ w htk).2 ⟨i, c0, h0, he, ha', hsw, hx⟩

structure SessRel (s : State) (k : Nat × Nat) (s' : State) (sid : Nat) (t : Sess) : Prop where
  ss : ∀ x, getSess s' x = if x = sid ∧ ¬(t.attA.isSome = true ∨ t.attB.isSome = true) then some t.bcast else getSess s x
  sm : ∀ k', lookupSess s' k' = if k' = k ∧ ¬(t.attA.isSome = true ∨ t.attB.isSome = true) then none else lookupSess s k'
  tk : s'.tkrs = s.tkrs
  pm : s'.peerMap = s.peerMap
  sc : s'.scalls = s.scalls
  lc : s'.lcalls = s.lcalls
  acc : s'.accepted = s.accepted
  nx : s'.next = s.next

theorem maybeReleaseSession_spec {s : State} {k : Nat × Nat} {sid : Nat} {t : Sess}
    (hl : lookupSess s k = some sid) (ht : getSess s sid = some t) :
    SessRel s k (maybeReleaseSession s k) sid t := by
  have htid := getSess_sid ht
  unfold maybeReleaseSession
  simp only [hl, ht]
  split
  · rename_i h
    constructor <;> simp [h]
  · rename_i h
    constructor <;> try simp [h]
    · intro x
      have e : ∀ y, getSess { s with sessMap := List.filter (fun x => !decide (x.fst = k)) s.sessMap } y = getSess s y := fun _ => rfl
      simp only [e]
      simp [Sess.bcast, htid]
      grind
    · intro a b
      simp only [lookupSess]
      have := find?_key_filter_ne Prod.fst s.sessMap k (a, b)
      simp at this
      simp [this]
      split <;> simp

theorem sEnd_inv {s : State} (hinv : Inv s) (call : Nat)
    (hen : enabled s (.end_ call) = true) : Inv (sEnd s call) := by
  simp only [enabled] at hen
  unfold sEnd
  cases hc : getSCall s call with
  | none => exact hinv
  | some c =>
  simp only [hc, Bool.not_eq_eq_eq_not, Bool.not_true] at hen
  have hid := getSCall_id hc
  obtain ⟨hsd, ⟨t, ht, htkey, hwg⟩, ⟨dt, hdt, hdpid⟩⟩ := hinv.scOk _ _ hc
  have htsid := getSess_sid ht
  have hdtid := getTkr_tid hdt
  simp only [getSess_setSCall, ht]
  generalize hc' : ({ c with ended := true, failing := true, outbox := [] } : SCall) = c'
  have hc'f : c'.id = call ∧ c'.src = c.src ∧ c'.dst = c.dst ∧ c'.sess = c.sess ∧ c'.dstTkr = c.dstTkr ∧
      c'.waitGen = c.waitGen ∧ c'.ended = true ∧ c'.failing = true := by subst hc'; simp [hid]
  have hnoop : oursCall t c.isA ≠ some call → Inv (setSCall s c') := by
    intro hna
    refine sEnd_noop_inv hinv call c c' t hc ht hna hc'f ?_ ?_ ?_ ?_ ?_ ?_ rfl hinv.pmNd ?_ hinv.lcNd
    all_goals try (intro x; rfl)
    · intro x; simp [hc'f.1]; grind
    · rw [scalls_ids_setSCall]; exact hinv.scNd
  cases hsides : t.sides c.isA with
  | mk oursO otherO =>
  have hoc := oursCall_of_sides hsides
  simp only []
  cases oursO with
  | none => exact hnoop (by simp [hoc])
  | some ours =>
  simp only []
  by_cases hours : ours.call = call
  · rw [if_neg (by simpa using hours)]
    have hatt : oursCall t c.isA = some call := by simp [hoc, hours]
    have hcatt : Attd s c := ⟨t, ht, by rw [hatt, hid]⟩
    have hsrc : c.src ∈ dt.wants := (hinv.wants _ dt c.src hdt).2 ⟨call, c, hc, hen, hcatt, rfl, rfl⟩
    have hlk : lookupPeer s c.dst = some c.dstTkr := by
      have := hinv.tkIn _ _ hdt (Or.inr (List.ne_nil_of_mem hsrc))
      rw [hdpid] at this; exact this
    have hls : lookupSess s (sessKey c.src c.dst).1 = some c.sess := by
      have := hinv.ssIn _ _ _ _ ht hatt
      rw [htkey] at this; exact this
    have key : ∀ (t2 : Sess), (t2.sid = t.sid ∧ t2.a = t.a ∧ t2.b = t.b ∧
          (∀ b, oursCall t2 b = if b = c.isA then none else oursCall t b) ∧ t2.gen = t.gen + 1) →
        ((t2.attA.isSome = true ∨ t2.attB.isSome = true) ↔ oursCall t (!c.isA) ≠ none) →
        Inv (maybeReleasePeer
          (match getTkr (maybeReleaseSession (setSess (setSCall s c') t2) (sessKey c.src c.dst).1) c.dstTkr with
            | some dt => setTkr (maybeReleaseSession (setSess (setSCall s c') t2) (sessKey c.src c.dst).1)
                ({ dt with wants := dt.wants.filter (· ≠ c.src) } : Tkr).bcast
            | none => maybeReleaseSession (setSess (setSCall s c') t2) (sessKey c.src c.dst).1) c.dst) := by
      intro t2 ht2 hlive
      have hl1 : lookupSess (setSess (setSCall s c') t2) (sessKey c.src c.dst).1 = some c.sess := hls
      have hg1 : getSess (setSess (setSCall s c') t2) c.sess = some t2 := by
        simp [ht2.1, htsid, ht]
      have hr := maybeReleaseSession_spec hl1 hg1
      generalize maybeReleaseSession (setSess (setSCall s c') t2) (sessKey c.src c.dst).1 = s2 at hr ⊢
      have hg2 : getTkr s2 c.dstTkr = some dt := by rw [getTkr_congr hr.tk]; exact hdt
      simp only [hg2]
      generalize hdt1 : ({ dt with wants := dt.wants.filter (· ≠ c.src) } : Tkr).bcast = dt1
      have hdt1f : dt1.tid = dt.tid ∧ dt1.pid = dt.pid ∧ dt1.listening = dt.listening ∧ dt1.nonce = dt.nonce ∧
          (∀ w, w ∈ dt1.wants ↔ w ∈ dt.wants ∧ w ≠ c.src) ∧ dt1.gen = dt.gen + 1 := by
        subst hdt1; simp [Tkr.bcast]
      have hl3 : lookupPeer (setTkr s2 dt1) c.dst = some c.dstTkr := by
        rw [lookupPeer_setTkr, lookupPeer_congr hr.pm]; exact hlk
      have hg3 : getTkr (setTkr s2 dt1) c.dstTkr = some dt1 := by
        simp [hdt1f.1, hdtid, hg2]
      have hp := maybeReleasePeer_spec hl3 hg3
      refine sEnd_views_inv hinv call c c' t
        (if (t2.attA.isSome = true ∨ t2.attB.isSome = true) then t2 else t2.bcast)
        dt (if (dt1.listening = true ∨ dt1.wants ≠ []) then dt1 else dt1.bcast)
        hc ht hdt hen hatt hc'f ?_ ?_ ?vtk ?vpm ?vss ?vsm ?vsc ?vlc ?_ ?_ ?_ ?_
      case vtk =>
        intro x; rw [hp.tk, getTkr_setTkr, getTkr_congr hr.tk]
        simp [hdt1f.1, hdtid]; grind
      case vpm =>
        intro x; rw [hp.pm, lookupPeer_setTkr, lookupPeer_congr hr.pm]
        show _ = if _ then _ else lookupPeer s x
        split <;> split <;> simp_all [Tkr.bcast]
      case vss =>
        intro x; rw [getSess_congr hp.ss, getSess_setTkr, hr.ss, getSess_setSess]
        simp [ht2.1, htsid]
        by_cases hx : x = c.sess
        · subst hx; simp [ht]; cases t2.attA <;> cases t2.attB <;> simp
        · simp [hx]
      case vsm =>
        intro x; rw [lookupSess_congr hp.sm, lookupSess_setTkr, hr.sm]
        simp only [hlive]
        simp
      case vsc =>
        intro x; rw [getSCall_congr hp.sc, getSCall_setTkr, getSCall_congr hr.sc]
        simp [hc'f.1]; grind
      case vlc =>
        intro x; rw [getLCall_congr hp.lc, getLCall_setTkr, getLCall_congr hr.lc]; rfl
      · split
        · exact ⟨ht2.1, ht2.2.1, ht2.2.2.1, ht2.2.2.2.1, by omega⟩
        · exact ⟨ht2.1, ht2.2.1, ht2.2.2.1, fun b => ht2.2.2.2.1 b, by show t.gen < t2.gen + 1; omega⟩
      · split <;> simp [Tkr.bcast, hdt1f] <;> omega
      · rw [hp.nx]; show s2.next = _; rw [hr.nx]; rfl
      · apply hp.nd; show (s2.peerMap.map _).Nodup; rw [hr.pm]; exact hinv.pmNd
      · rw [hp.sc]; show (s2.scalls.map _).Nodup; rw [hr.sc]
        show ((setSCall s c').scalls.map _).Nodup
        rw [scalls_ids_setSCall]; exact hinv.scNd
      · rw [hp.lc]; show (s2.lcalls.map _).Nodup; rw [hr.lc]; exact hinv.lcNd
    refine key _ ?_ ?_
    · clear key hnoop
      generalize c.isA = isA at *
      cases isA <;> simp [Sess.setSides, Sess.bcast, oursCall, Sess.sides, Function.comp_def] at hsides ⊢ <;>
        simp [hsides]
    · clear key hnoop
      generalize c.isA = isA at *
      cases isA <;> simp [Sess.setSides, Sess.bcast, oursCall, Sess.sides] at hsides ⊢ <;>
        simp [hsides] <;> cases otherO <;> simp
  · rw [if_pos hours]
    exact hnoop (by simp [hoc, hours])

end SigReg
end Bifrost
