import Bifrost.Lemmas.SigPairSimB
import Bifrost.Lemmas.SigSessRec
import Bifrost.Lemmas.SigRegInit
/-!
Simulation `SigSys` ⟶ `SigPair`, part C: relay steps of calls other than the two calls of the
pair leave the relay view unchanged (`Fr`: the two `SCall` records and the session tracker of the
pair read the same afterwards). A foreign call on the same session tracker is never the
attachment of its side (the attachments are `ia`, `ib`), so it cannot write the tracker; the
registration of a call for another peer pair uses another tracker.
-/
namespace Bifrost
namespace SigPair
open Bifrost.SigSys Bifrost.Sig

/-- the relay records of the pair read the same in `srv'` -/
def Fr (srv srv' : Sig.State) (ia ib sid : Nat) : Prop :=
  getSCall srv' ia = getSCall srv ia ∧ getSCall srv' ib = getSCall srv ib ∧ getSess srv' sid = getSess srv sid

theorem Fr.refl (srv : Sig.State) (ia ib sid : Nat) : Fr srv srv ia ib sid := ⟨rfl, rfl, rfl⟩

theorem Fr.trans {s1 s2 s3 : Sig.State} {ia ib sid : Nat} (h1 : Fr s1 s2 ia ib sid) (h2 : Fr s2 s3 ia ib sid) :
    Fr s1 s3 ia ib sid :=
  ⟨h2.1.trans h1.1, h2.2.1.trans h1.2.1, h2.2.2.trans h1.2.2⟩

theorem Fr.sessEq {s s' : Sig.State} (h : SigSess.SessEq s s') (ia ib sid : Nat) : Fr s s' ia ib sid :=
  ⟨h.getSCall ia, h.getSCall ib, h.getSess sid⟩

theorem Fr.setSCall {s : Sig.State} {ia ib : Nat} (c : SCall) (h1 : c.id ≠ ia) (h2 : c.id ≠ ib) (sid : Nat) :
    Fr s (setSCall s c) ia ib sid :=
  ⟨getSCall_set_ne (Ne.symm h1), getSCall_set_ne (Ne.symm h2), rfl⟩

theorem Fr.setSess {s : Sig.State} {sid : Nat} (t : Sess) (h : t.sid ≠ sid) (ia ib : Nat) :
    Fr s (setSess s t) ia ib sid :=
  ⟨rfl, rfl, getSess_set_ne (Ne.symm h)⟩

theorem Fr.acc {s s' : Sig.State} {ia ib sid : Nat} (h : Fr s s' ia ib sid) (a : List (Nat × Nat × Nat × Msg × Bool × Nat)) :
    Fr s { s' with accepted := a } ia ib sid := h

theorem SrvView.fr {srv srv' : Sig.State} {A B ia ib : Nat} {p : PState} {sid dtA dtB : Nat}
    (h : SrvView srv A B ia ib p sid dtA dtB) (hf : Fr srv srv' ia ib sid) : SrvView srv' A B ia ib p sid dtA dtB :=
  h.frame hf.1 hf.2.1 hf.2.2

theorem mkSess_sides_any (sid A B ep gen : Nat) (x y : Att) (b : Bool) :
    (mkSess sid A B ep gen x y).sides b = (some x, some y) ∨ (mkSess sid A B ep gen x y).sides b = (some y, some x) := by
  unfold mkSess
  split <;> cases b <;> simp [Sess.sides]

theorem mkSess_att (sid A B ep gen : Nat) (x y : Att) :
    (mkSess sid A B ep gen x y).attA.isSome = true ∧ (mkSess sid A B ep gen x y).attB.isSome = true := by
  unfold mkSess
  split <;> simp

theorem mkSess_key (sid A B ep gen : Nat) (x y : Att) :
    ((mkSess sid A B ep gen x y).a, (mkSess sid A B ep gen x y).b) = (sessKey A B).1 := by
  unfold mkSess sessKey
  split <;> rfl

section
variable {srv : Sig.State} {A B ia ib : Nat} {p : PState} {sid dtA dtB : Nat}

/-- a foreign call holding the pair's tracker is not the attachment of its side -/
theorem SrvView.foreign (h : SrvView srv A B ia ib p sid dtA dtB) {call : Nat} {c : SCall} {t : Sess}
    (h1 : call ≠ ia) (h2 : call ≠ ib) (ht : getSess srv c.sess = some t)
    {o : Att} (ho : (t.sides c.isA).1 = some o) (hcall : o.call = call) : t.sid ≠ sid := by
  intro e
  have hsid := SigSess.getSess_sid ht
  rw [e] at hsid
  rw [← hsid, h.ss] at ht
  cases ht
  rcases mkSess_sides_any sid A B p.ep p.gen p.x.att p.y.att c.isA with hs | hs
  · rw [hs] at ho; simp at ho; subst ho; exact h1 (hcall.symm.trans h.xa)
  · rw [hs] at ho; simp at ho; subst ho; exact h2 (hcall.symm.trans h.ya)

theorem SrvView.foreign_active (h : SrvView srv A B ia ib p sid dtA dtB) {call : Nat} {c : SCall} {t : Sess}
    (h1 : call ≠ ia) (h2 : call ≠ ib) (hc : getSCall srv call = some c) (ht : getSess srv c.sess = some t)
    {ours other : Att} (hp : activePair t c = some (ours, other)) : t.sid ≠ sid := by
  obtain ⟨hs, hcall⟩ := SigSess.activePair_eq.1 hp
  exact h.foreign h1 h2 ht (o := ours) (by rw [hs]) (hcall.trans (SigSess.getSCall_id hc))

theorem fr_sSend (h : SrvView srv A B ia ib p sid dtA dtB) {call : Nat} (h1 : call ≠ ia) (h2 : call ≠ ib)
    (e : Nat) (m : Msg) (v : Bool) (g : Nat) : Fr srv (sSend srv call e m v g) ia ib sid := by
  unfold sSend
  split
  · exact Fr.refl _ _ _ _
  rename_i c hc
  have hid := SigSess.getSCall_id hc
  have hR : Fr srv (setSCall srv { c with readerDone := true }) ia ib sid :=
    Fr.setSCall _ (by rw [← hid] at h1; exact h1) (by rw [← hid] at h2; exact h2) _
  split
  · exact hR
  split
  · exact Fr.refl _ _ _ _
  rename_i t ht
  split
  · exact hR
  split
  · exact Fr.refl _ _ _ _
  split
  · exact Fr.refl _ _ _ _
  rename_i ours other hp
  have hne := h.foreign_active h1 h2 hc ht hp
  exact (Fr.setSess _ (by simpa using hne) ia ib).acc _

theorem fr_sAck (h : SrvView srv A B ia ib p sid dtA dtB) {call : Nat} (h1 : call ≠ ia) (h2 : call ≠ ib)
    (e k : Nat) : Fr srv (sAck srv call e k) ia ib sid := by
  unfold sAck
  split
  · exact Fr.refl _ _ _ _
  rename_i c hc
  have hid := SigSess.getSCall_id hc
  have hR : Fr srv (setSCall srv { c with readerDone := true }) ia ib sid :=
    Fr.setSCall _ (by rw [← hid] at h1; exact h1) (by rw [← hid] at h2; exact h2) _
  split
  · exact Fr.refl _ _ _ _
  rename_i t ht
  split
  · exact hR
  split
  · exact Fr.refl _ _ _ _
  split
  · exact Fr.refl _ _ _ _
  rename_i ours other hp
  have hne := h.foreign_active h1 h2 hc ht hp
  split
  · exact Fr.setSess _ (by simpa using hne) ia ib
  · exact Fr.refl _ _ _ _

theorem fr_sClear (h : SrvView srv A B ia ib p sid dtA dtB) {call : Nat} (h1 : call ≠ ia) (h2 : call ≠ ib)
    (e k : Nat) : Fr srv (sClear srv call e k) ia ib sid := by
  unfold sClear
  split
  · exact Fr.refl _ _ _ _
  rename_i c hc
  have hid := SigSess.getSCall_id hc
  have hR : Fr srv (setSCall srv { c with readerDone := true }) ia ib sid :=
    Fr.setSCall _ (by rw [← hid] at h1; exact h1) (by rw [← hid] at h2; exact h2) _
  split
  · exact Fr.refl _ _ _ _
  rename_i t ht
  split
  · exact hR
  split
  · exact Fr.refl _ _ _ _
  split
  · exact Fr.refl _ _ _ _
  rename_i ours other hp
  have hne := h.foreign_active h1 h2 hc ht hp
  split
  · exact Fr.setSess _ (by simpa using hne) ia ib
  · split
    · exact Fr.setSess _ (by simpa using hne) ia ib
    · exact Fr.refl _ _ _ _

theorem fr_sTx (_h : SrvView srv A B ia ib p sid dtA dtB) {call : Nat} (h1 : call ≠ ia) (h2 : call ≠ ib)
    (r : Resp) : Fr srv ((sTx srv call r).getD srv) ia ib sid := by
  unfold sTx
  split
  · exact Fr.refl _ _ _ _
  rename_i c hc
  have hid := SigSess.getSCall_id hc
  split
  · split
    · exact Fr.setSCall _ (by rw [← hid] at h1; exact h1) (by rw [← hid] at h2; exact h2) _
    · exact Fr.refl _ _ _ _
  · exact Fr.refl _ _ _ _

theorem fr_sLoop (h : SrvView srv A B ia ib p sid dtA dtB) {call : Nat} (h1 : call ≠ ia) (h2 : call ≠ ib) :
    Fr srv (sLoop srv call) ia ib sid := by
  unfold sLoop
  split
  · exact Fr.refl _ _ _ _
  rename_i c hc
  have hid := SigSess.getSCall_id hc
  have hi1 : c.id ≠ ia := by rw [hid]; exact h1
  have hi2 : c.id ≠ ib := by rw [hid]; exact h2
  split
  · exact Fr.refl _ _ _ _
  rename_i t ht
  rcases hsd : t.sides c.isA with ⟨oursO, otherO⟩
  simp only []
  cases oursO with
  | none =>
    simp only [if_true]
    exact Fr.setSCall _ (by exact hi1) (by exact hi2) _
  | some ours =>
    simp only []
    split
    · exact Fr.setSCall _ (by exact hi1) (by exact hi2) _
    · rename_i hcall
      have hcall : ours.call = call := by simpa using hcall
      have hne := h.foreign h1 h2 ht (o := ours) (by rw [hsd]) hcall
      cases otherO with
      | none =>
        simp only [Option.isSome_none, Bool.false_eq_true, if_false, Option.isNone_none, if_true]
        exact Fr.setSCall _ (by exact hi1) (by exact hi2) _
      | some other =>
        simp only [Option.isSome_some, if_true, Option.isNone_some, Bool.false_eq_true, if_false]
        refine (Fr.setSess _ ?_ ia ib).trans (Fr.setSCall _ (by exact hi1) (by exact hi2) _)
        split <;> simpa using hne

/-- `maybeReleaseSession` never touches a tracker that has an attachment -/
theorem fr_maybeReleaseSession {s : Sig.State} {t0 : Sess} (k : Nat × Nat) (hs : getSess s sid = some t0)
    (hatt : t0.attA.isSome = true ∨ t0.attB.isSome = true) (ia ib : Nat) :
    Fr s (maybeReleaseSession s k) ia ib sid := by
  unfold maybeReleaseSession
  split
  · exact Fr.refl _ _ _ _
  split
  · exact Fr.refl _ _ _ _
  rename_i sid' _ t ht
  split
  · exact Fr.refl _ _ _ _
  rename_i hno
  have hne : t.sid ≠ sid := by
    intro e
    have := SigSess.getSess_sid ht
    rw [e] at this
    rw [← this, hs] at ht
    cases ht
    exact hno hatt
  exact ⟨rfl, rfl, getSess_set_ne (t := t.bcast) (Ne.symm hne)⟩

theorem fr_sEnd (h : SrvView srv A B ia ib p sid dtA dtB) {call : Nat} (h1 : call ≠ ia) (h2 : call ≠ ib) :
    Fr srv (sEnd srv call) ia ib sid := by
  unfold sEnd
  split
  · exact Fr.refl _ _ _ _
  rename_i c hc
  have hid := SigSess.getSCall_id hc
  have hi1 : c.id ≠ ia := by rw [hid]; exact h1
  have hi2 : c.id ≠ ib := by rw [hid]; exact h2
  have h0 : Fr srv (setSCall srv { c with ended := true, failing := true, outbox := [] }) ia ib sid :=
    Fr.setSCall _ (by exact hi1) (by exact hi2) _
  simp only [SigSess.getSess_setSCall]
  split
  · exact h0
  rename_i t ht
  rcases hsd : t.sides c.isA with ⟨oursO, otherO⟩
  simp only []
  cases oursO with
  | none => exact h0
  | some ours =>
    simp only []
    split
    · exact h0
    · rename_i hcall
      have hcall : ours.call = call := by simpa using hcall
      have hne := h.foreign h1 h2 ht (o := ours) (by rw [hsd]) hcall
      have h1' : Fr srv (setSess (setSCall srv { c with ended := true, failing := true, outbox := [] })
          ({ t.setSides c.isA none (otherO.map fun o => { o with recv := none, recvSent := none }) with
              seqno := (t.setSides c.isA none (otherO.map fun o => { o with recv := none, recvSent := none })).seqno + 1 } : Sess).bcast)
          ia ib sid :=
        h0.trans (Fr.setSess _ (by simpa using hne) ia ib)
      have hs1 := h1'.2.2.trans h.ss
      have h2' := h1'.trans (fr_maybeReleaseSession (sessKey c.src c.dst).1 hs1 (Or.inl (mkSess_att _ _ _ _ _ _ _).1) ia ib)
      refine h2'.trans (Fr.trans ?_ (Fr.sessEq (SigSess.SessEq_maybeReleasePeer _ _) _ _ _))
      split
      · exact Fr.sessEq (SigSess.SessEq_setTkr _ _) _ _ _
      · exact Fr.refl _ _ _ _

theorem sessKey_eq_pair {a b A B : Nat} (h : (sessKey a b).1 = (sessKey A B).1) :
    (a = A ∧ b = B) ∨ (a = B ∧ b = A) := by
  unfold sessKey at h
  split at h <;> split at h <;> simp at h <;> omega

theorem find?_append_some {α : Type} {l : List α} {q : α → Bool} {x : α} (l2 : List α) (h : l.find? q = some x) :
    (l ++ l2).find? q = some x := by
  rw [List.find?_append, h]; rfl

theorem fr_sInit (h : SrvView srv A B ia ib p sid dtA dtB) (hreg : SigReg.Inv srv) (call src dst : Nat)
    (hk : (sessKey src dst).1 ≠ (sessKey A B).1) : Fr srv (sInit srv call src dst) ia ib sid := by
  unfold sInit
  rcases hgp : getPeer srv dst with ⟨s1, dt, ex⟩
  simp only []
  have hs1 : SigSess.SessEq srv s1 := by have := SigSess.SessEq_getPeer srv dst; rw [hgp] at this; exact this
  generalize hs2 : (if src ∈ dt.wants then s1 else setTkr s1 ({ dt with wants := insertSorted src dt.wants }).bcast) = s2
  have hs2' : SigSess.SessEq srv s2 := by
    subst hs2; split
    · exact hs1
    · exact hs1.trans (SigSess.SessEq_setTkr _ _)
  have hlk : ∀ k, lookupSess s2 k = lookupSess srv k := SigReg.lookupSess_congr hs2'.sessMap
  rcases hkk : sessKey src dst with ⟨k, isA⟩
  rw [hkk] at hk
  simp only [] at hk ⊢
  have hg := SigReg.getSession_spec (s := s2)
    (by intro k x; rw [hlk]; intro hl; obtain ⟨t, ht, hk⟩ := hreg.smSs k x hl; exact ⟨t, by rw [hs2'.getSess]; exact ht, hk⟩)
    (by intro x t ht; rw [hs2'.getSess] at ht; have := hreg.ssLt _ _ ht; have := hs2'.next; omega) k
  rcases hgs : getSession s2 k with ⟨s3, t⟩
  rw [hgs] at hg
  simp only [] at hg ⊢
  rcases hsd : t.sides isA with ⟨o1, other⟩
  simp only []
  have hne : t.sid ≠ sid := by
    intro e
    rcases hg.old with ⟨_, ho⟩ | ⟨_, ho, _⟩
    · rw [e, hs2'.getSess, h.ss] at ho
      cases ho
      apply hk
      rw [← hg.key, mkSess_key]
    · rw [e, hs2'.getSess, h.ss] at ho
      cases ho
  have hsc : s3.scalls = srv.scalls := hg.sc.trans hs2'.scalls
  refine ⟨?_, ?_, ?_⟩
  · show List.find? _ (s3.scalls ++ _) = _
    rw [hsc]
    exact (find?_append_some _ h.ca).trans h.ca.symm
  · show List.find? _ (s3.scalls ++ _) = _
    rw [hsc]
    exact (find?_append_some _ h.cb).trans h.cb.symm
  · show getSess (setSess s3 _) sid = _
    rw [getSess_set_ne (by simpa [Sess.bcast] using Ne.symm hne), hg.ss, if_neg (Ne.symm hne), hs2'.getSess]

end
end SigPair
end Bifrost
