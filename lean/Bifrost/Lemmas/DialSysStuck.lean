import Bifrost.Lemmas.DialSysLost
/-! A link dialer whose routine has returned with an empty container stays like that (whatever
happens, until its last reference is released); lifting `QuicTable`'s progress to the dialing
system; the `DialTptAddr` address parser. Helper lemmas for C05Sys. -/
namespace Bifrost
namespace DialSys
open Links (Link)

/-! ### finished with an empty container: nothing ever restarts the routine -/

/-- the ops that release a reference of key `k` -/
def Releases (cfg : Cfg) (lp : Nat) (k : Key) : Op → Prop
  | .release k' => k' = k
  | .tptDone d => tptKey cfg lp d = some k
  | _ => False

/-- the dialer of key `k` exists, its routine has returned, its container is empty -/
def DoneEmpty (s : State) (k : Key) : Prop :=
  ∃ x ∈ s.lds, x.key = k ∧ x.lnk = none ∧ x.rt = .done

theorem mem_setLD_of_ne {s : State} {ld' x : LDialer} (hx : x ∈ s.lds) (hk : x.key ≠ ld'.key) :
    x ∈ (setLD s ld').lds := by
  simp only [setLD, List.mem_map]
  exact ⟨x, hx, by rw [if_neg hk]⟩

theorem mem_setLD_self {s : State} {ld' y : LDialer} (hy : y ∈ s.lds) (hk : y.key = ld'.key) :
    ld' ∈ (setLD s ld').lds := by
  simp only [setLD, List.mem_map]
  exact ⟨y, hy, by rw [if_pos hk]⟩

theorem doneEmpty_setLD {s s0 : State} (hnd : (s.lds.map (·.key)).Nodup) (h0 : s0.lds = s.lds)
    {k k' : Key} {ld ld' : LDialer} (hd : DoneEmpty s k) (hg : getLD s k' = some ld)
    (hkey : ld'.key = ld.key)
    (hsame : ld.lnk = none → ld.rt = .done → ld'.lnk = none ∧ ld'.rt = .done) :
    DoneEmpty (setLD s0 ld') k := by
  obtain ⟨x, hx, hxk, hxl, hxr⟩ := hd
  obtain ⟨hmem, _⟩ := getLD_some hg
  by_cases hkk : ld.key = x.key
  · have : ld = x := Links.inj_of_nodup_map (fun (y : LDialer) => y.key) hnd ld hmem x hx hkk
    subst this
    obtain ⟨h1, h2⟩ := hsame hxl hxr
    exact ⟨ld', mem_setLD_self (s := s0) (h0 ▸ hmem) hkey.symm, hkey.trans hxk, h1, h2⟩
  · refine ⟨x, mem_setLD_of_ne (s := s0) (h0 ▸ hx) ?_, hxk, hxl, hxr⟩
    rw [hkey]; exact fun e => hkk e.symm

theorem doneEmpty_of_lds {s s' : State} {k : Key} (h : s'.lds = s.lds) (hd : DoneEmpty s k) : DoneEmpty s' k := by
  obtain ⟨x, hx, r⟩ := hd
  exact ⟨x, h ▸ hx, r⟩

theorem doneEmpty_addRefStep {s : State} (hnd : (s.lds.map (·.key)).Nodup) {k : Key} (hd : DoneEmpty s k)
    (k' : Key) : DoneEmpty (addRefStep s k') k := by
  unfold addRefStep
  split
  · exact hd
  · split
    · obtain ⟨x, hx, r⟩ := hd
      exact ⟨x, List.mem_cons_of_mem _ hx, r⟩
    · rename_i ld hg
      exact doneEmpty_setLD hnd rfl hd hg rfl (fun h1 h2 => ⟨h1, h2⟩)

theorem doneEmpty_releaseStep {s : State} (hnd : (s.lds.map (·.key)).Nodup) {k : Key} (hd : DoneEmpty s k)
    (k' : Key) (hne : k' ≠ k) : DoneEmpty (releaseStep s k') k := by
  unfold releaseStep
  split
  · exact hd
  · rename_i ld hg
    split
    · obtain ⟨x, hx, hxk, r⟩ := hd
      refine ⟨x, List.mem_filter.2 ⟨hx, ?_⟩, hxk, r⟩
      simpa [hxk] using fun e : k = k' => hne e.symm
    · exact doneEmpty_setLD hnd rfl hd hg rfl (fun h1 h2 => ⟨h1, h2⟩)

theorem doneEmpty_applyFlushes (cfg : Cfg) (fl : List (Link × Bool × Option Link)) {s : State} {k : Key}
    (hd : DoneEmpty s k) : DoneEmpty { s with lds := applyFlushes cfg fl s.lds } k := by
  obtain ⟨x, hx, hxk, hxl, hxr⟩ := hd
  refine ⟨x, applyFlushes_nohit cfg fl _ x hx ?_, hxk, hxl, hxr⟩
  intro f _ hh
  rw [hh.2] at hxl; cases hxl

/-- Whatever the rest of the system does — requests, answers, losses, restarts of OTHER dialers —
a dialer that has returned with an empty container is never started again: only releasing its
last reference removes it. Holds for every version of the code. -/
theorem doneEmpty_step {cfg : Cfg} {lp : Nat} {s : State} (hwf : WF cfg lp s) {k : Key}
    (hd : DoneEmpty s k) (op : Op) (hrel : ¬ Releases cfg lp k op) :
    DoneEmpty (step cfg lp s op) k := by
  have hnd := hwf.keys_nd
  cases op with
  | addRef k' => exact doneEmpty_addRefStep hnd hd k'
  | release k' => exact doneEmpty_releaseStep hnd hd k' (fun e => hrel e)
  | tptAdd d => simp only [step]; split; exact doneEmpty_addRefStep hnd hd _; exact hd
  | tptDone d =>
    simp only [step]
    split
    · rename_i k' hk'
      exact doneEmpty_releaseStep hnd hd k' (fun e => hrel (by simpa [Releases, hk'] using e))
    · exact hd
  | ret k' => simp only [step]; (repeat' split) <;> exact doneEmpty_of_lds rfl hd
  | tptPush d => simp only [step]; (repeat' split) <;> exact doneEmpty_of_lds rfl hd
  | rtCheck k' =>
    simp only [step]
    (repeat' split) <;>
      first
      | exact hd
      | exact doneEmpty_setLD hnd rfl hd (by assumption) (by rfl) (fun _ h2 => by simp_all)
  | rtAttach k' =>
    simp only [step]
    (repeat' split) <;>
      first
      | exact hd
      | exact doneEmpty_setLD hnd rfl hd (by assumption) (by rfl) (fun _ h2 => by simp_all)
  | rtAwait k' =>
    simp only [step]
    (repeat' split) <;>
      first
      | exact hd
      | exact doneEmpty_setLD hnd rfl hd (by assumption) (by rfl) (fun _ h2 => by simp_all)
  | rtTimer k' =>
    simp only [step]
    (repeat' split) <;>
      first
      | exact hd
      | exact doneEmpty_setLD hnd rfl hd (by assumption) (by rfl) (fun _ h2 => by simp_all)
  | rtStore k' =>
    simp only [step]
    cases hg : getLD s k' with
    | none => exact hd
    | some ld =>
      dsimp only
      by_cases hgot : ∃ ol, ld.rt = .got ol
      · obtain ⟨ol, hrt⟩ := hgot
        simp only [hrt]
        exact doneEmpty_setLD hnd rfl hd hg rfl (fun _ h2 => by rw [hrt] at h2; cases h2)
      · split
        · rename_i ol hrt; exact absurd ⟨ol, hrt⟩ hgot
        · exact hd
  | answer d who => simp only [step]; (repeat' split) <;> exact doneEmpty_of_lds rfl hd
  | dexit d => simp only [step]; (repeat' split) <;> exact doneEmpty_of_lds rfl hd
  | strayAttach a x => simp only [step]; (repeat' split) <;> exact doneEmpty_of_lds rfl hd
  | inbound a p => exact doneEmpty_of_lds rfl hd
  | close i => exact doneEmpty_of_lds rfl hd
  | runClose i => exact doneEmpty_of_lds rfl hd
  | runLost a l => exact doneEmpty_of_lds rfl hd
  | runEst l =>
    simp only [step]
    split
    · exact doneEmpty_applyFlushes cfg _ (s := { s with q := _ }) hd
    · exact hd
  | runCtrlLost l =>
    simp only [step]
    split
    · exact doneEmpty_applyFlushes cfg _ (s := { s with q := _ }) hd
    · exact hd

theorem doneEmpty_runs {cfg : Cfg} {lp : Nat} (tail : List Op) :
    ∀ {s : State}, WF cfg lp s → QuicTable.QInv s.q → ∀ {k : Key}, DoneEmpty s k →
      (∀ op ∈ tail, ¬ Releases cfg lp k op) → DoneEmpty (runs cfg lp s tail) k := by
  induction tail with
  | nil => intro s _ _ k hd _; exact hd
  | cons op t ih =>
    intro s hwf hq k hd hrel
    rw [runs_cons]
    have h1 := wf_runs hwf hq [op]
    exact ih h1.1 h1.2 (doneEmpty_step hwf hd op (hrel op List.mem_cons_self))
      (fun o ho => hrel o (List.mem_cons_of_mem _ ho))

/-! ### the pending goroutines of the transport and the controller can always be run to the end -/

/-- the dialing-system op that runs an asynchronous `QuicTable` body -/
def liftAsync : QuicTable.Op → Op
  | .runEst l => .runEst l
  | .runClose i => .runClose i
  | .runLost a l => .runLost a l
  | .runCtrlLost l => .runCtrlLost l
  | _ => .dexit 0   -- not used: `IsAsync` excludes the other ops

/-- the ops that only run a pending goroutine of the transport / controller -/
def IsAsyncOp : Op → Prop
  | .runEst _ => True
  | .runClose _ => True
  | .runLost _ _ => True
  | .runCtrlLost _ => True
  | _ => False

theorem liftAsync_q (cfg : Cfg) (lp : Nat) (s : State) (o : QuicTable.Op) (ho : QuicTable.IsAsync o) :
    (step cfg lp s (liftAsync o)).q = QuicTable.step cfg.U s.q o ∧ IsAsyncOp (liftAsync o) := by
  cases o with
  | runEst l =>
    refine ⟨?_, trivial⟩
    simp only [liftAsync, step]
    split
    · rfl
    · rename_i hn; simp [QuicTable.step, QuicTable.stepWith, hn]
  | runClose i => exact ⟨rfl, trivial⟩
  | runLost a l => exact ⟨rfl, trivial⟩
  | runCtrlLost l =>
    refine ⟨?_, trivial⟩
    simp only [liftAsync, step]
    split
    · rfl
    · rename_i hn; simp [QuicTable.step, QuicTable.stepWith, hn]
  | start lp => exact absurd ho (by simp [QuicTable.IsAsync])
  | shutdown => exact absurd ho (by simp [QuicTable.IsAsync])
  | session a p => exact absurd ho (by simp [QuicTable.IsAsync])
  | close i => exact absurd ho (by simp [QuicTable.IsAsync])

theorem lift_runs (cfg : Cfg) (lp : Nat) (qtail : List QuicTable.Op) :
    ∀ (s : State), (∀ o ∈ qtail, QuicTable.IsAsync o) →
      (runs cfg lp s (qtail.map liftAsync)).q = QuicTable.runs cfg.U s.q qtail ∧
      ∀ op ∈ qtail.map liftAsync, IsAsyncOp op := by
  induction qtail with
  | nil => intro s _; exact ⟨rfl, fun _ h => by cases h⟩
  | cons o t ih =>
    intro s ha
    obtain ⟨h1, h2⟩ := liftAsync_q cfg lp s o (ha o List.mem_cons_self)
    obtain ⟨h3, h4⟩ := ih (step cfg lp s (liftAsync o)) (fun x hx => ha x (List.mem_cons_of_mem _ hx))
    refine ⟨?_, ?_⟩
    · simp only [List.map_cons, runs_cons, QuicTable.runs_cons]
      rw [h3, h1]
    · intro op hop
      simp only [List.map_cons, List.mem_cons] at hop
      rcases hop with rfl | hop
      · exact h2
      · exact h4 op hop

theorem pclClosed_run (cfg : Cfg) (lp : Nat) (ops : List Op) : QuicTable.PclClosed (run cfg lp ops).q := by
  obtain ⟨qops, hq⟩ := q_reach cfg lp ops
  rw [hq]; exact QuicTable.pclClosed_run _ _

/-- from every reachable state, running pending goroutines only reaches a quiescent state -/
theorem reach_quiescent (cfg : Cfg) (lp : Nat) (ops : List Op) :
    ∃ tail, (∀ op ∈ tail, IsAsyncOp op) ∧ quiescent (run cfg lp (ops ++ tail)) = true := by
  obtain ⟨qtail, h1, h2⟩ :=
    QuicTable.reach_quiescent cfg.U (run cfg lp ops).q (qinv_run cfg lp ops) (pclClosed_run cfg lp ops)
  obtain ⟨h3, h4⟩ := lift_runs cfg lp qtail (run cfg lp ops) h1
  refine ⟨qtail.map liftAsync, h4, ?_⟩
  rw [run_append]
  unfold quiescent
  rw [h3]; exact h2

/-! ### the deferred removals of finished dialers can always be run to the end -/

theorem dexit_pendExit {cfg : Cfg} {lp : Nat} {s : State} (hwf : WF cfg lp s) {d : Nat} {rest : List Nat}
    (hp : s.pendExit = d :: rest) :
    (step cfg lp s (.dexit d)).pendExit = rest ∧ (step cfg lp s (.dexit d)).q = s.q := by
  have hin : d ∈ s.pendExit := by rw [hp]; exact List.mem_cons_self
  obtain ⟨qd, hqd⟩ := hwf.getQD_of_lt (hwf.pend_lt d hin)
  simp only [step, hin, if_true, hqd]
  constructor
  · show s.pendExit.erase d = rest
    rw [hp, List.erase_cons_head]
  · trivial

theorem drain_exits (cfg : Cfg) (lp : Nat) : ∀ (n : Nat) (s : State), s.pendExit.length = n →
    WF cfg lp s → QuicTable.QInv s.q →
    ∃ tail, (∀ op ∈ tail, ∃ d, op = .dexit d) ∧ (runs cfg lp s tail).pendExit = [] := by
  intro n
  induction n with
  | zero =>
    intro s hn _ _
    exact ⟨[], fun _ h => (by cases h), List.eq_nil_of_length_eq_zero hn⟩
  | succ n ih =>
    intro s hn hwf hq
    cases hp : s.pendExit with
    | nil => rw [hp] at hn; cases hn
    | cons d rest =>
      obtain ⟨h1, h2⟩ := dexit_pendExit hwf hp
      have hlen : (step cfg lp s (.dexit d)).pendExit.length = n := by
        rw [h1]; rw [hp] at hn; simpa using hn
      obtain ⟨tail, ht1, ht2⟩ := ih _ hlen (wf_step hwf hq _) (by rw [h2]; exact hq)
      refine ⟨.dexit d :: tail, ?_, ?_⟩
      · intro op hop
        rcases List.mem_cons.1 hop with rfl | hop
        · exact ⟨d, rfl⟩
        · exact ht1 op hop
      · rw [runs_cons]; exact ht2

/-! ### `ParseTptAddr` -/

theorem cutBar_spec : ∀ (s t a : List Char), cutBar s = some (t, a) ↔ (s = t ++ '|' :: a ∧ '|' ∉ t) := by
  intro s
  induction s with
  | nil =>
    intro t a
    simp [cutBar]
  | cons c rest ih =>
    intro t a
    simp only [cutBar]
    by_cases hc : c = '|'
    · subst hc
      simp only [if_true, Option.some.injEq, Prod.mk.injEq]
      constructor
      · rintro ⟨rfl, rfl⟩; simp
      · rintro ⟨h, hn⟩
        cases t with
        | nil => simp at h; exact ⟨rfl, h⟩
        | cons x t' =>
          simp at h
          exact absurd (h.1 ▸ List.mem_cons_self) hn
    · simp only [hc, if_false]
      cases hr : cutBar rest with
      | none =>
        simp only
        constructor
        · intro h; cases h
        · rintro ⟨h, hn⟩
          cases t with
          | nil => simp at h; exact absurd h.1 hc
          | cons x t' =>
            simp at h
            have := (ih t' a).2 ⟨h.2, fun hm => hn (List.mem_cons_of_mem _ hm)⟩
            rw [hr] at this; cases this
      | some p =>
        obtain ⟨t0, a0⟩ := p
        simp only [Option.some.injEq, Prod.mk.injEq]
        have h0 := (ih t0 a0).1 hr
        constructor
        · rintro ⟨rfl, rfl⟩
          refine ⟨by simp [h0.1], ?_⟩
          intro hm
          rcases List.mem_cons.1 hm with h | h
          · exact hc h.symm
          · exact h0.2 h
        · rintro ⟨h, hn⟩
          cases t with
          | nil => simp at h; exact absurd h.1 hc
          | cons x t' =>
            simp at h
            have := (ih t' a).2 ⟨h.2, fun hm => hn (List.mem_cons_of_mem _ hm)⟩
            rw [hr] at this
            simp only [Option.some.injEq, Prod.mk.injEq] at this
            exact ⟨by rw [h.1, this.1], this.2⟩

theorem parseTptAddr_spec (s t a : List Char) :
    parseTptAddr s = some (t, a) ↔ (s = t ++ '|' :: a ∧ '|' ∉ t ∧ t ≠ [] ∧ a ≠ []) := by
  unfold parseTptAddr
  cases hc : cutBar s with
  | none =>
    simp only
    constructor
    · intro h; cases h
    · rintro ⟨h1, h2, _⟩
      have := (cutBar_spec s t a).2 ⟨h1, h2⟩
      rw [hc] at this; cases this
  | some p =>
    obtain ⟨t0, a0⟩ := p
    have h0 := (cutBar_spec s t0 a0).1 hc
    simp only
    constructor
    · intro h
      split at h
      · cases h
      · rename_i hne
        simp only [Option.some.injEq, Prod.mk.injEq] at h
        obtain ⟨rfl, rfl⟩ := h
        simp only [not_or] at hne
        exact ⟨h0.1, h0.2, hne.1, hne.2⟩
    · rintro ⟨h1, h2, h3, h4⟩
      have := (cutBar_spec s t a).2 ⟨h1, h2⟩
      rw [hc] at this
      simp only [Option.some.injEq, Prod.mk.injEq] at this
      obtain ⟨rfl, rfl⟩ := this
      rw [if_neg (by simp [h3, h4])]

end DialSys
end Bifrost
