import Bifrost.Model.Encrypt
import Bifrost.Lemmas.Encrypt
import Bifrost.Lemmas.EncryptLaws
/-! The ciphertext layout `nonce[:4] ‖ wrapped key block (16) ‖ clear key half (16) ‖ AEAD body`
and `DecryptWithEd25519` on a ciphertext given in that form. -/
namespace Bifrost.Encrypt
open Bifrost Bifrost.Lo25519

/-- `DecryptWithEd25519` after the guards and slices, on the four regions of the ciphertext. -/
def decryptCore (tPriv ctx n4 e16 r16 body : Bytes) : Prog (Outcome Bytes) :=
  askE (.kdf (domPrefix ++ ctx) (tPriv.drop 32 ++ n4) 32) fun aesSeed =>
  need (sliceTo aesSeed 32) fun aesKey =>
  askE (.blkDec aesKey e16) fun d16 =>
  pubToX (d16 ++ r16) fun m => orErr m fun mX =>
  failIf (mX.length ≠ 32) <|
  askE (.clamp (tPriv.take 32)) fun tX64 =>
  need (sliceTo tX64 32) fun tX =>
  askE (.x25519 tX mX) fun ss =>
  askE (.kdf (domNonce ++ ctx) (d16 ++ r16) 32) fun h =>
  bindO (xorNonce h) fun nonce =>
  need (sliceTo nonce 4) fun n4' =>
  failIf (n4' ≠ n4) <|
  failIf (ss.length ≠ 32) <|
  askE (.open ss nonce body (d16 ++ r16)) fun msgDec =>
  askE (.s2dec msgDec) fun msgSrc =>
  askE (.kdf (domSeed ++ ctx) (msgSrc ++ tPriv.drop 32) 32) fun msgSeed =>
  panicIf (msgSeed.length ≠ 32) <|
  askE (.edPub msgSeed) fun mEd =>
  pubToX mEd fun e => orErr e fun exp =>
  failIf (exp ≠ mX) <|
  .done (.ok msgSrc)

theorem layout_take4 (n4 rest : Bytes) (h : n4.length = 4) : sliceTo (n4 ++ rest) 4 = some n4 := by
  rw [sliceTo_some _ _ (by simp [h]), ← h, List.take_left]

theorem layout_drop4 (n4 rest : Bytes) (h : n4.length = 4) : sliceFrom (n4 ++ rest) 4 = some rest := by
  rw [sliceFrom_some _ _ (by simp [h]), ← h, List.drop_left]

theorem layout_copy32 (e16 r16 body : Bytes) (he : e16.length = 16) (hr : r16.length = 16) :
    copy32 (e16 ++ (r16 ++ body)) = e16 ++ r16 := by
  unfold copy32
  have hl : (e16 ++ r16).length = 32 := by simp [he, hr]
  rw [← List.append_assoc, ← hl, List.take_left]
  simp

theorem layout_drop36 (n4 e16 r16 body : Bytes) (hn : n4.length = 4) (he : e16.length = 16) (hr : r16.length = 16) :
    sliceFrom (n4 ++ (e16 ++ (r16 ++ body))) (32 + 4) = some body := by
  have hl : (n4 ++ e16 ++ r16).length = 32 + 4 := by simp [hn, he, hr]
  rw [sliceFrom_some _ _ (by simp [hn, he, hr]; omega)]
  have : n4 ++ (e16 ++ (r16 ++ body)) = (n4 ++ e16 ++ r16) ++ body := by simp
  rw [this, ← hl, List.drop_left]

theorem decryptProg_layout (tPriv ctx n4 e16 r16 body : Bytes) (hk : tPriv.length = 64)
    (hn : n4.length = 4) (he : e16.length = 16) (hr : r16.length = 16) :
    decryptProg tPriv ctx (n4 ++ (e16 ++ (r16 ++ body))) = decryptCore tPriv ctx n4 e16 r16 body := by
  unfold decryptProg decryptCore
  have h1 : ¬ (tPriv.length ≠ 64) := by simp [hk]
  have h2 : ¬ ((n4 ++ (e16 ++ (r16 ++ body))).length < 4 + 32) := by simp [hn, he, hr]; omega
  rw [failIf, if_neg h1, failIf, if_neg h2, layout_take4 _ _ hn]
  simp only [need, layout_drop4 _ _ hn, layout_copy32 _ _ _ he hr, layout_drop36 _ _ _ _ hn he hr]
  have t16 : (e16 ++ r16).take 16 = e16 := by rw [← he, List.take_left]
  have d16 : (e16 ++ r16).drop 16 = r16 := by rw [← he, List.drop_left]
  simp only [t16, d16]

/-- every ciphertext of at least 36 bytes has the layout -/
theorem layout_exists (ct : Bytes) (h : 36 ≤ ct.length) :
    ∃ n4 e16 r16 body, n4.length = 4 ∧ e16.length = 16 ∧ r16.length = 16 ∧
      ct = n4 ++ (e16 ++ (r16 ++ body)) := by
  refine ⟨ct.take 4, (ct.drop 4).take 16, (ct.drop 20).take 16, ct.drop 36, ?_, ?_, ?_, ?_⟩
  · simp; omega
  · simp; omega
  · simp; omega
  · have a : ct = ct.take 4 ++ ct.drop 4 := (List.take_append_drop 4 ct).symm
    have b : ct.drop 4 = (ct.drop 4).take 16 ++ (ct.drop 4).drop 16 := (List.take_append_drop 16 _).symm
    have c : ct.drop 20 = (ct.drop 20).take 16 ++ (ct.drop 20).drop 16 := (List.take_append_drop 16 _).symm
    rw [List.drop_drop] at b c
    conv => lhs; rw [a, b, c]

end Bifrost.Encrypt
