import Bifrost.Model.Pubsub
import Bifrost.Model.Crypto
import Bifrost.Lemmas.Sign
/-! Helper lemmas for C27: characterisation of `Pubsub.extractAndVerify` / `handlePublishOne`. -/
namespace Bifrost
namespace Pubsub
open Codec Sign

theorem pubContext_injective (a b : Bytes) (h : pubContext a = pubContext b) : a = b :=
  List.append_cancel_left h

/-- Exact characterisation of acceptance by `pubmessage.ExtractAndVerify`. -/
theorem extractAndVerify_ok_iff (verify : VerifyFn) (sum : SumFn) (m : SignedMsg) (i : Inner) (pk id : Bytes) :
    extractAndVerify verify sum m = .ok (i, pk, id) ↔
      Inner.unmarshal m.data = some i ∧ i.validate = true ∧
      Sign.extractAndVerify verify sum m (pubContext i.channel) = .ok (pk, id) := by
  unfold extractAndVerify
  constructor
  · intro h
    split at h
    · cases h
    · rename_i i0 hi
      split at h
      · cases h
      · rename_i hv
        split at h
        · cases h
        · rename_i pk0 id0 hs
          cases h
          exact ⟨hi, by simpa using hv, hs⟩
  · rintro ⟨hi, hv, hs⟩
    simp only [hi, hv, hs, Bool.not_true, Bool.false_eq_true, if_false]

theorem extractAndVerify_error_of (verify : VerifyFn) (sum : SumFn) (m : SignedMsg)
    (h : ∀ i pk id, extractAndVerify verify sum m ≠ .ok (i, pk, id)) :
    ∃ e, extractAndVerify verify sum m = .error e := by
  cases hr : extractAndVerify verify sum m with
  | error e => exact ⟨e, rfl⟩
  | ok p =>
    obtain ⟨i, pk, id⟩ := p
    exact absurd hr (h i pk id)

theorem validate_channel_ne_nil (i : Inner) (h : i.validate = true) : i.channel ≠ [] := by
  unfold Inner.validate at h
  intro e
  rw [e] at h
  simp at h

/-- Exact characterisation of an accepted publish packet. -/
theorem handlePublishOne_accepted_iff (verify : VerifyFn) (sum : SumFn) (mid : Bytes → Bytes) (r r' : Router)
    (prev : Bytes) (m : SignedMsg) (ch sender data : Bytes) (n : Nat) (fw : List Tpl) :
    handlePublishOne verify sum mid r prev m = (r', .accepted ch sender data n, fw) ↔
      ∃ i pk c, extractAndVerify verify sum m = .ok (i, pk, sender) ∧ i.channel = ch ∧ i.data = data ∧
        lookupCh r.channels ch = some c ∧ n = c ∧
        r.seen.contains (mid (msgKey m)) = false ∧
        r' = { r with seen := mid (msgKey m) :: r.seen } ∧
        fw = execPublishTargets r' ch m.fromPeerId prev := by
  unfold handlePublishOne
  constructor
  · intro h
    split at h
    · cases h
    · rename_i i pk id hev
      split at h
      · cases h
      · rename_i c hc
        unfold handleValidMessage at h
        simp only at h
        split at h
        · cases h
        · rename_i hseen
          simp only [Prod.mk.injEq, PubRes.accepted.injEq] at h
          obtain ⟨hr, ⟨hch, hs, hd, hn⟩, hfw⟩ := h
          subst hs
          refine ⟨i, pk, c, hev, hch, hd, by rw [← hch]; exact hc, ?_, by simpa using hseen, hr.symm, ?_⟩
          · rw [hc] at hn; exact hn.symm
          · rw [← hfw, ← hr, hch]
  · rintro ⟨i, pk, c, hev, hch, hd, hc, hn, hseen, hr, hfw⟩
    subst hch hd hn
    simp only [hev, hc]
    unfold handleValidMessage
    simp only [hseen, Bool.false_eq_true, if_false]
    rw [hfw, hr, hc]
    rfl

/-- Whatever is not accepted changes nothing and forwards nothing. -/
theorem handlePublishOne_not_accepted (verify : VerifyFn) (sum : SumFn) (mid : Bytes → Bytes) (r r' : Router)
    (prev : Bytes) (m : SignedMsg) (res : PubRes) (fw : List Tpl)
    (h : handlePublishOne verify sum mid r prev m = (r', res, fw))
    (hres : ∀ ch s d n, res ≠ .accepted ch s d n) : r' = r ∧ fw = [] := by
  unfold handlePublishOne at h
  split at h
  · cases h; exact ⟨rfl, rfl⟩
  · split at h
    · cases h; exact ⟨rfl, rfl⟩
    · unfold handleValidMessage at h
      simp only at h
      split at h
      · cases h; exact ⟨rfl, rfl⟩
      · cases h
        exact absurd rfl (hres _ _ _ _)

/-- A packet whose inner/signature check fails is rejected. -/
theorem handlePublishOne_rejected (verify : VerifyFn) (sum : SumFn) (mid : Bytes → Bytes) (r : Router)
    (prev : Bytes) (m : SignedMsg) (e : PubErr) (h : extractAndVerify verify sum m = .error e) :
    handlePublishOne verify sum mid r prev m = (r, .rejected e, []) := by
  unfold handlePublishOne
  rw [h]

end Pubsub
end Bifrost
