import Bifrost.Lemmas.SolicitSysInvA
import Bifrost.Lemmas.SolicitSysInvB
import Bifrost.Lemmas.SolicitSysInvC
/-! Inductive invariants of the two-sided solicitation model, part E: directives present since
before their hash was first offered receive every stream opened for it; and the invariants
together over all runs. -/
namespace Bifrost.SolicitSys
open Bifrost Bifrost.Solicit

structure InvE (H : Bytes → Bytes) (c : Cfg) (st : State) : Prop where
  streamEver : ∀ sr ∈ st.streams, ∀ x, sr.hash ∈ (st.node x).everSent
  earlyRecv : ∀ x, ∀ s ∈ (st.node x).resolved, ∀ sr, st.streams[s]? = some sr →
    ∀ i ∈ (st.node x).dirs, i.early = true → admits i.d (c.view x) = true →
      dirHash H c x i.d = sr.hash → ⟨i.id, i.d, s⟩ ∈ (st.node x).recv

theorem invE_init (H : Bytes → Bytes) (c : Cfg) : InvE H c {} := by
  constructor <;> intro x <;> cases x <;> simp [State.node]

theorem invE_frame (H : Bytes → Bytes) (c : Cfg) (st st' : State) (h : InvE H c st)
    (hs : st'.streams = st.streams)
    (he : ∀ y, ∀ h ∈ (st.node y).everSent, h ∈ (st'.node y).everSent)
    (hr : ∀ y, (st'.node y).resolved = (st.node y).resolved)
    (hd : ∀ y, (st'.node y).dirs = (st.node y).dirs)
    (hv : ∀ y, (st'.node y).recv = (st.node y).recv) : InvE H c st' := by
  obtain ⟨h1, h2⟩ := h
  constructor
  · intro sr hsr x; rw [hs] at hsr; exact he x _ (h1 sr hsr x)
  · simp only [hs, hr, hd, hv]; exact h2

theorem invE_step (H : Bytes → Bytes) (c : Cfg) (st : State) (o : Op)
    (hA : InvA c st) (hB : InvB c st) (hC : InvC H c st) (h : InvE H c st) : InvE H c (step H c st o) := by
  have hh0 := h
  obtain ⟨h1, h2⟩ := h
  cases o with
  | add x d =>
    constructor
    · intro sr hsr y
      have := h1 sr (by simpa [step] using hsr) y
      rcases eq_or_other x y with rfl | rfl <;> simpa [step] using this
    · intro y; rcases eq_or_other x y with rfl | rfl
      · simp only [step, node_setNode_self, streams_setNode]
        intro s hs sr hsr i hi
        rw [List.mem_append, List.mem_singleton] at hi
        rcases hi with hi | rfl
        · exact h2 y s hs sr hsr i hi
        · intro hearly _ hhash
          exfalso
          have hm := h1 sr (List.mem_of_getElem? hsr) y
          simp only [decide_eq_true_eq] at hearly
          rw [hhash] at hearly
          exact hearly hm
      · simpa [step] using h2 x.other
  | remove x d =>
    constructor
    · intro sr hsr y
      have := h1 sr (by simpa [step] using hsr) y
      rcases eq_or_other x y with rfl | rfl <;> simpa [step] using this
    · intro y; rcases eq_or_other x y with rfl | rfl
      · simp only [step, node_setNode_self, streams_setNode]
        intro s hs sr hsr i hi
        exact h2 y s hs sr hsr i (List.mem_filter.mp hi).1
      · simpa [step] using h2 x.other
  | sync x =>
    by_cases he : hashList H c x (st.node x) = (st.node x).sent
    · refine invE_frame H c st _ hh0 (by simp [step, he]) ?_ ?_ ?_ ?_ <;>
        (intro y; rcases eq_or_other x y with rfl | rfl <;> simp [step, he])
    · refine invE_frame H c st _ hh0 (by simp [step, he]) ?_ ?_ ?_ ?_ <;>
        (intro y; rcases eq_or_other x y with rfl | rfl <;> simp [step, he])
      intro h hh; exact Or.inl hh
  | deliver x =>
    cases hi : (st.node x).inbox with
    | nil => simp only [step, hi]; exact hh0
    | cons m rest =>
      refine invE_frame H c st _ hh0 (by simp [step, hi]) ?_ ?_ ?_ ?_ <;>
        (intro y; rcases eq_or_other x y with rfl | rfl <;> simp [step, hi])
  | «open» x hh =>
    by_cases hp : hh ∈ (st.node x).pendingOpen
    · have hx : (step H c st (.open x hh)).node x =
          resolveOn H c x { st.node x with pendingOpen := (st.node x).pendingOpen.erase hh } hh st.streams.length := by
        simp [step, hp]
      have ho : (step H c st (.open x hh)).node x.other =
          { st.node x.other with arriving := (st.node x.other).arriving ++ [st.streams.length] } := by
        simp [step, hp]
      have hs : (step H c st (.open x hh)).streams = st.streams ++ [⟨hh, x⟩] := by simp [step, hp]
      have hev := hA.matchedEver x hh (hB.openMatched x hh (Or.inl hp))
      constructor
      · intro sr hsr y
        rw [hs, List.mem_append, List.mem_singleton] at hsr
        have hy : ((step H c st (.open x hh)).node y).everSent = (st.node y).everSent := by
          rcases eq_or_other x y with rfl | rfl
          · rw [hx]; rfl
          · rw [ho]
        rw [hy]
        rcases hsr with hsr | rfl
        · exact h1 sr hsr y
        · rcases eq_or_other x y with rfl | rfl
          · exact hev.1
          · exact hev.2
      · intro y; rcases eq_or_other x y with rfl | rfl
        · rw [hx, hs, resolveOn_resolved, resolveOn_dirs]
          simp only [List.mem_append, List.mem_singleton, mem_resolveOn_recv]
          rintro s (hsm | rfl) sr hsr i hi hearly hadm hhash
          · have hlt := hC.resolvedLt y s hsm
            rw [List.getElem?_append_left hlt] at hsr
            exact Or.inl (h2 y s hsm sr hsr i hi hearly hadm hhash)
          · simp at hsr; subst hsr
            exact Or.inr ⟨i, hi, hadm, hhash, rfl⟩
        · rw [ho, hs]
          intro s hsm sr hsr i hi hearly hadm hhash
          have hlt := hC.resolvedLt _ s hsm
          rw [List.getElem?_append_left hlt] at hsr
          exact h2 _ s hsm sr hsr i hi hearly hadm hhash
    · simp only [step, hp]; exact hh0
  | arrive x s =>
    by_cases hp : s ∈ (st.node x).arriving
    · cases hs : st.streams[s]? with
      | none => simp only [step, hp, hs]; exact hh0
      | some sr =>
        have hx : (step H c st (.arrive x s)).node x =
            resolveOn H c x { st.node x with arriving := (st.node x).arriving.erase s } sr.hash s := by
          simp [step, hp, hs]
        have ho : (step H c st (.arrive x s)).node x.other = st.node x.other := by simp [step, hp, hs]
        have hst : (step H c st (.arrive x s)).streams = st.streams := by simp [step, hp, hs]
        constructor
        · intro sr2 hsr2 y
          rw [hst] at hsr2
          have hy : ((step H c st (.arrive x s)).node y).everSent = (st.node y).everSent := by
            rcases eq_or_other x y with rfl | rfl
            · rw [hx]; rfl
            · rw [ho]
          rw [hy]; exact h1 sr2 hsr2 y
        · intro y; rcases eq_or_other x y with rfl | rfl
          · rw [hx, hst, resolveOn_resolved, resolveOn_dirs]
            simp only [List.mem_append, List.mem_singleton, mem_resolveOn_recv]
            rintro t (htm | rfl) sr2 hsr2 i hi hearly hadm hhash
            · exact Or.inl (h2 y t htm sr2 hsr2 i hi hearly hadm hhash)
            · rw [hs] at hsr2; cases hsr2
              exact Or.inr ⟨i, hi, hadm, hhash, rfl⟩
          · rw [ho, hst]; exact h2 _
    · simp only [step, hp]; exact hh0

/-! ### all invariants over all runs -/

structure Inv (H : Bytes → Bytes) (c : Cfg) (st : State) : Prop where
  a : InvA c st
  b : InvB c st
  c' : InvC H c st
  d : InvD st
  e : InvE H c st

theorem invA_init (c : Cfg) : InvA c {} := by
  constructor <;> intro x <;> cases x <;> simp [State.node, pendingRemote, findMatching] <;> exact Or.inr rfl

theorem invB_init (c : Cfg) : InvB c {} := by
  constructor <;> intro x <;> cases x <;> simp [State.node, opened]

theorem inv_init (H : Bytes → Bytes) (c : Cfg) : Inv H c {} :=
  ⟨invA_init c, invB_init c, invC_init H c, invD_init, invE_init H c⟩

theorem inv_step (H : Bytes → Bytes) (c : Cfg) (st : State) (o : Op) (h : Inv H c st) : Inv H c (step H c st o) :=
  ⟨invA_step H c st o h.a, invB_step H c st o h.b, invC_step H c st o h.c', invD_step H c st o h.d,
    invE_step H c st o h.a h.b h.c' h.e⟩

theorem inv_runFrom (H : Bytes → Bytes) (c : Cfg) (ops : List Op) : ∀ st, Inv H c st → Inv H c (runFrom H c st ops) := by
  induction ops with
  | nil => intro st h; exact h
  | cons o rest ih => intro st h; exact ih _ (inv_step H c st o h)

theorem inv_run (H : Bytes → Bytes) (c : Cfg) (ops : List Op) : Inv H c (run H c ops) :=
  inv_runFrom H c ops {} (inv_init H c)

end Bifrost.SolicitSys
