import Bifrost.Model.Signaling
import Bifrost.Lemmas.SigSessMain
/-! Relay-side facts used by the end-to-end composition (C21E2E): which peer pair a call serves
never changes, acknowledgements held by the relay (in a session tracker or in an outbox) only
ever come from an `Ack` request of the partner's stream, and the ghost log `accepted` only grows
by `Send` requests. -/
namespace Bifrost
namespace SigSysSrv
open Bifrost.Sig Bifrost.SigSess

/-- the (src, dst) of a Session call -/
def callPair (s : State) (id : Nat) : Option (Nat × Nat) := (getSCall s id).map fun c => (c.src, c.dst)

abbrev AccE := Nat × Nat × Nat × Msg × Bool × Nat

/-- `P src dst k` seen from side `isA` of the tracker -/
def Pside (P : Nat → Nat → Nat → Prop) (t : Sess) (isA : Bool) (k : Nat) : Prop :=
  if isA then P t.a t.b k else P t.b t.a k

/-- every ack stored on an attachment satisfies `P (peer of that side) (other peer)` -/
def AttOk (P : Nat → Nat → Nat → Prop) (t : Sess) : Prop :=
  ∀ (isA : Bool) o k, (t.sides isA).1 = some o → o.outAcked = some k → Pside P t isA k

structure AckView (P : Nat → Nat → Nat → Prop) (s : State) : Prop where
  sess : ∀ t ∈ s.sesss, AttOk P t
  out : ∀ c ∈ s.scalls, ∀ k, Resp.ack k ∈ c.outbox → P c.src c.dst k

/-- What one relay step preserves. `N` describes the new entries of `accepted`. -/
structure Pres (P : Nat → Nat → Nat → Prop) (N : AccE → Prop) (s s' : State) : Prop where
  pair : ∀ id, callPair s' id = callPair s id
  ack : AckView P s → AckView P s'
  acc : ∀ x ∈ s'.accepted, x ∈ s.accepted ∨ N x

variable {P : Nat → Nat → Nat → Prop} {N : AccE → Prop}

theorem Pres.refl (s : State) : Pres P N s s := ⟨fun _ => rfl, fun h => h, fun _ h => Or.inl h⟩

theorem Pres.trans {s s' s'' : State} (h1 : Pres P N s s') (h2 : Pres P N s' s'') : Pres P N s s'' :=
  ⟨fun id => (h2.pair id).trans (h1.pair id), fun h => h2.ack (h1.ack h), fun x hx => by
    rcases h2.acc x hx with h | h
    · exact h1.acc x h
    · exact Or.inr h⟩

theorem Pres.of_eq {s s' : State} (h1 : s'.sesss = s.sesss) (h2 : s'.scalls = s.scalls)
    (h3 : s'.accepted = s.accepted) : Pres P N s s' := by
  refine ⟨fun id => by simp [callPair, getSCall, h2], fun h => ⟨?_, ?_⟩, fun x hx => Or.inl (h3 ▸ hx)⟩
  · rw [h1]; exact h.sess
  · rw [h2]; exact h.out

theorem Pres.sessEq {s s' : State} (h : SessEq s s') : Pres P N s s' :=
  Pres.of_eq h.sesss h.scalls h.accepted

theorem Pres.setSCall {s : State} {c c' : SCall} (hc : getSCall s c'.id = some c)
    (h1 : c'.src = c.src) (h2 : c'.dst = c.dst)
    (hout : AckView P s → ∀ k, Resp.ack k ∈ c'.outbox → P c'.src c'.dst k) :
    Pres P N s (setSCall s c') := by
  refine ⟨?_, fun h => ⟨h.sess, ?_⟩, fun x hx => Or.inl hx⟩
  · intro id
    unfold callPair
    rw [SigSess.getSCall_setSCall]
    by_cases hid : id = c'.id
    · subst hid; simp [hc, h1, h2]
    · simp [hid]
  · intro x hx
    simp only [Sig.setSCall, List.mem_map] at hx
    obtain ⟨y, hy, rfl⟩ := hx
    split
    · exact hout h
    · exact h.out y hy

theorem Pres.setSess {s : State} {t' : Sess} (ht : AckView P s → AttOk P t') :
    Pres P N s (setSess s t') := by
  refine ⟨fun _ => rfl, fun h => ⟨?_, h.out⟩, fun x hx => Or.inl hx⟩
  intro x hx
  simp only [Sig.setSess, List.mem_map] at hx
  obtain ⟨y, hy, rfl⟩ := hx
  split
  · exact ht h
  · exact h.sess y hy

theorem Pres.accCons {s : State} {x : AccE} (hx : N x) :
    Pres P N s { s with accepted := x :: s.accepted } := by
  refine ⟨fun _ => rfl, fun h => ⟨h.sess, h.out⟩, fun y hy => ?_⟩
  rcases List.mem_cons.1 hy with rfl | hy
  · exact Or.inr hx
  · exact Or.inl hy

/-! ### `AttOk` of the trackers the steps write -/

theorem getSess_mem {s : State} {id : Nat} {t : Sess} (h : getSess s id = some t) : t ∈ s.sesss :=
  List.mem_of_find?_eq_some h

theorem sides_not (t : Sess) (isA : Bool) : (t.sides (!isA)).1 = (t.sides isA).2 := by
  cases isA <;> rfl

theorem AttOk.side1 {t : Sess} (h : AttOk P t) {isA : Bool} {o1 o2 : Option Att} (hs : t.sides isA = (o1, o2)) :
    ∀ o k, o1 = some o → o.outAcked = some k → Pside P t isA k := by
  intro o k ho hk
  exact h isA o k (by rw [hs]; exact ho) hk

theorem AttOk.side2 {t : Sess} (h : AttOk P t) {isA : Bool} {o1 o2 : Option Att} (hs : t.sides isA = (o1, o2)) :
    ∀ o k, o2 = some o → o.outAcked = some k → Pside P t (!isA) k := by
  intro o k ho hk
  exact h (!isA) o k (by rw [sides_not, hs]; exact ho) hk

theorem Pside_congr {t t' : Sess} (ha : t'.a = t.a) (hb : t'.b = t.b) (isA : Bool) (k : Nat) :
    Pside P t' isA k = Pside P t isA k := by
  unfold Pside; rw [ha, hb]

theorem AttOk_congr {t t' : Sess} (ha : t'.a = t.a) (hb : t'.b = t.b)
    (hs : ∀ isA, t'.sides isA = t.sides isA) (h : AttOk P t) : AttOk P t' := by
  intro isA o k ho hk
  rw [Pside_congr ha hb]
  exact h isA o k (by rw [← hs]; exact ho) hk

theorem AttOk_bcast {t : Sess} (h : AttOk P t) : AttOk P t.bcast :=
  AttOk_congr rfl rfl (fun isA => bcast_sides t isA) h

theorem AttOk_setSides {t : Sess} {isA : Bool} {o1 o2 : Option Att}
    (h1 : ∀ o k, o1 = some o → o.outAcked = some k → Pside P t isA k)
    (h2 : ∀ o k, o2 = some o → o.outAcked = some k → Pside P t (!isA) k) :
    AttOk P (t.setSides isA o1 o2) := by
  intro isA' o k ho hk
  rw [Pside_congr (setSides_a _ _ _ _) (setSides_b _ _ _ _)]
  by_cases h : isA' = isA
  · subst h
    rw [setSides_sides_same] at ho
    exact h1 o k ho hk
  · rw [setSides_sides_ne _ h] at ho
    have : isA' = !isA := by cases isA <;> cases isA' <;> simp_all
    subst this
    exact h2 o k ho hk

theorem AttOk_seqno {t : Sess} (n : Nat) (h : AttOk P t) : AttOk P { t with seqno := n } :=
  AttOk_congr rfl rfl (fun isA => by cases isA <;> rfl) h

theorem pside_key {c : SCall} {t : Sess} (hk : (sessKey c.src c.dst).1 = (t.a, t.b)) (k : Nat) :
    (Pside P t c.isA k ↔ P c.src c.dst k) ∧ (Pside P t (!c.isA) k ↔ P c.dst c.src k) := by
  by_cases h : c.src < c.dst
  · have e : sessKey c.src c.dst = ((c.src, c.dst), true) := by simp [sessKey, h]
    rw [e] at hk
    simp only [Prod.mk.injEq] at hk
    simp only [SCall.isA, e, Pside, ← hk.1, ← hk.2]
    simp
  · have e : sessKey c.src c.dst = ((c.dst, c.src), false) := by simp [sessKey, h]
    rw [e] at hk
    simp only [Prod.mk.injEq] at hk
    simp only [SCall.isA, e, Pside, ← hk.1, ← hk.2]
    simp

theorem good_key {s : State} (hg : Good s) {id : Nat} {c : SCall} {t : Sess}
    (hc : getSCall s id = some c) (ht : getSess s c.sess = some t) :
    (sessKey c.src c.dst).1 = (t.a, t.b) := by
  obtain ⟨t0, ht0, hci⟩ := hg.inv.calls _ _ hc
  rw [ht] at ht0; cases ht0
  exact hci.key

/-! ### the steps -/

theorem pres_readerDone {s : State} {id : Nat} {d : SCall} (hd : getSCall s id = some d) :
    Pres P N s (setSCall s { d with readerDone := true }) := by
  have hid := getSCall_id hd
  subst hid
  exact Pres.setSCall (c' := { d with readerDone := true }) hd rfl rfl
    (fun hv k hk => hv.out d (getSCall_mem hd) k hk)

def NSend (call : Nat) (m : Msg) : AccE → Prop :=
  fun x => x.2.2.1 = call ∧ x.2.2.2.1 = m

theorem pres_sSend {s : State} (call epoch : Nat) (m : Msg) (v : Bool) (g : Nat) :
    Pres P (NSend call m) s (sSend s call epoch m v g) := by
  unfold sSend
  split
  · exact Pres.refl _
  · rename_i d hd
    split
    · exact pres_readerDone hd
    · split
      · exact Pres.refl _
      · rename_i t ht
        split
        · exact pres_readerDone hd
        · split
          · exact Pres.refl _
          · split
            · exact Pres.refl _
            · rename_i ours other hp
              have ⟨hs, _⟩ := activePair_eq.1 hp
              refine Pres.trans (s' := setSess s (sendSess t d.isA ours other m)) (Pres.setSess ?_)
                (Pres.accCons ⟨rfl, rfl⟩)
              intro hv
              have hat := hv.sess t (getSess_mem ht)
              refine AttOk_bcast (AttOk_setSides (hat.side1 hs) ?_)
              intro o k ho hk
              simp only [Option.some.injEq] at ho
              subst ho
              exact hat.side2 hs other k rfl hk

theorem pres_sAck {s : State} (hg : Good s) (call epoch k : Nat)
    (hP : ∀ d, getSCall s call = some d → P d.dst d.src k) :
    Pres P N s (sAck s call epoch k) := by
  unfold sAck
  split
  · exact Pres.refl _
  · rename_i d hd
    split
    · exact Pres.refl _
    · rename_i t ht
      split
      · exact pres_readerDone hd
      · split
        · exact Pres.refl _
        · split
          · exact Pres.refl _
          · rename_i ours other hp
            have ⟨hs, _⟩ := activePair_eq.1 hp
            split
            · refine Pres.setSess ?_
              intro hv
              have hat := hv.sess t (getSess_mem ht)
              refine AttOk_bcast (AttOk_setSides ?_ ?_)
              · intro o k' ho hk
                simp only [Option.some.injEq] at ho
                subst ho
                exact hat.side1 hs ours k' rfl hk
              · intro o k' ho hk
                simp only [Option.some.injEq] at ho
                subst ho
                simp only [Option.some.injEq] at hk
                subst hk
                exact ((pside_key (good_key hg hd ht) k).2).2 (hP d hd)
            · exact Pres.refl _

theorem pres_sClear {s : State} (call epoch k : Nat) :
    Pres P N s (sClear s call epoch k) := by
  unfold sClear
  split
  · exact Pres.refl _
  · rename_i d hd
    split
    · exact Pres.refl _
    · rename_i t ht
      split
      · exact pres_readerDone hd
      · split
        · exact Pres.refl _
        · split
          · exact Pres.refl _
          · rename_i ours other hp
            have ⟨hs, _⟩ := activePair_eq.1 hp
            split
            · refine Pres.setSess ?_
              intro hv
              have hat := hv.sess t (getSess_mem ht)
              refine AttOk_setSides (hat.side1 hs) ?_
              intro o k' ho hk
              simp only [Option.some.injEq] at ho
              subst ho
              exact hat.side2 hs other k' rfl hk
            · split
              · refine Pres.setSess ?_
                intro hv
                have hat := hv.sess t (getSess_mem ht)
                refine AttOk_setSides (hat.side1 hs) ?_
                intro o k' ho hk
                simp only [Option.some.injEq] at ho
                subst ho
                exact hat.side2 hs other k' rfl hk
              · exact Pres.refl _

theorem pres_sTx {s : State} (call : Nat) (r : Resp) :
    Pres P N s ((sTx s call r).getD s) := by
  unfold sTx
  split
  · exact Pres.refl _
  · rename_i d hd
    have hid := getSCall_id hd; subst hid
    split
    · rename_i x rest hout
      split
      · refine Pres.setSCall (c' := { d with outbox := rest }) hd rfl rfl ?_
        intro hv k hk
        exact hv.out d (getSCall_mem hd) k (by rw [hout]; exact List.mem_cons_of_mem _ hk)
      · exact Pres.refl _
    · exact Pres.refl _

theorem ack_mem_loopOut {d : SCall} {t : Sess} {ours : Att} {k : Nat}
    (h : Resp.ack k ∈ loopOut d t ours) : ours.outAcked = some k := by
  simp only [loopOut, List.mem_append] at h
  rcases h with ((h | h) | h) | h
  · split at h <;> simp at h
  · split at h
    · simp at h; subst h; assumption
    · simp at h
  · split at h <;> simp at h
  · split at h <;> simp at h

theorem pres_sLoop {s : State} (hg : Good s) (call : Nat) : Pres P N s (sLoop s call) := by
  unfold sLoop
  split
  · exact Pres.refl _
  · rename_i d hd
    have hid := getSCall_id hd; subst hid
    split
    · exact Pres.refl _
    · rename_i t ht
      rcases hsd : t.sides d.isA with ⟨oursO, otherO⟩
      simp only []
      have husurp : Pres P N s (setSCall s { d with waitGen := t.gen, failing := true }) :=
        Pres.setSCall (c' := { d with waitGen := t.gen, failing := true }) hd rfl rfl
          (fun hv k hk => hv.out d (getSCall_mem hd) k hk)
      cases oursO with
      | none =>
        simp only [if_true]
        exact husurp
      | some ours =>
        simp only []
        split
        · exact husurp
        · cases otherO with
          | none =>
            simp only [Option.isSome_none, Bool.false_eq_true, if_false, Option.isNone_none, if_true]
            refine Pres.setSCall (c' := { d with waitGen := t.gen, announced := none, outbox := d.outbox ++ (if d.announced ≠ none then [Resp.closed] else []) }) hd rfl rfl ?_
            intro hv k hk
            rcases List.mem_append.1 hk with hk | hk
            · exact hv.out d (getSCall_mem hd) k hk
            · split at hk <;> simp at hk
          | some other =>
            simp only [Option.isSome_some, if_true, Option.isNone_some, Bool.false_eq_true, if_false]
            show Pres P N s (setSess (setSCall s
              { d with waitGen := t.gen, announced := some t.seqno, outbox := d.outbox ++ loopOut d t ours })
              (loopSess t d.isA ours (some other)))
            refine Pres.trans (Pres.setSCall (c' := { d with waitGen := t.gen, announced := some t.seqno, outbox := d.outbox ++ loopOut d t ours }) hd rfl rfl ?_) (Pres.setSess ?_)
            · intro hv k hk
              rcases List.mem_append.1 hk with hk | hk
              · exact hv.out d (getSCall_mem hd) k hk
              · have hat := hv.sess t (getSess_mem ht)
                exact ((pside_key (good_key hg hd ht) k).1).1 (hat.side1 hsd ours k rfl (ack_mem_loopOut hk))
            · intro hv
              have hat := hv.sess t (getSess_mem ht)
              have hbase : AttOk P (t.setSides d.isA (some (loopAtt ours)) (some other)) := by
                refine AttOk_setSides ?_ (hat.side2 hsd)
                intro o k ho hk
                simp only [Option.some.injEq] at ho
                subst ho
                simp [loopAtt] at hk
              unfold loopSess
              split
              · exact AttOk_bcast hbase
              · exact hbase

theorem pres_maybeReleaseSession (s : State) (k : Nat × Nat) : Pres P N s (maybeReleaseSession s k) := by
  unfold maybeReleaseSession
  split
  · exact Pres.refl _
  · split
    · exact Pres.refl _
    · rename_i t ht
      split
      · exact Pres.refl _
      · refine Pres.trans (s' := { s with sessMap := s.sessMap.filter (·.1 ≠ k) }) (Pres.of_eq rfl rfl rfl)
          (Pres.setSess ?_)
        intro hv
        exact AttOk_bcast (hv.sess t (getSess_mem ht))

theorem pres_sEnd {s : State} (call : Nat) : Pres P N s (sEnd s call) := by
  unfold sEnd
  split
  · exact Pres.refl _
  · rename_i d hd
    have hid := getSCall_id hd; subst hid
    have h0 : Pres P N s (setSCall s { d with ended := true, failing := true, outbox := [] }) :=
      Pres.setSCall (c' := { d with ended := true, failing := true, outbox := [] }) hd rfl rfl
        (fun _ k hk => by simp at hk)
    simp only [getSess_setSCall]
    split
    · exact h0
    · rename_i t ht
      rcases hsd : t.sides d.isA with ⟨oursO, otherO⟩
      simp only []
      cases oursO with
      | none => exact h0
      | some ours =>
        simp only []
        split
        · exact h0
        · refine h0.trans ?_
          have h1 : Pres P N (setSCall s { d with ended := true, failing := true, outbox := [] })
              (setSess (setSCall s { d with ended := true, failing := true, outbox := [] })
                (endSess t d.isA otherO)) := by
            refine Pres.setSess ?_
            intro hv
            have hat := hv.sess t (getSess_mem ht)
            refine AttOk_bcast (AttOk_seqno _ (AttOk_setSides (by simp) ?_))
            intro o k ho hk
            obtain ⟨o', ho', rfl⟩ := Option.map_eq_some_iff.1 ho
            exact hat.side2 hsd o' k ho' hk
          have h2 := h1.trans (pres_maybeReleaseSession (P := P) (N := N) _ (sessKey d.src d.dst).1)
          apply Pres.trans _ (Pres.sessEq (SessEq_maybeReleasePeer _ _))
          split
          · exact h2.trans (Pres.sessEq (SessEq_setTkr _ _))
          · exact h2

/-! ### registration -/

theorem AckView_getSession {s : State} (k : Nat × Nat) (h : AckView P s) : AckView P (getSession s k).1 := by
  unfold getSession
  split
  · split <;> exact h
  · refine ⟨?_, h.out⟩
    intro t ht
    rcases List.mem_append.1 ht with ht | ht
    · exact h.sess t ht
    · simp only [List.mem_singleton] at ht
      subst ht
      intro isA o k ho
      cases isA <;> simp [Sess.sides] at ho

theorem accepted_getSession (s : State) (k : Nat × Nat) : (getSession s k).1.accepted = s.accepted := by
  unfold getSession
  split
  · split <;> rfl
  · rfl

def InitSpec (P : Nat → Nat → Nat → Prop) (s : State) (call src dst : Nat) (s' : State) : Prop :=
  (∀ id, callPair s' id = if id = call then some (src, dst) else callPair s id) ∧
  (AckView P s → AckView P s') ∧ s'.accepted = s.accepted

theorem sInit_spec {s : State} (hg : Good s) (call src dst : Nat) (hfresh : getSCall s call = none) :
    InitSpec P s call src dst (sInit s call src dst) := by
  unfold sInit
  rcases hgp : getPeer s dst with ⟨s1, dt, ex⟩
  simp only []
  have hs1 : SessEq s s1 := by have := SessEq_getPeer s dst; rw [hgp] at this; exact this
  generalize hs2 : (if src ∈ dt.wants then s1 else setTkr s1 ({ dt with wants := insertSorted src dt.wants }).bcast) = s2
  have hs2' : SessEq s s2 := by
    subst hs2; split
    · exact hs1
    · exact hs1.trans (SessEq_setTkr _ _)
  have hinv2 := Inv_SessEq hg.inv hs2'
  rcases hk : sessKey src dst with ⟨k, isA⟩
  simp only []
  obtain ⟨h1, h2, h3, h4⟩ := getSession_spec hinv2 k
  have hav := AckView_getSession (P := P) (s := s2) k
  have hacc := accepted_getSession s2 k
  rcases hgs : getSession s2 k with ⟨s3, t⟩
  rw [hgs] at h1 h2 h3 h4 hav hacc
  simp only [] at h1 h2 h3 h4 hav hacc ⊢
  rcases hsd : t.sides isA with ⟨o1, other⟩
  simp only []
  show InitSpec P s call src dst (addCall (setSess s3 (initSess t isA call other))
    (newCall call src dst t.sid dt.tid (t.setSides isA (some { call := call }) (other.map clearAtt)).gen))
  have hC : ∀ id, getSCall s3 id = getSCall s id := fun id => (h4 id).trans (hs2'.getSCall id)
  have hfresh3 : getSCall (setSess s3 (initSess t isA call other))
      (newCall call src dst t.sid dt.tid (t.setSides isA (some { call := call }) (other.map clearAtt)).gen).id = none := by
    show getSCall s3 call = none
    rw [hC]; exact hfresh
  refine ⟨?_, ?_, ?_⟩
  · intro id
    unfold callPair
    rw [getSCall_addCall hfresh3]
    by_cases hid : id = call
    · simp [newCall, hid]
    · have : getSCall (setSess s3 (initSess t isA call other)) id = getSCall s id := hC id
      simp [newCall, hid, this]
  · intro hv
    have hv2 : AckView P s2 := ⟨by rw [hs2'.sesss]; exact hv.sess, by rw [hs2'.scalls]; exact hv.out⟩
    have hv3 := hav hv2
    have hat := hv3.sess t (getSess_mem h2)
    refine ⟨?_, ?_⟩
    · intro x hx
      have hx' : x ∈ (setSess s3 (initSess t isA call other)).sesss := hx
      simp only [Sig.setSess, List.mem_map] at hx'
      obtain ⟨y, hy, rfl⟩ := hx'
      split
      · unfold initSess
        refine AttOk_bcast (AttOk_seqno _ (AttOk_setSides ?_ ?_))
        · intro o k ho hk
          simp only [Option.some.injEq] at ho
          subst ho
          simp at hk
        · intro o k ho hk
          obtain ⟨o', ho', rfl⟩ := Option.map_eq_some_iff.1 ho
          exact hat.side2 hsd o' k ho' hk
      · exact hv3.sess y hy
    · intro c hc k hk
      have hc' : c ∈ s3.scalls ++ [newCall call src dst t.sid dt.tid
          (t.setSides isA (some { call := call }) (other.map clearAtt)).gen] := hc
      rcases List.mem_append.1 hc' with hc' | hc'
      · exact hv3.out c hc' k hk
      · simp only [List.mem_singleton] at hc'
        subst hc'
        simp [newCall] at hk
  · show s3.accepted = s.accepted
    rw [hacc, hs2'.accepted]

/-! ### the ghost log `accepted` -/

/-- every accepted submission came in on an existing call and satisfies `R (src) (dst) msg` -/
def MsgView (R : Nat → Nat → Msg → Prop) (s : State) : Prop :=
  ∀ x ∈ s.accepted, ∃ p, callPair s x.2.2.1 = some p ∧ R p.1 p.2 x.2.2.2.1

theorem MsgView_pres {R : Nat → Nat → Msg → Prop} {s s' : State} (hp : Pres P N s s') (h : MsgView R s)
    (hN : ∀ x, N x → ∃ p, callPair s x.2.2.1 = some p ∧ R p.1 p.2 x.2.2.2.1) : MsgView R s' := by
  intro x hx
  rcases hp.acc x hx with h1 | h1
  · obtain ⟨p, hp1, hp2⟩ := h x h1
    exact ⟨p, by rw [hp.pair]; exact hp1, hp2⟩
  · obtain ⟨p, hp1, hp2⟩ := hN x h1
    exact ⟨p, by rw [hp.pair]; exact hp1, hp2⟩

theorem MsgView_init {R : Nat → Nat → Msg → Prop} {s s' : State} {call src dst : Nat}
    (hi : InitSpec P s call src dst s') (hfresh : getSCall s call = none) (h : MsgView R s) : MsgView R s' := by
  intro x hx
  rw [hi.2.2] at hx
  obtain ⟨p, hp1, hp2⟩ := h x hx
  refine ⟨p, ?_, hp2⟩
  rw [hi.1]
  have : x.2.2.1 ≠ call := by
    intro e
    rw [e] at hp1
    simp [callPair, hfresh] at hp1
  simp [this, hp1]

theorem MsgView_mono {R R' : Nat → Nat → Msg → Prop} {s : State} (hR : ∀ x y m, R x y m → R' x y m)
    (h : MsgView R s) : MsgView R' s := by
  intro x hx
  obtain ⟨p, hp1, hp2⟩ := h x hx
  exact ⟨p, hp1, hR _ _ _ hp2⟩

theorem AckView_mono {P' : Nat → Nat → Nat → Prop} {s : State} (hP : ∀ x y k, P x y k → P' x y k)
    (h : AckView P s) : AckView P' s := by
  refine ⟨?_, fun c hc k hk => hP _ _ _ (h.out c hc k hk)⟩
  intro t ht isA o k ho hk
  have := h.sess t ht isA o k ho hk
  unfold Pside at *
  split
  · rename_i hh; rw [if_pos hh] at this; exact hP _ _ _ this
  · rename_i hh; rw [if_neg hh] at this; exact hP _ _ _ this

/-- a relayed message waiting in an outbox was accepted from the partner's side -/
theorem outbox_recv {R : Nat → Nat → Msg → Prop} {s : State} (hg : Good s) (hm : MsgView R s)
    {id : Nat} {sc : SCall} {m : Msg} (hc : getSCall s id = some sc) (hr : Resp.recv m ∈ sc.outbox) :
    R sc.dst sc.src m := by
  obtain ⟨t, _, hci⟩ := hg.inv.calls _ _ hc
  obtain ⟨e, _, ha⟩ := hci.fwd m hr
  unfold SigSess.Acc at ha
  rw [acceptedFor_iff] at ha
  obtain ⟨fr, v, g, cf, hmem, _, _, hcf, _, _, h3, h4⟩ := ha
  obtain ⟨p, hp1, hp2⟩ := hm _ hmem
  simp only [callPair, hcf, Option.map_some, Option.some.injEq] at hp1
  subst hp1
  simp only [] at hp2
  rw [h3, h4] at hp2
  exact hp2

theorem outbox_ack {s : State} (h : AckView P s) {id : Nat} {sc : SCall} {k : Nat}
    (hc : getSCall s id = some sc) (hr : Resp.ack k ∈ sc.outbox) : P sc.src sc.dst k :=
  h.out sc (getSCall_mem hc) k hr

theorem callPair_of {s : State} {id : Nat} {sc : SCall} (hc : getSCall s id = some sc) :
    callPair s id = some (sc.src, sc.dst) := by
  simp [callPair, hc]

end SigSysSrv
end Bifrost
