import Bifrost.Lemmas.SigPairSimD
import Bifrost.Lemmas.SigSys
import Bifrost.Lemmas.SigRegMain
/-!
Simulation `SigSys` ⟶ `SigPair`, part E: every event of a stable suffix that is not an action of
the pair (`proj = none`) leaves the view unchanged: events of other trackers, of other relay
calls (including their registration and teardown), `newClient`, and `connect` of the pair's own
trackers (a no-op while their calls are open).
-/
namespace Bifrost
namespace SigPair
open Bifrost.SigSys Bifrost.SigSysSrv

section
variable {s : SigSys.State} {A B ia ib : Nat} {p : PState}

theorem View.otherClient (hv : View s A B ia ib p) (c' : Client) (hnp : ¬ isPair A B c'.me c'.peer) :
    View (setClient s c') A B ia ib p := by
  refine hv.frame ?_ ?_ rfl rfl (fun _ _ _ h => h)
  · exact getClient_setClient_ne (fun h => hnp (Or.inl ⟨h.1.symm, h.2.symm⟩))
  · exact getClient_setClient_ne (fun h => hnp (Or.inr ⟨h.1.symm, h.2.symm⟩))

theorem View.otherChan (hv : View s A B ia ib p) (ch : Chan) (h1 : ch.call ≠ ia) (h2 : ch.call ≠ ib) :
    View (setChan s ch) A B ia ib p :=
  hv.frame rfl rfl (getChan_setChan_ne (Ne.symm h1)) (getChan_setChan_ne (Ne.symm h2)) (fun _ _ _ h => h)

theorem View.otherSrv (hv : View s A B ia ib p) {srv' : Sig.State}
    (hf : ∀ sid dtA dtB, SrvView s.srv A B ia ib p sid dtA dtB → Fr s.srv srv' ia ib sid) :
    View { s with srv := srv' } A B ia ib p :=
  hv.frame rfl rfl rfl rfl (fun _ _ _ h => h.fr (hf _ _ _ h))

/-- the call of another tracker is not one of the pair's calls -/
theorem other_call_ne (hinv : SigSys.Inv s) (hv : View s A B ia ib p) {me peer : Nat} {c : Client}
    (hc : getClient s me peer = some c) (hnp : ¬ isPair A B me peer) {id : Nat} (hid : c.call = some id) :
    id ≠ ia ∧ id ≠ ib := by
  obtain ⟨hmem, hme, hpeer⟩ := getClient_some hc
  have hp := (hinv.cli c hmem).call id hid
  obtain ⟨sid, dtA, dtB, hs⟩ := hv.srv
  have ha := callPair_of hs.ca
  have hb := callPair_of hs.cb
  constructor
  · intro e
    rw [e, ha] at hp
    simp only [mkCall_src, mkCall_dst, Option.some.injEq, Prod.mk.injEq] at hp
    exact hnp (Or.inl ⟨hme.symm.trans hp.1.symm, hpeer.symm.trans hp.2.symm⟩)
  · intro e
    rw [e, hb] at hp
    simp only [mkCall_src, mkCall_dst, Option.some.injEq, Prod.mk.injEq] at hp
    exact hnp (Or.inr ⟨hme.symm.trans hp.1.symm, hpeer.symm.trans hp.2.symm⟩)

theorem client_key {me peer : Nat} {c : Client} (hc : getClient s me peer = some c) (hnp : ¬ isPair A B me peer) :
    ¬ isPair A B c.me c.peer := by
  obtain ⟨_, hme, hpeer⟩ := getClient_some hc
  rw [hme, hpeer]; exact hnp

theorem view_liftO (hv : View s A B ia ib p) {me peer : Nat} (hnp : ¬ isPair A B me peer) (f : SigC.State → SigC.State) :
    View (liftClient s me peer f) A B ia ib p := by
  unfold liftClient
  split
  · rename_i c hc
    have hk := client_key hc hnp
    exact hv.otherClient _ (by exact hk)
  · exact hv

theorem view_newClient (hv : View s A B ia ib p) (me peer : Nat) :
    View (SigSys.step s (.newClient me peer)) A B ia ib p := by
  simp only [SigSys.step]
  split
  · exact hv
  · refine hv.frame ?_ ?_ rfl rfl (fun _ _ _ h => h)
    · exact (find?_append_some _ hv.cliA).trans hv.cliA.symm
    · exact (find?_append_some _ hv.cliB).trans hv.cliB.symm

theorem view_disconnectO (hinv : SigSys.Inv s) (hv : View s A B ia ib p) {me peer : Nat} (hnp : ¬ isPair A B me peer) :
    View (SigSys.step s (.disconnect me peer)) A B ia ib p := by
  simp only [SigSys.step]
  split
  · rename_i c hc
    split
    · rename_i id hid
      have hne := other_call_ne hinv hv hc hnp hid
      have hk := client_key hc hnp
      have h1 := hv.otherClient { c with st := SigC.step c.st .close, call := none } (by exact hk)
      split
      · rename_i ch hch
        have hcc := (getChan_some hch).2
        exact h1.otherChan _ (by rw [← hcc] at hne; exact hne.1) (by rw [← hcc] at hne; exact hne.2)
      · exact h1
    · exact hv
  · exact hv

theorem view_clientTxO (hinv : SigSys.Inv s) (hv : View s A B ia ib p) {me peer : Nat} (hnp : ¬ isPair A B me peer) :
    View (SigSys.step s (.clientTx me peer)) A B ia ib p := by
  simp only [SigSys.step]
  split
  · rename_i c hc
    split
    · rename_i id hid
      have hne := other_call_ne hinv hv hc hnp hid
      have hk := client_key hc hnp
      rcases SigC.txLoop c.st with ⟨st', req⟩
      simp only []
      have h1 := hv.otherClient { c with st := st' } (by exact hk)
      split
      · rename_i r ch hch
        have hcc := (getChan_some hch).2
        exact h1.otherChan _ (by rw [← hcc] at hne; exact hne.1) (by rw [← hcc] at hne; exact hne.2)
      · exact h1
    · exact hv
  · exact hv

theorem view_clientRxO (hinv : SigSys.Inv s) (hv : View s A B ia ib p) {me peer : Nat} (hnp : ¬ isPair A B me peer) :
    View (SigSys.step s (.clientRx me peer)) A B ia ib p := by
  simp only [SigSys.step]
  split
  · rename_i c hc
    split
    · rename_i id hid
      have hne := other_call_ne hinv hv hc hnp hid
      have hk := client_key hc hnp
      split
      · rename_i ch hch
        have hcc := (getChan_some hch).2
        split
        · refine View.otherChan (View.otherClient hv _ (by exact hk)) _ ?_ ?_
          · rw [← hcc] at hne; exact hne.1
          · rw [← hcc] at hne; exact hne.2
        · exact hv
      · exact hv
    · exact hv
  · exact hv

theorem view_srvEndO (hv : View s A B ia ib p) {c : Nat} (h1 : c ≠ ia) (h2 : c ≠ ib) :
    View (SigSys.step s (.srvEnd c)) A B ia ib p := by
  simp only [SigSys.step]
  split
  · exact hv.otherSrv (fun _ _ _ h => fr_sEnd h h1 h2)
  · exact hv

theorem view_srvLoopO (hv : View s A B ia ib p) {c : Nat} (h1 : c ≠ ia) (h2 : c ≠ ib) :
    View (SigSys.step s (.srvLoop c)) A B ia ib p := by
  simp only [SigSys.step]
  split
  · exact hv.otherSrv (fun _ _ _ h => fr_sLoop h h1 h2)
  · exact hv

theorem view_srvTxO (hv : View s A B ia ib p) {c : Nat} (h1 : c ≠ ia) (h2 : c ≠ ib) :
    View (SigSys.step s (.srvTx c)) A B ia ib p := by
  simp only [SigSys.step]
  split
  · rename_i sc ch hsc hch
    have hcc := (getChan_some hch).2
    split
    · rename_i r rest hout
      split
      · have h3 : View { s with srv := Sig.step s.srv (.send_ c r) } A B ia ib p :=
          hv.otherSrv (fun _ _ _ h => fr_sTx h h1 h2 r)
        split
        · exact h3.otherChan _ (by rw [← hcc] at h1; exact h1) (by rw [← hcc] at h2; exact h2)
        · exact h3
      · exact hv
    · exact hv
  · exact hv

theorem view_srvRxO (hv : View s A B ia ib p) {c : Nat} (h1 : c ≠ ia) (h2 : c ≠ ib) :
    View (SigSys.step s (.srvRx c)) A B ia ib p := by
  simp only [SigSys.step]
  split
  · rename_i ch sc hch hsc
    have hcc := (getChan_some hch).2
    have hc1 : ch.call ≠ ia := by rw [hcc]; exact h1
    have hc2 : ch.call ≠ ib := by rw [hcc]; exact h2
    split
    · rename_i r rest hc2s
      cases r with
      | send e m =>
        simp only []
        split
        · exact (hv.otherSrv (srv' := Sig.step s.srv (.send c e (toSrvMsg m) true sc.src))
            (fun _ _ _ h => fr_sSend h h1 h2 _ _ _ _)).otherChan _ (by exact hc1) (by exact hc2)
        · exact hv
      | ack e k =>
        simp only []
        split
        · exact (hv.otherSrv (srv' := Sig.step s.srv (.ack c e k))
            (fun _ _ _ h => fr_sAck h h1 h2 _ _)).otherChan _ (by exact hc1) (by exact hc2)
        · exact hv
      | clear e k =>
        simp only []
        split
        · exact (hv.otherSrv (srv' := Sig.step s.srv (.clear c e k))
            (fun _ _ _ h => fr_sClear h h1 h2 _ _)).otherChan _ (by exact hc1) (by exact hc2)
        · exact hv
    · exact hv
  · exact hv

theorem view_connect (hinv : SigSys.Inv s) (hv : View s A B ia ib p) (me peer : Nat) :
    View (SigSys.step s (.connect me peer)) A B ia ib p := by
  simp only [SigSys.step]
  split
  · rename_i c hc
    split
    · exact hv
    · rename_i hno
      have hnp : ¬ isPair A B me peer := by
        rintro (⟨rfl, rfl⟩ | ⟨rfl, rfl⟩)
        · rw [hv.cliA] at hc; cases hc; exact hno rfl
        · rw [hv.cliB] at hc; cases hc; exact hno rfl
      have hk := client_key hc hnp
      split
      · exact hv
      · have hreg := SigReg.inv_of_reachable hinv.srv.reach
        have h1 : View { s with srv := Sig.step s.srv (.init s.nextCall me peer), chans := s.chans ++ [{ call := s.nextCall }], nextCall := s.nextCall + 1 } A B ia ib p := by
          refine hv.frame rfl rfl ?_ ?_ ?_
          · exact (find?_append_some _ hv.chA).trans hv.chA.symm
          · exact (find?_append_some _ hv.chB).trans hv.chB.symm
          · intro sid dtA dtB h
            refine h.fr (fr_sInit h hreg _ _ _ ?_)
            intro e
            exact hnp (sessKey_eq_pair e)
        exact h1.otherClient _ (by exact hk)
  · exact hv

end
end SigPair
end Bifrost
