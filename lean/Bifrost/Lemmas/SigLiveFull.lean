import Bifrost.Lemmas.SigLiveAll
import Bifrost.Lemmas.SigEpoch
import Bifrost.Lemmas.SigLiveBack
/-!
C23 liveness, final assembly: the two facts about the composed system (`SigEpoch.fresh_after_connect`,
`SigLiveBack.live_back`) discharge the hypotheses of `SigLiveAll`:
* `pinv_of_live`: the pair invariant holds of the view of EVERY reachable state in which the two
  trackers hold live relay calls;
* `progress_full`: the C23 liveness statement from an arbitrary point of a stable suffix.
-/
namespace Bifrost
namespace SigLive
open Bifrost.SigSys Bifrost.SigPair Bifrost.Temporal

theorem freshConn : FreshConn := fun hr _ _ _ _ hnone hl => SigEpoch.fresh_after_connect hr hnone hl

theorem back : Back := fun hr e _ _ _ _ hl => SigLiveBack.live_back hr e hl

theorem pinv_of_live {s : SigSys.State} (hr : SigSys.Reachable s) {A B ia ib : Nat} (hl : Live s A B ia ib) :
    ∃ p, View s A B ia ib p ∧ PInv p :=
  pinv_of_live_of freshConn back hr hl

theorem progress_full {σ : Nat → SigSys.State} {ev : Nat → SigSys.Ev} (hex : IsExec SigSys.step σ ev)
    (h0 : SigSys.Reachable (σ 0)) {A B ia ib N : Nat} (hlive : Live (σ N) A B ia ib)
    (hst : StableFrom ev A B ia ib N) (hns : NoNewSends ev A B N) (hfair : Fair σ ev A B ia ib N) :
    (∀ id, SendPending (σ N) A B id → ∃ m, N ≤ m ∧ SendSucceeded (σ m) A B id ∧ SendDelivered (σ m) A B id) ∧
    (∀ id, SendPending (σ N) B A id → ∃ m, N ≤ m ∧ SendSucceeded (σ m) B A id ∧ SendDelivered (σ m) B A id) :=
  progress_full_of freshConn back hex h0 hlive hst hns hfair

end SigLive
end Bifrost
