import Bifrost.Model.Dispatch
import Bifrost.Lemmas.Base58
import Bifrost.Lemmas.Header
/-! C36: specification-side definitions and helper lemmas for the remote lookup state machine and
the component-ID codec. -/
namespace Bifrost
namespace Dispatch

/-! ### what the statements are about -/

/-- Bus contract: a service value ID is never added while it is still live (`live` = the IDs of
the service values currently attached). Removals of unknown IDs and foreign values are allowed. -/
def Fresh : List Nat → List Ev → Prop
  | _, [] => True
  | live, .added id true :: rest => id ∉ live ∧ Fresh (id :: live) rest
  | live, .added _ false :: rest => Fresh live rest
  | live, .removed id :: rest => Fresh (live.erase id) rest
  | live, .idle _ :: rest => Fresh live rest

/-- The providers (service values) attached after a history. -/
def liveAfter : List Nat → List Ev → List Nat
  | live, [] => live
  | live, .added id true :: rest => liveAfter (id :: live) rest
  | live, .added _ false :: rest => liveAfter live rest
  | live, .removed id :: rest => liveAfter (live.erase id) rest
  | live, .idle _ :: rest => liveAfter live rest

/-- The last idle state the bus announced (initially not idle). -/
def idleAfter : Bool → List Ev → Bool
  | cur, [] => cur
  | _, .idle b :: rest => idleAfter b rest
  | cur, _ :: rest => idleAfter cur rest

/-- Reference reporting, phrased on provider *counts*: `Exists` exactly when the count goes 0→1,
`Removed` exactly when it goes 1→0, an idle report exactly when the idle state changes. -/
def specFrom : List Nat → Bool → List Ev → List Msg
  | _, _, [] => []
  | live, idle, .added id true :: rest =>
    (if live.length = 0 then [Msg.mkExists] else []) ++ specFrom (id :: live) idle rest
  | live, idle, .added _ false :: rest => specFrom live idle rest
  | live, idle, .removed id :: rest =>
    if id ∈ live then (if live.length = 1 then [Msg.mkRemoved] else []) ++ specFrom (live.erase id) idle rest
    else specFrom live idle rest
  | live, idle, .idle b :: rest =>
    if b = idle then specFrom live idle rest else Msg.mkIdle b :: specFrom live b rest

/-- Availability reports alternate: `e` says whether the next one must be `Exists`. -/
def alternates : Bool → List Msg → Prop
  | _, [] => True
  | e, m :: rest =>
    if m.exist then e = true ∧ m.removed = false ∧ alternates false rest
    else if m.removed then e = false ∧ alternates true rest
    else alternates e rest

/-- Idle reports only on change: each pure idle report differs from the previous idle state
(`cur`), and availability reports never claim idleness. -/
def idleChanges : Bool → List Msg → Prop
  | _, [] => True
  | cur, m :: rest =>
    if m.exist || m.removed then m.idle = false ∧ idleChanges cur rest
    else m.idle ≠ cur ∧ idleChanges m.idle rest

/-- The receiving side's view of availability (client-resolver.go: `Removed` drops the value,
`Exists` adds it). -/
def clientExists : Bool → List Msg → Bool
  | cur, [] => cur
  | cur, m :: rest => clientExists (if m.removed then false else if m.exist then true else cur) rest

/-- The last idle state reported on the stream. -/
def clientIdle : Bool → List Msg → Bool
  | cur, [] => cur
  | cur, m :: rest => clientIdle (if m.exist || m.removed then cur else m.idle) rest

/-! ### the machine -/

theorem runFrom_cons (s : St) (e : Ev) (rest : List Ev) :
    runFrom s (e :: rest) = ((runFrom (step s e).1 rest).1, (step s e).2 ++ (runFrom (step s e).1 rest).2) := rfl

theorem insertKey_fresh (l : List Nat) (id : Nat) (h : id ∉ l) : insertKey l id = id :: l := by
  unfold insertKey
  have : l.contains id = false := by
    cases hc : l.contains id
    · rfl
    · exact absurd (List.contains_iff_mem.mp hc) h
  simp only [this, Bool.false_eq_true, ↓reduceIte]

theorem contains_false {l : List Nat} {id : Nat} (h : id ∉ l) : l.contains id = false := by
  cases hc : l.contains id
  · rfl
  · exact absurd (List.contains_iff_mem.mp hc) h

theorem contains_true {l : List Nat} {id : Nat} (h : id ∈ l) : l.contains id = true :=
  List.contains_iff_mem.mpr h

/-- Under the bus contract the machine reports exactly the count transitions, and its state is
the set of live providers / the last idle state. -/
theorem runFrom_spec : ∀ (evs : List Ev) (live : List Nat) (idle : Bool), Fresh live evs →
    (runFrom ⟨live, idle⟩ evs).2 = specFrom live idle evs ∧
    (runFrom ⟨live, idle⟩ evs).1 = ⟨liveAfter live evs, idleAfter idle evs⟩
  | [], live, idle, _ => by simp [runFrom, specFrom, liveAfter, idleAfter]
  | .added id true :: rest, live, idle, h => by
    obtain ⟨hf, hr⟩ := h
    have ih := runFrom_spec rest (id :: live) idle hr
    rw [runFrom_cons]
    have hs : step ⟨live, idle⟩ (.added id true) =
        (⟨id :: live, idle⟩, if live.length = 0 then [Msg.mkExists] else []) := by
      simp [step, insertKey_fresh live id hf]
    rw [hs]
    simp only [ih.1, ih.2, specFrom, liveAfter, idleAfter, and_self]
  | .added id false :: rest, live, idle, h => by
    have ih := runFrom_spec rest live idle h
    rw [runFrom_cons]
    have hs : step ⟨live, idle⟩ (.added id false) = (⟨live, idle⟩, []) := by simp [step]
    rw [hs]
    simp only [ih.1, ih.2, specFrom, liveAfter, idleAfter, List.nil_append, and_self]
  | .removed id :: rest, live, idle, h => by
    have ih := runFrom_spec rest (live.erase id) idle h
    rw [runFrom_cons]
    by_cases hm : id ∈ live
    · have hlen : (live.erase id).length = live.length - 1 := List.length_erase_of_mem hm
      have hpos : 0 < live.length := List.length_pos_of_mem hm
      have hs : step ⟨live, idle⟩ (.removed id) =
          (⟨live.erase id, idle⟩, if live.length = 1 then [Msg.mkRemoved] else []) := by
        have e1 : ((live.erase id).length == 0) = decide (live.length = 1) := by
          rw [hlen]
          by_cases h1 : live.length = 1
          · simp [h1]
          · have : live.length - 1 ≠ 0 := by omega
            simp [h1, this]
        simp only [step, contains_true hm, Bool.not_true, Bool.false_eq_true, ↓reduceIte, e1]
        by_cases h1 : live.length = 1 <;> simp [h1]
      rw [hs]
      simp only [ih.1, ih.2, specFrom, liveAfter, idleAfter, hm, ↓reduceIte, and_self]
    · have hs : step ⟨live, idle⟩ (.removed id) = (⟨live, idle⟩, []) := by
        simp only [step, contains_false hm, Bool.not_false, ↓reduceIte]
      have he : live.erase id = live := List.erase_of_not_mem hm
      rw [hs]
      rw [he] at ih
      simp only [ih.1, ih.2, specFrom, liveAfter, idleAfter, hm, ↓reduceIte, he, List.nil_append, and_self]
  | .idle b :: rest, live, idle, h => by
    rw [runFrom_cons]
    by_cases hb : b = idle
    · have ih := runFrom_spec rest live idle h
      have hs : step ⟨live, idle⟩ (.idle b) = (⟨live, idle⟩, []) := by simp [step, hb]
      rw [hs]
      subst hb
      simp only [ih.1, ih.2, specFrom, liveAfter, idleAfter, ↓reduceIte, List.nil_append, and_self]
    · have ih := runFrom_spec rest live b h
      have hs : step ⟨live, idle⟩ (.idle b) = (⟨live, b⟩, [Msg.mkIdle b]) := by simp [step, hb]
      rw [hs]
      simp only [ih.1, ih.2, specFrom, liveAfter, idleAfter, hb, ↓reduceIte, List.singleton_append, and_self]

theorem fresh_tail_added (live : List Nat) (id : Nat) (rest : List Ev) (h : Fresh live (.added id true :: rest)) :
    id ∉ live ∧ Fresh (id :: live) rest := h

/-- The reference reports alternate, starting with `Exists` iff nothing is live. -/
theorem alternates_spec : ∀ (evs : List Ev) (live : List Nat) (idle : Bool),
    alternates live.isEmpty (specFrom live idle evs)
  | [], _, _ => by simp [specFrom, alternates]
  | .added id true :: rest, live, idle => by
    have ih := alternates_spec rest (id :: live) idle
    simp only [specFrom]
    cases live with
    | nil => simpa [alternates, Msg.mkExists] using ih
    | cons x xs => simpa [alternates] using ih
  | .added id false :: rest, live, idle => by
    simpa [specFrom] using alternates_spec rest live idle
  | .removed id :: rest, live, idle => by
    simp only [specFrom]
    by_cases hm : id ∈ live
    · have ih := alternates_spec rest (live.erase id) idle
      simp only [hm, ↓reduceIte]
      have hlen : (live.erase id).length = live.length - 1 := List.length_erase_of_mem hm
      have hne : live.isEmpty = false := by
        cases live with
        | nil => simp at hm
        | cons _ _ => rfl
      by_cases h1 : live.length = 1
      · have he : (live.erase id).isEmpty = true := by
          rw [List.isEmpty_iff]; exact List.eq_nil_of_length_eq_zero (by omega)
        rw [he] at ih
        simp only [h1, ↓reduceIte, List.singleton_append, alternates, Msg.mkRemoved, Bool.false_eq_true, hne, true_and]
        exact ih
      · have he : (live.erase id).isEmpty = false := by
          cases hl : live.erase id with
          | nil =>
            have : (live.erase id).length = 0 := by rw [hl]; rfl
            have hpos : 0 < live.length := List.length_pos_of_mem hm
            omega
          | cons _ _ => rfl
        rw [he] at ih
        simp only [h1, ↓reduceIte, List.nil_append, hne]
        exact ih
    · simp only [hm, ↓reduceIte]
      exact alternates_spec rest live idle
  | .idle b :: rest, live, idle => by
    simp only [specFrom]
    by_cases hb : b = idle
    · simp only [hb, ↓reduceIte]
      exact alternates_spec rest live idle
    · simp only [hb, ↓reduceIte, alternates, Msg.mkIdle, Bool.false_eq_true]
      exact alternates_spec rest live b

/-- Shape of one step: at most one message; only an idle callback changes the idle state. -/
theorem step_cases (s : St) (e : Ev) :
    ((step s e).2 = [] ∧ (step s e).1.resIdle = s.resIdle) ∨
    ((step s e).2 = [Msg.mkExists] ∧ (step s e).1.resIdle = s.resIdle) ∨
    ((step s e).2 = [Msg.mkRemoved] ∧ (step s e).1.resIdle = s.resIdle) ∨
    (∃ b, b ≠ s.resIdle ∧ (step s e).2 = [Msg.mkIdle b] ∧ (step s e).1.resIdle = b) := by
  cases e with
  | added id isSvc =>
    cases isSvc
    · left; simp [step]
    · cases h1 : ((insertKey s.vals id).length == 1)
      · left; simp [step, h1]
      · right; left; simp [step, h1]
  | removed id =>
    cases hc : s.vals.contains id
    · left; simp only [step, hc, Bool.not_false, ↓reduceIte, and_self]
    · cases h0 : ((s.vals.erase id).length == 0)
      · left; simp only [step, hc, Bool.not_true, Bool.false_eq_true, ↓reduceIte, h0, and_self]
      · right; right; left
        simp only [step, hc, Bool.not_true, Bool.false_eq_true, ↓reduceIte, h0, and_self]
  | idle b =>
    by_cases hb : b = s.resIdle
    · left; simp [step, hb]
    · right; right; right
      exact ⟨b, hb, by simp [step, hb], by simp [step, hb]⟩

/-- Idle reports of the machine, for every history (no contract needed). -/
theorem idleChanges_runFrom : ∀ (evs : List Ev) (s : St), idleChanges s.resIdle (runFrom s evs).2
  | [], s => by simp [runFrom, idleChanges]
  | e :: rest, s => by
    rw [runFrom_cons]
    have ih := idleChanges_runFrom rest (step s e).1
    rcases step_cases s e with ⟨h1, h2⟩ | ⟨h1, h2⟩ | ⟨h1, h2⟩ | ⟨b, hb, h1, h2⟩
    · rw [h2] at ih; rw [h1]
      simpa using ih
    · rw [h2] at ih; rw [h1]
      simpa [idleChanges, Msg.mkExists] using ih
    · rw [h2] at ih; rw [h1]
      simpa [idleChanges, Msg.mkRemoved] using ih
    · rw [h2] at ih; rw [h1]
      simp only [List.singleton_append, idleChanges, Msg.mkIdle, Bool.or_self, Bool.false_eq_true, ↓reduceIte]
      exact ⟨hb, ih⟩

/-- The receiver's availability view after the reference reports = "some provider is live". -/
theorem clientExists_spec : ∀ (evs : List Ev) (live : List Nat) (idle : Bool),
    clientExists (!live.isEmpty) (specFrom live idle evs) = !(liveAfter live evs).isEmpty
  | [], _, _ => by simp [specFrom, clientExists, liveAfter]
  | .added id true :: rest, live, idle => by
    have ih := clientExists_spec rest (id :: live) idle
    simp only [specFrom, liveAfter]
    cases live with
    | nil => simpa [clientExists, Msg.mkExists] using ih
    | cons x xs => simpa using ih
  | .added id false :: rest, live, idle => by
    simpa [specFrom, liveAfter] using clientExists_spec rest live idle
  | .removed id :: rest, live, idle => by
    simp only [specFrom, liveAfter]
    by_cases hm : id ∈ live
    · have ih := clientExists_spec rest (live.erase id) idle
      simp only [hm, ↓reduceIte]
      have hlen : (live.erase id).length = live.length - 1 := List.length_erase_of_mem hm
      by_cases h1 : live.length = 1
      · have he : (live.erase id).isEmpty = true := by
          rw [List.isEmpty_iff]; exact List.eq_nil_of_length_eq_zero (by omega)
        rw [he] at ih
        simp only [h1, ↓reduceIte, List.singleton_append, clientExists, Msg.mkRemoved]
        simpa using ih
      · have he : (live.erase id).isEmpty = false := by
          cases hl : live.erase id with
          | nil =>
            have : (live.erase id).length = 0 := by rw [hl]; rfl
            have hpos : 0 < live.length := List.length_pos_of_mem hm
            omega
          | cons _ _ => rfl
        have hne : live.isEmpty = false := by
          cases live with
          | nil => simp at hm
          | cons _ _ => rfl
        rw [he] at ih
        simp only [h1, ↓reduceIte, List.nil_append, hne]
        simpa using ih
    · have he : live.erase id = live := List.erase_of_not_mem hm
      simp only [hm, ↓reduceIte, he]
      exact clientExists_spec rest live idle
  | .idle b :: rest, live, idle => by
    simp only [specFrom, liveAfter]
    by_cases hb : b = idle
    · simp only [hb, ↓reduceIte]
      exact clientExists_spec rest live idle
    · simp only [hb, ↓reduceIte, clientExists, Msg.mkIdle, Bool.false_eq_true]
      exact clientExists_spec rest live b

theorem clientIdle_spec : ∀ (evs : List Ev) (live : List Nat) (idle : Bool),
    clientIdle idle (specFrom live idle evs) = idleAfter idle evs
  | [], _, _ => by simp [specFrom, clientIdle, idleAfter]
  | .added id true :: rest, live, idle => by
    have ih := clientIdle_spec rest (id :: live) idle
    simp only [specFrom, idleAfter]
    by_cases h0 : live.length = 0
    · simpa [h0, clientIdle, Msg.mkExists] using ih
    · simpa [h0] using ih
  | .added id false :: rest, live, idle => by
    simpa [specFrom, idleAfter] using clientIdle_spec rest live idle
  | .removed id :: rest, live, idle => by
    simp only [specFrom, idleAfter]
    by_cases hm : id ∈ live
    · have ih := clientIdle_spec rest (live.erase id) idle
      by_cases h1 : live.length = 1
      · simp only [hm, ↓reduceIte, h1, List.singleton_append, clientIdle, Msg.mkRemoved, Bool.or_true]
        exact ih
      · simp only [hm, ↓reduceIte, h1, List.nil_append]
        exact ih
    · simp only [hm, ↓reduceIte]
      exact clientIdle_spec rest live idle
  | .idle b :: rest, live, idle => by
    simp only [specFrom, idleAfter]
    by_cases hb : b = idle
    · subst hb
      simp only [↓reduceIte]
      exact clientIdle_spec rest live b
    · simp only [hb, ↓reduceIte, clientIdle, Msg.mkIdle, Bool.or_self, Bool.false_eq_true]
      exact clientIdle_spec rest live b

/-! ### component IDs -/

open PW in
theorem decodeLoop_stepReq (n : Nat) (hn : n = 1 ∨ n = 2) (fuel : Nat) (b : Bytes) (hb : b.length < 2 ^ 63)
    (rest : Bytes) (acc : Raw) :
    decodeLoop reqSchema (fuel + 1) (encBytes n b ++ rest) acc =
      decodeLoop reqSchema fuel rest { acc with fields := acc.fields ++ [(n, .bytes b)] } := by
  rw [decodeLoop]
  have hne : (encBytes n b ++ rest).isEmpty = false := by
    simp [encBytes, tag, Pb.append_ne_nil]
  rw [hne]
  rcases hn with rfl | rfl
  · have hd : decodeVarint (encBytes 1 b ++ rest) = .ok (10, Pb.append b.length ++ (b ++ rest)) := by
      have : encBytes 1 b = Pb.append 10 ++ (Pb.append b.length ++ b) := by
        unfold encBytes; rw [List.append_assoc]; rfl
      rw [this, List.append_assoc, decodeVarint_append 10 (by norm_num), List.append_assoc]
    simp only [Bool.false_eq_true, ↓reduceIte, hd]
    have h1 : toInt32 (10 / 8) = 1 := by decide
    have h2 : findSpec reqSchema 1 = some ⟨1, .bytes⟩ := by decide
    simp only [h1, h2]
    rw [takeLen_append b rest hb]
    simp
  · have hd : decodeVarint (encBytes 2 b ++ rest) = .ok (18, Pb.append b.length ++ (b ++ rest)) := by
      have : encBytes 2 b = Pb.append 18 ++ (Pb.append b.length ++ b) := by
        unfold encBytes; rw [List.append_assoc]; rfl
      rw [this, List.append_assoc, decodeVarint_append 18 (by norm_num), List.append_assoc]
    simp only [Bool.false_eq_true, ↓reduceIte, hd]
    have h1 : toInt32 (18 / 8) = 2 := by decide
    have h2 : findSpec reqSchema 2 = some ⟨2, .bytes⟩ := by decide
    simp only [h1, h2]
    rw [takeLen_append b rest hb]
    simp

/-- The fields decoding the canonical request yields. -/
def reqFields (r : Req) : List (Nat × PW.Val) :=
  (if r.serviceId.isEmpty then [] else [(1, .bytes r.serviceId)]) ++
    (if r.serverId.isEmpty then [] else [(2, .bytes r.serverId)])

theorem encBytes_ne_nil' (n : Nat) (b : Bytes) : PW.encBytes n b ≠ [] := by
  simp [PW.encBytes, PW.tag, Pb.append_ne_nil]

theorem decodeLoop_req (fuel : Nat) (r : Req) (h1 : r.serviceId.length < 2 ^ 63) (h2 : r.serverId.length < 2 ^ 63) :
    PW.decodeLoop reqSchema (fuel + 2) r.marshal {} = .ok { fields := reqFields r } := by
  unfold Req.marshal PW.encBytesOpt reqFields
  by_cases e1 : r.serviceId.isEmpty <;> by_cases e2 : r.serverId.isEmpty
  · simp [e1, e2, PW.decodeLoop_nil]
  · simp only [e1, e2, ↓reduceIte, List.nil_append, Bool.false_eq_true]
    have := decodeLoop_stepReq 2 (Or.inr rfl) (fuel + 1) r.serverId h2 [] {}
    rw [List.append_nil] at this
    rw [this, PW.decodeLoop_nil]
    simp
  · simp only [e1, e2, ↓reduceIte, List.append_nil, Bool.false_eq_true]
    have := decodeLoop_stepReq 1 (Or.inl rfl) (fuel + 1) r.serviceId h1 [] {}
    rw [List.append_nil] at this
    rw [this, PW.decodeLoop_nil]
    simp
  · simp only [e1, e2, ↓reduceIte, Bool.false_eq_true]
    rw [decodeLoop_stepReq 1 (Or.inl rfl) (fuel + 1) r.serviceId h1]
    have := decodeLoop_stepReq 2 (Or.inr rfl) fuel r.serverId h2 [] { fields := ({} : PW.Raw).fields ++ [(1, .bytes r.serviceId)] }
    rw [List.append_nil] at this
    rw [this, PW.decodeLoop_nil]
    simp

theorem marshal_eq_nil_iff (r : Req) : r.marshal = [] ↔ r.serviceId = [] ∧ r.serverId = [] := by
  unfold Req.marshal PW.encBytesOpt
  by_cases e1 : r.serviceId = [] <;> by_cases e2 : r.serverId = [] <;>
    simp [e1, e2, encBytes_ne_nil']

theorem reqFields_last (r : Req) :
    (PW.Raw.mk (reqFields r) []).lastBytes 1 = r.serviceId ∧ (PW.Raw.mk (reqFields r) []).lastBytes 2 = r.serverId := by
  unfold PW.Raw.lastBytes reqFields
  by_cases e1 : r.serviceId = [] <;> by_cases e2 : r.serverId = [] <;> simp [e1, e2]

theorem unmarshal_marshal (r : Req) (h1 : r.serviceId.length < 2 ^ 63) (h2 : r.serverId.length < 2 ^ 63) :
    Req.unmarshal r.marshal = some (r, []) := by
  unfold Req.unmarshal PW.decode
  have hd : PW.decodeLoop reqSchema (r.marshal.length + 1) r.marshal {} = .ok { fields := reqFields r } := by
    cases hm : r.marshal with
    | nil =>
      have := (marshal_eq_nil_iff r).mp hm
      simp [PW.decodeLoop_nil, reqFields, this.1, this.2]
    | cons x xs =>
      rw [← hm]
      have : r.marshal.length + 1 = xs.length + 2 := by rw [hm]; simp
      rw [this]
      exact decodeLoop_req xs.length r h1 h2
  rw [hd]
  have := reqFields_last r
  simp only [this.1, this.2]

end Dispatch
end Bifrost
