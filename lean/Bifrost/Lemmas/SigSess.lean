import Bifrost.Lemmas.SigBase
/-! Session-side invariants (C20, C22). -/
namespace Bifrost
end Bifrost
