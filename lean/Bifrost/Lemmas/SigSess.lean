import Bifrost.Model.Signaling
/-! Session-side base lemmas (C20, C22): heap get/set lemmas, frame lemmas. -/
namespace Bifrost
namespace SigSess
open Bifrost.Sig

/-! ### generic list lemmas -/

theorem find?_map_upd {α : Type} (key : α → Nat) (l : List α) (t : α) (id : Nat) :
    (l.map fun x => if key x = key t then t else x).find? (fun x => decide (key x = id)) =
      if id = key t then (if (l.find? (fun x => decide (key x = id))).isSome then some t else none)
      else l.find? (fun x => decide (key x = id)) := by
  induction l with
  | nil => simp
  | cons a l ih =>
    simp only [List.map_cons, List.find?_cons]
    by_cases h1 : key a = key t
    · by_cases h2 : id = key t
      · subst h2; simp [h1]
      · have h3 : ¬ key t = id := fun h => h2 h.symm
        simp [h1, h2, h3, ih]
    · by_cases h2 : key a = id
      · have : ¬ id = key t := fun h => h1 (h2.trans h)
        simp [h2, this]
      · simp [h1, h2, ih]

theorem find?_key_eq {α : Type} (key : α → Nat) (l : List α) (id : Nat) (x : α)
    (h : l.find? (fun x => decide (key x = id)) = some x) : key x = id ∧ x ∈ l := by
  have h1 := List.find?_some h
  have h2 := List.mem_of_find?_eq_some h
  simp at h1
  exact ⟨h1, h2⟩

theorem find?_of_nodup {α : Type} (key : α → Nat) (l : List α) (c : α)
    (hn : (l.map key).Nodup) (hc : c ∈ l) : l.find? (fun x => decide (key x = key c)) = some c := by
  induction l with
  | nil => simp at hc
  | cons a l ih =>
    simp only [List.map_cons, List.nodup_cons] at hn
    simp only [List.find?_cons]
    rcases List.mem_cons.1 hc with h | h
    · subst h; simp
    · have : key a ≠ key c := by
        intro he
        apply hn.1
        rw [he]
        exact List.mem_map_of_mem h
      simp [this, ih hn.2 h]

/-! ### get/set -/

theorem getSess_sid {s : State} {id : Nat} {t : Sess} (h : getSess s id = some t) : t.sid = id :=
  (find?_key_eq Sess.sid _ _ _ h).1

theorem getSCall_id {s : State} {id : Nat} {c : SCall} (h : getSCall s id = some c) : c.id = id :=
  (find?_key_eq SCall.id _ _ _ h).1

theorem getSCall_mem {s : State} {id : Nat} {c : SCall} (h : getSCall s id = some c) : c ∈ s.scalls :=
  (find?_key_eq SCall.id _ _ _ h).2

theorem getSess_setSess (s : State) (t : Sess) (id : Nat) :
    getSess (setSess s t) id =
      if id = t.sid then (if (getSess s id).isSome then some t else none) else getSess s id :=
  find?_map_upd Sess.sid s.sesss t id

theorem getSCall_setSCall (s : State) (c : SCall) (id : Nat) :
    getSCall (setSCall s c) id =
      if id = c.id then (if (getSCall s id).isSome then some c else none) else getSCall s id :=
  find?_map_upd SCall.id s.scalls c id

theorem getSess_setSess_of {s : State} {t t' : Sess} {sid : Nat} (h : getSess s sid = some t)
    (ht' : t'.sid = sid) (id : Nat) :
    getSess (setSess s t') id = if id = sid then some t' else getSess s id := by
  rw [getSess_setSess]; subst ht'
  by_cases h1 : id = t'.sid
  · subst h1; simp [h]
  · simp [h1]

theorem getSCall_setSCall_of {s : State} {c c' : SCall} {cid : Nat} (h : getSCall s cid = some c)
    (hc' : c'.id = cid) (id : Nat) :
    getSCall (setSCall s c') id = if id = cid then some c' else getSCall s id := by
  rw [getSCall_setSCall]; subst hc'
  by_cases h1 : id = c'.id
  · subst h1; simp [h]
  · simp [h1]

theorem getSCall_setSCall_self {s : State} {c c' : SCall} (h : getSCall s c'.id = some c) :
    getSCall (setSCall s c') c'.id = some c' := by
  rw [getSCall_setSCall, h]; simp

/-! ### frame lemmas: which components each primitive touches -/

@[simp] theorem setTkr_sesss (s t) : (setTkr s t).sesss = s.sesss := rfl
@[simp] theorem setTkr_sessMap (s t) : (setTkr s t).sessMap = s.sessMap := rfl
@[simp] theorem setTkr_scalls (s t) : (setTkr s t).scalls = s.scalls := rfl
@[simp] theorem setTkr_accepted (s t) : (setTkr s t).accepted = s.accepted := rfl
@[simp] theorem setTkr_next (s t) : (setTkr s t).next = s.next := rfl

@[simp] theorem setLCall_sesss (s t) : (setLCall s t).sesss = s.sesss := rfl
@[simp] theorem setLCall_sessMap (s t) : (setLCall s t).sessMap = s.sessMap := rfl
@[simp] theorem setLCall_scalls (s t) : (setLCall s t).scalls = s.scalls := rfl
@[simp] theorem setLCall_accepted (s t) : (setLCall s t).accepted = s.accepted := rfl
@[simp] theorem setLCall_next (s t) : (setLCall s t).next = s.next := rfl

@[simp] theorem setSess_sessMap (s t) : (setSess s t).sessMap = s.sessMap := rfl
@[simp] theorem setSess_scalls (s t) : (setSess s t).scalls = s.scalls := rfl
@[simp] theorem setSess_accepted (s t) : (setSess s t).accepted = s.accepted := rfl
@[simp] theorem setSess_next (s t) : (setSess s t).next = s.next := rfl

@[simp] theorem setSCall_sesss (s t) : (setSCall s t).sesss = s.sesss := rfl
@[simp] theorem setSCall_sessMap (s t) : (setSCall s t).sessMap = s.sessMap := rfl
@[simp] theorem setSCall_accepted (s t) : (setSCall s t).accepted = s.accepted := rfl
@[simp] theorem setSCall_next (s t) : (setSCall s t).next = s.next := rfl

@[simp] theorem getSCall_setSess (s t id) : getSCall (setSess s t) id = getSCall s id := rfl
@[simp] theorem getSess_setSCall (s t id) : getSess (setSCall s t) id = getSess s id := rfl
@[simp] theorem getSess_setTkr (s t id) : getSess (setTkr s t) id = getSess s id := rfl
@[simp] theorem getSCall_setTkr (s t id) : getSCall (setTkr s t) id = getSCall s id := rfl
@[simp] theorem getSess_setLCall (s t id) : getSess (setLCall s t) id = getSess s id := rfl
@[simp] theorem getSCall_setLCall (s t id) : getSCall (setLCall s t) id = getSCall s id := rfl

/-- The session-relevant part of the state is unchanged (fresh-id counter may grow). -/
structure SessEq (s s' : State) : Prop where
  sesss : s'.sesss = s.sesss
  sessMap : s'.sessMap = s.sessMap
  scalls : s'.scalls = s.scalls
  accepted : s'.accepted = s.accepted
  next : s.next ≤ s'.next

theorem SessEq.refl (s : State) : SessEq s s := ⟨rfl, rfl, rfl, rfl, Nat.le_refl _⟩

theorem SessEq.trans {a b c : State} (h1 : SessEq a b) (h2 : SessEq b c) : SessEq a c :=
  ⟨h2.sesss.trans h1.sesss, h2.sessMap.trans h1.sessMap, h2.scalls.trans h1.scalls,
   h2.accepted.trans h1.accepted, Nat.le_trans h1.next h2.next⟩

theorem SessEq.getSess {s s' : State} (h : SessEq s s') (id : Nat) : getSess s' id = getSess s id := by
  simp [Sig.getSess, h.sesss]

theorem SessEq.getSCall {s s' : State} (h : SessEq s s') (id : Nat) : getSCall s' id = getSCall s id := by
  simp [Sig.getSCall, h.scalls]

theorem SessEq_setTkr (s t) : SessEq s (setTkr s t) := ⟨rfl, rfl, rfl, rfl, Nat.le_refl _⟩
theorem SessEq_setLCall (s t) : SessEq s (setLCall s t) := ⟨rfl, rfl, rfl, rfl, Nat.le_refl _⟩

theorem SessEq_getPeer (s pid) : SessEq s (getPeer s pid).1 := by
  unfold getPeer
  split
  · split <;> exact SessEq.refl _
  · exact ⟨rfl, rfl, rfl, rfl, Nat.le_succ _⟩

theorem SessEq_maybeReleasePeer (s pid) : SessEq s (maybeReleasePeer s pid) := by
  unfold maybeReleasePeer
  split
  · exact SessEq.refl _
  · split
    · exact SessEq.refl _
    · split
      · exact SessEq.refl _
      · exact ⟨rfl, rfl, rfl, rfl, Nat.le_refl _⟩

theorem SessEq_lReg (s call pid) : SessEq s (lReg s call pid) := by
  unfold lReg
  have h := SessEq_getPeer s pid
  exact ⟨h.sesss, h.sessMap, h.scalls, h.accepted, h.next⟩

theorem SessEq_lLoop (s call w n) : SessEq s ((lLoop s call w n).getD s) := by
  simp only [lLoop]
  repeat' split
  all_goals first | exact SessEq.refl _ | exact SessEq_setLCall _ _

theorem SessEq_lUsurped (s call) : SessEq s ((lUsurped s call).getD s) := by
  unfold lUsurped
  repeat' split
  all_goals first | exact SessEq.refl _ | exact SessEq_setLCall _ _

theorem SessEq_lTx (s call r) : SessEq s ((lTx s call r).getD s) := by
  unfold lTx
  repeat' split
  all_goals first | exact SessEq.refl _ | exact SessEq_setLCall _ _

theorem SessEq_lEnd (s call) : SessEq s (lEnd s call) := by
  simp only [lEnd]
  repeat' split
  all_goals first
    | exact SessEq.refl _
    | exact SessEq_setLCall _ _
    | exact (SessEq_setLCall _ _).trans ((SessEq_setTkr _ _).trans (SessEq_maybeReleasePeer _ _))

end SigSess
end Bifrost
