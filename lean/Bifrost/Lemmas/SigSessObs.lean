import Bifrost.Lemmas.SigSessMain
/-! From the Prop-level per-call invariant to the Bool-valued observations of the model. -/
namespace Bifrost
namespace SigSess
open Bifrost.Sig

theorem wakeOk_of {s : State} {c : SCall} {t : Sess} (ht : getSess s c.sess = some t) (h : WakeCond t c) :
    wakeOk s c = true := by
  unfold wakeOk SCall.isAwake SCall.attached SCall.cur SCall.oursOther
  simp only [ht, SCall.awake]
  rcases h with h | h | h | ⟨o, h1, h2, h3, h4⟩
  · simp [h]
  · simp [h]
  · simp [h]
  · simp only [h1, h2, h3, decide_true, Bool.and_true, Bool.true_and, Bool.or_eq_true]
    right
    rcases h4 with h4 | ⟨h4, h5⟩
    · simp [h4]
    · simp [h4, h5]

theorem stale_of {s : State} {c : SCall} {t : Sess} (ht : getSess s c.sess = some t) (h : WakeCond t c)
    (h1 : c.ended = false) (h2 : c.failing = false) :
    c.isAwake s = true ∨ c.outbox ≠ [] ∨ c.announced = c.cur s := by
  unfold SCall.isAwake SCall.cur
  simp only [ht, SCall.awake]
  rcases h with h | h | h | ⟨o, _, _, h3, _⟩
  · rw [h1] at h; cases h
  · rw [h2] at h; cases h
  · left; simpa using h
  · right; right; exact h3

theorem forwardOk_of {s : State} {c : SCall}
    (h : ∀ m, Resp.recv m ∈ c.outbox → ∃ e, c.announced = some e ∧ Acc s c e m) : forwardOk s c = true := by
  unfold forwardOk
  rw [List.all_eq_true]
  intro r hr
  cases r with
  | recv m =>
    obtain ⟨e, he, ha⟩ := h m hr
    simp only [he]
    exact ha
  | _ => rfl

theorem storedOk_of {s : State} {c : SCall} {t : Sess} (ht : getSess s c.sess = some t)
    (h : ∀ o m, (t.sides c.isA).1 = some o → o.call = c.id → o.recv = some m → Acc s c t.seqno m) :
    storedOk s c = true := by
  unfold storedOk SCall.oursOther
  simp only [ht]
  cases ho : (t.sides c.isA).1 with
  | none => rfl
  | some o =>
    simp only []
    split
    · rename_i hcall
      cases hr : o.recv with
      | none => rfl
      | some m =>
        have := h o m ho hcall hr
        unfold Acc at this
        rw [getSess_sid ht]
        exact this
    · rfl

theorem loop_announces' {s : State} {c : SCall} {t : Sess} {ours : Att}
    (hc : getSCall s c.id = some c) (ht : getSess s c.sess = some t)
    (ho : (t.sides c.isA).1 = some ours) (hcall : ours.call = c.id)
    (hne : c.announced ≠ c.cur s) (hempty : c.outbox = []) :
    ∃ c', getSCall (sLoop s c.id) c.id = some c' ∧ c'.announced = c.cur s ∧
      c'.outbox.head? = some (match c.cur s with | some e => Resp.opened e | none => Resp.closed) := by
  rcases hs : t.sides c.isA with ⟨o1, o2⟩
  rw [hs] at ho
  simp only [] at ho
  subst ho
  have hu : (ours.call != c.id) = false := by simp [hcall]
  simp only [sLoop, hc, ht, hs, SCall.cur, hu] at hne ⊢
  cases o2 with
  | none =>
    simp only [Option.isSome_none, Bool.false_eq_true, if_false, Option.isNone_none, if_true] at hne ⊢
    refine ⟨_, getSCall_setSCall_self hc, rfl, ?_⟩
    simp [hempty, hne]
  | some other =>
    simp only [Option.isSome_some, if_true, Option.isNone_some, Bool.false_eq_true, if_false] at hne ⊢
    refine ⟨_, getSCall_setSCall_self (s := setSess s _) hc, rfl, ?_⟩
    simp [hempty, hne]

end SigSess
end Bifrost
