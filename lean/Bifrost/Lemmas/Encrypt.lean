import Bifrost.Model.Encrypt
import Bifrost.Lemmas.EncryptLo
/-! Reasoning principles for the `Prog` skeletons of `Bifrost.Encrypt`. -/
namespace Bifrost.Encrypt
open Bifrost Bifrost.Lo25519 Bifrost.Gen.EdBlacklist

theorem rows_len : ∀ r ∈ rows, r.length = 32 := by decide
theorem rows_ne : rows ≠ [] := by decide

@[simp] theorem run_done (P : Prims) (a : α) : (Prog.done a).run P = a := rfl
@[simp] theorem run_ask (P : Prims) (r : Req) (k : Option Bytes → Prog α) :
    (Prog.ask r k).run P = (k (P r)).run P := rfl

/-! ### when is the result `ok v` -/

theorem need_ok (P : Prims) (o : Option Bytes) (k : Bytes → Prog (Outcome α)) (v : α) :
    (need o k).run P = .ok v ↔ ∃ b, o = some b ∧ (k b).run P = .ok v := by
  cases o <;> simp [need]

theorem orErr_ok (P : Prims) (o : Option Bytes) (k : Bytes → Prog (Outcome α)) (v : α) :
    (orErr o k).run P = .ok v ↔ ∃ b, o = some b ∧ (k b).run P = .ok v := by
  cases o <;> simp [orErr]

theorem askE_ok (P : Prims) (r : Req) (k : Bytes → Prog (Outcome α)) (v : α) :
    (askE r k).run P = .ok v ↔ ∃ b, P r = some b ∧ (k b).run P = .ok v := by
  unfold askE
  rw [run_ask, orErr_ok]

theorem bindO_ok (P : Prims) (o : Outcome Bytes) (k : Bytes → Prog (Outcome α)) (v : α) :
    (bindO o k).run P = .ok v ↔ ∃ b, o = .ok b ∧ (k b).run P = .ok v := by
  cases o <;> simp [bindO]

theorem failIf_ok (P : Prims) (c : Prop) [Decidable c] (k : Prog (Outcome α)) (v : α) :
    (failIf c k).run P = .ok v ↔ ¬ c ∧ k.run P = .ok v := by
  unfold failIf
  by_cases h : c <;> simp [h]

theorem panicIf_ok (P : Prims) (c : Prop) [Decidable c] (k : Prog (Outcome α)) (v : α) :
    (panicIf c k).run P = .ok v ↔ ¬ c ∧ k.run P = .ok v := by
  unfold panicIf
  by_cases h : c <;> simp [h]

theorem done_ok (P : Prims) (a v : α) : (Prog.done (Outcome.ok a)).run P = .ok v ↔ a = v := by
  simp

/-- `PublicKeyToCurve25519` inside a skeleton = the stand-alone model of C14. -/
theorem pubToX_ok (P : Prims) (ed : Bytes) (k : Option Bytes → Prog (Outcome α)) (v : α) :
    (pubToX ed k).run P = .ok v ↔
      ∃ o, publicKeyToCurve25519 rows (fun e => P (.edToMont e)) ed = .ok o ∧ (k o).run P = .ok v := by
  unfold pubToX publicKeyToCurve25519
  cases h : isEdLowOrder rows ed with
  | panic => simp
  | err => simp
  | ok b => cases b <;> simp

/-- the conversion as a plain function of the answers -/
def toX (P : Prims) (ed : Bytes) : Outcome (Option Bytes) :=
  publicKeyToCurve25519 rows (fun e => P (.edToMont e)) ed

theorem toX_some (P : Prims) (ed u : Bytes) (h : toX P ed = .ok (some u)) : P (.edToMont ed) = some u := by
  unfold toX publicKeyToCurve25519 at h
  cases hl : isEdLowOrder rows ed with
  | panic => simp [hl] at h
  | err => simp [hl] at h
  | ok b =>
    cases b with
    | true => simp [hl] at h
    | false => simpa [hl] using h

/-! ### when can the result be `panic` -/

/-- the program does not panic over `P` -/
def NP (P : Prims) (p : Prog (Outcome α)) : Prop := p.run P ≠ .panic

theorem np_ok (P : Prims) (a : α) : NP P (Prog.done (Outcome.ok a)) := by simp [NP]
theorem np_err (P : Prims) : NP P (Prog.done (Outcome.err : Outcome α)) := by simp [NP]

theorem np_need (P : Prims) (o : Option Bytes) (k : Bytes → Prog (Outcome α)) (b : Bytes)
    (ho : o = some b) (hk : NP P (k b)) : NP P (need o k) := by
  subst ho; exact hk

theorem np_orErr (P : Prims) (o : Option Bytes) (k : Bytes → Prog (Outcome α))
    (hk : ∀ b, o = some b → NP P (k b)) : NP P (orErr o k) := by
  cases o with
  | none => simp [orErr, NP]
  | some b => exact hk b rfl

theorem np_askE (P : Prims) (r : Req) (k : Bytes → Prog (Outcome α))
    (hk : ∀ b, P r = some b → NP P (k b)) : NP P (askE r k) := by
  unfold askE NP
  rw [run_ask]
  exact np_orErr P _ k hk

theorem np_bindO (P : Prims) (o : Outcome Bytes) (k : Bytes → Prog (Outcome α))
    (ho : o ≠ .panic) (hk : ∀ b, o = .ok b → NP P (k b)) : NP P (bindO o k) := by
  cases o with
  | panic => exact absurd rfl ho
  | err => simp [bindO, NP]
  | ok b => exact hk b rfl

theorem np_failIf (P : Prims) (c : Prop) [Decidable c] (k : Prog (Outcome α))
    (hk : ¬ c → NP P k) : NP P (failIf c k) := by
  unfold failIf
  by_cases h : c
  · simp [h, NP]
  · simpa [h] using hk h

theorem np_panicIf (P : Prims) (c : Prop) [Decidable c] (k : Prog (Outcome α))
    (hc : ¬ c) (hk : NP P k) : NP P (panicIf c k) := by
  unfold panicIf
  simpa [hc] using hk

theorem np_pubToX (P : Prims) (ed : Bytes) (k : Option Bytes → Prog (Outcome α))
    (hl : 32 ≤ ed.length) (hk : ∀ o, NP P (k o)) : NP P (pubToX ed k) := by
  unfold pubToX
  rw [isEdLowOrder_eq rows rows_len ed hl]
  cases decide (maskSign ed ∈ rows) with
  | true => exact hk none
  | false => exact hk _

/-! ### slices and the nonce -/

theorem sliceTo_some (b : Bytes) (hi : Nat) (h : hi ≤ b.length) : sliceTo b hi = some (b.take hi) := by
  simp [sliceTo, h]

theorem sliceFrom_some (b : Bytes) (lo : Nat) (h : lo ≤ b.length) : sliceFrom b lo = some (b.drop lo) := by
  simp [sliceFrom, h]

theorem sliceTo_eq_some (b r : Bytes) (hi : Nat) (h : sliceTo b hi = some r) : hi ≤ b.length ∧ r = b.take hi := by
  unfold sliceTo at h
  by_cases hh : hi ≤ b.length
  · simp [hh] at h; exact ⟨hh, h.symm⟩
  · simp [hh] at h

theorem sliceFrom_eq_some (b r : Bytes) (lo : Nat) (h : sliceFrom b lo = some r) : lo ≤ b.length ∧ r = b.drop lo := by
  unfold sliceFrom at h
  by_cases hh : lo ≤ b.length
  · simp [hh] at h; exact ⟨hh, h.symm⟩
  · simp [hh] at h

/-- a 32-byte hash always yields a 24-byte nonce -/
theorem xorNonce_of_len (h : Bytes) (hl : h.length = 32) : ∃ n, xorNonce h = .ok n ∧ n.length = 24 := by
  unfold xorNonce
  rw [sliceTo_some h 24 (by omega), sliceFrom_some h 24 (by omega)]
  have hx : (h.drop 24).length ≠ 0 := by simp [hl]
  simp only [hx, dite_false]
  exact ⟨_, rfl, by simp [hl]⟩

theorem xorNonce_ok_len (h n : Bytes) (hn : xorNonce h = .ok n) (hl : h.length = 32) : n.length = 24 := by
  obtain ⟨n', h1, h2⟩ := xorNonce_of_len h hl
  rw [hn] at h1
  injection h1 with h1
  rw [h1]; exact h2

theorem copy32_of_len (b : Bytes) (h : b.length = 32) : copy32 b = b := by
  unfold copy32
  rw [h]
  simp [List.take_of_length_le (Nat.le_of_eq h)]

theorem copy32_length (b : Bytes) : (copy32 b).length = 32 := by
  unfold copy32
  simp [List.length_take]
  omega

/-! ### the context xor -/

theorem u8_xor_xor (a b : UInt8) : (a ^^^ b) ^^^ b = a := by
  rw [UInt8.xor_assoc, UInt8.xor_self, UInt8.xor_zero]

theorem xorContext_length (m c : Bytes) : (xorContext m c).length = m.length := by
  unfold xorContext
  split <;> simp

/-- the xor with the (cycled) context is an involution, hence injective in the material -/
theorem xorContext_involutive (m c : Bytes) : xorContext (xorContext m c) c = m := by
  unfold xorContext
  by_cases h0 : c.length = 0
  · simp [h0]
  · simp only [h0, dite_false]
    apply List.ext_getElem
    · simp
    · intro i h1 h2
      simp [u8_xor_xor]

theorem xorContext_injective (m m' c : Bytes) (h : xorContext m c = xorContext m' c) : m = m' := by
  rw [← xorContext_involutive m c, h, xorContext_involutive]

/-! ### sequential composition (`DeriveEd25519Key` after `DeriveKey`) -/

/-- running `p.andThen k` = running `p`, then `k` on its value -/
theorem run_andThen (P : Prims) (p : Prog (Outcome Bytes)) (k : Bytes → Prog (Outcome β)) :
    (p.andThen k).run P =
      match p.run P with
      | .ok b => (k b).run P
      | .err => .err
      | .panic => .panic := by
  induction p with
  | done o => cases o <;> simp [Prog.andThen, bindO]
  | ask r c ih => simp only [Prog.andThen, run_ask]; exact ih (P r)

theorem andThen_ok (P : Prims) (p : Prog (Outcome Bytes)) (k : Bytes → Prog (Outcome β)) (v : β) :
    (p.andThen k).run P = .ok v ↔ ∃ b, p.run P = .ok b ∧ (k b).run P = .ok v := by
  rw [run_andThen]
  cases p.run P <;> simp

theorem np_andThen (P : Prims) (p : Prog (Outcome Bytes)) (k : Bytes → Prog (Outcome β))
    (hp : NP P p) (hk : ∀ b, p.run P = .ok b → NP P (k b)) : NP P (p.andThen k) := by
  unfold NP at *
  rw [run_andThen]
  cases h : p.run P with
  | ok b => exact hk b h
  | err => simp
  | panic => exact absurd h hp

end Bifrost.Encrypt
