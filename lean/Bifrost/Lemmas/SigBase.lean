import Bifrost.Model.Signaling
/-! Base well-formedness invariants of the signaling relay LTS (heap identities unique, maps
point into the heap, `waitGen ≤ gen`, …), shared by C24, C25: primitive "view" lemmas about the
getters/setters of the model. -/
namespace Bifrost
namespace SigReg
open Bifrost.Sig

/-! ### generic list lemmas -/

theorem find?_map_upd {α : Type} (key : α → Nat) (l : List α) (t : α) (x : Nat) :
    (l.map fun y => if key y = key t then t else y).find? (fun y => decide (key y = x))
      = if x = key t then (l.find? (fun y => decide (key y = x))).map (fun _ => t)
        else l.find? (fun y => decide (key y = x)) := by
  induction l with
  | nil => simp
  | cons a l ih =>
    simp only [List.map_cons, List.find?_cons]
    grind

theorem map_key_map_upd {α : Type} (key : α → Nat) (l : List α) (t : α) :
    (l.map fun y => if key y = key t then t else y).map key = l.map key := by
  induction l with
  | nil => simp
  | cons a l ih => simp only [List.map_cons, ih]; grind

theorem find?_key_none {α κ : Type} [DecidableEq κ] (key : α → κ) (l : List α) (x : κ) :
    l.find? (fun y => decide (key y = x)) = none ↔ x ∉ l.map key := by
  simp [List.find?_eq_none]

theorem find?_key_mem {α κ : Type} [DecidableEq κ] (key : α → κ) (l : List α) (h : (l.map key).Nodup) (a : α) (ha : a ∈ l) :
    l.find? (fun y => decide (key y = key a)) = some a := by
  induction l with
  | nil => simp at ha
  | cons b l ih =>
    simp only [List.map_cons, List.nodup_cons] at h
    simp only [List.find?_cons]
    grind

theorem find?_key_some {α κ : Type} [DecidableEq κ] (key : α → κ) (l : List α) (x : κ) (a : α)
    (h : l.find? (fun y => decide (key y = x)) = some a) : key a = x ∧ a ∈ l := by
  have h1 := List.find?_some h
  have h2 := List.mem_of_find?_eq_some h
  simp at h1
  exact ⟨h1, h2⟩

theorem find?_key_append_fresh {α κ : Type} [DecidableEq κ] (key : α → κ) (l : List α) (a : α) (x : κ)
    (h : l.find? (fun y => decide (key y = key a)) = none) :
    (l ++ [a]).find? (fun y => decide (key y = x))
      = if x = key a then some a else l.find? (fun y => decide (key y = x)) := by
  simp only [List.find?_append, List.find?_cons, List.find?_nil]
  by_cases hx : x = key a
  · subst hx; simp [h]
  · have : ¬ key a = x := fun h => hx h.symm
    simp [hx, this]

theorem find?_key_filter_ne {α κ : Type} [DecidableEq κ] (key : α → κ) (l : List α) (k x : κ) :
    (l.filter (fun y => decide (key y ≠ k))).find? (fun y => decide (key y = x))
      = if x = k then none else l.find? (fun y => decide (key y = x)) := by
  induction l with
  | nil => simp
  | cons a l ih =>
    simp only [List.filter_cons, List.find?_cons]
    grind

theorem mem_insertSorted (x y : Nat) (l : List Nat) : y ∈ insertSorted x l ↔ y = x ∨ y ∈ l := by
  induction l with
  | nil => simp [insertSorted]
  | cons a l ih => simp only [insertSorted]; grind

/-! ### getters -/

theorem getTkr_tid {s : State} {x : Nat} {t : Tkr} (h : getTkr s x = some t) : t.tid = x :=
  (find?_key_some Tkr.tid _ _ _ h).1
theorem getSess_sid {s : State} {x : Nat} {t : Sess} (h : getSess s x = some t) : t.sid = x :=
  (find?_key_some Sess.sid _ _ _ h).1
theorem getSCall_id {s : State} {x : Nat} {t : SCall} (h : getSCall s x = some t) : t.id = x :=
  (find?_key_some SCall.id _ _ _ h).1
theorem getLCall_id {s : State} {x : Nat} {t : LCall} (h : getLCall s x = some t) : t.id = x :=
  (find?_key_some LCall.id _ _ _ h).1
theorem getSCall_mem {s : State} {x : Nat} {t : SCall} (h : getSCall s x = some t) : t ∈ s.scalls :=
  (find?_key_some SCall.id _ _ _ h).2
theorem getLCall_mem {s : State} {x : Nat} {t : LCall} (h : getLCall s x = some t) : t ∈ s.lcalls :=
  (find?_key_some LCall.id _ _ _ h).2

theorem mem_getSCall {s : State} (h : (s.scalls.map (·.id)).Nodup) {c : SCall} (hc : c ∈ s.scalls) :
    getSCall s c.id = some c := find?_key_mem SCall.id _ h c hc
theorem mem_getLCall {s : State} (h : (s.lcalls.map (·.id)).Nodup) {c : LCall} (hc : c ∈ s.lcalls) :
    getLCall s c.id = some c := find?_key_mem LCall.id _ h c hc
theorem mem_lookupPeer {s : State} (h : (s.peerMap.map (·.1)).Nodup) {p x : Nat} (hc : (p, x) ∈ s.peerMap) :
    lookupPeer s p = some x := by
  have := find?_key_mem Prod.fst _ h (p, x) hc
  simp only [lookupPeer]
  simp at this
  simp [this]

theorem getTkr_congr {s s' : State} (h : s'.tkrs = s.tkrs) (x : Nat) : getTkr s' x = getTkr s x := by
  simp [getTkr, h]
theorem getSess_congr {s s' : State} (h : s'.sesss = s.sesss) (x : Nat) : getSess s' x = getSess s x := by
  simp [getSess, h]
theorem getSCall_congr {s s' : State} (h : s'.scalls = s.scalls) (x : Nat) : getSCall s' x = getSCall s x := by
  simp [getSCall, h]
theorem getLCall_congr {s s' : State} (h : s'.lcalls = s.lcalls) (x : Nat) : getLCall s' x = getLCall s x := by
  simp [getLCall, h]
theorem lookupPeer_congr {s s' : State} (h : s'.peerMap = s.peerMap) (x : Nat) : lookupPeer s' x = lookupPeer s x := by
  simp [lookupPeer, h]
theorem lookupSess_congr {s s' : State} (h : s'.sessMap = s.sessMap) (x : Nat × Nat) : lookupSess s' x = lookupSess s x := by
  simp [lookupSess, h]

/-! ### setters -/

@[simp, grind =] theorem getTkr_setTkr (s : State) (t : Tkr) (x : Nat) :
    getTkr (setTkr s t) x = if x = t.tid then (getTkr s x).map (fun _ => t) else getTkr s x :=
  find?_map_upd Tkr.tid s.tkrs t x
@[simp, grind =] theorem getSess_setSess (s : State) (t : Sess) (x : Nat) :
    getSess (setSess s t) x = if x = t.sid then (getSess s x).map (fun _ => t) else getSess s x :=
  find?_map_upd Sess.sid s.sesss t x
@[simp, grind =] theorem getSCall_setSCall (s : State) (t : SCall) (x : Nat) :
    getSCall (setSCall s t) x = if x = t.id then (getSCall s x).map (fun _ => t) else getSCall s x :=
  find?_map_upd SCall.id s.scalls t x
@[simp, grind =] theorem getLCall_setLCall (s : State) (t : LCall) (x : Nat) :
    getLCall (setLCall s t) x = if x = t.id then (getLCall s x).map (fun _ => t) else getLCall s x :=
  find?_map_upd LCall.id s.lcalls t x

@[simp] theorem scalls_ids_setSCall (s : State) (t : SCall) :
    (setSCall s t).scalls.map (·.id) = s.scalls.map (·.id) := map_key_map_upd SCall.id s.scalls t
@[simp] theorem lcalls_ids_setLCall (s : State) (t : LCall) :
    (setLCall s t).lcalls.map (·.id) = s.lcalls.map (·.id) := map_key_map_upd LCall.id s.lcalls t

@[simp, grind =] theorem getSess_setTkr (s : State) (t : Tkr) (x : Nat) : getSess (setTkr s t) x = getSess s x := rfl
@[simp, grind =] theorem getSCall_setTkr (s : State) (t : Tkr) (x : Nat) : getSCall (setTkr s t) x = getSCall s x := rfl
@[simp, grind =] theorem getLCall_setTkr (s : State) (t : Tkr) (x : Nat) : getLCall (setTkr s t) x = getLCall s x := rfl
@[simp, grind =] theorem lookupPeer_setTkr (s : State) (t : Tkr) (x : Nat) : lookupPeer (setTkr s t) x = lookupPeer s x := rfl
@[simp, grind =] theorem lookupSess_setTkr (s : State) (t : Tkr) (x : Nat × Nat) : lookupSess (setTkr s t) x = lookupSess s x := rfl
@[simp, grind =] theorem peerMap_setTkr (s : State) (t : Tkr) : (setTkr s t).peerMap = s.peerMap := rfl
@[simp, grind =] theorem sesss_setTkr (s : State) (t : Tkr) : (setTkr s t).sesss = s.sesss := rfl
@[simp, grind =] theorem sessMap_setTkr (s : State) (t : Tkr) : (setTkr s t).sessMap = s.sessMap := rfl
@[simp, grind =] theorem scalls_setTkr (s : State) (t : Tkr) : (setTkr s t).scalls = s.scalls := rfl
@[simp, grind =] theorem lcalls_setTkr (s : State) (t : Tkr) : (setTkr s t).lcalls = s.lcalls := rfl
@[simp, grind =] theorem next_setTkr (s : State) (t : Tkr) : (setTkr s t).next = s.next := rfl
@[simp, grind =] theorem accepted_setTkr (s : State) (t : Tkr) : (setTkr s t).accepted = s.accepted := rfl
@[simp, grind =] theorem getTkr_setSess (s : State) (t : Sess) (x : Nat) : getTkr (setSess s t) x = getTkr s x := rfl
@[simp, grind =] theorem getSCall_setSess (s : State) (t : Sess) (x : Nat) : getSCall (setSess s t) x = getSCall s x := rfl
@[simp, grind =] theorem getLCall_setSess (s : State) (t : Sess) (x : Nat) : getLCall (setSess s t) x = getLCall s x := rfl
@[simp, grind =] theorem lookupPeer_setSess (s : State) (t : Sess) (x : Nat) : lookupPeer (setSess s t) x = lookupPeer s x := rfl
@[simp, grind =] theorem lookupSess_setSess (s : State) (t : Sess) (x : Nat × Nat) : lookupSess (setSess s t) x = lookupSess s x := rfl
@[simp, grind =] theorem tkrs_setSess (s : State) (t : Sess) : (setSess s t).tkrs = s.tkrs := rfl
@[simp, grind =] theorem peerMap_setSess (s : State) (t : Sess) : (setSess s t).peerMap = s.peerMap := rfl
@[simp, grind =] theorem sessMap_setSess (s : State) (t : Sess) : (setSess s t).sessMap = s.sessMap := rfl
@[simp, grind =] theorem scalls_setSess (s : State) (t : Sess) : (setSess s t).scalls = s.scalls := rfl
@[simp, grind =] theorem lcalls_setSess (s : State) (t : Sess) : (setSess s t).lcalls = s.lcalls := rfl
@[simp, grind =] theorem next_setSess (s : State) (t : Sess) : (setSess s t).next = s.next := rfl
@[simp, grind =] theorem accepted_setSess (s : State) (t : Sess) : (setSess s t).accepted = s.accepted := rfl
@[simp, grind =] theorem getTkr_setSCall (s : State) (t : SCall) (x : Nat) : getTkr (setSCall s t) x = getTkr s x := rfl
@[simp, grind =] theorem getSess_setSCall (s : State) (t : SCall) (x : Nat) : getSess (setSCall s t) x = getSess s x := rfl
@[simp, grind =] theorem getLCall_setSCall (s : State) (t : SCall) (x : Nat) : getLCall (setSCall s t) x = getLCall s x := rfl
@[simp, grind =] theorem lookupPeer_setSCall (s : State) (t : SCall) (x : Nat) : lookupPeer (setSCall s t) x = lookupPeer s x := rfl
@[simp, grind =] theorem lookupSess_setSCall (s : State) (t : SCall) (x : Nat × Nat) : lookupSess (setSCall s t) x = lookupSess s x := rfl
@[simp, grind =] theorem tkrs_setSCall (s : State) (t : SCall) : (setSCall s t).tkrs = s.tkrs := rfl
@[simp, grind =] theorem peerMap_setSCall (s : State) (t : SCall) : (setSCall s t).peerMap = s.peerMap := rfl
@[simp, grind =] theorem sesss_setSCall (s : State) (t : SCall) : (setSCall s t).sesss = s.sesss := rfl
@[simp, grind =] theorem sessMap_setSCall (s : State) (t : SCall) : (setSCall s t).sessMap = s.sessMap := rfl
@[simp, grind =] theorem lcalls_setSCall (s : State) (t : SCall) : (setSCall s t).lcalls = s.lcalls := rfl
@[simp, grind =] theorem next_setSCall (s : State) (t : SCall) : (setSCall s t).next = s.next := rfl
@[simp, grind =] theorem accepted_setSCall (s : State) (t : SCall) : (setSCall s t).accepted = s.accepted := rfl
@[simp, grind =] theorem getTkr_setLCall (s : State) (t : LCall) (x : Nat) : getTkr (setLCall s t) x = getTkr s x := rfl
@[simp, grind =] theorem getSess_setLCall (s : State) (t : LCall) (x : Nat) : getSess (setLCall s t) x = getSess s x := rfl
@[simp, grind =] theorem getSCall_setLCall (s : State) (t : LCall) (x : Nat) : getSCall (setLCall s t) x = getSCall s x := rfl
@[simp, grind =] theorem lookupPeer_setLCall (s : State) (t : LCall) (x : Nat) : lookupPeer (setLCall s t) x = lookupPeer s x := rfl
@[simp, grind =] theorem lookupSess_setLCall (s : State) (t : LCall) (x : Nat × Nat) : lookupSess (setLCall s t) x = lookupSess s x := rfl
@[simp, grind =] theorem tkrs_setLCall (s : State) (t : LCall) : (setLCall s t).tkrs = s.tkrs := rfl
@[simp, grind =] theorem peerMap_setLCall (s : State) (t : LCall) : (setLCall s t).peerMap = s.peerMap := rfl
@[simp, grind =] theorem sesss_setLCall (s : State) (t : LCall) : (setLCall s t).sesss = s.sesss := rfl
@[simp, grind =] theorem sessMap_setLCall (s : State) (t : LCall) : (setLCall s t).sessMap = s.sessMap := rfl
@[simp, grind =] theorem scalls_setLCall (s : State) (t : LCall) : (setLCall s t).scalls = s.scalls := rfl
@[simp, grind =] theorem next_setLCall (s : State) (t : LCall) : (setLCall s t).next = s.next := rfl
@[simp, grind =] theorem accepted_setLCall (s : State) (t : LCall) : (setLCall s t).accepted = s.accepted := rfl

end SigReg
end Bifrost
