import Bifrost.Model.Signaling
/-! Base well-formedness invariants of the signaling relay LTS (heap identities unique, maps
point into the heap, `waitGen ≤ gen`, …), shared by C20, C22, C24, C25. -/
namespace Bifrost
end Bifrost
