import Bifrost.Lemmas.SigRegListen
/-! `getSession` specification; `init` preserves the invariant. -/
namespace Bifrost
namespace SigReg
open Bifrost.Sig

theorem sInit_views_inv {s s' : State} (hinv : Inv s) (call src dst : Nat) (dt dt' : Tkr) (t t3 : Sess) (newc : SCall)
    (hfs : getSCall s call = none) (hne : src ≠ dst)
    (hdpid : dt.pid = dst)
    (hdold : (lookupPeer s dst = some dt.tid ∧ getTkr s dt.tid = some dt) ∨
      (lookupPeer s dst = none ∧ getTkr s dt.tid = none ∧ dt = { tid := s.next, pid := dst }))
    (hd' : dt'.tid = dt.tid ∧ dt'.pid = dt.pid ∧ dt'.listening = dt.listening ∧ dt'.nonce = dt.nonce ∧
      (∀ w, w ∈ dt'.wants ↔ w = src ∨ w ∈ dt.wants) ∧ dt.gen ≤ dt'.gen ∧ (dt' = dt ∨ dt.gen < dt'.gen))
    (htkey : (t.a, t.b) = (sessKey src dst).1)
    (htold : (lookupSess s (sessKey src dst).1 = some t.sid ∧ getSess s t.sid = some t) ∨
      (lookupSess s (sessKey src dst).1 = none ∧ getSess s t.sid = none ∧ ∀ b, oursCall t b = none))
    (ht3 : t3.sid = t.sid ∧ t3.a = t.a ∧ t3.b = t.b ∧ (∀ b, oursCall t3 b = if b = (sessKey src dst).2 then some call else oursCall t b) ∧ t3.gen = t.gen + 1)
    (hnc : newc.id = call ∧ newc.src = src ∧ newc.dst = dst ∧ newc.sess = t.sid ∧ newc.dstTkr = dt.tid ∧
      newc.waitGen = t.gen ∧ newc.ended = false ∧ newc.failing = false)
    (vtk : ∀ x, getTkr s' x = if x = dt.tid then some dt' else getTkr s x)
    (vpm : ∀ p, lookupPeer s' p = if p = dst then some dt.tid else lookupPeer s p)
    (vss : ∀ x, getSess s' x = if x = t.sid then some t3 else getSess s x)
    (vsm : ∀ k, lookupSess s' k = if k = (sessKey src dst).1 then some t.sid else lookupSess s k)
    (vsc : ∀ x, getSCall s' x = if x = call then some newc else getSCall s x)
    (vlc : ∀ x, getLCall s' x = getLCall s x)
    (hnx : s.next ≤ s'.next) (hdlt : dt.tid < s'.next) (htlt : t.sid < s'.next)
    (hpmNd : (s'.peerMap.map (·.1)).Nodup) (hscNd : (s'.scalls.map (·.id)).Nodup) (hlcNd : (s'.lcalls.map (·.id)).Nodup) :
    Inv s' := by
  have hisA : newc.isA = (sessKey src dst).2 := by simp [SCall.isA, hnc]
  have hsrc : src ∈ dt'.wants := (hd'.2.2.2.2.1 src).2 (Or.inl rfl)
  have hours : oursCall t3 (sessKey src dst).2 = some call := by simp [ht3.2.2.2.1]
  constructor
  · have := hinv.tkLt; grind
  · have := hinv.ssLt; grind
  · have := hinv.pmTk; grind
  · have := hinv.smSs; grind
  · exact hpmNd
  · exact hscNd
  · exact hlcNd
  · have := hinv.tkIn; grind
  · have := hinv.pmLive; have := hinv.pmTk; grind
  · have := hinv.lsnr; grind
  · have := hinv.lcTk; grind
  · have := hinv.lcUniq; grind
  · have := hinv.lcRepl;  have := hinv.lcTk; grind
  · have := hinv.lcQ;  have := hinv.lcTk; grind
  · have := hinv.ssIn; grind
  · have := hinv.smLive; grind
  · have := hinv.attC; grind
  · have := hinv.scOk; grind
  · have := hinv.scRepl; have := hinv.scOk; grind
  · have A1 : Attd s' newc := by
      refine ⟨t3, ?_, ?_⟩
      · simp [vss, hnc]
      · rw [hisA, hours, hnc.1]
    have A2 : ∀ i c, getSCall s i = some c → (Attd s' c ↔ Attd s c ∧ ¬(c.sess = t.sid ∧ c.isA = (sessKey src dst).2)) := by
      intro i c hc
      have hci := getSCall_id hc
      have := hinv.scOk _ _ hc
      unfold Attd
      grind
    have A3 : ∀ i c, getSCall s i = some c → c.sess = t.sid → c.isA = (sessKey src dst).2 → c.src = src ∧ c.dst = dst := by
      intro i c hc h1 h2
      have := hinv.scOk _ _ hc
      apply sessKey_inj
      · grind
      · exact h2
    have A4 : ∀ i c, getSCall s i = some c → i ≠ call := by grind
    have hw := hinv.wants
    have h1 := hinv.scOk
    have h2 := hinv.tkIn
    clear hisA hours ht3 htold htkey vss vsm
    intro x tk w htk
    rw [vtk] at htk
    constructor
    · intro hmem
      by_cases hxd : x = dt.tid
      · simp only [hxd, if_true, Option.some.injEq] at htk
        subst htk
        rcases (hd'.2.2.2.2.1 w).1 hmem with hws | hwd
        · exact ⟨call, newc, by simp [vsc], hnc.2.2.2.2.2.2.1, A1, by rw [hws]; exact hnc.2.1, by rw [hxd]; exact hnc.2.2.2.2.1⟩
        · have hdt : getTkr s dt.tid = some dt := by grind
          obtain ⟨i, c, hc, he, ha, hsw, hx⟩ := (hw _ _ w hdt).1 hwd
          by_cases hrep : c.sess = t.sid ∧ c.isA = (sessKey src dst).2
          · have := A3 _ _ hc hrep.1 hrep.2
            exact ⟨call, newc, by simp [vsc], hnc.2.2.2.2.2.2.1, A1, by grind, by grind⟩
          · exact ⟨i, c, by rw [vsc, if_neg (A4 _ _ hc)]; exact hc, he, (A2 _ _ hc).2 ⟨ha, hrep⟩, hsw, by rw [hxd]; exact hx⟩
      · simp only [hxd, if_false] at htk
        obtain ⟨i, c, hc, he, ha, hsw, hx⟩ := (hw _ _ w htk).1 hmem
        by_cases hrep : c.sess = t.sid ∧ c.isA = (sessKey src dst).2
        · exfalso
          have h3 := A3 _ _ hc hrep.1 hrep.2
          obtain ⟨_, _, dt0, hdt0, hdp⟩ := h1 _ _ hc
          rw [hx, htk] at hdt0
          have hne' : tk.wants ≠ [] := by intro h; rw [h] at hmem; simp at hmem
          have h4 := h2 _ _ htk (Or.inr hne')
          simp only [Option.some.injEq] at hdt0
          subst hdt0
          rw [hdp, h3.2] at h4
          rcases hdold with h5 | h5
          · rw [h5.1] at h4; simp at h4; exact hxd h4.symm
          · rw [h5.1] at h4; simp at h4
        · exact ⟨i, c, by rw [vsc, if_neg (A4 _ _ hc)]; exact hc, he, (A2 _ _ hc).2 ⟨ha, hrep⟩, hsw, hx⟩
    · rintro ⟨i, c, hc, he, ha, hsw, hx⟩
      rw [vsc] at hc
      by_cases hic : i = call
      · simp only [hic, if_true, Option.some.injEq] at hc
        subst hc
        grind
      · simp only [hic, if_false] at hc
        have ha' := ((A2 _ _ hc).1 ha).1
        have := h1 _ _ hc
        grind

structure SessGot (s : State) (k : Nat × Nat) (s1 : State) (t : Sess) : Prop where
  ss : ∀ x, getSess s1 x = if x = t.sid then some t else getSess s x
  sm : ∀ k', lookupSess s1 k' = if k' = k then some t.sid else lookupSess s k'
  tk : s1.tkrs = s.tkrs
  pm : s1.peerMap = s.peerMap
  sc : s1.scalls = s.scalls
  lc : s1.lcalls = s.lcalls
  acc : s1.accepted = s.accepted
  nx : s.next ≤ s1.next
  tlt : t.sid < s1.next
  key : (t.a, t.b) = k
  old : (lookupSess s k = some t.sid ∧ getSess s t.sid = some t) ∨
    (lookupSess s k = none ∧ getSess s t.sid = none ∧ t = { sid := s.next, a := k.1, b := k.2 })

theorem getSession_spec {s : State}
    (hsm : ∀ k x, lookupSess s k = some x → ∃ t, getSess s x = some t ∧ (t.a, t.b) = k)
    (hlt : ∀ x t, getSess s x = some t → x < s.next) (k : Nat × Nat) :
    SessGot s k (getSession s k).1 (getSession s k).2 := by
  unfold getSession
  cases hl : lookupSess s k with
  | some sid =>
    obtain ⟨t, ht, htk⟩ := hsm _ _ hl
    have htid := getSess_sid ht
    simp only [ht]
    constructor <;> try simp
    · grind
    · grind
    · exact hlt _ _ (htid ▸ ht)
    · exact htk
    · grind
  | none =>
    have hfresh : getSess s s.next = none := by
      cases h : getSess s s.next with
      | none => rfl
      | some t => have := hlt _ _ h; omega
    simp only []
    constructor <;> try simp
    · intro x
      simp only [getSess] at hfresh ⊢
      have := find?_key_append_fresh Sess.sid s.sesss { sid := s.next, a := k.1, b := k.2 } x (by simpa using hfresh)
      simpa using this
    · intro a b
      simp only [lookupSess] at hl ⊢
      have := find?_key_append_fresh Prod.fst s.sessMap (k, s.next) (a, b) (by simpa using hl)
      simp at this
      simp [this]
      split <;> simp
    · exact Or.inr ⟨hl, hfresh⟩

theorem sInit_inv {s : State} (hinv : Inv s) (call src dst : Nat)
    (hen : enabled s (.init call src dst) = true) : Inv (sInit s call src dst) := by
  simp only [enabled, Bool.and_eq_true, Option.isNone_iff_eq_none, decide_eq_true_eq] at hen
  obtain ⟨⟨⟨⟨hfs, hfl⟩, hne⟩, _⟩, _⟩ := hen
  have hp := getPeer_spec hinv dst
  unfold sInit
  generalize getPeer s dst = r at hp
  obtain ⟨s1, dt, ex⟩ := r
  simp only [] at hp ⊢
  generalize hdt' : (if src ∈ dt.wants then dt else ({ dt with wants := insertSorted src dt.wants } : Tkr).bcast) = dt'
  generalize hs2 : (if src ∈ dt.wants then s1 else setTkr s1 ({ dt with wants := insertSorted src dt.wants } : Tkr).bcast) = s2
  have h2tk : ∀ x, getTkr s2 x = if x = dt.tid then some dt' else getTkr s x := by
    intro x; subst hs2 hdt'
    split
    · rw [hp.tk]
    · simp [hp.tk, Tkr.bcast]; grind
  have h2pm : ∀ x, lookupPeer s2 x = lookupPeer s1 x := by intro x; subst hs2; split <;> rfl
  have h2ss : ∀ x, getSess s2 x = getSess s x := by intro x; subst hs2; split <;> exact getSess_congr hp.ss x
  have h2sm : ∀ x, lookupSess s2 x = lookupSess s x := by intro x; subst hs2; split <;> exact lookupSess_congr hp.sm x
  have h2sc : s2.scalls = s.scalls := by subst hs2; split <;> exact hp.sc
  have h2lc : s2.lcalls = s.lcalls := by subst hs2; split <;> exact hp.lc
  have h2nx : s2.next = s1.next := by subst hs2; split <;> rfl
  have h2pmm : s2.peerMap = s1.peerMap := by subst hs2; split <;> rfl
  generalize hk : sessKey src dst = kk
  obtain ⟨k, isA⟩ := kk
  have hk1 : (sessKey src dst).1 = k := by rw [hk]
  have hk2 : (sessKey src dst).2 = isA := by rw [hk]
  simp only []
  have hg := getSession_spec (s := s2) (by intro k x; rw [h2sm, h2ss]; simpa [h2ss] using hinv.smSs k x)
    (by intro x t; rw [h2ss, h2nx]; intro h; have := hinv.ssLt _ _ h; have := hp.nx; omega) k
  generalize getSession s2 k = r2 at hg
  obtain ⟨s3, t⟩ := r2
  simp only [] at hg ⊢
  have key : ∀ (t3 : Sess) (newc : SCall),
      (t3.sid = t.sid ∧ t3.a = t.a ∧ t3.b = t.b ∧
        (∀ b, oursCall t3 b = if b = (sessKey src dst).2 then some call else oursCall t b) ∧ t3.gen = t.gen + 1) →
      (newc.id = call ∧ newc.src = src ∧ newc.dst = dst ∧ newc.sess = t.sid ∧ newc.dstTkr = dt.tid ∧
        newc.waitGen = t.gen ∧ newc.ended = false ∧ newc.failing = false) →
      Inv { setSess s3 t3 with scalls := (setSess s3 t3).scalls ++ [newc] } := by
    intro t3 newc ht3 hnc
    have hsc3 : s3.scalls = s.scalls := by rw [hg.sc, h2sc]
    refine sInit_views_inv hinv call src dst dt dt' t t3 newc hfs (by simpa using hne) hp.tpid ?_ ?_ ?_ ?_ ht3 hnc
      ?vtk ?vpm ?vss ?vsm ?vsc ?vlc ?_ ?_ ?_ ?_ ?_ ?_
    case vtk => intro x; show getTkr s3 x = _; rw [getTkr_congr hg.tk, h2tk]
    case vpm => intro x; show lookupPeer s3 x = _; rw [lookupPeer_congr hg.pm, h2pm, hp.pm]
    case vss =>
      intro x; show getSess (setSess s3 t3) x = _
      simp [hg.ss, ht3.1, h2ss]; grind
    case vsm => intro x; show lookupSess s3 x = _; rw [hg.sm, hk1, h2sm]
    case vsc =>
      intro x
      show List.find? _ ((setSess s3 t3).scalls ++ [newc]) = _
      simp only [getSCall, scalls_setSess, hsc3] at hfs ⊢
      have := find?_key_append_fresh SCall.id s.scalls newc x (by rw [hnc.1]; simpa using hfs)
      rw [hnc.1] at this
      simpa using this
    case vlc => intro x; show getLCall s3 x = _; rw [getLCall_congr hg.lc, getLCall_congr h2lc]
    · rcases hp.old with h | h
      · exact Or.inl h.2
      · exact Or.inr h.2
    · subst hdt'
      split
      · rename_i h; simp; exact h
      · simp [Tkr.bcast, mem_insertSorted]
    · rw [hk1]; exact hg.key
    · rw [hk1]
      rcases hg.old with h | h
      · left; rw [← h2sm, ← h2ss]; exact h
      · right; rw [← h2sm, ← h2ss]; refine ⟨h.1, h.2.1, ?_⟩
        rw [h.2.2]; intro b; cases b <;> rfl
    · show s.next ≤ s3.next
      have := hg.nx; have := hp.nx; omega
    · show dt.tid < s3.next
      have := hg.nx; have := hp.tlt; omega
    · exact hg.tlt
    · show (s3.peerMap.map _).Nodup
      rw [hg.pm, h2pmm]; exact hp.nd
    · show ((s3.scalls ++ [newc]).map SCall.id).Nodup
      rw [hsc3, List.map_append, List.nodup_append]
      refine ⟨hinv.scNd, by simp, ?_⟩
      have := (getSCall_none_iff s call).1 hfs
      simp at this ⊢
      grind
    · show (s3.lcalls.map _).Nodup
      rw [hg.lc, h2lc]; exact hinv.lcNd
  refine key _ _ ?_ ?_
  · rw [hk2]
    cases isA <;> simp [Sess.setSides, Sess.bcast, oursCall, Sess.sides, Function.comp_def]
  · simp
    cases isA <;> simp [Sess.setSides]

end SigReg
end Bifrost
