import Bifrost.Lemmas.DialSysStep
/-! The controller sections seen from the link dialers: which links a section flushes
(`flushedBy`), and where a created link is on its way into the controller tables (`EstPhase`).
Helper lemmas for C05Sys. -/
namespace Bifrost
namespace DialSys
open Links (Link)

/-! ### `flushedBy` names exactly the links a section removes -/

/-- `HandleLinkLost(l)` flushes (at most) the link object `l` itself, with `hasNextLink = false`. -/
theorem flushedBy_lost {c : Links.State} {l el : Link} {hn : Bool} {nx : Option Link}
    (h : (el, hn, nx) ∈ flushedBy c (.lost l)) : el ∈ c.links ∧ el.id = l.id ∧ hn = false := by
  simp only [flushedBy] at h
  split at h
  · rename_i el0 hlk
    split at h
    · rename_i hid
      simp only [List.mem_singleton, Prod.mk.injEq] at h
      obtain ⟨rfl, rfl, rfl⟩ := h
      exact ⟨(Links.lookup_some hlk).1, hid, rfl⟩
    · split at h
      · rename_i el' hf
        simp only [List.mem_singleton, Prod.mk.injEq] at h
        obtain ⟨rfl, rfl, rfl⟩ := h
        exact ⟨(Links.findId_some hf).1, (Links.findId_some hf).2, rfl⟩
      · cases h
  · split at h
    · rename_i el' hf
      simp only [List.mem_singleton, Prod.mk.injEq] at h
      obtain ⟨rfl, rfl, rfl⟩ := h
      exact ⟨(Links.findId_some hf).1, (Links.findId_some hf).2, rfl⟩
    · cases h

/-- `HandleLinkEstablished(l)` flushes (at most) the other link object registered under the uuid
of `l`, with `hasNextLink = true`. -/
theorem flushedBy_est {c : Links.State} {l el : Link} {hn : Bool} {nx : Option Link}
    (h : (el, hn, nx) ∈ flushedBy c (.est l)) :
    el ∈ c.links ∧ el.uuid = l.uuid ∧ el.id ≠ l.id ∧ hn = true := by
  simp only [flushedBy] at h
  split at h
  · cases h
  · split at h
    · cases h
    · split at h
      · rename_i el0 hlk
        split at h
        · cases h
        · rename_i hid
          simp only [List.mem_singleton, Prod.mk.injEq] at h
          obtain ⟨rfl, rfl, rfl⟩ := h
          exact ⟨(Links.lookup_some hlk).1, (Links.lookup_some hlk).2, hid, rfl⟩
      · cases h

/-- every link that leaves `c.links` in a `HandleLinkLost` section went through `flushEstablishedLink` -/
theorem removed_flushed_lost {c : Links.State} (hnd : (c.links.map (·.uuid)).Nodup) (l x : Link)
    (hx : x ∈ c.links) (hgone : x ∉ (Links.step c (.lost l)).links) :
    (x, false, none) ∈ flushedBy c (.lost l) := by
  have key : ∀ el ∈ c.links, x ∉ (Links.flush c el).links → x = el := by
    intro el hel hg
    simp only [Links.flush, List.mem_filter, decide_eq_true_eq, not_and, Classical.not_not] at hg
    exact Links.inj_of_nodup_map (fun (y : Link) => y.uuid) hnd x hx el hel (hg hx)
  simp only [Links.step] at hgone
  simp only [flushedBy]
  have byId : ∀ (o : Option Link), (∀ el', o = some el' → el' ∈ c.links) →
      x ∉ (match o with
        | some el' => Links.flush c el'
        | none => c).links →
      (x, false, none) ∈ (match o with
        | some el' => [(el', false, (none : Option Link))]
        | none => []) := by
    intro o ho hg
    cases o with
    | some el' => rw [key el' (ho el' rfl) hg]; exact List.mem_singleton.2 rfl
    | none => exact absurd hx hg
  cases hlk : Links.lookup c l.uuid with
  | some el =>
    simp only [hlk] at hgone ⊢
    by_cases hid : el.id = l.id
    · rw [if_pos hid] at hgone ⊢
      rw [key el (Links.lookup_some hlk).1 hgone]; exact List.mem_singleton.2 rfl
    · rw [if_neg hid] at hgone ⊢
      exact byId _ (fun el' h => (Links.findId_some h).1) hgone
  | none =>
    simp only [hlk] at hgone ⊢
    exact byId _ (fun el' h => (Links.findId_some h).1) hgone

/-- every link that leaves `c.links` in a `HandleLinkEstablished` section went through
`flushEstablishedLink` -/
theorem removed_flushed_est {c : Links.State} (hnd : (c.links.map (·.uuid)).Nodup) (l x : Link)
    (hx : x ∈ c.links) (hgone : x ∉ (Links.step c (.est l)).links) :
    (x, true, some l) ∈ flushedBy c (.est l) := by
  simp only [Links.step] at hgone
  simp only [flushedBy]
  by_cases hr : (!c.running) = true
  · rw [if_pos hr] at hgone; exact absurd hx hgone
  · rw [if_neg hr] at hgone ⊢
    by_cases hself : l.remote = c.localPeer
    · rw [if_pos hself] at hgone; exact absurd hx hgone
    · rw [if_neg hself] at hgone ⊢
      cases hlk : Links.lookup c l.uuid with
      | none =>
        simp only [hlk] at hgone
        exact absurd (List.mem_cons_of_mem _ hx) hgone
      | some el =>
        simp only [hlk] at hgone ⊢
        by_cases hid : el.id = l.id
        · rw [if_pos hid] at hgone; exact absurd hx hgone
        · rw [if_neg hid] at hgone ⊢
          simp only [Links.flush, List.mem_cons, List.mem_filter, decide_eq_true_eq, not_or, not_and,
            Classical.not_not] at hgone
          have : x = el :=
            Links.inj_of_nodup_map (fun (y : Link) => y.uuid) hnd x hx el (Links.lookup_some hlk).1
              (hgone.2 hx)
          rw [this]; exact List.mem_singleton.2 rfl

/-- the flush list of the loss of a link the controller holds is that link -/
theorem flushedBy_lost_of_mem {c : Links.State} (hnd : (c.links.map (·.uuid)).Nodup) {l : Link}
    (hl : l ∈ c.links) : flushedBy c (.lost l) = [(l, false, none)] := by
  simp only [flushedBy]
  cases hlk : Links.lookup c l.uuid with
  | none => exact absurd rfl (Links.lookup_none hlk l hl)
  | some el =>
    have : el = l :=
      Links.inj_of_nodup_map (fun (y : Link) => y.uuid) hnd el (Links.lookup_some hlk).1 l hl
        (Links.lookup_some hlk).2
    subst this
    simp

/-! ### the controller tables of a reachable state -/

theorem ctrl_nd_uuid {q : QuicTable.State} (h : QuicTable.QInv q) : (q.ctrl.links.map (·.uuid)).Nodup := by
  obtain ⟨cops, hc, hwf, _⟩ := h.ctrl_hist
  rw [hc]; exact (Links.inv_run cops hwf).nd_uuid

/-! ### `EstPhase`: a created link is waiting for its `HandleLinkEstablished`, or is in the
controller tables, or the controller has asked to close it -/

def EstPhase (q : QuicTable.State) : Prop :=
  ∀ e ∈ q.created, e.2 ∈ q.pendEst ∨ e.2 ∈ q.ctrl.links ∨ e.2.id ∈ q.ctrl.closed

theorem estPhase_ctrl {q : QuicTable.State} (h : QuicTable.QInv q) (hp : EstPhase q) (op : Links.Op)
    (hop : ∀ x, Links.histLinkOf op = some x → ∃ a, (a, x) ∈ q.created) :
    ∀ e ∈ q.created, e.2 ∈ q.pendEst ∨ e.2 ∈ (Links.step q.ctrl op).links ∨
      e.2.id ∈ (Links.step q.ctrl op).closed := by
  obtain ⟨cops, hc, hwf, hsub⟩ := h.ctrl_hist
  obtain ⟨hwf', _⟩ := QuicTable.wfh_snoc h hsub hop
  obtain ⟨new, hnew, hrem, _⟩ := QuicTable.ctrl_step_closed cops op hwf'
  rw [← hc] at hnew hrem
  intro e he
  rcases hp e he with h1 | h1 | h1
  · exact Or.inl h1
  · by_cases hin : e.2 ∈ (Links.step q.ctrl op).links
    · exact Or.inr (Or.inl hin)
    · refine Or.inr (Or.inr ?_)
      rw [hnew]; exact List.mem_append_left _ (hrem e.2 h1 hin)
  · refine Or.inr (Or.inr ?_)
    rw [hnew]; exact List.mem_append_right _ h1

theorem estPhase_step (U : Nat → Nat → Nat) {q : QuicTable.State} (h : QuicTable.QInv q) (hp : EstPhase q)
    (o : QuicTable.Op) (h1 : o ≠ .shutdown) (h2 : ∀ lp, o ≠ .start lp) :
    EstPhase (QuicTable.step U q o) := by
  cases o with
  | start lp => exact absurd rfl (h2 lp)
  | shutdown => exact absurd rfl h1
  | session a p =>
    intro e he
    simp only [QuicTable.step, QuicTable.stepWith] at he ⊢
    rcases List.mem_cons.1 he with rfl | he
    · exact Or.inl List.mem_cons_self
    · rcases hp e he with h3 | h3 | h3
      · exact Or.inl (List.mem_cons_of_mem _ h3)
      · exact Or.inr (Or.inl h3)
      · exact Or.inr (Or.inr h3)
  | close i =>
    intro e he
    simp only [QuicTable.step, QuicTable.stepWith] at he ⊢
    rw [QuicTable.closeBody_created] at he
    rw [QuicTable.closeBody_pendEst, QuicTable.closeBody_ctrl]
    exact hp e he
  | runClose i =>
    intro e he
    simp only [QuicTable.step, QuicTable.stepWith] at he ⊢
    split at he
    · rw [QuicTable.closeBody_created] at he
      rw [if_pos (by assumption), QuicTable.closeBody_pendEst, QuicTable.closeBody_ctrl]
      exact hp e he
    · rw [if_neg (by assumption)]; exact hp e he
  | runLost a l =>
    intro e he
    simp only [QuicTable.step, QuicTable.stepWith] at he ⊢
    split at he
    · rw [if_pos (by assumption)]; exact hp e he
    · rw [if_neg (by assumption)]; exact hp e he
  | runCtrlLost l =>
    simp only [QuicTable.step, QuicTable.stepWith]
    split
    · rename_i hl
      intro e he
      have hop : ∀ x, Links.histLinkOf (.lost l) = some x → ∃ a, (a, x) ∈ q.created := by
        intro x hx
        simp only [Links.histLinkOf, Option.some.injEq] at hx
        subst hx
        exact h.pcl_cr _ hl
      exact estPhase_ctrl h hp (.lost l) hop e he
    · exact hp
  | runEst l =>
    simp only [QuicTable.step, QuicTable.stepWith]
    split
    · rename_i hl
      have hop : ∀ x, Links.histLinkOf (.est l) = some x → ∃ a, (a, x) ∈ q.created := by
        intro x hx
        simp only [Links.histLinkOf, Option.some.injEq] at hx
        subst hx
        exact h.pe_cr _ hl
      intro e he
      show e.2 ∈ q.pendEst.erase l ∨ e.2 ∈ (Links.step q.ctrl (.est l)).links ∨
        e.2.id ∈ (Links.step q.ctrl (.est l)).closed
      by_cases hel : e.2 = l
      · -- the link being established: accepted into the tables, or rejected and closed
        obtain ⟨cops, hc, hwf, hsub⟩ := h.ctrl_hist
        obtain ⟨hwf', _⟩ := QuicTable.wfh_snoc h hsub hop
        obtain ⟨new, hnew, _, hrej⟩ := QuicTable.ctrl_step_closed cops (.est l) hwf'
        rw [← hc] at hnew hrej
        rw [hel]
        by_cases hc' : q.ctrl.running = false ∨ l.remote = q.ctrl.localPeer
        · refine Or.inr (Or.inr ?_)
          rw [hnew]; exact List.mem_append_left _ (hrej l rfl hc')
        · have hr : q.ctrl.running = true := by
            cases hrr : q.ctrl.running
            · exact absurd (Or.inl hrr) hc'
            · rfl
          have hself : l.remote ≠ q.ctrl.localPeer := fun e => hc' (Or.inr e)
          have := Links.est_mem hwf' (hc ▸ hr) (hc ▸ hself)
          rw [Links.run_snoc, ← hc] at this
          exact Or.inr (Or.inl this)
      · rcases estPhase_ctrl h hp (.est l) hop e he with h3 | h3
        · exact Or.inl ((List.mem_erase_of_ne hel).2 h3)
        · exact Or.inr h3
    · exact hp

theorem estPhase_run (cfg : Cfg) (lp : Nat) (ops : List Op) : EstPhase (run cfg lp ops).q := by
  induction ops using Links.snoc_induction with
  | nil => intro e he; cases he
  | snoc ops op ih =>
    rw [run_snoc]
    rcases step_q_cases cfg lp (run cfg lp ops) op with h | ⟨o, ho, h⟩
    · rw [h]; exact ih
    · rw [h]
      obtain ⟨h1, h2⟩ := qOp_not_ctl _ _ _ _ ho
      exact estPhase_step cfg.U (qinv_run cfg lp ops) ih o h1 h2

end DialSys
end Bifrost
