import Bifrost.Lemmas.SolicitHub
/-!
Parallel and re-established links (`Bifrost.SolicitHub`): two links of a node that end at the SAME
remote node share BOTH directive sets. Side `B`'s directive set of a link is a function of the
`add .B` / `remove .B` ops of that link's projection alone (`bDirs_run`), so two links whose
projections carry the same spoke directive changes hold the same spoke directives.
-/
namespace Bifrost.SolicitHub
open Bifrost Bifrost.Solicit Bifrost.SolicitSys

/-- side `B`'s directive set as link state `s` holds it: (instance id, parameters) -/
def spokeDirs (s : SolicitSys.State) : List (Nat × Dir) := s.b.dirs.map fun x => (x.id, x.d)

/-- directive changes of side `B` -/
def spokeDir : SolicitSys.Op → Bool
  | .add .B _ => true
  | .remove .B _ => true
  | _ => false

/-- the effect of an exchange op on side `B`'s directive set -/
def dirStepB (acc : List (Nat × Dir) × Nat) : SolicitSys.Op → List (Nat × Dir) × Nat
  | .add .B d => (acc.1 ++ [(acc.2, d)], acc.2 + 1)
  | .remove .B id => (acc.1.filter (fun p => p.1 != id), acc.2)
  | _ => acc

theorem dirStepB_of_not_spokeDir (acc : List (Nat × Dir) × Nat) (o : SolicitSys.Op) (h : spokeDir o = false) :
    dirStepB acc o = acc := by
  cases o with
  | add x d => cases x <;> simp_all [spokeDir, dirStepB]
  | remove x id => cases x <;> simp_all [spokeDir, dirStepB]
  | _ => rfl

theorem bDirs_step (H : Bytes → Bytes) (c : Cfg) (s : SolicitSys.State) (o : SolicitSys.Op) :
    (spokeDirs (SolicitSys.step H c s o), (SolicitSys.step H c s o).b.nextDir) =
      dirStepB (spokeDirs s, s.b.nextDir) o := by
  have key : ∀ s' : SolicitSys.State, (∀ y, (s'.node y).dirs = (s.node y).dirs) →
      (∀ y, (s'.node y).nextDir = (s.node y).nextDir) →
      (spokeDirs s', s'.b.nextDir) = (spokeDirs s, s.b.nextDir) := by
    intro s' h1 h2
    have h1 := h1 .B
    have h2 := h2 .B
    simp only [State.node] at h1 h2
    simp [spokeDirs, h1, h2]
  cases o with
  | add x d =>
    cases x
    · simp [SolicitSys.step, spokeDirs, dirStepB, State.setNode, State.node]
    · simp [SolicitSys.step, spokeDirs, dirStepB, State.setNode, State.node]
  | remove x id =>
    cases x
    · simp [SolicitSys.step, spokeDirs, dirStepB, State.setNode, State.node]
    · simp [SolicitSys.step, spokeDirs, dirStepB, State.setNode, State.node, List.filter_map, Function.comp_def]
  | sync x =>
    simp only [dirStepB]
    by_cases he : hashList H c x (s.node x) = (s.node x).sent
    · apply key <;> (intro y; rcases eq_or_other x y with rfl | rfl <;> simp [SolicitSys.step, he])
    · apply key <;> (intro y; rcases eq_or_other x y with rfl | rfl <;> simp [SolicitSys.step, he])
  | deliver x =>
    simp only [dirStepB]
    cases hi : (s.node x).inbox with
    | nil => simp [SolicitSys.step, hi]
    | cons m rest =>
      apply key <;> (intro y; rcases eq_or_other x y with rfl | rfl <;> simp [SolicitSys.step, hi])
  | «open» x hh =>
    simp only [dirStepB]
    by_cases hp : hh ∈ (s.node x).pendingOpen
    · apply key <;> (intro y; rcases eq_or_other x y with rfl | rfl <;> simp [SolicitSys.step, hp])
    · simp [SolicitSys.step, hp]
  | arrive x t =>
    simp only [dirStepB]
    by_cases hp : t ∈ (s.node x).arriving
    · cases hs : s.streams[t]? with
      | none => simp [SolicitSys.step, hp, hs]
      | some sr =>
        apply key <;> (intro y; rcases eq_or_other x y with rfl | rfl <;> simp [SolicitSys.step, hp, hs])
    · simp [SolicitSys.step, hp]

theorem bDirs_runFrom (H : Bytes → Bytes) (c : Cfg) (l : List SolicitSys.Op) :
    ∀ s : SolicitSys.State,
      (spokeDirs (SolicitSys.runFrom H c s l), (SolicitSys.runFrom H c s l).b.nextDir) =
        l.foldl dirStepB (spokeDirs s, s.b.nextDir) := by
  induction l with
  | nil => intro s; rfl
  | cons o rest ih =>
    intro s
    simp only [SolicitSys.runFrom, List.foldl_cons]
    have := ih (SolicitSys.step H c s o)
    simp only [SolicitSys.runFrom] at this
    rw [this, bDirs_step]

/-- only the spoke directive changes of a history matter for side `B`'s directive set -/
theorem foldl_dirStepB_filter (l : List SolicitSys.Op) :
    ∀ acc, l.foldl dirStepB acc = (l.filter spokeDir).foldl dirStepB acc := by
  induction l with
  | nil => intro acc; rfl
  | cons o rest ih =>
    intro acc
    by_cases h : spokeDir o = true
    · simp only [List.foldl_cons, List.filter_cons, h, if_true]
      exact ih _
    · have h' : spokeDir o = false := by simpa using h
      simp only [List.foldl_cons, List.filter_cons, h', dirStepB_of_not_spokeDir _ _ h']
      simpa using ih acc

/-- Side `B`'s directive set (ids, parameters, next id) after a run of the exchange is determined
by the run's spoke directive changes — no configuration, no hash, no other op in it. -/
theorem bDirs_run (H : Bytes → Bytes) (c : Cfg) (l : List SolicitSys.Op) :
    (spokeDirs (SolicitSys.run H c l), (SolicitSys.run H c l).b.nextDir) =
      (l.filter spokeDir).foldl dirStepB ([], 0) := by
  have := bDirs_runFrom H c l {}
  simp only [SolicitSys.run]
  rw [this, foldl_dirStepB_filter]
  rfl

/-! ### A link on which only directive changes have happened is a fresh link -/

/-- directive changes (of either side) -/
def dirChange : SolicitSys.Op → Bool
  | .add _ _ => true
  | .remove _ _ => true
  | _ => false

/-- Nothing was ever offered, received, matched, opened or delivered on the link, and every
directive instance either side holds is `early` (its hash was never on this link's wire). -/
structure Fresh (s : SolicitSys.State) : Prop where
  nothing : ∀ x, (s.node x).everSent = [] ∧ (s.node x).sent = [] ∧ (s.node x).matched = [] ∧
    (s.node x).remote = [] ∧ (s.node x).recv = [] ∧ (s.node x).pendingOpen = [] ∧
    (s.node x).inbox = [] ∧ (s.node x).arriving = [] ∧ (s.node x).closed = []
  early : ∀ x, ∀ i ∈ (s.node x).dirs, i.early = true
  streams : s.streams = []

theorem fresh_init : Fresh ({} : SolicitSys.State) :=
  ⟨fun x => by cases x <;> simp [State.node], fun x i hi => by cases x <;> simp [State.node] at hi, rfl⟩

theorem fresh_step (H : Bytes → Bytes) (c : Cfg) (s : SolicitSys.State) (o : SolicitSys.Op)
    (h : Fresh s) (ho : dirChange o = true) : Fresh (SolicitSys.step H c s o) := by
  cases o with
  | add x d =>
    refine ⟨fun y => ?_, fun y i hi => ?_, by simpa [SolicitSys.step] using h.streams⟩
    · rcases eq_or_other x y with rfl | rfl
      · simpa [SolicitSys.step] using h.nothing y
      · simpa [SolicitSys.step] using h.nothing x.other
    · rcases eq_or_other x y with rfl | rfl
      · simp only [SolicitSys.step, node_setNode_self, List.mem_append, List.mem_singleton] at hi
        rcases hi with hi | rfl
        · exact h.early y i hi
        · simp [(h.nothing y).1]
      · simp only [SolicitSys.step, node_setNode_other] at hi
        exact h.early _ i hi
  | remove x id =>
    refine ⟨fun y => ?_, fun y i hi => ?_, by simpa [SolicitSys.step] using h.streams⟩
    · rcases eq_or_other x y with rfl | rfl
      · simpa [SolicitSys.step] using h.nothing y
      · simpa [SolicitSys.step] using h.nothing x.other
    · rcases eq_or_other x y with rfl | rfl
      · simp only [SolicitSys.step, node_setNode_self, List.mem_filter] at hi
        exact h.early y i hi.1
      · simp only [SolicitSys.step, node_setNode_other] at hi
        exact h.early _ i hi
  | sync x => cases ho
  | deliver x => cases ho
  | «open» x hh => cases ho
  | arrive x t => cases ho

theorem fresh_runFrom (H : Bytes → Bytes) (c : Cfg) (l : List SolicitSys.Op) (hl : ∀ o ∈ l, dirChange o = true) :
    ∀ s, Fresh s → Fresh (SolicitSys.runFrom H c s l) := by
  induction l with
  | nil => intro s h; exact h
  | cons o rest ih =>
    intro s h
    simp only [SolicitSys.runFrom, List.foldl_cons]
    exact ih (fun o' ho' => hl o' (List.mem_cons_of_mem _ ho')) _
      (fresh_step H c s o h (hl o List.mem_cons_self))

theorem fresh_run (H : Bytes → Bytes) (c : Cfg) (l : List SolicitSys.Op) (hl : ∀ o ∈ l, dirChange o = true) :
    Fresh (SolicitSys.run H c l) := fresh_runFrom H c l hl {} fresh_init

/-- what a link's projection consists of -/
theorem mem_projOps (i : Nat) (ops : List SolicitHub.Op) (o : SolicitSys.Op) (ho : o ∈ projOps i ops) :
    (∃ d, o = .add .A d) ∨ (∃ id, o = .remove .A id) ∨ SolicitHub.Op.link i o ∈ ops := by
  simp only [projOps, List.mem_flatMap] at ho
  obtain ⟨p, hp, hm⟩ := ho
  cases p with
  | add d => simp only [proj, List.mem_singleton] at hm; exact .inl ⟨d, hm⟩
  | remove id => simp only [proj, List.mem_singleton] at hm; exact .inr (.inl ⟨id, hm⟩)
  | link k o' =>
    simp only [proj] at hm
    split at hm
    · rename_i h
      simp only [List.mem_singleton] at hm
      subst hm
      exact .inr (.inr (h.1 ▸ hp))
    · cases hm

end Bifrost.SolicitHub
