import Bifrost.Model.Encrypt
import Bifrost.Model.Crypto
import Bifrost.Lemmas.Encrypt
/-!
Hypotheses about the primitives (never axioms): output lengths, and the symbolic laws of the
AEAD, the block cipher, S2 and X25519 under which the C12/C13/C26 theorems are stated. `toyPrims`
is a concrete assignment satisfying all of them, so no theorem is vacuous. No law says that a
fixed-output-length function (KDF, hash, X25519) is injective.
-/
namespace Bifrost.Encrypt
open Bifrost Bifrost.Lo25519

/-- Output lengths of the primitives (documented facts of BLAKE3, Ed25519, SHA-512, AES, X25519). -/
structure LenLaws (P : Prims) : Prop where
  kdf : ∀ d i n b, P (.kdf d i n) = some b → b.length = n
  hash : ∀ i b, P (.hash i) = some b → b.length = 32
  edPub : ∀ s b, P (.edPub s) = some b → b.length = 32
  clamp : ∀ s b, P (.clamp s) = some b → b.length = 64
  mont : ∀ e b, P (.edToMont e) = some b → b.length = 32
  x25519 : ∀ s q b, P (.x25519 s q) = some b → b.length = 32
  blkEnc : ∀ k x b, x.length = 16 → P (.blkEnc k x) = some b → b.length = 16
  blkDec : ∀ k x b, x.length = 16 → P (.blkDec k x) = some b → b.length = 16

/-- Symbolic laws. AEAD: `open` succeeds only on exactly what `seal` produced with the same key,
nonce and associated data, and a sealed box determines all four inputs (ideal integrity /
key-commitment). Block cipher: a permutation of 16-byte blocks for 32-byte keys. S2: lossless.
X25519: both sides of an exchange between converted Ed25519 keys get the same secret. -/
structure CryptoLaws (P : Prims) : Prop where
  open_seal : ∀ k n p a c, P (.seal k n p a) = some c → P (.open k n c a) = some p
  open_only : ∀ k n c a p, P (.open k n c a) = some p → P (.seal k n p a) = some c
  seal_inj : ∀ k n p a k' n' p' a' c, P (.seal k n p a) = some c → P (.seal k' n' p' a') = some c →
    k = k' ∧ n = n' ∧ p = p' ∧ a = a'
  seal_total : ∀ k n p a, k.length = 32 → n.length = 24 → (P (.seal k n p a)).isSome
  blk_dec_enc : ∀ k x e, k.length = 32 → x.length = 16 → P (.blkEnc k x) = some e → P (.blkDec k e) = some x
  blk_enc_dec : ∀ k e x, k.length = 32 → e.length = 16 → P (.blkDec k e) = some x → P (.blkEnc k x) = some e
  blk_total : ∀ k x, k.length = 32 → x.length = 16 → (P (.blkEnc k x)).isSome
  s2_dec_enc : ∀ m c, P (.s2enc m) = some c → P (.s2dec c) = some m
  s2_total : ∀ m, (P (.s2enc m)).isSome
  /-- Diffie–Hellman between the converted forms of two Ed25519 key pairs (seeds `a`, `b`). -/
  dh_sym : ∀ a b A B xa xb ua ub, P (.edPub a) = some A → P (.edPub b) = some B →
    P (.clamp a) = some xa → P (.clamp b) = some xb →
    P (.edToMont A) = some ua → P (.edToMont B) = some ub →
    P (.x25519 (xa.take 32) ub) = P (.x25519 (xb.take 32) ua)
  /-- honest Ed25519 public keys convert (they have prime order: a clamped scalar is never a
  multiple of the group order) -/
  honest_convertible : ∀ s A, P (.edPub s) = some A → ∃ u, toX P A = .ok (some u)
  kdf_total : ∀ d i n, (P (.kdf d i n)).isSome
  clamp_total : ∀ s, (P (.clamp s)).isSome
  edPub_total : ∀ s, s.length = 32 → (P (.edPub s)).isSome

/-! ### a concrete instance -/

def pad (n : Nat) (b : Bytes) : Bytes := (b ++ List.replicate n 0).take n

theorem pad_length (n : Nat) (b : Bytes) : (pad n b).length = n := by
  simp [pad, List.length_take]

def xorB (a b : Bytes) : Bytes := List.zipWith (· ^^^ ·) a b

theorem xorB_comm (a b : Bytes) : xorB a b = xorB b a := by
  unfold xorB
  rw [List.zipWith_comm]
  congr 1
  funext x y
  exact UInt8.xor_comm y x

def toySeal (k n p a : Bytes) : Bytes := Crypto.toySign k (Crypto.toySign n (Crypto.toySign a p))

theorem toySeal_inj (k n p a k' n' p' a' : Bytes) (h : toySeal k n p a = toySeal k' n' p' a') :
    k = k' ∧ n = n' ∧ p = p' ∧ a = a' := by
  unfold toySeal at h
  obtain ⟨h1, h2⟩ := Crypto.toySign_inj _ _ _ _ h
  obtain ⟨h3, h4⟩ := Crypto.toySign_inj _ _ _ _ h2
  obtain ⟨h5, h6⟩ := Crypto.toySign_inj _ _ _ _ h4
  exact ⟨h1, h3, h6, h5⟩

/-- length of the header `toySign` puts in front of the message -/
def hdr (x : Bytes) : Nat := 2 * x.length + 1

theorem toySign_drop (x m : Bytes) : (Crypto.toySign x m).drop (hdr x) = m := by
  unfold Crypto.toySign hdr
  have : (List.replicate x.length (1 : UInt8) ++ [0] ++ x).length = 2 * x.length + 1 := by
    simp; omega
  rw [← this, List.drop_left]

theorem toySeal_drop (k n p a : Bytes) : (((toySeal k n p a).drop (hdr k)).drop (hdr n)).drop (hdr a) = p := by
  unfold toySeal
  rw [toySign_drop, toySign_drop, toySign_drop]

def toyOpen (k n c a : Bytes) : Option Bytes :=
  let p := ((c.drop (hdr k)).drop (hdr n)).drop (hdr a)
  if toySeal k n p a = c then some p else none

def flip5a (b : Bytes) : Bytes := b.map (· ^^^ 0x5a)

theorem flip5a_flip5a (b : Bytes) : flip5a (flip5a b) = b := by
  unfold flip5a
  rw [List.map_map]
  conv => rhs; rw [← List.map_id b]
  congr 1
  funext x
  exact u8_xor_xor x 0x5a

/-- A toy assignment: "keys" are zero-padded inputs, X25519 is xor (commutative), the AEAD box
spells out key, nonce, associated data and plaintext, the block cipher flips bits. -/
def toyPrims : Prims
  | .kdf d i n => some (pad n (i ++ d))
  | .hash i => some (pad 32 i)
  | .edPub s => some (9 :: pad 31 s)
  | .clamp s => some (pad 64 (pad 31 s))
  | .edToMont e => some (pad 32 e.tail)
  | .x25519 s q => some (xorB (pad 32 s) (pad 32 q))
  | .blkEnc _ x => some (flip5a x)
  | .blkDec _ x => some (flip5a x)
  | .seal k n p a => some (toySeal k n p a)
  | .open k n c a => toyOpen k n c a
  | .s2enc m => some m
  | .s2dec c => some c

theorem toy_len : LenLaws toyPrims where
  kdf := by intro d i n b h; simp [toyPrims] at h; rw [← h]; exact pad_length _ _
  hash := by intro i b h; simp [toyPrims] at h; rw [← h]; exact pad_length _ _
  edPub := by intro i b h; simp [toyPrims] at h; rw [← h]; simp [pad_length]
  clamp := by intro i b h; simp [toyPrims] at h; rw [← h]; exact pad_length _ _
  mont := by intro i b h; simp [toyPrims] at h; rw [← h]; exact pad_length _ _
  x25519 := by
    intro s q b h; simp [toyPrims] at h; rw [← h]
    simp [xorB, pad_length]
  blkEnc := by intro k x b hx h; simp [toyPrims] at h; rw [← h]; simpa [flip5a] using hx
  blkDec := by intro k x b hx h; simp [toyPrims] at h; rw [← h]; simpa [flip5a] using hx

theorem pad_eq (n : Nat) (b : Bytes) : pad n b = b.take n ++ List.replicate (n - b.length) 0 := by
  unfold pad
  rw [List.take_append, List.take_replicate]
  congr 2
  omega

theorem pad_pad_take (b : Bytes) : (pad 64 b).take 32 = pad 32 b := by
  rw [pad_eq, pad_eq, List.take_append, List.take_take, List.take_replicate]
  simp only [List.length_take]
  congr 2 <;> omega

theorem pad_pad (b : Bytes) : pad 32 (pad 32 b) = pad 32 b := by
  have h := pad_length 32 b
  rw [pad_eq 32 (pad 32 b), h]
  simp [List.take_of_length_le (Nat.le_of_eq h)]

/-- toy public keys start with byte 9; no blacklist row does, so they always convert -/
theorem toy_toX (s : Bytes) : toX toyPrims (9 :: pad 31 s) = .ok (some (pad 32 (pad 31 s))) := by
  unfold toX publicKeyToCurve25519
  have hl : (9 :: pad 31 s).length = 32 := by simp [pad_length]
  rw [isEdLowOrder_eq _ rows_len _ (by omega)]
  have hm : maskSign (9 :: pad 31 s) ∉ Gen.EdBlacklist.rows := by
    intro hmem
    have hh : ∀ r ∈ Gen.EdBlacklist.rows, r.head? ≠ some 9 := by decide
    apply hh _ hmem
    unfold maskSign
    have : (9 :: pad 31 s)[31]? = some ((9 :: pad 31 s)[31]'(by omega)) := List.getElem?_eq_getElem (by omega)
    rw [this]
    simp
  simp [hm, toyPrims]

theorem toy_crypto : CryptoLaws toyPrims where
  open_seal := by
    intro k n p a c h
    simp only [toyPrims, Option.some.injEq] at h
    subst h
    simp only [toyPrims, toyOpen, toySeal_drop]
    simp
  open_only := by
    intro k n c a p h
    simp only [toyPrims, toyOpen] at h
    split at h
    · rename_i heq
      injection h with h
      rw [← h]
      simp only [toyPrims]
      rw [heq]
    · cases h
  seal_inj := by
    intro k n p a k' n' p' a' c h h'
    simp only [toyPrims, Option.some.injEq] at h h'
    exact toySeal_inj _ _ _ _ _ _ _ _ (h.trans h'.symm)
  seal_total := by intros; rfl
  blk_dec_enc := by
    intro k x e _ _ h
    simp only [toyPrims, Option.some.injEq] at h ⊢
    rw [← h, flip5a_flip5a]
  blk_enc_dec := by
    intro k e x _ _ h
    simp only [toyPrims, Option.some.injEq] at h ⊢
    rw [← h, flip5a_flip5a]
  blk_total := by intros; rfl
  s2_dec_enc := by
    intro m c h
    simp only [toyPrims, Option.some.injEq] at h ⊢
    exact h.symm
  s2_total := by intros; rfl
  dh_sym := by
    intro a b A B xa xb ua ub hA hB hxa hxb hua hub
    simp only [toyPrims, Option.some.injEq] at *
    subst hA hB hxa hxb hua hub
    simp only [List.tail_cons]
    rw [pad_pad_take, pad_pad_take, xorB_comm]
  honest_convertible := by
    intro s A h
    simp only [toyPrims, Option.some.injEq] at h
    subst h
    exact ⟨_, toy_toX s⟩
  kdf_total := by intros; rfl
  clamp_total := by intros; rfl
  edPub_total := by intros; rfl

end Bifrost.Encrypt
