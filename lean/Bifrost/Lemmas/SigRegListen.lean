import Bifrost.Lemmas.SigRegFrame
/-! `getPeer`/`maybeReleasePeer` specifications; `lreg` and `lend` preserve the invariant. -/
namespace Bifrost
namespace SigReg
open Bifrost.Sig

structure PeerGot (s : State) (pid : Nat) (s1 : State) (t : Tkr) (ex : Bool) : Prop where
  tk : ∀ x, getTkr s1 x = if x = t.tid then some t else getTkr s x
  pm : ∀ p, lookupPeer s1 p = if p = pid then some t.tid else lookupPeer s p
  ss : s1.sesss = s.sesss
  sm : s1.sessMap = s.sessMap
  sc : s1.scalls = s.scalls
  lc : s1.lcalls = s.lcalls
  acc : s1.accepted = s.accepted
  nx : s.next ≤ s1.next
  tlt : t.tid < s1.next
  tpid : t.pid = pid
  nd : (s1.peerMap.map (·.1)).Nodup
  old : (ex = true ∧ lookupPeer s pid = some t.tid ∧ getTkr s t.tid = some t) ∨
    (ex = false ∧ lookupPeer s pid = none ∧ getTkr s t.tid = none ∧ t = { tid := s.next, pid := pid })

theorem lookupPeer_none_iff (s : State) (p : Nat) : lookupPeer s p = none ↔ p ∉ s.peerMap.map (·.1) := by
  unfold lookupPeer
  rw [Option.map_eq_none_iff]
  exact find?_key_none Prod.fst s.peerMap p

theorem getPeer_spec {s : State} (hinv : Inv s) (pid : Nat) :
    PeerGot s pid (getPeer s pid).1 (getPeer s pid).2.1 (getPeer s pid).2.2 := by
  unfold getPeer
  cases hl : lookupPeer s pid with
  | some tid =>
    obtain ⟨t, ht, htp⟩ := hinv.pmTk _ _ hl
    have htid := getTkr_tid ht
    simp only [ht]
    constructor <;> try simp
    · grind
    · grind
    · exact hinv.tkLt _ _ (htid ▸ ht)
    · exact htp
    · exact hinv.pmNd
    · grind
  | none =>
    have hfresh : getTkr s s.next = none := by
      cases h : getTkr s s.next with
      | none => rfl
      | some t => have := hinv.tkLt _ _ h; omega
    simp only []
    constructor <;> try simp
    · intro x
      simp only [getTkr] at hfresh ⊢
      have := find?_key_append_fresh Tkr.tid s.tkrs { tid := s.next, pid := pid } x (by simpa using hfresh)
      simpa using this
    · intro p
      simp only [lookupPeer] at hl ⊢
      have := find?_key_append_fresh Prod.fst s.peerMap (pid, s.next) p (by simpa using hl)
      simp at this
      simp [this]
      split <;> simp
    · have := (lookupPeer_none_iff s pid).1 hl
      rw [List.nodup_append]
      refine ⟨hinv.pmNd, by simp, ?_⟩
      simp at this ⊢
      grind
    · exact ⟨hl, hfresh⟩

theorem getLCall_none_iff (s : State) (x : Nat) : getLCall s x = none ↔ x ∉ s.lcalls.map (·.id) :=
  find?_key_none LCall.id s.lcalls x
theorem getSCall_none_iff (s : State) (x : Nat) : getSCall s x = none ↔ x ∉ s.scalls.map (·.id) :=
  find?_key_none SCall.id s.scalls x

theorem lReg_views_inv {s s' : State} (hinv : Inv s) (call pid : Nat) (t t2 : Tkr) (newl : LCall) (ex : Bool)
    (hfl : getLCall s call = none)
    (_ht2tid : t2.tid = t.tid) (ht2pid : t2.pid = pid) (ht2l : t2.listening = true) (ht2w : t2.wants = t.wants)
    (ht2n : t2.nonce = if ex then t.nonce + 1 else t.nonce)
    (ht2g : t2.gen = if ex then t.gen + 1 else t.gen)
    (vtk : ∀ x, getTkr s' x = if x = t.tid then some t2 else getTkr s x)
    (vpm : ∀ x, lookupPeer s' x = if x = pid then some t.tid else lookupPeer s x)
    (vss : ∀ x, getSess s' x = getSess s x)
    (vsm : ∀ x, lookupSess s' x = lookupSess s x)
    (vsc : ∀ x, getSCall s' x = getSCall s x)
    (vlc : ∀ x, getLCall s' x = if x = call then some newl else getLCall s x)
    (hnlf : newl.id = call ∧ newl.pid = pid ∧ newl.tkr = t.tid ∧ newl.myNonce = t2.nonce ∧ newl.waitGen = 0 ∧
      newl.runnable = true ∧ newl.ended = false)
    (hnx : s.next ≤ s'.next) (htlt : t.tid < s'.next)
    (hold : (ex = true ∧ lookupPeer s pid = some t.tid ∧ getTkr s t.tid = some t) ∨
      (ex = false ∧ lookupPeer s pid = none ∧ getTkr s t.tid = none ∧ t = { tid := s.next, pid := pid }))
    (htpid : t.pid = pid)
    (hpmNd : (s'.peerMap.map (·.1)).Nodup) (hscNd : (s'.scalls.map (·.id)).Nodup) (hlcNd : (s'.lcalls.map (·.id)).Nodup) :
    Inv s' := by
  have hatt : ∀ c, Attd s' c ↔ Attd s c := by intro c; simp [Attd, vss]
  constructor
  · have := hinv.tkLt; grind
  · have := hinv.ssLt; grind
  · have := hinv.pmTk; grind
  · have := hinv.smSs; grind
  · exact hpmNd
  · exact hscNd
  · exact hlcNd
  · have := hinv.tkIn; grind
  · have := hinv.pmLive; grind
  · have := hinv.lsnr; grind
  · have := hinv.lcTk; grind
  · have := hinv.lcUniq; have := hinv.lcTk; grind
  · have := hinv.lcRepl;  have := hinv.lcTk; grind
  · have := hinv.lcQ;  have := hinv.lcTk; grind
  · have := hinv.ssIn; grind
  · have := hinv.smLive; grind
  · have := hinv.attC; grind
  · have := hinv.scOk; grind
  · have := hinv.scRepl; grind
  · have := hinv.wants; have := hinv.scOk; grind

theorem lReg_inv {s : State} (hinv : Inv s) (call pid : Nat)
    (hen : enabled s (.lreg call pid) = true) : Inv (lReg s call pid) := by
  simp only [enabled, Bool.and_eq_true, Option.isNone_iff_eq_none, decide_eq_true_eq] at hen
  obtain ⟨⟨_, hfl⟩, _⟩ := hen
  have hp := getPeer_spec hinv pid
  unfold lReg
  generalize getPeer s pid = r at hp
  obtain ⟨s1, t, ex⟩ := r
  simp only [] at hp ⊢
  have hlc' : s1.lcalls = s.lcalls := hp.lc
  refine lReg_views_inv hinv call pid t
    ({ (if ex = true then ({ t with nonce := t.nonce + 1 } : Tkr).bcast else t) with listening := true })
    { id := call, pid := pid, tkr := t.tid, myNonce := (if ex = true then ({ t with nonce := t.nonce + 1 } : Tkr).bcast else t).nonce }
    ex hfl ?_ ?_ ?_ ?_ ?_ ?_ ?vtk ?vpm ?vss ?vsm ?vsc ?vlc ?_ ?_ ?_ hp.old hp.tpid ?_ ?_ ?_
  case vtk =>
    intro x
    show getTkr (setTkr s1 _) x = _
    have : ∀ X : Tkr, (if ex = true then X.bcast else t).tid = (if ex = true then X.tid else t.tid) := by
      intro X; cases ex <;> rfl
    simp [hp.tk, this]; grind
  case vpm => exact hp.pm
  case vss => exact getSess_congr hp.ss
  case vsm => exact lookupSess_congr hp.sm
  case vsc => exact getSCall_congr hp.sc
  case vlc =>
    intro x
    simp only [getLCall, lcalls_setTkr, hlc'] at hfl ⊢
    have := find?_key_append_fresh LCall.id s.lcalls { id := call, pid := pid, tkr := t.tid, myNonce := (if ex = true then ({ t with nonce := t.nonce + 1 } : Tkr).bcast else t).nonce } x (by simpa using hfl)
    simpa using this
  all_goals try (cases ex <;> simp [Tkr.bcast, hp.tpid] <;> done)
  · exact hp.nx
  · exact hp.tlt
  · exact hp.nd
  · show (s1.scalls.map (·.id)).Nodup
    rw [hp.sc]; exact hinv.scNd
  · show ((s1.lcalls ++ [_]).map LCall.id).Nodup
    rw [hlc', List.map_append, List.nodup_append]
    refine ⟨hinv.lcNd, by simp, ?_⟩
    have := (getLCall_none_iff s call).1 hfl
    simp at this ⊢
    grind

structure PeerRel (s : State) (pid : Nat) (s' : State) (tid : Nat) (t : Tkr) : Prop where
  tk : ∀ x, getTkr s' x = if x = tid ∧ ¬(t.listening = true ∨ t.wants ≠ []) then some t.bcast else getTkr s x
  pm : ∀ p, lookupPeer s' p = if p = pid ∧ ¬(t.listening = true ∨ t.wants ≠ []) then none else lookupPeer s p
  ss : s'.sesss = s.sesss
  sm : s'.sessMap = s.sessMap
  sc : s'.scalls = s.scalls
  lc : s'.lcalls = s.lcalls
  acc : s'.accepted = s.accepted
  nx : s'.next = s.next
  nd : (s.peerMap.map (·.1)).Nodup → (s'.peerMap.map (·.1)).Nodup

theorem maybeReleasePeer_spec {s : State} {pid tid : Nat} {t : Tkr}
    (hl : lookupPeer s pid = some tid) (ht : getTkr s tid = some t) :
    PeerRel s pid (maybeReleasePeer s pid) tid t := by
  have htid := getTkr_tid ht
  unfold maybeReleasePeer
  simp only [hl, ht]
  split
  · rename_i h
    constructor <;> simp [h]
  · rename_i h
    constructor <;> try simp [h]
    · intro x
      have e : ∀ y, getTkr { s with peerMap := List.filter (fun x => !decide (x.fst = pid)) s.peerMap } y = getTkr s y := fun _ => rfl
      simp only [e]
      simp [Tkr.bcast, htid]
      grind
    · intro p
      simp only [lookupPeer]
      have := find?_key_filter_ne Prod.fst s.peerMap pid p
      simp at this
      simp [this]
      split <;> simp
    · intro hnd
      show ((s.peerMap.filter _).map _).Nodup
      exact (List.filter_sublist.map _).nodup hnd

theorem lEnd_views_inv {s s' : State} (hinv : Inv s) (call : Nat) (l l' : LCall) (t t'' : Tkr)
    (hl : getLCall s call = some l) (ht : getTkr s l.tkr = some t)
    (hcur : lookupPeer s l.pid = some l.tkr ∧ t.nonce = l.myNonce)
    (hl' : l'.id = call ∧ l'.pid = l.pid ∧ l'.tkr = l.tkr ∧ l'.myNonce = l.myNonce ∧ l'.waitGen = l.waitGen ∧ l'.ended = true ∧ l'.failing = true)
    (ht'' : t''.tid = t.tid ∧ t''.pid = t.pid ∧ t''.listening = false ∧ t''.wants = t.wants ∧ t''.nonce = t.nonce + 1 ∧
      t.gen < t''.gen)
    (vtk : ∀ x, getTkr s' x = if x = l.tkr then some t'' else getTkr s x)
    (vpm : ∀ p, lookupPeer s' p = if p = l.pid ∧ t.wants = [] then none else lookupPeer s p)
    (vss : ∀ x, getSess s' x = getSess s x)
    (vsm : ∀ x, lookupSess s' x = lookupSess s x)
    (vsc : ∀ x, getSCall s' x = getSCall s x)
    (vlc : ∀ x, getLCall s' x = if x = call then some l' else getLCall s x)
    (vnx : s'.next = s.next)
    (hpmNd : (s'.peerMap.map (·.1)).Nodup) (hscNd : (s'.scalls.map (·.id)).Nodup) (hlcNd : (s'.lcalls.map (·.id)).Nodup) :
    Inv s' := by
  have hatt : ∀ c, Attd s' c ↔ Attd s c := by intro c; simp [Attd, vss]
  have htid := getTkr_tid ht
  have hlt := hinv.lcTk _ _ hl
  constructor
  · have := hinv.tkLt; grind
  · have := hinv.ssLt; grind
  · have := hinv.pmTk; grind
  · have := hinv.smSs; grind
  · exact hpmNd
  · exact hscNd
  · exact hlcNd
  · have := hinv.tkIn; grind
  · have := hinv.pmLive; have := hinv.pmTk; grind
  · have := hinv.lsnr; grind
  · intro i l0 h0
    rw [vlc] at h0
    by_cases hi : i = call
    · simp only [hi, if_true, Option.some.injEq] at h0
      subst h0
      refine ⟨t'', by simp [vtk, hl'], ?_⟩
      grind
    · simp only [hi, if_false] at h0
      obtain ⟨t0, h1, h2⟩ := hinv.lcTk _ _ h0
      by_cases hk : l0.tkr = l.tkr
      · refine ⟨t'', by simp [vtk, hk], ?_⟩
        grind
      · exact ⟨t0, by simp [vtk, hk, h1], h2⟩
  · have := hinv.lcUniq; grind
  · have := hinv.lcRepl;  have := hinv.lcTk; grind
  · have := hinv.lcQ;  have := hinv.lcTk; grind
  · have := hinv.ssIn; grind
  · have := hinv.smLive; grind
  · have := hinv.attC; grind
  · have := hinv.scOk; grind
  · have := hinv.scRepl; grind
  · have := hinv.wants; grind

theorem lEnd_noop_inv {s s' : State} (hinv : Inv s) (call : Nat) (l l' : LCall) (t : Tkr)
    (hl : getLCall s call = some l) (ht : getTkr s l.tkr = some t)
    (hcur : ¬ (lookupPeer s l.pid = some l.tkr ∧ t.nonce = l.myNonce))
    (hl' : l'.id = call ∧ l'.pid = l.pid ∧ l'.tkr = l.tkr ∧ l'.myNonce = l.myNonce ∧ l'.waitGen = l.waitGen ∧ l'.ended = true ∧ l'.failing = true)
    (vtk : ∀ x, getTkr s' x = getTkr s x)
    (vpm : ∀ p, lookupPeer s' p = lookupPeer s p)
    (vss : ∀ x, getSess s' x = getSess s x)
    (vsm : ∀ x, lookupSess s' x = lookupSess s x)
    (vsc : ∀ x, getSCall s' x = getSCall s x)
    (vlc : ∀ x, getLCall s' x = if x = call then some l' else getLCall s x)
    (vnx : s'.next = s.next)
    (hpmNd : (s'.peerMap.map (·.1)).Nodup) (hscNd : (s'.scalls.map (·.id)).Nodup) (hlcNd : (s'.lcalls.map (·.id)).Nodup) :
    Inv s' := by
  have hatt : ∀ c, Attd s' c ↔ Attd s c := by intro c; simp [Attd, vss]
  have htid := getTkr_tid ht
  have hlt := hinv.lcTk _ _ hl
  constructor
  · have := hinv.tkLt; grind
  · have := hinv.ssLt; grind
  · have := hinv.pmTk; grind
  · have := hinv.smSs; grind
  · exact hpmNd
  · exact hscNd
  · exact hlcNd
  · have := hinv.tkIn; grind
  · have := hinv.pmLive; grind
  · have := hinv.lsnr; have := hinv.tkIn; grind
  · intro i l0 h0
    rw [vlc] at h0
    by_cases hi : i = call
    · simp only [hi, if_true, Option.some.injEq] at h0
      subst h0
      refine ⟨t, by simp [vtk, hl', ht], ?_⟩
      grind
    · simp only [hi, if_false] at h0
      simpa [vtk] using hinv.lcTk _ _ h0
  · have := hinv.lcUniq; grind
  · have := hinv.lcRepl; grind
  · have := hinv.lcQ; grind
  · have := hinv.ssIn; grind
  · have := hinv.smLive; grind
  · have := hinv.attC; grind
  · have := hinv.scOk; grind
  · have := hinv.scRepl; grind
  · have := hinv.wants; grind

theorem lEnd_inv {s : State} (hinv : Inv s) (call : Nat) : Inv (lEnd s call) := by
  unfold lEnd
  cases hl : getLCall s call with
  | none => exact hinv
  | some l =>
  have hid := getLCall_id hl
  obtain ⟨t, ht, _⟩ := hinv.lcTk _ _ hl
  have htid := getTkr_tid ht
  simp only [lookupPeer_setLCall, getTkr_setLCall, ht]
  have hnoop : ∀ (_ : ¬ (lookupPeer s l.pid = some l.tkr ∧ t.nonce = l.myNonce)),
      Inv (setLCall s { l with ended := true, failing := true, outbox := [], runnable := false }) := by
    intro hcur
    refine lEnd_noop_inv hinv call l { l with ended := true, failing := true, outbox := [], runnable := false } t hl ht hcur ?_ ?_ ?_ ?_ ?_ ?_ ?_ rfl hinv.pmNd hinv.scNd ?_
    · simp [hid]
    all_goals try (intro x; rfl)
    · intro x; simp [hid]; grind
    · rw [lcalls_ids_setLCall]; exact hinv.lcNd
  cases hlp : lookupPeer s l.pid with
  | none => exact hnoop (by simp [hlp])
  | some curTid =>
  simp only []
  split
  · rename_i hcur
    obtain ⟨rfl, hnon⟩ := hcur
    generalize hs0 : setLCall s { l with ended := true, failing := true, outbox := [], runnable := false } = s0
    generalize ht1 : ({ t with nonce := t.nonce + 1, listening := false } : Tkr).bcast = t1
    have hl0 : lookupPeer (setTkr s0 t1) l.pid = some l.tkr := by subst hs0; simpa using hlp
    have ht0 : getTkr (setTkr s0 t1) l.tkr = some t1 := by subst hs0 ht1; simp [Tkr.bcast, htid, ht]
    have hr := maybeReleasePeer_spec hl0 ht0
    have ht1f : t1.tid = t.tid ∧ t1.pid = t.pid ∧ t1.listening = false ∧ t1.wants = t.wants ∧ t1.nonce = t.nonce + 1 ∧ t1.gen = t.gen + 1 := by
      subst ht1; simp [Tkr.bcast]
    refine lEnd_views_inv hinv call l { l with ended := true, failing := true, outbox := [], runnable := false } t
      (if t.wants = [] then t1.bcast else t1) hl ht ⟨hlp, hnon⟩ (by simp [hid]) ?_ ?vtk ?vpm ?vss ?vsm ?vsc ?vlc ?_ ?_ ?_ ?_
    case vtk =>
      intro x; rw [hr.tk]; subst hs0; simp [ht1f, htid]; grind
    case vpm =>
      intro x; rw [hr.pm]; subst hs0; simp [ht1f]
    case vss => intro x; rw [getSess_congr hr.ss]; subst hs0; rfl
    case vsm => intro x; rw [lookupSess_congr hr.sm]; subst hs0; rfl
    case vsc => intro x; rw [getSCall_congr hr.sc]; subst hs0; rfl
    case vlc => intro x; rw [getLCall_congr hr.lc]; subst hs0; simp [hid]; grind
    · split <;> simp [Tkr.bcast, ht1f] <;> omega
    · rw [hr.nx]; subst hs0; rfl
    · apply hr.nd; subst hs0; exact hinv.pmNd
    · rw [hr.sc]; subst hs0; exact hinv.scNd
    · rw [hr.lc]; subst hs0; show ((setLCall s _).lcalls.map _).Nodup; rw [lcalls_ids_setLCall]; exact hinv.lcNd
  · rename_i hcur
    exact hnoop (by simpa [hlp] using hcur)

end SigReg
end Bifrost
