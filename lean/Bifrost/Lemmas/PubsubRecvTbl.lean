import Bifrost.Model.Pubsub
/-! Helper lemmas for `Bifrost.Pubsub.RecvTbl` (`handleSubscriptions` on the whole `peerChannels` table). -/
namespace Bifrost.Pubsub.RecvTbl

@[simp] theorem set_same (t : Tbl) (ch : Nat) (v) : set t ch v ch = v := by simp [set]
@[simp] theorem set_other (t : Tbl) (ch c : Nat) (v) (h : c ≠ ch) : set t ch v c = t c := by simp [set, h]

theorem filter_empty_mem (l : List Nat) (p q : Nat) (hq : q ≠ p)
    (he : (l.filter (· ≠ p)).isEmpty = true) : ¬ q ∈ l := by
  intro hm
  have : q ∈ l.filter (· ≠ p) := by simp [hm, hq]
  rw [List.isEmpty_iff] at he
  rw [he] at this
  cases this

theorem handleOne_other (t : Tbl) (p ch : Nat) (b : Bool) (c q : Nat) (hq : q ≠ p) :
    recorded (handleOne t p ch b) c q = recorded t c q := by
  unfold handleOne
  by_cases h0 : ch = 0
  · simp [h0]
  rw [if_neg h0]
  cases b
  · rw [if_neg (by decide)]
    cases ht : t ch with
    | none => rfl
    | some l =>
      dsimp only
      by_cases he : (l.filter (· ≠ p)).isEmpty = true
      · rw [if_pos he]
        by_cases hc : c = ch
        · subst hc
          have := filter_empty_mem l p q hq he
          simp [recorded, ht, this]
        · simp [recorded, set_other _ _ _ _ hc]
      · rw [if_neg he]
        by_cases hc : c = ch
        · subst hc
          simp [recorded, ht, hq]
        · simp [recorded, set_other _ _ _ _ hc]
  · rw [if_pos rfl]
    cases ht : t ch with
    | none =>
      dsimp only
      by_cases hc : c = ch
      · subst hc
        simp [recorded, ht, hq]
      · simp [recorded, set_other _ _ _ _ hc]
    | some l =>
      dsimp only
      by_cases hm : l.contains p = true
      · rw [if_pos hm]
      · rw [if_neg hm]
        by_cases hc : c = ch
        · subst hc
          simp [recorded, ht, hq]
        · simp [recorded, set_other _ _ _ _ hc]

theorem handle_other (t : Tbl) (p : Nat) (subs : List (Nat × Bool)) (c q : Nat) (hq : q ≠ p) :
    recorded (handle t p subs) c q = recorded t c q := by
  unfold handle
  induction subs generalizing t with
  | nil => rfl
  | cons s rest ih => simp only [List.foldl_cons]; rw [ih, handleOne_other _ _ _ _ _ _ hq]

theorem handleOne_self (t : Tbl) (p ch : Nat) (b : Bool) (h0 : ch ≠ 0) :
    recorded (handleOne t p ch b) ch p = b := by
  unfold handleOne
  rw [if_neg h0]
  cases b
  · rw [if_neg (by decide)]
    cases ht : t ch with
    | none => simp [recorded, ht]
    | some l =>
      dsimp only
      by_cases he : (l.filter (· ≠ p)).isEmpty = true
      · rw [if_pos he]; simp [recorded]
      · rw [if_neg he]; simp [recorded]
  · rw [if_pos rfl]
    cases ht : t ch with
    | none => dsimp only; simp [recorded]
    | some l =>
      dsimp only
      by_cases hm : l.contains p = true
      · rw [if_pos hm]; simp only [recorded, ht]; exact hm
      · rw [if_neg hm]; simp [recorded]

end Bifrost.Pubsub.RecvTbl
