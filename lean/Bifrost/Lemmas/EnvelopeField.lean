import Bifrost.Lemmas.Envelope
import Bifrost.Lemmas.EnvelopeShamir
import Bifrost.Lemmas.EnvelopeCodec
/-!
The envelope theorems for the model instantiated with a Mathlib field: discharges the three
side conditions of `unlock_build` (grant plaintext codec, distinct share IDs, Shamir recovery).
-/
namespace Bifrost
namespace Envelope

section
variable {K : Type} [Field K] [DecidableEq K] (dec : Bytes → Option K) (enc : K → Bytes)

/-- The scalar-field setting of the theorems: a lawful byte codec, and the share IDs `1..n`
are pairwise distinct field elements (characteristic 0 or larger than `n`; for Ristretto255
`n < 2^32 < ℓ`). -/
structure FieldSetting (n : Nat) : Prop where
  codec : CodecLaw (fieldScalars K dec enc)
  ids : ∀ i j : Nat, i ≤ n → j ≤ n → (i : K) = (j : K) → i = j

theorem hcodec_of (hF : CodecLaw (fieldScalars K dec enc)) (l : List (K × K)) :
    decodeInner (encodeInner (l.map (encShare (fieldScalars K dec enc)))) =
      some (l.map (encShare (fieldScalars K dec enc))) := by
  apply decodeInner_encodeInner
  intro s hs
  obtain ⟨x, _, rfl⟩ := List.mem_map.mp hs
  have h1 := hF.encode_len x.1
  have h2 := hF.encode_len x.2
  simp only [encShare]
  constructor <;> omega

theorem hids_of (n : Nat) (hid : ∀ i j : Nat, i ≤ n → j ≤ n → (i : K) = (j : K) → i = j) (cs : List K) :
    ((splitShares (fieldScalars K dec enc) cs n).map (·.1)).Nodup := by
  unfold splitShares
  rw [List.map_map]
  apply List.Nodup.map_on _ List.nodup_range
  intro i hi j hj h
  have hi' := List.mem_range.mp hi
  have hj' := List.mem_range.mp hj
  have := hid (i + 1) (j + 1) (by omega) (by omega) h
  omega

theorem ids_ne_zero (n : Nat) (hid : ∀ i j : Nat, i ≤ n → j ≤ n → (i : K) = (j : K) → i = j) (cs : List K) :
    (splitShares (fieldScalars K dec enc) cs n).any (fun s => decide (s.1 = (fieldScalars K dec enc).zero)) = false := by
  rw [List.any_eq_false]
  intro s hs
  unfold splitShares at hs
  obtain ⟨i, hi, rfl⟩ := List.mem_map.mp hs
  have hi' := List.mem_range.mp hi
  simp only [decide_eq_true_eq]
  intro h0
  have : ((i + 1 : ℕ) : K) = ((0 : ℕ) : K) := by simpa [fieldScalars] using h0
  have := hid (i + 1) 0 (by omega) (by omega) this
  omega

theorem hrec_of (secret : K) (coeff : Nat → K) (t n : Nat) (l : List (K × K))
    (hmem : ∀ s ∈ l, s ∈ splitShares (fieldScalars K dec enc) (polyOf secret coeff t) n)
    (hnd : (l.map (·.1)).Nodup) (hlen : t < l.length) :
    recover (fieldScalars K dec enc) t l = .ok secret := by
  apply recover_on_poly dec enc secret ((List.range t).map coeff) t (by simp) l _ hnd hlen
  intro s hs
  exact splitShares_mem _ _ _ s (hmem s hs)

/-- `unlock_build` over a field. -/
theorem unlock_build_field (P : Prims) (hP : PrimsLaw P)
    (secret : K) (coeff : Nat → K) (nonce ctx payload : Bytes) (keypairs : List Bytes) (cfg : Config) (env : Envelope)
    (hS : FieldSetting dec enc (buildTotal keypairs.length cfg))
    (hb : build P (fieldScalars K dec enc) secret coeff nonce ctx payload keypairs cfg = .ok env)
    (hn : nonce.length = 24) (hw : cfg.totalShares < 2 ^ 32 ∧ cfg.grants.length ≤ 2 ^ 32) (sks : List Bytes) :
    unlock P (fieldScalars K dec enc) ctx env sks =
      if cfg.threshold + 1 ≤ reachCount (canOpen P keypairs sks) cfg.grants (buildTotal keypairs.length cfg)
      then .opened payload (expectedResult P keypairs sks cfg true)
      else .locked (expectedResult P keypairs sks cfg false) :=
  unlock_build P hP _ hS.codec (hcodec_of dec enc hS.codec) secret coeff nonce ctx payload keypairs cfg env hb hn hw
    (hids_of dec enc _ hS.ids _) (fun l hm hnd hl => hrec_of dec enc secret coeff _ _ l hm hnd hl) sks

/-- `unlock_build_ct` over a field. -/
theorem unlock_build_ct_field (P : Prims) (hP : PrimsLaw P)
    (secret : K) (coeff : Nat → K) (nonce ctx payload : Bytes) (keypairs : List Bytes) (cfg : Config) (env : Envelope)
    (hS : FieldSetting dec enc (buildTotal keypairs.length cfg))
    (hb : build P (fieldScalars K dec enc) secret coeff nonce ctx payload keypairs cfg = .ok env)
    (hw : cfg.totalShares < 2 ^ 32 ∧ cfg.grants.length ≤ 2 ^ 32) (sks : List Bytes) (c' : Bytes) :
    unlock P (fieldScalars K dec enc) ctx { env with ciphertext := c' } sks =
      if cfg.threshold + 1 ≤ reachCount (canOpen P keypairs sks) cfg.grants (buildTotal keypairs.length cfg)
      then openWith P (P.kdf (kdContext env.envelopeId ctx) (enc secret)) c' (expectedResult P keypairs sks cfg true)
      else .locked (expectedResult P keypairs sks cfg false) :=
  unlock_build_ct P hP _ hS.codec (hcodec_of dec enc hS.codec) secret coeff nonce ctx payload keypairs cfg env hb hw
    (hids_of dec enc _ hS.ids _) (fun l hm hnd hl => hrec_of dec enc secret coeff _ _ l hm hnd hl) sks c'

end

end Envelope
end Bifrost
