import Bifrost.Lemmas.SigRegMain
/-! A second, small invariant: `0` (the "no choice" label of `lloop`) is never a peer id held in
`wants`/`sentWant`/a pending `setPeer`; needed for the progress statement of C24. -/
namespace Bifrost
namespace SigReg
open Bifrost.Sig

/-! ### `0` is never a peer id in `wants` / `sentWant` (it is the "no choice" label of `lloop`) -/

def LZ (l : LCall) : Prop := 0 ∉ l.sentWant ∧ Resp.setPeer 0 ∉ l.outbox

structure InvZ (s : State) : Prop where
  sc : ∀ c ∈ s.scalls, c.src ≠ 0
  lc : ∀ l ∈ s.lcalls, LZ l

theorem mem_setSCall {s : State} {x c' : SCall} (h : c' ∈ (setSCall s x).scalls) : c' = x ∨ c' ∈ s.scalls := by
  simp only [setSCall, List.mem_map] at h
  obtain ⟨y, hy, rfl⟩ := h
  split
  · exact Or.inl rfl
  · exact Or.inr hy

theorem mem_setLCall {s : State} {x c' : LCall} (h : c' ∈ (setLCall s x).lcalls) : c' = x ∨ c' ∈ s.lcalls := by
  simp only [setLCall, List.mem_map] at h
  obtain ⟨y, hy, rfl⟩ := h
  split
  · exact Or.inl rfl
  · exact Or.inr hy

@[simp] theorem scalls_getPeer (s : State) (p : Nat) : (getPeer s p).1.scalls = s.scalls := by
  unfold getPeer; repeat' (first | rfl | split)
@[simp] theorem lcalls_getPeer (s : State) (p : Nat) : (getPeer s p).1.lcalls = s.lcalls := by
  unfold getPeer; repeat' (first | rfl | split)
@[simp] theorem scalls_getSession (s : State) (k : Nat × Nat) : (getSession s k).1.scalls = s.scalls := by
  unfold getSession; repeat' (first | rfl | split)
@[simp] theorem lcalls_getSession (s : State) (k : Nat × Nat) : (getSession s k).1.lcalls = s.lcalls := by
  unfold getSession; repeat' (first | rfl | split)
@[simp] theorem scalls_maybeReleasePeer (s : State) (p : Nat) : (maybeReleasePeer s p).scalls = s.scalls := by
  unfold maybeReleasePeer; repeat' (first | rfl | split)
@[simp] theorem lcalls_maybeReleasePeer (s : State) (p : Nat) : (maybeReleasePeer s p).lcalls = s.lcalls := by
  unfold maybeReleasePeer; repeat' (first | rfl | split)
@[simp] theorem scalls_maybeReleaseSession (s : State) (k : Nat × Nat) : (maybeReleaseSession s k).scalls = s.scalls := by
  unfold maybeReleaseSession; repeat' (first | rfl | split)
@[simp] theorem lcalls_maybeReleaseSession (s : State) (k : Nat × Nat) : (maybeReleaseSession s k).lcalls = s.lcalls := by
  unfold maybeReleaseSession; repeat' (first | rfl | split)

theorem sEnd_scalls (s : State) (call : Nat) :
    (sEnd s call).scalls = match getSCall s call with
      | none => s.scalls
      | some c => (setSCall s { c with ended := true, failing := true, outbox := [] }).scalls := by
  unfold sEnd
  cases h : getSCall s call with
  | none => rfl
  | some c =>
    simp only []
    repeat' (first | rfl | (simp; done) | split)

theorem sEnd_lcalls (s : State) (call : Nat) : (sEnd s call).lcalls = s.lcalls := by
  unfold sEnd
  cases h : getSCall s call with
  | none => rfl
  | some c =>
    simp only []
    repeat' (first | rfl | (simp; done) | split)

theorem lEnd_scalls (s : State) (call : Nat) : (lEnd s call).scalls = s.scalls := by
  unfold lEnd
  cases h : getLCall s call with
  | none => rfl
  | some c =>
    simp only []
    repeat' (first | rfl | (simp; done) | split)

theorem lEnd_lcalls (s : State) (call : Nat) :
    (lEnd s call).lcalls = match getLCall s call with
      | none => s.lcalls
      | some c => (setLCall s { c with ended := true, failing := true, outbox := [], runnable := false }).lcalls := by
  unfold lEnd
  cases h : getLCall s call with
  | none => rfl
  | some c =>
    simp only []
    repeat' (first | rfl | (simp; done) | split)

theorem sInit_scalls_mem {s : State} {call src dst : Nat} {c' : SCall}
    (h : c' ∈ (sInit s call src dst).scalls) : c' ∈ s.scalls ∨ c'.src = src := by
  unfold sInit at h
  simp only [] at h
  change c' ∈ (setSess _ _).scalls ++ [_] at h
  rw [scalls_setSess, scalls_getSession, List.mem_append] at h
  rcases h with h | h
  · left
    split at h <;> simpa using h
  · right
    simp only [List.mem_singleton] at h
    rw [h]

theorem sInit_lcalls (s : State) (call src dst : Nat) : (sInit s call src dst).lcalls = s.lcalls := by
  unfold sInit
  simp only []
  show (setSess _ _).lcalls = _
  rw [lcalls_setSess, lcalls_getSession]
  split <;> simp

theorem lReg_scalls (s : State) (call pid : Nat) : (lReg s call pid).scalls = s.scalls := by
  unfold lReg
  simp only []
  show (setTkr _ _).scalls = _
  simp

theorem lReg_lcalls_mem {s : State} {call pid : Nat} {l' : LCall}
    (h : l' ∈ (lReg s call pid).lcalls) : l' ∈ s.lcalls ∨ (l'.sentWant = [] ∧ l'.outbox = []) := by
  unfold lReg at h
  simp only [] at h
  change l' ∈ (setTkr _ _).lcalls ++ [_] at h
  rw [lcalls_setTkr, lcalls_getPeer, List.mem_append] at h
  rcases h with h | h
  · exact Or.inl h
  · right
    simp only [List.mem_singleton] at h
    rw [h]; exact ⟨rfl, rfl⟩

theorem scZ_setSCall {s s0 : State} {call : Nat} {c x : SCall} (hz : ∀ c ∈ s.scalls, c.src ≠ 0)
    (hc : getSCall s call = some c) (hx : x.src = c.src) (h0 : s0.scalls = s.scalls) :
    ∀ c' ∈ (setSCall s0 x).scalls, c'.src ≠ 0 := by
  intro c' hc'
  rcases mem_setSCall hc' with h | h
  · rw [h, hx]; exact hz _ (getSCall_mem hc)
  · rw [h0] at h; exact hz _ h

theorem sSend_scZ {s : State} (hz : ∀ c ∈ s.scalls, c.src ≠ 0) (call ep : Nat) (m : Msg) (v : Bool) (g : Nat) :
    ∀ c' ∈ (sSend s call ep m v g).scalls, c'.src ≠ 0 := by
  unfold sSend
  repeat' split
  all_goals first | exact hz | exact scZ_setSCall hz (by assumption) (by rfl) (by rfl)

theorem sAck_scZ {s : State} (hz : ∀ c ∈ s.scalls, c.src ≠ 0) (call ep k : Nat) :
    ∀ c' ∈ (sAck s call ep k).scalls, c'.src ≠ 0 := by
  unfold sAck
  repeat' split
  all_goals first | exact hz | exact scZ_setSCall hz (by assumption) (by rfl) (by rfl)

theorem sClear_scZ {s : State} (hz : ∀ c ∈ s.scalls, c.src ≠ 0) (call ep k : Nat) :
    ∀ c' ∈ (sClear s call ep k).scalls, c'.src ≠ 0 := by
  unfold sClear
  repeat' split
  all_goals first | exact hz | exact scZ_setSCall hz (by assumption) (by rfl) (by rfl)

theorem sLoop_scZ {s : State} (hz : ∀ c ∈ s.scalls, c.src ≠ 0) (call : Nat) :
    ∀ c' ∈ (sLoop s call).scalls, c'.src ≠ 0 := by
  unfold sLoop
  repeat' (first | split | simp only [])
  all_goals first | exact hz | exact scZ_setSCall hz (by assumption) (by rfl) (by rfl)

theorem sTx_scZ {s : State} (hz : ∀ c ∈ s.scalls, c.src ≠ 0) (call : Nat) (r : Resp) :
    ∀ c' ∈ ((sTx s call r).getD s).scalls, c'.src ≠ 0 := by
  unfold sTx
  repeat' split
  all_goals first | exact hz | exact scZ_setSCall hz (by assumption) (by rfl) (by rfl)

theorem sEnd_scZ {s : State} (hz : ∀ c ∈ s.scalls, c.src ≠ 0) (call : Nat) :
    ∀ c' ∈ (sEnd s call).scalls, c'.src ≠ 0 := by
  rw [sEnd_scalls]
  split
  · exact hz
  · exact scZ_setSCall hz (by assumption) (by rfl) (by rfl)

theorem sSend_lcalls (s : State) (call ep : Nat) (m : Msg) (v : Bool) (g : Nat) :
    (sSend s call ep m v g).lcalls = s.lcalls := by
  unfold sSend; repeat' (first | rfl | split)
theorem sAck_lcalls (s : State) (call ep k : Nat) : (sAck s call ep k).lcalls = s.lcalls := by
  unfold sAck; repeat' (first | rfl | split)
theorem sClear_lcalls (s : State) (call ep k : Nat) : (sClear s call ep k).lcalls = s.lcalls := by
  unfold sClear; repeat' (first | rfl | split)
theorem sLoop_lcalls (s : State) (call : Nat) : (sLoop s call).lcalls = s.lcalls := by
  unfold sLoop; repeat' (first | rfl | split | simp only [])
theorem sTx_lcalls (s : State) (call : Nat) (r : Resp) : ((sTx s call r).getD s).lcalls = s.lcalls := by
  unfold sTx; repeat' (first | rfl | split)

theorem lLoop_scalls (s : State) (call w n : Nat) : ((lLoop s call w n).getD s).scalls = s.scalls := by
  cases h : lLoop s call w n with
  | none => rfl
  | some s' => obtain ⟨l, t, _, _, _, _, _, rfl⟩ := lLoop_eq_some h; rfl
theorem lUsurped_scalls (s : State) (call : Nat) : ((lUsurped s call).getD s).scalls = s.scalls := by
  unfold lUsurped; repeat' (first | rfl | split)
theorem lTx_scalls (s : State) (call : Nat) (r : Resp) : ((lTx s call r).getD s).scalls = s.scalls := by
  unfold lTx; repeat' (first | rfl | split)

theorem lcZ_setLCall {s : State} {x : LCall} (hz : ∀ l ∈ s.lcalls, LZ l) (hx : LZ x) :
    ∀ l' ∈ (setLCall s x).lcalls, LZ l' := by
  intro l' hl'
  rcases mem_setLCall hl' with h | h
  · rw [h]; exact hx
  · exact hz _ h

theorem lLoop_lcZ {s : State} (hz : ∀ l ∈ s.lcalls, LZ l) (call w n : Nat) :
    ∀ l' ∈ ((lLoop s call w n).getD s).lcalls, LZ l' := by
  cases h : lLoop s call w n with
  | none => exact hz
  | some s' =>
    obtain ⟨l, t, hl, _, _, _, _, rfl⟩ := lLoop_eq_some h
    refine lcZ_setLCall hz ?_
    have := hz _ (getLCall_mem hl)
    refine ⟨this.1, ?_⟩
    simp only [List.mem_append, not_or]
    refine ⟨this.2, ?_, ?_⟩
    · split <;> simp
    · split
      · simp
      · rename_i h; simp; exact fun h' => h h'.symm

theorem lUsurped_lcZ {s : State} (hz : ∀ l ∈ s.lcalls, LZ l) (call : Nat) :
    ∀ l' ∈ ((lUsurped s call).getD s).lcalls, LZ l' := by
  unfold lUsurped
  repeat' split
  all_goals first | exact hz | skip
  rename_i l hl _ _ _ _
  exact lcZ_setLCall hz (hz l (getLCall_mem hl))

theorem lTx_lcZ {s : State} (hz : ∀ l ∈ s.lcalls, LZ l) (call : Nat) (r : Resp) :
    ∀ l' ∈ ((lTx s call r).getD s).lcalls, LZ l' := by
  unfold lTx
  cases hl : getLCall s call with
  | none => exact hz
  | some l =>
    have hzl := hz _ (getLCall_mem hl)
    simp only []
    cases ho : l.outbox with
    | nil => exact hz
    | cons x rest =>
      simp only []
      split
      · exact hz
      · rename_i hx
        have hx : x = r := Decidable.not_not.1 hx
        subst hx
        refine lcZ_setLCall hz ⟨?_, ?_⟩
        · have h2 := hzl.2
          rw [ho] at h2
          cases x with
          | setPeer p =>
            simp only [mem_insertSorted, not_or]
            refine ⟨?_, hzl.1⟩
            intro h0; apply h2; rw [← h0]; simp
          | clearPeer p => simp only [List.mem_filter, not_and]; intro h; exact absurd h hzl.1
          | _ => exact hzl.1
        · have h2 := hzl.2
          rw [ho] at h2
          simp only [List.mem_cons, not_or] at h2
          exact h2.2

theorem invZ_init : InvZ ({} : State) := ⟨by simp, by simp⟩

theorem invZ_step {s : State} (hz : InvZ s) (e : Ev) (hen : enabled s e = true) : InvZ (step s e) := by
  cases e with
  | init call src dst =>
    simp only [enabled, Bool.and_eq_true, decide_eq_true_eq] at hen
    refine ⟨?_, ?_⟩
    · intro c' hc'
      rcases sInit_scalls_mem hc' with h | h
      · exact hz.sc _ h
      · rw [h]; exact hen.1.2
    · show ∀ l ∈ (sInit s call src dst).lcalls, LZ l
      rw [sInit_lcalls]; exact hz.lc
  | send call ep m v g => exact ⟨sSend_scZ hz.sc call ep m v g, by show ∀ l ∈ (sSend s call ep m v g).lcalls, LZ l; rw [sSend_lcalls]; exact hz.lc⟩
  | ack call ep k => exact ⟨sAck_scZ hz.sc call ep k, by show ∀ l ∈ (sAck s call ep k).lcalls, LZ l; rw [sAck_lcalls]; exact hz.lc⟩
  | clear call ep k => exact ⟨sClear_scZ hz.sc call ep k, by show ∀ l ∈ (sClear s call ep k).lcalls, LZ l; rw [sClear_lcalls]; exact hz.lc⟩
  | loop call => exact ⟨sLoop_scZ hz.sc call, by show ∀ l ∈ (sLoop s call).lcalls, LZ l; rw [sLoop_lcalls]; exact hz.lc⟩
  | send_ call r => exact ⟨sTx_scZ hz.sc call r, by show ∀ l ∈ ((sTx s call r).getD s).lcalls, LZ l; rw [sTx_lcalls]; exact hz.lc⟩
  | end_ call => exact ⟨sEnd_scZ hz.sc call, by show ∀ l ∈ (sEnd s call).lcalls, LZ l; rw [sEnd_lcalls]; exact hz.lc⟩
  | lreg call pid =>
    refine ⟨by show ∀ c ∈ (lReg s call pid).scalls, c.src ≠ 0; rw [lReg_scalls]; exact hz.sc, ?_⟩
    intro l' hl'
    rcases lReg_lcalls_mem hl' with h | h
    · exact hz.lc _ h
    · simp [LZ, h.1, h.2]
  | lloop call w n =>
    exact ⟨by show ∀ c ∈ ((lLoop s call w n).getD s).scalls, c.src ≠ 0; rw [lLoop_scalls]; exact hz.sc, lLoop_lcZ hz.lc call w n⟩
  | lusurped call =>
    exact ⟨by show ∀ c ∈ ((lUsurped s call).getD s).scalls, c.src ≠ 0; rw [lUsurped_scalls]; exact hz.sc, lUsurped_lcZ hz.lc call⟩
  | ltx call r =>
    exact ⟨by show ∀ c ∈ ((lTx s call r).getD s).scalls, c.src ≠ 0; rw [lTx_scalls]; exact hz.sc, lTx_lcZ hz.lc call r⟩
  | lend call =>
    refine ⟨by show ∀ c ∈ (lEnd s call).scalls, c.src ≠ 0; rw [lEnd_scalls]; exact hz.sc, ?_⟩
    show ∀ l ∈ (lEnd s call).lcalls, LZ l
    rw [lEnd_lcalls]
    split
    · exact hz.lc
    · rename_i l hl
      refine lcZ_setLCall hz.lc ⟨(hz.lc l (getLCall_mem hl)).1, ?_⟩
      simp

theorem invZ_of_reachable {s : State} (h : Reachable s) : InvZ s := by
  induction h with
  | init => exact invZ_init
  | step e _ hen ih => exact invZ_step ih e hen

/-- In reachable states `0` is neither wanted nor announced. -/
theorem zero_free {s : State} (h : Reachable s) {l : LCall} {t : Tkr}
    (hl : getLCall s l.id = some l) (ht : getTkr s l.tkr = some t) : 0 ∉ t.wants ∧ 0 ∉ l.sentWant := by
  have hz := invZ_of_reachable h
  have hinv := inv_of_reachable h
  refine ⟨?_, (hz.lc _ (getLCall_mem hl)).1⟩
  intro h0
  obtain ⟨i, c, hc, _, _, hs, _⟩ := (hinv.wants _ _ 0 ht).1 h0
  exact hz.sc _ (getSCall_mem hc) hs

end SigReg
end Bifrost
