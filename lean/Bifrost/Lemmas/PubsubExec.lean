import Bifrost.Model.Pubsub
/-! Invariants for C29: the subscription handle (`Pubsub.Sub`) and the announcements of the
`Execute` loop (`Pubsub.Exec`). -/
namespace Bifrost
namespace Pubsub

/-! ## subscription handle -/
namespace Sub

theorem run_append (s : State) (a b : List Ev) : run s (a ++ b) = run (run s a) b := by
  simp [run, List.foldl_append]

theorem run_cons (s : State) (e : Ev) (l : List Ev) : run s (e :: l) = run (step s e) l := rfl

/-- Once the handler set is empty it stays empty, and nothing is invoked, as long as no handler
is added. -/
theorem handlers_nil_stays (s : State) (evs : List Ev) (h : s.handlers = [])
    (hno : ∀ ev ∈ evs, ∀ x, ev ≠ .add x) : (run s evs).handlers = [] ∧ (run s evs).calls = s.calls := by
  induction evs generalizing s with
  | nil => exact ⟨h, rfl⟩
  | cons ev rest ih =>
    rw [run_cons]
    have hrest : ∀ e ∈ rest, ∀ x, e ≠ .add x := fun e he => hno e (List.mem_cons_of_mem _ he)
    have hev : ∀ x, ev ≠ .add x := hno ev List.mem_cons_self
    have key : (step s ev).handlers = [] ∧ (step s ev).calls = s.calls := by
      cases ev with
      | add x => exact absurd rfl (hev x)
      | remove x => simp [step, h]
      | relA => simp [step]
      | relB => simp [step, h]
      | spawn msg =>
        simp only [step]
        split <;> simp [h]
      | run k =>
        simp only [step]
        split
        · exact ⟨h, rfl⟩
        · simp [h]
    obtain ⟨k1, k2⟩ := key
    obtain ⟨i1, i2⟩ := ih (step s ev) k1 hrest
    exact ⟨i1, by rw [i2, k2]⟩

/-- Trace invariant: after a release every handler in the set was added after it, and every
invocation logged "after release" is of such a handler. -/
structure Inv (s : State) : Prop where
  hs : s.released = true → ∀ h ∈ s.handlers, h ∈ s.fresh
  cs : ∀ c ∈ s.calls, c.2.2 = true → c.1 ∈ s.fresh
  ch : s.relOnce = true → s.inChan = false

theorem step_inv (s : State) (ev : Ev) (h : Inv s) : Inv (step s ev) := by
  obtain ⟨h1, h2, h3⟩ := h
  cases ev with
  | add x =>
    have e1 : (step s (.add x)).released = s.released := rfl
    have e2 : (step s (.add x)).fresh = if s.released then x :: s.fresh else s.fresh := rfl
    have e3 : (step s (.add x)).handlers = if s.handlers.contains x then s.handlers else s.handlers ++ [x] := rfl
    have e4 : (step s (.add x)).calls = s.calls := rfl
    have fmono : ∀ y, y ∈ s.fresh → y ∈ (step s (.add x)).fresh := by
      intro y hy
      rw [e2]
      split
      · exact List.mem_cons_of_mem _ hy
      · exact hy
    refine ⟨?_, ?_, h3⟩
    · intro hr y hy
      rw [e1] at hr
      rw [e3] at hy
      split at hy
      · exact fmono y (h1 hr y hy)
      · rcases List.mem_append.mp hy with e | e
        · exact fmono y (h1 hr y e)
        · rw [e2, if_pos hr]
          have : y = x := by simpa using e
          rw [this]
          exact List.mem_cons_self
    · intro c hc hf
      rw [e4] at hc
      exact fmono _ (h2 c hc hf)
  | remove x =>
    simp only [step]
    refine ⟨?_, h2, h3⟩
    intro hr y hy
    exact h1 hr y (List.mem_filter.mp hy).1
  | relA =>
    have e3 : (step s .relA).handlers = [] := rfl
    refine ⟨?_, h2, h3⟩
    intro _ y hy
    rw [e3] at hy
    cases hy
  | relB =>
    simp only [step]
    exact ⟨h1, h2, fun _ => rfl⟩
  | spawn msg =>
    simp only [step]
    split
    · exact ⟨h1, h2, h3⟩
    · exact ⟨h1, h2, h3⟩
  | run k =>
    simp only [step]
    split
    · exact ⟨h1, h2, h3⟩
    · refine ⟨h1, ?_, h3⟩
      intro c hc hf
      rcases List.mem_append.mp hc with e | e
      · exact h2 c e hf
      · rw [List.mem_map] at e
        obtain ⟨y, hy, rfl⟩ := e
        exact h1 hf y hy

theorem run_inv (s : State) (evs : List Ev) (h : Inv s) : Inv (run s evs) := by
  induction evs generalizing s with
  | nil => exact h
  | cons ev rest ih => exact ih (step s ev) (step_inv s ev h)

theorem init_inv : Inv ({} : State) where
  hs := by intro h; cases h
  cs := by intro c hc; cases hc
  ch := by intro h; cases h

/-- A handler that is not in the set and is not added again is never invoked. -/
theorem absent_handler_not_called (s : State) (evs : List Ev) (x : Nat) (h : x ∉ s.handlers)
    (hno : ∀ ev ∈ evs, ev ≠ .add x) :
    x ∉ (run s evs).handlers ∧ ∀ c ∈ (run s evs).calls, c ∈ s.calls ∨ c.1 ≠ x := by
  induction evs generalizing s with
  | nil => exact ⟨h, fun c hc => Or.inl hc⟩
  | cons ev rest ih =>
    rw [run_cons]
    have hrest : ∀ e ∈ rest, e ≠ .add x := fun e he => hno e (List.mem_cons_of_mem _ he)
    have hev : ev ≠ .add x := hno ev List.mem_cons_self
    have key : x ∉ (step s ev).handlers ∧ ∀ c ∈ (step s ev).calls, c ∈ s.calls ∨ c.1 ≠ x := by
      cases ev with
      | add y =>
        simp only [step]
        have hxy : x ≠ y := fun e => hev (by rw [e])
        refine ⟨?_, fun c hc => Or.inl hc⟩
        split
        · exact h
        · intro hm
          rcases List.mem_append.mp hm with e | e
          · exact h e
          · exact hxy (by simpa using e)
      | remove y =>
        simp only [step]
        exact ⟨fun hm => h (List.mem_filter.mp hm).1, fun c hc => Or.inl hc⟩
      | relA =>
        have e3 : (step s .relA).handlers = [] := rfl
        refine ⟨?_, fun c hc => Or.inl hc⟩
        rw [e3]
        exact List.not_mem_nil
      | relB => exact ⟨h, fun c hc => Or.inl hc⟩
      | spawn msg =>
        simp only [step]
        split
        · exact ⟨h, fun c hc => Or.inl hc⟩
        · exact ⟨h, fun c hc => Or.inl hc⟩
      | run k =>
        simp only [step]
        split
        · exact ⟨h, fun c hc => Or.inl hc⟩
        · refine ⟨h, fun c hc => ?_⟩
          rcases List.mem_append.mp hc with e | e
          · exact Or.inl e
          · right
            rw [List.mem_map] at e
            obtain ⟨y, hy, rfl⟩ := e
            exact fun e => h (e ▸ hy)
    obtain ⟨k1, k2⟩ := key
    obtain ⟨i1, i2⟩ := ih (step s ev) k1 hrest
    refine ⟨i1, fun c hc => ?_⟩
    rcases i2 c hc with e | e
    · exact k2 c e
    · exact Or.inr e

/-- After the `relOnce` section no delivery goroutine is started for the subscription. -/
theorem pending_after_relB (s : State) (evs : List Ev) (h : s.inChan = false) :
    (run s evs).inChan = false ∧ (run s evs).pending.length ≤ s.pending.length := by
  induction evs generalizing s with
  | nil => exact ⟨h, Nat.le_refl _⟩
  | cons ev rest ih =>
    rw [run_cons]
    have key : (step s ev).inChan = false ∧ (step s ev).pending.length ≤ s.pending.length := by
      cases ev with
      | add y => exact ⟨h, Nat.le_refl _⟩
      | remove y => exact ⟨h, Nat.le_refl _⟩
      | relA => exact ⟨h, Nat.le_refl _⟩
      | relB => exact ⟨rfl, Nat.le_refl _⟩
      | spawn msg => simp [step, h]
      | run k =>
        simp only [step]
        split
        · exact ⟨h, Nat.le_refl _⟩
        · refine ⟨h, ?_⟩
          simp only [List.length_eraseIdx]
          split <;> omega
    obtain ⟨i1, i2⟩ := ih (step s ev) key.1
    exact ⟨i1, Nat.le_trans i2 key.2⟩

end Sub

/-! ## Execute announcements -/
namespace Exec

theorem run_cons (s : State) (e : Ev) (l : List Ev) : run s (e :: l) = run (step s e) l := rfl

theorem mem_applyChange (b : List Nat) (c : Nat × Bool) (ch : Nat) :
    ch ∈ applyChange b c ↔ (c.2 = true ∧ (ch = c.1 ∨ ch ∈ b)) ∨ (c.2 = false ∧ ch ∈ b ∧ ch ≠ c.1) := by
  unfold applyChange
  cases hc : c.2 with
  | true =>
    simp only [if_true, true_and, Bool.true_eq_false, false_and, or_false]
    split
    · rename_i hb
      have hb' : c.1 ∈ b := by simpa using hb
      constructor
      · intro h; exact Or.inr h
      · rintro (h | h)
        · rw [h]; exact hb'
        · exact h
    · simp
  | false =>
    simp only [Bool.false_eq_true, if_false, false_and, true_and, false_or]
    rw [List.mem_filter]
    simp

/-- Folding the initial set (every channel key, `Subscribe = true`). -/
theorem fold_init (l : List (Nat × Nat)) (b : List Nat) (ch : Nat) :
    ch ∈ (l.map (fun e => (e.1, true))).foldl applyChange b ↔ ch ∈ l.map (·.1) ∨ ch ∈ b := by
  induction l generalizing b with
  | nil => simp
  | cons e rest ih =>
    simp only [List.map_cons, List.foldl_cons, List.mem_cons]
    rw [ih, mem_applyChange]
    simp only [true_and, Bool.true_eq_false, false_and, or_false]
    constructor
    · rintro (h | h | h)
      · exact Or.inl (Or.inr h)
      · exact Or.inl (Or.inl h)
      · exact Or.inr h
    · rintro ((h | h) | h)
      · exact Or.inr (Or.inl h)
      · exact Or.inl h
      · exact Or.inr (Or.inr h)

theorem changes_cons (pubbed : List Nat) (e : Nat × Nat) (rest : List (Nat × Nat)) :
    changes pubbed (e :: rest) =
      (if e.2 = 0 then [(e.1, false)] else if pubbed.contains e.1 then [] else [(e.1, true)]) ++ changes pubbed rest := by
  unfold changes
  rw [List.filterMap_cons]
  by_cases h0 : e.2 = 0
  · simp [h0]
  · by_cases hp : e.1 ∈ pubbed
    · simp [h0, hp]
    · simp [h0, hp]

/-- Folding the changes of one sweep. -/
theorem fold_changes (channels : List (Nat × Nat)) (hnd : (channels.map (·.1)).Nodup) (pubbed b : List Nat) (ch : Nat) :
    ch ∈ (changes pubbed channels).foldl applyChange b ↔
      (∃ c, c ≠ 0 ∧ (ch, c) ∈ channels ∧ ch ∉ pubbed) ∨ (ch ∈ b ∧ (ch, 0) ∉ channels) := by
  induction channels generalizing b with
  | nil => simp [changes]
  | cons e rest ih =>
    obtain ⟨k, c⟩ := e
    simp only [List.map_cons, List.nodup_cons] at hnd
    obtain ⟨hk, hnd'⟩ := hnd
    have hkr : ∀ c', (k, c') ∉ rest := by
      intro c' hm
      exact hk (List.mem_map.mpr ⟨(k, c'), hm, rfl⟩)
    rw [changes_cons, List.foldl_append, ih hnd']
    by_cases hc : c = 0
    · subst hc
      have hhead : (if (k, 0).2 = 0 then [((k, 0).1, false)] else if pubbed.contains (k, 0).1 then [] else [((k, 0).1, true)])
          = [(k, false)] := by simp
      rw [hhead]
      simp only [List.foldl_cons, List.foldl_nil]
      have hb : ∀ x, x ∈ applyChange b (k, false) ↔ x ∈ b ∧ x ≠ k := by
        intro x; rw [mem_applyChange]; simp
      rw [hb]
      constructor
      · rintro (⟨c', h1, h2, h3⟩ | ⟨⟨h1, h2⟩, h3⟩)
        · exact Or.inl ⟨c', h1, List.mem_cons_of_mem _ h2, h3⟩
        · refine Or.inr ⟨h1, fun hm => ?_⟩
          rcases List.mem_cons.mp hm with e | e
          · injection e with e1 _; exact h2 e1
          · exact h3 e
      · rintro (⟨c', h1, h2, h3⟩ | ⟨h1, h2⟩)
        · rcases List.mem_cons.mp h2 with e | e
          · injection e with _ e2; exact absurd e2 h1
          · exact Or.inl ⟨c', h1, e, h3⟩
        · refine Or.inr ⟨⟨h1, fun e => h2 ?_⟩, fun hm => h2 (List.mem_cons_of_mem _ hm)⟩
          rw [e]; exact List.mem_cons_self
    · by_cases hp : pubbed.contains k = true
      · have hp' : k ∈ pubbed := by simpa using hp
        have hhead : (if (k, c).2 = 0 then [((k, c).1, false)] else if pubbed.contains (k, c).1 then [] else [((k, c).1, true)])
            = [] := by simp [hc, hp']
        rw [hhead]
        simp only [List.foldl_nil]
        constructor
        · rintro (⟨c', h1, h2, h3⟩ | ⟨h1, h3⟩)
          · exact Or.inl ⟨c', h1, List.mem_cons_of_mem _ h2, h3⟩
          · refine Or.inr ⟨h1, fun hm => ?_⟩
            rcases List.mem_cons.mp hm with e | e
            · injection e with _ e2; exact hc e2.symm
            · exact h3 e
        · rintro (⟨c', h1, h2, h3⟩ | ⟨h1, h2⟩)
          · rcases List.mem_cons.mp h2 with e | e
            · injection e with e1 _; exact absurd (e1 ▸ hp') h3
            · exact Or.inl ⟨c', h1, e, h3⟩
          · exact Or.inr ⟨h1, fun hm => h2 (List.mem_cons_of_mem _ hm)⟩
      · have hp' : k ∉ pubbed := by simpa using hp
        have hhead : (if (k, c).2 = 0 then [((k, c).1, false)] else if pubbed.contains (k, c).1 then [] else [((k, c).1, true)])
            = [(k, true)] := by simp [hc, hp']
        rw [hhead]
        simp only [List.foldl_cons, List.foldl_nil]
        have hb : ∀ x, x ∈ applyChange b (k, true) ↔ x = k ∨ x ∈ b := by
          intro x; rw [mem_applyChange]; simp
        rw [hb]
        constructor
        · rintro (⟨c', h1, h2, h3⟩ | ⟨h1 | h1, h3⟩)
          · exact Or.inl ⟨c', h1, List.mem_cons_of_mem _ h2, h3⟩
          · refine Or.inl ⟨c, hc, ?_, h1 ▸ hp'⟩
            rw [h1]; exact List.mem_cons_self
          · refine Or.inr ⟨h1, fun hm => ?_⟩
            rcases List.mem_cons.mp hm with e | e
            · injection e with _ e2; exact hc e2.symm
            · exact h3 e
        · rintro (⟨c', h1, h2, h3⟩ | ⟨h1, h2⟩)
          · rcases List.mem_cons.mp h2 with e | e
            · injection e with e1 _
              exact Or.inr ⟨Or.inl e1, e1 ▸ hkr 0⟩
            · exact Or.inl ⟨c', h1, e, h3⟩
          · exact Or.inr ⟨Or.inr h1, fun hm => h2 (List.mem_cons_of_mem _ hm)⟩

theorem setCount_keys (l : List (Nat × Nat)) (ch c : Nat) : (setCount l ch c).map (·.1) = l.map (·.1) := by
  unfold setCount
  rw [List.map_map]
  apply List.map_congr_left
  intro e _
  simp only [Function.comp]
  split
  · rename_i h; exact h.symm
  · rfl

theorem mem_setCount (l : List (Nat × Nat)) (ch c : Nat) (e : Nat × Nat) (h : e ∈ setCount l ch c) :
    e = (ch, c) ∨ (e ∈ l ∧ e.1 ≠ ch) := by
  unfold setCount at h
  rw [List.mem_map] at h
  obtain ⟨x, hx, rfl⟩ := h
  split
  · left; rfl
  · rename_i hne; right; exact ⟨hx, hne⟩

theorem count_none (s : State) (ch : Nat) (h : count s ch = none) : ch ∉ s.channels.map (·.1) := by
  unfold count at h
  intro hm
  rw [List.mem_map] at hm
  obtain ⟨e, he, rfl⟩ := hm
  cases hf : s.channels.find? (fun x => decide (x.1 = e.1)) with
  | none =>
    have := List.find?_eq_none.mp hf e he
    simp at this
  | some y => rw [hf] at h; cases h

theorem count_some_mem (s : State) (ch c : Nat) (h : count s ch = some c) : (ch, c) ∈ s.channels := by
  unfold count at h
  cases hf : s.channels.find? (fun x => decide (x.1 = ch)) with
  | none => rw [hf] at h; cases h
  | some y =>
    rw [hf] at h
    have h1 := List.find?_some hf
    have h2 := List.mem_of_find?_eq_some hf
    simp only [Option.map_some, Option.some.injEq] at h
    simp only [decide_eq_true_eq] at h1
    have : y = (ch, c) := by
      cases y; simp only at h h1; rw [h, h1]
    rw [← this]; exact h2

theorem nodup_unique (l : List (Nat × Nat)) (hnd : (l.map (·.1)).Nodup) (k c c' : Nat)
    (h1 : (k, c) ∈ l) (h2 : (k, c') ∈ l) : c = c' := by
  induction l with
  | nil => cases h1
  | cons e rest ih =>
    simp only [List.map_cons, List.nodup_cons] at hnd
    obtain ⟨hk, hnd'⟩ := hnd
    rcases List.mem_cons.mp h1 with e1 | e1 <;> rcases List.mem_cons.mp h2 with e2 | e2
    · rw [← e1] at e2; injection e2 with _ e2; exact e2.symm
    · exfalso; apply hk; rw [← e1]; exact List.mem_map.mpr ⟨(k, c'), e2, rfl⟩
    · exfalso; apply hk; rw [← e2]; exact List.mem_map.mpr ⟨(k, c), e1, rfl⟩
    · exact ih hnd' e1 e2

theorem mem_count (s : State) (hnd : (s.channels.map (·.1)).Nodup) (ch c : Nat) (h : (ch, c) ∈ s.channels) :
    count s ch = some c := by
  cases hc : count s ch with
  | none => exact absurd (List.mem_map.mpr ⟨(ch, c), h, rfl⟩) (count_none s ch hc)
  | some c' =>
    have := count_some_mem s ch c' hc
    rw [nodup_unique s.channels hnd ch c c' h this]

theorem mem_sweptPubbed (pubbed : List Nat) (channels : List (Nat × Nat)) (ch : Nat) :
    ch ∈ sweptPubbed pubbed channels ↔
      (ch ∈ pubbed ∧ (ch, 0) ∉ channels) ∨ (∃ c, c ≠ 0 ∧ (ch, c) ∈ channels ∧ ch ∉ pubbed) := by
  unfold sweptPubbed
  rw [List.mem_append, List.mem_filter, List.mem_map]
  constructor
  · rintro (⟨h1, h2⟩ | ⟨e, he, rfl⟩)
    · left; exact ⟨h1, by simpa using h2⟩
    · right
      rw [List.mem_filter] at he
      obtain ⟨h1, h2⟩ := he
      simp only [Bool.and_eq_true, decide_eq_true_eq, Bool.not_eq_true', List.contains_eq_mem,
        decide_eq_false_iff_not] at h2
      exact ⟨e.2, h2.1, h1, h2.2⟩
  · rintro (⟨h1, h2⟩ | ⟨c, h1, h2, h3⟩)
    · left; exact ⟨h1, by simpa using h2⟩
    · right
      refine ⟨(ch, c), ?_, rfl⟩
      rw [List.mem_filter]
      exact ⟨h2, by simp [h1, h3]⟩

theorem mem_sweptChannels (channels : List (Nat × Nat)) (e : Nat × Nat) :
    e ∈ sweptChannels channels ↔ e ∈ channels ∧ e.2 ≠ 0 := by
  unfold sweptChannels
  rw [List.mem_filter]
  simp

theorem sweptChannels_nodup (channels : List (Nat × Nat)) (h : (channels.map (·.1)).Nodup) :
    ((sweptChannels channels).map (·.1)).Nodup := by
  unfold sweptChannels
  exact List.Nodup.sublist (List.Sublist.map _ List.filter_sublist) h

/-- The invariant of the announcement loop. -/
structure Inv (s : State) : Prop where
  nodup : (s.channels.map (·.1)).Nodup
  pk : ∀ ch ∈ s.pubbed, ch ∈ s.channels.map (·.1)
  runKnown : ∀ p ∈ s.running, p ∈ s.known
  incFresh : ∀ p ∈ s.inc, p ∈ s.known ∧ p ∉ s.running ∧ s.told p = []
  unknown : ∀ p, p ∉ s.known → s.told p = []
  bel : ∀ p ∈ s.running, ∀ ch, (ch ∈ s.pubbed → ch ∈ belief s p) ∧
    (ch ∈ belief s p → ch ∈ s.channels.map (·.1)) ∧ (s.pc ≠ 1 → ch ∈ belief s p → ch ∈ s.pubbed)
  clean : s.pc = 2 → s.wake = false →
    (∀ e ∈ s.channels, e.2 ≠ 0) ∧ (∀ ch ∈ s.channels.map (·.1), ch ∈ s.pubbed)

theorem init_inv : Inv {} where
  nodup := by simp
  pk := by intro ch h; cases h
  runKnown := by intro p h; cases h
  incFresh := by intro p h; cases h
  unknown := by intro p _; rfl
  bel := by intro p h; cases h
  clean := by intro h; cases h

theorem step_inv (s : State) (ev : Ev) (h : Inv s) : Inv (step s ev) := by
  cases ev with
  | addSub ch =>
    simp only [step]
    split
    · rename_i hc
      have hnk := count_none s ch hc
      constructor
      · simp only [List.map_append, List.map_cons, List.map_nil]
        rw [List.nodup_append]
        refine ⟨h.nodup, by simp, ?_⟩
        intro a ha b hb
        simp only [List.mem_singleton] at hb
        rw [hb]
        exact fun e => hnk (e ▸ ha)
      · intro c hc'
        simp only [List.map_append, List.mem_append]
        exact Or.inl (h.pk c hc')
      · exact h.runKnown
      · exact h.incFresh
      · exact h.unknown
      · intro p hp c
        obtain ⟨a, b, d⟩ := h.bel p hp c
        refine ⟨a, fun hb => ?_, d⟩
        simp only [List.map_append, List.mem_append]
        exact Or.inl (b hb)
      · intro _ hw; cases hw
    · rename_i c hc
      constructor
      · rw [setCount_keys]; exact h.nodup
      · rw [setCount_keys]; exact h.pk
      · exact h.runKnown
      · exact h.incFresh
      · exact h.unknown
      · intro p hp c'
        rw [setCount_keys]
        exact h.bel p hp c'
      · intro hpc hw
        obtain ⟨a, b⟩ := h.clean hpc hw
        rw [setCount_keys]
        refine ⟨fun e he => ?_, b⟩
        rcases mem_setCount _ _ _ _ he with e1 | ⟨e1, _⟩
        · rw [e1]; simp
        · exact a e e1
  | release ch =>
    simp only [step]
    split
    · exact h
    · exact h
    · rename_i c hc
      constructor
      · rw [setCount_keys]; exact h.nodup
      · rw [setCount_keys]; exact h.pk
      · exact h.runKnown
      · exact h.incFresh
      · exact h.unknown
      · intro p hp c'
        rw [setCount_keys]
        exact h.bel p hp c'
      · intro hpc hw
        simp only [Bool.or_eq_false_iff, decide_eq_false_iff_not] at hw
        obtain ⟨a, b⟩ := h.clean hpc hw.1
        rw [setCount_keys]
        refine ⟨fun e he => ?_, b⟩
        rcases mem_setCount _ _ _ _ he with e1 | ⟨e1, _⟩
        · rw [e1]; exact hw.2
        · exact a e e1
  | addPeer p =>
    simp only [step]
    split
    · exact h
    · rename_i hk
      have hk' : p ∉ s.known := by simpa using hk
      constructor
      · exact h.nodup
      · exact h.pk
      · intro q hq; exact List.mem_cons_of_mem _ (h.runKnown q hq)
      · intro q hq
        rcases List.mem_append.mp hq with e | e
        · obtain ⟨a, b, c⟩ := h.incFresh q e
          exact ⟨List.mem_cons_of_mem _ a, b, c⟩
        · simp only [List.mem_singleton] at e
          subst e
          exact ⟨List.mem_cons_self, fun hr => hk' (h.runKnown q hr), h.unknown q hk'⟩
      · intro q hq
        exact h.unknown q (fun hm => hq (List.mem_cons_of_mem _ hm))
      · exact h.bel
      · intro _ hw; cases hw
  | endPeer p =>
    simp only [step]
    constructor
    · exact h.nodup
    · exact h.pk
    · intro q hq; exact h.runKnown q (List.mem_filter.mp hq).1
    · intro q hq
      obtain ⟨a, b, c⟩ := h.incFresh q hq
      exact ⟨a, fun hm => b (List.mem_filter.mp hm).1, c⟩
    · exact h.unknown
    · intro q hq; exact h.bel q (List.mem_filter.mp hq).1
    · exact h.clean
  | region1 =>
    simp only [step]
    split
    · exact h
    · have e_told : ∀ q, (region1 s).told q = if s.inc.contains q then s.told q ++ s.channels.map (fun e => (e.1, true)) else s.told q := fun _ => rfl
      have e_run : (region1 s).running = s.running ++ s.inc := rfl
      have e_ch : (region1 s).channels = s.channels := rfl
      have e_pub : (region1 s).pubbed = s.pubbed := rfl
      have e_known : (region1 s).known = s.known := rfl
      have e_inc : (region1 s).inc = [] := rfl
      have e_pc : (region1 s).pc = 1 := rfl
      constructor
      · rw [e_ch]; exact h.nodup
      · rw [e_ch, e_pub]; exact h.pk
      · intro q hq
        rw [e_run] at hq
        rw [e_known]
        rcases List.mem_append.mp hq with e | e
        · exact h.runKnown q e
        · exact (h.incFresh q e).1
      · intro q hq; rw [e_inc] at hq; cases hq
      · intro q hq
        rw [e_known] at hq
        have : s.inc.contains q = false := by
          cases hc : s.inc.contains q with
          | false => rfl
          | true => exact absurd (h.incFresh q (by simpa using hc)).1 hq
        rw [e_told, this]
        exact h.unknown q hq
      · intro q hq c
        rw [e_run] at hq
        rw [e_ch, e_pub, e_pc]
        rcases List.mem_append.mp hq with e | e
        · have hni : s.inc.contains q = false := by
            cases hc : s.inc.contains q with
            | false => rfl
            | true => exact absurd e (h.incFresh q (by simpa using hc)).2.1
          obtain ⟨a, b, _⟩ := h.bel q e c
          have hb : belief (region1 s) q = belief s q := by
            unfold belief; rw [e_told, hni]; rfl
          rw [hb]
          exact ⟨a, b, fun hne => absurd rfl hne⟩
        · have hi : s.inc.contains q = true := by simpa using e
          have ht := (h.incFresh q e).2.2
          have hb : ∀ x, x ∈ belief (region1 s) q ↔ x ∈ s.channels.map (·.1) := by
            intro x
            unfold belief
            rw [e_told, hi, ht]
            simp only [if_true, List.nil_append]
            rw [fold_init]
            simp
          rw [hb]
          exact ⟨h.pk c, fun hx => hx, fun hne => absurd rfl hne⟩
      · intro hpc2; rw [e_pc] at hpc2; cases hpc2
  | region2 =>
    simp only [step]
    split
    · exact h
    · have e_told : ∀ q, (region2 s).told q = if s.running.contains q then s.told q ++ changes s.pubbed s.channels else s.told q := fun _ => rfl
      have e_run : (region2 s).running = s.running := rfl
      have e_ch : (region2 s).channels = sweptChannels s.channels := rfl
      have e_pub : (region2 s).pubbed = sweptPubbed s.pubbed s.channels := rfl
      have e_known : (region2 s).known = s.known := rfl
      have e_inc : (region2 s).inc = s.inc := rfl
      have e_pc : (region2 s).pc = 2 := rfl
      have key : ∀ c, c ∈ (sweptChannels s.channels).map (·.1) ↔ ∃ k, k ≠ 0 ∧ (c, k) ∈ s.channels := by
        intro c
        rw [List.mem_map]
        constructor
        · rintro ⟨e, he, rfl⟩
          obtain ⟨a, b⟩ := (mem_sweptChannels _ _).mp he
          exact ⟨e.2, b, a⟩
        · rintro ⟨k, hk, hm⟩
          exact ⟨(c, k), (mem_sweptChannels _ _).mpr ⟨hm, hk⟩, rfl⟩
      have nz : ∀ c, c ∈ s.channels.map (·.1) → (c, 0) ∉ s.channels → ∃ k, k ≠ 0 ∧ (c, k) ∈ s.channels := by
        intro c hc h0
        rw [List.mem_map] at hc
        obtain ⟨e, he, rfl⟩ := hc
        refine ⟨e.2, fun hz => h0 ?_, he⟩
        rw [← hz]; exact he
      constructor
      · rw [e_ch]; exact sweptChannels_nodup _ h.nodup
      · intro c hc
        rw [e_pub] at hc
        rw [e_ch, key]
        rcases (mem_sweptPubbed _ _ _).mp hc with ⟨a, b⟩ | ⟨k, a, b, _⟩
        · exact nz c (h.pk c a) b
        · exact ⟨k, a, b⟩
      · rw [e_run, e_known]; exact h.runKnown
      · intro q hq
        rw [e_inc] at hq
        obtain ⟨a, b, c⟩ := h.incFresh q hq
        rw [e_known, e_run, e_told]
        have : s.running.contains q = false := by
          cases hc : s.running.contains q with
          | false => rfl
          | true => exact absurd (by simpa using hc) b
        rw [this]
        exact ⟨a, b, c⟩
      · intro q hq
        rw [e_known] at hq
        have : s.running.contains q = false := by
          cases hc : s.running.contains q with
          | false => rfl
          | true => exact absurd (h.runKnown q (by simpa using hc)) hq
        rw [e_told, this]
        exact h.unknown q hq
      · intro q hq c
        rw [e_run] at hq
        have hr : s.running.contains q = true := by simpa using hq
        obtain ⟨b1, b2, _⟩ := h.bel q hq c
        have hb : c ∈ belief (region2 s) q ↔
            (∃ k, k ≠ 0 ∧ (c, k) ∈ s.channels ∧ c ∉ s.pubbed) ∨ (c ∈ belief s q ∧ (c, 0) ∉ s.channels) := by
          unfold belief
          rw [e_told, hr]
          simp only [if_true, List.foldl_append]
          exact fold_changes s.channels h.nodup s.pubbed _ c
        rw [hb, e_ch, e_pub, key, mem_sweptPubbed]
        refine ⟨?_, ?_, ?_⟩
        · rintro (⟨a, b⟩ | ⟨k, a, b, d⟩)
          · exact Or.inr ⟨b1 a, b⟩
          · exact Or.inl ⟨k, a, b, d⟩
        · rintro (⟨k, a, b, _⟩ | ⟨a, b⟩)
          · exact ⟨k, a, b⟩
          · exact nz c (b2 a) b
        · rintro _ (⟨k, a, b, d⟩ | ⟨a, b⟩)
          · exact Or.inr ⟨k, a, b, d⟩
          · by_cases hp : c ∈ s.pubbed
            · exact Or.inl ⟨hp, b⟩
            · obtain ⟨k, hk, hm⟩ := nz c (b2 a) b
              exact Or.inr ⟨k, hk, hm, hp⟩
      · intro _ _
        rw [e_ch, e_pub]
        refine ⟨fun e he => ((mem_sweptChannels _ _).mp he).2, ?_⟩
        intro c hc
        obtain ⟨k, hk, hm⟩ := (key c).mp hc
        rw [mem_sweptPubbed]
        by_cases hp : c ∈ s.pubbed
        · left
          refine ⟨hp, fun h0 => hk ?_⟩
          exact nodup_unique s.channels h.nodup c k 0 hm h0
        · exact Or.inr ⟨k, hk, hm, hp⟩
  | wakeup =>
    simp only [step]
    split
    · rename_i hw
      constructor
      · exact h.nodup
      · exact h.pk
      · exact h.runKnown
      · exact h.incFresh
      · exact h.unknown
      · intro q hq c
        obtain ⟨a, b, d⟩ := h.bel q hq c
        have hne : s.pc ≠ 1 := by rw [hw.1]; decide
        exact ⟨a, b, fun _ => d hne⟩
      · intro hpc; cases hpc
    · exact h

theorem run_inv (s : State) (evs : List Ev) (h : Inv s) : Inv (run s evs) := by
  induction evs generalizing s with
  | nil => exact h
  | cons ev rest ih => exact ih (step s ev) (step_inv s ev h)

end Exec
end Pubsub
end Bifrost
