import Bifrost.Model.EncryptSignal
import Bifrost.Lemmas.Header
import Bifrost.Lemmas.ProtoRoundTrip
import Bifrost.Lemmas.Codec
import Bifrost.Lemmas.Solicit
/-! Round trip of the `WebRtcSignal` protobuf codec, and the role rule. -/
namespace Bifrost.Signal
open Bifrost Bifrost.PW

/-! ### decoding canonical encodings, field by field -/

theorem stepV (s : Schema) (num : Nat) (hn : num * 8 < 2 ^ 64) (hi : toInt32 ((num * 8) / 8) = (num : Int))
    (hpos : (0 : Int) < num) (hs : findSpec s num = some ⟨num, .varint⟩)
    (fuel v : Nat) (hv : v < 2 ^ 64) (rest : Bytes) (acc : Raw) :
    decodeLoop s (fuel + 1) (encVarint num v ++ rest) acc =
      decodeLoop s fuel rest { acc with fields := acc.fields ++ [(num, .varint v)] } := by
  rw [decodeLoop]
  have hne : (encVarint num v ++ rest).isEmpty = false := by simp [encVarint_ne_nil]
  rw [hne]
  have hd : decodeVarint (encVarint num v ++ rest) = .ok (num * 8, Pb.append v ++ rest) := by
    unfold encVarint tag
    rw [List.append_assoc, Nat.add_zero, decodeVarint_append _ hn]
  simp only [Bool.false_eq_true, ↓reduceIte, hd]
  have hw : (num * 8) % 8 = 0 := Nat.mul_mod_left num 8
  have hle : ¬ ((num : Int) ≤ 0) := by omega
  simp only [hw, hi, hs, hle]
  rw [decodeVarint_append v hv]
  simp

theorem stepB (s : Schema) (num : Nat) (hn : num * 8 + 2 < 2 ^ 64) (hi : toInt32 ((num * 8 + 2) / 8) = (num : Int))
    (hpos : (0 : Int) < num) (hs : findSpec s num = some ⟨num, .bytes⟩)
    (fuel : Nat) (b : Bytes) (hb : b.length < 2 ^ 63) (rest : Bytes) (acc : Raw) :
    decodeLoop s (fuel + 1) (encBytes num b ++ rest) acc =
      decodeLoop s fuel rest { acc with fields := acc.fields ++ [(num, .bytes b)] } := by
  rw [decodeLoop]
  have hne : (encBytes num b ++ rest).isEmpty = false := by simp [encBytes_ne_nil]
  rw [hne]
  have hd : decodeVarint (encBytes num b ++ rest) = .ok (num * 8 + 2, Pb.append b.length ++ (b ++ rest)) := by
    unfold encBytes tag
    rw [List.append_assoc, List.append_assoc, decodeVarint_append _ hn]
  simp only [Bool.false_eq_true, ↓reduceIte, hd]
  have hw : (num * 8 + 2) % 8 = 2 := by omega
  have hle : ¬ ((num : Int) ≤ 0) := by omega
  simp only [hw, hi, hs, hle]
  rw [takeLen_append b rest hb]
  simp

theorem encVarint_len_pos (n v : Nat) : 0 < (encVarint n v).length :=
  List.length_pos_iff.mpr (encVarint_ne_nil n v)
theorem encBytes_len_pos (n : Nat) (b : Bytes) : 0 < (encBytes n b).length :=
  List.length_pos_iff.mpr (encBytes_ne_nil n b)

/-- an optional varint field in front: absent (nothing happens) or present (one loop turn) -/
theorem optV (s : Schema) (num : Nat) (hn : num * 8 < 2 ^ 64) (hi : toInt32 ((num * 8) / 8) = (num : Int))
    (hpos : (0 : Int) < num) (hs : findSpec s num = some ⟨num, .varint⟩)
    (F v : Nat) (hv : v < 2 ^ 64) (rest : Bytes) (acc : Raw)
    (hF : (encVarintOpt num v ++ rest).length + 1 ≤ F) :
    ∃ F', rest.length + 1 ≤ F' ∧
      decodeLoop s F (encVarintOpt num v ++ rest) acc =
        decodeLoop s F' rest { acc with fields := acc.fields ++ (if v = 0 then [] else [(num, .varint v)]) } := by
  unfold encVarintOpt at *
  by_cases h0 : v = 0
  · simp only [h0, ↓reduceIte, List.nil_append, List.append_nil] at *
    exact ⟨F, hF, rfl⟩
  · simp only [h0, ↓reduceIte] at *
    have hp := encVarint_len_pos num v
    rw [List.length_append] at hF
    obtain ⟨f, rfl⟩ : ∃ f, F = f + 1 := ⟨F - 1, by omega⟩
    exact ⟨f, by omega, stepV s num hn hi hpos hs f v hv rest acc⟩

theorem optB (s : Schema) (num : Nat) (hn : num * 8 + 2 < 2 ^ 64) (hi : toInt32 ((num * 8 + 2) / 8) = (num : Int))
    (hpos : (0 : Int) < num) (hs : findSpec s num = some ⟨num, .bytes⟩)
    (F : Nat) (b : Bytes) (hb : b.length < 2 ^ 63) (rest : Bytes) (acc : Raw)
    (hF : (encBytesOpt num b ++ rest).length + 1 ≤ F) :
    ∃ F', rest.length + 1 ≤ F' ∧
      decodeLoop s F (encBytesOpt num b ++ rest) acc =
        decodeLoop s F' rest { acc with fields := acc.fields ++ (if b.isEmpty then [] else [(num, .bytes b)]) } := by
  unfold encBytesOpt at *
  by_cases h0 : b.isEmpty
  · simp only [h0, ↓reduceIte, List.nil_append, List.append_nil] at *
    exact ⟨F, hF, rfl⟩
  · have hE : b.isEmpty = false := by simpa using h0
    simp only [hE, Bool.false_eq_true, ↓reduceIte] at *
    have hp := encBytes_len_pos num b
    rw [List.length_append] at hF
    obtain ⟨f, rfl⟩ : ∃ f, F = f + 1 := ⟨F - 1, by omega⟩
    exact ⟨f, by omega, stepB s num hn hi hpos hs f b hb rest acc⟩

/-! ### sub-messages -/

def sdpFields (x : Sdp) : List (Nat × Val) :=
  (if x.txSeqno = 0 then [] else [(1, .varint x.txSeqno)]) ++
  ((if x.sdpType.isEmpty then [] else [(2, .bytes x.sdpType)]) ++
   (if x.sdp.isEmpty then [] else [(3, .bytes x.sdp)]))

theorem decode_marshalSdp (x : Sdp) (hu : x.unknown = []) (ht : x.txSeqno < 2 ^ 64)
    (h2 : x.sdpType.length < 2 ^ 63) (h3 : x.sdp.length < 2 ^ 63) :
    PW.decode sdpSchema (marshalSdp x) = .ok { fields := sdpFields x } := by
  unfold PW.decode marshalSdp
  rw [hu, List.append_nil, List.append_assoc]
  obtain ⟨F1, hF1, e1⟩ := optV sdpSchema 1 (by norm_num) (by decide) (by decide) (by decide) _ x.txSeqno ht
    (encBytesOpt 2 x.sdpType ++ encBytesOpt 3 x.sdp) {} (Nat.le_refl _)
  rw [e1]
  obtain ⟨F2, hF2, e2⟩ := optB sdpSchema 2 (by norm_num) (by decide) (by decide) (by decide) F1 x.sdpType h2
    (encBytesOpt 3 x.sdp) _ hF1
  rw [e2]
  have hF2' : (encBytesOpt 3 x.sdp ++ []).length + 1 ≤ F2 := by simpa using hF2
  obtain ⟨F3, _, e3⟩ := optB sdpSchema 3 (by norm_num) (by decide) (by decide) (by decide) F2 x.sdp h3 [] _ hF2'
  rw [List.append_nil] at e3
  rw [e3, decodeLoop_nil]
  simp [sdpFields, List.append_assoc]

theorem merge_sdpFields (x : Sdp) (hu : x.unknown = []) :
    mergeSdp {} { fields := sdpFields x } = x := by
  obtain ⟨tx, ty, sd, un⟩ := x
  simp only at hu
  subst hu
  unfold mergeSdp sdpFields Raw.has Raw.lastVarint Raw.lastBytes
  by_cases h1 : tx = 0 <;> by_cases h2 : ty.isEmpty <;> by_cases h3 : sd.isEmpty <;>
    simp [h1, h2, h3] <;> simp_all

def iceFields (x : Ice) : List (Nat × Val) := if x.candidate.isEmpty then [] else [(1, .bytes x.candidate)]

theorem decode_marshalIce (x : Ice) (hu : x.unknown = []) (h1 : x.candidate.length < 2 ^ 63) :
    PW.decode iceSchema (marshalIce x) = .ok { fields := iceFields x } := by
  unfold PW.decode marshalIce
  rw [hu, List.append_nil]
  have hF : (encBytesOpt 1 x.candidate ++ []).length + 1 ≤ (encBytesOpt 1 x.candidate).length + 1 := by simp
  obtain ⟨F, _, e⟩ := optB iceSchema 1 (by norm_num) (by decide) (by decide) (by decide) _ x.candidate h1 [] {} hF
  rw [List.append_nil] at e
  rw [e, decodeLoop_nil]
  simp [iceFields]

theorem merge_iceFields (x : Ice) (hu : x.unknown = []) : mergeIce {} { fields := iceFields x } = x := by
  obtain ⟨c, un⟩ := x
  simp only at hu
  subst hu
  unfold mergeIce iceFields Raw.has Raw.lastBytes
  by_cases h1 : c.isEmpty <;> simp [h1] <;> simp_all

/-! ### the message -/

/-- well-formed signal as produced by the Go code: no retained unknown fields, integers fit a
uint64, strings are shorter than 2^61 bytes. -/
def WF (s : Signal) : Prop :=
  s.unknown = [] ∧
  match s.body with
  | .none => True
  | .requestOffer v => v < 2 ^ 64
  | .sdp x => x.unknown = [] ∧ x.txSeqno < 2 ^ 64 ∧ x.sdpType.length < 2 ^ 61 ∧ x.sdp.length < 2 ^ 61
  | .ice x => x.unknown = [] ∧ x.candidate.length < 2 ^ 61

theorem append_length_le (v : Nat) : (Pb.append v).length ≤ 10 := by
  unfold Pb.append
  have : ∀ f v, (Pb.appendAux f v).length ≤ f + 1 := by
    intro f
    induction f with
    | zero => intro v; simp [Pb.appendAux]
    | succ f ih =>
      intro v
      unfold Pb.appendAux
      split
      · simp
      · simp only [List.length_cons]
        have := ih (v / 128)
        omega
  exact this 9 v

theorem encBytesOpt_len (n : Nat) (b : Bytes) : (encBytesOpt n b).length ≤ 20 + b.length := by
  unfold encBytesOpt encBytes tag
  split
  · simp
  · simp only [List.length_append]
    have := append_length_le (n * 8 + 2)
    have := append_length_le b.length
    omega

theorem encVarintOpt_len (n v : Nat) : (encVarintOpt n v).length ≤ 20 := by
  unfold encVarintOpt encVarint tag
  split
  · simp
  · simp only [List.length_append]
    have := append_length_le (n * 8 + 0)
    have := append_length_le v
    omega

theorem unmarshal_marshal (s : Signal) (h : WF s) : unmarshal (marshal s) = some s := by
  obtain ⟨body, unk⟩ := s
  obtain ⟨hu, hb⟩ := h
  simp only at hu hb
  subst hu
  unfold unmarshal marshal PW.decode
  cases body with
  | none => simp [decodeLoop_nil, foldBody]
  | requestOffer v =>
    simp only at hb
    simp only [List.append_nil]
    have hp := encVarint_len_pos 1 v
    obtain ⟨f, hf⟩ : ∃ f, (encVarint 1 v).length + 1 = f + 1 := ⟨_, rfl⟩
    have := stepV sigSchema 1 (by norm_num) (by decide) (by decide) (by decide) f v hb [] {}
    rw [List.append_nil] at this
    rw [hf, this, decodeLoop_nil]
    simp [foldBody, stepBody]
  | sdp x =>
    obtain ⟨hxu, htx, hty, hsd⟩ := hb
    simp only [List.append_nil]
    have hlen : (marshalSdp x).length < 2 ^ 63 := by
      unfold marshalSdp
      rw [hxu]
      simp only [List.length_append, List.length_nil]
      have := encVarintOpt_len 1 x.txSeqno
      have := encBytesOpt_len 2 x.sdpType
      have := encBytesOpt_len 3 x.sdp
      omega
    obtain ⟨f, hf⟩ : ∃ f, (encBytes 2 (marshalSdp x)).length + 1 = f + 1 := ⟨_, rfl⟩
    have := stepB sigSchema 2 (by norm_num) (by decide) (by decide) (by decide) f (marshalSdp x) hlen [] {}
    rw [List.append_nil] at this
    rw [hf, this, decodeLoop_nil]
    simp only [foldBody, stepBody, List.nil_append]
    rw [decode_marshalSdp x hxu htx (by omega) (by omega)]
    simp only [merge_sdpFields x hxu]
  | ice x =>
    obtain ⟨hxu, hc⟩ := hb
    simp only [List.append_nil]
    have hlen : (marshalIce x).length < 2 ^ 63 := by
      unfold marshalIce
      rw [hxu]
      simp only [List.length_append, List.length_nil]
      have := encBytesOpt_len 1 x.candidate
      omega
    obtain ⟨f, hf⟩ : ∃ f, (encBytes 3 (marshalIce x)).length + 1 = f + 1 := ⟨_, rfl⟩
    have := stepB sigSchema 3 (by norm_num) (by decide) (by decide) (by decide) f (marshalIce x) hlen [] {}
    rw [List.append_nil] at this
    rw [hf, this, decodeLoop_nil]
    simp only [foldBody, stepBody, List.nil_append]
    rw [decode_marshalIce x hxu (by omega)]
    simp only [merge_iceFields x hxu]

/-! ### peer ID text -/

open Bifrost.Codec in
/-- A text that parses as a peer ID parses back from the canonical text of that ID. -/
theorem idB58Decode_canonical (s id : Bytes) (h : idB58Decode s = some id) :
    id ≠ [] ∧ idB58Decode (idB58Encode id) = some id := by
  unfold idB58Decode at h
  cases hd : B58.decode s with
  | none => simp [hd] at h
  | some m =>
    simp only [hd] at h
    obtain ⟨he, r, hr⟩ := idFromBytes_some m id h
    subst he
    have hne := decodeMultihash_ne_nil id r hr
    refine ⟨hne, ?_⟩
    unfold idB58Decode idB58Encode
    rw [B58.decode_encode id hne]
    exact h


end Bifrost.Signal
