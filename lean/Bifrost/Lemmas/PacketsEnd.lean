import Bifrost.Model.PacketsEnd
/-! Helper lemmas for the end-of-stream / call-level statements of Props/C08. -/
namespace Bifrost
namespace Packets
open Framing (Reader)

theorem readFullE_eq (cs : Reader) (wl : Bool) (n : Nat) (acc : Bytes) :
    readFullE cs wl n acc = readFull cs n acc := by
  induction cs generalizing n acc with
  | nil => simp [readFullE, readFull]
  | cons ch rest ih =>
    unfold readFullE readFull
    by_cases hn : n = 0
    · simp [hn]
    · simp only [hn, ↓reduceIte]
      by_cases hc : ch.length ≤ n
      · simp only [hc, ↓reduceIte]
        by_cases hl : (rest.isEmpty && wl) = true
        · rw [if_pos hl]
          have hr : rest = [] := by
            cases rest with
            | nil => rfl
            | cons _ _ => simp at hl
          subst hr
          unfold readFull
          by_cases he : ch.length = n
          · simp [he]
          · have : n - ch.length ≠ 0 := by omega
            simp [he, this]
        · rw [if_neg hl]
          exact ih (n - ch.length) (acc ++ ch)
      · simp only [hc, ↓reduceIte]

theorem rxPumpE_eq (max : Nat) (wl : Bool) (fuel : Nat) (cs : Reader) :
    rxPumpE max wl fuel cs = rxPump max fuel cs := by
  induction fuel generalizing cs with
  | zero => rfl
  | succ f ih =>
    unfold rxPumpE rxPump
    simp only [readFullE_eq, ih]
    cases readFull cs 4 [] with
    | eof => rfl
    | unexpectedEof => rfl
    | ok h r1 =>
      dsimp only
      by_cases h0 : unle32 h = 0
      · simp only [h0, ↓reduceIte]
      · by_cases hm : unle32 h > max
        · simp only [h0, hm, ↓reduceIte]
        · simp only [h0, hm, ↓reduceIte]
          cases readFull r1 (unle32 h) [] <;> rfl

theorem recvMsgsE_eq (max : Nat) (wl : Bool) (fuel : Nat) (cs : Reader) :
    recvMsgsE max wl fuel cs = recvMsgs max fuel cs := by
  induction fuel generalizing cs with
  | zero => rfl
  | succ f ih =>
    unfold recvMsgsE recvMsgs
    simp only [readFullE_eq, ih]
    cases readFull cs 4 [] with
    | eof => rfl
    | unexpectedEof => rfl
    | ok h r1 =>
      dsimp only
      by_cases h0 : unle32 h = 0
      · simp only [h0, ↓reduceIte]
      · by_cases hm : unle32 h > max
        · simp only [h0, hm, ↓reduceIte]
        · simp only [h0, hm, ↓reduceIte]
          cases readFull r1 (unle32 h) [] <;> rfl

/-- A session that can deliver nothing any more: the framing error was recorded, or the reader
has reported its end. -/
def Sess.stuck (s : Sess) : Prop := s.dead = true ∨ s.r = []

theorem recvMsg_stuck (max : Nat) (s : Sess) (h : s.stuck) :
    (recvMsg max s).1.isErr = true ∧ (recvMsg max s).2.stuck := by
  unfold recvMsg
  by_cases hd : s.dead = true
  · simp only [hd, ↓reduceIte]
    exact ⟨rfl, Or.inl hd⟩
  · rcases h with h | h
    · exact absurd h hd
    · simp only [hd, h]
      simp [readFullE, RecvRes.isErr, Sess.stuck]

theorem recvMsg_err_stuck (max : Nat) (s : Sess) (h : (recvMsg max s).1.isErr = true) :
    (recvMsg max s).2.stuck := by
  unfold recvMsg at h ⊢
  by_cases hd : s.dead = true
  · simp only [hd, ↓reduceIte]
    exact Or.inl hd
  · simp only [hd] at h ⊢
    cases h1 : readFullE s.r s.lastWithErr 4 [] with
    | eof => simp [Sess.stuck]
    | unexpectedEof => simp [Sess.stuck]
    | ok hb r1 =>
      simp only [h1] at h ⊢
      by_cases h0 : unle32 hb = 0
      · simp [h0, RecvRes.isErr] at h
      · simp only [h0, ↓reduceIte] at h ⊢
        by_cases hm : unle32 hb > max
        · simp [hm, Sess.stuck]
        · simp only [hm, ↓reduceIte] at h ⊢
          cases h2 : readFullE r1 s.lastWithErr (unle32 hb) [] with
          | eof => simp [Sess.stuck]
          | unexpectedEof => simp [Sess.stuck]
          | ok p r2 => simp [h2, RecvRes.isErr] at h

theorem recvCalls_stuck (max : Nat) (k : Nat) (s : Sess) (h : s.stuck) :
    ∀ x ∈ recvCalls max k s, x.isErr = true := by
  induction k generalizing s with
  | zero => intro x hx; cases hx
  | succ k ih =>
    intro x hx
    unfold recvCalls at hx
    rcases List.mem_cons.mp hx with rfl | hx
    · exact (recvMsg_stuck max s h).1
    · exact ih _ (recvMsg_stuck max s h).2 x hx

theorem recvCalls_stuck_msgs (max : Nat) (k : Nat) (s : Sess) (h : s.stuck) :
    (recvCalls max k s).filterMap RecvRes.msg? = [] := by
  rw [List.filterMap_eq_nil_iff]
  intro x hx
  have := recvCalls_stuck max k s h x hx
  cases x <;> simp_all [RecvRes.isErr, RecvRes.msg?]

theorem recvCalls_msgs (max : Nat) (k : Nat) (cs : Reader) (wl : Bool) :
    (recvCalls max k ⟨cs, wl, false⟩).filterMap RecvRes.msg? = (recvMsgsE max wl k cs).1 := by
  induction k generalizing cs with
  | zero => rfl
  | succ k ih =>
    unfold recvCalls recvMsgsE
    have hstuck := recvMsg_err_stuck max ⟨cs, wl, false⟩
    unfold recvMsg at hstuck ⊢
    simp only [Bool.false_eq_true, ↓reduceIte] at hstuck ⊢
    cases h1 : readFullE cs wl 4 [] with
    | eof =>
      simp only [h1] at hstuck
      simp only [List.filterMap_cons, RecvRes.msg?]
      exact recvCalls_stuck_msgs max k _ (hstuck rfl)
    | unexpectedEof =>
      simp only [h1] at hstuck
      simp only [List.filterMap_cons, RecvRes.msg?]
      exact recvCalls_stuck_msgs max k _ (hstuck rfl)
    | ok hb r1 =>
      simp only [h1] at hstuck ⊢
      by_cases h0 : unle32 hb = 0
      · simp only [h0, ↓reduceIte, List.filterMap_cons, RecvRes.msg?]
        rw [ih r1]
      · simp only [h0, ↓reduceIte] at hstuck ⊢
        by_cases hm : unle32 hb > max
        · simp only [hm, ↓reduceIte] at hstuck ⊢
          simp only [List.filterMap_cons, RecvRes.msg?]
          exact recvCalls_stuck_msgs max k _ (hstuck rfl)
        · simp only [hm, ↓reduceIte] at hstuck ⊢
          cases h2 : readFullE r1 wl (unle32 hb) [] with
          | eof =>
            simp only [h2] at hstuck
            simp only [List.filterMap_cons, RecvRes.msg?]
            exact recvCalls_stuck_msgs max k _ (hstuck rfl)
          | unexpectedEof =>
            simp only [h2] at hstuck
            simp only [List.filterMap_cons, RecvRes.msg?]
            exact recvCalls_stuck_msgs max k _ (hstuck rfl)
          | ok p r2 =>
            simp only [List.filterMap_cons, RecvRes.msg?]
            rw [ih r2]

end Packets
end Bifrost
