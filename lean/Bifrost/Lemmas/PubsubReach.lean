import Bifrost.Lemmas.PubsubNet
/-! Reachability invariant of the floodsub network model (C28, liveness half): with stable
subscription knowledge, whatever a node has seen is — for every neighbour that it knows to be
subscribed — already seen by the neighbour, in flight to it, or queued for forwarding. -/
namespace Bifrost
namespace Pubsub
namespace Net

/-! ### list helpers -/

theorem mem_eraseIdx_or {α} (l : List α) (i : Nat) (x : α) (h : x ∈ l) :
    x ∈ l.eraseIdx i ∨ l[i]? = some x := by
  induction l generalizing i with
  | nil => cases h
  | cons a t ih =>
    cases i with
    | zero =>
      rcases List.mem_cons.mp h with e | e
      · right; simp [e]
      · left; simpa using e
    | succ j =>
      rcases List.mem_cons.mp h with e | e
      · left; simp [e]
      · rcases ih j e with h1 | h1
        · left; simp [h1]
        · right; simpa using h1

theorem mem_of_mem_eraseIdx' {α} (l : List α) (i : Nat) (x : α) (h : x ∈ l.eraseIdx i) : x ∈ l := by
  induction l generalizing i with
  | nil => simp at h
  | cons a t ih =>
    cases i with
    | zero => simp at h; exact List.mem_cons_of_mem _ h
    | succ j =>
      simp only [List.eraseIdx_cons_succ] at h
      rcases List.mem_cons.mp h with e | e
      · rw [e]; exact List.mem_cons_self
      · exact List.mem_cons_of_mem _ (ih j e)

/-! ### `hvm` facts -/

theorem hvm_conf (nd : Node) (m : Msg) (p : Nat) :
    (hvm nd m p).subs = nd.subs ∧ (hvm nd m p).know = nd.know ∧ (hvm nd m p).peers = nd.peers := by
  unfold hvm; split <;> exact ⟨rfl, rfl, rfl⟩

theorem hvm_seen_mono (nd : Node) (m : Msg) (p id : Nat) (h : id ∈ nd.seen) : id ∈ (hvm nd m p).seen := by
  unfold hvm; split
  · exact h
  · exact List.mem_cons_of_mem _ h

theorem hvm_seen_self (nd : Node) (m : Msg) (p : Nat) : m.id ∈ (hvm nd m p).seen := by
  unfold hvm; split
  · rename_i h; simpa using h
  · exact List.mem_cons_self

theorem hvm_seen_of (nd : Node) (m : Msg) (p id : Nat) (h : id ∈ (hvm nd m p).seen) :
    id ∈ nd.seen ∨ (id = m.id ∧ m.id ∉ nd.seen) := by
  unfold hvm at h; split at h
  · left; exact h
  · rename_i hs
    rcases List.mem_cons.mp h with e | e
    · right; exact ⟨e, by simpa using hs⟩
    · left; exact e

theorem hvm_queue_mem (nd : Node) (m : Msg) (p : Nat) (x : Msg × Nat) (h : x ∈ (hvm nd m p).queue) :
    x ∈ nd.queue ∨ (x = (m, p) ∧ m.id ∉ nd.seen) := by
  unfold hvm at h; split at h
  · left; exact h
  · rename_i hs
    rcases List.mem_append.mp h with e | e
    · left; exact e
    · right; exact ⟨by simpa using e, by simpa using hs⟩

theorem hvm_queue_mono (nd : Node) (m : Msg) (p : Nat) (x : Msg × Nat) (h : x ∈ nd.queue) :
    x ∈ (hvm nd m p).queue := by
  unfold hvm; split
  · exact h
  · exact List.mem_append_left _ h

theorem hvm_queue_new (nd : Node) (m : Msg) (p : Nat) (h : m.id ∉ nd.seen) : (m, p) ∈ (hvm nd m p).queue := by
  unfold hvm
  split
  · rename_i hc
    exact absurd (by simpa using hc) h
  · simp

theorem hvm_delivered_mono (nd : Node) (m : Msg) (p id : Nat) (h : id ∈ nd.delivered) :
    id ∈ (hvm nd m p).delivered := by
  unfold hvm; split
  · exact h
  · simp only; split
    · exact List.mem_cons_of_mem _ h
    · exact h

theorem hvm_delivered_new (nd : Node) (m : Msg) (p : Nat) (h : m.id ∉ nd.seen) (hs : m.ch ∈ nd.subs) :
    m.id ∈ (hvm nd m p).delivered := by
  unfold hvm
  split
  · rename_i hc
    exact absurd (by simpa using hc) h
  · simp only
    split
    · exact List.mem_cons_self
    · rename_i hc
      exact absurd (by simpa using hs) hc

theorem nodeChange_seen_mono {nd nd' : Node} (c : NodeChange nd nd') (id : Nat) (h : id ∈ nd.seen) :
    id ∈ nd'.seen := by
  cases c with
  | same => exact h
  | hvm m prev => exact hvm_seen_mono nd m prev id h
  | queue q _ => exact h
  | know k => exact h
  | subs k => exact h
  | peers k => exact h

theorem step_seen_mono (s : State) (ev : Ev) (k id : Nat) (h : id ∈ (s.nodes k).seen) :
    id ∈ ((step s ev).nodes k).seen :=
  nodeChange_seen_mono (step_nodeChange s ev k) id h

theorem run_seen_mono (s : State) (evs : List Ev) (k id : Nat) (h : id ∈ (s.nodes k).seen) :
    id ∈ ((run s evs).nodes k).seen := by
  induction evs generalizing s with
  | nil => exact h
  | cons ev rest ih => exact ih (step s ev) (step_seen_mono s ev k id h)

theorem run_publish_seen (s : State) (evs : List Ev) (n : Nat) (m : Msg) (h : Ev.publish n m ∈ evs) :
    m.id ∈ ((run s evs).nodes n).seen := by
  induction evs generalizing s with
  | nil => cases h
  | cons ev rest ih =>
    rcases List.mem_cons.mp h with e | e
    · subst e
      refine run_seen_mono (step s (Ev.publish n m)) rest n m.id ?_
      show m.id ∈ ((s.setNode n (hvm (s.nodes n) m m.origin)).nodes n).seen
      rw [setNode_nodes, if_pos rfl]
      exact hvm_seen_self _ _ _
    · exact ih (step s ev) e

/-! ### the invariant -/

/-- `a` forwards channel `ch` to `b`: `b` is a session of `a`, `a` knows that `b` subscribes,
and `b` really has the channel (so it does not drop the packet). -/
def Edge (cfg : Nat → Cfg) (ch a b : Nat) : Prop :=
  b ∈ (cfg a).peers ∧ (ch, b) ∈ (cfg a).know ∧ ch ∈ (cfg b).subs

/-- Paths of forwarding edges. -/
inductive SubPath (cfg : Nat → Cfg) (ch : Nat) : Nat → Nat → Prop where
  | refl (a : Nat) : SubPath cfg ch a a
  | tail {a b c : Nat} : SubPath cfg ch a b → Edge cfg ch b c → SubPath cfg ch a c

/-- Events that keep subscription knowledge stable and lose nothing; publishes reusing the id
of `m` are `m` itself, published at the node that owns the signing identity. -/
def Adm (m : Msg) : Ev → Prop
  | .publish n' m' => m'.id = m.id → n' = m.origin ∧ m' = m
  | .recv _ => True
  | .fwd _ => True
  | _ => False

structure Inv (cfg : Nat → Cfg) (m : Msg) (s : State) : Prop where
  conf : ∀ k, (s.nodes k).subs = (cfg k).subs ∧ (s.nodes k).know = (cfg k).know ∧ (s.nodes k).peers = (cfg k).peers
  uwire : ∀ f t m', (f, t, m') ∈ s.wire → m'.id = m.id → m' = m
  uqueue : ∀ a m' p, (m', p) ∈ (s.nodes a).queue → m'.id = m.id → m' = m
  wseen : ∀ f t, (f, t, m) ∈ s.wire → m.id ∈ (s.nodes f).seen
  qseen : ∀ a p, (m, p) ∈ (s.nodes a).queue → m.id ∈ (s.nodes a).seen ∧ m.id ∈ (s.nodes p).seen
  oseen : ∀ a, m.id ∈ (s.nodes a).seen → m.id ∈ (s.nodes m.origin).seen
  edge : ∀ a b, Edge cfg m.ch a b → m.id ∈ (s.nodes a).seen →
    m.id ∈ (s.nodes b).seen ∨ (a, b, m) ∈ s.wire ∨ ∃ p, (m, p) ∈ (s.nodes a).queue
  deliv : ∀ a, m.id ∈ (s.nodes a).seen → m.ch ∈ (cfg a).subs → m.id ∈ (s.nodes a).delivered

theorem init_inv (cfg : Nat → Cfg) (m : Msg) : Inv cfg m (init cfg) where
  conf := fun _ => ⟨rfl, rfl, rfl⟩
  uwire := by intro f t m' h; simp [init] at h
  uqueue := by intro a m' p h; simp [init] at h
  wseen := by intro f t h; simp [init] at h
  qseen := by intro a p h; simp [init] at h
  oseen := by intro a h; simp [init] at h
  edge := by intro a b _ h; simp [init] at h
  deliv := by intro a h; simp [init] at h

theorem fwdTargets_mem (nd : Node) (m : Msg) (prev p : Nat)
    (h1 : (m.ch, p) ∈ nd.know) (h2 : p ∈ nd.peers) (h3 : p ≠ m.origin) (h4 : p ≠ prev) :
    p ∈ fwdTargets nd m prev := by
  unfold fwdTargets
  rw [List.mem_filter]
  refine ⟨?_, by simp [h2, h3, h4]⟩
  rw [List.mem_map]
  exact ⟨(m.ch, p), by rw [List.mem_filter]; exact ⟨h1, by simp⟩, rfl⟩

/-- `hvm` at node `n` (for a message `m'` received from / attributed to `p`) preserves the
invariant, provided that `m'` is `m` whenever it carries `m`'s id, and that in this case `p`
has seen it and (for a local publish) `n` is the origin. -/
theorem inv_hvm (cfg : Nat → Cfg) (m : Msg) (s : State) (n p : Nat) (m' : Msg) (wire' : List (Nat × Nat × Msg))
    (h : Inv cfg m s)
    (hw : ∀ x, x ∈ wire' → x ∈ s.wire)
    (hwd : ∀ a b, (a, b, m) ∈ s.wire → (a, b, m) ∈ wire' ∨ (b = n ∧ m' = m))
    (hm : m'.id = m.id → m' = m)
    (hp : m' = m → m.id ∈ (s.nodes p).seen ∨ (p = n ∧ n = m.origin)) :
    Inv cfg m ({ s with wire := wire' }.setNode n (hvm (s.nodes n) m' p)) := by
  have hnodes : ∀ k, ({ s with wire := wire' }.setNode n (hvm (s.nodes n) m' p)).nodes k =
      if k = n then hvm (s.nodes n) m' p else s.nodes k := fun k => rfl
  have hwire : ({ s with wire := wire' }.setNode n (hvm (s.nodes n) m' p)).wire = wire' := rfl
  have mono : ∀ k id, id ∈ (s.nodes k).seen →
      id ∈ (({ s with wire := wire' }.setNode n (hvm (s.nodes n) m' p)).nodes k).seen := by
    intro k id hk
    rw [hnodes]
    split
    · rename_i e; subst e; exact hvm_seen_mono _ _ _ _ hk
    · exact hk
  have qmono : ∀ k x, x ∈ (s.nodes k).queue →
      x ∈ (({ s with wire := wire' }.setNode n (hvm (s.nodes n) m' p)).nodes k).queue := by
    intro k x hk
    rw [hnodes]
    split
    · rename_i e; subst e; exact hvm_queue_mono _ _ _ _ hk
    · exact hk
  have seenOf : ∀ k, m.id ∈ (({ s with wire := wire' }.setNode n (hvm (s.nodes n) m' p)).nodes k).seen →
      m.id ∈ (s.nodes k).seen ∨ (k = n ∧ m' = m ∧ m.id ∉ (s.nodes n).seen) := by
    intro k hk
    rw [hnodes] at hk
    split at hk
    · rename_i e
      subst e
      rcases hvm_seen_of _ _ _ _ hk with h1 | ⟨h1, h2⟩
      · left; exact h1
      · right
        have := hm h1.symm
        exact ⟨rfl, this, by rw [this] at h2; exact h2⟩
    · left; exact hk
  have newSeen : m' = m → m.id ∈ (({ s with wire := wire' }.setNode n (hvm (s.nodes n) m' p)).nodes n).seen := by
    intro e
    rw [hnodes, if_pos rfl, ← e]
    exact hvm_seen_self _ _ _
  constructor
  · intro k
    rw [hnodes]
    split
    · rename_i e; subst e
      obtain ⟨a, b, c⟩ := hvm_conf (s.nodes k) m' p
      rw [a, b, c]; exact h.conf k
    · exact h.conf k
  · intro f t m'' hx hid
    exact h.uwire f t m'' (hw _ (by rw [hwire] at hx; exact hx)) hid
  · intro a m'' q hx hid
    rw [hnodes] at hx
    split at hx
    · rename_i e; subst e
      rcases hvm_queue_mem _ _ _ _ hx with h1 | ⟨h1, _⟩
      · exact h.uqueue a m'' q h1 hid
      · have : m'' = m' := by injection h1
        rw [this] at hid ⊢
        exact hm hid
    · exact h.uqueue a m'' q hx hid
  · intro f t hx
    rw [hwire] at hx
    exact mono f _ (h.wseen f t (hw _ hx))
  · intro a q hx
    rw [hnodes] at hx
    split at hx
    · rename_i e; subst e
      rcases hvm_queue_mem _ _ _ _ hx with h1 | ⟨h1, _⟩
      · obtain ⟨x, y⟩ := h.qseen a q h1
        exact ⟨mono a _ x, mono q _ y⟩
      · have e1 : m = m' := by injection h1
        have e2 : q = p := by injection h1
        subst e2
        refine ⟨newSeen e1.symm, ?_⟩
        rcases hp e1.symm with hp1 | ⟨hp1, _⟩
        · exact mono q _ hp1
        · have hx := newSeen e1.symm
          rw [hnodes] at hx ⊢
          rw [if_pos hp1]
          rw [if_pos rfl] at hx
          exact hx
    · obtain ⟨x, y⟩ := h.qseen a q hx
      exact ⟨mono a _ x, mono q _ y⟩
  · intro a ha
    rcases seenOf a ha with h1 | ⟨h1, h2, _⟩
    · exact mono _ _ (h.oseen a h1)
    · subst h1
      rcases hp h2 with hp1 | ⟨_, hp2⟩
      · exact mono _ _ (h.oseen p hp1)
      · rw [← hp2]; exact ha
  · intro a b hedge ha
    rcases seenOf a ha with h1 | ⟨h1, h2, h3⟩
    · rcases h.edge a b hedge h1 with e1 | e1 | ⟨q, e1⟩
      · left; exact mono b _ e1
      · rcases hwd a b e1 with e2 | ⟨e2, e3⟩
        · right; left; rw [hwire]; exact e2
        · left; subst e2; exact newSeen e3
      · right; right; exact ⟨q, qmono a _ e1⟩
    · subst h1
      right; right
      refine ⟨p, ?_⟩
      rw [hnodes, if_pos rfl, h2]
      exact hvm_queue_new _ _ _ h3
  · intro a ha hsub
    rw [hnodes]
    rcases seenOf a ha with h1 | ⟨h1, h2, h3⟩
    · have := h.deliv a h1 hsub
      split
      · rename_i e; subst e; exact hvm_delivered_mono _ _ _ _ this
      · exact this
    · subst h1
      rw [if_pos rfl, h2]
      apply hvm_delivered_new _ _ _ h3
      rw [(h.conf a).1]; exact hsub

theorem step_inv (cfg : Nat → Cfg) (m : Msg) (s : State) (ev : Ev) (h : Inv cfg m s) (hadm : Adm m ev) :
    Inv cfg m (step s ev) := by
  cases ev with
  | publish n' m' =>
    simp only [Adm] at hadm
    have := inv_hvm cfg m s n' m'.origin m' s.wire h (fun _ hx => hx) (fun a b hx => Or.inl hx)
      (fun e => (hadm e).2)
      (fun e => by
        right
        have h1 := (hadm (by rw [e])).1
        exact ⟨by rw [h1, e], h1⟩)
    exact this
  | recv i =>
    simp only [step]
    split
    · exact h
    · rename_i f t m' hget
      have hmem : (f, t, m') ∈ s.wire := List.mem_of_getElem? hget
      split
      · rename_i hsub
        refine inv_hvm cfg m s t f m' (s.wire.eraseIdx i) h (fun x hx => mem_of_mem_eraseIdx' _ _ _ hx) ?_
          (fun e => h.uwire f t m' hmem e) (fun e => ?_)
        · intro a b hx
          rcases mem_eraseIdx_or _ i _ hx with h1 | h1
          · left; exact h1
          · right
            rw [hget] at h1
            injection h1 with h1
            injection h1 with h1 h2
            injection h2 with h2 h3
            exact ⟨h2.symm, h3⟩
        · left
          rw [e] at hmem
          exact h.wseen f t hmem
      · rename_i hsub
        -- dropped: the destination has no such channel
        constructor
        · exact h.conf
        · intro f' t' m'' hx hid; exact h.uwire f' t' m'' (mem_of_mem_eraseIdx' _ _ _ hx) hid
        · exact h.uqueue
        · intro f' t' hx; exact h.wseen f' t' (mem_of_mem_eraseIdx' _ _ _ hx)
        · exact h.qseen
        · exact h.oseen
        · intro a b hedge ha
          rcases h.edge a b hedge ha with e1 | e1 | e1
          · left; exact e1
          · rcases mem_eraseIdx_or _ i _ e1 with h1 | h1
            · right; left; exact h1
            · exfalso
              rw [hget] at h1
              injection h1 with h1
              injection h1 with h1 h2
              injection h2 with h2 h3
              apply hsub
              rw [h2, h3, (h.conf b).1]
              simpa using hedge.2.2
          · right; right; exact e1
        · exact h.deliv
  | fwd n =>
    simp only [step]
    split
    · exact h
    · rename_i m' prev rest hq
      have hhead : (m', prev) ∈ (s.nodes n).queue := by rw [hq]; exact List.mem_cons_self
      have hrest : ∀ x, x ∈ rest → x ∈ (s.nodes n).queue := by
        intro x hx; rw [hq]; exact List.mem_cons_of_mem _ hx
      have hnodes : ∀ k, (({ (s.setNode n { s.nodes n with queue := rest }) with
          wire := (s.setNode n { s.nodes n with queue := rest }).wire ++ (fwdTargets (s.nodes n) m' prev).map (fun p => (n, p, m')),
          sent := (s.setNode n { s.nodes n with queue := rest }).sent ++ (fwdTargets (s.nodes n) m' prev).map (fun p => ⟨n, p, m', prev⟩) } : State).nodes k) =
          if k = n then { s.nodes n with queue := rest } else s.nodes k := fun k => rfl
      have hseen : ∀ k, (if k = n then { s.nodes n with queue := rest } else s.nodes k).seen = (s.nodes k).seen := by
        intro k; split
        · rename_i e; subst e; rfl
        · rfl
      have hqsub : ∀ k x, x ∈ (if k = n then { s.nodes n with queue := rest } else s.nodes k).queue → x ∈ (s.nodes k).queue := by
        intro k x hx
        split at hx
        · rename_i e; subst e; exact hrest x hx
        · exact hx
      constructor
      · intro k
        rw [hnodes]
        split
        · rename_i e; subst e; exact h.conf k
        · exact h.conf k
      · intro f t m'' hx hid
        simp only [setNode_wire, List.mem_append, List.mem_map] at hx
        rcases hx with hx | ⟨p, _, hp⟩
        · exact h.uwire f t m'' hx hid
        · injection hp with _ hp
          injection hp with _ hp
          rw [← hp] at hid ⊢
          exact h.uqueue n m' prev hhead hid
      · intro a m'' p hx hid
        rw [hnodes] at hx
        exact h.uqueue a m'' p (hqsub a _ hx) hid
      · intro f t hx
        rw [hnodes, hseen]
        simp only [setNode_wire, List.mem_append, List.mem_map] at hx
        rcases hx with hx | ⟨p, _, hp⟩
        · exact h.wseen f t hx
        · injection hp with h1 hp
          injection hp with _ hp
          rw [← h1]
          rw [hp] at hhead
          exact (h.qseen n prev hhead).1
      · intro a p hx
        rw [hnodes] at hx
        rw [hnodes, hnodes, hseen, hseen]
        exact h.qseen a p (hqsub a _ hx)
      · intro a ha
        rw [hnodes, hseen] at ha ⊢
        exact h.oseen a ha
      · intro a b hedge ha
        rw [hnodes, hseen] at ha
        rw [hnodes, hseen]
        rcases h.edge a b hedge ha with e1 | e1 | ⟨p, e1⟩
        · left; exact e1
        · right; left
          simp only [setNode_wire, List.mem_append]
          left; exact e1
        · by_cases han : a = n
          · subst han
            rw [hq] at e1
            rcases List.mem_cons.mp e1 with e2 | e2
            · -- the forwarded entry itself
              have em : m = m' := by injection e2
              have ep : p = prev := by injection e2
              subst em ep
              by_cases hbo : b = m.origin
              · left; rw [hbo]; exact h.oseen a ha
              · by_cases hbp : b = p
                · left; rw [hbp]; exact (h.qseen a p hhead).2
                · right; left
                  simp only [setNode_wire, List.mem_append, List.mem_map]
                  right
                  refine ⟨b, ?_, rfl⟩
                  apply fwdTargets_mem _ _ _ _ _ _ hbo hbp
                  · rw [(h.conf a).2.1]; exact hedge.2.1
                  · rw [(h.conf a).2.2]; exact hedge.1
            · right; right
              refine ⟨p, ?_⟩
              rw [hnodes, if_pos rfl]
              exact e2
          · right; right
            refine ⟨p, ?_⟩
            rw [hnodes, if_neg han]
            exact e1
      · intro a ha hsub
        rw [hnodes, hseen] at ha
        rw [hnodes]
        have := h.deliv a ha hsub
        split
        · rename_i e; subst e; exact this
        · exact this
  | learn n p ch b => exact absurd hadm (by simp [Adm])
  | setSub n ch b => exact absurd hadm (by simp [Adm])
  | setPeer n p b => exact absurd hadm (by simp [Adm])
  | lose i => exact absurd hadm (by simp [Adm])

theorem run_inv (cfg : Nat → Cfg) (m : Msg) (s : State) (evs : List Ev) (h : Inv cfg m s)
    (hadm : ∀ ev ∈ evs, Adm m ev) : Inv cfg m (run s evs) := by
  induction evs generalizing s with
  | nil => exact h
  | cons ev rest ih =>
    exact ih (step s ev) (step_inv cfg m s ev h (hadm ev List.mem_cons_self))
      (fun e he => hadm e (List.mem_cons_of_mem _ he))

/-- At quiescence everything seen has crossed every forwarding edge. -/
theorem quiescent_path (cfg : Nat → Cfg) (m : Msg) (s : State) (h : Inv cfg m s)
    (hw : s.wire = []) (hq : ∀ n, (s.nodes n).queue = []) (a b : Nat)
    (hp : SubPath cfg m.ch a b) (ha : m.id ∈ (s.nodes a).seen) : m.id ∈ (s.nodes b).seen := by
  induction hp with
  | refl => exact ha
  | tail _ hedge ih =>
    rcases h.edge _ _ hedge ih with e | e | ⟨p, e⟩
    · exact e
    · rw [hw] at e; cases e
    · rw [hq] at e; cases e

end Net
end Pubsub
end Bifrost
