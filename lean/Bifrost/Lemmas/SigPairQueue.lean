import Bifrost.Lemmas.SigPairMono
/-!
C23 liveness, stable-pair machine: what a step does to the downstream pipeline
`(s2c, relay outbox, announced epoch)` of side x (`QEff`), and the announcement counter used to
show that stale `Opened`/`Closed` announcements are eventually flushed (`lastAnn`).
-/
namespace Bifrost
namespace SigPair
open Bifrost.SigSys Bifrost.SigPairCli
set_option linter.unusedSimpArgs false

/-- effect of one step on the downstream pipeline of a side -/
inductive QEff (h h' : Half) (ep : Nat) : Prop
  | same : h'.dn = h.dn → h'.box = h.box → h'.ann = h.ann → QEff h h' ep
  | tx (r : Sig.Resp) : h.box = r :: h'.box → h'.dn = h.dn ++ [r] → h'.ann = h.ann → QEff h h' ep
  | rx (r : Sig.Resp) : h.dn = r :: h'.dn → h'.box = h.box → h'.ann = h.ann → QEff h h' ep
  | loop : h.box = [] → h'.box = loopOut h.ann ep h.att → h'.dn = h.dn → h'.ann = some ep → QEff h h' ep

theorem stepX_rx_cons {p : PState} {r : Sig.Resp} {rest : List Sig.Resp} (h : p.x.dn = r :: rest) :
    stepX p .rx = { p with x := { p.x with cl := rxEv r p.x.cl, dn := rest } } := by simp [stepX, h]

theorem stepX_srvTx_cons {p : PState} {r : Sig.Resp} {rest : List Sig.Resp} (h : p.x.box = r :: rest) :
    stepX p .srvTx = { p with x := { p.x with box := rest, dn := p.x.dn ++ [r] } } := by simp [stepX, h]

theorem stepX_srvLoop_en {p : PState} (hen : p.x.box = [] ∧ p.x.wait < p.gen) :
    stepX p .srvLoop =
      { p with x := { p.x with att := loopAtt p.x.att, wait := p.gen, ann := some p.ep,
                               box := loopOut p.x.ann p.ep p.x.att },
               gen := if p.x.att.recv.isSome then p.gen + 1 else p.gen } := by
  simp only [stepX, hen, and_self, if_true, List.nil_append]

theorem qeff_self (p : PState) (a : Act) : QEff p.x (stepX p a).x p.ep := by
  cases a with
  | sendStart m => exact QEff.same rfl rfl rfl
  | sendStep id => exact QEff.same rfl rfl rfl
  | recvStep => exact QEff.same rfl rfl rfl
  | tx => exact QEff.same rfl rfl rfl
  | rx =>
    cases hd : p.x.dn with
    | nil =>
      have : stepX p .rx = p := by simp [stepX, hd]
      rw [this]; exact QEff.same rfl rfl rfl
    | cons r rest => rw [stepX_rx_cons hd]; exact QEff.rx r hd rfl rfl
  | srvRx =>
    by_cases hrd : p.x.rd = true
    · have : stepX p .srvRx = p := by simp [stepX, hrd]
      rw [this]; exact QEff.same rfl rfl rfl
    · cases hu : p.x.up with
      | nil =>
        have : stepX p .srvRx = p := by simp [stepX, hu]
        rw [this]; exact QEff.same rfl rfl rfl
      | cons r rest =>
        have hst : stepX p .srvRx = relayReq { p with x := { p.x with up := rest } } r := by simp [stepX, hrd, hu]
        rw [hst]
        obtain ⟨ax, rd, e1, _⟩ := relayReq_self { p with x := { p.x with up := rest } } r
        rw [e1]; exact QEff.same rfl rfl rfl
  | srvLoop =>
    by_cases hen : p.x.box = [] ∧ p.x.wait < p.gen
    · rw [stepX_srvLoop_en hen]; exact QEff.loop hen.1 rfl rfl rfl
    · have : stepX p .srvLoop = p := by simp only [stepX]; simp [hen]
      rw [this]; exact QEff.same rfl rfl rfl
  | srvTx =>
    cases hb : p.x.box with
    | nil =>
      have : stepX p .srvTx = p := by simp [stepX, hb]
      rw [this]; exact QEff.same rfl rfl rfl
    | cons r rest => rw [stepX_srvTx_cons hb]; exact QEff.tx r hb rfl rfl

theorem qeff (p : PState) (sd : Bool) (a : Act) : QEff p.x (step p (sd, a)).x p.ep := by
  cases sd with
  | true => simpa [step] using qeff_self p a
  | false =>
    obtain ⟨a', h1, _⟩ := stepX_other p.swap a
    have : (step p (false, a)).x = { p.x with att := a' } := by simpa [step] using h1
    rw [this]; exact QEff.same rfl rfl rfl

/-! ### counting down to the last announcement in flight -/

/-- length of the shortest prefix of `l` that contains every announcement of `l` -/
def lastAnn : List Sig.Resp → Nat
  | [] => 0
  | r :: l => if isAnn r = true ∨ 0 < lastAnn l then lastAnn l + 1 else 0

theorem lastAnn_eq_zero {l : List Sig.Resp} : lastAnn l = 0 ↔ noAnn l := by
  induction l with
  | nil => simp [lastAnn, noAnn]
  | cons r l ih =>
    simp only [lastAnn, noAnn, List.mem_cons, forall_eq_or_imp]
    constructor
    · intro h
      split at h
      · omega
      · rename_i hn
        have h1 : ¬ isAnn r = true := fun h' => hn (Or.inl h')
        have h2 : lastAnn l = 0 := by
          have : ¬ 0 < lastAnn l := fun h' => hn (Or.inr h')
          omega
        exact ⟨by simpa using h1, ih.1 h2⟩
    · rintro ⟨h1, h2⟩
      have := ih.2 h2
      simp [h1, this]

theorem lastAnn_append_noAnn {l l' : List Sig.Resp} (h : noAnn l') : lastAnn (l ++ l') = lastAnn l := by
  induction l with
  | nil => simpa [lastAnn] using lastAnn_eq_zero.2 h
  | cons r l ih => simp only [List.cons_append, lastAnn, ih]

theorem lastAnn_tail {r : Sig.Resp} {l : List Sig.Resp} (h : 0 < lastAnn (r :: l)) :
    lastAnn l + 1 = lastAnn (r :: l) := by
  simp only [lastAnn] at h ⊢
  split
  · rfl
  · rename_i hn; simp [hn] at h

end SigPair
end Bifrost
