import Bifrost.Lemmas.SigPairView
import Bifrost.Lemmas.SigPairCli
/-!
Invariants of the stable-pair machine (`SigPair`) used by the C23 liveness proof — definitions:

* `HalfInv`: per side — tracker reachable, reader alive, every epoch in flight is at most the
  session epoch, the announcement bookkeeping (`sync`: once the relay has announced the current
  epoch, the tracker will be in that epoch when it has read what is in flight), C22's wake-up
  condition;
* `Tk`: WHERE the in-flight message of side x (transmitted in the current epoch, not yet
  acknowledged) is on its way x → relay → y → relay → x, with what must stay true behind it
  (`onlyAckQ`, `onlyAckR`: nothing that could overtake or wipe it is queued behind it);
* `Tok`: such a location always exists (the "token" invariant);
* `Rk`: the rank of side x's current `Send` (`Stage` + position), the measure of the liveness proof.
-/
namespace Bifrost
namespace SigPair
open Bifrost.SigSys Bifrost.SigPairCli

def isAnn : Sig.Resp → Bool
  | .opened _ => true
  | .closed => true
  | _ => false

def reqEpoch : SigC.Req → Nat
  | .ack e _ => e
  | .clear e _ => e
  | .send e _ => e

/-- the tracker's `open_` after it has processed the responses `l` -/
def syncAfter (o : Option Nat) : List Sig.Resp → Option Nat
  | [] => o
  | .opened e :: l => syncAfter (some e) l
  | .closed :: l => syncAfter none l
  | .ack _ :: l | .clear _ :: l | .recv _ :: l | .setPeer _ :: l | .clearPeer _ :: l => syncAfter o l

/-- only acknowledgement requests -/
def onlyAckQ (l : List SigC.Req) : Prop := ∀ r ∈ l, ∃ e k, r = SigC.Req.ack e k
/-- only acknowledgement responses -/
def onlyAckR (l : List Sig.Resp) : Prop := ∀ r ∈ l, ∃ k, r = Sig.Resp.ack k

structure HalfInv (h : Half) (gen ep : Nat) : Prop where
  reach : SigC.Reachable h.cl
  rd : h.rd = false
  upLe : ∀ r ∈ h.up, reqEpoch r ≤ ep
  openLe : ∀ e, h.cl.open_ = some e → e ≤ ep
  annLe : ∀ e, h.ann = some e → e ≤ ep
  dnLe : ∀ e, Sig.Resp.opened e ∈ h.dn ++ h.box → e ≤ ep
  sync : h.ann = some ep → syncAfter h.cl.open_ (h.dn ++ h.box) = some ep
  wake : WakeOk h gen ep

/-- the stages of one `Send` of side x, in the order of progress (`num` decreases) -/
inductive Stage where
  | acked    -- 1: the ack has reached the tracker (`outAcked`)
  | ackDn    -- 2: ack in x's s2c
  | ackBox   -- 3: ack in x's relay outbox
  | ackAttE  -- 4: ack stored in x's attachment, outbox empty (write loop runs next)
  | ackAttB  -- 5: ack stored in x's attachment, outbox still draining
  | ackUp    -- 6: y's ack request in y's c2s
  | rcvP     -- 7: y's tracker holds the message, application has taken it (`recvProcessed`)
  | rcvU     -- 8: y's tracker holds the message, not yet taken by `Recv`
  | rcvDn    -- 9: message in y's s2c
  | rcvBox   -- 10: message in y's relay outbox
  | relE     -- 11: message stored in y's attachment, y's outbox empty
  | relB     -- 12: message stored in y's attachment, y's outbox still draining
  | sndUp    -- 13: x's send request in x's c2s
  | unsent   -- 14: message in the slot, not yet transmitted in this epoch
  | free     -- 15: slot free, a `Send` is pending
  | cancel   -- 16: a cancelled message still occupies the slot
deriving DecidableEq, Repr

def Stage.num : Stage → Nat
  | .acked => 1 | .ackDn => 2 | .ackBox => 3 | .ackAttE => 4 | .ackAttB => 5 | .ackUp => 6
  | .rcvP => 7 | .rcvU => 8 | .rcvDn => 9 | .rcvBox => 10 | .relE => 11 | .relB => 12
  | .sndUp => 13 | .unsent => 14 | .free => 15 | .cancel => 16

/-- how far the tracker is from having its own outgoing slot idle-and-transmitted (used at stage
`rcvP`, where y's main loop transmits its own pending message before the ack) -/
def wt (s : SigC.State) : Nat :=
  3 * pend s + (match s.out with
    | none => 2
    | some _ => if s.outCancel then 3 else if s.outSent then 0 else 1)

/-- the message `m` of side x is in flight: transmitted in this epoch, not acknowledged, not cancelled -/
def Sent (p : PState) (m : SigC.Msg) : Prop :=
  p.x.cl.out = some m ∧ p.x.cl.outSent = true ∧ p.x.cl.outAcked = false ∧ p.x.cl.outCancel = false

/-- guards of the stages where y's relay attachment remembers having forwarded `m` -/
def FwdG (p : PState) (m : SigC.Msg) : Prop :=
  p.y.att.recvSent = some m.seqno ∧ p.y.att.recv = none ∧ p.y.att.recvClear = none ∧ p.y.ann = some p.ep ∧
    onlyAckQ p.x.up

/-- guards of the stages where x's relay attachment holds the ack -/
def AckG (p : PState) (m : SigC.Msg) : Prop :=
  p.x.att.outAcked = some m.seqno ∧ onlyAckQ p.x.up ∧ p.y.att.recv = none ∧ p.y.att.recvSent = none

/-- `l = pre ++ x :: post` with `pre.length = j` -/
def At {α : Type} (l : List α) (x : α) (j : Nat) (post : List α) : Prop :=
  ∃ pre, l = pre ++ x :: post ∧ pre.length = j

/-- location of the in-flight message `m` of side x (stage, position) -/
def Tk (p : PState) (m : SigC.Msg) : Stage → Nat → Prop
  | .ackDn, j => ∃ post, At p.x.dn (Sig.Resp.ack m.seqno) j post
  | .ackBox, j => ∃ post, At p.x.box (Sig.Resp.ack m.seqno) j post
  | .ackAttE, _ => AckG p m ∧ p.x.box = []
  | .ackAttB, j => AckG p m ∧ p.x.box ≠ [] ∧ j = p.x.box.length
  | .ackUp, j => p.y.att.recvSent = some m.seqno ∧ p.y.att.recv = none ∧ onlyAckQ p.x.up ∧
      ∃ post, At p.y.up (SigC.Req.ack p.ep m.seqno) j post
  | .rcvP, j => FwdG p m ∧ p.y.cl.recv = some m ∧ p.y.cl.recvProcessed = true ∧ onlyAckR p.y.dn ∧
      onlyAckR p.y.box ∧ j = wt p.y.cl
  | .rcvU, _ => FwdG p m ∧ p.y.cl.recv = some m ∧ p.y.cl.recvProcessed = false ∧ onlyAckR p.y.dn ∧
      onlyAckR p.y.box
  | .rcvDn, j => FwdG p m ∧ (∃ post, At p.y.dn (Sig.Resp.recv (toSrvMsg m)) j post ∧ onlyAckR post) ∧
      onlyAckR p.y.box
  | .rcvBox, j => FwdG p m ∧ ∃ post, At p.y.box (Sig.Resp.recv (toSrvMsg m)) j post ∧ onlyAckR post
  | .relE, _ => p.y.att.recv = some (toSrvMsg m) ∧ onlyAckQ p.x.up ∧ p.y.box = []
  | .relB, j => p.y.att.recv = some (toSrvMsg m) ∧ onlyAckQ p.x.up ∧ p.y.box ≠ [] ∧ j = p.y.box.length
  | .sndUp, j => ∃ post, At p.x.up (SigC.Req.send p.ep m) j post ∧ onlyAckQ post
  | _, _ => False

/-- the token invariant: an in-flight message of the current epoch is somewhere on its way -/
def Tok (p : PState) : Prop :=
  ∀ m, p.x.cl.open_ = some p.ep → Sent p m → ∃ st j, Tk p m st j

/-- rank of side x's current `Send` -/
def Rk (p : PState) : Stage → Nat → Prop
  | .acked, j => ∃ o, p.x.cl.out = some o ∧ o.seqno = j ∧ p.x.cl.outAcked = true ∧ p.x.cl.outCancel = false
  | .unsent, _ => ∃ o, p.x.cl.out = some o ∧ p.x.cl.outSent = false ∧ p.x.cl.outCancel = false
  | .free, j => p.x.cl.out = none ∧ Pending p.x.cl j
  | .cancel, _ => ∃ o, p.x.cl.out = some o ∧ p.x.cl.outCancel = true
  | st, j => ∃ m, Sent p m ∧ Tk p m st j

/-- lexicographic order on `(stage number, position)` -/
def LexLe (a b : Nat × Nat) : Prop := a.1 < b.1 ∨ (a.1 = b.1 ∧ a.2 ≤ b.2)
def LexLt (a b : Nat × Nat) : Prop := a.1 < b.1 ∨ (a.1 = b.1 ∧ a.2 < b.2)

/-- the invariant of the pair on a stable suffix -/
structure PInv (p : PState) : Prop where
  hx : HalfInv p.x p.gen p.ep
  hy : HalfInv p.y p.gen p.ep
  tx : Tok p
  ty : Tok p.swap

theorem PInv.swap {p : PState} (h : PInv p) : PInv p.swap := ⟨h.hy, h.hx, h.ty, h.tx⟩

@[simp] theorem toCli_toSrv (m : SigC.Msg) : toCliMsg (toSrvMsg m) = m := rfl
@[simp] theorem toSrv_seqno (m : SigC.Msg) : (toSrvMsg m).seqno = m.seqno := rfl

theorem onlyAckQ_nil : onlyAckQ [] := fun _ h => by simp at h
theorem onlyAckR_nil : onlyAckR [] := fun _ h => by simp at h

theorem onlyAckQ_append {l l' : List SigC.Req} : onlyAckQ (l ++ l') ↔ onlyAckQ l ∧ onlyAckQ l' := by
  simp only [onlyAckQ, List.mem_append]
  exact ⟨fun h => ⟨fun r hr => h r (Or.inl hr), fun r hr => h r (Or.inr hr)⟩,
    fun h r hr => hr.elim (h.1 r) (h.2 r)⟩

theorem onlyAckR_append {l l' : List Sig.Resp} : onlyAckR (l ++ l') ↔ onlyAckR l ∧ onlyAckR l' := by
  simp only [onlyAckR, List.mem_append]
  exact ⟨fun h => ⟨fun r hr => h r (Or.inl hr), fun r hr => h r (Or.inr hr)⟩,
    fun h r hr => hr.elim (h.1 r) (h.2 r)⟩

theorem onlyAckQ_cons {r : SigC.Req} {l : List SigC.Req} : onlyAckQ (r :: l) ↔ (∃ e k, r = .ack e k) ∧ onlyAckQ l := by
  simp only [onlyAckQ, List.mem_cons]
  exact ⟨fun h => ⟨h r (Or.inl rfl), fun x hx => h x (Or.inr hx)⟩,
    fun h x hx => hx.elim (fun e => e ▸ h.1) (h.2 x)⟩

theorem onlyAckR_cons {r : Sig.Resp} {l : List Sig.Resp} : onlyAckR (r :: l) ↔ (∃ k, r = .ack k) ∧ onlyAckR l := by
  simp only [onlyAckR, List.mem_cons]
  exact ⟨fun h => ⟨h r (Or.inl rfl), fun x hx => h x (Or.inr hx)⟩,
    fun h x hx => hx.elim (fun e => e ▸ h.1) (h.2 x)⟩

theorem syncAfter_onlyAck {l : List Sig.Resp} (h : onlyAckR l) (o : Option Nat) : syncAfter o l = o := by
  induction l with
  | nil => rfl
  | cons r l ih =>
    obtain ⟨⟨k, rfl⟩, h2⟩ := onlyAckR_cons.1 h
    simpa [syncAfter] using ih h2

theorem syncAfter_append (o : Option Nat) (l l' : List Sig.Resp) :
    syncAfter o (l ++ l') = syncAfter (syncAfter o l) l' := by
  induction l generalizing o with
  | nil => rfl
  | cons r l ih => cases r <;> simp [syncAfter, ih]

end SigPair
end Bifrost
