import Bifrost.Model.QuicTable
import Bifrost.Lemmas.Links
import Bifrost.Lemmas.QuicTableCtrl
/-! The reachable-state invariant of the composed system (QUIC address table + controller
tables + pending goroutines). Helper lemmas for C06Quic. -/
namespace Bifrost
namespace QuicTable
open Links (Link)

/-! ### projections of `ctrlStep` / `closeBody` -/

@[simp] theorem ctrlStep_ctrl (s : State) (op : Links.Op) :
    (ctrlStep s op).ctrl = Links.step s.ctrl op := rfl
@[simp] theorem ctrlStep_pendClose (s : State) (op : Links.Op) :
    (ctrlStep s op).pendClose = newClosed s.ctrl (Links.step s.ctrl op) ++ s.pendClose := rfl
@[simp] theorem ctrlStep_created (s : State) (op : Links.Op) : (ctrlStep s op).created = s.created := rfl
@[simp] theorem ctrlStep_table (s : State) (op : Links.Op) : (ctrlStep s op).table = s.table := rfl
@[simp] theorem ctrlStep_closedCb (s : State) (op : Links.Op) : (ctrlStep s op).closedCb = s.closedCb := rfl
@[simp] theorem ctrlStep_pendEst (s : State) (op : Links.Op) : (ctrlStep s op).pendEst = s.pendEst := rfl
@[simp] theorem ctrlStep_pendLost (s : State) (op : Links.Op) : (ctrlStep s op).pendLost = s.pendLost := rfl
@[simp] theorem ctrlStep_pendCtrlLost (s : State) (op : Links.Op) :
    (ctrlStep s op).pendCtrlLost = s.pendCtrlLost := rfl
@[simp] theorem ctrlStep_lostSeen (s : State) (op : Links.Op) : (ctrlStep s op).lostSeen = s.lostSeen := rfl
@[simp] theorem ctrlStep_late (s : State) (op : Links.Op) : (ctrlStep s op).late = s.late := rfl

/-- `closeBody` either does nothing, or marks a created, not yet closed link closed and starts
its `handleLinkLost` goroutine. -/
theorem closeBody_cases (s : State) (i : Nat) :
    closeBody s i = s ∨
    ∃ e ∈ s.created, e.2.id = i ∧ i ∉ s.closedCb ∧
      closeBody s i = { s with closedCb := i :: s.closedCb, pendLost := e :: s.pendLost } := by
  unfold closeBody
  split
  · exact Or.inl rfl
  · rename_i e hf
    split
    · exact Or.inl rfl
    · rename_i hn
      refine Or.inr ⟨e, List.mem_of_find?_eq_some hf, ?_, hn, rfl⟩
      simpa using List.find?_some hf

/-- After `Close()` ran on link object `i`, it is closed (if the object exists). -/
theorem closeBody_closed (s : State) (i : Nat) (h : ∃ e ∈ s.created, e.2.id = i) :
    i ∈ (closeBody s i).closedCb := by
  unfold closeBody
  split
  · rename_i hf
    obtain ⟨e, he, hid⟩ := h
    have := List.find?_eq_none.1 hf e he
    simp [hid] at this
  · split
    · assumption
    · exact List.mem_cons_self

theorem closeBody_pendClose (s : State) (i : Nat) (p : List Nat) :
    closeBody { s with pendClose := p } i = { closeBody s i with pendClose := p } := by
  unfold closeBody
  simp only
  split
  · rfl
  · split <;> rfl

/-! ### the invariant -/

structure QInv (s : State) : Prop where
  /-- link ids are the creation indices: all below the counter, pairwise different -/
  cr_lt : ∀ e ∈ s.created, e.2.id < s.created.length
  cr_nd : (s.created.map (fun e => e.2.id)).Nodup
  cb_lt : ∀ i ∈ s.closedCb, i < s.created.length
  /-- a table entry is the newest link created at its address -/
  tbl_latest : ∀ e ∈ s.table, s.created.find? (fun c => c.1 = e.1) = some e
  /-- the controller state is a run of the controller model over links of this transport -/
  ctrl_hist : ∃ cops, s.ctrl = Links.run cops ∧ Links.WFH cops ∧
    ∀ x ∈ Links.histLinks cops, ∃ a, (a, x) ∈ s.created
  pe_cr : ∀ l ∈ s.pendEst, ∃ a, (a, l) ∈ s.created
  pl_cr : ∀ e ∈ s.pendLost, e ∈ s.created ∧ e.2.id ∈ s.closedCb
  pcl_cr : ∀ l ∈ s.pendCtrlLost, ∃ a, (a, l) ∈ s.created
  /-- a closed link's loss is on its way to the controller, or has been processed there -/
  cb_phase : ∀ e ∈ s.created, e.2.id ∈ s.closedCb →
    e ∈ s.pendLost ∨ e.2 ∈ s.pendCtrlLost ∨ e.2.id ∈ s.lostSeen
  /-- a link is in the controller tables after its loss was processed only if its
  establishment was processed after its loss -/
  seen_late : ∀ l ∈ s.ctrl.links, l.id ∈ s.lostSeen → l.id ∈ s.late
  /-- an open table entry whose establishment was processed and that nobody asked to close is
  in the controller tables -/
  tbl_ctrl : ∀ e ∈ s.table, e.2.id ∉ s.closedCb → e.2 ∉ s.pendEst → e.2.id ∉ s.pendClose →
    e.2 ∈ s.ctrl.links
  /-- an open link that nobody asked to close is still the entry of its address -/
  cr_tbl : ∀ e ∈ s.created, e.2.id ∉ s.closedCb → e.2.id ∉ s.pendClose → e ∈ s.table

theorem qinv_init : QInv {} := by
  constructor <;> try simp
  exact ⟨[], rfl, fun _ h => by simp [Links.histLinks] at h, fun _ h => by simp [Links.histLinks] at h⟩

theorem created_inj {s : State} (h : QInv s) :
    ∀ e ∈ s.created, ∀ e' ∈ s.created, e.2.id = e'.2.id → e = e' :=
  Links.inj_of_nodup_map (fun (e : Entry) => e.2.id) h.cr_nd

theorem created_link_inj {s : State} (h : QInv s) {a b : Nat} {x y : Link}
    (hx : (a, x) ∈ s.created) (hy : (b, y) ∈ s.created) (hid : x.id = y.id) : x = y := by
  have := created_inj h _ hx _ hy hid
  exact congrArg Prod.snd this

theorem table_sub_created {s : State} (h : QInv s) : ∀ e ∈ s.table, e ∈ s.created :=
  fun e he => List.mem_of_find?_eq_some (h.tbl_latest e he)

theorem table_key_unique {s : State} (h : QInv s) {e e' : Entry}
    (he : e ∈ s.table) (he' : e' ∈ s.table) (hk : e.1 = e'.1) : e = e' := by
  have h1 := h.tbl_latest e he
  have h2 := h.tbl_latest e' he'
  rw [hk] at h1
  exact Option.some.inj (h1.symm.trans h2)

/-- `t.links[a]` is `e` iff `e` is in the table (with key `a`). -/
theorem table_find {s : State} (h : QInv s) {a : Nat} {e : Entry}
    (he : e ∈ s.table) (hk : e.1 = a) : s.table.find? (fun c => c.1 = a) = some e := by
  cases hf : s.table.find? (fun c => c.1 = a) with
  | none =>
    have := List.find?_eq_none.1 hf e he
    simp [hk] at this
  | some e' =>
    have he' := List.mem_of_find?_eq_some hf
    have hk' : e'.1 = a := by simpa using List.find?_some hf
    rw [table_key_unique h he' he (hk'.trans hk.symm)]

/-- The links of a controller history stay unique by id when one more link of this transport is
mentioned. -/
theorem wfh_snoc {s : State} (h : QInv s) {cops : List Links.Op} {op : Links.Op}
    (hsub : ∀ x ∈ Links.histLinks cops, ∃ a, (a, x) ∈ s.created)
    (hop : ∀ x, Links.histLinkOf op = some x → ∃ a, (a, x) ∈ s.created) :
    Links.WFH (cops ++ [op]) ∧ ∀ x ∈ Links.histLinks (cops ++ [op]), ∃ a, (a, x) ∈ s.created := by
  have hsub' : ∀ x ∈ Links.histLinks (cops ++ [op]), ∃ a, (a, x) ∈ s.created := by
    intro x hx
    rw [Links.histLinks_append] at hx
    rcases List.mem_append.1 hx with hx | hx
    · exact hsub x hx
    · apply hop
      simp only [Links.histLinks, List.filterMap_cons, List.filterMap_nil] at hx
      cases hh : Links.histLinkOf op with
      | none => simp [hh] at hx
      | some y => simp [hh] at hx; rw [hx]
  refine ⟨?_, hsub'⟩
  intro x hx y hy hid
  obtain ⟨a, ha⟩ := hsub' x hx
  obtain ⟨b, hb⟩ := hsub' y hy
  exact created_link_inj h ha hb hid

end QuicTable
end Bifrost
