import Bifrost.Lemmas.SigRegFrame
import Bifrost.Lemmas.SigSess
/-!
Backward preservation of "relay call `i` is live" (`LiveC`) along relay steps, part A: the
relation `Back s s' P` (every attachment / running call of `s'` whose id satisfies `P` was one of
`s`), its building blocks, and the session-internal steps `send`, `ack`, `clear`, `loop`, `send_`.
No invariant of the relay is needed.
-/
namespace Bifrost
namespace SigLiveBack
open Bifrost.Sig Bifrost.SigReg

/-- the relay's handler of call `i` is running (not ended, not returning, reader not stopped) and
is the registered attachment of its side of its session -/
def LiveC (s : Sig.State) (i : Nat) : Prop :=
  ∃ c, getSCall s i = some c ∧ c.ended = false ∧ c.failing = false ∧ c.readerDone = false ∧
    c.attached s = true

/-- backward frame: attachments and running calls of `s'` (with ids in `P`) come from `s` -/
structure Back (s s' : Sig.State) (P : Nat → Prop) : Prop where
  ss : ∀ x t' b j, getSess s' x = some t' → oursCall t' b = some j → P j →
    ∃ t, getSess s x = some t ∧ oursCall t b = some j
  sc : ∀ i c', P i → getSCall s' i = some c' → c'.ended = false →
    ∃ c, getSCall s i = some c ∧ c.sess = c'.sess ∧ c.isA = c'.isA ∧ c.ended = false ∧
      (c'.failing = false → c.failing = false) ∧ (c'.readerDone = false → c.readerDone = false)

theorem Back.live {s s' : Sig.State} {P : Nat → Prop} (h : Back s s' P) {i : Nat} (hp : P i)
    (hl : LiveC s' i) : LiveC s i := by
  obtain ⟨c', hc', he, hf, hrd, hatt⟩ := hl
  obtain ⟨c, hc, hs, hA, he0, hf0, hrd0⟩ := h.sc i c' hp hc' he
  refine ⟨c, hc, he0, hf0 hf, hrd0 hrd, ?_⟩
  rw [attached_iff] at hatt ⊢
  obtain ⟨t', ht', ho'⟩ := hatt
  rw [getSCall_id hc'] at ho'
  obtain ⟨t, ht, ho⟩ := h.ss _ _ _ _ ht' ho' hp
  exact ⟨t, by rw [hs]; exact ht, by rw [hA, getSCall_id hc]; exact ho⟩

theorem Back.refl (s : Sig.State) (P : Nat → Prop) : Back s s P :=
  ⟨fun _ t' _ _ h1 h2 _ => ⟨t', h1, h2⟩, fun _ c' _ h1 h2 => ⟨c', h1, rfl, rfl, h2, id, id⟩⟩

theorem Back.trans {s1 s2 s3 : Sig.State} {P : Nat → Prop} (h1 : Back s1 s2 P) (h2 : Back s2 s3 P) :
    Back s1 s3 P := by
  refine ⟨?_, ?_⟩
  · intro x t' b j ht' ho hp
    obtain ⟨t, ht, ho2⟩ := h2.ss x t' b j ht' ho hp
    exact h1.ss x t b j ht ho2 hp
  · intro i c' hp hc' he
    obtain ⟨c2, hc2, a1, a2, a3, a4, a5⟩ := h2.sc i c' hp hc' he
    obtain ⟨c1, hc1, b1, b2, b3, b4, b5⟩ := h1.sc i c2 hp hc2 a3
    exact ⟨c1, hc1, b1.trans a1, b2.trans a2, b3, fun h => b4 (a4 h), fun h => b5 (a5 h)⟩

/-- session trackers and session calls read the same -/
theorem Back.of_eq {s s' : Sig.State} (P : Nat → Prop) (h1 : s'.sesss = s.sesss) (h2 : s'.scalls = s.scalls) :
    Back s s' P := by
  have e1 := getSess_congr h1
  have e2 := getSCall_congr h2
  refine ⟨?_, ?_⟩
  · intro x t' b j ht' ho _
    exact ⟨t', by rw [← e1]; exact ht', ho⟩
  · intro i c' _ hc' he
    exact ⟨c', by rw [← e2]; exact hc', rfl, rfl, he, id, id⟩

theorem Back.sessEq {s s' : Sig.State} (P : Nat → Prop) (h : SigSess.SessEq s s') : Back s s' P :=
  Back.of_eq P h.sesss h.scalls

/-- one call record is rewritten: same session and side, flags only grow -/
theorem Back.setSCall {s : Sig.State} (P : Nat → Prop) {c c' : SCall} (hc : getSCall s c'.id = some c)
    (h1 : c'.sess = c.sess) (h2 : c'.isA = c.isA) (h3 : c'.ended = false → c.ended = false)
    (h4 : c'.failing = false → c.failing = false) (h5 : c'.readerDone = false → c.readerDone = false) :
    Back s (Sig.setSCall s c') P := by
  refine ⟨fun x t' b j ht' ho _ => ⟨t', ht', ho⟩, ?_⟩
  intro i d _ hd he
  rw [getSCall_setSCall] at hd
  by_cases hi : i = c'.id
  · rw [if_pos hi, hi, hc] at hd
    simp only [Option.map_some, Option.some.injEq] at hd
    subst hd
    exact ⟨c, by rw [hi]; exact hc, h1.symm, h2.symm, h3 he, h4, h5⟩
  · rw [if_neg hi] at hd
    exact ⟨d, hd, rfl, rfl, he, id, id⟩

/-- one session tracker is rewritten: its attachments with ids in `P` were there before -/
theorem Back.setSess {s : Sig.State} (P : Nat → Prop) {t' : Sess}
    (h : ∀ t, getSess s t'.sid = some t → ∀ b j, oursCall t' b = some j → P j → oursCall t b = some j) :
    Back s (Sig.setSess s t') P := by
  refine ⟨?_, fun i c' _ hc' he => ⟨c', hc', rfl, rfl, he, id, id⟩⟩
  intro x u b j hu ho hp
  rw [getSess_setSess] at hu
  by_cases hx : x = t'.sid
  · rw [if_pos hx] at hu
    cases h0 : getSess s x with
    | none => rw [h0] at hu; simp at hu
    | some t =>
      rw [h0] at hu
      simp only [Option.map_some, Option.some.injEq] at hu
      subst hu
      exact ⟨t, rfl, h t (by rw [← hx]; exact h0) b j ho hp⟩
  · rw [if_neg hx] at hu
    exact ⟨u, hu, ho⟩

theorem oursCall_bcast (t : Sess) (b : Bool) : oursCall t.bcast b = oursCall t b := by
  cases b <;> rfl

/-- rewriting the tracker a call holds, keeping the attachments' call ids -/
theorem Back.setSess_same {s : Sig.State} (P : Nat → Prop) {t t' : Sess} {x : Nat} (ht : getSess s x = some t)
    (hsid : t'.sid = t.sid) (h : ∀ b, oursCall t' b = oursCall t b) : Back s (Sig.setSess s t') P := by
  refine Back.setSess P ?_
  intro t0 ht0 b j ho _
  rw [hsid, getSess_sid ht, ht] at ht0
  cases ht0
  rw [← h]; exact ho

theorem back_sSend (P : Nat → Prop) (s : Sig.State) (call e : Nat) (m : Msg) (v : Bool) (g : Nat) :
    Back s (sSend s call e m v g) P := by
  unfold sSend
  split
  · exact Back.refl _ _
  rename_i c hc
  have hid := getSCall_id hc
  have hR : Back s (Sig.setSCall s { c with readerDone := true }) P :=
    Back.setSCall P (c := c) (by simpa [hid] using hc) rfl rfl id id (by simp)
  split
  · exact hR
  split
  · exact Back.refl _ _
  rename_i t ht
  split
  · exact hR
  split
  · exact Back.refl _ _
  split
  · exact Back.refl _ _
  rename_i ours other hap
  have hs := (activePair_some hap).1
  have hf := sessFr_setSides hs (o1' := some ours) (o2' := some { other with recv := some m, recvSent := none }) rfl rfl
  refine (Back.setSess_same P ht (t' := (t.setSides c.isA (some ours) (some { other with recv := some m, recvSent := none })).bcast)
    (by simp) hf.2.1.2.2.1).trans (Back.of_eq P rfl rfl)

theorem back_sAck (P : Nat → Prop) (s : Sig.State) (call e k : Nat) : Back s (sAck s call e k) P := by
  unfold sAck
  split
  · exact Back.refl _ _
  rename_i c hc
  have hid := getSCall_id hc
  have hR : Back s (Sig.setSCall s { c with readerDone := true }) P :=
    Back.setSCall P (c := c) (by simpa [hid] using hc) rfl rfl id id (by simp)
  split
  · exact Back.refl _ _
  rename_i t ht
  split
  · exact hR
  split
  · exact Back.refl _ _
  split
  · exact Back.refl _ _
  rename_i ours other hap
  have hs := (activePair_some hap).1
  split
  · have hf := sessFr_setSides hs (o1' := some { ours with recvSent := none }) (o2' := some { other with outAcked := some k }) rfl rfl
    exact Back.setSess_same P ht (by simp) hf.2.1.2.2.1
  · exact Back.refl _ _

theorem back_sClear (P : Nat → Prop) (s : Sig.State) (call e k : Nat) : Back s (sClear s call e k) P := by
  unfold sClear
  split
  · exact Back.refl _ _
  rename_i c hc
  have hid := getSCall_id hc
  have hR : Back s (Sig.setSCall s { c with readerDone := true }) P :=
    Back.setSCall P (c := c) (by simpa [hid] using hc) rfl rfl id id (by simp)
  split
  · exact Back.refl _ _
  rename_i t ht
  split
  · exact hR
  split
  · exact Back.refl _ _
  split
  · exact Back.refl _ _
  rename_i ours other hap
  have hs := (activePair_some hap).1
  split
  · have hf := sessFr_setSides hs (o1' := some ours) (o2' := some { other with recv := none }) rfl rfl
    exact Back.setSess_same P ht (by simp) hf.1.2.2.1
  · split
    · have hf := sessFr_setSides hs (o1' := some ours) (o2' := some { other with recvSent := none, recvClear := some k }) rfl rfl
      exact Back.setSess_same P ht (by simp) hf.1.2.2.1
    · exact Back.refl _ _

theorem back_sTx (P : Nat → Prop) (s : Sig.State) (call : Nat) (r : Resp) :
    Back s ((sTx s call r).getD s) P := by
  unfold sTx
  split
  · exact Back.refl _ _
  rename_i c hc
  have hid := getSCall_id hc
  split
  · split
    · exact Back.setSCall P (c := c) (by simpa [hid] using hc) rfl rfl id id id
    · exact Back.refl _ _
  · exact Back.refl _ _

theorem back_sLoop (P : Nat → Prop) (s : Sig.State) (call : Nat) : Back s (sLoop s call) P := by
  unfold sLoop
  split
  · exact Back.refl _ _
  rename_i c hc
  have hid := getSCall_id hc
  have hcc : getSCall s c.id = some c := by simpa [hid] using hc
  split
  · exact Back.refl _ _
  rename_i t ht
  cases hs : t.sides c.isA with
  | mk oursO otherO =>
  simp only []
  have hU : Back s (Sig.setSCall s { c with waitGen := t.gen, failing := true }) P :=
    Back.setSCall P (c := c) hcc rfl rfl id (by simp) id
  cases oursO with
  | none => simpa using hU
  | some ours =>
  by_cases hus : ours.call = call
  · simp only [hus, bne_self_eq_false, Bool.false_eq_true, ↓reduceIte]
    cases otherO with
    | none =>
      simp only [Option.isSome_none, Bool.false_eq_true, ↓reduceIte, Option.isNone_none]
      exact Back.setSCall P (c := c) hcc rfl rfl id id id
    | some other =>
      simp only [Option.isSome_some, ↓reduceIte, Option.isNone_some, Bool.false_eq_true]
      have hf := sessFr_setSides hs (o1' := some { call := call, recvSent := (match ours.recv with | some m => some m.seqno | none => ours.recvSent) }) (o2' := some other) (by simp [hus]) rfl
      have hb : ∀ (b : Bool) (X : Sess), (if b = true then X.bcast else X).sid = X.sid := by
        intros; split <;> rfl
      refine Back.trans (Back.setSess_same P ht ?_ ?_) (Back.setSCall P (c := c) (by simpa using hcc) rfl rfl id id id)
      · rw [hb, setSides_sid]
      · by_cases hr : ours.recv.isSome = true
        · rw [if_pos hr]; exact hf.2.1.2.2.1
        · rw [if_neg hr]; exact hf.1.2.2.1
  · have : (ours.call != call) = true := by simpa using hus
    simpa [this] using hU

end SigLiveBack
end Bifrost
