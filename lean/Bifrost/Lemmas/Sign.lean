import Bifrost.Model.Sign
import Bifrost.Model.Crypto
/-! Helper lemmas for C01 and C02 (sign body injectivity, verification characterisation). -/
namespace Bifrost
namespace Sign
open Codec

theorem hashTypeSupported_cases {t : Int} (h : hashTypeSupported t = true) : t = 1 ∨ t = 2 ∨ t = 3 := by
  simpa [hashTypeSupported] using h

theorem hashTypeSupported_valid {t : Int} (h : hashTypeSupported t = true) : hashTypeValid t = true := by
  rcases hashTypeSupported_cases h with h | h | h <;> subst h <;> decide

theorem hashTypeSupported_ne_zero {t : Int} (h : hashTypeSupported t = true) : t ≠ 0 := by
  rcases hashTypeSupported_cases h with h | h | h <;> subst h <;> decide

theorem hashTypeSupported_of_valid_ne_zero {t : Int} (hv : hashTypeValid t = true) (h0 : t ≠ 0) :
    hashTypeSupported t = true := by
  simp [hashTypeValid] at hv
  simp [hashTypeSupported]
  omega

theorem sep_length : sep.length = 10 := rfl

/-- Bodies whose digests have the same length: split from the end. -/
theorem body_same_len (c c' h h' : Bytes) (a b : UInt8) (hl : h.length = h'.length)
    (e : c ++ sep ++ [a] ++ sep ++ h = c' ++ sep ++ [b] ++ sep ++ h') :
    c = c' ∧ a = b ∧ h = h' := by
  obtain ⟨e1, e2⟩ := List.append_inj' e hl
  obtain ⟨e3, _⟩ := List.append_inj' e1 rfl
  obtain ⟨e4, e5⟩ := List.append_inj' e3 (by simp)
  obtain ⟨e6, _⟩ := List.append_inj' e4 rfl
  exact ⟨e6, by simpa using e5, e2⟩

/-- Bodies whose digests have lengths 20 and 32 never coincide: aligned from the end, the
second separator of the left body would have to equal itself shifted by one byte. -/
theorem body_mixed_ne (c c' h h' : Bytes) (a : UInt8) (hl : h.length = 20) (hl' : h'.length = 32) :
    c ++ sep ++ [50] ++ sep ++ h ≠ c' ++ sep ++ [a] ++ sep ++ h' := by
  intro e
  have hlen : c.length = c'.length + 12 := by
    have := congrArg List.length e
    simp [sep_length] at this
    omega
  have e2 := congrArg (List.drop c.length) e
  simp only [List.append_assoc] at e2
  rw [List.drop_left, hlen, List.drop_append] at e2
  have hnil : List.drop (c'.length + 12) c' = [] := List.drop_eq_nil_of_le (by omega)
  simp [sep, hnil] at e2

theorem itoa_one : itoa 1 = [49] := rfl
theorem itoa_two : itoa 2 = [50] := rfl
theorem itoa_three : itoa 3 = [51] := rfl
theorem hashLen_one : hashLen 1 = 32 := rfl
theorem hashLen_two : hashLen 2 = 20 := rfl
theorem hashLen_three : hashLen 3 = 32 := rfl

theorem signBody_inj (c c' : Bytes) (t t' : Int) (h h' : Bytes)
    (ht : hashTypeSupported t = true) (ht' : hashTypeSupported t' = true)
    (hl : h.length = hashLen t) (hl' : h'.length = hashLen t')
    (e : signBody c t h = signBody c' t' h') : c = c' ∧ t = t' ∧ h = h' := by
  rcases hashTypeSupported_cases ht with rfl | rfl | rfl <;>
  rcases hashTypeSupported_cases ht' with rfl | rfl | rfl <;>
  simp only [signBody, itoa_one, itoa_two, itoa_three, hashLen_one, hashLen_two,
    hashLen_three] at e hl hl'
  · obtain ⟨h1, _, h3⟩ := body_same_len _ _ _ _ _ _ (hl.trans hl'.symm) e
    exact ⟨h1, rfl, h3⟩
  · exact absurd e.symm (body_mixed_ne _ _ _ _ _ hl' hl)
  · obtain ⟨_, h2, _⟩ := body_same_len _ _ _ _ _ _ (hl.trans hl'.symm) e
    exact absurd h2 (by decide)
  · exact absurd e (body_mixed_ne _ _ _ _ _ hl hl')
  · obtain ⟨h1, _, h3⟩ := body_same_len _ _ _ _ _ _ (hl.trans hl'.symm) e
    exact ⟨h1, rfl, h3⟩
  · exact absurd e (body_mixed_ne _ _ _ _ _ hl hl')
  · obtain ⟨_, h2, _⟩ := body_same_len _ _ _ _ _ _ (hl.trans hl'.symm) e
    exact absurd h2 (by decide)
  · exact absurd e.symm (body_mixed_ne _ _ _ _ _ hl' hl)
  · obtain ⟨h1, _, h3⟩ := body_same_len _ _ _ _ _ _ (hl.trans hl'.symm) e
    exact ⟨h1, rfl, h3⟩

theorem verifyWithPublic_congr (verify : VerifyFn) (sum : SumFn) (s s' : Signature)
    (ctx pk data : Bytes) (h1 : s.hashType = s'.hashType) (h2 : s.sigData = s'.sigData) :
    verifyWithPublic verify sum s ctx pk data = verifyWithPublic verify sum s' ctx pk data := by
  unfold verifyWithPublic
  rw [h1, h2]

theorem newSignature_some (sign : Bytes → Bytes) (sum : SumFn) (ctx : Bytes) (t : Int)
    (data : Bytes) (s : Signature) (hs : newSignature sign sum ctx t data = some s) :
    hashTypeValid t = true ∧ ∃ h, sum t data = some h ∧
      s = { hashType := t, sigData := sign (signBody ctx t h) } := by
  unfold newSignature at hs
  split at hs
  · cases hs
  · rename_i hv
    split at hs
    · cases hs
    · rename_i h hsum
      refine ⟨by simpa using hv, h, hsum, ?_⟩
      cases hs
      rfl

theorem extractPublicKey_nil : extractPublicKey [] = none := rfl

theorem idB58Decode_nil : idB58Decode [] = none := rfl

theorem isEmpty_eq_false_of_ne_nil {l : Bytes} (h : l ≠ []) : l.isEmpty = false := by
  cases l with
  | nil => exact absurd rfl h
  | cons a t => rfl

theorem ne_nil_of_isEmpty_eq_false {l : Bytes} (h : l.isEmpty = false) : l ≠ [] := by
  intro e
  rw [e] at h
  cases h

/-- Exact characterisation of acceptance by `extractAndVerify`. -/
theorem extractAndVerify_ok_iff' (verify : VerifyFn) (sum : SumFn) (m : SignedMsg) (ctx pk id : Bytes) :
    extractAndVerify verify sum m ctx = .ok (pk, id) ↔
      m.data ≠ [] ∧ m.fromPeerId ≠ [] ∧ m.signature.validate = true ∧
      idB58Decode m.fromPeerId = some id ∧ extractPublicKey id = some pk ∧
      verifyWithPublic verify sum m.signature ctx pk m.data = .good ∧
      idFromPublicKey pk = id ∧ idB58Encode id = m.fromPeerId := by
  unfold extractAndVerify
  constructor
  · intro h
    split at h
    · cases h
    rename_i hd
    split at h
    · cases h
    rename_i hp
    split at h
    · cases h
    rename_i hval
    split at h
    · cases h
    rename_i id0 hid
    split at h
    · cases h
    split at h
    · cases h
    rename_i pk0 hpk
    split at h
    · cases h
    rename_i hcan
    split at h
    · rename_i hgood
      cases h
      simp only [matchesPublicKey, Bool.or_eq_true, Bool.not_eq_true', decide_eq_false_iff_not,
        bne_iff_ne, ne_eq, not_or, Decidable.not_not] at hcan
      refine ⟨ne_nil_of_isEmpty_eq_false (by simpa using hd),
        ne_nil_of_isEmpty_eq_false (by simpa using hp), by simpa using hval, hid, hpk, hgood,
        hcan.1, hcan.2⟩
    · cases h
  · rintro ⟨hd, hp, hval, hid, hpk, hgood, hc1, hc2⟩
    have hidne : id.isEmpty = false := by
      apply isEmpty_eq_false_of_ne_nil
      intro e
      rw [e, extractPublicKey_nil] at hpk
      cases hpk
    rw [isEmpty_eq_false_of_ne_nil hd, isEmpty_eq_false_of_ne_nil hp, hval]
    simp only [Bool.false_eq_true, if_false, Bool.not_true, hid, hidne, hpk, hgood]
    simp [matchesPublicKey, hc1, hc2]

end Sign
end Bifrost
