import Bifrost.Model.Sign
import Bifrost.Model.Crypto
/-! Helper lemmas for C01 and C02 (sign body injectivity, verification characterisation). -/
namespace Bifrost
end Bifrost
