import Bifrost.Model.Links
import Bifrost.Lemmas.LinksBasic
import Bifrost.Lemmas.LinksInv
import Bifrost.Lemmas.LinksFacts
/-! Helper lemmas for C04 and C06 (link-table invariants, refinement to the live-set spec).
The content lives in `LinksBasic` (histories, lookup, flush) `LinksInv` (the invariant) and
`LinksFacts` (consequences used by the statements). -/
namespace Bifrost
end Bifrost
