import Bifrost.Model.Links
/-! Helper lemmas for C04 and C06 (link-table invariants, refinement to the live-set spec). -/
namespace Bifrost
end Bifrost
