import Bifrost.Lemmas.SigPairView
import Bifrost.Lemmas.SigBase
/-!
Simulation `SigSys` ⟶ `SigPair`, part A: the view relation (`View`), its symmetry, and the
get-after-set lemmas of the composed state.

The relay part of the view (`SrvView`) pins down the two `SCall` records and the shared session
tracker completely (`mkCall`, `mkSess`), so that every relay step can be computed on it.
-/
namespace Bifrost
namespace SigPair
open Bifrost.SigSys

/-- the session tracker of the pair `A`, `B` (any orientation) with attachments `x` (side of `A`)
and `y` (side of `B`) -/
def mkSess (sid A B ep gen : Nat) (x y : Sig.Att) : Sig.Sess :=
  if A < B then { sid := sid, a := A, b := B, seqno := ep, attA := some x, attB := some y, gen := gen }
  else { sid := sid, a := B, b := A, seqno := ep, attA := some y, attB := some x, gen := gen }

/-- the relay's call record of one side -/
def mkCall (id src dst sid dt : Nat) (h : Half) : Sig.SCall :=
  { id := id, src := src, dst := dst, sess := sid, dstTkr := dt, waitGen := h.wait, announced := h.ann,
    outbox := h.box, readerDone := h.rd, failing := false, ended := false }

theorem mkSess_swap {A B : Nat} (h : A ≠ B) (sid ep gen : Nat) (x y : Sig.Att) :
    mkSess sid A B ep gen x y = mkSess sid B A ep gen y x := by
  unfold mkSess
  by_cases h1 : A < B
  · have h2 : ¬ B < A := by omega
    simp [h1, h2]
  · have h2 : B < A := by omega
    simp [h1, h2]

@[simp] theorem mkSess_sid (sid A B ep gen x y) : (mkSess sid A B ep gen x y).sid = sid := by
  unfold mkSess; split <;> rfl
@[simp] theorem mkSess_seqno (sid A B ep gen x y) : (mkSess sid A B ep gen x y).seqno = ep := by
  unfold mkSess; split <;> rfl
@[simp] theorem mkSess_gen (sid A B ep gen x y) : (mkSess sid A B ep gen x y).gen = gen := by
  unfold mkSess; split <;> rfl

theorem mkSess_sides (sid A B ep gen x y) :
    (mkSess sid A B ep gen x y).sides (Sig.sessKey A B).2 = (some x, some y) := by
  unfold mkSess Sig.sessKey
  split <;> rfl

theorem mkSess_sides_opp (sid A B ep gen x y) :
    (mkSess sid A B ep gen x y).sides (!(Sig.sessKey A B).2) = (some y, some x) := by
  unfold mkSess Sig.sessKey
  split <;> rfl

theorem mkSess_setSides (sid A B ep gen x y x' y') :
    (mkSess sid A B ep gen x y).setSides (Sig.sessKey A B).2 (some x') (some y') = mkSess sid A B ep gen x' y' := by
  unfold mkSess Sig.sessKey
  split <;> rfl

theorem mkSess_bcast (sid A B ep gen x y) :
    (mkSess sid A B ep gen x y).bcast = mkSess sid A B ep (gen + 1) x y := by
  unfold mkSess
  split <;> rfl

@[simp] theorem mkCall_isA (id src dst sid dt h) : (mkCall id src dst sid dt h).isA = (Sig.sessKey src dst).2 := rfl
@[simp] theorem mkCall_id (id src dst sid dt h) : (mkCall id src dst sid dt h).id = id := rfl
@[simp] theorem mkCall_sess (id src dst sid dt h) : (mkCall id src dst sid dt h).sess = sid := rfl
@[simp] theorem mkCall_src (id src dst sid dt h) : (mkCall id src dst sid dt h).src = src := rfl
@[simp] theorem mkCall_dst (id src dst sid dt h) : (mkCall id src dst sid dt h).dst = dst := rfl

theorem sessKey_swap {A B : Nat} (h : A ≠ B) :
    (Sig.sessKey B A).1 = (Sig.sessKey A B).1 ∧ (Sig.sessKey B A).2 = !(Sig.sessKey A B).2 := by
  unfold Sig.sessKey
  by_cases h1 : A < B
  · have h2 : ¬ B < A := by omega
    simp [h1, h2]
  · have h2 : B < A := by omega
    simp [h1, h2]

/-- the relay part of the view -/
structure SrvView (srv : Sig.State) (A B ia ib : Nat) (p : PState) (sid dtA dtB : Nat) : Prop where
  ca : Sig.getSCall srv ia = some (mkCall ia A B sid dtA p.x)
  cb : Sig.getSCall srv ib = some (mkCall ib B A sid dtB p.y)
  ss : Sig.getSess srv sid = some (mkSess sid A B p.ep p.gen p.x.att p.y.att)
  xa : p.x.att.call = ia
  ya : p.y.att.call = ib
  ne : A ≠ B
  nei : ia ≠ ib

/-- the pair machine state `p` is the projection of `s` onto the two trackers and their calls -/
structure View (s : SigSys.State) (A B ia ib : Nat) (p : PState) : Prop where
  cliA : getClient s A B = some { me := A, peer := B, st := p.x.cl, call := some ia }
  cliB : getClient s B A = some { me := B, peer := A, st := p.y.cl, call := some ib }
  chA : getChan s ia = some { call := ia, c2s := p.x.up, s2c := p.x.dn, open_ := true }
  chB : getChan s ib = some { call := ib, c2s := p.y.up, s2c := p.y.dn, open_ := true }
  srv : ∃ sid dtA dtB, SrvView s.srv A B ia ib p sid dtA dtB

theorem SrvView.swap {srv : Sig.State} {A B ia ib : Nat} {p : PState} {sid dtA dtB : Nat}
    (h : SrvView srv A B ia ib p sid dtA dtB) : SrvView srv B A ib ia p.swap sid dtB dtA :=
  ⟨h.cb, h.ca, by rw [mkSess_swap h.ne.symm]; exact h.ss, h.ya, h.xa, h.ne.symm, h.nei.symm⟩

theorem View.swap {s : SigSys.State} {A B ia ib : Nat} {p : PState} (h : View s A B ia ib p) :
    View s B A ib ia p.swap :=
  ⟨h.cliB, h.cliA, h.chB, h.chA, let ⟨sid, dtA, dtB, hs⟩ := h.srv; ⟨sid, dtB, dtA, hs.swap⟩⟩

theorem View.ne {s : SigSys.State} {A B ia ib : Nat} {p : PState} (h : View s A B ia ib p) : A ≠ B :=
  let ⟨_, _, _, hs⟩ := h.srv; hs.ne

theorem View.nei {s : SigSys.State} {A B ia ib : Nat} {p : PState} (h : View s A B ia ib p) : ia ≠ ib :=
  let ⟨_, _, _, hs⟩ := h.srv; hs.nei

/-- what the view says about the composed state -/
theorem view_clients {s : SigSys.State} {A B ia ib : Nat} {p : PState} (hv : View s A B ia ib p) :
    (∃ c, SigSys.getClient s A B = some c ∧ c.st = p.x.cl ∧ c.call = some ia) ∧
    (∃ c, SigSys.getClient s B A = some c ∧ c.st = p.y.cl ∧ c.call = some ib) :=
  ⟨⟨_, hv.cliA, rfl, rfl⟩, ⟨_, hv.cliB, rfl, rfl⟩⟩

/-! ### get-after-set in the composed state -/

theorem find?_client_upd (l : List Client) (c : Client) (me peer : Nat) :
    (l.map fun x => if x.me = c.me ∧ x.peer = c.peer then c else x).find? (fun x => decide (x.me = me ∧ x.peer = peer))
      = if me = c.me ∧ peer = c.peer then (l.find? (fun x => decide (x.me = me ∧ x.peer = peer))).map (fun _ => c)
        else l.find? (fun x => decide (x.me = me ∧ x.peer = peer)) := by
  induction l with
  | nil => simp
  | cons a l ih =>
    simp only [List.map_cons, List.find?_cons]
    grind

theorem getClient_setClient (s : SigSys.State) (c : Client) (me peer : Nat) :
    getClient (setClient s c) me peer =
      if me = c.me ∧ peer = c.peer then (getClient s me peer).map (fun _ => c) else getClient s me peer :=
  find?_client_upd s.clients c me peer

theorem getChan_setChan (s : SigSys.State) (ch : Chan) (id : Nat) :
    getChan (setChan s ch) id = if id = ch.call then (getChan s id).map (fun _ => ch) else getChan s id :=
  SigReg.find?_map_upd Chan.call s.chans ch id

@[simp] theorem getChan_setClient (s : SigSys.State) (c : Client) (id : Nat) :
    getChan (setClient s c) id = getChan s id := rfl
@[simp] theorem srv_setClient (s : SigSys.State) (c : Client) : (setClient s c).srv = s.srv := rfl
@[simp] theorem getClient_setChan (s : SigSys.State) (ch : Chan) (me peer : Nat) :
    getClient (setChan s ch) me peer = getClient s me peer := rfl
@[simp] theorem srv_setChan (s : SigSys.State) (ch : Chan) : (setChan s ch).srv = s.srv := rfl

theorem getClient_setClient_ne {s : SigSys.State} {c : Client} {me peer : Nat}
    (h : ¬ (me = c.me ∧ peer = c.peer)) : getClient (setClient s c) me peer = getClient s me peer := by
  rw [getClient_setClient, if_neg h]

theorem getClient_setClient_same {s : SigSys.State} {c c0 : Client}
    (h : getClient s c.me c.peer = some c0) : getClient (setClient s c) c.me c.peer = some c := by
  rw [getClient_setClient, if_pos ⟨rfl, rfl⟩, h]; rfl

theorem getChan_setChan_ne {s : SigSys.State} {ch : Chan} {id : Nat}
    (h : id ≠ ch.call) : getChan (setChan s ch) id = getChan s id := by
  rw [getChan_setChan, if_neg h]

theorem getChan_setChan_same {s : SigSys.State} {ch ch0 : Chan}
    (h : getChan s ch.call = some ch0) : getChan (setChan s ch) ch.call = some ch := by
  rw [getChan_setChan, if_pos rfl, h]; rfl

/-- an event that does not touch the two trackers, their stream pairs and their relay records -/
theorem View.frame {s s' : SigSys.State} {A B ia ib : Nat} {p : PState} (hv : View s A B ia ib p)
    (h1 : getClient s' A B = getClient s A B) (h2 : getClient s' B A = getClient s B A)
    (h3 : getChan s' ia = getChan s ia) (h4 : getChan s' ib = getChan s ib)
    (h5 : ∀ sid dtA dtB, SrvView s.srv A B ia ib p sid dtA dtB → SrvView s'.srv A B ia ib p sid dtA dtB) :
    View s' A B ia ib p :=
  ⟨h1 ▸ hv.cliA, h2 ▸ hv.cliB, h3 ▸ hv.chA, h4 ▸ hv.chB,
    let ⟨sid, dtA, dtB, hs⟩ := hv.srv; ⟨sid, dtA, dtB, h5 _ _ _ hs⟩⟩

/-- the relay records of the pair read the same in `srv'` -/
theorem SrvView.frame {srv srv' : Sig.State} {A B ia ib : Nat} {p : PState} {sid dtA dtB : Nat}
    (h : SrvView srv A B ia ib p sid dtA dtB)
    (h1 : Sig.getSCall srv' ia = Sig.getSCall srv ia) (h2 : Sig.getSCall srv' ib = Sig.getSCall srv ib)
    (h3 : Sig.getSess srv' sid = Sig.getSess srv sid) : SrvView srv' A B ia ib p sid dtA dtB :=
  ⟨h1 ▸ h.ca, h2 ▸ h.cb, h3 ▸ h.ss, h.xa, h.ya, h.ne, h.nei⟩

end SigPair
end Bifrost
