import Bifrost.Model.Packets
import Bifrost.Lemmas.Varint
/-! Helper lemmas for C08: `readFull` depends only on the flattened stream; `le32` round trip. -/
namespace Bifrost
namespace Packets
open Framing (Reader)

/-- Enough bytes in the stream: `readFull` returns exactly the next `n` bytes and leaves the rest. -/
theorem readFull_ok (r : Reader) (n : Nat) (acc : Bytes) (h : n ≤ r.flatten.length) :
    ∃ r', readFull r n acc = .ok (acc ++ r.flatten.take n) r' ∧ r'.flatten = r.flatten.drop n := by
  induction r generalizing n acc with
  | nil =>
    have : n = 0 := by simpa using h
    subst this
    exact ⟨[], by simp [readFull]⟩
  | cons ch rest ih =>
    unfold readFull
    by_cases hn : n = 0
    · subst hn
      exact ⟨ch :: rest, by simp⟩
    · simp only [hn, ↓reduceIte]
      by_cases hc : ch.length ≤ n
      · simp only [hc, ↓reduceIte]
        have hlen : n - ch.length ≤ rest.flatten.length := by
          simp only [List.flatten_cons, List.length_append] at h; omega
        obtain ⟨r', h1, h2⟩ := ih (n - ch.length) (acc ++ ch) hlen
        refine ⟨r', ?_, ?_⟩
        · rw [h1, List.flatten_cons, List.take_append, List.take_of_length_le hc, List.append_assoc]
        · rw [h2, List.flatten_cons, List.drop_append, List.drop_of_length_le hc, List.nil_append]
      · simp only [hc, ↓reduceIte]
        have hc' : n ≤ ch.length := by omega
        refine ⟨ch.drop n :: rest, ?_, ?_⟩
        · rw [List.flatten_cons, List.take_append_of_le_length hc']
        · rw [List.flatten_cons, List.flatten_cons, List.drop_append_of_le_length hc']

/-- Not enough bytes: clean EOF iff nothing at all was read, otherwise unexpected EOF. -/
theorem readFull_short (r : Reader) (n : Nat) (acc : Bytes) (h : r.flatten.length < n) :
    readFull r n acc = if (acc ++ r.flatten).isEmpty then .eof else .unexpectedEof := by
  induction r generalizing n acc with
  | nil =>
    have : n ≠ 0 := by simp at h; omega
    simp [readFull, this]
  | cons ch rest ih =>
    simp only [List.flatten_cons, List.length_append] at h
    unfold readFull
    have hn : n ≠ 0 := by omega
    have hc : ch.length ≤ n := by omega
    simp only [hn, hc, ↓reduceIte]
    rw [ih (n - ch.length) (acc ++ ch) (by omega), List.flatten_cons, List.append_assoc]

theorem readFull_ok_length (r : Reader) (n : Nat) (acc b : Bytes) (r' : Reader)
    (h : readFull r n acc = .ok b r') : b.length = acc.length + n := by
  by_cases hl : n ≤ r.flatten.length
  · obtain ⟨r'', h1, -⟩ := readFull_ok r n acc hl
    rw [h1] at h
    injection h with hb _
    subst hb
    rw [List.length_append, List.length_take]; omega
  · rw [readFull_short r n acc (by omega)] at h
    split at h <;> cases h

theorem unle32_le32 (n : Nat) (h : n < 2 ^ 32) : unle32 (le32 n) = n := by
  simp only [le32, unle32, UInt8.toNat_ofNat']
  omega

theorem le32_length (n : Nat) : (le32 n).length = 4 := rfl

theorem frame_length (p : Bytes) : (frame p).length = 4 + p.length := by
  simp [frame, le32_length]

/-- Reading a 4-byte length prefix off the front of the stream. -/
theorem read_prefix (cs : Reader) (n : Nat) (tail : Bytes) (hcat : cs.flatten = le32 n ++ tail) :
    ∃ r1, readFull cs 4 [] = .ok (le32 n) r1 ∧ r1.flatten = tail := by
  obtain ⟨r1, h1, h2⟩ := readFull_ok cs 4 [] (by rw [hcat]; simp [le32_length])
  refine ⟨r1, ?_, ?_⟩
  · rw [h1, hcat, List.take_append_of_le_length (by simp [le32_length])]
    simp [le32]
  · rw [h2, hcat]; simp [le32]

/-- Reading one whole frame off the front of the stream. -/
theorem read_frame (cs : Reader) (p rest : Bytes) (hcat : cs.flatten = frame p ++ rest) :
    ∃ r1 r2, readFull cs 4 [] = .ok (le32 p.length) r1 ∧
      readFull r1 p.length [] = .ok p r2 ∧ r2.flatten = rest := by
  obtain ⟨r1, h1, h2⟩ := read_prefix cs p.length (p ++ rest) (by rw [hcat, frame, List.append_assoc])
  obtain ⟨r2, h3, h4⟩ := readFull_ok r1 p.length [] (by rw [h2]; simp)
  refine ⟨r1, r2, h1, ?_, ?_⟩
  · rw [h3, h2]; simp
  · rw [h4, h2]; simp

theorem rxPump_frames (max : Nat) (hmax : max < 2 ^ 32) (ps : List Bytes)
    (hps : ∀ p ∈ ps, 0 < p.length ∧ p.length ≤ max)
    (cs : Reader) (hcat : cs.flatten = ps.flatMap frame)
    (fuel : Nat) (hf : cs.flatten.length < fuel) :
    rxPump max fuel cs = (ps, .eof) := by
  induction ps generalizing cs fuel with
  | nil =>
    obtain ⟨f, rfl⟩ : ∃ f, fuel = f + 1 := ⟨fuel - 1, by omega⟩
    have h0 : cs.flatten = [] := by simpa using hcat
    unfold rxPump
    rw [readFull_short cs 4 [] (by rw [h0]; simp)]
    simp [h0]
  | cons p ps ih =>
    obtain ⟨f, rfl⟩ : ∃ f, fuel = f + 1 := ⟨fuel - 1, by omega⟩
    obtain ⟨hp0, hpm⟩ := hps p (by simp)
    obtain ⟨r1, r2, h1, h2, h3⟩ := read_frame cs p (ps.flatMap frame) (by rw [hcat]; simp)
    have hlen : r2.flatten.length < f := by
      rw [hcat] at hf
      rw [h3]
      simp only [List.flatMap_cons, List.length_append, frame_length] at hf
      omega
    unfold rxPump
    simp only [h1, unle32_le32 p.length (by omega), h2]
    rw [if_neg (by omega), if_neg (by omega)]
    rw [ih (fun q hq => hps q (by simp [hq])) r2 h3 f hlen]

theorem rxPump_bad_prefix (max : Nat) (hmax : max < 2 ^ 32) (ps : List Bytes)
    (hps : ∀ p ∈ ps, 0 < p.length ∧ p.length ≤ max)
    (n : Nat) (hn32 : n < 2 ^ 32) (hbad : n = 0 ∨ max < n) (tail : Bytes)
    (cs : Reader) (hcat : cs.flatten = ps.flatMap frame ++ le32 n ++ tail)
    (fuel : Nat) (hf : cs.flatten.length < fuel) :
    rxPump max fuel cs = (ps, if n = 0 then .zeroLen else .tooLarge) := by
  induction ps generalizing cs fuel with
  | nil =>
    obtain ⟨f, rfl⟩ : ∃ f, fuel = f + 1 := ⟨fuel - 1, by omega⟩
    obtain ⟨r1, h1, -⟩ := read_prefix cs n tail (by rw [hcat]; simp)
    unfold rxPump
    simp only [h1, unle32_le32 n hn32]
    by_cases h0 : n = 0
    · simp [h0]
    · have : max < n := by omega
      simp [h0, this]
  | cons p ps ih =>
    obtain ⟨f, rfl⟩ : ∃ f, fuel = f + 1 := ⟨fuel - 1, by omega⟩
    obtain ⟨hp0, hpm⟩ := hps p (by simp)
    obtain ⟨r1, r2, h1, h2, h3⟩ := read_frame cs p (ps.flatMap frame ++ le32 n ++ tail)
      (by rw [hcat]; simp)
    have hlen : r2.flatten.length < f := by
      rw [hcat] at hf
      rw [h3]
      simp only [List.flatMap_cons, List.length_append, frame_length] at hf ⊢
      omega
    unfold rxPump
    simp only [h1, unle32_le32 p.length (by omega), h2]
    rw [if_neg (by omega), if_neg (by omega)]
    rw [ih (fun q hq => hps q (by simp [hq])) r2 h3 f hlen]

theorem rxPump_chunking (max : Nat) (fuel : Nat) : ∀ (fuel' : Nat) (cs cs' : Reader),
    cs.flatten = cs'.flatten → cs.flatten.length < fuel → cs'.flatten.length < fuel' →
    rxPump max fuel cs = rxPump max fuel' cs' := by
  induction fuel with
  | zero => intro fuel' cs cs' _ hf; omega
  | succ f ih =>
    intro fuel' cs cs' h hf hf'
    obtain ⟨f', rfl⟩ : ∃ f', fuel' = f' + 1 := ⟨fuel' - 1, by omega⟩
    unfold rxPump
    by_cases h4 : 4 ≤ cs.flatten.length
    · obtain ⟨r1, a1, a2⟩ := readFull_ok cs 4 [] h4
      obtain ⟨r1', b1, b2⟩ := readFull_ok cs' 4 [] (h ▸ h4)
      have e1 : r1.flatten = r1'.flatten := by rw [a2, b2, h]
      have l1 : r1.flatten.length + 4 ≤ cs.flatten.length := by
        rw [a2, List.length_drop]; omega
      rw [a1, b1, ← h]
      simp only
      generalize unle32 ([] ++ cs.flatten.take 4) = n
      by_cases hn0 : n = 0
      · simp [hn0]
      by_cases hnm : n > max
      · simp [hn0, hnm]
      simp only [hn0, hnm, ↓reduceIte]
      by_cases hn : n ≤ r1.flatten.length
      · obtain ⟨r2, c1, c2⟩ := readFull_ok r1 n [] hn
        obtain ⟨r2', d1, d2⟩ := readFull_ok r1' n [] (e1 ▸ hn)
        have e2 : r2.flatten = r2'.flatten := by rw [c2, d2, e1]
        have l2 : r2.flatten.length ≤ r1.flatten.length := by
          rw [c2, List.length_drop]; omega
        rw [c1, d1, ← e1]
        simp only
        rw [ih f' r2 r2' e2 (by omega) (by rw [← e2]; rw [← h] at hf'; omega)]
      · rw [readFull_short r1 n [] (by omega), readFull_short r1' n [] (by rw [← e1]; omega), ← e1]
        cases ([] ++ r1.flatten).isEmpty <;> rfl
    · rw [readFull_short cs 4 [] (by omega), readFull_short cs' 4 [] (by rw [← h]; omega), ← h]
      cases ([] ++ cs.flatten).isEmpty <;> rfl

theorem rxPump_bounded (max fuel : Nat) (cs : Reader) :
    ∀ p ∈ (rxPump max fuel cs).1, 0 < p.length ∧ p.length ≤ max := by
  induction fuel generalizing cs with
  | zero => simp [rxPump]
  | succ f ih =>
    unfold rxPump
    split
    · simp
    · simp
    · rename_i h r1 _
      simp only
      split
      · simp
      split
      · simp
      split
      · simp
      · simp
      · rename_i hn0 hnm p r2 h2
        have hl := readFull_ok_length _ _ _ _ _ h2
        intro q hq
        simp only [List.mem_cons] at hq
        rcases hq with rfl | hq
        · simp only [List.length_nil, Nat.zero_add] at hl
          omega
        · exact ih r2 q hq

/-- One step of `recvMsgs` on a well-formed frame. -/
theorem recvMsgs_step (max : Nat) (hmax : max < 2 ^ 32) (m rest : Bytes) (hm : m.length ≤ max)
    (cs : Reader) (hcat : cs.flatten = frame m ++ rest) (f : Nat) :
    ∃ r2, r2.flatten = rest ∧
      recvMsgs max (f + 1) cs = (m :: (recvMsgs max f r2).1, (recvMsgs max f r2).2) := by
  obtain ⟨r1, r2, h1, h2, h3⟩ := read_frame cs m rest hcat
  rw [recvMsgs]
  simp only [h1, unle32_le32 m.length (by omega)]
  by_cases h0 : m.length = 0
  · have hm0 : m = [] := List.eq_nil_of_length_eq_zero h0
    subst hm0
    have hr1 : r1.flatten = rest := by
      obtain ⟨r1', a1, a2⟩ := read_prefix cs 0 rest (by simpa [frame] using hcat)
      simp only [List.length_nil] at h1
      rw [h1] at a1
      injection a1 with _ e
      rw [e]; exact a2
    exact ⟨r1, hr1, by simp⟩
  · refine ⟨r2, h3, ?_⟩
    rw [if_neg h0, if_neg (by omega), h2]

theorem recvMsgs_frames (max : Nat) (hmax : max < 2 ^ 32) (ms : List Bytes)
    (hms : ∀ m ∈ ms, m.length ≤ max)
    (cs : Reader) (hcat : cs.flatten = ms.flatMap frame)
    (fuel : Nat) (hf : cs.flatten.length < fuel) :
    recvMsgs max fuel cs = (ms, .eof) := by
  induction ms generalizing cs fuel with
  | nil =>
    obtain ⟨f, rfl⟩ : ∃ f, fuel = f + 1 := ⟨fuel - 1, by omega⟩
    have h0 : cs.flatten = [] := by simpa using hcat
    unfold recvMsgs
    rw [readFull_short cs 4 [] (by rw [h0]; simp)]
    simp [h0]
  | cons m ms ih =>
    obtain ⟨f, rfl⟩ : ∃ f, fuel = f + 1 := ⟨fuel - 1, by omega⟩
    obtain ⟨r2, h3, hstep⟩ := recvMsgs_step max hmax m (ms.flatMap frame) (hms m (by simp)) cs
      (by rw [hcat]; simp) f
    have hlen : r2.flatten.length < f := by
      rw [hcat] at hf
      rw [h3]
      simp only [List.flatMap_cons, List.length_append, frame_length] at hf
      omega
    rw [hstep, ih (fun q hq => hms q (by simp [hq])) r2 h3 f hlen]

theorem recvMsgs_over_limit (max : Nat) (hmax : max < 2 ^ 32) (ms : List Bytes)
    (hms : ∀ m ∈ ms, m.length ≤ max)
    (n : Nat) (hn32 : n < 2 ^ 32) (hbad : max < n) (tail : Bytes)
    (cs : Reader) (hcat : cs.flatten = ms.flatMap frame ++ le32 n ++ tail)
    (fuel : Nat) (hf : cs.flatten.length < fuel) :
    recvMsgs max fuel cs = (ms, .tooLarge) := by
  induction ms generalizing cs fuel with
  | nil =>
    obtain ⟨f, rfl⟩ : ∃ f, fuel = f + 1 := ⟨fuel - 1, by omega⟩
    obtain ⟨r1, h1, -⟩ := read_prefix cs n tail (by rw [hcat]; simp)
    unfold recvMsgs
    simp only [h1, unle32_le32 n hn32]
    rw [if_neg (by omega), if_pos (by omega)]
  | cons m ms ih =>
    obtain ⟨f, rfl⟩ : ∃ f, fuel = f + 1 := ⟨fuel - 1, by omega⟩
    obtain ⟨r2, h3, hstep⟩ := recvMsgs_step max hmax m (ms.flatMap frame ++ le32 n ++ tail)
      (hms m (by simp)) cs (by rw [hcat]; simp) f
    have hlen : r2.flatten.length < f := by
      rw [hcat] at hf
      rw [h3]
      simp only [List.flatMap_cons, List.length_append, frame_length] at hf ⊢
      omega
    rw [hstep, ih (fun q hq => hms q (by simp [hq])) r2 h3 f hlen]

theorem recvMsgs_bounded (max fuel : Nat) (cs : Reader) :
    ∀ m ∈ (recvMsgs max fuel cs).1, m.length ≤ max := by
  induction fuel generalizing cs with
  | zero => simp [recvMsgs]
  | succ f ih =>
    unfold recvMsgs
    split
    · simp
    · simp
    · rename_i h r1 _
      simp only
      split
      · intro q hq
        simp only [List.mem_cons] at hq
        rcases hq with rfl | hq
        · simp
        · exact ih r1 q hq
      split
      · simp
      split
      · simp
      · simp
      · rename_i hn0 hnm p r2 h2
        have hl := readFull_ok_length _ _ _ _ _ h2
        intro q hq
        simp only [List.mem_cons] at hq
        rcases hq with rfl | hq
        · simp only [List.length_nil, Nat.zero_add] at hl
          omega
        · exact ih r2 q hq

end Packets
end Bifrost
