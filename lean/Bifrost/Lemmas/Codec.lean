import Bifrost.Model.Codec
import Bifrost.Lemmas.Varint
/-! Helper lemmas for C10, C15 (ProtoWire round trips, base58, multihash, sign body). -/
namespace Bifrost
end Bifrost
