import Bifrost.Model.Codec
import Bifrost.Lemmas.Varint
import Bifrost.Lemmas.Header
import Bifrost.Lemmas.ProtoRoundTrip
import Bifrost.Lemmas.Base58
/-! Helper lemmas for C10, C15 (ProtoWire round trips, base58, multihash, sign body). -/
namespace Bifrost
namespace Codec

/-! ### hash.Hash -/

theorem Hash.unmarshal_marshal (h : Hash) (hlo : -(2 ^ 31) ≤ h.type) (hhi : h.type < 2 ^ 31)
    (hl : h.digest.length < 2 ^ 63) : Hash.unmarshal h.marshal = some h := by
  unfold Hash.unmarshal Hash.marshal
  have := PW.decode_vb (int32ToU64 h.type) h.digest (PW.int32ToU64_lt _ hlo hhi) hl
  rw [show hashSchema = PW.vbSchema from rfl, this]
  simp only [PW.vb_lastVarint, PW.vb_lastBytes, PW.toInt32_int32ToU64 _ hlo hhi]

/-! ### crypto.PublicKey / peer.ID -/

theorem marshalPublicKey_eq (raw : Bytes) (h : raw.length = 32) :
    marshalPublicKey raw = [8, 1, 18, 32] ++ raw := by
  unfold marshalPublicKey PW.encBytesOpt
  have hne : raw.isEmpty = false := by
    cases raw with
    | nil => simp at h
    | cons => rfl
  rw [hne]
  simp only [Bool.false_eq_true, ↓reduceIte, PW.encBytes, h]
  rfl

theorem idFromPublicKey_eq (raw : Bytes) (h : raw.length = 32) :
    idFromPublicKey raw = [0, 36, 8, 1, 18, 32] ++ raw := by
  unfold idFromPublicKey encodeMultihash
  rw [marshalPublicKey_eq raw h]
  have : ([8, 1, 18, 32] ++ raw).length = 36 := by simp [h]
  rw [this]
  rfl

theorem unmarshal_marshalPublicKey (raw : Bytes) (h : raw.length = 32) :
    unmarshalPublicKey (marshalPublicKey raw) = some raw := by
  unfold unmarshalPublicKey marshalPublicKey
  have := PW.decode_vb 1 raw (by norm_num) (by omega)
  rw [show pubKeySchema = PW.vbSchema from rfl, this]
  simp only [PW.vb_lastVarint, PW.vb_lastBytes]
  have : PW.toInt32 1 = keyTypeEd25519 := by decide
  simp [this, h]

theorem decodeMultihash_encode (code : Nat) (digest : Bytes) (hc : code < 2 ^ 64)
    (hd : digest.length < 2 ^ 64) :
    decodeMultihash (encodeMultihash code digest) = some (code, digest) := by
  unfold decodeMultihash encodeMultihash
  have hne : (Uv.put code ++ Uv.put digest.length ++ digest).isEmpty = false := by
    simp [Uv.put, Pb.append_ne_nil]
  rw [hne]
  simp only [Bool.false_eq_true, ↓reduceIte]
  rw [List.append_assoc, Uv.decode_put code hc]
  simp only [List.drop_left']
  rw [Uv.decode_put _ hd]
  simp only [List.drop_left', Nat.mod_eq_of_lt hd, Nat.mod_eq_of_lt hc]
  simp

theorem extract_idFromPublicKey (raw : Bytes) (h : raw.length = 32) :
    extractPublicKey (idFromPublicKey raw) = some raw := by
  unfold extractPublicKey idFromPublicKey
  have hl : (marshalPublicKey raw).length < 2 ^ 64 := by
    rw [marshalPublicKey_eq raw h]; simp [h]
  rw [decodeMultihash_encode mhIdentity _ (by decide) hl]
  simp [unmarshal_marshalPublicKey raw h]

theorem decodeMultihash_ne_nil (b : Bytes) (r : Nat × Bytes) (h : decodeMultihash b = some r) :
    b ≠ [] := by
  intro hb
  subst hb
  simp [decodeMultihash] at h

theorem idFromBytes_some (b id : Bytes) (h : idFromBytes b = some id) :
    id = b ∧ ∃ r, decodeMultihash b = some r := by
  unfold idFromBytes at h
  split at h
  · rename_i r hr
    injection h with h
    exact ⟨h.symm, r, hr⟩
  · cases h

theorem idFromBytes_idFromPublicKey (raw : Bytes) (h : raw.length = 32) :
    idFromBytes (idFromPublicKey raw) = some (idFromPublicKey raw) := by
  unfold idFromBytes
  have hl : (marshalPublicKey raw).length < 2 ^ 64 := by
    rw [marshalPublicKey_eq raw h]; simp [h]
  have := decodeMultihash_encode mhIdentity (marshalPublicKey raw) (by decide) hl
  unfold idFromPublicKey
  rw [this]

end Codec
end Bifrost
