import Bifrost.Lemmas.SigPairTokX
/-!
C23 liveness, stable-pair machine: the token invariant `Tok` is preserved by every action of
either side (`tok_step`), assembled from the per-action lemmas of `SigPairTokX/Y`.
-/
namespace Bifrost
namespace SigPair
open Bifrost.SigSys Bifrost.SigPairCli
set_option linter.unusedSimpArgs false

theorem guarded_sendStart_fields (s : SigC.State) (m' : SigC.Msg) :
    (guarded s (.sendStart m')).out = s.out ∧ (guarded s (.sendStart m')).outSent = s.outSent ∧
    (guarded s (.sendStart m')).outAcked = s.outAcked ∧ (guarded s (.sendStart m')).outCancel = s.outCancel ∧
    (guarded s (.sendStart m')).open_ = s.open_ ∧ (guarded s (.sendStart m')).recv = s.recv ∧
    (guarded s (.sendStart m')).recvProcessed = s.recvProcessed := by
  unfold guarded
  split <;> simp [SigC.step, SigC.sendStart]

/-- y starts a new `Send`: only y's own sender weight changes -/
theorem tk_y_sendStart {p : PState} {m : SigC.Msg} {st : Stage} {j : Nat} (m' : SigC.Msg) (ht : Tk p m st j) :
    ∃ j', Tk (step p (false, .sendStart m')) m st j' := by
  obtain ⟨x, y, gen, ep⟩ := p
  have hstep : step ⟨x, y, gen, ep⟩ (false, .sendStart m') =
      ⟨x, { y with cl := guarded y.cl (.sendStart m') }, gen, ep⟩ := by
    simp [step, stepX, PState.swap]
  rw [hstep]
  obtain ⟨_, _, _, _, _, f6, f7⟩ := guarded_sendStart_fields y.cl m'
  cases st <;> simp only [Tk, FwdG, AckG] at ht
  case rcvP =>
    obtain ⟨hg, g1, g2, g3, g4, g5⟩ := ht
    exact ⟨wt (guarded y.cl (.sendStart m')), by simp only [Tk, FwdG]; exact ⟨hg, f6.trans g1, f7.trans g2, g3, g4, trivial⟩⟩
  case rcvU =>
    obtain ⟨hg, g1, g2, g3, g4⟩ := ht
    exact ⟨j, by simp only [Tk, FwdG]; exact ⟨hg, f6.trans g1, f7.trans g2, g3, g4⟩⟩
  all_goals first
    | exact ⟨j, by simp only [Tk, FwdG, AckG]; exact ht⟩
    | exact ht.elim

/-- No action of either side moves x's in-flight message backwards (as long as it stays in
flight); a new `Send` of y is the only action that may raise the position counter (y's own weight). -/
theorem tk_step {p : PState} {m : SigC.Msg} {st : Stage} {j : Nat} (hy : HalfInv p.y p.gen p.ep)
    (hs : Sent p m) (sd : Bool) (a : Act) (hs' : Sent (step p (sd, a)) m) (ht : Tk p m st j) :
    ∃ st' j', Tk (step p (sd, a)) m st' j' ∧ ((∃ m', a = .sendStart m') ∨ LexLe (st'.num, j') (st.num, j)) := by
  have wrap : (∃ st' j', Tk (step p (sd, a)) m st' j' ∧ LexLe (st'.num, j') (st.num, j)) →
      ∃ st' j', Tk (step p (sd, a)) m st' j' ∧ ((∃ m', a = .sendStart m') ∨ LexLe (st'.num, j') (st.num, j)) :=
    fun ⟨st', j', h1, h2⟩ => ⟨st', j', h1, Or.inr h2⟩
  cases sd with
  | true =>
    cases a with
    | sendStart m' => exact ⟨st, j, by simpa [step, stepX] using tk_x_cl _ ht, Or.inl ⟨m', rfl⟩⟩
    | sendStep id => exact ⟨st, j, by simpa [step, stepX] using tk_x_cl _ ht, Or.inr (LexLe.refl _)⟩
    | recvStep => exact ⟨st, j, by simpa [step, stepX] using tk_x_cl _ ht, Or.inr (LexLe.refl _)⟩
    | tx => exact wrap (tk_x_tx hs ht)
    | rx => exact wrap (tk_x_rx hs hs' ht)
    | srvRx => exact wrap (tk_x_srvRx ht)
    | srvLoop => exact wrap (tk_x_srvLoop ht)
    | srvTx => exact wrap (tk_x_srvTx ht)
  | false =>
    cases a with
    | sendStart m' =>
      obtain ⟨j', h⟩ := tk_y_sendStart m' ht
      exact ⟨st, j', h, Or.inl ⟨m', rfl⟩⟩
    | sendStep id => exact wrap (tk_y_sendStep hy.reach id ht)
    | recvStep => exact wrap (tk_y_recvStep ht)
    | tx => exact wrap (tk_y_tx hy ht)
    | rx => exact wrap (tk_y_rx ht)
    | srvRx => exact wrap (tk_y_srvRx ht)
    | srvLoop => exact wrap (tk_y_srvLoop ht)
    | srvTx => exact wrap (tk_y_srvTx ht)


/-! ### what a step does to the tracker of side x -/

theorem relayReq_cl (p : PState) (r : SigC.Req) :
    (relayReq p r).x.cl = p.x.cl ∧ (relayReq p r).y.cl = p.y.cl ∧ (relayReq p r).ep = p.ep := by
  cases r <;> simp only [relayReq] <;> (repeat' split) <;> exact ⟨rfl, rfl, rfl⟩

theorem stepX_ep (p : PState) (a : Act) : (stepX p a).ep = p.ep := by
  cases a <;> simp only [stepX]
  case rx => split <;> rfl
  case srvRx =>
    split
    · rfl
    · split
      · exact (relayReq_cl _ _).2.2
      · rfl
  case srvLoop => split <;> rfl
  case srvTx => split <;> rfl

@[simp] theorem step_ep (p : PState) (sa : Bool × Act) : (step p sa).ep = p.ep := by
  obtain ⟨sd, a⟩ := sa
  cases sd <;> simp [step, stepX_ep]

/-- the tracker of the acting side after the step -/
def clAfter (h : Half) : Act → SigC.State
  | .sendStart m => guarded h.cl (.sendStart m)
  | .sendStep id => guarded h.cl (.sendStep id)
  | .recvStep => SigC.recvStep h.cl
  | .tx => (SigC.txLoop h.cl).1
  | .rx => match h.dn with | r :: _ => rxEv r h.cl | [] => h.cl
  | _ => h.cl

theorem stepX_cl (p : PState) (a : Act) : (stepX p a).x.cl = clAfter p.x a ∧ (stepX p a).y.cl = p.y.cl := by
  cases a with
  | rx => simp only [stepX, clAfter]; cases p.x.dn <;> exact ⟨rfl, rfl⟩
  | srvRx =>
    simp only [stepX, clAfter]
    split
    · exact ⟨rfl, rfl⟩
    · cases p.x.up with
      | nil => exact ⟨rfl, rfl⟩
      | cons r rest => exact ⟨(relayReq_cl _ _).1, (relayReq_cl _ _).2.1⟩
  | srvLoop => simp only [stepX, clAfter]; split <;> exact ⟨rfl, rfl⟩
  | srvTx => simp only [stepX, clAfter]; cases p.x.box <;> exact ⟨rfl, rfl⟩
  | _ => exact ⟨rfl, rfl⟩

theorem step_cl_x (p : PState) (a : Act) : (step p (true, a)).x.cl = clAfter p.x a ∧ (step p (true, a)).y.cl = p.y.cl := by
  simpa [step] using stepX_cl p a

theorem step_cl_y (p : PState) (a : Act) : (step p (false, a)).x.cl = p.x.cl ∧ (step p (false, a)).y.cl = clAfter p.y a := by
  have := stepX_cl p.swap a
  simp only [step, Bool.false_eq_true, if_false, swap_x, swap_y]
  exact ⟨this.2, this.1⟩

/-- If x's message `m` is in flight in the current epoch after a step, it was so before, or x's
main loop has just transmitted it. -/
theorem sent_back {p : PState} (hx : HalfInv p.x p.gen p.ep) (sd : Bool) (a : Act) {m : SigC.Msg}
    (hs' : Sent (step p (sd, a)) m) (ho' : (step p (sd, a)).x.cl.open_ = some p.ep) :
    (Sent p m ∧ p.x.cl.open_ = some p.ep) ∨
    (sd = true ∧ a = .tx ∧ p.x.cl.open_ = some p.ep ∧ p.x.cl.out = some m ∧ p.x.cl.outSent = false ∧
      p.x.cl.outCancel = false ∧ p.x.cl.outAcked = false) := by
  unfold Sent at hs' ⊢
  cases sd with
  | false =>
    rw [(step_cl_y p a).1] at hs' ho'
    exact Or.inl ⟨hs', ho'⟩
  | true =>
    rw [(step_cl_x p a).1] at hs' ho'
    have hidle := idle_of_reachable hx.reach
    cases a <;> simp only [clAfter] at hs' ho'
    case sendStart m' =>
      obtain ⟨f1, f2, f3, f4, f5, _⟩ := guarded_sendStart_fields p.x.cl m'
      rw [f1, f2, f3, f4] at hs'; rw [f5] at ho'
      exact Or.inl ⟨hs', ho'⟩
    case sendStep id =>
      obtain ⟨f1, _, _, f4, _, heff⟩ := guarded_sendStep hx.reach id
      unfold guarded at hs' ho'
      generalize (if SigC.enabled p.x.cl (.sendStep id) = true then SigC.step p.x.cl (.sendStep id) else p.x.cl) = c' at *
      cases heff with
      | keep a1 a2 a3 a4 a5 =>
        rw [a1, a2, a3, f4] at hs'; rw [f1] at ho'
        exact Or.inl ⟨hs', ho'⟩
      | take c a1 a2 a3 a4 a5 a6 a7 =>
        rw [a4, (hidle.free a1).1] at hs'
        exact absurd hs'.2.1 (by simp)
      | done o a1 a2 a3 a4 a5 a6 a7 =>
        rw [a4] at hs'; exact absurd hs'.1 (by simp)
    case recvStep =>
      have : (SigC.recvStep p.x.cl).out = p.x.cl.out ∧ (SigC.recvStep p.x.cl).outSent = p.x.cl.outSent ∧
          (SigC.recvStep p.x.cl).outAcked = p.x.cl.outAcked ∧ (SigC.recvStep p.x.cl).outCancel = p.x.cl.outCancel ∧
          (SigC.recvStep p.x.cl).open_ = p.x.cl.open_ := by
        unfold SigC.recvStep
        split
        · split <;> simp
        · simp
      obtain ⟨f1, f2, f3, f4, f5⟩ := this
      rw [f1, f2, f3, f4] at hs'; rw [f5] at ho'
      exact Or.inl ⟨hs', ho'⟩
    case tx =>
      generalize p.x.cl = c at *
      obtain ⟨open_, out, outSent, outAcked, outCancel, recv, recvProcessed, sends, delivered, emitted,
        accepted, ackedLog, failed⟩ := c
      cases open_ <;> cases out <;> cases outCancel <;> cases outSent <;> cases recv <;> cases recvProcessed <;>
        simp_all [SigC.txLoop]
    case rx =>
      generalize p.x.cl = c at *
      obtain ⟨open_, out, outSent, outAcked, outCancel, recv, recvProcessed, sends, delivered, emitted,
        accepted, ackedLog, failed⟩ := c
      generalize p.x.dn = l at hs' ho'
      cases l with
      | nil => exact Or.inl ⟨hs', ho'⟩
      | cons r rest =>
        cases r <;> simp only [rxEv, SigC.step, SigC.opened, SigC.close, SigC.ackMsg, SigC.clearMsg, SigC.recvMsg] at hs' ho'
        case opened e =>
          split at hs'
          · rename_i h; simp only [h, if_true] at ho'; exact Or.inl ⟨hs', by simp only [h]; exact ho'⟩
          · simp at hs'
        case closed => simp at hs'
        case ack k =>
          split at hs'
          · split at hs' <;> simp at hs'
          · rename_i h; simp only [h, if_false] at ho'; exact Or.inl ⟨hs', ho'⟩
        case clear k =>
          split at hs'
          · rename_i h; simp only [h, if_true] at ho'; exact Or.inl ⟨hs', ho'⟩
          · rename_i h; simp only [h, if_false] at ho'; exact Or.inl ⟨hs', ho'⟩
        case recv mm => exact Or.inl ⟨by simpa using hs', by simpa using ho'⟩
        all_goals exact Or.inl ⟨hs', ho'⟩
    all_goals exact Or.inl ⟨hs', ho'⟩

end SigPair
end Bifrost
