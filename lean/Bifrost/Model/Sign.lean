import Bifrost.Model.Codec
/-!
Detached signatures and signed messages: `peer/signature.go`, `peer/signed-msg.go`.
The signature scheme and the digest function are parameters (`verify`, `sum`).
-/
namespace Bifrost
namespace Sign
open Codec

/-- `" - SIGN - "` -/
def sep : Bytes := [32, 45, 32, 83, 73, 71, 78, 32, 45, 32]

/-- `strconv.Itoa(int(hashType))` as ASCII bytes. -/
def itoa (t : Int) : Bytes :=
  if t = 0 then [48] else if t = 1 then [49] else if t = 2 then [50] else if t = 3 then [51]
  else (toString t).toUTF8.toList

/-- `bytes.Join([ctx, itoa(ht), hash], " - SIGN - ")` -/
def signBody (ctx : Bytes) (ht : Int) (h : Bytes) : Bytes := ctx ++ sep ++ itoa ht ++ sep ++ h

structure Signature where
  pubKey : Bytes := []
  hashType : Int := 0
  sigData : Bytes := []
deriving Repr, DecidableEq

/-- `Signature.Validate() == nil` -/
def Signature.validate (s : Signature) : Bool :=
  hashTypeValid s.hashType && !s.sigData.isEmpty &&
    (s.pubKey.isEmpty || (unmarshalPublicKey s.pubKey).isSome)

inductive VRes where
  | err    -- (false, error)
  | bad    -- (false, nil)
  | good   -- (true, nil)
deriving Repr, DecidableEq

abbrev VerifyFn := Bytes → Bytes → Bytes → Bool      -- pk, message, signature
abbrev SumFn := Int → Bytes → Option Bytes           -- hash type, data

/-- `Signature.VerifyWithPublic(ctx, pubKey, data)` -/
def verifyWithPublic (verify : VerifyFn) (sum : SumFn) (s : Signature) (ctx pk data : Bytes) : VRes :=
  if s.hashType = 0 then .err
  else if s.sigData.isEmpty then .err
  else if !hashTypeValid s.hashType then .err
  else match sum s.hashType data with
    | none => .err
    | some h => if verify pk (signBody ctx s.hashType h) s.sigData then .good else .bad

/-- `NewSignature(ctx, sk, ht, data, false)`: `sign` is the private-key operation. -/
def newSignature (sign : Bytes → Bytes) (sum : SumFn) (ctx : Bytes) (ht : Int) (data : Bytes) : Option Signature :=
  if !hashTypeValid ht then none else
  match sum ht data with
  | none => none
  | some h => some { hashType := ht, sigData := sign (signBody ctx ht h) }

/-- `NewSignatureWithHashedData(ctx, sk, ht, hashData, inclPubKey)`; `pub` is the raw public key
of `sk` (`privKey.GetPublic()`). As fixed by "fix: peer: NewSignatureWithHashedData rejects the
UNKNOWN hash type and hashed data whose length is not the digest length". -/
def newSignatureWithHashedData (sign : Bytes → Bytes) (pub ctx : Bytes) (ht : Int) (hashData : Bytes)
    (incl : Bool) : Option Signature :=
  if !hashTypeValid ht then none
  else if ht = 0 then none
  else if hashData.length ≠ hashLen ht then none
  else some { pubKey := if incl then marshalPublicKey pub else [], hashType := ht,
              sigData := sign (signBody ctx ht hashData) }

/-- The same constructor BEFORE that fix (only `hashType.Validate()`), kept for the refutation
`C02.hashed_unchecked_binds_context_false`. -/
def newSignatureWithHashedDataUnchecked (sign : Bytes → Bytes) (pub ctx : Bytes) (ht : Int) (hashData : Bytes)
    (incl : Bool) : Option Signature :=
  if !hashTypeValid ht then none
  else some { pubKey := if incl then marshalPublicKey pub else [], hashType := ht,
              sigData := sign (signBody ctx ht hashData) }

/-- `NewSignature(ctx, sk, ht, data, inclPubKey)`: `hash.Sum`, then the constructor above. -/
def newSignatureIncl (sign : Bytes → Bytes) (pub : Bytes) (sum : SumFn) (ctx : Bytes) (ht : Int)
    (data : Bytes) (incl : Bool) : Option Signature :=
  match sum ht data with
  | none => none
  | some h => newSignatureWithHashedData sign pub ctx ht h incl

structure SignedMsg where
  fromPeerId : Bytes := []      -- base58 text
  signature : Signature := {}
  data : Bytes := []
deriving Repr, DecidableEq

inductive EavErr where
  | emptyBody | emptyPeerId | sigInvalid | badPeerId | noPubKey | notCanonical | badSignature
deriving Repr, DecidableEq

/-- `SignedMsg.ExtractAndVerify(ctx)`: `(raw public key, raw peer id)`. -/
def extractAndVerify (verify : VerifyFn) (sum : SumFn) (m : SignedMsg) (ctx : Bytes) :
    Except EavErr (Bytes × Bytes) :=
  if m.data.isEmpty then .error .emptyBody
  else if m.fromPeerId.isEmpty then .error .emptyPeerId
  else if !m.signature.validate then .error .sigInvalid
  else match idB58Decode m.fromPeerId with
    | none => .error .badPeerId
    | some id =>
      if id.isEmpty then .error .badPeerId else
      match extractPublicKey id with
      | none => .error .noPubKey
      | some pk =>
        -- `ExtractPubKey`: the sender must be THE id of its key, in its one text form
        if !(matchesPublicKey id pk) || idB58Encode id != m.fromPeerId then .error .notCanonical else
        match verifyWithPublic verify sum m.signature ctx pk m.data with
        | .good => .ok (pk, id)
        | _ => .error .badSignature

/-! ### wire form -/

def signatureSchema : PW.Schema := [⟨1, .bytes⟩, ⟨2, .varint⟩, ⟨3, .bytes⟩]
def signedMsgSchema : PW.Schema := [⟨1, .bytes⟩, ⟨2, .bytes⟩, ⟨3, .bytes⟩]

def Signature.unmarshal (b : Bytes) : Option Signature :=
  match PW.decode signatureSchema b with
  | .error _ => none
  | .ok r => some { pubKey := r.lastBytes 1, hashType := PW.toInt32 (r.lastVarint 2), sigData := r.lastBytes 3 }

def Signature.marshal (s : Signature) : Bytes :=
  PW.encBytesOpt 1 s.pubKey ++ PW.encVarintOpt 2 (int32ToU64 s.hashType) ++ PW.encBytesOpt 3 s.sigData

/-- `SignedMsg.UnmarshalVT`: repeated occurrences of the embedded signature are merged
(each must decode; the merge equals decoding their concatenation). -/
def SignedMsg.unmarshal (b : Bytes) : Option SignedMsg :=
  match PW.decode signedMsgSchema b with
  | .error _ => none
  | .ok r =>
    let sigs := r.allBytes 2
    if sigs.any (fun s => (Signature.unmarshal s).isNone) then none else
    match Signature.unmarshal sigs.flatten with
    | none => none
    | some s => some { fromPeerId := r.lastBytes 1, signature := s, data := r.lastBytes 3 }

def SignedMsg.marshal (m : SignedMsg) : Bytes :=
  PW.encBytesOpt 1 m.fromPeerId ++
  (if m.signature = {} then [] else PW.encBytes 2 m.signature.marshal) ++
  PW.encBytesOpt 3 m.data

end Sign
end Bifrost
