/-!
Two small concurrent objects of bifrost, each modelled as a labelled transition system whose
steps are the critical sections of the Go code. "All interleavings of the code" = "all op
sequences of the model"; code that runs outside a critical section (an unlocked read, an
asynchronous goroutine) is its own step.

* `Sms`  — `link/solicit/solicit-mounted.go` (`solicitMountedStream`: `AcceptMountedStream`,
  `Close`) and `link/solicit/controller/controller.go` (`resolveMatch`: which values are created
  for a matched stream). Model of the code AS FIXED (error checked under the mutex; one value per
  stream; a value nobody takes is closed by `resolveMatch`). `Sms.Orig` is the code before the fixes (unlocked `s.err` read as its own step, one
  value per matching directive) and is only used to exhibit the defects.
* `Hold` — `link/hold-open/establish_link.go` (`establishLinkHandler`: `HandleValueAdded` with its
  asynchronous `AddReference` goroutine, `HandleValueRemoved`, `HandleInstanceDisposed` with their
  asynchronous `Release` goroutines). Model of the code AS FIXED (the goroutine re-checks
  `valCount != 0 && rigidRef == nil` under the mutex). `Hold.stepOrig` is the code before the fix.
-/
namespace Bifrost
namespace Wrappers

/-! ## Solicited stream values (C31) -/
namespace Sms

/-- `solicitMountedStream`: `ms` (the wrapped stream, by identity; `none` = nil), `err != nil`,
`accepted`. -/
structure Wrapper where
  ms : Option Nat
  err : Bool := false
  accepted : Bool := false
deriving Repr, DecidableEq

/-- What a call returned. -/
inductive Res where
  | stream (ms : Option Nat)   -- AcceptMountedStream = (ms, false, nil): ownership handed over
  | already                    -- AcceptMountedStream = (nil, true, nil)
  | err                        -- AcceptMountedStream = (nil, false, err)
  | closed (b : Bool)          -- Close() = b
  | created (values deliveries : Nat) -- constructor / resolveMatch: distinct values, AddValue calls
  | pending                    -- (Orig) the unlocked check passed; the call now waits for the mutex
  | bad                        -- no such value / step not enabled
deriving Repr, DecidableEq

structure State where
  wrappers : List Wrapper := []   -- every value ever created; a value's id is its index
  nextStream : Nat := 0           -- streams are opened once each: fresh identity per resolveMatch
  returned : List Nat := []       -- streams handed to a caller by AcceptMountedStream (one entry per hand-over)
  closed : List Nat := []         -- streams closed by solicitMountedStream.Close (one entry per close)
deriving Repr, DecidableEq

/-- a hand-over of a nil stream is not a hand-over of any stream -/
def logStream (ms : Option Nat) (l : List Nat) : List Nat :=
  match ms with
  | some m => m :: l
  | none => l

inductive Op where
  | resolve (matching : Nat)  -- resolveMatch for a newly opened stream that `matching` local directives match
  | resolveH (takes : List Bool) -- resolveMatch for a stream that `takes.length` local directives match, whose
                              -- handlers answer `AddValue` in visiting order: `true` = took the value, `false` =
                              -- refused it (resolver context cancelled / directive released)
  | newNil                    -- NewSolicitMountedStream(nil)
  | newErr                    -- NewSolicitMountedStreamWithErr(err)
  | accept (w : Nat)          -- AcceptMountedStream on value w (one critical section)
  | close (w : Nat)           -- Close on value w (one critical section)
deriving Repr, DecidableEq

def step (s : State) : Op → State × Res
  | .resolve k =>
    -- one value around the stream, emitted to each of the k matching directives; when nobody
    -- takes it (k = 0) resolveMatch closes it: the stream is closed and the value carries the error
    ({ s with wrappers := s.wrappers ++ [⟨some s.nextStream, k == 0, false⟩],
              nextStream := s.nextStream + 1,
              closed := if k == 0 then s.nextStream :: s.closed else s.closed }, .created 1 k)
  | .resolveH takes =>
    -- `delivered` is true iff ANY handler took the value (`if _, ok := AddValue(sms); ok { delivered = true }`):
    -- only the NUMBER of handlers that took it matters, not their position in the (map-iteration) order
    let k := takes.count true
    ({ s with wrappers := s.wrappers ++ [⟨some s.nextStream, k == 0, false⟩],
              nextStream := s.nextStream + 1,
              closed := if k == 0 then s.nextStream :: s.closed else s.closed }, .created 1 k)
  | .newNil => ({ s with wrappers := s.wrappers ++ [⟨none, false, false⟩] }, .created 1 1)
  | .newErr => ({ s with wrappers := s.wrappers ++ [⟨none, true, false⟩] }, .created 1 1)
  | .accept i =>
    match s.wrappers[i]? with
    | none => (s, .bad)
    | some w =>
      if w.err then (s, .err)
      else if w.accepted then (s, .already)
      else
        ({ s with wrappers := s.wrappers.set i { w with accepted := true },
                  returned := logStream w.ms s.returned }, .stream w.ms)
  | .close i =>
    match s.wrappers[i]? with
    | none => (s, .bad)
    | some w =>
      if w.accepted then (s, .closed false)
      else match w.ms with
        | none => (s, .closed false)
        | some m =>
          ({ s with wrappers := s.wrappers.set i { w with err := true },
                    closed := m :: s.closed }, .closed true)

def run (ops : List Op) : State := ops.foldl (fun s o => (step s o).1) {}

/-- run, collecting every call's result -/
def runRes : State → List Op → State × List Res
  | s, [] => (s, [])
  | s, o :: rest =>
    let (s1, r) := step s o
    let (s2, rs) := runRes s1 rest
    (s2, r :: rs)

/-- What `AcceptMountedStream` on value `i` would return in state `s`. -/
def acceptRes (s : State) (i : Nat) : Res := (step s (.accept i)).2

/-- What `Close` on value `i` would return in state `s`. -/
def closeRes (s : State) (i : Nat) : Res := (step s (.close i)).2

/-! ### The code before the fixes -/
namespace Orig

structure State where
  wrappers : List Wrapper := []
  nextStream : Nat := 0
  returned : List Nat := []
  closed : List Nat := []
  pending : List Nat := []   -- one entry per call that passed the unlocked `s.err` check and has not yet taken the mutex
deriving Repr, DecidableEq

inductive Op where
  | resolve (matching : Nat)
  | newNil
  | newErr
  | acceptCheck (w : Nat)     -- `if s.err != nil { return … }` — read WITHOUT the mutex
  | acceptLock (w : Nat)      -- the locked part of AcceptMountedStream
  | close (w : Nat)
deriving Repr, DecidableEq

def step (s : State) : Op → State × Res
  | .resolve k =>
    -- one value PER matching directive, all around the same stream
    ({ s with wrappers := s.wrappers ++ List.replicate k ⟨some s.nextStream, false, false⟩,
              nextStream := s.nextStream + 1 }, .created k k)
  | .newNil => ({ s with wrappers := s.wrappers ++ [⟨none, false, false⟩] }, .created 1 1)
  | .newErr => ({ s with wrappers := s.wrappers ++ [⟨none, true, false⟩] }, .created 1 1)
  | .acceptCheck i =>
    match s.wrappers[i]? with
    | none => (s, .bad)
    | some w => if w.err then (s, .err) else ({ s with pending := i :: s.pending }, .pending)
  | .acceptLock i =>
    if !s.pending.contains i then (s, .bad) else
    match s.wrappers[i]? with
    | none => (s, .bad)
    | some w =>
      let s := { s with pending := s.pending.erase i }
      if w.accepted then (s, .already)
      else
        ({ s with wrappers := s.wrappers.set i { w with accepted := true },
                  returned := logStream w.ms s.returned }, .stream w.ms)
  | .close i =>
    match s.wrappers[i]? with
    | none => (s, .bad)
    | some w =>
      if w.accepted then (s, .closed false)
      else match w.ms with
        | none => (s, .closed false)
        | some m =>
          ({ s with wrappers := s.wrappers.set i { w with err := true },
                    closed := m :: s.closed }, .closed true)

def run (ops : List Op) : State := ops.foldl (fun s o => (step s o).1) {}

end Orig
end Sms

/-! ## Hold-open reference handler (C33) -/
namespace Hold

structure State where
  valCount : Nat := 0        -- e.valCount
  rigid : Bool := false      -- e.rigidRef != nil
  hasRef : Bool := true      -- e.ref != nil (set by handleEstablishLink)
  pendingAcq : Nat := 0      -- acquire goroutines spawned by HandleValueAdded that have not run yet
  pendingRel : Nat := 0      -- `go ref.Release()` goroutines that have not run yet
  outstanding : Nat := 0     -- live non-weak references hold-open has on the directive instance
  released : Bool := false   -- the directive instance was released (all its references are dead;
                             -- AddReference on it returns an already released reference)
deriving Repr, DecidableEq

inductive Op where
  | add          -- HandleValueAdded with a link.MountedLink value
  | addOther     -- HandleValueAdded with any other value (ignored)
  | remove       -- HandleValueRemoved
  | acquire      -- the critical section of one acquire goroutine
  | release      -- one `go ref.Release()` goroutine runs
  | instRelease  -- environment: the directive instance is released (Close / expiry)
  | disposed     -- HandleInstanceDisposed (called by the instance after its release)
deriving Repr, DecidableEq

def enabled (s : State) : Op → Bool
  | .acquire => s.pendingAcq > 0
  | .release => s.pendingRel > 0
  | .disposed => s.released
  | _ => true

/-- `go e.rigidRef.Release(); e.rigidRef = nil` -/
def dropRigid (s : State) : State :=
  if s.rigid then { s with rigid := false, pendingRel := s.pendingRel + 1 } else s

/-- `e.rigidRef = e.di.AddReference(nil, false)` -/
def takeRef (s : State) : State :=
  { s with rigid := true, outstanding := if s.released then s.outstanding else s.outstanding + 1 }

/-- parts of `step` shared by the fixed and the original code -/
def stepCommon (s : State) : Op → State
  | .add =>
    let s1 := { s with valCount := s.valCount + 1 }
    if s.rigid then s1 else { s1 with pendingAcq := s1.pendingAcq + 1 }
  | .addOther => s
  | .remove =>
    let s1 := if s.valCount > 0 then { s with valCount := s.valCount - 1 } else s
    if s1.valCount = 0 then dropRigid s1 else s1
  | .acquire => s
  | .release =>
    { s with pendingRel := s.pendingRel - 1,
             outstanding := if s.released then s.outstanding else s.outstanding - 1 }
  | .instRelease => { s with released := true, outstanding := 0 }
  | .disposed => if s.hasRef then dropRigid { s with hasRef := false } else s

/-- One step of the code as fixed. A step that is not enabled leaves the state unchanged, so
`run` over ALL op lists ranges over exactly the executions of the code. -/
def step (s : State) (o : Op) : State :=
  if !enabled s o then s else
  match o with
  | .acquire =>
    let s1 := { s with pendingAcq := s.pendingAcq - 1 }
    if s1.valCount ≠ 0 ∧ s1.rigid = false then takeRef s1 else s1
  | o => stepCommon s o

/-- One step of the code before the fix: the goroutine acquires unconditionally and overwrites
`rigidRef`. -/
def stepOrig (s : State) (o : Op) : State :=
  if !enabled s o then s else
  match o with
  | .acquire => takeRef { s with pendingAcq := s.pendingAcq - 1 }
  | o => stepCommon s o

def run (ops : List Op) : State := ops.foldl step {}
def runOrig (ops : List Op) : State := ops.foldl stepOrig {}

/-- states after every prefix (for the trace comparison) -/
def trace : State → List Op → List State
  | _, [] => []
  | s, o :: rest => let s' := step s o; s' :: trace s' rest

/-- The specification's view of a history: number of links added and not yet removed. -/
def liveLinks (ops : List Op) : Nat :=
  ops.foldl (fun n o => match o with | .add => n + 1 | .remove => n - 1 | _ => n) 0

/-- No asynchronous work outstanding. -/
def quiescent (s : State) : Prop := s.pendingAcq = 0 ∧ s.pendingRel = 0

instance (s : State) : Decidable (quiescent s) := by unfold quiescent; infer_instance

end Hold
end Wrappers
end Bifrost
