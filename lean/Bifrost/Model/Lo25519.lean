import Bifrost.Model.Bytes
/-!
`util/extra25519/lo25519.go` (`IsEdLowOrder`) and `util/extra25519/extra25519.go`
(`PublicKeyToCurve25519`), bit-exact. The blacklist table is a parameter (the theorems
instantiate it with the table regenerated from the source, `Bifrost.Gen.EdBlacklist.rows`).
Core Lean only.
-/
namespace Bifrost
namespace Lo25519

/-- Result of a Go call: a value, an `error`, or a run-time panic. -/
inductive Outcome (α : Type) where
  | ok (a : α)
  | err
  | panic
deriving Repr, DecidableEq

/-- The inner statement `c[i] |= ge[j] ^ edBlacklist[i][j]` for j = 0, 1, … over one row. -/
def accXor : Bytes → Bytes → UInt8 → UInt8
  | g :: gs, r :: rs, c => accXor gs rs (c ||| (g ^^^ r))
  | _, _, c => c

/-- `c[i]` after both loops: bytes 0..30 compared as they are, byte 31 with the top bit of the
input masked off (`(ge[31] & 0x7f) ^ edBlacklist[i][31]`). -/
def rowAcc (ge31 : Bytes) (g31 : UInt8) (row : Bytes) : UInt8 :=
  accXor ge31 (row.take 31) 0 ||| ((g31 &&& 0x7f) ^^^ row.getD 31 0)

/-- `k |= int(c[i]) - 1` on Go's 64-bit `int`. -/
def kStep (k : BitVec 64) (c : UInt8) : BitVec 64 := k ||| (BitVec.ofNat 64 c.toNat - 1)

/-- `IsEdLowOrder(ge)`. Go indexes `ge[0] … ge[31]` unconditionally (no early exit), so the call
panics (index out of range) exactly when `len(ge) < 32` (and the table is not empty). Bytes
after the 32nd are never looked at. `(k >> 8) & 1` is an arithmetic shift of a signed int. -/
def isEdLowOrder (rows : List Bytes) (ge : Bytes) : Outcome Bool :=
  if rows.isEmpty then .ok false
  else if ge.length < 31 then .panic          -- `ge[j]`, first loop
  else match ge[31]? with
    | none => .panic                          -- `ge[j]` with j = 31, second loop
    | some g31 =>
      let c := rows.map (rowAcc (ge.take 31) g31)
      let k := c.foldl kStep 0
      .ok (((k.sshiftRight 8) &&& 1) == 1)

/-- The first 32 bytes of the input with the sign bit (top bit of byte 31) cleared. -/
def maskSign (ge : Bytes) : Bytes :=
  match ge[31]? with
  | some g31 => ge.take 31 ++ [g31 &&& 0x7f]
  | none => ge

/-- `PublicKeyToCurve25519(edBytes)`: `ok none` = `(nil, false)`. `edToMont` is
`edwards25519.Point.SetBytes` followed by `BytesMontgomery` (`none` = SetBytes error: wrong
length or not a curve point). -/
def publicKeyToCurve25519 (rows : List Bytes) (edToMont : Bytes → Option Bytes) (ed : Bytes) :
    Outcome (Option Bytes) :=
  match isEdLowOrder rows ed with
  | .panic => .panic
  | .err => .err
  | .ok true => .ok none
  | .ok false => .ok (edToMont ed)

/-- Little-endian value of a byte string (the y-coordinate field of an encoding). -/
def leNat : Bytes → Nat
  | [] => 0
  | b :: bs => b.toNat + 256 * leNat bs

end Lo25519
end Bifrost
