import Bifrost.Model.Codec
import Bifrost.Model.Utf8
import Bifrost.Model.ProtoWire
import Bifrost.Gen.DispatchConsts
/-!
Dispatch decisions (engine `dispatch`): which controller answers which directive.

* C34 — one decision function per stream handler: given the controller built from a config and
  the (protocol, local peer, remote peer) of a `HandleMountedStream` directive, does
  `HandleDirective` return a resolver?
* C35 — the filter chains of `RpcServiceController`, `InvokerController`, `HTTPHandlerController`,
  `srpc.CheckStripPrefix` / `srpc.PrefixInvoker`, `http.StripPrefix`, and the `ServeMux`
  registration of `transport/websocket/http`. Regular expressions and `ServeMux` pattern matching
  are Go standard library: parameters of the model (oracles).
* C36 — the `LookupRpcService` reporting state machine of `rpc/access/server.go` and the
  component-ID codec of `rpc/access/access.go`.

Strings are byte strings (`Bytes`); the empty string is the "unset" value exactly as in Go.
Core Lean only.
-/
namespace Bifrost
namespace Dispatch
open Bifrost.Gen.DispatchConsts

/-! ## C34: stream handlers -/

/-- The parameters of a `link.HandleMountedStream` directive. -/
structure Stream where
  proto : Bytes
  localPeer : Bytes
  remotePeer : Bytes
deriving DecidableEq, Repr

/-- `confparse.ParsePeerID`: empty text is the empty ID, otherwise `peer.IDB58Decode`. -/
def parsePeerID (s : Bytes) : Option Bytes :=
  if s.isEmpty then some [] else Codec.idB58Decode s

/-- `protocol.ID.Validate() == nil`. -/
def protoValid (p : Bytes) : Bool := !p.isEmpty && Utf8.valid p

/-- `confparse.ParsePeerIDs(ids, allowEmpty)`. -/
def parsePeerIDs (allowEmpty : Bool) : List Bytes → Option (List Bytes)
  | [] => some []
  | s :: rest =>
    if s.isEmpty then
      if allowEmpty then parsePeerIDs allowEmpty rest else none
    else
      match Codec.idB58Decode s with
      | none => none
      | some v =>
        match parsePeerIDs allowEmpty rest with
        | none => none
        | some vs => some (v :: vs)

/-- `confparse.ParseProtocolID(id, allowEmpty)`. -/
def parseProtocolID (allowEmpty : Bool) (s : Bytes) : Option Bytes :=
  if allowEmpty && s.isEmpty then some [] else if protoValid s then some s else none

/-- `confparse.ParseProtocolIDs(ids, allowEmpty)`. -/
def parseProtocolIDs (allowEmpty : Bool) : List Bytes → Option (List Bytes)
  | [] => some []
  | s :: rest =>
    match parseProtocolID allowEmpty s with
    | none => none
    | some v =>
      match parseProtocolIDs allowEmpty rest with
      | none => none
      | some vs => some (v :: vs)

/-! ### stream/echo -/

structure EchoConfig where
  peerId : Bytes
  protocolId : Bytes
deriving DecidableEq, Repr

/-- The controller state `HandleDirective` reads: `conf.ProtocolId` (after the constructor's
defaulting) and `localPeerID`. -/
structure EchoCtl where
  protocolId : Bytes
  localPeerID : Bytes
deriving DecidableEq, Repr

def EchoConfig.validate (c : EchoConfig) : Bool :=
  (parsePeerID c.peerId).isSome && (c.protocolId.isEmpty || protoValid c.protocolId)

/-- `stream_echo.NewController` (`none` = constructor error). -/
def echoNew (c : EchoConfig) : Option EchoCtl :=
  match parsePeerID c.peerId with
  | none => none
  | some pid =>
    some { protocolId := if c.protocolId.isEmpty then echoDefaultProtocolID else c.protocolId,
           localPeerID := pid }

/-- `resolveHandleMountedStream` of echo: does it return a resolver? -/
def EchoCtl.handles (c : EchoCtl) (s : Stream) : Bool :=
  if !c.protocolId.isEmpty && c.protocolId != s.proto then false
  else if !c.localPeerID.isEmpty && s.localPeer != c.localPeerID then false
  else true

/-! ### stream/forwarding -/

structure FwdConfig where
  peerId : Bytes
  protocolId : Bytes
  /-- `target_multiaddr` is non-empty -/
  targetSet : Bool
  /-- `ma.NewMultiaddr(target_multiaddr)` succeeds (third-party parser: a parameter) -/
  targetOk : Bool
deriving DecidableEq, Repr

structure FwdCtl where
  protocolId : Bytes
  localPeerID : Bytes
deriving DecidableEq, Repr

def FwdConfig.validate (c : FwdConfig) : Bool :=
  (parsePeerID c.peerId).isSome && protoValid c.protocolId && c.targetSet && c.targetOk

/-- `stream_forwarding.NewController`: parses the multiaddr and the peer ID, nothing else. -/
def fwdNew (c : FwdConfig) : Option FwdCtl :=
  if !c.targetOk then none else
  match parsePeerID c.peerId with
  | none => none
  | some pid => some { protocolId := c.protocolId, localPeerID := pid }

def FwdCtl.handles (c : FwdCtl) (s : Stream) : Bool :=
  if !c.protocolId.isEmpty && c.protocolId != s.proto then false
  else if !c.localPeerID.isEmpty && s.localPeer != c.localPeerID then false
  else true

/-! ### stream/relay -/

structure RelayConfig where
  peerId : Bytes
  protocolId : Bytes
  targetPeerId : Bytes
  targetProtocolId : Bytes
deriving DecidableEq, Repr

structure RelayCtl where
  protocolId : Bytes      -- conf.GetProtocolId()
  srcPeerID : Bytes
  /-- `targetPeerID`: the parsed `target_peer_id` — whom the relayed stream is opened with.
  Never read by the filter. -/
  targetPeerID : Bytes
  /-- `targetProtocolID`: `target_protocol_id`, or the listen protocol when that is unset — the
  protocol the relayed stream is opened with. Never read by the filter. -/
  targetProtocolID : Bytes
deriving DecidableEq, Repr

/-- The protocol a relay forwards with: `target_protocol_id`; unset means "the same protocol". -/
def RelayConfig.targetProto (c : RelayConfig) : Bytes :=
  if c.targetProtocolId.isEmpty then c.protocolId else c.targetProtocolId

def RelayConfig.validate (c : RelayConfig) : Bool :=
  (parsePeerID c.peerId).isSome && protoValid c.protocolId && !c.targetPeerId.isEmpty &&
    (parsePeerID c.targetPeerId).isSome && (c.targetProtocolId.isEmpty || protoValid c.targetProtocolId)

/-- `stream_relay.NewController`. -/
def relayNew (c : RelayConfig) : Option RelayCtl :=
  match parsePeerID c.peerId with
  | none => none
  | some spid =>
    if spid.isEmpty then none else
    match parsePeerID c.targetPeerId with
    | none => none
    | some tpid =>
      if tpid.isEmpty then none
      else if !protoValid c.protocolId then none
      else if !c.targetProtocolId.isEmpty && !protoValid c.targetProtocolId then none
      else some { protocolId := c.protocolId, srcPeerID := spid, targetPeerID := tpid,
                  targetProtocolID := c.targetProto }

def RelayCtl.handles (c : RelayCtl) (s : Stream) : Bool :=
  if c.protocolId != s.proto || c.srcPeerID != s.localPeer then false else true

/-- What the relay's `MountedStreamHandler` does with a stream it was handed, the stream having
arrived on a link whose local peer is `linkLocal` from the remote peer `remote`:
`backLink` = the (source, target) of the `EstablishLinkWithPeer` directive that keeps the incoming
link up; `openProto` / `openLocal` / `openPeer` = the arguments of
`link.OpenStreamWithPeerEx(ctx, bus, targetProtocolID, localPeerID, targetPeerID, 0, opts)`. -/
structure RelayOpen where
  backLink : Bytes × Bytes
  openProto : Bytes
  openLocal : Bytes
  openPeer : Bytes
deriving DecidableEq, Repr

def RelayCtl.opens (c : RelayCtl) (linkLocal remote : Bytes) : RelayOpen :=
  { backLink := (linkLocal, remote), openProto := c.targetProtocolID, openLocal := linkLocal,
    openPeer := c.targetPeerID }

/-! ### stream/api/accept -/

structure AcceptConfig where
  localPeerId : Bytes
  remotePeerIds : List Bytes
  protocolId : Bytes
  /-- `transport_id`: documented as "constrains the transport ID"; a `HandleMountedStream`
  directive carries no transport, and neither `Validate`, the constructor nor the filter read
  the field: it means nothing for which streams are taken. -/
  transportId : Nat
deriving DecidableEq, Repr

structure AcceptCtl where
  protocolID : Bytes
  localPeerID : Bytes
  remotePeerIDs : List Bytes
deriving DecidableEq, Repr

def AcceptConfig.validate (c : AcceptConfig) : Bool :=
  (c.localPeerId.isEmpty || (parsePeerID c.localPeerId).isSome) &&
    c.remotePeerIds.all (fun p => (parsePeerID p).isSome) && protoValid c.protocolId

/-- The constructor's loop over `remote_peer_ids`: `peer.IDB58Decode` on each (an empty entry is
an error here, although `Validate` lets it pass). -/
def decodeAll : List Bytes → Option (List Bytes)
  | [] => some []
  | s :: rest =>
    match Codec.idB58Decode s with
    | none => none
    | some v =>
      match decodeAll rest with
      | none => none
      | some vs => some (v :: vs)

/-- `stream_api_accept.NewController`. -/
def acceptNew (c : AcceptConfig) : Option AcceptCtl :=
  match parsePeerID c.localPeerId with
  | none => none
  | some lp =>
    match decodeAll c.remotePeerIds with
    | none => none
    | some rs =>
      if !protoValid c.protocolId then none
      else some { protocolID := c.protocolId, localPeerID := lp, remotePeerIDs := rs }

def AcceptCtl.handles (c : AcceptCtl) (s : Stream) : Bool :=
  if c.protocolID != s.proto then false
  else if !c.localPeerID.isEmpty && s.localPeer != c.localPeerID then false
  else if !c.remotePeerIDs.isEmpty && !c.remotePeerIDs.contains s.remotePeer then false
  else true

/-! ### stream/srpc/server -/

structure SrpcConfig where
  peerIds : List Bytes
  protocolIds : List Bytes
  /-- `disable_establish_link`: whether `HandleMountedStream` skips the `EstablishLinkWithPeer`
  directive that keeps the incoming link up while the RPC stream lives. Not read by the filter. -/
  disableEstablishLink : Bool
deriving DecidableEq, Repr

/-- `Server`: `protocolIDs` and `peerIDs` (base58 *text* of the served local peers). -/
structure SrpcServer where
  protocolIDs : List Bytes
  peerIDs : List Bytes
  /-- copied from the config / constructor argument; not read by the filter -/
  disableEstablishLink : Bool
deriving DecidableEq, Repr

/-- `Config.ApplyDefaults(protocolIds)`: a config without protocol IDs gets the caller's defaults
(`signaling/rpc/server` passes its own protocol ID); a config with protocol IDs keeps exactly its own. -/
def SrpcConfig.applyDefaults (c : SrpcConfig) (defaults : List Bytes) : SrpcConfig :=
  if c.protocolIds.length == 0 then { c with protocolIds := c.protocolIds ++ defaults } else c

def SrpcConfig.validate (c : SrpcConfig) : Bool :=
  (parsePeerIDs false c.peerIds).isSome && (parseProtocolIDs false c.protocolIds).isSome

/-- `Config.BuildServer`: `peer.IDsToString` of the parsed IDs. -/
def srpcBuild (c : SrpcConfig) : Option SrpcServer :=
  match parseProtocolIDs false c.protocolIds with
  | none => none
  | some ps =>
    match parsePeerIDs false c.peerIds with
    | none => none
    | some ids => some { protocolIDs := ps, peerIDs := ids.map B58.encode,
                         disableEstablishLink := c.disableEstablishLink }

/-- `Server.ResolveHandleMountedStream`. -/
def SrpcServer.handles (c : SrpcServer) (s : Stream) : Bool :=
  if !c.protocolIDs.contains s.proto then false
  else if !c.peerIDs.isEmpty then c.peerIDs.contains (B58.encode s.localPeer)
  else true

/-- `Server.HandleMountedStream`: the (source, target) of the `EstablishLinkWithPeer` directive it
adds for a stream that arrived on a link with local peer `linkLocal` from `remote` (`none`: it adds none). -/
def SrpcServer.backLink (c : SrpcServer) (linkLocal remote : Bytes) : Option (Bytes × Bytes) :=
  if !c.disableEstablishLink then some (linkLocal, remote) else none

/-- `stream/srpc/server/lookup.Config`: the second way a `Server` is built (`NewServerWithMux`).
`server_id` is the server ID the `LookupRpcService` directives of incoming calls carry; it is not
read by the stream filter. -/
structure SrpcLookupConfig where
  peerIds : List Bytes
  protocolIds : List Bytes
  serverId : Bytes
deriving DecidableEq, Repr

/-- `stream_srpc_server_lookup.NewController`: the same parsing as `Config.BuildServer`, through
`NewServerWithMux`, always with the back link enabled. -/
def srpcLookupBuild (c : SrpcLookupConfig) : Option SrpcServer :=
  srpcBuild { peerIds := c.peerIds, protocolIds := c.protocolIds, disableEstablishLink := false }

/-! ### pubsub/controller and link/solicit/controller -/

/-- `pubsub_controller.Controller.handleMountedStream`; `protocolID` is a constructor argument. -/
def pubsubHandles (protocolID : Bytes) (s : Stream) : Bool :=
  if s.proto != protocolID then false else true

/-- The constructor arguments of `pubsub_controller.NewController` that are data: `peerID` names
the peer whose private key signs published messages (empty = none is looked up); it is not a
filter — the controller takes streams of its protocol for every local peer. -/
structure PubsubArgs where
  peerID : Bytes
  protocolID : Bytes
deriving DecidableEq, Repr

def PubsubArgs.handles (a : PubsubArgs) (s : Stream) : Bool := pubsubHandles a.protocolID s

/-- `link_solicit_controller.Controller.handleMountedStream`. -/
def solicitHandles (s : Stream) : Bool :=
  if s.proto == solicitControlProtocolID then true
  else if solicitStreamPrefix.isPrefixOf s.proto then true
  else false

/-- `link_solicit_controller.Config`: `max_hashes` bounds the hash list of one exchange
(0 = the default); it is not read by the filter. -/
structure SolicitConfig where
  maxHashes : Nat
deriving DecidableEq, Repr

def SolicitConfig.handles (_ : SolicitConfig) (s : Stream) : Bool := solicitHandles s

/-! ## C35: RPC / HTTP lookups -/

/-- `strings.HasPrefix(s, p)`. -/
def hasPrefix (s p : Bytes) : Bool := p.isPrefixOf s

/-- The first prefix of the list that `s` starts with (the `for … break` loops). -/
def firstPrefix (ps : List Bytes) (s : Bytes) : Option Bytes := ps.find? (fun p => hasPrefix s p)

/-- `srpc.CheckStripPrefix(id, matchPrefixes)` = (strippedID, matchedPrefix). -/
def checkStripPrefix (id : Bytes) (ps : List Bytes) : Bytes × Bytes :=
  if ps.isEmpty then (id, [])
  else match firstPrefix ps id with
    | none => (id, [])
    | some p => (id.drop p.length, p)

/-- `srpc.PrefixInvoker.InvokeMethod`: the service ID handed to the wrapped invoker, or `none`
when the call is refused (`false, nil`: "not found"). -/
def prefixInvoke (ps : List Bytes) (id : Bytes) : Option Bytes :=
  if !ps.isEmpty then
    let r := checkStripPrefix id ps
    if r.2.isEmpty then none else some r.1
  else some id

/-- `RpcServiceController`. `hasRe`/`hasServerRe`: the regexp pointers are non-nil. -/
structure RpcSvc where
  prefixes : List Bytes
  strip : Bool
  hasRe : Bool
  list : List Bytes
  hasServerRe : Bool
deriving DecidableEq, Repr

/-- `RpcServiceController.HandleDirective` for `LookupRpcService(serviceID, serverID)`: is a
resolver returned? `reMatch`/`srvMatch` are `regexp.MatchString` of the two patterns. -/
def RpcSvc.answers (c : RpcSvc) (reMatch srvMatch : Bytes → Bool) (serviceID serverID : Bytes) : Bool :=
  let m0 := c.prefixes.isEmpty && !c.hasRe && c.list.isEmpty
  let m1 := if !m0 && !c.prefixes.isEmpty then c.prefixes.any (fun p => hasPrefix serviceID p) else m0
  let m2 := if !m1 && c.hasRe then reMatch serviceID else m1
  let m3 := if !m2 then c.list.contains serviceID else m2
  let m4 := if m3 && c.hasServerRe then srvMatch serverID else m3
  m4

/-- What the service's invoker is called with when the resolved value is invoked with
`serviceID` (`none` = refused by the `PrefixInvoker`). -/
def RpcSvc.seen (c : RpcSvc) (serviceID : Bytes) : Option Bytes :=
  if c.strip then prefixInvoke c.prefixes serviceID else some serviceID

/-- `InvokerController.HandleDirective`. -/
def invokerAnswers (ps : List Bytes) (serviceID : Bytes) : Bool :=
  if !ps.isEmpty then
    if (checkStripPrefix serviceID ps).2.isEmpty then false else true
  else true

/-- `InvokerController.InvokeMethod` goes through `srpc.NewPrefixInvoker(invoker, prefixes)`. -/
def invokerSeen (ps : List Bytes) (serviceID : Bytes) : Option Bytes := prefixInvoke ps serviceID

/-! ### `LookupRpcClient`: rpc.ClientController, stream/srpc/client/controller, rpc/access.ClientController -/

/-- `bifrost_rpc.ClientController.HandleDirective` for `LookupRpcClient(serviceID, _)` with
`matchServicePrefixes = ps`: is a resolver returned? -/
def clientAnswers (ps : List Bytes) (serviceID : Bytes) : Bool :=
  if !ps.isEmpty then
    if (checkStripPrefix serviceID ps).2.isEmpty then false else true
  else true

/-- `srpc.PrefixClient.stripCheckServiceIDPrefix`: the service ID handed to the wrapped client by
`ExecCall` / `NewStream`, or `none` when the call is refused (`ErrUnimplemented`). -/
def prefixClientSeen (ps : List Bytes) (service : Bytes) : Option Bytes :=
  if !ps.isEmpty then
    let r := checkStripPrefix service ps
    if r.2.isEmpty then none else some r.1
  else some service

/-- `stream_srpc_client_controller.NewController`: the prefix list handed to
`bifrost_rpc.NewClientController` for the configured `service_id_prefixes`. A list that starts with
the empty prefix matches every service ID with nothing to strip, and is passed on as "no prefixes"
(= forward everything unchanged), like the empty list. -/
def clientPrefixes : List Bytes → List Bytes
  | [] => []
  | p :: rest => if p.isEmpty then [] else p :: rest

/-- The controller built from a config: does it answer `LookupRpcClient(serviceID, _)`? -/
def clientCtlAnswers (cfg : List Bytes) (serviceID : Bytes) : Bool :=
  clientAnswers (clientPrefixes cfg) serviceID

/-- …and what the remote sees as service ID when the resolved client is used for `serviceID`. -/
def clientCtlSeen (cfg : List Bytes) (serviceID : Bytes) : Option Bytes :=
  prefixClientSeen (clientPrefixes cfg) serviceID

/-- `bifrost_rpc_access.ClientController`: `serviceIDRe` / `serverIDRe` are non-nil. -/
structure AccessClient where
  hasRe : Bool
  hasServerRe : Bool
deriving DecidableEq, Repr

/-- `bifrost_rpc_access.ClientController.HandleDirective` for `LookupRpcService(serviceID, serverID)`:
each regexp is consulted only for a non-empty ID. -/
def AccessClient.answers (c : AccessClient) (reMatch srvMatch : Bytes → Bool) (serviceID serverID : Bytes) : Bool :=
  if c.hasRe && !serviceID.isEmpty && !reMatch serviceID then false
  else if c.hasServerRe && !serverID.isEmpty && !srvMatch serverID then false
  else true

/-- `HTTPHandlerController`. -/
structure HttpCtl where
  prefixes : List Bytes
  strip : Bool
  hasRe : Bool
deriving DecidableEq, Repr

/-- `HandleDirective` for `LookupHTTPHandler` with `URL.Path = path`: (matched, stripPrefix). -/
def HttpCtl.decide (c : HttpCtl) (reMatch : Bytes → Bool) (path : Bytes) : Bool × Bytes :=
  let m0 := c.prefixes.isEmpty && !c.hasRe
  let r1 : Bool × Bytes :=
    if !m0 && !c.prefixes.isEmpty then
      match firstPrefix c.prefixes path with
      | some p => (true, p)
      | none => (m0, [])
    else (m0, [])
  let m2 := if !r1.1 && c.hasRe then reMatch path else r1.1
  (m2, r1.2)

def HttpCtl.answers (c : HttpCtl) (reMatch : Bytes → Bool) (path : Bytes) : Bool :=
  (c.decide reMatch path).1

/-- `strings.TrimPrefix`. -/
def trimPrefix (s p : Bytes) : Bytes := if hasPrefix s p then s.drop p.length else s

/-- `http.StripPrefix(pfx, h)` serving a request with `URL.Path = path`, `URL.RawPath = raw`:
the (Path, RawPath) the wrapped handler sees, or `none` for the 404 branch. -/
def httpStripPrefix (pfx path raw : Bytes) : Option (Bytes × Bytes) :=
  if pfx.isEmpty then some (path, raw) else
  let p := trimPrefix path pfx
  let rp := trimPrefix raw pfx
  if p.length < path.length && (raw.isEmpty || rp.length < raw.length) then some (p, rp) else none

/-- The (Path, RawPath) seen by the registered handler when the value resolved for the lookup of
`path` serves a request for that same URL. Only meaningful when `answers`. -/
def HttpCtl.seen (c : HttpCtl) (reMatch : Bytes → Bool) (path raw : Bytes) : Option (Bytes × Bytes) :=
  let sp := (c.decide reMatch path).2
  if c.strip && !sp.isEmpty then httpStripPrefix sp path raw else some (path, raw)

/-- `MatchServeMuxPattern`: the method handed to `ServeMux.Handler`. -/
def muxMethod (m : Bytes) : Bytes := if m.isEmpty then [79, 80, 84, 73, 79, 78, 83] else m  -- "OPTIONS"

/-- `MatchServeMuxPattern`: the `Request.Host` handed to `ServeMux.Handler` — the host of the
lookup URL (`ServeMux` matches host-qualified patterns against `Request.Host`, never `URL.Host`). -/
def muxHost (urlHost : Bytes) : Bytes := urlHost

/-- `WebSocketHttp.ResolveLookupHTTPHandler` (after the fix of F23): `pattern` is what
`ServeMux.Handler` returned for (`muxMethod method`, url); the lookup is answered iff a
registered pattern matched. -/
def muxAnswers (pattern : Bytes) : Bool := !pattern.isEmpty

/-! ## C36: remote lookup reporting -/

/-- `LookupRpcServiceResponse`. -/
structure Msg where
  idle : Bool
  exist : Bool
  removed : Bool
deriving DecidableEq, Repr

def Msg.mkExists : Msg := ⟨false, true, false⟩
def Msg.mkRemoved : Msg := ⟨false, false, true⟩
def Msg.mkIdle (b : Bool) : Msg := ⟨b, false, false⟩

/-- What the bus tells the handler. `added id isSvc`: value-added callback (`isSvc`: the value is
a `LookupRpcServiceValue`); `removed id`: value-removed callback; `idle b`: idle callback. -/
inductive Ev where
  | added (id : Nat) (isSvc : Bool)
  | removed (id : Nat)
  | idle (b : Bool)
deriving DecidableEq, Repr

/-- The closure state of `LookupRpcService`: the `vals` map keys and `resIdle`. -/
structure St where
  vals : List Nat := []
  resIdle : Bool := false
deriving DecidableEq, Repr

/-- map insert -/
def insertKey (l : List Nat) (id : Nat) : List Nat := if l.contains id then l else id :: l

/-- One callback: new state and the messages appended to `sendQueue`. -/
def step (s : St) : Ev → St × List Msg
  | .added id isSvc =>
    if !isSvc then (s, []) else
    let vals := insertKey s.vals id
    ({ s with vals := vals }, if vals.length == 1 then [Msg.mkExists] else [])
  | .removed id =>
    if !s.vals.contains id then (s, []) else
    let vals := s.vals.erase id
    ({ s with vals := vals }, if vals.length == 0 then [Msg.mkRemoved] else [])
  | .idle b =>
    if b == s.resIdle then (s, []) else ({ s with resIdle := b }, [Msg.mkIdle b])

/-- All callbacks of a history from state `s`: final state and everything queued, in order.
(The send loop forwards the queue in order; it only ever drops a suffix when it terminates.) -/
def runFrom (s : St) : List Ev → St × List Msg
  | [] => (s, [])
  | e :: rest =>
    let r := step s e
    let r2 := runFrom r.1 rest
    (r2.1, r.2 ++ r2.2)

def run (evs : List Ev) : St × List Msg := runFrom {} evs

/-- `LookupRpcServiceRequest`. -/
structure Req where
  serviceId : Bytes
  serverId : Bytes
deriving DecidableEq, Repr

def reqSchema : PW.Schema := [⟨1, .bytes⟩, ⟨2, .bytes⟩]

/-- `MarshalVT`. -/
def Req.marshal (r : Req) : Bytes := PW.encBytesOpt 1 r.serviceId ++ PW.encBytesOpt 2 r.serverId

/-- `UnmarshalVT` into a fresh message: the request and the retained unknown fields. -/
def Req.unmarshal (b : Bytes) : Option (Req × Bytes) :=
  match PW.decode reqSchema b with
  | .ok raw => some (⟨raw.lastBytes 1, raw.lastBytes 2⟩, raw.unknown)
  | .error _ => none

/-- `MarshalComponentID`. -/
def marshalComponentID (r : Req) : Bytes := B58.encode r.marshal

/-- `UnmarshalComponentID` (`b58.Decode` rejects the empty string). -/
def unmarshalComponentID (s : Bytes) : Option (Req × Bytes) :=
  match B58.decode s with
  | none => none
  | some d => Req.unmarshal d

/-! ### C36: resolver errors delivered with the idle callback, and the end of the stream -/

/-- A resolver error handed to the idle callback; `canceled` is `context.Canceled` (the one
error the send loop does not end the stream for). -/
inductive RErr where
  | canceled
  | other (id : Nat)
deriving DecidableEq, Repr

/-- Bus callbacks including the error list of the idle callback (`none` = a nil entry of `resErrs`).
`ev (.idle b)` is the idle callback with an empty error list. -/
inductive EvE where
  | ev (e : Ev)
  | idleErrs (b : Bool) (errs : List (Option RErr))
deriving DecidableEq, Repr

/-- The closure state including `resErr` (set once, never cleared). -/
structure StE where
  st : St := {}
  resErr : Option RErr := none
deriving DecidableEq, Repr

/-- `for _, err := range resErrs { if err != nil { resErr = err; break } }`. -/
def firstErr : List (Option RErr) → Option RErr
  | [] => none
  | some e :: _ => some e
  | none :: rest => firstErr rest

/-- One callback (critical section) on the extended state. -/
def stepE (s : StE) : EvE → StE × List Msg
  | .ev e =>
    let r := step s.st e
    ({ s with st := r.1 }, r.2)
  | .idleErrs b errs =>
    let resErr := if s.resErr.isNone then firstErr errs else s.resErr
    let r := step s.st (.idle b)
    (⟨r.1, resErr⟩, r.2)

/-- The test at the top of the send loop: `currIdle && currResErr != nil && currResErr != context.Canceled`. -/
def fatal (s : StE) : Option RErr :=
  if s.st.resIdle then
    match s.resErr with
    | some .canceled => none
    | some e => some e
    | none => none
  else none

/-- The stream seen by a client when the send loop runs after every callback (a consumer that
keeps up): the messages sent and the error the stream ends with (`none`: it has not ended). When
the test fires, the batch queued by that same callback is not sent. -/
def runSync (s : StE) : List EvE → List Msg × Option RErr
  | [] => ([], none)
  | e :: rest =>
    let r := stepE s e
    match fatal r.1 with
    | some err => ([], some err)
    | none =>
      let r2 := runSync r.1 rest
      (r.2 ++ r2.1, r2.2)

/-- How a `LookupRpcService` call ends (what the function returns), `open` = it has not ended. -/
inductive StreamEnd where
  | open
  | resolverErr (e : RErr)   -- the recorded resolver error, once idle
  | canceled                 -- `strm.Context().Done()`: `context.Canceled`
  | sendFailed               -- the error of the failing `strm.Send`
deriving DecidableEq, Repr

/-- The stream seen by a consumer that keeps up when, in addition, the stream context is cancelled
after the first `n` callbacks (`cancelAfter = some n`) and / or the `k`-th `Send` (0-based) fails
(`failAt = some k`): the messages delivered and how the call ends. Every exit path runs the
deferred `ref.Release()` and the release of the idle callback exactly once (observed by the
harness, not modelled). -/
def runEnds (evs : List EvE) (cancelAfter failAt : Option Nat) : List Msg × StreamEnd :=
  let evs' := match cancelAfter with
    | some n => evs.take n
    | none => evs
  let r := runSync {} evs'
  let fin : List Msg × StreamEnd := match r.2 with
    | some e => (r.1, .resolverErr e)
    | none => (r.1, if cancelAfter.isSome then .canceled else .open)
  match failAt with
  | some k => if k < r.1.length then (r.1.take k, .sendFailed) else fin
  | none => fin

/-! ### C36: the consumer of the stream (`LookupRpcServiceResolver.Resolve`, client-resolver.go) -/

/-- The loop state of `Resolve` for one stream: `valID != 0` (it has added the proxy value to its
handler) and whether it has marked its handler idle. -/
structure ResolverView where
  hasVal : Bool := false
  idle : Bool := false
deriving DecidableEq, Repr

/-- One received response: `if removed && valID != 0 { RemoveValue }`, `if exists && valID == 0
{ AddValue }`, `if resp.GetIdle() { handler.MarkIdle(true) }` — the handler is never marked busy again. -/
def resolverStep (v : ResolverView) (m : Msg) : ResolverView :=
  let hv1 := if m.removed && v.hasVal then false else v.hasVal
  let hv2 := if m.exist && !hv1 then true else hv1
  { hasVal := hv2, idle := if m.idle then true else v.idle }

def resolverView (v : ResolverView) (msgs : List Msg) : ResolverView := msgs.foldl resolverStep v

/-! ### C36: which directive a request becomes -/

/-- `(*LookupRpcServiceRequest).ToDirective`: the (service ID, server ID) of the directive. -/
def Req.toDirective (r : Req) : Bytes × Bytes := (r.serviceId, r.serverId)

/-- `RequestFromDirective`. -/
def requestFromDirective (d : Bytes × Bytes) : Req := ⟨d.1, d.2⟩

/-- `(*LookupRpcServiceRequest).Validate() == nil` = `ToDirective().Validate()`: the service ID
must not be empty (`srpc.ErrEmptyServiceID`). -/
def Req.validate (r : Req) : Bool := !r.serviceId.isEmpty

/-- The head of `LookupRpcService` / `CallRpcService`: the optional `serverIdCb` rewrites the
server ID or fails (`none`). -/
def applyServerIdCb (cb : Option (Bytes → Option Bytes)) (serverId : Bytes) : Option Bytes :=
  match cb with
  | none => some serverId
  | some f => f serverId

/-- `LookupRpcService`: the directive handed to `AddDirective` (`none`: the callback failed and
the call returned its error before touching the bus). The request is not validated here
(`CallRpcService` does validate): a lookup with an empty service ID is placed as it is, and
controllerbus does not validate directives in `AddDirective` either. -/
def lookupPlaced (cb : Option (Bytes → Option Bytes)) (r : Req) : Option (Bytes × Bytes) :=
  (applyServerIdCb cb r.serverId).map (fun srv => (r.serviceId, srv))

/-- Outcome of the getter of `CallRpcService`. -/
inductive CallOut where
  | ok (serviceId serverId : Bytes)   -- invokers of exactly this lookup serve the call
  | errDecode                         -- `UnmarshalComponentID` failed
  | errInvalid                        -- `Validate` failed
  | errServerId                       -- `serverIdCb` failed
  | errNoServer                       -- no invoker: `(nil, nil, nil)` ⇒ rpcstream.ErrNoServerForComponent
deriving DecidableEq, Repr

/-- `CallRpcService`'s getter for the component ID text `cid`; `provided sid srv`: the lookup of
(sid, srv) on the bus yields at least one invoker. -/
def callRpcService (cb : Option (Bytes → Option Bytes)) (provided : Bytes → Bytes → Bool) (cid : Bytes) : CallOut :=
  match unmarshalComponentID cid with
  | none => .errDecode
  | some (r, _) =>
    if !r.validate then .errInvalid else
    match applyServerIdCb cb r.serverId with
    | none => .errServerId
    | some srv => if provided r.serviceId srv then .ok r.serviceId srv else .errNoServer

end Dispatch
end Bifrost
