/-!
Dialing a peer at an address: `transport/common/quic/quic.go` (`Transport.DialPeer`),
`transport/common/dialer/dialer.go` (`Dialer.Execute` retry loop),
`transport/controller/link-dialer.go` / `controller.go` (`DialPeerAddr`, dialers keyed by
(peer, address)).

The environment decides what happens at each attempt: who answers at the address (after a
successful, authenticated handshake — C03), or that the dial fails. Peer 0 = "any peer".
-/
namespace Bifrost
namespace Dial

inductive Attempt where
  | answered (by_ : Nat)      -- handshake completed with this authenticated peer
  | failed                    -- transient dial error
  | fatal                     -- fatal dial error
deriving Repr, DecidableEq

inductive Res where
  | link (remote : Nat)
  | err (fatal : Bool)
deriving Repr, DecidableEq

/-- `Transport.DialPeer(ctx, peerID, addr)` for one attempt (code as fixed: the peer that
answered is compared with the requested peer). -/
def dialPeer (requested : Nat) : Attempt → Res
  | .answered p => if requested ≠ 0 ∧ p ≠ requested then .err false else .link p
  | .failed => .err false
  | .fatal => .err true

/-- `Dialer.Execute`: retry with backoff until success or a fatal error (`attempts` = what the
environment does at each successive attempt; running out of attempts = still retrying). -/
def execute (requested : Nat) : List Attempt → Option Res
  | [] => none                         -- still retrying (no result yet)
  | a :: rest =>
    match dialPeer requested a with
    | .link p => some (.link p)
    | .err true => some (.err true)
    | .err false => execute requested rest

/-- `Dialer.Execute` with a backoff that GIVES UP (`backoff.Exponential.max_elapsed_time` set:
`bo := d.backoff.NextBackOff(); … if bo == -1 { return nil, errors.New("dial backoff max duration exceeded") }`).
`budget` = the number of failed attempts after which `NextBackOff` still returns a delay; the
failed attempt that finds the budget exhausted ends the dialer with a (non-fatal) error. The
link dialer routine (`executeLinkDialer`) then returns that error; `keyed` (constructed without a
retry backoff) does not run it again while the references on the key stay as they are — only a
NEW reference (`AddKeyRef` → `SetKey(key, true)`) starts a fresh execution with a fresh budget. -/
def executeBudget (requested : Nat) : List Attempt → Nat → Option Res
  | [], _ => none
  | a :: rest, b =>
    match dialPeer requested a with
    | .link p => some (.link p)
    | .err true => some (.err true)
    | .err false =>
      match b with
      | 0 => some (.err false)
      | b + 1 => executeBudget requested rest b

/-- number of attempts consumed before `execute` returned (or all of them). -/
def consumed (requested : Nat) : List Attempt → Nat
  | [] => 0
  | a :: rest =>
    match dialPeer requested a with
    | .err false => consumed requested rest + 1
    | _ => 1

end Dial
end Bifrost
