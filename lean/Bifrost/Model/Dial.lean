/-!
Dialing a peer at an address: `transport/common/quic/quic.go` (`Transport.DialPeer`),
`transport/common/dialer/dialer.go` (`Dialer.Execute` retry loop),
`transport/controller/link-dialer.go` / `controller.go` (`DialPeerAddr`, dialers keyed by
(peer, address)).

The environment decides what happens at each attempt: who answers at the address (after a
successful, authenticated handshake — C03), or that the dial fails. Peer 0 = "any peer".
-/
namespace Bifrost
namespace Dial

inductive Attempt where
  | answered (by_ : Nat)      -- handshake completed with this authenticated peer
  | failed                    -- transient dial error
  | fatal                     -- fatal dial error
deriving Repr, DecidableEq

inductive Res where
  | link (remote : Nat)
  | err (fatal : Bool)
deriving Repr, DecidableEq

/-- `Transport.DialPeer(ctx, peerID, addr)` for one attempt (code as fixed: the peer that
answered is compared with the requested peer). -/
def dialPeer (requested : Nat) : Attempt → Res
  | .answered p => if requested ≠ 0 ∧ p ≠ requested then .err false else .link p
  | .failed => .err false
  | .fatal => .err true

/-- `Dialer.Execute`: retry with backoff until success or a fatal error (`attempts` = what the
environment does at each successive attempt; running out of attempts = still retrying). -/
def execute (requested : Nat) : List Attempt → Option Res
  | [] => none                         -- still retrying (no result yet)
  | a :: rest =>
    match dialPeer requested a with
    | .link p => some (.link p)
    | .err true => some (.err true)
    | .err false => execute requested rest

/-- number of attempts consumed before `execute` returned (or all of them). -/
def consumed (requested : Nat) : List Attempt → Nat
  | [] => 0
  | a :: rest =>
    match dialPeer requested a with
    | .err false => consumed requested rest + 1
    | _ => 1

end Dial
end Bifrost
