import Bifrost.Model.Links
/-!
Concurrent delivery of link events to the transport controller, and several controllers on
one bus.

`HandleLinkEstablished` / `HandleLinkLost` run their bodies under `bcast` through
`HoldLockMaybeAsync`: every call is ONE critical section, and calls made from different
goroutines are ordered only by the lock. A *batch* is a list of per-goroutine op sequences
(a goroutine issues its next op after the critical section of its previous one has completed);
the behaviours of the code on a batch are the folds of `step` over the *merges* of the batch:
the interleavings that keep the order inside each goroutine.

Core Lean only (linked into the driver).
-/
namespace Bifrost
namespace Links

/-- All ways to take the head of one of the sequences: the op taken and what is left. -/
def picks : List (List Op) → List (Op × List (List Op))
  | [] => []
  | [] :: gs => (picks gs).map fun p => (p.1, [] :: p.2)
  | (x :: g) :: gs => (x, g :: gs) :: (picks gs).map fun p => (p.1, (x :: g) :: p.2)

/-- Total number of ops of a batch. -/
def batchSize (gs : List (List Op)) : Nat := (gs.map List.length).sum

/-- All interleavings of `gs` that keep the order inside each sequence (`fuel` ≥ `batchSize gs`). -/
def mergesAux : Nat → List (List Op) → List (List Op)
  | 0, _ => [[]]
  | fuel + 1, gs =>
    if (picks gs).isEmpty then [[]]
    else (picks gs).flatMap fun q => (mergesAux fuel q.2).map (q.1 :: ·)

def merges (gs : List (List Op)) : List (List Op) := mergesAux (batchSize gs) gs

/-- `Merge gs σ`: `σ` is an interleaving of the sequences `gs` keeping the order inside each. -/
inductive Merge : List (List Op) → List Op → Prop
  | done {gs : List (List Op)} : picks gs = [] → Merge gs []
  | pick {gs r : List (List Op)} {x : Op} {σ : List Op} :
      (x, r) ∈ picks gs → Merge r σ → Merge gs (x :: σ)

/-- The states the controller can be in after the batch `gs` was delivered in state `s`. -/
def finals (s : State) (gs : List (List Op)) : List State :=
  (merges gs).map fun σ => σ.foldl step s

/-! ### Several controllers (transports) on one bus

Each controller has its own tables and its own lock; an `EstablishLinkWithPeer` directive on
the shared bus is resolved by every controller, and the values the requester sees are the
union of what each controller yields. -/

/-- What a request for a link from `src` (0 = unspecified) to `dst` yields on a bus with the
controllers `cs`: each link tagged with the local peer of the transport that yielded it. -/
def resolveBus (cs : List State) (src dst : Nat) : List (Nat × Link) :=
  cs.flatMap fun s => (resolveEstablishLink s src dst).map fun x => (s.localPeer, x)

end Links
end Bifrost
