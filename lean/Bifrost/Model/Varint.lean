import Bifrost.Model.Bytes
/-!
Varints, exactly as the two Go decoders used by bifrost behave.

* `Pb.consume`   = protobuf-go-lite `ConsumeVarint` (≤ 10 bytes, 10th byte < 2,
                   value reduced mod 2^64; result `eof` = n -1, `overflow` = n -2).
* `Pb.append`    = protobuf-go-lite `AppendVarint` (minimal LEB128 of a uint64).
* `Uv.decode`    = Go `encoding/binary.Uvarint` (n = 0 buffer too small,
                   n < 0 overflow).
* `Uv.put`       = Go `binary.PutUvarint`.
Core Lean only.
-/
namespace Bifrost

inductive VarintRes where
  | ok (v : Nat) (n : Nat)
  | eof
  | overflow
deriving Repr, DecidableEq

namespace Pb

/-- `consumeFrom i b`: parse continuing at byte index `i` (0-based) of the varint. -/
def consumeFrom : Nat → Bytes → VarintRes
  | _, [] => .eof
  | i, x :: rest =>
    if i ≥ 9 then
      (if x < 2 then .ok (x.toNat <<< 63) 1 else .overflow)
    else if x < 0x80 then .ok (x.toNat <<< (7 * i)) 1
    else match consumeFrom (i + 1) rest with
      | .ok v n => .ok (((x.toNat - 0x80) <<< (7 * i)) + v) (n + 1)
      | e => e

def consume (b : Bytes) : VarintRes := consumeFrom 0 b

/-- Minimal LEB128 with at most `fuel + 1` bytes (structural, so it reduces in the kernel). -/
def appendAux : Nat → Nat → Bytes
  | 0, v => [UInt8.ofNat v]
  | fuel + 1, v =>
    if v < 128 then [UInt8.ofNat v]
    else UInt8.ofNat (v % 128 + 128) :: appendAux fuel (v / 128)

/-- `AppendVarint` of a uint64 (at most 10 bytes). -/
def append (v : Nat) : Bytes := appendAux 9 v

def sizeOf (v : Nat) : Nat := (append v).length

end Pb

namespace Uv

/-- Go `binary.Uvarint`: returns (value, n); n = 0: buffer too small; n < 0: overflow.
We model the three outcomes. Go loop: for i, b := range buf { if i == 10 → overflow;
if b < 0x80 { if i == 9 && b > 1 → overflow; return x | b<<s, i+1 }; x |= (b&0x7f) << s; s += 7 } return 0,0 -/
def decodeFrom : Nat → Bytes → VarintRes
  | _, [] => .eof
  | i, x :: rest =>
    if i ≥ 10 then .overflow
    else if x < 0x80 then
      (if i = 9 ∧ x > 1 then .overflow else .ok (x.toNat <<< (7 * i)) 1)
    else match decodeFrom (i + 1) rest with
      | .ok v n => .ok (((x.toNat - 0x80) <<< (7 * i)) + v) (n + 1)
      | e => e

def decode (b : Bytes) : VarintRes := decodeFrom 0 b

def put (v : Nat) : Bytes := Pb.append v

end Uv

end Bifrost
