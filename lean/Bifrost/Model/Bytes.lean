/-! Byte strings and hex. Core Lean only. -/
namespace Bifrost

abbrev Bytes := List UInt8

def hexDigit (n : Nat) : Char :=
  if n < 10 then Char.ofNat (48 + n) else Char.ofNat (87 + n)

def hexOf (b : Bytes) : String :=
  String.mk (b.flatMap fun x => [hexDigit (x.toNat / 16), hexDigit (x.toNat % 16)])

def hexVal (c : Char) : Option Nat :=
  if '0' ≤ c ∧ c ≤ '9' then some (c.toNat - 48)
  else if 'a' ≤ c ∧ c ≤ 'f' then some (c.toNat - 87)
  else if 'A' ≤ c ∧ c ≤ 'F' then some (c.toNat - 55)
  else none

def unhexAux : List Char → Option Bytes
  | [] => some []
  | [_] => none
  | a :: b :: rest => do
    let x ← hexVal a
    let y ← hexVal b
    let r ← unhexAux rest
    pure (UInt8.ofNat (x * 16 + y) :: r)

/-- "-" denotes the empty byte string on the wire protocol. -/
def unhex (s : String) : Option Bytes :=
  if s = "-" then some [] else unhexAux s.toList

def hexOrDash (b : Bytes) : String := if b.isEmpty then "-" else hexOf b

end Bifrost
