import Bifrost.Model.Bytes
/-! UTF-8 validity exactly as Go's `unicode/utf8.Valid` (RFC 3629 table). -/
namespace Bifrost
namespace Utf8

def cont (x : UInt8) : Bool := 0x80 ≤ x && x ≤ 0xBF

def valid : Bytes → Bool
  | [] => true
  | a :: rest =>
    if a < 0x80 then valid rest
    else if 0xC2 ≤ a && a ≤ 0xDF then
      match rest with
      | b :: r => cont b && valid r
      | _ => false
    else if a = 0xE0 then
      match rest with
      | b :: c :: r => (0xA0 ≤ b && b ≤ 0xBF) && cont c && valid r
      | _ => false
    else if (0xE1 ≤ a && a ≤ 0xEC) || a = 0xEE || a = 0xEF then
      match rest with
      | b :: c :: r => cont b && cont c && valid r
      | _ => false
    else if a = 0xED then
      match rest with
      | b :: c :: r => (0x80 ≤ b && b ≤ 0x9F) && cont c && valid r
      | _ => false
    else if a = 0xF0 then
      match rest with
      | b :: c :: d :: r => (0x90 ≤ b && b ≤ 0xBF) && cont c && cont d && valid r
      | _ => false
    else if 0xF1 ≤ a && a ≤ 0xF3 then
      match rest with
      | b :: c :: d :: r => cont b && cont c && cont d && valid r
      | _ => false
    else if a = 0xF4 then
      match rest with
      | b :: c :: d :: r => (0x80 ≤ b && b ≤ 0x8F) && cont c && cont d && valid r
      | _ => false
    else false

end Utf8
end Bifrost
