/-!
Transport controller link tables: `transport/controller/transport-handler.go`
(`HandleLinkEstablished`, `HandleLinkLost`), `controller.go` (`flushEstablishedLink`,
`GetPeerLinks`, shutdown), `establish-link.go` (which links a request for S→D yields).

Every op is one critical section under `bcast`; all interleavings of the code are all
op sequences of this model. A link object is identified by `id` (pointer identity in Go);
`uuid` and `remote` are constant per link object.
-/
namespace Bifrost
namespace Links

structure Link where
  id : Nat
  uuid : Nat
  remote : Nat
deriving Repr, DecidableEq

structure State where
  running : Bool := false          -- execCtx != nil
  localPeer : Nat := 0
  links : List Link := []          -- `c.links` as an association list keyed by uuid
  peerLinks : List Link := []      -- all entries of `c.linksByPeerID` (a link's bucket is its remote)
  closed : List Nat := []          -- ids of links for which Close() was requested
deriving Repr, DecidableEq

inductive Op where
  | start (localPeer : Nat)
  | shutdown
  | est (l : Link)
  | lost (l : Link)
deriving Repr, DecidableEq

/-- `flushEstablishedLink(el)`: delete(c.links, el.uuid); remove el from its peer bucket; close. -/
def flush (s : State) (el : Link) : State :=
  { s with
    links := s.links.filter (fun x => x.uuid ≠ el.uuid)
    peerLinks := s.peerLinks.filter (fun x => x.id ≠ el.id)
    closed := el.id :: s.closed }

def lookup (s : State) (uuid : Nat) : Option Link := s.links.find? (fun x => x.uuid = uuid)

def step (s : State) : Op → State
  | .start lp => if s.running then s else { s with running := true, localPeer := lp }
  | .shutdown =>
    let s' := s.links.foldl flush s
    { s' with running := false, localPeer := 0 }
  | .est l =>
    if !s.running then { s with closed := l.id :: s.closed }
    else if l.remote = s.localPeer then { s with closed := l.id :: s.closed }
    else
      match lookup s l.uuid with
      | some el =>
        if el.id = l.id then s   -- duplicate report
        else
          let s1 := flush s el
          { s1 with links := l :: s1.links, peerLinks := l :: s1.peerLinks }
      | none => { s with links := l :: s.links, peerLinks := l :: s.peerLinks }
  | .lost l =>
    match lookup s l.uuid with
    | some el =>
      if el.id = l.id then flush s el
      else
        -- slow path: search by identity
        match s.links.find? (fun x => x.id = l.id) with
        | some el' => flush s el'
        | none => s
    | none =>
      match s.links.find? (fun x => x.id = l.id) with
      | some el' => flush s el'
      | none => s

def run (ops : List Op) : State := ops.foldl step {}

/-- `GetPeerLinks(p)`. -/
def getPeerLinks (s : State) (p : Nat) : List Link := s.links.filter (fun x => x.remote = p)

/-- What a request for a link from `src` (0 = unspecified) to `dst` yields
(`establishLinkResolver`: `linksByPeerID[dst]`, unless the source does not match). -/
def resolveEstablishLink (s : State) (src dst : Nat) : List Link :=
  if src ≠ 0 ∧ src ≠ s.localPeer then [] else s.peerLinks.filter (fun x => x.remote = dst)

/-! ### The specification: the set of links established and not yet lost -/

structure Spec where
  running : Bool := false
  localPeer : Nat := 0
  live : List Link := []
  closed : List Nat := []
deriving Repr, DecidableEq

def specStep (s : Spec) : Op → Spec
  | .start lp => if s.running then s else { s with running := true, localPeer := lp }
  | .shutdown => { running := false, localPeer := 0, live := [], closed := s.live.map (·.id) ++ s.closed }
  | .est l =>
    if !s.running ∨ l.remote = s.localPeer then { s with closed := l.id :: s.closed }
    else if s.live.any (fun x => x.id = l.id) then s
    else
      -- a newer link with the same identifier replaces (and closes) the older one
      let old := s.live.filter (fun x => x.uuid = l.uuid)
      { s with live := l :: s.live.filter (fun x => x.uuid ≠ l.uuid), closed := old.map (·.id) ++ s.closed }
  | .lost l =>
    if s.live.any (fun x => x.id = l.id) then
      { s with live := s.live.filter (fun x => x.id ≠ l.id), closed := l.id :: s.closed }
    else s

def specRun (ops : List Op) : Spec := ops.foldl specStep {}

end Links
end Bifrost
