import Bifrost.Model.ProtoWire
import Bifrost.Model.Base58
/-!
Peer IDs, public-key wire form and content hashes:
`peer/id.go`, `crypto/crypto.go`, `crypto/ed25519.go`, `hash/hash.go`.
-/
namespace Bifrost
namespace Codec

/-! ### multihash -/

def encodeMultihash (code : Nat) (digest : Bytes) : Bytes :=
  Uv.put code ++ Uv.put digest.length ++ digest

/-- `decodeMultihash`: `(code, digest)` or `none` (error). -/
def decodeMultihash (b : Bytes) : Option (Nat × Bytes) :=
  if b.isEmpty then none else
  match Uv.decode b with
  | .ok code n =>
    let b1 := b.drop n
    match Uv.decode b1 with
    | .ok dlen m =>
      let b2 := b1.drop m
      if b2.length ≠ dlen % 2 ^ 64 then none else some (code % 2 ^ 64, b2)
    | _ => none
  | _ => none

/-! ### crypto.PublicKey -/

def keyTypeEd25519 : Int := 1

def pubKeySchema : PW.Schema := [⟨1, .varint⟩, ⟨2, .bytes⟩]

/-- `MarshalPublicKey` of an Ed25519 key with raw bytes `raw`. -/
def marshalPublicKey (raw : Bytes) : Bytes :=
  PW.encVarintOpt 1 1 ++ PW.encBytesOpt 2 raw

/-- `UnmarshalPublicKey`: raw 32-byte Ed25519 key or `none`. -/
def unmarshalPublicKey (b : Bytes) : Option Bytes :=
  match PW.decode pubKeySchema b with
  | .error _ => none
  | .ok r =>
    if PW.toInt32 (r.lastVarint 1) ≠ keyTypeEd25519 then none
    else
      let d := r.lastBytes 2
      if d.length ≠ 32 then none else some d

/-! ### peer.ID (raw bytes) -/

def mhIdentity : Nat := 0

def idFromPublicKey (raw : Bytes) : Bytes := encodeMultihash mhIdentity (marshalPublicKey raw)

/-- `IDFromBytes`. -/
def idFromBytes (b : Bytes) : Option Bytes :=
  match decodeMultihash b with
  | some _ => some b
  | none => none

/-- `ID.ExtractPublicKey`. -/
def extractPublicKey (id : Bytes) : Option Bytes :=
  match decodeMultihash id with
  | none => none
  | some (code, digest) => if code ≠ mhIdentity then none else unmarshalPublicKey digest

/-- `ID.MatchesPublicKey`. -/
def matchesPublicKey (id raw : Bytes) : Bool := idFromPublicKey raw = id

def idB58Encode (id : Bytes) : Bytes := B58.encode id

/-- `IDB58Decode`. -/
def idB58Decode (s : Bytes) : Option Bytes :=
  match B58.decode s with
  | none => none
  | some m => idFromBytes m

/-! ### hash.Hash -/

/-- `HashType.GetHashLen` (generated from the switch in hash.go: see Gen.Enums). -/
def hashLen (t : Int) : Nat :=
  if t = 1 then 32 else if t = 2 then 20 else if t = 3 then 32 else 0

/-- `HashType.Validate() == nil`. -/
def hashTypeValid (t : Int) : Bool := t = 0 ∨ t = 1 ∨ t = 2 ∨ t = 3

/-- supported by `Sum` / `BuildHasher`. -/
def hashTypeSupported (t : Int) : Bool := t = 1 ∨ t = 2 ∨ t = 3

structure Hash where
  type : Int       -- int32 enum value
  digest : Bytes
deriving Repr, DecidableEq

/-- `Hash.Validate() == nil`. -/
def Hash.valid (h : Hash) : Bool := hashTypeValid h.type && h.digest.length = hashLen h.type

def hashSchema : PW.Schema := [⟨1, .varint⟩, ⟨2, .bytes⟩]

/-- uint64 two's complement of an int32 (how a negative enum goes on the wire). -/
def int32ToU64 (t : Int) : Nat := if t < 0 then (2 ^ 64 - t.natAbs) else t.natAbs

def Hash.marshal (h : Hash) : Bytes :=
  PW.encVarintOpt 1 (int32ToU64 h.type) ++ PW.encBytesOpt 2 h.digest

def Hash.unmarshal (b : Bytes) : Option Hash :=
  match PW.decode hashSchema b with
  | .error _ => none
  | .ok r => some { type := PW.toInt32 (r.lastVarint 1), digest := r.lastBytes 2 }

def Hash.marshalString (h : Hash) : Bytes := B58.encode h.marshal

def Hash.parseFromB58 (s : Bytes) : Option Hash :=
  match B58.decode s with
  | none => none
  | some d => Hash.unmarshal d

/-- `(*Hash).UnmarshalVT(b)` on a receiver that already holds `recv`: the generated decoder MERGES —
a field that occurs in `b` replaces the receiver's value, a field that does not occur keeps it
(proto3 omits zero / empty fields, so a used receiver keeps its old type or digest). -/
def Hash.unmarshalInto (recv : Hash) (b : Bytes) : Option Hash :=
  match PW.decode hashSchema b with
  | .error _ => none
  | .ok r => some { type := if r.has 1 then PW.toInt32 (r.lastVarint 1) else recv.type,
                    digest := if r.has 2 then r.lastBytes 2 else recv.digest }

/-- `(*Hash).ParseFromB58(s)` on a receiver holding `recv`, BEFORE the fix: base58 decode, then the
merging `UnmarshalVT`. -/
def Hash.parseFromB58IntoPreFix (recv : Hash) (s : Bytes) : Option Hash :=
  match B58.decode s with
  | none => none
  | some d => Hash.unmarshalInto recv d

/-- `(*Hash).ParseFromB58(s)` on a receiver holding `recv` (fixed code: `h.Reset()` before
`UnmarshalVT`): the result does not depend on what the receiver held. -/
def Hash.parseFromB58Into (_recv : Hash) (s : Bytes) : Option Hash :=
  Hash.parseFromB58IntoPreFix ⟨0, []⟩ s

/-- `Hash.VerifyData` given the digest function `sum` (`none` = unknown type). -/
def Hash.verifyData (sum : Int → Bytes → Option Bytes) (h : Hash) (data : Bytes) : Bool :=
  match sum h.type data with
  | none => false
  | some d => d.length = h.digest.length && d = h.digest

def Hash.compare (a b : Hash) : Bool :=
  a.type = b.type && a.digest.length = b.digest.length && a.digest = b.digest

/-- `(*Hash).CompareHash(other)` with the nil receivers / arguments of the Go method
(`none` = nil pointer): both nil ⇒ true, exactly one nil ⇒ false, otherwise field by field. -/
def Hash.compareOpt (a b : Option Hash) : Bool :=
  match a, b with
  | none, none => true
  | none, some _ => false
  | some _, none => false
  | some x, some y => Hash.compare x y

end Codec
end Bifrost
