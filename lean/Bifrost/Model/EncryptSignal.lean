import Bifrost.Model.Encrypt
import Bifrost.Model.ProtoWire
import Bifrost.Model.Codec
import Bifrost.Gen.WebRtcSession
/-!
`transport/webrtc/signal.go` (`EncodeWebRtcSignal` / `DecodeWebRtcSignal`: protobuf + the C12
encryption with the WebRTC signaling context), the generated `WebRtcSignal` codec
(`webrtc.pb.go`: a oneof of `uint64 request_offer = 1`, `WebRtcSdp sdp = 2`, `WebRtcIce ice = 3`),
and `transport/webrtc/session.go`: `isOfferer` and what `newSessionTracker` / `executeLink`
derive from the peer ID string a session is keyed by. Core Lean only.
-/
namespace Bifrost
namespace Signal
open Lo25519 Encrypt

structure Sdp where
  txSeqno : Nat := 0
  sdpType : Bytes := []
  sdp : Bytes := []
  unknown : Bytes := []
deriving Repr, DecidableEq

structure Ice where
  candidate : Bytes := []
  unknown : Bytes := []
deriving Repr, DecidableEq

inductive Body where
  | none
  | requestOffer (v : Nat)
  | sdp (s : Sdp)
  | ice (i : Ice)
deriving Repr, DecidableEq

structure Signal where
  body : Body := .none
  unknown : Bytes := []
deriving Repr, DecidableEq

def sigSchema : PW.Schema := [⟨1, .varint⟩, ⟨2, .bytes⟩, ⟨3, .bytes⟩]
def sdpSchema : PW.Schema := [⟨1, .varint⟩, ⟨2, .bytes⟩, ⟨3, .bytes⟩]
def iceSchema : PW.Schema := [⟨1, .bytes⟩]

/-- `WebRtcSdp.UnmarshalVT` applied to an existing message (fields present overwrite). -/
def mergeSdp (base : Sdp) (r : PW.Raw) : Sdp :=
  { txSeqno := if r.has 1 then r.lastVarint 1 else base.txSeqno
    sdpType := if r.has 2 then r.lastBytes 2 else base.sdpType
    sdp := if r.has 3 then r.lastBytes 3 else base.sdp
    unknown := base.unknown ++ r.unknown }

def mergeIce (base : Ice) (r : PW.Raw) : Ice :=
  { candidate := if r.has 1 then r.lastBytes 1 else base.candidate
    unknown := base.unknown ++ r.unknown }

/-- One known field of `WebRtcSignal.UnmarshalVT`, in wire order: the oneof keeps the last
member; a repeated sub-message is merged into the current one only if the current body is of
the same kind. `none` = the sub-message does not decode. -/
def stepBody (cur : Body) (f : Nat × PW.Val) : Option Body :=
  match f with
  | (1, .varint v) => some (.requestOffer v)
  | (2, .bytes p) =>
    match PW.decode sdpSchema p with
    | .error _ => none
    | .ok r => some (.sdp (mergeSdp (match cur with | .sdp s => s | _ => {}) r))
  | (3, .bytes p) =>
    match PW.decode iceSchema p with
    | .error _ => none
    | .ok r => some (.ice (mergeIce (match cur with | .ice i => i | _ => {}) r))
  | _ => some cur

def foldBody : List (Nat × PW.Val) → Body → Option Body
  | [], cur => some cur
  | f :: fs, cur =>
    match stepBody cur f with
    | none => none
    | some b => foldBody fs b

/-- `WebRtcSignal.UnmarshalVT` -/
def unmarshal (b : Bytes) : Option Signal :=
  match PW.decode sigSchema b with
  | .error _ => none
  | .ok r =>
    match foldBody r.fields .none with
    | none => none
    | some body => some { body := body, unknown := r.unknown }

def marshalSdp (s : Sdp) : Bytes :=
  PW.encVarintOpt 1 s.txSeqno ++ PW.encBytesOpt 2 s.sdpType ++ PW.encBytesOpt 3 s.sdp ++ s.unknown

def marshalIce (i : Ice) : Bytes := PW.encBytesOpt 1 i.candidate ++ i.unknown

/-- `WebRtcSignal.MarshalVT`: a oneof member is written even when zero / empty. -/
def marshal (s : Signal) : Bytes :=
  (match s.body with
   | .none => []
   | .requestOffer v => PW.encVarint 1 v
   | .sdp x => PW.encBytes 2 (marshalSdp x)
   | .ice x => PW.encBytes 3 (marshalIce x)) ++ s.unknown

/-- `SignalingCryptContext` (regenerated from the source) -/
def context : Bytes := Gen.WebRtcSession.signalingCryptContext

/-- `EncodeWebRtcSignal(s, dstPeer)` -/
def encodeProg (s : Signal) (dstPub : Bytes) : Prog (Outcome Bytes) := encryptProg dstPub context (marshal s)

/-- the unmarshal step after decryption in `DecodeWebRtcSignal` -/
def decodePost (o : Outcome Bytes) : Outcome Signal :=
  match o with
  | .ok m => (match unmarshal m with | some s => .ok s | none => .err)
  | .err => .err
  | .panic => .panic

def encode (P : Prims) (s : Signal) (dstPub : Bytes) : Outcome Bytes := (encodeProg s dstPub).run P

/-- `DecodeWebRtcSignal(msg, privKey)` -/
def decode (P : Prims) (tPriv msg : Bytes) : Outcome Signal := decodePost (decrypt P tPriv context msg)

/-- `isOfferer(a, b) = strings.Compare(a, b) < 0` -/
def isOfferer (a b : Bytes) : Bool := lexLt a b

/-- What `newSessionTracker(peerIDStr)` computes on a transport whose local peer ID string is
`localStr`: the role, the peer ID the Quic link is constrained to (`s.peerID`, passed by
`executeLink` to `ListenSession` / `DialSession`) and the public key outgoing signals are
encrypted to (`s.peerPub`); parse errors are ignored by the code (zero values). -/
structure Tracker where
  key : Bytes
  offerer : Bool
  linkPeer : Option Bytes
  signalPub : Option Bytes
deriving Repr, DecidableEq

def newSessionTracker (localStr remoteStr : Bytes) : Tracker :=
  { key := remoteStr
    offerer := isOfferer localStr remoteStr
    linkPeer := Codec.idB58Decode remoteStr
    signalPub := (Codec.idB58Decode remoteStr).bind Codec.extractPublicKey }

/-- `(*WebRTC).addSessionTrackerRef(peerIDStr)` on the transport of peer `localID`
(webrtc.go): `none` = an error is returned and nothing is created (the string does not parse as
a peer ID with an embedded public key, or it names the transport itself); otherwise the tracker
`sessionTrackers.AddKeyRef(peerID.String())` yields, i.e. `newSessionTracker` applied to the
canonical text of the parsed ID. This is the only place trackers are created
(`Gen.WebRtcSession.trackerCreators`). -/
def addSessionTrackerRef (localID peerIDStr : Bytes) : Option Tracker :=
  match Codec.idB58Decode peerIDStr with
  | none => none
  | some id =>
    match Codec.extractPublicKey id with
    | none => none
    | some pub =>
      if Codec.matchesPublicKey localID pub then none
      else some (newSessionTracker (Codec.idB58Encode localID) (Codec.idB58Encode id))

/-- `handleSignalPeerResolver.Resolve` (handler.go): a signal received on the signaling session
whose remote peer is `sessRemote` (decoded with the transport's private key) is pushed to the
tracker `addSessionTrackerRef(sessRemote.String())` yields. -/
def incomingTracker (localID sessRemote : Bytes) : Option Tracker :=
  addSessionTrackerRef localID (Codec.idB58Encode sessRemote)

/-- `DialPeer(peerID, _)`: the tracker whose link is awaited. -/
def dialTracker (localID peerID : Bytes) : Option Tracker :=
  addSessionTrackerRef localID (Codec.idB58Encode peerID)

/-! ### who gets a session: the block list, the signaling ID and the `incomingSessions` table -/

/-- The configuration facts of a `WebRTC` transport that decide which peers get a session:
its own peer ID, `conf.SignalingId`, `conf.BlockPeers` (peer ID strings), `conf.AllPeers` and the
keys of `conf.Dialers`. -/
structure Transport where
  localID : Bytes
  signalingID : Bytes := []
  blockPeers : List Bytes := []
  allPeers : Bool := false
  dialers : List Bytes := []
deriving Repr, DecidableEq

/-- `slices.Contains(conf.GetBlockPeers(), peerID.String())` -/
def Transport.blocked (t : Transport) (peerID : Bytes) : Bool := t.blockPeers.contains (Codec.idB58Encode peerID)

/-- `resolveHandleSignalPeer` (handler.go): a resolver is returned iff none of the three guards
(`Gen.WebRtcSession.handleGuards`) fires: the directive's signaling ID is the transport's, the
session's local peer is the transport's peer (compared as ID strings), and the session's remote
peer is not on the block list. -/
def Transport.answers (t : Transport) (sigID sessLocal sessRemote : Bytes) : Bool :=
  sigID == t.signalingID && Codec.idB58Encode sessLocal == Codec.idB58Encode t.localID && !t.blocked sessRemote

/-- The tracker a signal arriving on the signaling session (`sigID`, `sessLocal`, `sessRemote`)
reaches: none when the handler does not answer the session, otherwise `incomingTracker`. -/
def Transport.incoming (t : Transport) (sigID sessLocal sessRemote : Bytes) : Option Tracker :=
  if t.answers sigID sessLocal sessRemote then incomingTracker t.localID sessRemote else none

/-- Outcome of `DialPeer(peerID, _)`: `(nil, false, nil)` at once for a blocked peer (no tracker is
touched), the error of `addSessionTrackerRef`, or the tracker whose link is awaited and returned. -/
inductive Dial where
  | refused
  | err
  | tracker (t : Tracker)
deriving Repr, DecidableEq

def Transport.dialPeer (t : Transport) (peerID : Bytes) : Dial :=
  if t.blocked peerID then .refused
  else match dialTracker t.localID peerID with
    | none => .err
    | some tk => .tracker tk

/-- `GetPeerDialer(peerID)`: does the transport offer itself for dialing `peerID`? (`nil, nil` for a
blocked peer; `Address: "webrtc"` when `AllPeers`; otherwise the entry of `conf.Dialers`, if any.) -/
def Transport.offersDialer (t : Transport) (peerID : Bytes) : Bool :=
  if t.blocked peerID then false
  else t.allPeers || t.dialers.contains (Codec.idB58Encode peerID)

/-- The keys of `incomingSessions` (the references held because of `HandleSignalPeer` directives).
`Resolve` enters its session's remote peer when the first signal is pushed to the tracker … -/
def incomingEnter (tab : List Bytes) (remoteStr : Bytes) : List Bytes :=
  if tab.contains remoteStr then tab else remoteStr :: tab

/-- … and its deferred function removes that entry (and releases the reference) when it returns. -/
def incomingExit (tab : List Bytes) (remoteStr : Bytes) : List Bytes := tab.filter (· != remoteStr)

/-- What `executeLink` hands to `transport_quic.NewLink` besides the Quic session: the transport's
own UUID and peer ID (`Gen.WebRtcSession.newLinkArgs`). The remote peer of the link is NOT an
argument: `NewLink` takes it from the verified session identity. -/
structure LinkArgs where
  transportUUIDOf : Bytes
  localPeer : Bytes
deriving Repr, DecidableEq

def Transport.linkArgs (t : Transport) : LinkArgs := ⟨t.localID, t.localID⟩

/-- What a running tracker hands to its sinks (`executeLink`, `executeXmitSignal`, `execute`;
the expressions are pinned by `Props.C26.session_code_shape` / `handler_code_shape`): the expected
remote peer of `ListenSession` / `DialSession` and the remote peer of the signaling session are
`s.peerID`; outgoing signals are encrypted to `s.peerPub`. -/
structure Sinks where
  quicExpectedPeer : Option Bytes
  signalingRemote : Option Bytes
  signalEncryptKey : Option Bytes
deriving Repr, DecidableEq

def Tracker.sinks (t : Tracker) : Sinks := ⟨t.linkPeer, t.linkPeer, t.signalPub⟩

/-- "offer" / "answer" as they appear in `sessionTracker.execute`
(pinned by `Gen.WebRtcSession.sdpRoleEnforcement`). -/
def offerStr : Bytes := [111, 102, 102, 101, 114]
def answerStr : Bytes := [97, 110, 115, 119, 101, 114]

/-- `sessionTracker.execute`: role enforcement on an incoming signal (`false` = the tracker fails
with an error): a `request_offer` is served only by the offerer; an SDP with a non-empty type must
be an answer for the offerer and an offer for the answerer; anything else passes this stage. -/
def roleAccepts (offerer : Bool) : Body → Bool
  | .requestOffer _ => offerer
  | .sdp s => s.sdpType.isEmpty || (if offerer then s.sdpType == answerStr else s.sdpType == offerStr)
  | _ => true

end Signal
end Bifrost
