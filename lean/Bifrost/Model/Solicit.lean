import Bifrost.Model.Codec
/-!
Link solicitation hashing and matching: `link/solicit/hash.go`,
`link/solicit/controller/controller.go` (entry filter and `resolveMatch` predicate).
The hash function (BLAKE3-256) is a parameter; theorems are about the hashed preimages.
-/
namespace Bifrost
namespace Solicit

/-- Preimage of `ComputeSessionID(peerA, peerB)`: lower ‖ higher (bytewise order). -/
def sessionPreimage (a b : Bytes) : Bytes :=
  if lexLt b a then b ++ a else a ++ b

/-- Preimage of `ComputeProtocolHash`: session_id ‖ uvarint(len pid) ‖ pid ‖ context. -/
def protocolPreimage (sid pid ctx : Bytes) : Bytes :=
  sid ++ Uv.put pid.length ++ pid ++ ctx

/-- The part of the `ComputeProtocolHash` preimage that precedes the protocol ID: it depends on the
protocol ID through its LENGTH only (`protocolPreimage_eq_prefix`). The driver answers with it for
protocol IDs of 64 KiB … 256 MiB, whose full preimage would not fit the line protocol. -/
def protocolPrefix (sid : Bytes) (pidLen : Nat) : Bytes :=
  sid ++ Uv.put pidLen

theorem protocolPreimage_eq_prefix (sid pid ctx : Bytes) :
    protocolPreimage sid pid ctx = protocolPrefix sid pid.length ++ pid ++ ctx := rfl

def sessionID (H : Bytes → Bytes) (a b : Bytes) : Bytes := H (sessionPreimage a b)
def protocolHash (H : Bytes → Bytes) (sid pid ctx : Bytes) : Bytes := H (protocolPreimage sid pid ctx)

/-- `FindMatchingHashes(local, remote)`: two-pointer intersection of sorted lists. -/
def findMatching : List Bytes → List Bytes → List Bytes
  | [], _ => []
  | _ :: _, [] => []
  | x :: xs, y :: ys =>
    if lexLt x y then findMatching xs (y :: ys)
    else if lexLt y x then findMatching (x :: xs) ys
    else x :: findMatching xs ys
termination_by l r => l.length + r.length

/-- A `SolicitProtocol` directive. `peer = []` / `transport = 0` mean "no constraint". -/
structure Dir where
  pid : Bytes
  ctx : Bytes
  peer : Bytes
  transport : Nat
deriving Repr, DecidableEq

/-- A link as seen from one side. -/
structure LinkView where
  remote : Bytes
  transport : Nat
deriving Repr, DecidableEq

/-- The filter of `getSolicitEntries` / `resolveMatch`: the directive's constraints admitOk the link. -/
def admits (d : Dir) (l : LinkView) : Bool :=
  (d.peer.isEmpty || d.peer = l.remote) && (d.transport = 0 || d.transport = l.transport)

/-- `getSolicitEntries` + `computeHashes` (before sorting/truncation): hashes offered on a link. -/
def offered (H : Bytes → Bytes) (sid : Bytes) (ds : List Dir) (l : LinkView) : List Bytes :=
  (ds.filter (admits · l)).map fun d => protocolHash H sid d.pid d.ctx

/-- `resolveMatch`: which local directives receive the stream opened for `hash`. -/
def resolve (H : Bytes → Bytes) (sid : Bytes) (ds : List Dir) (l : LinkView) (hash : Bytes) : List Dir :=
  ds.filter fun d => admits d l && protocolHash H sid d.pid d.ctx = hash

/-- insertion sort by bytewise order (what `SortHashes` computes). -/
def insertSorted (x : Bytes) : List Bytes → List Bytes
  | [] => [x]
  | y :: ys => if lexLt y x then y :: insertSorted x ys else x :: y :: ys

def sortHashes (l : List Bytes) : List Bytes := l.foldr insertSorted []

end Solicit
end Bifrost
