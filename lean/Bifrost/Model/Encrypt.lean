import Bifrost.Model.Lo25519
import Bifrost.Gen.EdBlacklist
/-!
`peer/encrypt-curve25519.go` (`EncryptToEd25519`, `DecryptWithEd25519`) and `peer/derive.go`
(`DeriveKey`), statement by statement, AFTER the fixes
  * `len(ciphertext) < 4+32` guard (was `< 34`: slice `[36:]` panicked for 34/35 bytes),
  * the ciphertext's 4-byte prefix is compared with the re-derived nonce,
  * the xor of the ECDH material with the context is skipped for an empty context (was `% 0`).

The model never re-implements a primitive. It is a *program* (`Prog`) that asks for primitive
evaluations (`Req`) and continues with the answer; `Prog.run` interprets it over any
assignment of answers (theorems: answers with laws), `Prog.feed` replays a list of answers
given by the harness, which computes each with the Go stdlib / x-crypto / blake3 / s2 /
filippo edwards25519 directly. Every Go slice expression, index and integer division that can
panic is an explicit `panic` outcome. Core Lean only.
-/
namespace Bifrost
namespace Encrypt
open Lo25519

/-- A primitive evaluation the code performs. `none` as an answer = the primitive returned an
error / refused. -/
inductive Req where
  /-- `blake3.NewDeriveKey(domain)`, `Write(input)`, then `n` output bytes (`Sum(nil)` = 32,
  `Digest().Read(out)` = len(out)). -/
  | kdf (domain input : Bytes) (n : Nat)
  /-- `blake3.Sum256(input)` -/
  | hash (input : Bytes)
  /-- `ed25519.NewKeyFromSeed(seed).Public()` -/
  | edPub (seed : Bytes)
  /-- `extra25519.PrivateKeyToCurve25519`: clamped `sha512(seed)`, 64 bytes -/
  | clamp (seed : Bytes)
  /-- `edwards25519.Point.SetBytes(pk)` then `BytesMontgomery()`; `none` = SetBytes error -/
  | edToMont (pk : Bytes)
  /-- `ecdh.X25519()` private key from `scalar`, `.ECDH` with public key `point` -/
  | x25519 (scalar point : Bytes)
  /-- `aes.NewCipher(key).Encrypt(dst, block)`: one 16-byte block -/
  | blkEnc (key block : Bytes)
  /-- `aes.NewCipher(key).Decrypt(dst, block)`: one 16-byte block -/
  | blkDec (key block : Bytes)
  /-- `chacha20poly1305.NewX(key)`, `Seal(nil, nonce, pt, aad)` -/
  | seal (key nonce pt aad : Bytes)
  /-- `chacha20poly1305.NewX(key)`, `Open(nil, nonce, ct, aad)` -/
  | open (key nonce ct aad : Bytes)
  /-- `s2.EncodeBetter(nil, m)` -/
  | s2enc (m : Bytes)
  /-- `s2.Decode(nil, c)` -/
  | s2dec (c : Bytes)
deriving Repr, DecidableEq

/-- A computation that may ask for primitive evaluations. -/
inductive Prog (α : Type) where
  | done (a : α)
  | ask (r : Req) (k : Option Bytes → Prog α)

/-- An assignment of answers to every primitive evaluation. -/
abbrev Prims := Req → Option Bytes

/-- Run to completion over `P`. -/
def Prog.run (P : Prims) : Prog α → α
  | .done a => a
  | .ask r k => (k (P r)).run P

/-- Replay the answers given so far; `inl r` = the next evaluation needed. -/
def Prog.feed : Prog α → List (Option Bytes) → Sum Req α
  | .done a, _ => .inr a
  | .ask r _, [] => .inl r
  | .ask _ k, a :: as => (k a).feed as

/-! ### Go slice expressions (bounds against the length; every slice below has cap = len or is
only ever re-sliced within its length) -/

/-- `b[:hi]` -/
def sliceTo (b : Bytes) (hi : Nat) : Option Bytes := if hi ≤ b.length then some (b.take hi) else none
/-- `b[lo:]` -/
def sliceFrom (b : Bytes) (lo : Nat) : Option Bytes := if lo ≤ b.length then some (b.drop lo) else none

/-- continue with a slice, or panic (slice bounds out of range). -/
def need (o : Option Bytes) (k : Bytes → Prog (Outcome α)) : Prog (Outcome α) :=
  match o with
  | some b => k b
  | none => .done .panic

/-- continue with a value, or return an error (`if !valid { return nil, err }`). -/
def orErr (o : Option Bytes) (k : Bytes → Prog (Outcome α)) : Prog (Outcome α) :=
  match o with
  | some b => k b
  | none => .done .err

/-- ask; an error from the primitive is returned as the function's error. -/
def askE (r : Req) (k : Bytes → Prog (Outcome α)) : Prog (Outcome α) :=
  .ask r fun a => orErr a k

/-- continue with the value of a pure sub-computation, propagating its error / panic. -/
def bindO (o : Outcome Bytes) (k : Bytes → Prog (Outcome α)) : Prog (Outcome α) :=
  match o with
  | .ok b => k b
  | .err => .done .err
  | .panic => .done .panic

/-- `if c { return nil, err }` -/
def failIf (c : Prop) [Decidable c] (k : Prog (Outcome α)) : Prog (Outcome α) :=
  if c then .done .err else k

/-- a library call that panics when `c` holds (e.g. `ed25519.NewKeyFromSeed` on a bad length) -/
def panicIf (c : Prop) [Decidable c] (k : Prog (Outcome α)) : Prog (Outcome α) :=
  if c then .done .panic else k

/-- `var a [32]byte; copy(a[:], src)`: the first 32 bytes of `src`, zero padded. -/
def copy32 (src : Bytes) : Bytes := src.take 32 ++ List.replicate (32 - src.length) 0

/-- `extra25519.PublicKeyToCurve25519(ed)` with the table regenerated from the source;
`none` = `(nil, false)`. -/
def pubToX (ed : Bytes) (k : Option Bytes → Prog (Outcome α)) : Prog (Outcome α) :=
  match isEdLowOrder Gen.EdBlacklist.rows ed with
  | .panic => .done .panic
  | .err => .done .err
  | .ok true => k none
  | .ok false => .ask (.edToMont ed) k

/-- `msgNonce := h[:24]; xorHash := h[24:]; for i := range msgNonce { msgNonce[i] ^= xorHash[(i+2)%len(xorHash)] }` -/
def xorNonce (h : Bytes) : Outcome Bytes :=
  match sliceTo h 24, sliceFrom h 24 with
  | some n, some x =>
    if h0 : x.length = 0 then (if n.isEmpty then .ok n else .panic)   -- `% 0` on the first iteration
    else .ok (n.mapIdx fun i b => b ^^^ x[(i + 2) % x.length]'(Nat.mod_lt _ (Nat.pos_of_ne_zero h0)))
  | _, _ => .panic

/-- `"bifrost/peer encrypt curve25519 "` -/
def domSeed : Bytes := [98, 105, 102, 114, 111, 115, 116, 47, 112, 101, 101, 114, 32, 101, 110, 99, 114, 121, 112, 116, 32, 99, 117, 114, 118, 101, 50, 53, 53, 49, 57, 32]
/-- `"bifrost/peer encrypt curve25519 nonce "` -/
def domNonce : Bytes := domSeed ++ [110, 111, 110, 99, 101, 32]
/-- `"bifrost/peer encrypt curve25519 prefix "` -/
def domPrefix : Bytes := domSeed ++ [112, 114, 101, 102, 105, 120, 32]

/-- `EncryptToEd25519(tPubKey, context, msgSrc)`. -/
def encryptProg (tPub ctx msg : Bytes) : Prog (Outcome Bytes) :=
  failIf (tPub.length ≠ 32) <|
  askE (.kdf (domSeed ++ ctx) (msg ++ tPub) 32) fun msgSeed =>
  panicIf (msgSeed.length ≠ 32) <|                         -- ed25519.NewKeyFromSeed: bad seed length
  askE (.edPub msgSeed) fun msgPub =>
  askE (.clamp msgSeed) fun msgX64 =>                      -- PrivateKeyToCurve25519(msgPrivKey)
  need (sliceTo msgX64 32) fun msgX =>
  askE (.kdf (domNonce ++ ctx) msgPub 32) fun h =>
  bindO (xorNonce h) fun nonce =>
  pubToX tPub fun t => orErr t fun tX =>
  failIf (tX.length ≠ 32) <|                               -- ecdh NewPublicKey
  askE (.s2enc msg) fun cmsg =>
  need (sliceTo nonce 4) fun n4 =>
  askE (.kdf (domPrefix ++ ctx) (tPub ++ n4) 32) fun aesSeed =>
  need (sliceTo aesSeed 32) fun aesKey =>
  -- prefix := make([]byte, 4+32); copy(prefix[4:], msgPubKey[:]); Encrypt processes ONE 16-byte block
  askE (.blkEnc aesKey ((copy32 msgPub).take 16)) fun e16 =>
  askE (.x25519 msgX tX) fun ss =>
  failIf (ss.length ≠ 32) <|                               -- chacha20poly1305.NewX: bad key length
  askE (.seal ss nonce cmsg msgPub) fun body =>
  .done (.ok (n4 ++ e16 ++ (copy32 msgPub).drop 16 ++ body))

/-- `DecryptWithEd25519(tPrivKey, context, ciphertext)`; `tPrivKey` = seed ‖ public key. -/
def decryptProg (tPriv ctx ct : Bytes) : Prog (Outcome Bytes) :=
  failIf (tPriv.length ≠ 64) <|
  failIf (ct.length < 4 + 32) <|
  need (sliceTo ct 4) fun n4 =>
  -- tPrivKey.Public() = tPrivKey[32:]
  askE (.kdf (domPrefix ++ ctx) (tPriv.drop 32 ++ n4) 32) fun aesSeed =>
  need (sliceFrom ct 4) fun ct4 =>
  need (sliceTo aesSeed 32) fun aesKey =>
  -- copy(msgPubKey[:], ciphertext[4:]); Decrypt processes ONE 16-byte block in place
  askE (.blkDec aesKey ((copy32 ct4).take 16)) fun d16 =>
  pubToX (d16 ++ (copy32 ct4).drop 16) fun m => orErr m fun mX =>
  failIf (mX.length ≠ 32) <|                               -- ecdh NewPublicKey
  askE (.clamp (tPriv.take 32)) fun tX64 =>
  need (sliceTo tX64 32) fun tX =>
  askE (.x25519 tX mX) fun ss =>
  askE (.kdf (domNonce ++ ctx) (d16 ++ (copy32 ct4).drop 16) 32) fun h =>
  bindO (xorNonce h) fun nonce =>
  need (sliceTo nonce 4) fun n4' =>
  failIf (n4' ≠ n4) <|                                     -- nonce prefix check (fix)
  failIf (ss.length ≠ 32) <|                               -- chacha20poly1305.NewX
  need (sliceFrom ct (32 + 4)) fun body =>
  askE (.open ss nonce body (d16 ++ (copy32 ct4).drop 16)) fun msgDec =>
  askE (.s2dec msgDec) fun msgSrc =>
  askE (.kdf (domSeed ++ ctx) (msgSrc ++ tPriv.drop 32) 32) fun msgSeed =>
  panicIf (msgSeed.length ≠ 32) <|                         -- ed25519.NewKeyFromSeed
  askE (.edPub msgSeed) fun mEd =>
  pubToX mEd fun e => orErr e fun exp =>
  failIf (exp ≠ mX) <|                                     -- subtle.ConstantTimeCompare
  .done (.ok msgSrc)

/-- `"bifrost/peer/derive-key"` -/
def dkConst : Bytes := [98, 105, 102, 114, 111, 115, 116, 47, 112, 101, 101, 114, 47, 100, 101, 114, 105, 118, 101, 45, 107, 101, 121]

/-- `for i := range material { material[i] ^= contextb[i%len(contextb)] }`, guarded by
`len(contextb) != 0` (fix; the unguarded loop panics with a division by zero). -/
def xorContext (material ctx : Bytes) : Bytes :=
  if h0 : ctx.length = 0 then material
  else material.mapIdx fun i b => b ^^^ ctx[i % ctx.length]'(Nat.mod_lt _ (Nat.pos_of_ne_zero h0))

/-- the bytes written into the BLAKE3 derive-key hasher -/
def kdfInput (salt material : Bytes) : Bytes := dkConst ++ salt ++ material

/-- The first half of `DeriveKey`: the X25519 shared secret between the key's own converted
private key and an ephemeral key pair seeded by BLAKE3(converted private key ‖ context). -/
def materialProg (ctx tPriv : Bytes) (k : Bytes → Prog (Outcome α)) : Prog (Outcome α) :=
  askE (.clamp (tPriv.take 32)) fun tX64 =>
  need (sliceTo tX64 32) fun tX =>
  askE (.hash (tX64 ++ ctx)) fun seed =>
  panicIf (seed.length ≠ 32) <|                            -- ed25519.NewKeyFromSeed
  askE (.edPub seed) fun ephPub =>
  pubToX ephPub fun e => orErr e fun eX =>
  failIf (eX.length ≠ 32) <|
  askE (.x25519 tX eX) k

/-- `DeriveKey(context, salt, privKey, out)` for an Ed25519 key (seed ‖ public key), `n = len(out)`. -/
def deriveProg (ctx salt tPriv : Bytes) (n : Nat) : Prog (Outcome Bytes) :=
  materialProg ctx tPriv fun material =>
  askE (.kdf ctx (kdfInput salt (xorContext material ctx)) n) fun out =>
  .done (.ok out)

/-- Sequential composition: run `p`; on `ok b` continue with `k b`, an error / panic of `p` is the
result (`if err := f(…); err != nil { return nil, nil, err }`). -/
def Prog.andThen : Prog (Outcome Bytes) → (Bytes → Prog (Outcome β)) → Prog (Outcome β)
  | .done o, k => bindO o k
  | .ask r c, k => .ask r fun a => (c a).andThen k

/-- The `crypto.PrivKey` interface value the caller passes to `DeriveKey` / `DeriveEd25519Key`,
as `crypto.PrivKeyToStdKey` classifies it. -/
inductive KeyArg where
  /-- the nil interface, or a nil `*Ed25519PrivateKey` inside the interface: `ErrNilPrivateKey` -/
  | nil
  /-- any other implementation of `crypto.PrivKey`: `ErrBadKeyType` -/
  | foreign
  /-- an `*Ed25519PrivateKey` with these raw bytes (seed ‖ public key) -/
  | ed (raw : Bytes)
deriving Repr, DecidableEq

/-- `DeriveKey(context, salt, privKey, out)` for ANY `crypto.PrivKey` value: the first statement
`spKey, err := crypto.PrivKeyToStdKey(privKey)` turns a nil or foreign key into an error. -/
def deriveArgProg (ctx salt : Bytes) (k : KeyArg) (n : Nat) : Prog (Outcome Bytes) :=
  match k with
  | .nil => .done .err
  | .foreign => .done .err
  | .ed raw => deriveProg ctx salt raw n

/-- `DeriveEd25519Key(context, salt, privKey)`:
`seed := make([]byte, ed25519.SeedSize); if err := DeriveKey(context, salt, privKey, seed); err != nil { return nil, nil, err };
key := ed25519.NewKeyFromSeed(seed); return crypto.KeyPairFromStdKey(&key)`.
The result is the raw private key `seed ‖ public key` (its last 32 bytes are the returned public key). -/
def deriveEdProg (ctx salt : Bytes) (k : KeyArg) : Prog (Outcome Bytes) :=
  (deriveArgProg ctx salt k 32).andThen fun seed =>
  panicIf (seed.length ≠ 32) <|                            -- ed25519.NewKeyFromSeed: bad seed length
  askE (.edPub seed) fun pub =>
  .done (.ok (seed ++ pub))

/-- The same loop WITHOUT the guard (the code before the fix): `none` = divide by zero. -/
def xorContextUnguarded (material ctx : Bytes) : Option Bytes :=
  if h0 : ctx.length = 0 then (if material.isEmpty then some material else none)
  else some (material.mapIdx fun i b => b ^^^ ctx[i % ctx.length]'(Nat.mod_lt _ (Nat.pos_of_ne_zero h0)))

def encrypt (P : Prims) (tPub ctx msg : Bytes) : Outcome Bytes := (encryptProg tPub ctx msg).run P
def decrypt (P : Prims) (tPriv ctx ct : Bytes) : Outcome Bytes := (decryptProg tPriv ctx ct).run P
def deriveKey (P : Prims) (ctx salt tPriv : Bytes) (n : Nat) : Outcome Bytes := (deriveProg ctx salt tPriv n).run P
def deriveKeyArg (P : Prims) (ctx salt : Bytes) (k : KeyArg) (n : Nat) : Outcome Bytes := (deriveArgProg ctx salt k n).run P
def deriveEd25519 (P : Prims) (ctx salt : Bytes) (k : KeyArg) : Outcome Bytes := (deriveEdProg ctx salt k).run P
/-! ### the size bound of a sealed message (`MaxEncryptedMessageSize`, 16 MiB)

The code checks it at two places: `EncryptToEd25519` refuses `len(msgSrc) > MaxEncryptedMessageSize`
as its second statement (before any primitive is evaluated), and `DecryptWithEd25519` refuses when
the length the opened payload DECLARES (`s2.DecodedLen`) exceeds the bound, before `s2.Decode`
allocates. `s2.Decode` only succeeds when the decoded length equals the declared one, so on the
results the second check is "a decrypted message longer than the bound is an error" — which is how
it is written here (that the check happens BEFORE the allocation is property C40, measured by engine
`decoders`; the shape and the constant are regenerated, `Ties.Encrypt.size_guards`). -/

/-- `MaxEncryptedMessageSize` -/
def maxMessage : Nat := 16777216

/-- `EncryptToEd25519` with its size guard. -/
def encryptL (P : Prims) (tPub ctx msg : Bytes) : Outcome Bytes :=
  if tPub.length ≠ 32 then .err
  else if msg.length > maxMessage then .err
  else encrypt P tPub ctx msg

/-- `DecryptWithEd25519` with its size guard (on the result, see above). -/
def decryptL (P : Prims) (tPriv ctx ct : Bytes) : Outcome Bytes :=
  match decrypt P tPriv ctx ct with
  | .ok m => if m.length > maxMessage then .err else .ok m
  | o => o

/-- the ECDH material `DeriveKey` feeds (after the xor) into the KDF -/
def deriveMaterial (P : Prims) (ctx tPriv : Bytes) : Outcome Bytes := (materialProg ctx tPriv fun m => .done (.ok m)).run P

end Encrypt
end Bifrost
