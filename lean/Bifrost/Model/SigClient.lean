/-!
The signaling client's per-remote-peer tracker as a labelled transition system:
`signaling/rpc/client/client.go` (`clientPeerTracker.execute`, `ClientPeerRef.Send`,
`ClientPeerRef.Recv`; code as fixed by "fix: signaling client Send hung forever …").

One step = one critical section under `clientPeerTracker.bcast`. The relay (honest or
malicious) is the environment: it decides which responses arrive.
Core Lean only.
-/
namespace Bifrost
namespace SigC

structure Msg where
  seqno : Nat
  mid : Nat
deriving Repr, DecidableEq

/-- A `Send` call in progress (its local variables). -/
structure SendCall where
  id : Nat                      -- = the message sequence number it was assigned (`txNonce.Add(1)`)
  msg : Msg
  txed : Bool := false
  sessEpoch : Option Nat := none
  result : Option Bool := none  -- some true = returned success; some false = returned error (cancelled)
deriving Repr, DecidableEq

/-- What the main loop decided to transmit in one iteration. -/
inductive Req where
  | ack (epoch k : Nat)
  | clear (epoch k : Nat)
  | send (epoch : Nat) (m : Msg)
deriving Repr, DecidableEq

structure State where
  open_ : Option Nat := none
  out : Option Msg := none
  outSent : Bool := false
  outAcked : Bool := false
  outCancel : Bool := false
  recv : Option Msg := none
  recvProcessed : Bool := false
  sends : List SendCall := []
  /-- ghost: messages handed to the application by `Recv`, with the epoch they were handed over in -/
  delivered : List (Msg × Option Nat) := []
  /-- ghost: every request the main loop emitted, newest first -/
  emitted : List Req := []
  /-- ghost: every RecvMsg accepted from the relay `(msg, verifyOk, signerIsRemote, epoch)` -/
  accepted : List (Msg × Bool × Bool × Option Nat) := []
  /-- ghost: acks processed while they matched the pending outgoing message `(seqno, epoch)` -/
  ackedLog : List (Nat × Option Nat) := []
  failed : Bool := false        -- the session routine returned with an error (it will be restarted)
deriving Repr

def getSend (s : State) (id : Nat) : Option SendCall := s.sends.find? (·.id = id)
def setSend (s : State) (c : SendCall) : State := { s with sends := s.sends.map fun x => if x.id = c.id then c else x }

/-- `handleClose` -/
def close (s : State) : State :=
  { s with open_ := none, out := none, outSent := false, outAcked := false, outCancel := false,
           recv := none, recvProcessed := false }

/-- `handleOpen(seqno)` -/
def opened (s : State) (e : Nat) : State :=
  if s.open_ = some e then s
  else { s with open_ := some e, outAcked := false, outSent := false, recv := none, recvProcessed := false }

/-- `handleRecv(msg)`: signature check and sender check happen before the critical section. -/
def recvMsg (s : State) (m : Msg) (verifyOk signerIsRemote : Bool) : State :=
  if !(verifyOk && signerIsRemote) then { s with failed := true }
  else { s with recv := some m, recvProcessed := false, accepted := (m, verifyOk, signerIsRemote, s.open_) :: s.accepted }

/-- `handleClearMsg(k)` -/
def clearMsg (s : State) (k : Nat) : State :=
  if (s.recv.map (·.seqno)) = some k then { s with recv := none, recvProcessed := false } else s

/-- `handleAckMsg(k)` -/
def ackMsg (s : State) (k : Nat) : State :=
  if (s.out.map (·.seqno)) = some k then
    if s.outCancel then { s with out := none, outAcked := false, outCancel := false, outSent := false }
    else { s with outAcked := true, ackedLog := (k, s.open_) :: s.ackedLog }
  else s

/-- One iteration of the main loop's critical section: at most one request is emitted. -/
def txLoop (s : State) : State × Option Req :=
  match s.open_ with
  | none => (s, none)
  | some e =>
    match s.out with
    | some o =>
      if s.outCancel then
        ({ s with out := none, outAcked := false, outCancel := false, outSent := false, emitted := .clear e o.seqno :: s.emitted }, some (.clear e o.seqno))
      else if !s.outSent then
        ({ s with outSent := true, emitted := .send e o :: s.emitted }, some (.send e o))
      else
        match s.recv with
        | some r => if s.recvProcessed then ({ s with recv := none, recvProcessed := false, emitted := .ack e r.seqno :: s.emitted }, some (.ack e r.seqno)) else (s, none)
        | none => (s, none)
    | none =>
      match s.recv with
      | some r => if s.recvProcessed then ({ s with recv := none, recvProcessed := false, emitted := .ack e r.seqno :: s.emitted }, some (.ack e r.seqno)) else (s, none)
      | none => (s, none)

/-- A new `Send` call is made (message already signed, sequence number assigned). -/
def sendStart (s : State) (m : Msg) : State := { s with sends := s.sends ++ [{ id := m.seqno, msg := m }] }

/-- One iteration of `Send`'s critical section. -/
def sendStep (s : State) (id : Nat) : State :=
  match getSend s id with
  | none => s
  | some c =>
    if c.result.isSome then s else
    match s.open_ with
    | none => setSend s { c with txed := false }
    | some e =>
      -- re-opened?
      let c1 : SendCall :=
        if c.sessEpoch ≠ some e then
          { c with sessEpoch := some e, txed := if (s.out.map (·.seqno)) = some c.id then c.txed else false }
        else c
      -- transmitted already: still ours?
      let (c2, waitOther) : SendCall × Bool :=
        if c1.txed then
          match s.out with
          | none => ({ c1 with txed := false }, false)
          | some o => if o.seqno ≠ c.id then ({ c1 with txed := false }, true) else (c1, false)
        else (c1, false)
      if waitOther then setSend s c2
      else if !c2.txed then
        match s.out with
        | none => setSend { s with out := some c.msg } { c2 with txed := true }
        | some _ => setSend s c2
      else if s.outAcked then
        setSend { s with out := none, outSent := false, outAcked := false } { c2 with result := some true }
      else setSend s c2

/-- `Send` returns with an error (context cancelled): the deferred cleanup. -/
def sendCancel (s : State) (id : Nat) : State :=
  match getSend s id with
  | none => s
  | some c =>
    if c.result.isSome then s else
    let s1 := setSend s { c with result := some false }
    if !c.txed then s1
    else if (s.out.map (·.seqno)) = some c.id then
      if !s.outSent || s.outAcked then { s1 with out := none, outSent := false, outAcked := false, outCancel := false }
      else if !s.outCancel then { s1 with outCancel := true }
      else s1
    else s1

/-- One iteration of `Recv`'s critical section. -/
def recvStep (s : State) : State :=
  match s.recv with
  | some r => if s.recvProcessed then s else { s with recvProcessed := true, delivered := (r, s.open_) :: s.delivered }
  | none => s

inductive Ev where
  | close
  | opened (e : Nat)
  | recvMsg (m : Msg) (verifyOk signerIsRemote : Bool)
  | clearMsg (k : Nat)
  | ackMsg (k : Nat)
  | txLoop
  | sendStart (m : Msg)
  | sendStep (id : Nat)
  | sendCancel (id : Nat)
  | recvStep
deriving Repr, DecidableEq

def step (s : State) : Ev → State
  | .close => close s
  | .opened e => opened s e
  | .recvMsg m v g => recvMsg s m v g
  | .clearMsg k => clearMsg s k
  | .ackMsg k => ackMsg s k
  | .txLoop => (txLoop s).1
  | .sendStart m => sendStart s m
  | .sendStep id => sendStep s id
  | .sendCancel id => sendCancel s id
  | .recvStep => recvStep s

/-- Sequence numbers are handed out by an atomic counter: every `Send` gets a distinct one. -/
def enabled (s : State) : Ev → Bool
  | .sendStart m => s.sends.all (fun c => c.id ≠ m.seqno) && m.seqno ≠ 0
  | .sendStep id => match getSend s id with | some c => c.result.isNone | none => false
  | .sendCancel id => match getSend s id with | some c => c.result.isNone | none => false
  | _ => true

inductive Reachable : State → Prop
  | init : Reachable {}
  | step {s : State} (e : Ev) : Reachable s → enabled s e = true → Reachable (step s e)

def run (evs : List Ev) : State := evs.foldl step {}

/-! ### Observations (decidable) used by the property statements -/

/-- C19: everything handed to the application was accepted with a valid signature made by the
remote peer of this session. -/
def deliveredAuthentic (s : State) : Bool :=
  s.delivered.all fun (m, ep) => s.accepted.any fun (m', v, g, ep') => m' = m && v && g && ep' = ep

/-- C21 (client side): a `Send` reports success only after an ack naming exactly its message
was processed while that message was the pending outgoing one (acks for any other sequence
number never complete it). -/
def sendSuccessAcked (s : State) : Bool :=
  s.sends.all fun c => c.result ≠ some true || s.ackedLog.any fun (k, _) => k = c.id

/-- With a relay that acknowledges only what it was sent (an honest relay), the message had been
transmitted in the epoch of its ack. -/
def ackedWasSent (s : State) : Bool :=
  s.ackedLog.all fun (k, ep) => s.emitted.any fun r => match r, ep with
    | .send e m, some e' => e = e' && m.seqno = k
    | _, _ => false

/-- The pending outgoing message always belongs to a `Send` call that believes it transmitted it. -/
def outOwned (s : State) : Bool :=
  match s.out with
  | none => true
  | some o => s.sends.any fun c => c.id = o.seqno && c.msg = o && (c.txed || c.result = some false)

/-- An ack is only ever transmitted for a message the application has received. -/
def acksAreDelivered (s : State) : Bool :=
  s.emitted.all fun r => match r with
    | .ack e k => s.delivered.any fun (m, ep) => m.seqno = k && ep = some e
    | _ => true

/-- No `Send` is stuck behind a stale pending message: if a message is pending, some live or
cancelled `Send` owns it or a cancellation is in progress (F11 regression guard). -/
def noOrphanOut (s : State) : Bool :=
  match s.out with
  | none => true
  | some o => s.outCancel || s.sends.any fun c => c.id = o.seqno && (c.result.isNone && c.txed)

def checkAll (s : State) : String :=
  if !deliveredAuthentic s then "deliveredAuthentic"
  else if !sendSuccessAcked s then "sendSuccessAcked"
  else if !outOwned s then "outOwned"
  else if !acksAreDelivered s then "acksAreDelivered"
  else if !noOrphanOut s then "noOrphanOut"
  else ""

end SigC
end Bifrost
