import Bifrost.Model.Codec
/-!
Symbolic cryptography: the hypotheses under which the signature / hash theorems are
stated. These are *structures with laws* (hypotheses of theorems), never axioms; each has a
concrete instance (`Toy…`) so that no theorem quantifying over them is vacuous.

Note: no injectivity is assumed of the hash (a fixed-length hash cannot be injective);
theorems speak about digests, and "different data" clauses carry an explicit
no-collision hypothesis for the two inputs concerned.
-/
namespace Bifrost
namespace Crypto
open Codec

/-- Idealised signature scheme over byte strings (Ed25519 in the code). -/
structure SigScheme where
  pub : Bytes → Bytes                       -- private key ↦ raw public key
  sign : Bytes → Bytes → Bytes              -- private key, message ↦ signature
  verify : Bytes → Bytes → Bytes → Bool     -- public key, message, signature
  complete : ∀ sk m, verify (pub sk) m (sign sk m) = true
  /-- ideal unforgeability + non-malleability: whatever verifies was produced by `sign`
  with a private key of that public key, over exactly that message -/
  unforge : ∀ pk m s, verify pk m s = true → ∃ sk, pub sk = pk ∧ s = sign sk m
  /-- a signature value determines the public key and the message it was made for -/
  sign_inj : ∀ sk m sk' m', sign sk m = sign sk' m' → pub sk = pub sk' ∧ m = m'
  sig_nonempty : ∀ sk m, sign sk m ≠ []

/-- The digest family (`hash.HashType.Sum`). -/
structure HashFam where
  sum : Int → Bytes → Option Bytes
  supported : ∀ t d, (sum t d).isSome = hashTypeSupported t
  len_ok : ∀ t d h, sum t d = some h → h.length = hashLen t

/-! ### concrete instances (non-vacuity) -/

def toySign (sk m : Bytes) : Bytes := List.replicate sk.length 1 ++ [0] ++ sk ++ m

theorem toySign_inj (sk m sk' m' : Bytes) (h : toySign sk m = toySign sk' m') : sk = sk' ∧ m = m' := by
  unfold toySign at h
  have hl : sk.length = sk'.length := by
    rcases Nat.lt_trichotomy sk.length sk'.length with hlt | heq | hgt
    · have := congrArg (fun l => l[sk.length]?) h
      simp [List.getElem?_append, hlt] at this
    · exact heq
    · have := congrArg (fun l => l[sk'.length]?) h
      simp [List.getElem?_append, hgt] at this
  simp only [List.append_assoc] at h
  rw [hl] at h
  have h2 := List.append_cancel_left h
  simp only [List.cons_append, List.nil_append, List.cons.injEq, true_and] at h2
  have h3 := List.append_inj h2 hl
  exact h3

def ToySig : SigScheme where
  pub := id
  sign := toySign
  verify := fun pk m s => decide (s = toySign pk m)
  complete := by intro sk m; simp
  unforge := by intro pk m s h; exact ⟨pk, rfl, by simpa using h⟩
  sign_inj := by
    intro sk m sk' m' h
    have := toySign_inj sk m sk' m' h
    exact ⟨this.1, this.2⟩
  sig_nonempty := by intro sk m; simp [toySign]

def toySum (t : Int) (d : Bytes) : Option Bytes :=
  if hashTypeSupported t then some ((d ++ List.replicate (hashLen t) 0).take (hashLen t)) else none

def ToyHash : HashFam where
  sum := toySum
  supported := by intro t d; unfold toySum; split <;> simp_all
  len_ok := by
    intro t d h hs
    unfold toySum at hs
    split at hs
    · cases hs; simp
    · cases hs

end Crypto
end Bifrost
