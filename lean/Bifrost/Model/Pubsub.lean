import Bifrost.Model.Sign
import Bifrost.Gen.PubsubCtx
/-!
Floodsub: `pubsub/util/pubmessage/{pubmessage,inner}.go`, `pubsub/floodsub/{floodsub,stream,sub}.go`,
`pubsub/controller/tracked-link.go` — the code as fixed by
"fix: floodsub seen-message check was not atomic" and
"fix: floodsub did not announce the unsubscribe of a channel released before its first announcement".

Four parts:
* `Pubsub`      — one router handling one publish packet (C27): inner decode, `Validate`,
                  `ExtractAndVerify` with the context `prefix ++ channel`, subscription check,
                  seen-set test-and-set, delivery, forwarding targets.
* `Pubsub.Net`  — a network of routers with packets in flight (C28); one step = one critical
                  section of floodsub (`Publish`, `handlePublish`, `execPublish`) or an
                  environment change.
* `Pubsub.Sub`  — one subscription handle (C29): handlers guarded by the subscription mutex,
                  delivery goroutines as separate steps.
* `Pubsub.Exec` — the `Execute` loop's subscription announcements (C29): new-session region,
                  hold-break, sweep region.
Core Lean only.
-/
namespace Bifrost
namespace Pubsub
open Codec Sign

/-! ## Part 1 — one publish packet (C27) -/

/-- `pubMessageEncContext` (regenerated from the source by the translator). -/
def ctxPrefix : Bytes := Gen.PubsubCtx.pubMessageEncContext

/-- `pubMessageEncContext + channelID` -/
def pubContext (ch : Bytes) : Bytes := ctxPrefix ++ ch

/-- Go `int64(x)` of a uint64. -/
def toInt64 (x : Nat) : Int :=
  let m : Nat := x % 2 ^ 64
  if m < 2 ^ 63 then Int.ofNat m else Int.ofNat m - 2 ^ 64

/-- `PubMessageInner` after `UnmarshalVT`. -/
structure Inner where
  data : Bytes := []
  channel : Bytes := []
  seconds : Int := 0     -- Timestamp.GetSeconds() (0 when the timestamp is absent)
  nanos : Int := 0
deriving Repr, DecidableEq

def innerSchema : PW.Schema := [⟨1, .bytes⟩, ⟨2, .bytes⟩, ⟨3, .bytes⟩]
def tsSchema : PW.Schema := [⟨1, .varint⟩, ⟨2, .varint⟩]

def tsDecodes (b : Bytes) : Bool :=
  match PW.decode tsSchema b with
  | .ok _ => true
  | .error _ => false

/-- `PubMessageInner.UnmarshalVT`: repeated occurrences of the embedded timestamp are merged
(each must decode; the merge equals decoding their concatenation). -/
def Inner.unmarshal (b : Bytes) : Option Inner :=
  match PW.decode innerSchema b with
  | .error _ => none
  | .ok r =>
    let tss := r.allBytes 3
    if tss.any (fun t => !tsDecodes t) then none else
    match PW.decode tsSchema tss.flatten with
    | .error _ => none
    | .ok t => some { data := r.lastBytes 1, channel := r.lastBytes 2,
                      seconds := toInt64 (t.lastVarint 1), nanos := PW.toInt32 (t.lastVarint 2) }

/-- `Timestamp.CheckValid() == nil` for a non-nil timestamp. -/
def tsCheckValid (s n : Int) : Bool :=
  decide (-62135596800 ≤ s) && decide (s ≤ 253402300799) && decide (0 ≤ n) && decide (n < 1000000000)

/-- `PubMessageInner.Validate() == nil` -/
def Inner.validate (i : Inner) : Bool :=
  !i.channel.isEmpty && (decide (i.seconds = 0) || tsCheckValid i.seconds i.nanos)

/-- canonical encoding (`MarshalVT`) of an inner message without timestamp -/
def Inner.marshal (i : Inner) : Bytes := PW.encBytesOpt 1 i.data ++ PW.encBytesOpt 2 i.channel

inductive PubErr where
  | decode                    -- UnmarshalVT failed
  | invalidInner              -- Validate failed (empty channel / bad timestamp)
  | sign (e : EavErr)         -- SignedMsg.ExtractAndVerify failed
deriving Repr, DecidableEq

/-- `pubmessage.ExtractAndVerify(msg)`: `(inner, raw public key, raw peer id)`. -/
def extractAndVerify (verify : VerifyFn) (sum : SumFn) (m : SignedMsg) :
    Except PubErr (Inner × Bytes × Bytes) :=
  match Inner.unmarshal m.data with
  | none => .error .decode
  | some i =>
    if !i.validate then .error .invalidInner else
    match Sign.extractAndVerify verify sum m (pubContext i.channel) with
    | .error e => .error (.sign e)
    | .ok (pk, id) => .ok (i, pk, id)

/-- `pubsub.PeerLinkTuple`: (raw peer id, link id). -/
abbrev Tpl := Bytes × Nat

/-- The tables of one `FloodSub` that matter for a publish packet. -/
structure Router where
  /-- `m.channels`: channel ↦ number of local subscriptions. A key stays (with 0) after the
  last release until `Execute` sweeps it. -/
  channels : List (Bytes × Nat) := []
  /-- `m.peerChannels` -/
  peerChannels : List (Bytes × List Tpl) := []
  /-- `m.peers` (sessions) -/
  peers : List Tpl := []
  /-- `m.seenMessages` (ids) -/
  seen : List Bytes := []
deriving Repr

def lookupCh {α} (l : List (Bytes × α)) (ch : Bytes) : Option α := (l.find? (·.1 = ch)).map (·.2)

/-- What `SignedMsg.ComputeMessageID` hashes: signature bytes then the sender text. -/
def msgKey (m : SignedMsg) : Bytes := m.signature.sigData ++ m.fromPeerId

/-- `execPublish`: the peers the packet is written to. `fromText` is `msg.GetFromPeerId()`
(compared with the base58 text of the peer), `prevHop` the raw id of the previous hop. -/
def execPublishTargets (r : Router) (ch fromText prevHop : Bytes) : List Tpl :=
  ((lookupCh r.peerChannels ch).getD []).filter fun p =>
    !(decide (idB58Encode p.1 = fromText)) && !(decide (p.1 = prevHop)) && r.peers.contains p

inductive PubRes where
  | rejected (e : PubErr)
  | notSubscribed (ch : Bytes)
  | duplicate
  /-- handed to the `nsubs` local subscriptions of `ch` with `GetFrom() = sender`,
  `GetData() = data`, and queued for forwarding -/
  | accepted (ch sender data : Bytes) (nsubs : Nat)
deriving Repr, DecidableEq

/-- `handleValidMessage` after the caller's checks. `mid` is the message-id hash
(hex of BLAKE3). Returns the new router, the result and the forwarding targets. -/
def handleValidMessage (mid : Bytes → Bytes) (r : Router) (prevHop : Bytes) (m : SignedMsg)
    (i : Inner) (sender : Bytes) : Router × PubRes × List Tpl :=
  let id := mid (msgKey m)
  if r.seen.contains id then (r, .duplicate, [])
  else
    let r' := { r with seen := id :: r.seen }
    (r', .accepted i.channel sender i.data ((lookupCh r.channels i.channel).getD 0),
      execPublishTargets r' i.channel m.fromPeerId prevHop)

/-- One iteration of `streamHandler.handlePublish` for a packet received from `prevHop`. -/
def handlePublishOne (verify : VerifyFn) (sum : SumFn) (mid : Bytes → Bytes) (r : Router)
    (prevHop : Bytes) (m : SignedMsg) : Router × PubRes × List Tpl :=
  match extractAndVerify verify sum m with
  | .error e => (r, .rejected e, [])
  | .ok (i, _, id) =>
    match lookupCh r.channels i.channel with
    | none => (r, .notSubscribed i.channel, [])
    | some _ => handleValidMessage mid r prevHop m i id

/-! ## Part 2 — the network (C28)

Peers, channels and message ids are natural numbers. One link per pair of peers (the link id
of `PeerLinkTuple` is dropped). Signature checking is Part 1; here every packet in flight is
a valid message. -/
namespace Net

structure Msg where
  id : Nat           -- ComputeMessageID
  origin : Nat       -- the peer id in `FromPeerId` (identity of the signing key)
  ch : Nat
deriving Repr, DecidableEq

structure Node where
  subs : List Nat := []                 -- keys of `m.channels`
  know : List (Nat × Nat) := []         -- `m.peerChannels` as (channel, peer) pairs
  peers : List Nat := []                -- `m.peers`
  seen : List Nat := []                 -- `m.seenMessages`
  queue : List (Msg × Nat) := []        -- `m.publishCh`: (message, previous hop)
  delivered : List Nat := []            -- ghost: ids handed to the local subscriptions
  firstHop : List (Nat × Nat) := []     -- ghost: (id, previous hop) of the accepted copy
deriving Repr

/-- ghost record of one `writePacket` of a publish packet -/
structure Sent where
  src : Nat
  dst : Nat
  msg : Msg
  prev : Nat
deriving Repr, DecidableEq

structure State where
  nodes : Nat → Node
  wire : List (Nat × Nat × Msg) := []   -- packets in flight: (from, to, message)
  sent : List Sent := []                -- ghost log

def State.setNode (s : State) (n : Nat) (nd : Node) : State :=
  { s with nodes := fun k => if k = n then nd else s.nodes k }

/-- `handleValidMessage`: atomic test-and-set on the seen set, then delivery + enqueue. -/
def hvm (nd : Node) (m : Msg) (prev : Nat) : Node :=
  if nd.seen.contains m.id then nd
  else { nd with
    seen := m.id :: nd.seen
    delivered := if nd.subs.contains m.ch then m.id :: nd.delivered else nd.delivered
    firstHop := (m.id, prev) :: nd.firstHop
    queue := nd.queue ++ [(m, prev)] }

/-- `execPublish`: peers known to subscribe, except the origin and the previous hop, that
have a session. -/
def fwdTargets (nd : Node) (m : Msg) (prev : Nat) : List Nat :=
  ((nd.know.filter (fun e => e.1 = m.ch)).map (·.2)).filter fun p =>
    decide (p ≠ m.origin) && decide (p ≠ prev) && nd.peers.contains p

inductive Ev where
  | publish (n : Nat) (m : Msg)            -- `FloodSub.Publish` at node n (previous hop := origin)
  | recv (k : Nat)                          -- the k-th packet in flight reaches `handlePublish`
  | fwd (n : Nat)                           -- the Execute loop of n takes the head of publishCh
  | learn (n p ch : Nat) (b : Bool)         -- `handleSubscriptions`
  | setSub (n ch : Nat) (b : Bool)          -- channel key added / swept
  | setPeer (n p : Nat) (b : Bool)          -- session added / removed
  | lose (k : Nat)                          -- a packet in flight is lost with its session
deriving Repr, DecidableEq

def step (s : State) : Ev → State
  | .publish n m => s.setNode n (hvm (s.nodes n) m m.origin)
  | .recv k =>
    match s.wire[k]? with
    | none => s
    | some (f, t, m) =>
      let s1 := { s with wire := s.wire.eraseIdx k }
      if (s.nodes t).subs.contains m.ch then s1.setNode t (hvm (s.nodes t) m f) else s1
  | .fwd n =>
    match (s.nodes n).queue with
    | [] => s
    | (m, prev) :: rest =>
      let nd := s.nodes n
      let ts := fwdTargets nd m prev
      let s1 := s.setNode n { nd with queue := rest }
      { s1 with wire := s1.wire ++ ts.map (fun p => (n, p, m))
                sent := s1.sent ++ ts.map (fun p => ⟨n, p, m, prev⟩) }
  | .learn n p ch b =>
    let nd := s.nodes n
    s.setNode n { nd with know := if b then (if nd.know.contains (ch, p) then nd.know else (ch, p) :: nd.know)
                                   else nd.know.filter (· ≠ (ch, p)) }
  | .setSub n ch b =>
    let nd := s.nodes n
    s.setNode n { nd with subs := if b then (if nd.subs.contains ch then nd.subs else ch :: nd.subs)
                                   else nd.subs.filter (· ≠ ch) }
  | .setPeer n p b =>
    let nd := s.nodes n
    s.setNode n { nd with peers := if b then (if nd.peers.contains p then nd.peers else p :: nd.peers)
                                    else nd.peers.filter (· ≠ p) }
  | .lose k => { s with wire := s.wire.eraseIdx k }

def run (s : State) (evs : List Ev) : State := evs.foldl step s

/-- Static configuration of a node. -/
structure Cfg where
  subs : List Nat := []
  know : List (Nat × Nat) := []
  peers : List Nat := []
deriving Repr

def init (cfg : Nat → Cfg) : State :=
  { nodes := fun n => { subs := (cfg n).subs, know := (cfg n).know, peers := (cfg n).peers } }

/-- Nothing left to do for the routers `ns`. -/
def quiescent (s : State) (ns : List Nat) : Bool :=
  s.wire.isEmpty && ns.all fun n => (s.nodes n).queue.isEmpty

/-- A deterministic fair scheduler (used by the driver to predict deliveries): deliver the
oldest packet, else forward at the first node with a pending message. -/
def schedule (ns : List Nat) : Nat → State → State
  | 0, s => s
  | fuel + 1, s =>
    if !s.wire.isEmpty then schedule ns fuel (step s (.recv 0))
    else match ns.find? (fun n => !(s.nodes n).queue.isEmpty) with
      | some n => schedule ns fuel (step s (.fwd n))
      | none => s

end Net

/-! ## Part 3 — one subscription handle (C29) -/
namespace Sub

structure State where
  handlers : List Nat := []        -- `s.handlers` (ids of the `subscriptionHandler` objects)
  inChan : Bool := true            -- the subscription is in `m.channels[channelID]`
  pending : List Nat := []         -- delivery goroutines spawned by `handleValidMessage`, not yet run (message ids)
  relOnce : Bool := false          -- `s.relOnce` done
  released : Bool := false         -- ghost: some `Release()` passed its first critical section
  fresh : List Nat := []           -- ghost: handlers added after `released`
  removed : List Nat := []         -- ghost: handlers whose remove function has run
  calls : List (Nat × Nat × Bool) := []   -- ghost log: (handler, message, `released` at the time)
deriving Repr, DecidableEq

inductive Ev where
  | add (h : Nat)        -- `AddHandler` (under s.mtx); h is a fresh object identity
  | remove (h : Nat)     -- the function returned by `AddHandler` (under s.mtx)
  | relA                 -- `Release`: first critical section (s.mtx): clear the handlers
  | relB                 -- `Release`: `relOnce` section (m.mtx): leave `m.channels[chid]`
  | spawn (msg : Nat)    -- `handleValidMessage` (m.mtx): `go func(){…}` for this subscription
  | run (k : Nat)        -- the k-th pending goroutine runs (s.mtx): calls every current handler
deriving Repr, DecidableEq

def step (s : State) : Ev → State
  | .add h => { s with handlers := if s.handlers.contains h then s.handlers else s.handlers ++ [h]
                       fresh := if s.released then h :: s.fresh else s.fresh }
  | .remove h => { s with handlers := s.handlers.filter (· ≠ h), removed := h :: s.removed }
  | .relA => { s with handlers := [], released := true }
  | .relB => { s with inChan := false, relOnce := true }
  | .spawn msg => if s.inChan then { s with pending := s.pending ++ [msg] } else s
  | .run k =>
    match s.pending[k]? with
    | none => s
    | some msg => { s with pending := s.pending.eraseIdx k
                           calls := s.calls ++ s.handlers.map (fun h => (h, msg, s.released)) }

def run (s : State) (evs : List Ev) : State := evs.foldl step s

end Sub

/-! ## Part 4 — subscription announcements of `Execute` (C29)

Each session is a fresh identity (`addPeer` of an identity already used is ignored): a
re-opened stream for the same (peer, link) tuple is out of scope. -/
namespace Exec

structure State where
  channels : List (Nat × Nat) := []     -- `m.channels`: channel ↦ number of subscriptions (0 = released, not swept)
  pubbed : List Nat := []               -- `pubbedChannels`
  inc : List Nat := []                  -- `m.incSessions`
  running : List Nat := []              -- sessions initialised by Execute (`ctx != nil`) and in `m.peers`
  known : List Nat := []                -- ghost: every session identity ever added
  /-- every SubscriptionOpts queued to a session, in order: (channel, subscribe) -/
  told : Nat → List (Nat × Bool) := fun _ => []
  wake : Bool := false                  -- `m.wakeCh` holds a token
  pc : Nat := 0                         -- 0 loop top, 1 hold-break, 2 parked (waiting for wake)

def count (s : State) (ch : Nat) : Option Nat := (s.channels.find? (·.1 = ch)).map (·.2)

def setCount (l : List (Nat × Nat)) (ch c : Nat) : List (Nat × Nat) :=
  l.map fun e => if e.1 = ch then (ch, c) else e

inductive Ev where
  | addSub (ch : Nat)     -- `AddSubscription`
  | release (ch : Nat)    -- `subscription.Release` of a live subscription to ch (relOnce section)
  | addPeer (p : Nat)     -- `AddPeerStream`
  | endPeer (p : Nat)     -- a session goroutine exits and leaves `m.peers`
  | region1               -- Execute: initialise the new sessions (first lock region)
  | region2               -- Execute: sweep / announce (second lock region) and queue the changes
  | wakeup                -- Execute: parked loop receives the wake token
deriving Repr, DecidableEq

/-- The sweep loop over the map `m.channels`. Each entry is decided on its own key only (and
only touches its own key of `pubbedChannels`), so the loop is rendered entry-wise: an empty
channel is announced as unsubscribed (always, after the fix) and dropped; a non-empty channel
not yet in `pubbedChannels` is announced as subscribed. -/
def changes (pubbed : List Nat) (channels : List (Nat × Nat)) : List (Nat × Bool) :=
  channels.filterMap fun e =>
    if e.2 = 0 then some (e.1, false) else if pubbed.contains e.1 then none else some (e.1, true)

def sweptChannels (channels : List (Nat × Nat)) : List (Nat × Nat) := channels.filter (fun e => e.2 ≠ 0)

def sweptPubbed (pubbed : List Nat) (channels : List (Nat × Nat)) : List Nat :=
  pubbed.filter (fun ch => !channels.contains (ch, 0)) ++
    (channels.filter (fun e => decide (e.2 ≠ 0) && !pubbed.contains e.1)).map (·.1)

/-- first lock region of the loop: initialise the new sessions with the current channel keys -/
def region1 (s : State) : State :=
  { s with told := fun q => if s.inc.contains q then s.told q ++ s.channels.map (fun e => (e.1, true)) else s.told q
           running := s.running ++ s.inc
           inc := []
           pc := 1 }

/-- second lock region: sweep, then queue the changes to every initialised session -/
def region2 (s : State) : State :=
  { s with channels := sweptChannels s.channels
           pubbed := sweptPubbed s.pubbed s.channels
           told := fun q => if s.running.contains q then s.told q ++ changes s.pubbed s.channels else s.told q
           pc := 2 }

def step (s : State) : Ev → State
  | .addSub ch =>
    match count s ch with
    | none => { s with channels := s.channels ++ [(ch, 1)], wake := true }
    | some c => { s with channels := setCount s.channels ch (c + 1) }
  | .release ch =>
    match count s ch with
    | none => s
    | some 0 => s
    | some (c + 1) => { s with channels := setCount s.channels ch c, wake := s.wake || decide (c = 0) }
  | .addPeer p =>
    if s.known.contains p then s else { s with inc := s.inc ++ [p], known := p :: s.known, wake := true }
  | .endPeer p => { s with running := s.running.filter (· ≠ p) }
  | .region1 => if s.pc ≠ 0 then s else region1 s
  | .region2 => if s.pc ≠ 1 then s else region2 s
  | .wakeup => if s.pc = 2 ∧ s.wake then { s with pc := 0, wake := false } else s

def run (s : State) (evs : List Ev) : State := evs.foldl step s

def applyChange (b : List Nat) (c : Nat × Bool) : List Nat :=
  if c.2 then (if b.contains c.1 then b else c.1 :: b) else b.filter (· ≠ c.1)

/-- What peer `p` believes after receiving everything queued to it. -/
def belief (s : State) (p : Nat) : List Nat := (s.told p).foldl applyChange []

def subscribed (s : State) (ch : Nat) : Bool :=
  match count s ch with
  | some (_ + 1) => true
  | _ => false

end Exec

/-! ## Opener rule (C29): `trackLink` returns early iff `local.String() > remote.String()` -/

def opensStream (localId remoteId : Bytes) : Bool :=
  !(lexLt (idB58Encode remoteId) (idB58Encode localId))

/-! ## Part 5 — the pubsub controller's link table (C29): `pubsub/controller`
`establishLinkHandler.HandleValueAdded/Removed`, the `incLinks` loop of `Controller.Execute`, and
`trackedLink.trackLink`. A controller is NOT bound to one local identity (the floodsub factory
passes the empty peer id): every link carries its own local identity and the opener rule is
evaluated with THAT identity. -/
namespace Ctl

/-- one end of a link as the controller sees it (`link.MountedLink`) -/
structure Link where
  uuid : Nat
  localId : Bytes      -- `GetLocalPeer()`
  remoteId : Bytes     -- `GetRemotePeer()`
deriving Repr, DecidableEq

/-- `pubsub.NewPeerLinkTuple` -/
def tplOf (l : Link) : Bytes × Nat := (l.remoteId, l.uuid)

structure State where
  inc : List Link := []        -- `c.incLinks`
  tracked : List Link := []    -- `c.links`: trackers started by the loop that have not run yet
  opened : List Link := []     -- ghost: every `OpenMountedStream` (followed by `AddPeerStream(tpl, true, …)`)
  cache : Option Bytes := none -- only used by the refuted variant `stepCached`
deriving Repr

inductive Ev where
  | added (l : Link)      -- `HandleValueAdded`
  | removed (l : Link)    -- `HandleValueRemoved`: drop one pending entry, cancel the tracker of the tuple
  | loop                  -- one pass of the `incLinks` loop in `Execute` (replaces trackers of the same tuple)
  | track (k : Nat)       -- the k-th started tracker runs `trackLink` to its end
deriving Repr, DecidableEq

def step (s : State) : Ev → State
  | .added l => { s with inc := s.inc ++ [l] }
  | .removed l => { s with inc := s.inc.erase l, tracked := s.tracked.filter (fun t => tplOf t ≠ tplOf l) }
  | .loop => { s with tracked := (s.tracked.filter fun t => !(s.inc.any fun i => decide (tplOf i = tplOf t))) ++ s.inc
                      inc := [] }
  | .track k =>
    match s.tracked[k]? with
    | none => s
    | some l => { s with tracked := s.tracked.eraseIdx k
                         opened := if opensStream l.localId l.remoteId then s.opened ++ [l] else s.opened }

def run (s : State) (evs : List Ev) : State := evs.foldl step s

/-- The seeded variant: the local identity is computed once per controller (from the first link
that is tracked) and re-used for every later link. -/
def stepCached (s : State) : Ev → State
  | .track k =>
    match s.tracked[k]? with
    | none => s
    | some l =>
      let me := s.cache.getD l.localId
      { s with tracked := s.tracked.eraseIdx k
               cache := some me
               opened := if opensStream me l.remoteId then s.opened ++ [l] else s.opened }
  | ev => step s ev

def runCached (s : State) (evs : List Ev) : State := evs.foldl stepCached s

end Ctl

/-! ## Part 6 — the receiving side of the subscription announcements (C29):
`streamHandler.handleSubscriptions` and the end of a session, for ONE (peer, link) tuple. Model of
the code after "fix: floodsub kept the subscriptions of a closed session". -/
namespace Recv

structure State where
  cur : Option Nat := none     -- the session registered in `m.peers[tpl]`
  next : Nat := 0              -- fresh session identities
  live : List Nat := []        -- sessions whose read pump may still deliver packets
  know : List Nat := []        -- channels c with `tpl ∈ m.peerChannels[c]`
deriving Repr, DecidableEq

inductive Ev where
  | start                          -- `AddPeerStream` + initialisation by `Execute` (replaces the registered session)
  | recv (k ch : Nat) (b : Bool)   -- session k's read pump handles one `SubscriptionOpts`
  | endS (k : Nat)                 -- session k's goroutine exits
deriving Repr, DecidableEq

def step (s : State) : Ev → State
  | .start => { s with cur := some s.next, next := s.next + 1, live := s.next :: s.live }
  | .recv k ch b => if s.live.contains k then { s with know := Exec.applyChange s.know (ch, b) } else s
  | .endS k =>
    if s.cur = some k then { s with cur := none, live := s.live.filter (· ≠ k), know := [] }
    else { s with live := s.live.filter (· ≠ k) }

def run (s : State) (evs : List Ev) : State := evs.foldl step s

/-- before the fix the table entry of the tuple survived the session -/
def stepPre (s : State) : Ev → State
  | .endS k =>
    if s.cur = some k then { s with cur := none, live := s.live.filter (· ≠ k) }
    else { s with live := s.live.filter (· ≠ k) }
  | ev => step s ev

def runPre (s : State) (evs : List Ev) : State := evs.foldl stepPre s

end Recv

/-! ## Part 7 — the per-session send queue (C29): `streamHandler.writePacket` (a BLOCKING send on
the buffered channel `packetCh`), the session goroutine taking one packet at a time and writing
it to the stream. A peer that does not read blocks the stream write. -/
namespace SendQ

structure State where
  cap : Nat
  queue : List Nat := []          -- `packetCh`
  inflight : Option Nat := none   -- taken by the session goroutine, `stream.SendMsg` not yet returned
  delivered : List Nat := []      -- written to the stream, in order
  accepted : List Nat := []       -- ghost: packets for which `writePacket` returned
  blocked : Nat := 0              -- ghost: `write` events that found the queue full (the caller stays blocked)
deriving Repr, DecidableEq

inductive Ev where
  | write (p : Nat)   -- `writePacket(p)`; enabled only while the queue is not full
  | take              -- the session goroutine receives from `packetCh`
  | flush             -- `stream.SendMsg` returns (the peer read the bytes)
deriving Repr, DecidableEq

def step (s : State) : Ev → State
  | .write p => if s.queue.length < s.cap then { s with queue := s.queue ++ [p], accepted := s.accepted ++ [p] }
                else { s with blocked := s.blocked + 1 }
  | .take =>
    match s.inflight, s.queue with
    | none, p :: q => { s with inflight := some p, queue := q }
    | _, _ => s
  | .flush =>
    match s.inflight with
    | some p => { s with inflight := none, delivered := s.delivered ++ [p] }
    | none => s

def run (s : State) (evs : List Ev) : State := evs.foldl step s

/-- The seeded variant: `writePacket` returns without queueing when the queue is full. -/
def stepDrop (s : State) : Ev → State
  | .write p => if s.queue.length < s.cap then { s with queue := s.queue ++ [p], accepted := s.accepted ++ [p] }
                else { s with accepted := s.accepted ++ [p] }
  | ev => step s ev

def runDrop (s : State) (evs : List Ev) : State := evs.foldl stepDrop s

end SendQ

/-! ## Part 8 — `execPublish` and a session that is registered but not yet started (C28)
`AddPeerStream` puts the new `streamHandler` into `m.peers[tpl]` at once (replacing a live
session of the tuple, whose announcements stay in `m.peerChannels`); `Execute` sets its `ctx` and
queues the initial subscription set in its next pass (both under `m.mtx`). `execPublish` (under
`m.mtx`) calls `writePacket` on whatever is registered. One (peer, link) tuple of one router. -/
namespace Replace

structure Sess where
  started : Bool := false     -- `ctx != nil`
  queue : List Nat := []      -- `packetCh` (message ids; 0 = the initial subscription set)
deriving Repr, DecidableEq

structure State where
  cap : Nat                        -- `cap(packetCh)`
  cur : Option Sess := none        -- `m.peers[tpl]`
  announced : Bool := false        -- `tpl ∈ m.peerChannels[ch]`
  panicked : Bool := false         -- nil dereference in the Execute goroutine (`m.mtx` stays held)
  blockedInit : Bool := false      -- ghost: the unguarded send of the initial set found the queue full
  skipped : List Nat := []         -- ghost: messages `writePacket` could not queue
deriving Repr, DecidableEq

inductive Ev where
  | add                    -- `AddPeerStream` (first session, after close, or over the live session)
  | start                  -- `Execute`, new-session region: `ctx` set, initial set queued
  | announce (b : Bool)    -- `handleSubscriptions` for the channel
  | publish (id : Nat)     -- `execPublish` of an accepted message of the channel (previous hop / origin elsewhere)
  | take                   -- the session goroutine takes one packet (only a started session has one)
  | endCur                 -- the registered session ends: tuple forgotten
deriving Repr, DecidableEq

/-- `writePacket` after the fix: an unstarted session is queued to without blocking, leaving room
for the initial set. A started session: blocking send (enabled only while there is room). -/
def write (c : Nat) (s : Sess) (id : Nat) : Sess × Bool :=
  if s.started then
    (if s.queue.length < c then ({ s with queue := s.queue ++ [id] }, true) else (s, false))
  else
    (if s.queue.length + 1 < c then ({ s with queue := s.queue ++ [id] }, true) else (s, false))

def step (s : State) : Ev → State
  | .add => { s with cur := some {} }
  | .start =>
    match s.cur with
    | some x => if x.started then s else
        { s with cur := some { started := true, queue := x.queue ++ [0] }
                 blockedInit := s.blockedInit || decide (¬ x.queue.length < s.cap) }
    | none => s
  | .announce b => { s with announced := b }
  | .publish id =>
    if s.panicked || !s.announced then s else
    match s.cur with
    | none => s
    | some x =>
      let (x', ok) := write s.cap x id
      { s with cur := some x', skipped := if ok then s.skipped else s.skipped ++ [id] }
  | .take =>
    match s.cur with
    | some x => if x.started then { s with cur := some { x with queue := x.queue.drop 1 } } else s
    | none => s
  | .endCur => { s with cur := none, announced := false }

def run (s : State) (evs : List Ev) : State := evs.foldl step s

/-- before the fix: `writePacket` evaluated `s.ctx.Done()` of the unstarted session -/
def stepPre (s : State) : Ev → State
  | .publish id =>
    if s.panicked || !s.announced then s else
    match s.cur with
    | none => s
    | some x => if x.started then step s (.publish id) else { s with panicked := true }
  | ev => step s ev

def runPre (s : State) (evs : List Ev) : State := evs.foldl stepPre s

end Replace

/-! ## `handlePublish` over a whole packet (C27): the `for _, pkt := range pkts` loop -/

/-- One `Packet.Publish` list: the entries are handled in order, each on the router state left
by the previous one; the k-th result belongs to the k-th entry. -/
def handlePublishBatch (verify : VerifyFn) (sum : SumFn) (mid : Bytes → Bytes) (r : Router)
    (prevHop : Bytes) : List SignedMsg → Router × List (SignedMsg × PubRes × List Tpl)
  | [] => (r, [])
  | m :: ms =>
    let (r1, res, fw) := handlePublishOne verify sum mid r prevHop m
    let (r2, rest) := handlePublishBatch verify sum mid r1 prevHop ms
    (r2, (m, res, fw) :: rest)

/-! ## Part 10 — `streamHandler.handleSubscriptions` on the WHOLE table `m.peerChannels` (C28, wave 5):
several (peer, link) tuples recorded under several channels; a packet of subscription entries from
the session of tuple `p`. Channel 0 stands for the empty channel id (entry skipped). A key that is
absent (`none`) is distinguished from an empty inner map, as in Go. -/
namespace RecvTbl

abbrev Tbl := Nat → Option (List Nat)      -- channel ↦ recorded tuples (`none`: no key)

def set (t : Tbl) (ch : Nat) (v : Option (List Nat)) : Tbl := fun c => if c = ch then v else t c

/-- one `SubscriptionOpts` entry -/
def handleOne (t : Tbl) (p ch : Nat) (b : Bool) : Tbl :=
  if ch = 0 then t
  else if b then
    match t ch with
    | none => set t ch (some [p])                                   -- make + insert
    | some cm => if cm.contains p then t else set t ch (some (p :: cm))
  else
    match t ch with
    | none => t                                                     -- `continue`
    | some tm =>
      let tm' := tm.filter (· ≠ p)                                  -- `delete(tm, s.tpl)` if present
      if tm'.isEmpty then set t ch none else set t ch (some tm')    -- `len(tm) == 0` ⇒ delete the key

def handle (t : Tbl) (p : Nat) (subs : List (Nat × Bool)) : Tbl :=
  subs.foldl (fun t s => handleOne t p s.1 s.2) t

/-- tuple `q` is recorded as a subscriber of `ch` -/
def recorded (t : Tbl) (ch q : Nat) : Bool :=
  match t ch with
  | some l => l.contains q
  | none => false

/-- the variant with a "last subscriber" fast path in the unsubscribe branch (refuted) -/
def handleOneFast (t : Tbl) (p ch : Nat) (b : Bool) : Tbl :=
  if ch = 0 then t
  else if b then handleOne t p ch b
  else
    match t ch with
    | none => t
    | some tm => if tm.length ≤ 1 then set t ch none else handleOne t p ch b

end RecvTbl

end Pubsub
end Bifrost
