import Bifrost.Model.Solicit
/-!
The two-sided solicitation exchange on ONE link between the peers A and B
(`link/solicit/controller/controller.go`), as a labelled transition system whose steps are the
actions of the two controllers and of the link between them:

* `add x d` / `remove x i`  — a `SolicitProtocol` directive is added to / removed from side `x`
  (`handleSolicitProtocol`: the resolver inserts into / deletes from `c.solicitations`);
* `sync x`     — one iteration of `runControlStream` on side `x`: snapshot of the admitted
  entries, `computeHashes` (sort, truncate to `maxHashes`), `sendExchange` when the list differs
  from the last one sent, `evaluateMatches` against the last list received;
* `deliver x`  — the oldest exchange in flight towards `x` is read (`RecvMsg`, truncation to
  `maxHashes`), stored in `ls.remoteHashes`, `evaluateMatches`;
* `open x h`   — one `go openSolicitedStream(h)` of side `x` runs: `OpenMountedStream`, then
  `resolveMatch` against the directives `x` has NOW;
* `arrive x s` — the stream `s` opened by the other side reaches `x`
  (`handleIncomingSolicitedStream`): `resolveMatch` against the directives `x` has NOW; a stream
  that no directive takes is closed.

`addLink` is the configuration: each side computes `ComputeSessionID(local, remote)` and
`localIsLower = local < remote` from ITS OWN view of the link. A step that is not enabled leaves
the state unchanged, so `run` over ALL op lists ranges over exactly the executions.
The hash function (BLAKE3-256) is a parameter, as in `Bifrost.Solicit`.
-/
namespace Bifrost
namespace SolicitSys
open Bifrost.Solicit

inductive Side where
  | A | B
deriving Repr, DecidableEq

def Side.other : Side → Side
  | .A => .B
  | .B => .A

/-- The link: the two peer IDs, the transport UUID under which each side mounted the link, and
each controller's `maxHashes` — the limit the controller WORKS with (`NewController`: the configured
`max_hashes`, 256 by default, clamped to `maxWireHashes`, the number of hashes one exchange
message can carry; `Props.C30Hub.effMax`, `offered_list_fits_message`). -/
structure Cfg where
  pA : Bytes
  pB : Bytes
  tA : Nat
  tB : Nat
  maxA : Nat
  maxB : Nat
deriving Repr, DecidableEq

/-- `ml.GetLocalPeer()` on side `x`. -/
def Cfg.localPeer (c : Cfg) : Side → Bytes
  | .A => c.pA
  | .B => c.pB

/-- `ml.GetRemotePeer()` on side `x`. -/
def Cfg.remotePeer (c : Cfg) (x : Side) : Bytes := c.localPeer x.other

def Cfg.tpt (c : Cfg) : Side → Nat
  | .A => c.tA
  | .B => c.tB

def Cfg.max (c : Cfg) : Side → Nat
  | .A => c.maxA
  | .B => c.maxB

/-- The link as the constraint filter of side `x` sees it. -/
def Cfg.view (c : Cfg) (x : Side) : LinkView := ⟨c.remotePeer x, c.tpt x⟩

/-- `addLink`: `sessionID := ComputeSessionID(localPeer, remotePeer)`. -/
def Cfg.sid (H : Bytes → Bytes) (c : Cfg) (x : Side) : Bytes :=
  sessionID H (c.localPeer x) (c.remotePeer x)

/-- `addLink`: `isLower := localPeer < remotePeer`. -/
def Cfg.isLower (c : Cfg) (x : Side) : Bool := lexLt (c.localPeer x) (c.remotePeer x)

/-- A directive instance: `id` is its identity (a re-added directive is a new instance).
`early` is a ghost flag: when the instance was added its side had never yet offered its hash. -/
structure Inst where
  id : Nat
  d : Dir
  early : Bool
deriving Repr, DecidableEq

/-- One `AddValue`: directive instance `dir` (with parameters `d`) received the value wrapping
stream `stream`. -/
structure Delivery where
  dir : Nat
  d : Dir
  stream : Nat
deriving Repr, DecidableEq

/-- A solicited stream: `solicit:{hex hash}` opened by `opener`. Its identity is its index. -/
structure Stream where
  hash : Bytes
  opener : Side
deriving Repr, DecidableEq

structure Node where
  dirs : List Inst := []              -- c.solicitations
  nextDir : Nat := 0
  sent : List Bytes := []             -- localHashes: the last list sent
  everSent : List Bytes := []         -- ghost: every hash ever sent
  remote : List Bytes := []           -- ls.remoteHashes
  matched : List Bytes := []          -- ls.matched, in insertion order
  pendingOpen : List Bytes := []      -- `go openSolicitedStream(h)` spawned, not yet run
  inbox : List (List Bytes) := []     -- exchanges in flight towards this side (FIFO)
  arriving : List Nat := []           -- streams opened by the other side, not yet handled here
  resolved : List Nat := []           -- ghost: streams passed to resolveMatch on this side
  recv : List Delivery := []          -- values handed to directives
  closed : List Nat := []             -- streams closed by this controller (nobody took them)
deriving Repr, DecidableEq

structure State where
  a : Node := {}
  b : Node := {}
  streams : List Stream := []
deriving Repr, DecidableEq

def State.node (s : State) : Side → Node
  | .A => s.a
  | .B => s.b

def State.setNode (s : State) (x : Side) (n : Node) : State :=
  match x with
  | .A => { s with a := n }
  | .B => { s with b := n }

/-- a new solicited stream; its identity is its index -/
def State.pushStream (s : State) (sr : Stream) : State := { s with streams := s.streams ++ [sr] }

inductive Op where
  | add (x : Side) (d : Dir)
  | remove (x : Side) (id : Nat)
  | sync (x : Side)
  | deliver (x : Side)
  | «open» (x : Side) (h : Bytes)
  | arrive (x : Side) (s : Nat)
deriving Repr, DecidableEq

/-- the protocol hash of a directive on side `x` -/
def dirHash (H : Bytes → Bytes) (c : Cfg) (x : Side) (d : Dir) : Bytes :=
  protocolHash H (c.sid H x) d.pid d.ctx

/-- `getSolicitEntries` + `computeHashes`: admitted entries, hashed, sorted, truncated. -/
def hashList (H : Bytes → Bytes) (c : Cfg) (x : Side) (n : Node) : List Bytes :=
  (sortHashes (offered H (c.sid H x) (n.dirs.map (·.d)) (c.view x))).take (c.max x)

/-- The hashes of `l` that are not in `seen`, first occurrences only — the loop of
`evaluateMatches`: `if _, exists := ls.matched[h]; exists { continue }; ls.matched[h] = {}`. -/
def fresh (seen : List Bytes) : List Bytes → List Bytes
  | [] => []
  | h :: hs => if h ∈ seen then fresh seen hs else h :: fresh (seen ++ [h]) hs

/-- `evaluateMatches(localHashes, remoteHashes)`: every newly matched hash is recorded; the lower
peer spawns `openSolicitedStream` for it. -/
def evaluate (lower : Bool) (n : Node) : Node :=
  let new := fresh n.matched (findMatching n.sent n.remote)
  { n with matched := n.matched ++ new,
           pendingOpen := if lower then n.pendingOpen ++ new else n.pendingOpen }

/-- `resolveMatch` on directive instances: who receives the value for `hash`. -/
def resolveInst (H : Bytes → Bytes) (c : Cfg) (x : Side) (ds : List Inst) (hash : Bytes) : List Inst :=
  ds.filter fun i => admits i.d (c.view x) && dirHash H c x i.d = hash

/-- `resolveMatch(ls, hash, stream)` on node `n`: one value, delivered to every matching
directive; when nobody takes it the stream is closed. -/
def resolveOn (H : Bytes → Bytes) (c : Cfg) (x : Side) (n : Node) (hash : Bytes) (s : Nat) : Node :=
  let rs := resolveInst H c x n.dirs hash
  { n with resolved := n.resolved ++ [s],
           recv := n.recv ++ rs.map (fun i => ⟨i.id, i.d, s⟩),
           closed := if rs.isEmpty then n.closed ++ [s] else n.closed }

def step (H : Bytes → Bytes) (c : Cfg) (st : State) : Op → State
  | .add x d =>
    let n := st.node x
    st.setNode x { n with
      dirs := n.dirs ++ [⟨n.nextDir, d, decide (dirHash H c x d ∉ n.everSent)⟩],
      nextDir := n.nextDir + 1 }
  | .remove x id =>
    let n := st.node x
    st.setNode x { n with dirs := n.dirs.filter (fun i => i.id != id) }
  | .sync x =>
    let n := st.node x
    let new := hashList H c x n
    if new = n.sent then
      st.setNode x (evaluate (c.isLower x) n)
    else
      let n' := evaluate (c.isLower x) { n with sent := new, everSent := n.everSent ++ new }
      let o := st.node x.other
      (st.setNode x n').setNode x.other { o with inbox := o.inbox ++ [new] }
  | .deliver x =>
    let n := st.node x
    match n.inbox with
    | [] => st
    | m :: rest =>
      st.setNode x (evaluate (c.isLower x) { n with inbox := rest, remote := m.take (c.max x) })
  | .open x h =>
    let n := st.node x
    if h ∈ n.pendingOpen then
      let s := st.streams.length
      let n' := resolveOn H c x { n with pendingOpen := n.pendingOpen.erase h } h s
      let o := st.node x.other
      ((st.setNode x n').setNode x.other { o with arriving := o.arriving ++ [s] }).pushStream ⟨h, x⟩
    else st
  | .arrive x s =>
    let n := st.node x
    if s ∈ n.arriving then
      match st.streams[s]? with
      | none => st
      | some sr => st.setNode x (resolveOn H c x { n with arriving := n.arriving.erase s } sr.hash s)
    else st

def runFrom (H : Bytes → Bytes) (c : Cfg) (st : State) (ops : List Op) : State :=
  ops.foldl (step H c) st

def run (H : Bytes → Bytes) (c : Cfg) (ops : List Op) : State := runFrom H c {} ops

/-- Nothing in flight and both loops up to date: no exchange undelivered, no stream un-opened or
un-handled, and each side's last sent list is the list of its present directives. -/
def quiescent (H : Bytes → Bytes) (c : Cfg) (st : State) : Prop :=
  ∀ x : Side, (st.node x).inbox = [] ∧ (st.node x).pendingOpen = [] ∧ (st.node x).arriving = [] ∧
    (st.node x).sent = hashList H c x (st.node x)

/-- the per-side part of `quiescent` -/
def quiet (H : Bytes → Bytes) (c : Cfg) (st : State) (x : Side) : Prop :=
  (st.node x).inbox = [] ∧ (st.node x).pendingOpen = [] ∧ (st.node x).arriving = [] ∧
    (st.node x).sent = hashList H c x (st.node x)

instance (H : Bytes → Bytes) (c : Cfg) (st : State) (x : Side) : Decidable (quiet H c st x) := by
  unfold quiet; infer_instance

theorem quiescent_iff (H : Bytes → Bytes) (c : Cfg) (st : State) :
    quiescent H c st ↔ quiet H c st .A ∧ quiet H c st .B :=
  ⟨fun h => ⟨h .A, h .B⟩, fun h x => by cases x; exact h.1; exact h.2⟩

instance (H : Bytes → Bytes) (c : Cfg) (st : State) : Decidable (quiescent H c st) :=
  decidable_of_iff _ (quiescent_iff H c st).symm

end SolicitSys
end Bifrost
