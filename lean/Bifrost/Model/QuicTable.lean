import Bifrost.Model.Links
/-!
The QUIC transport's address table composed with the transport controller's link tables:
`transport/common/quic/quic.go` (`Transport.links`, `HandleSession`, `handleLinkLost`),
`transport/common/quic/link.go` (`Link.Close`, `closedOnce`, the `closed` callback) on top of
`Bifrost.Links` (`transport/controller`: `HandleLinkEstablished`, `HandleLinkLost`, shutdown).

A labelled transition system. One step = one critical section or one asynchronous goroutine body:

* `session a p`   — the second critical section of `HandleSession` (under `t.mtx`);
* `runEst l`      — the goroutine `go t.handler.HandleLinkEstablished(lnk)` (controller section, `bcast`);
* `close i` / `runClose i` — the body of `Link.Close` under `closedOnce` (environment-initiated,
  resp. a goroutine `go x.Close()` started by the usurp in `HandleSession` or by the controller);
* `runLost a l`   — the goroutine `go t.handleLinkLost(as, lnk)`: its section under `t.mtx`;
* `runCtrlLost l` — the rest of that goroutine: `t.handler.HandleLinkLost(lnk)` (controller section);
* `start` / `shutdown` — the controller's `Execute` sections.

Goroutines that were started and have not run yet are explicit multisets (`pendEst`, `pendClose`,
`pendLost`, `pendCtrlLost`): every order in which the Go scheduler can run the asynchronous bodies
is a step sequence of this system. `step` is total: an op that is not enabled (a goroutine that
was never started) leaves the state unchanged.

A link object is identified by `id` (pointer identity in Go) = the number of links created before
it (`t.sessionCounter`); its uuid is a function `U addr peer` of the remote address and the remote
peer (`NewLinkUUID(localAddr, remoteAddr, remotePeerID)`, the local address being fixed). Nothing is
assumed about `U` (Crc64 is not injective).

The model is of ONE `Transport` object (one `Controller.Execute`): the controller constructs a new
transport, with an empty table, when it is executed again.
-/
namespace Bifrost
namespace QuicTable
open Links (Link)

/-- (remote address string, link object) -/
abbrev Entry := Nat × Link

structure State where
  ctrl : Links.State := {}           -- the transport controller (`Bifrost.Links`)
  created : List Entry := []         -- every link built by `HandleSession`, newest first, with the
                                     -- address `as` captured by its `closed` callback
  table : List Entry := []           -- `t.links` (association list keyed by address)
  closedCb : List Nat := []          -- ids of the links whose `closedOnce` body has run
  pendEst : List Link := []          -- started `go t.handler.HandleLinkEstablished(lnk)`
  pendClose : List Nat := []         -- started `go x.Close()` (usurp / controller)
  pendLost : List Entry := []        -- started `go t.handleLinkLost(as, lnk)`
  pendCtrlLost : List Link := []     -- `handleLinkLost` between `t.mtx.Unlock()` and `HandleLinkLost`
  -- history variables (never read by a transition, used only to NAME schedules in theorems):
  lostSeen : List Nat := []          -- ids whose `HandleLinkLost` section has run
  late : List Nat := []              -- ids whose `HandleLinkEstablished` section ran after that
deriving Repr, DecidableEq

inductive Op where
  | start (localPeer : Nat)
  | shutdown
  | session (addr peer : Nat)
  | runEst (l : Link)
  | close (i : Nat)
  | runClose (i : Nat)
  | runLost (addr : Nat) (l : Link)
  | runCtrlLost (l : Link)
deriving Repr, DecidableEq

/-- The `Close()` requests a controller section issued: the controller model prepends the id of
every link it closes (`go lnk.Close()`, `flushEstablishedLink`: `go func() { _ = el.lnk.Close() }()`)
to `closed`. -/
def newClosed (c c' : Links.State) : List Nat :=
  c'.closed.take (c'.closed.length - c.closed.length)

/-- One controller critical section; every `Close()` it requests becomes a pending goroutine. -/
def ctrlStep (s : State) (op : Links.Op) : State :=
  let c' := Links.step s.ctrl op
  { s with ctrl := c', pendClose := newClosed s.ctrl c' ++ s.pendClose }

/-- `Link.Close`:
```go
l.closedOnce.Do(func() {
    l.ctxCancel()
    if closed := l.closed; closed != nil { closed() }   // func() { go t.handleLinkLost(as, lnk) }
    ...
```
-/
def closeBody (s : State) (i : Nat) : State :=
  match s.created.find? (fun e => e.2.id = i) with
  | none => s
  | some e =>
    if i ∈ s.closedCb then s
    else { s with closedCb := i :: s.closedCb, pendLost := e :: s.pendLost }

/-- `always = true`: the code as it is ("fix: quic transport never reported the loss of a link
usurped by another peer at the same address"); `always = false`: the code before that fix
(`if t.handler != nil && rel`). -/
def stepWith (U : Nat → Nat → Nat) (always : Bool) (s : State) : Op → State
  | .start lp => ctrlStep s (.start lp)
  | .shutdown => ctrlStep s .shutdown
  | .session a p =>
    -- HandleSession(ctx, sess):
    --   t.mtx.Lock(); sessID := t.sessionCounter; t.sessionCounter++; t.mtx.Unlock()
    --   as := sess.RemoteAddr().String()
    --   lnk, err = NewLink(t.ctx, ..., t.uuid, t.peerID, t.laddr, sess,
    --       func() { if lnk != nil { go t.handleLinkLost(as, lnk) } })
    --     NewLink: remotePeerID := DetermineSessionIdentity(sess)
    --              uuid := NewLinkUUID(localAddr, remoteAddr, remotePeerID)
    let l : Link := ⟨s.created.length, U a p, p⟩
    --   t.mtx.Lock()
    --   if elnk, elnkOk := t.links[as]; elnkOk { ...Warn("userping existing session with peer"); go elnk.Close() }
    let usurped : List Nat :=
      match s.table.find? (fun e => e.1 = a) with
      | some e => [e.2.id]
      | none => []
    --   t.links[as] = lnk
    --   go t.handler.HandleLinkEstablished(lnk)
    --   t.mtx.Unlock()
    { s with
      created := (a, l) :: s.created
      table := (a, l) :: s.table.filter (fun e => e.1 ≠ a)
      pendClose := usurped ++ s.pendClose
      pendEst := l :: s.pendEst }
  | .runEst l =>
    -- transportHandler.HandleLinkEstablished(lnk): tpt, err := h.tpt.Await(h.ctx) (error: go lnk.Close())
    --   h.c.bcast.HoldLockMaybeAsync(func(...) { ... })   = `Links.step _ (.est l)`
    if l ∈ s.pendEst then
      ctrlStep
        { s with
          pendEst := s.pendEst.erase l
          late := if l.id ∈ s.lostSeen then l.id :: s.late else s.late }
        (.est l)
    else s
  | .close i => closeBody s i
  | .runClose i =>
    if i ∈ s.pendClose then closeBody { s with pendClose := s.pendClose.erase i } i else s
  | .runLost a l =>
    if (a, l) ∈ s.pendLost then
      -- handleLinkLost(addrStr, lnk):
      --   t.mtx.Lock()
      --   existing := t.links[addrStr]; rel := existing == lnk; if rel { delete(t.links, addrStr) }
      --   t.mtx.Unlock()
      let rel : Bool := s.table.find? (fun e => e.1 = a) = some (a, l)
      let tbl := if rel then s.table.filter (fun e => e.1 ≠ a) else s.table
      -- if t.handler != nil { t.handler.HandleLinkLost(lnk) }       (before the fix: `&& rel`)
      let pcl := if always || rel then l :: s.pendCtrlLost else s.pendCtrlLost
      { s with pendLost := s.pendLost.erase (a, l), table := tbl, pendCtrlLost := pcl }
    else s
  | .runCtrlLost l =>
    -- transportHandler.HandleLinkLost(lnk): h.c.bcast.HoldLockMaybeAsync(...)  = `Links.step _ (.lost l)`
    if l ∈ s.pendCtrlLost then
      ctrlStep
        { s with pendCtrlLost := s.pendCtrlLost.erase l, lostSeen := l.id :: s.lostSeen }
        (.lost l)
    else s

/-- The code as it is. -/
def step (U : Nat → Nat → Nat) (s : State) (op : Op) : State := stepWith U true s op

def runWith (U : Nat → Nat → Nat) (always : Bool) (ops : List Op) : State :=
  ops.foldl (stepWith U always) {}

def run (U : Nat → Nat → Nat) (ops : List Op) : State := ops.foldl (step U) {}

/-- No goroutine is pending. -/
def quiescent (s : State) : Bool :=
  s.pendEst.isEmpty && s.pendClose.isEmpty && s.pendLost.isEmpty && s.pendCtrlLost.isEmpty

/-- Is the op an enabled transition (a goroutine that was really started / a link that exists)?
Used by the driver to validate traces of the real code; `step` ignores ops that are not. -/
def enabled (s : State) : Op → Bool
  | .start _ => !s.ctrl.running
  | .shutdown => true
  | .session _ _ => true
  | .runEst l => decide (l ∈ s.pendEst)
  | .close i => decide (i < s.created.length)
  | .runClose i => decide (i ∈ s.pendClose)
  | .runLost a l => decide ((a, l) ∈ s.pendLost)
  | .runCtrlLost l => decide (l ∈ s.pendCtrlLost)

/-- The link currently registered for an address (`LookupLinkWithAddr`). -/
def lookupAddr (s : State) (a : Nat) : Option Link :=
  (s.table.find? (fun e => e.1 = a)).map (·.2)

/-- The links the system reports for peer `p` (`Controller.GetPeerLinks`). -/
def reported (s : State) (p : Nat) : List Link := Links.getPeerLinks s.ctrl p

end QuicTable
end Bifrost
