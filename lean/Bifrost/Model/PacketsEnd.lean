import Bifrost.Model.Packets
/-!
Receive side of the packet framing (`rwc.PacketConn.rxPump`, `stream_packet.Session.RecvMsg`)
on readers that may hand out their final bytes together with the error (`n > 0, io.EOF`), and
`Session.RecvMsg` at the level of single calls (what a caller gets who calls again after an error).
Core Lean only.
-/
namespace Bifrost
namespace Packets
open Framing (Reader)

/-- `io.ReadFull(r, buf)` (= `io.ReadAtLeast(r, buf, len(buf))`) with `len(buf) = n`, `acc` = bytes
read so far, on a reader that ends as `lastWithErr` says:
`for n < min && err == nil { nn, err = r.Read(buf[n:]); n += nn }; if n >= min { err = nil } else if
n > 0 && err == io.EOF { err = io.ErrUnexpectedEOF }`. -/
def readFullE : Reader → Bool → Nat → Bytes → FullRes
  | [], _, n, acc => if n = 0 then .ok acc [] else if acc.isEmpty then .eof else .unexpectedEof
  | ch :: rest, lastWithErr, n, acc =>
    if n = 0 then .ok acc (ch :: rest)
    else if ch.length ≤ n then
      if rest.isEmpty && lastWithErr then
        -- the Read returned the final bytes AND the error: counted first, then the loop ends
        if ch.length = n then .ok (acc ++ ch) []
        else if (acc ++ ch).isEmpty then .eof else .unexpectedEof
      else readFullE rest lastWithErr (n - ch.length) (acc ++ ch)
    else .ok (acc ++ ch.take n) (ch.drop n :: rest)

/-- `PacketConn.rxPump` on such a reader. -/
def rxPumpE (max : Nat) (lastWithErr : Bool) : Nat → Reader → List Bytes × End
  | 0, _ => ([], .fuel)
  | fuel + 1, r =>
    match readFullE r lastWithErr 4 [] with
    | .eof => ([], .eof)
    | .unexpectedEof => ([], .unexpectedEof)
    | .ok h r1 =>
      let n := unle32 h
      if n = 0 then ([], .zeroLen)
      else if n > max then ([], .tooLarge)
      else match readFullE r1 lastWithErr n [] with
        | .eof => ([], .eof)
        | .unexpectedEof => ([], .unexpectedEof)
        | .ok p r2 =>
          let res := rxPumpE max lastWithErr fuel r2
          (p :: res.1, res.2)

/-- Repeated `Session.RecvMsg` until the first error, on such a reader (`fuel` = number of calls). -/
def recvMsgsE (max : Nat) (lastWithErr : Bool) : Nat → Reader → List Bytes × End
  | 0, _ => ([], .fuel)
  | fuel + 1, r =>
    match readFullE r lastWithErr 4 [] with
    | .eof => ([], .eof)
    | .unexpectedEof => ([], .unexpectedEof)
    | .ok h r1 =>
      let n := unle32 h
      if n = 0 then
        let res := recvMsgsE max lastWithErr fuel r1
        ([] :: res.1, res.2)
      else if n > max then ([], .tooLarge)
      else match readFullE r1 lastWithErr n [] with
        | .eof => ([], .eof)
        | .unexpectedEof => ([], .unexpectedEof)
        | .ok p r2 =>
          let res := recvMsgsE max lastWithErr fuel r2
          (p :: res.1, res.2)

/-! ### `Session.RecvMsg`, one call at a time -/

/-- The receive side of a `Session`: the underlying stream and `recvErr != nil`. -/
structure Sess where
  r : Reader
  lastWithErr : Bool
  dead : Bool := false     -- s.recvErr != nil: an over-limit prefix was seen
deriving Repr, DecidableEq

/-- What one `RecvMsg(msg)` call returns. `msg m`: nil error, the message object was given exactly
`m` (`msg.Reset()` for the empty message, `msg.UnmarshalVT(m)` otherwise). -/
inductive RecvRes where
  | msg (m : Bytes)
  | eof            -- io.EOF
  | unexpectedEof  -- io.ErrUnexpectedEOF
  | tooLarge       -- "invalid message len"
deriving Repr, DecidableEq

def RecvRes.isErr : RecvRes → Bool
  | .msg _ => false
  | _ => true

def RecvRes.msg? : RecvRes → Option Bytes
  | .msg m => some m
  | _ => none

/-- One `Session.RecvMsg` call. A reader that reported its end keeps reporting it (`r := []`). -/
def recvMsg (max : Nat) (s : Sess) : RecvRes × Sess :=
  -- if s.recvErr != nil { return s.recvErr }
  if s.dead then (.tooLarge, s) else
  match readFullE s.r s.lastWithErr 4 [] with
  | .eof => (.eof, { s with r := [] })
  | .unexpectedEof => (.unexpectedEof, { s with r := [] })
  | .ok h r1 =>
    let n := unle32 h
    if n = 0 then (.msg [], { s with r := r1 })               -- msg.Reset(); return nil
    else if n > max then (.tooLarge, { s with r := r1, dead := true })
    else match readFullE r1 s.lastWithErr n [] with
      | .eof => (.eof, { s with r := [] })
      | .unexpectedEof => (.unexpectedEof, { s with r := [] })
      | .ok p r2 => (.msg p, { s with r := r2 })              -- return msg.UnmarshalVT(data)

/-- The results of `k` successive `RecvMsg` calls (the caller calls again whatever it was told). -/
def recvCalls (max : Nat) : Nat → Sess → List RecvRes
  | 0, _ => []
  | k + 1, s => (recvMsg max s).1 :: recvCalls max k (recvMsg max s).2

end Packets
end Bifrost
