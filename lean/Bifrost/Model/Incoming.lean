import Bifrost.Model.Framing
import Bifrost.Gen.Directives
/-!
Incoming-stream dispatch and the opener side of a mounted stream
(`transport/controller/controller.go: Controller.HandleIncomingStream`,
`mounted-link.go: newMountedLink / OpenMountedStream`, `mounted-stream.go: newMountedStream`
and its getters, `link/handle-mounted-stream.go: NewHandleMountedStream`).

Built ON TOP of the header-reader model: the header is read and the protocol ID validated by
`Framing.readHeader` (= `readStreamEstablishHeader` followed by `protocol.ID.Validate`), the
opener writes `Framing.marshalHeader`. Peer IDs and protocol IDs are byte strings (Go `string`).
The directive issued on the bus is the structure REGENERATED from
`link/handle-mounted-stream.go` (`Gen.Directives.HandleMountedStream`: its three fields and the
comparisons of `IsEquivalent`), so a directive that gained, lost or stopped comparing a field
changes the statements about it.

What the environment decides is a parameter: the answer of the controller bus to the
`HandleMountedStream` lookup (`Lookup`), and on the opener side whether `link.OpenStream` and
`stream.Write` succeed (`OpenEnv`). Core Lean only.
-/
namespace Bifrost
namespace Incoming
open Framing

abbrev PeerID := Bytes

/-- The `HandleMountedStream` directive (regenerated structure: protocolID, localPeerID, remotePeerID). -/
abbrev Directive := Gen.Directives.HandleMountedStream

/-- The getters of a `link.Link` that the controller uses. -/
structure Link where
  localPeer : PeerID     -- GetLocalPeer()
  remotePeer : PeerID    -- GetRemotePeer()
  uuid : Nat             -- GetUUID()
deriving Repr, DecidableEq

/-- `mountedLink{c, tpt, link}`: every peer/uuid getter delegates to the wrapped link. -/
structure MountedLink where
  link : Link
deriving Repr, DecidableEq

/-- `newMountedLink(c, tpt, lnk)`. -/
def newMountedLink (lnk : Link) : MountedLink := { link := lnk }

def MountedLink.getLocalPeer (m : MountedLink) : PeerID := m.link.localPeer
def MountedLink.getRemotePeer (m : MountedLink) : PeerID := m.link.remotePeer
def MountedLink.getLinkUUID (m : MountedLink) : Nat := m.link.uuid

/-- The `stream.Stream` object as the controller drives it: the chunks not yet read, whether a
non-zero deadline is armed, and whether `Close()` was called. -/
structure Stream where
  reader : Reader
  deadlineArmed : Bool := false
  closed : Bool := false
deriving Repr, DecidableEq

/-- `mountedStream{strm, strmOpenOpts, protocolID, linkPeer, link}`. -/
structure MountedStream where
  strm : Stream
  protocolID : Bytes
  linkPeer : PeerID
  link : MountedLink
deriving Repr, DecidableEq

/-- `newMountedStream(strm, opts, protocolID, link)`: `linkPeer: link.GetRemotePeer()`. -/
def newMountedStream (strm : Stream) (protocolID : Bytes) (link : MountedLink) : MountedStream :=
  { strm := strm, protocolID := protocolID, link := link, linkPeer := link.getRemotePeer }

def MountedStream.getStream (m : MountedStream) : Stream := m.strm
def MountedStream.getProtocolID (m : MountedStream) : Bytes := m.protocolID
def MountedStream.getPeerID (m : MountedStream) : PeerID := m.linkPeer
def MountedStream.getLink (m : MountedStream) : MountedLink := m.link

/-- `link.NewHandleMountedStream(protocolID, localPeerID, remotePeerID)`. -/
def newHandleMountedStream (protocolID : Bytes) (localPeerID remotePeerID : PeerID) : Directive :=
  { protocolID := protocolID, localPeerID := localPeerID, remotePeerID := remotePeerID }

/-- The environment's answer to `bus.ExecOneOff(handleMsCtx, c.bus, dir, nil, nil)` and what
the value it yields does. -/
inductive Lookup where
  | noHandler     -- nobody resolves the directive: ExecOneOff waits until the link context ends → error
  | deadline      -- a resolver exists but yields nothing before `handleDeadline` → error
  | resolverErr   -- a resolver returned an error → ExecOneOff returns it
  | wrongType     -- a value that is not a `link.MountedStreamHandler`
  | accepts       -- a handler whose HandleMountedStream returns nil
  | handlerErr    -- a handler whose HandleMountedStream returns an error
deriving Repr, DecidableEq

/-- What a party holding a mounted stream observes through its getters. -/
structure Facts where
  pid : Bytes            -- ms.GetProtocolID()
  streamPeer : PeerID    -- ms.GetPeerID()
  linkLocal : PeerID     -- ms.GetLink().GetLocalPeer()
  linkRemote : PeerID    -- ms.GetLink().GetRemotePeer()
  linkUUID : Nat         -- ms.GetLink().GetLinkUUID()
  unread : Bytes         -- the bytes still readable from ms.GetStream()
  deadlineArmed : Bool   -- a non-zero deadline is still armed on ms.GetStream()
deriving Repr, DecidableEq

def MountedStream.facts (m : MountedStream) : Facts :=
  { pid := m.getProtocolID
    streamPeer := m.getPeerID
    linkLocal := m.getLink.getLocalPeer
    linkRemote := m.getLink.getRemotePeer
    linkUUID := m.getLink.getLinkUUID
    unread := m.getStream.reader.flatten
    deadlineArmed := m.getStream.deadlineArmed }

structure Outcome where
  dispatched : Option Directive   -- the directive issued on the bus, if any
  delivered : Option Facts        -- what the handler was handed, if it was handed anything
  closed : Bool                   -- strm.Close() was called
deriving Repr, DecidableEq

/-- `Controller.HandleIncomingStream(rctx, tpt, lnk, strm, strmOpts)`.
(The `EstablishLinkWithPeer` reference held during the exchange and the log lines have no
effect on the outcome and are not modelled.) -/
def handleIncomingStream (maxSize : Nat) (lnk : Link) (r : Reader) (env : Lookup) : Outcome :=
  -- _ = strm.SetReadDeadline(readDeadline)
  let s0 : Stream := { reader := r, deadlineArmed := true }
  -- streamEst, err := readStreamEstablishHeader(strm) … pid.Validate()
  -- (Go clears the deadline between the two; both failures end in strm.Close(); return)
  match readHeader maxSize s0.reader with
  | .error _ =>
    { dispatched := none, delivered := none, closed := true }
  | .ok (pid, rest, _) =>
    -- _ = strm.SetDeadline(time.Time{})
    let s1 : Stream := { s0 with reader := rest, deadlineArmed := false }
    -- mlnk := newMountedLink(c, c.tpt, lnk); mstrm := newMountedStream(strm, strmOpts, pid, mlnk)
    let mlnk := newMountedLink lnk
    let mstrm := newMountedStream s1 pid mlnk
    -- dir := link.NewHandleMountedStream(pid, lnk.GetLocalPeer(), mstrm.GetPeerID())
    let dir := newHandleMountedStream pid lnk.localPeer mstrm.getPeerID
    -- dval, _, dref, err := bus.ExecOneOff(handleMsCtx, c.bus, dir, nil, nil)
    match env with
    | .noHandler | .deadline | .resolverErr =>
      -- err != nil: strm.Close(); return
      { dispatched := some dir, delivered := none, closed := true }
    | .wrongType =>
      -- dval.GetValue().(link.MountedStreamHandler) fails: strm.Close(); return
      { dispatched := some dir, delivered := none, closed := true }
    | .handlerErr =>
      -- mhnd.HandleMountedStream(rctx, mstrm) returned an error: strm.Close(); return
      { dispatched := some dir, delivered := some mstrm.facts, closed := true }
    | .accepts =>
      -- stream is now handled by the handler.
      { dispatched := some dir, delivered := some mstrm.facts, closed := false }

/-! ### Opener side -/

/-- How `strm.Write(p)` behaves. -/
inductive WriteRes where
  | full               -- (len(p), nil)
  | fail (n : Nat)     -- (min n len(p), err): the first bytes may have left before the error
  | short (n : Nat)    -- (min n len(p), nil): a writer that breaks the io.Writer contract
deriving Repr, DecidableEq

/-- The environment of `OpenMountedStream`. -/
inductive OpenEnv where
  | openErr                 -- l.link.OpenStream(opts) failed
  | opened (w : WriteRes)
deriving Repr, DecidableEq

structure OpenOutcome where
  opened : Bool             -- a stream was opened on the link
  written : Bytes           -- the bytes that reached the stream
  mounted : Option Facts    -- the mounted stream returned to the caller (`unread` = nothing received yet)
  closed : Bool             -- strm.Close() was called
deriving Repr, DecidableEq

/-- `mountedLink.OpenMountedStream(ctx, protocolID, opts)`. -/
def openMountedStream (l : MountedLink) (protocolID : Bytes) (env : OpenEnv) : OpenOutcome :=
  -- estMsg := NewStreamEstablish(protocolID); strm, err := l.link.OpenStream(opts)
  match env with
  | .openErr => { opened := false, written := [], mounted := none, closed := false }
  | .opened w =>
    -- _ = strm.SetWriteDeadline(…); writeStreamEstablishHeader(strm, estMsg) = strm.Write(marshal…)
    let hdr := marshalHeader protocolID
    match w with
    | .fail n =>
      -- err != nil: _ = strm.Close(); return nil, err
      { opened := true, written := hdr.take n, mounted := none, closed := true }
    | .full =>
      -- _ = strm.SetDeadline(time.Time{}); return newMountedStream(strm, opts, protocolID, l), nil
      let s : Stream := { reader := [], deadlineArmed := false }
      { opened := true, written := hdr, mounted := some (newMountedStream s protocolID l).facts, closed := false }
    | .short n =>
      -- the byte count returned by Write is ignored: only `err` is looked at
      let s : Stream := { reader := [], deadlineArmed := false }
      { opened := true, written := hdr.take n, mounted := some (newMountedStream s protocolID l).facts, closed := false }

end Incoming
end Bifrost

/-! ### Streams that deliver their final bytes together with the end of the stream -/
namespace Bifrost
namespace Incoming
open Framing

/-- `Controller.HandleIncomingStream` on a stream whose `Read` ends as `lastWithErr` says
(`Framing.readHeaderE`): the header is read by the same code, everything after it is the same. -/
def handleIncomingStreamE (maxSize : Nat) (lnk : Link) (r : Reader) (lastWithErr : Bool)
    (env : Lookup) : Outcome :=
  match readHeaderE maxSize r lastWithErr with
  | .error _ =>
    { dispatched := none, delivered := none, closed := true }
  | .ok (pid, rest, _) =>
    let s1 : Stream := { reader := rest, deadlineArmed := false }
    let mlnk := newMountedLink lnk
    let mstrm := newMountedStream s1 pid mlnk
    let dir := newHandleMountedStream pid lnk.localPeer mstrm.getPeerID
    match env with
    | .noHandler | .deadline | .resolverErr | .wrongType =>
      { dispatched := some dir, delivered := none, closed := true }
    | .handlerErr =>
      { dispatched := some dir, delivered := some mstrm.facts, closed := true }
    | .accepts =>
      { dispatched := some dir, delivered := some mstrm.facts, closed := false }

end Incoming
end Bifrost
