/-!
The signaling relay server as a labelled transition system:
`signaling/rpc/server/{server,peer,listen,session}.go` (code as fixed by the four
"fix: signaling …" commits).

One model step = one critical section under `Server.mtx` (events `init`, `send`, `ack`,
`clear`, `loop`, `end` of a Session call; `lreg`, `lloop`, `lusurped`, `lend` of a Listen
call) or one `strm.Send` (`tx`). Go pointers are modelled by heap identities: trackers can
outlive their map entry (a call keeps the pointer it obtained at registration).

Wait channels: `getWaitCh` returns the channel of the tracker's current generation `gen`;
`broadcast` closes it, i.e. `gen := gen + 1`. A call holding generation `g` is awake iff `g < gen`.
Core Lean only.
-/
namespace Bifrost
namespace Sig

structure Msg where
  seqno : Nat        -- the sender's message sequence number (SessionMsg.Seqno)
  mid : Nat          -- identity of the message (ghost: which submission it is)
deriving Repr, DecidableEq

/-- `sessionPeerTracker` -/
structure Att where
  call : Nat
  recv : Option Msg := none
  recvSent : Option Nat := none
  recvClear : Option Nat := none
  outAcked : Option Nat := none
deriving Repr, DecidableEq

/-- `sessionTracker` (heap object `sid`); `a < b` are the peers of the key. -/
structure Sess where
  sid : Nat
  a : Nat
  b : Nat
  seqno : Nat := 0
  attA : Option Att := none
  attB : Option Att := none
  gen : Nat := 0
deriving Repr, DecidableEq

/-- `serverPeerTracker` (heap object `tid`). -/
structure Tkr where
  tid : Nat
  pid : Nat
  listening : Bool := false
  nonce : Nat := 0
  wants : List Nat := []
  gen : Nat := 0
deriving Repr, DecidableEq

inductive Resp where
  | opened (epoch : Nat)
  | closed
  | ack (k : Nat)
  | clear (k : Nat)
  | recv (m : Msg)
  | setPeer (p : Nat)
  | clearPeer (p : Nat)
deriving Repr, DecidableEq

/-- A `Session` RPC call. -/
structure SCall where
  id : Nat
  src : Nat
  dst : Nat
  sess : Nat                       -- sid of the tracker obtained at registration
  dstTkr : Nat                     -- tid of the destination peer tracker obtained at registration
  waitGen : Nat                    -- generation of the wait channel held by the write loop
  announced : Option Nat := none   -- prevSentOpenToLocal (none = nil)
  outbox : List Resp := []         -- responses decided by the last loop step, not yet sent
  readerDone : Bool := false       -- the read goroutine stopped with an error (protocol violation)
  failing : Bool := false          -- the handler is returning (usurped)
  ended : Bool := false
deriving Repr, DecidableEq

/-- A `Listen` RPC call. -/
structure LCall where
  id : Nat
  pid : Nat
  tkr : Nat                        -- tid obtained at registration
  myNonce : Nat
  sentWant : List Nat := []
  waitGen : Nat := 0
  runnable : Bool := true          -- loop may run without waiting (start, or after transmitting)
  outbox : List Resp := []
  failing : Bool := false
  ended : Bool := false
deriving Repr, DecidableEq

structure State where
  tkrs : List Tkr := []                      -- heap
  peerMap : List (Nat × Nat) := []           -- pid ↦ tid   (`Server.peers`)
  sesss : List Sess := []                    -- heap
  sessMap : List ((Nat × Nat) × Nat) := []   -- key ↦ sid   (`Server.sessions`)
  scalls : List SCall := []
  lcalls : List LCall := []
  next : Nat := 1                            -- fresh heap identities
  /-- ghost: every submission that was verified, admitted and stored for the partner:
  `(sid, epoch, fromCall, msg, verifyOk, signer)` -/
  accepted : List (Nat × Nat × Nat × Msg × Bool × Nat) := []
deriving Repr

/-! ### small map helpers -/

def insertSorted (x : Nat) : List Nat → List Nat
  | [] => [x]
  | y :: ys => if x < y then x :: y :: ys else if x = y then y :: ys else y :: insertSorted x ys

def getTkr (s : State) (tid : Nat) : Option Tkr := s.tkrs.find? (·.tid = tid)
def setTkr (s : State) (t : Tkr) : State := { s with tkrs := s.tkrs.map fun x => if x.tid = t.tid then t else x }
def getSess (s : State) (sid : Nat) : Option Sess := s.sesss.find? (·.sid = sid)
def setSess (s : State) (t : Sess) : State := { s with sesss := s.sesss.map fun x => if x.sid = t.sid then t else x }
def getSCall (s : State) (c : Nat) : Option SCall := s.scalls.find? (·.id = c)
def setSCall (s : State) (t : SCall) : State := { s with scalls := s.scalls.map fun x => if x.id = t.id then t else x }
def getLCall (s : State) (c : Nat) : Option LCall := s.lcalls.find? (·.id = c)
def setLCall (s : State) (t : LCall) : State := { s with lcalls := s.lcalls.map fun x => if x.id = t.id then t else x }

def lookupPeer (s : State) (pid : Nat) : Option Nat := (s.peerMap.find? (·.1 = pid)).map (·.2)
def lookupSess (s : State) (k : Nat × Nat) : Option Nat := (s.sessMap.find? (·.1 = k)).map (·.2)

def Tkr.bcast (t : Tkr) : Tkr := { t with gen := t.gen + 1 }
def Sess.bcast (t : Sess) : Sess := { t with gen := t.gen + 1 }

/-- `getPeer`: get or create the tracker of `pid`: `(state, tracker, existed)`. -/
def getPeer (s : State) (pid : Nat) : State × Tkr × Bool :=
  match lookupPeer s pid with
  | some tid =>
    match getTkr s tid with
    | some t => (s, t, true)
    | none => (s, { tid := tid, pid := pid }, true) -- unreachable (map entries point into the heap)
  | none =>
    let t : Tkr := { tid := s.next, pid := pid }
    ({ s with tkrs := s.tkrs ++ [t], peerMap := s.peerMap ++ [(pid, t.tid)], next := s.next + 1 }, t, false)

/-- `maybeReleasePeer(pid)`. -/
def maybeReleasePeer (s : State) (pid : Nat) : State :=
  match lookupPeer s pid with
  | none => s
  | some tid =>
    match getTkr s tid with
    | none => s
    | some t =>
      if t.listening ∨ t.wants ≠ [] then s
      else setTkr { s with peerMap := s.peerMap.filter (·.1 ≠ pid) } t.bcast

def sessKey (p1 p2 : Nat) : (Nat × Nat) × Bool := if p1 < p2 then ((p1, p2), true) else ((p2, p1), false)

def getSession (s : State) (k : Nat × Nat) : State × Sess :=
  match lookupSess s k with
  | some sid =>
    match getSess s sid with
    | some t => (s, t)
    | none => (s, { sid := sid, a := k.1, b := k.2 })
  | none =>
    let t : Sess := { sid := s.next, a := k.1, b := k.2 }
    ({ s with sesss := s.sesss ++ [t], sessMap := s.sessMap ++ [(k, t.sid)], next := s.next + 1 }, t)

/-- `maybeReleaseSession(key)`. -/
def maybeReleaseSession (s : State) (k : Nat × Nat) : State :=
  match lookupSess s k with
  | none => s
  | some sid =>
    match getSess s sid with
    | none => s
    | some t =>
      if t.attA.isSome ∨ t.attB.isSome then s
      else setSess { s with sessMap := s.sessMap.filter (·.1 ≠ k) } t.bcast

/-- `getCurrPeers(srcIsPeerA)` -/
def Sess.sides (t : Sess) (isA : Bool) : Option Att × Option Att := if isA then (t.attA, t.attB) else (t.attB, t.attA)
def Sess.setSides (t : Sess) (isA : Bool) (ours other : Option Att) : Sess :=
  if isA then { t with attA := ours, attB := other } else { t with attB := ours, attA := other }

def SCall.isA (c : SCall) : Bool := (sessKey c.src c.dst).2

/-! ### Session steps -/

/-- Registration critical section of `Session` (after a valid `Init` for `dst ≠ src`). -/
def sInit (s : State) (call src dst : Nat) : State :=
  -- want registration
  let (s1, dt, _) := getPeer s dst
  let s2 := if src ∈ dt.wants then s1 else setTkr s1 ({ dt with wants := insertSorted src dt.wants }).bcast
  -- session registration
  let (k, isA) := sessKey src dst
  let (s3, t) := getSession s2 k
  let (_, other) := t.sides isA
  let other' := other.map fun o => { o with recv := none, recvSent := none }
  let t1 := (t.setSides isA (some { call := call }) other')
  let t2 := { t1 with seqno := t1.seqno + 1 }
  let waitGen := t2.gen            -- getWaitCh, then broadcast
  let t3 := t2.bcast
  let s4 := setSess s3 t3
  { s4 with scalls := s4.scalls ++ [{ id := call, src := src, dst := dst, sess := t.sid, dstTkr := dt.tid, waitGen := waitGen }] }

/-- Is `call` still the attachment on its side of its session, and is the partner attached? -/
def activePair (t : Sess) (c : SCall) : Option (Att × Att) :=
  match t.sides c.isA with
  | (some ours, some other) => if ours.call = c.id then some (ours, other) else none
  | _ => none

/-- The decision `handleSendMsg` takes before its critical section: the signature must verify
(`verifyOk`: `SessionMsg.ExtractAndVerify`, C01) and the signer must be the authenticated
identity of the submitting stream. -/
def admitOk (verifyOk : Bool) (signer src : Nat) : Bool := verifyOk && signer = src

/-- `handleSendMsg`: admission check, then the critical section. -/
def sSend (s : State) (call epoch : Nat) (m : Msg) (verifyOk : Bool) (signer : Nat) : State :=
  match getSCall s call with
  | none => s
  | some c =>
    if !admitOk verifyOk signer c.src then setSCall s { c with readerDone := true } else
    match getSess s c.sess with
    | none => s
    | some t =>
      if t.seqno < epoch then setSCall s { c with readerDone := true }
      else if t.seqno ≠ epoch then s
      else match activePair t c with
        | none => s
        | some (ours, other) =>
          let other' := { other with recv := some m, recvSent := none }
          let s1 := setSess s (t.setSides c.isA (some ours) (some other')).bcast
          { s1 with accepted := (t.sid, epoch, call, m, verifyOk, signer) :: s1.accepted }

/-- `handleAckMsg` critical section. -/
def sAck (s : State) (call epoch k : Nat) : State :=
  match getSCall s call with
  | none => s
  | some c =>
    match getSess s c.sess with
    | none => s
    | some t =>
      if t.seqno < epoch then setSCall s { c with readerDone := true }
      else if t.seqno ≠ epoch then s
      else match activePair t c with
        | none => s
        | some (ours, other) =>
          if ours.recvSent = some k then
            setSess s (t.setSides c.isA (some { ours with recvSent := none }) (some { other with outAcked := some k })).bcast
          else s

/-- `handleClearMsg` critical section (note: no broadcast). -/
def sClear (s : State) (call epoch k : Nat) : State :=
  match getSCall s call with
  | none => s
  | some c =>
    match getSess s c.sess with
    | none => s
    | some t =>
      if t.seqno < epoch then setSCall s { c with readerDone := true }
      else if t.seqno ≠ epoch then s
      else match activePair t c with
        | none => s
        | some (ours, other) =>
          if (other.recv.map (·.seqno)) = some k then
            setSess s (t.setSides c.isA (some ours) (some { other with recv := none }))
          else if other.recvSent = some k then
            setSess s (t.setSides c.isA (some ours) (some { other with recvSent := none, recvClear := some k }))
          else s

def SCall.awake (c : SCall) (t : Sess) : Bool := c.waitGen < t.gen

/-- One iteration of the write loop's critical section, and the responses it decides to send. -/
def sLoop (s : State) (call : Nat) : State :=
  match getSCall s call with
  | none => s
  | some c =>
    match getSess s c.sess with
    | none => s
    | some t =>
      let (oursO, otherO) := t.sides c.isA
      let usurped : Bool := match oursO with
        | some o => o.call != call
        | none => true
      let cur : Option Nat := if otherO.isSome then some t.seqno else none
      let c1 := { c with waitGen := t.gen }
      if usurped then setSCall s { c1 with failing := true }
      else match oursO with
        | none => s
        | some ours =>
          if cur.isNone then
            -- not open: only a possible Closed announcement
            let out := if c1.announced ≠ none then [Resp.closed] else []
            setSCall s { c1 with announced := none, outbox := c1.outbox ++ out }
          else
            let newSent : Option Nat := match ours.recv with
              | some m => some m.seqno
              | none => ours.recvSent
            let ours' : Att := { ours with recv := none, recvClear := none, outAcked := none, recvSent := newSent }
            let t' := t.setSides c.isA (some ours') otherO
            let t'' := if ours.recv.isSome then t'.bcast else t'
            let ann := if c1.announced ≠ cur then [Resp.opened t.seqno] else []
            let out := ann
              ++ (match ours.outAcked with | some k => [Resp.ack k] | none => [])
              ++ (match ours.recvClear with | some k => [Resp.clear k] | none => [])
              ++ (match ours.recv with | some m => [Resp.recv m] | none => [])
            setSCall (setSess s t'') { c1 with announced := cur, outbox := c1.outbox ++ out }

/-- The deferred cleanup of `Session`. -/
def sEnd (s : State) (call : Nat) : State :=
  match getSCall s call with
  | none => s
  | some c =>
    let s0 := setSCall s { c with ended := true, failing := true, outbox := [] }
    match getSess s0 c.sess with
    | none => s0
    | some t =>
      let (oursO, otherO) := t.sides c.isA
      match oursO with
      | some ours =>
        if ours.call ≠ call then s0 else
        let other' := otherO.map fun o => { o with recv := none, recvSent := none }
        let t1 := t.setSides c.isA none other'
        let t2 := ({ t1 with seqno := t1.seqno + 1 }).bcast
        let s1 := setSess s0 t2
        let s2 := maybeReleaseSession s1 (sessKey c.src c.dst).1
        -- delete(dstPeer.wantPeers, src); dstPeer.broadcast()
        let s3 := match getTkr s2 c.dstTkr with
          | some dt => setTkr s2 ({ dt with wants := dt.wants.filter (· ≠ c.src) }).bcast
          | none => s2
        maybeReleasePeer s3 c.dst
      | none => s0

/-- Popping a transmitted response. `none` if it is not what the call had decided to send. -/
def sTx (s : State) (call : Nat) (r : Resp) : Option State :=
  match getSCall s call with
  | none => none
  | some c =>
    match c.outbox with
    | x :: rest => if x = r then some (setSCall s { c with outbox := rest }) else none
    | [] => none

/-! ### Listen steps -/

def lReg (s : State) (call pid : Nat) : State :=
  let (s1, t, existed) := getPeer s pid
  let t1 := if existed then ({ t with nonce := t.nonce + 1 }).bcast else t
  let t2 := { t1 with listening := true }
  let s2 := setTkr s1 t2
  { s2 with lcalls := s2.lcalls ++ [{ id := call, pid := pid, tkr := t.tid, myNonce := t2.nonce }] }

def LCall.awake (c : LCall) (t : Tkr) : Bool := c.runnable || c.waitGen < t.gen

/-- The listen loop's critical section when it finds itself usurped. -/
def lUsurped (s : State) (call : Nat) : Option State :=
  match getLCall s call with
  | none => none
  | some c =>
    match getTkr s c.tkr with
    | none => none
    | some t => if t.nonce ≠ c.myNonce then some (setLCall s { c with failing := true, runnable := false }) else none

/-- The listen loop's critical section with the (map-iteration dependent) choices it made:
`want`/`notWant` = 0 for "none". `none` if the choice is not one the code could make. -/
def lLoop (s : State) (call want notWant : Nat) : Option State :=
  match getLCall s call with
  | none => none
  | some c =>
    match getTkr s c.tkr with
    | none => none
    | some t =>
      if t.nonce ≠ c.myNonce then none else
      let canWant := t.wants.filter (· ∉ c.sentWant)
      let canNot := c.sentWant.filter (· ∉ t.wants)
      let okWant := if want = 0 then canWant = [] else want ∈ canWant
      let okNot := if notWant = 0 then canNot = [] else notWant ∈ canNot
      if ¬ (okWant ∧ okNot) then none else
      let out := (if notWant = 0 then [] else [Resp.clearPeer notWant]) ++ (if want = 0 then [] else [Resp.setPeer want])
      some (setLCall s { c with waitGen := t.gen, runnable := decide (want ≠ 0 ∨ notWant ≠ 0), outbox := c.outbox ++ out })

def lTx (s : State) (call : Nat) (r : Resp) : Option State :=
  match getLCall s call with
  | none => none
  | some c =>
    match c.outbox with
    | x :: rest =>
      if x ≠ r then none else
      let sw := match r with
        | .setPeer p => insertSorted p c.sentWant
        | .clearPeer p => c.sentWant.filter (· ≠ p)
        | _ => c.sentWant
      some (setLCall s { c with outbox := rest, sentWant := sw })
    | [] => none

def lEnd (s : State) (call : Nat) : State :=
  match getLCall s call with
  | none => s
  | some c =>
    let s0 := setLCall s { c with ended := true, failing := true, outbox := [], runnable := false }
    match lookupPeer s0 c.pid, getTkr s0 c.tkr with
    | some curTid, some t =>
      if curTid = c.tkr ∧ t.nonce = c.myNonce then
        let s1 := setTkr s0 ({ t with nonce := t.nonce + 1, listening := false }).bcast
        maybeReleasePeer s1 c.pid
      else s0
    | _, _ => s0

/-! ### Events (labels) -/

inductive Ev where
  | init (call src dst : Nat)
  | send (call epoch : Nat) (m : Msg) (verifyOk : Bool) (signer : Nat)
  | ack (call epoch k : Nat)
  | clear (call epoch k : Nat)
  | loop (call : Nat)
  | send_ (call : Nat) (r : Resp)            -- a Session call transmits a response
  | end_ (call : Nat)
  | lreg (call pid : Nat)
  | lloop (call want notWant : Nat)
  | lusurped (call : Nat)
  | ltx (call : Nat) (r : Resp)
  | lend (call : Nat)
deriving Repr, DecidableEq

/-- Is the event enabled (a step the code could take) in state `s`? -/
def enabled (s : State) : Ev → Bool
  | .init call src dst => (getSCall s call).isNone && (getLCall s call).isNone && src ≠ dst && src ≠ 0 && dst ≠ 0
  | .send call _ _ _ _ | .ack call _ _ | .clear call _ _ =>
    -- the read goroutine may still process a request that was in flight when the handler returned
    match getSCall s call with
    | some c => !c.readerDone
    | none => false
  | .loop call =>
    match getSCall s call with
    | some c => !c.ended && !c.failing && c.outbox.isEmpty &&
        (match getSess s c.sess with | some t => c.awake t | none => false)
    | none => false
  | .send_ call r => (sTx s call r).isSome
  | .end_ call => match getSCall s call with | some c => !c.ended | none => false
  | .lreg call pid => (getSCall s call).isNone && (getLCall s call).isNone && pid ≠ 0
  | .lloop call w n =>
    match getLCall s call with
    | some c => !c.ended && !c.failing && c.outbox.isEmpty && (lLoop s call w n).isSome &&
        (match getTkr s c.tkr with | some t => c.awake t | none => false)
    | none => false
  | .lusurped call =>
    match getLCall s call with
    | some c => !c.ended && !c.failing && c.outbox.isEmpty && (lUsurped s call).isSome &&
        (match getTkr s c.tkr with | some t => c.awake t | none => false)
    | none => false
  | .ltx call r => (lTx s call r).isSome
  | .lend call => match getLCall s call with | some c => !c.ended | none => false

def step (s : State) : Ev → State
  | .init call src dst => sInit s call src dst
  | .send call e m v g => sSend s call e m v g
  | .ack call e k => sAck s call e k
  | .clear call e k => sClear s call e k
  | .loop call => sLoop s call
  | .send_ call r => (sTx s call r).getD s
  | .end_ call => sEnd s call
  | .lreg call pid => lReg s call pid
  | .lloop call w n => (lLoop s call w n).getD s
  | .lusurped call => (lUsurped s call).getD s
  | .ltx call r => (lTx s call r).getD s
  | .lend call => lEnd s call

/-- Run a trace, checking enabledness: `inl k` = event `k` (0-based) was not enabled. -/
def runChecked : State → Nat → List Ev → Sum Nat State
  | s, _, [] => .inr s
  | s, k, e :: rest => if enabled s e then runChecked (step s e) (k + 1) rest else .inl k

def run (evs : List Ev) : State := evs.foldl step {}

end Sig
end Bifrost

namespace Bifrost
namespace Sig

/-- States reachable by steps the code can take. -/
inductive Reachable : State → Prop
  | init : Reachable {}
  | step {s : State} (e : Ev) : Reachable s → enabled s e = true → Reachable (step s e)

/-! ### Observations used by the property statements (all decidable) -/

def SCall.oursOther (s : State) (c : SCall) : Option Att × Option Att :=
  match getSess s c.sess with
  | some t => t.sides c.isA
  | none => (none, none)

/-- `c` is the attachment registered on its side of its session (not replaced, not detached). -/
def SCall.attached (s : State) (c : SCall) : Bool :=
  match (c.oursOther s).1 with
  | some o => o.call = c.id
  | none => false

/-- What the write loop of `c` would announce now: `some epoch` if the partner is attached. -/
def SCall.cur (s : State) (c : SCall) : Option Nat :=
  match getSess s c.sess with
  | some t => if (t.sides c.isA).2.isSome then some t.seqno else none
  | none => none

def SCall.isAwake (s : State) (c : SCall) : Bool :=
  match getSess s c.sess with
  | some t => c.awake t
  | none => false

def LCall.isAwake (s : State) (l : LCall) : Bool :=
  match getTkr s l.tkr with
  | some t => l.awake t
  | none => false

/-- the listen call has not been replaced by a newer listen call of the same peer -/
def LCall.current (s : State) (l : LCall) : Bool :=
  match getTkr s l.tkr with
  | some t => t.nonce = l.myNonce
  | none => false

/-- peers that currently hold a session request towards `pid` -/
def wanting (s : State) (pid : Nat) (w : Nat) : Bool :=
  s.scalls.any fun c => !c.ended && c.src = w && c.dst = pid && c.attached s

/-- C22 (no lost wake-up): a running, not replaced session call is awake, or still has
responses to transmit, or has announced exactly the current session state and has nothing
relayed pending. -/
def wakeOk (s : State) (c : SCall) : Bool :=
  c.ended || c.failing || c.isAwake s || !c.outbox.isEmpty ||
    (c.attached s && c.announced = c.cur s &&
      (match (c.oursOther s).1 with
       | some o => (c.cur s).isNone || (o.recv.isNone && o.outAcked.isNone)
       | none => false))

/-- C20/C22: a stored or about-to-be-transmitted message was accepted from the partner's
stream, verified and signed by that stream's identity, in the epoch it will be delivered in. -/
def acceptedFor (s : State) (sid epoch : Nat) (receiver : SCall) (m : Msg) : Bool :=
  s.accepted.any fun (sid', e, from_, m', v, g) =>
    sid' = sid && e = epoch && m' = m && v && from_ ≠ receiver.id &&
      (match getSCall s from_ with
       | some cf => g = cf.src && cf.sess = sid && cf.src = receiver.dst && cf.dst = receiver.src
       | none => false)

def forwardOk (s : State) (c : SCall) : Bool :=
  c.outbox.all fun r =>
    match r with
    | .recv m => (match c.announced with | some e => acceptedFor s c.sess e c m | none => false)
    | _ => true

def storedOk (s : State) (c : SCall) : Bool :=
  match getSess s c.sess, (c.oursOther s).1 with
  | some t, some o =>
    if o.call = c.id then (match o.recv with | some m => acceptedFor s t.sid t.seqno c m | none => true) else true
  | _, _ => true

/-- C24: a current listener holds the peer's current tracker, which is marked listening. -/
def listenerOk (s : State) (l : LCall) : Bool :=
  l.ended || l.failing || !l.current s ||
    (lookupPeer s l.pid = some l.tkr && (match getTkr s l.tkr with | some t => t.listening | none => false))

/-- C24: the wants of the current tracker of every peer are exactly the peers holding a
session request towards it. -/
def wantsOk (s : State) : Bool :=
  s.peerMap.all fun (pid, tid) =>
    match getTkr s tid with
    | some t => t.wants.all (fun w => wanting s pid w) &&
        s.scalls.all (fun c => !( !c.ended && c.dst = pid && c.attached s) || t.wants.contains c.src)
    | none => false

/-- C24: a current listener that is not awake and has nothing left to transmit has announced
exactly the wanted set. -/
def listenQuiescentOk (s : State) (l : LCall) : Bool :=
  l.ended || l.failing || !l.current s || l.isAwake s || !l.outbox.isEmpty ||
    (match getTkr s l.tkr with
     | some t => l.sentWant.all (fun w => t.wants.contains w) && t.wants.all (fun w => l.sentWant.contains w)
     | none => false)

/-- C25: at most one current listen call per peer and one attached session call per ordered pair. -/
def uniqueOk (s : State) : Bool :=
  s.lcalls.all (fun l => s.lcalls.all fun l' =>
    !( !l.ended && !l'.ended && l.current s && l'.current s && l.pid = l'.pid && l.tkr = l'.tkr) || l.id = l'.id) &&
  s.scalls.all (fun c => s.scalls.all fun c' =>
    !( !c.ended && !c'.ended && c.attached s && c'.attached s && c.src = c'.src && c.dst = c'.dst) || c.id = c'.id)

/-- C25: a replaced (no longer attached / no longer current) running call is awake, so it
will observe the replacement and return the replaced error. -/
def replacedOk (s : State) : Bool :=
  s.scalls.all (fun c => c.ended || c.failing || c.attached s || c.isAwake s || !c.outbox.isEmpty) &&
  s.lcalls.all (fun l => l.ended || l.failing || l.current s || l.isAwake s || !l.outbox.isEmpty)

/-- C25: no leftover state once every call has ended. -/
def drainedOk (s : State) : Bool :=
  !(s.scalls.all (·.ended) && s.lcalls.all (·.ended)) || (s.peerMap.isEmpty && s.sessMap.isEmpty)

/-- All of the above, for runtime monitoring of real traces. First violated name, or "". -/
def checkAll (s : State) : String :=
  if !(s.scalls.all (wakeOk s)) then "wakeOk"
  else if !(s.scalls.all (forwardOk s)) then "forwardOk"
  else if !(s.scalls.all (storedOk s)) then "storedOk"
  else if !(s.lcalls.all (listenerOk s)) then "listenerOk"
  else if !(wantsOk s) then "wantsOk"
  else if !(s.lcalls.all (listenQuiescentOk s)) then "listenQuiescentOk"
  else if !(uniqueOk s) then "uniqueOk"
  else if !(replacedOk s) then "replacedOk"
  else if !(drainedOk s) then "drainedOk"
  else ""

end Sig
end Bifrost
