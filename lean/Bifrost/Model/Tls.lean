import Bifrost.Model.Codec
/-!
TLS identity binding: `crypto/tls/tls.go` (`PubKeyFromCertChain`, the `VerifyPeerCertificate`
closure of `Identity.ConfigForPeer`, `GenerateSignedExtension`), `crypto/tls/extension.go`
(`extensionIDEqual`), `transport/common/quic/session.go` (`DetermineSessionIdentity`) and
`transport/common/quic/link.go` (`NewLink`: the link's remote peer).

A certificate is abstracted to exactly what the code looks at. What Go's `crypto/x509` and
`encoding/asn1` compute is handed to the model as *features* / oracles:
* `verifyRest`  – everything `cert.Verify(VerifyOptions{Roots: {cert}})` checks apart from
  "no unhandled critical extension" (validity period, extended key usage, policies). NOTE: for a
  certificate that is itself in the root pool `Verify` does NOT check the signature.
* `selfSigOk`   – `cert.CheckSignature(cert.SignatureAlgorithm, cert.RawTBSCertificate,
  cert.Signature) == nil` (the explicit self-signature check of the code as fixed).
* `pkix`        – `x509.MarshalPKIXPublicKey(cert.PublicKey)` (`none` = error).
* `parse`       – `asn1.Unmarshal(value, &signedKey{})`: `(PubKey, Signature)` or `none`.
* `verify`      – the signature scheme (Ed25519: `Ed25519PublicKey.Verify` never returns an error).
The extension OID and the certificate prefix are parameters: the driver and the theorems
instantiate them with the constants regenerated from the source (`Bifrost.Gen.Tls`).
-/
namespace Bifrost
namespace Tls
open Codec

abbrev Oid := List Nat

/-- `extensionIDEqual(a, b)`: equal length and element-wise equal. -/
def oidEqual : Oid → Oid → Bool
  | [], [] => true
  | a :: as, b :: bs => a == b && oidEqual as bs
  | _, _ => false

structure Ext where
  id : Oid
  value : Bytes
deriving Repr, DecidableEq

structure Cert where
  /-- `cert.Extensions`, in certificate order -/
  exts : List Ext := []
  /-- `cert.UnhandledCriticalExtensions` -/
  unhandledCritical : List Oid := []
  verifyRest : Bool := true
  selfSigOk : Bool := true
  pkix : Option Bytes := none
deriving Repr, DecidableEq

/-- The loop over `cert.Extensions`: the FIRST extension with the key OID (`break`). -/
def findKeyExt (extId : Oid) : List Ext → Option Ext
  | [] => none
  | e :: rest => if oidEqual e.id extId then some e else findKeyExt extId rest

/-- The inner loop: remove the first unhandled critical OID equal to the extension's (`break`). -/
def removeFirst (id : Oid) : List Oid → List Oid
  | [] => []
  | o :: rest => if oidEqual o id then rest else o :: removeFirst id rest

inductive Err where
  | chainLen      -- "expected one certificate in the chain"
  | noExt         -- "expected certificate to contain the key extension"
  | x509          -- "certificate verification failed"
  | selfSig       -- "certificate self-signature verification failed"
  | asn1          -- "unmarshalling signed certificate failed"
  | pubKey        -- "unmarshalling public key failed"
  | pkix          -- x509.MarshalPKIXPublicKey error
  | sigInvalid    -- "signature invalid"
  | certParse     -- x509.ParseCertificate error (closure only)
  | peerMismatch  -- "peer ID mismatch"
deriving Repr, DecidableEq

abbrev VerifyFn := Bytes → Bytes → Bytes → Bool      -- raw public key, message, signature
abbrev ParseFn := Bytes → Option (Bytes × Bytes)     -- asn1.Unmarshal into signedKey

/-- `PubKeyFromCertChain(chain)`: the raw Ed25519 public key of the remote, or the error. -/
def pubKeyFromCertChain (extId : Oid) (pfx : Bytes) (verify : VerifyFn) (parse : ParseFn)
    (chain : List Cert) : Except Err Bytes :=
  match chain with
  | [cert] =>
    match findKeyExt extId cert.exts with
    | none => .error .noExt
    | some ext =>
      let unhandled := removeFirst ext.id cert.unhandledCritical
      if !(unhandled.isEmpty && cert.verifyRest) then .error .x509
      else if !cert.selfSigOk then .error .selfSig
      else
        match parse ext.value with
        | none => .error .asn1
        | some (pkb, sig) =>
          match unmarshalPublicKey pkb with
          | none => .error .pubKey
          | some pk =>
            match cert.pkix with
            | none => .error .pkix
            | some spki =>
              if verify pk (pfx ++ spki) sig then .ok pk else .error .sigInvalid
  | _ => .error .chainLen

/-- the `x509.ParseCertificate` loop of the closure: the first unparsable certificate aborts. -/
def parseAll : List (Option Cert) → Option (List Cert)
  | [] => some []
  | none :: _ => none
  | some c :: rest =>
    match parseAll rest with
    | none => none
    | some cs => some (c :: cs)

/-- The `VerifyPeerCertificate` closure of `ConfigForPeer(remote)` on the raw certificates
(`none` = not parsable by `x509.ParseCertificate`). `.ok pk`: returns nil and sends `pk` on the
key channel. `remote` = raw bytes of the expected peer ID, `[]` = any peer. -/
def verifyPeerCertificate (extId : Oid) (pfx : Bytes) (verify : VerifyFn) (parse : ParseFn)
    (remote : Bytes) (raw : List (Option Cert)) : Except Err Bytes :=
  match parseAll raw with
  | none => .error .certParse
  | some chain =>
    match pubKeyFromCertChain extId pfx verify parse chain with
    | .error e => .error e
    | .ok pk =>
      if !remote.isEmpty && !matchesPublicKey remote pk then .error .peerMismatch else .ok pk

/-- `DetermineSessionIdentity(sess)` on the session's peer certificates: `(peer ID, key)`. -/
def determineSessionIdentity (extId : Oid) (pfx : Bytes) (verify : VerifyFn) (parse : ParseFn)
    (peerCerts : List Cert) : Except Err (Bytes × Bytes) :=
  match pubKeyFromCertChain extId pfx verify parse peerCerts with
  | .error e => .error e
  | .ok pk => .ok (idFromPublicKey pk, pk)

/-- A link is established (dialing or listening side, `HandleConn` → `DialSession` /
`ListenSession` → `HandleSession` → `NewLink`) only if the TLS handshake completed — the
`VerifyPeerCertificate` closure of `ConfigForPeer(remote)` accepted the certificates the remote
presented — and `NewLink` then derived the identity from the session's peer certificates (the
same certificates: trusted `crypto/tls`). The result is `Link.remotePeerID`. -/
def establish (extId : Oid) (pfx : Bytes) (verify : VerifyFn) (parse : ParseFn)
    (remote : Bytes) (presented : List Cert) : Except Err Bytes :=
  match verifyPeerCertificate extId pfx verify parse remote (presented.map some) with
  | .error e => .error e
  | .ok _ =>
    match determineSessionIdentity extId pfx verify parse presented with
    | .error e => .error e
    | .ok (id, _) => .ok id

/-! ### the honest side: `GenerateSignedExtension` / `keyToCertificate` -/

/-- message signed by the identity key: `append([]byte(certificatePrefix), certKeyPub...)` -/
def bindingMessage (pfx spki : Bytes) : Bytes := pfx ++ spki

/-- `GenerateSignedExtension(sk, certKey)`: `sign` = the identity private-key operation, `pk` the
raw identity public key, `marshal` = `asn1.Marshal(signedKey{…})`. -/
def generateSignedExtension (extId : Oid) (pfx : Bytes) (sign : Bytes → Bytes)
    (marshal : Bytes → Bytes → Bytes) (pk spki : Bytes) : Ext :=
  { id := extId, value := marshal (marshalPublicKey pk) (sign (bindingMessage pfx spki)) }

/-- `keyToCertificate`: a fresh certificate key with PKIX form `spki`, self-signed, valid now,
carrying the signed-key extension (`critical` = the test-only `extensionCritical` switch). -/
def keyToCertificate (extId : Oid) (pfx : Bytes) (sign : Bytes → Bytes)
    (marshal : Bytes → Bytes → Bytes) (pk spki : Bytes) (critical : Bool) : Cert :=
  { exts := [generateSignedExtension extId pfx sign marshal pk spki],
    unhandledCritical := if critical then [extId] else [],
    verifyRest := true, selfSigOk := true, pkix := some spki }

end Tls
end Bifrost
