import Bifrost.Model.ProtoWire
/-!
Sealed envelopes: `envelope/build.go` (BuildEnvelope, matchPrivKeys), `envelope/unlock.go`
(UnlockEnvelope), `envelope/crypto.go` (context strings), wire format `envelope/envelope.proto`.

The model is of the code as fixed (threshold validated against the shares actually placed in
decryptable grants; share IDs de-duplicated on the canonical scalar encoding).

Parameters (never re-implemented here):
* `Prims`   — public-key encryption of grants (`peer.EncryptToPubKey` / `DecryptWithPrivKey`),
              BLAKE3 context hash / envelope-id hash / KDF, the payload AEAD (XChaCha20-Poly1305);
* `Scalars` — the scalar field of the sharing group with its byte codec
              (`group.Ristretto255` scalars: `UnmarshalBinary` / `MarshalBinary`).
CIRCL's `secretsharing` (polynomial evaluation, Lagrange interpolation at 0, the duplicate-node
panic of `NewLagrangePolynomial`) is modelled over those field operations.
Core Lean only.
-/
namespace Bifrost
namespace Envelope

/-! ### outcomes -/

inductive Err where
  | emptyPayload | noKeypairs | noGrants | invalidKeypairIndex | invalidThreshold | encrypt
  | contextMismatch | recover | decryptionFailed | unmarshal
deriving Repr, DecidableEq

/-- Result of a Go function that may return an error or panic. -/
inductive Outcome (α : Type) where
  | ok (a : α)
  | err (e : Err)
  | panic
deriving Repr, DecidableEq

def Outcome.isOk {α : Type} : Outcome α → Bool
  | .ok _ => true
  | _ => false

def u32 (n : Nat) : Nat := n % 2 ^ 32

/-! ### data -/

/-- `EnvelopeGrantConfig`. -/
structure GrantConfig where
  shareCount : Nat := 0
  keypairIndexes : List Nat := []
deriving Repr, DecidableEq

/-- `EnvelopeConfig`. -/
structure Config where
  envelopeId : Bytes := []
  threshold : Nat := 0
  totalShares : Nat := 0
  grants : List GrantConfig := []
deriving Repr, DecidableEq

/-- `EnvelopeShare` (raw bytes). -/
structure Share where
  id : Bytes
  value : Bytes
deriving Repr, DecidableEq

/-- `EnvelopeGrant`. -/
structure Grant where
  keypairIndexes : List Nat := []
  ciphertexts : List Bytes := []
deriving Repr, DecidableEq

/-- `Envelope` (`keypairs` = the `pub_key` PEM bytes of each `EnvelopeKeypair`). -/
structure Envelope where
  envelopeId : Bytes := []
  contextHash : Bytes := []
  threshold : Nat := 0
  ciphertext : Bytes := []
  grants : List Grant := []
  keypairs : List Bytes := []
deriving Repr, DecidableEq

/-- `EnvelopeUnlockResult`. -/
structure UnlockResult where
  success : Bool
  sharesAvailable : Nat
  sharesNeeded : Nat
  unlockedGrantIndexes : List Nat
deriving Repr, DecidableEq

/-- What `UnlockEnvelope` returns: `(nil,nil,err)`, a panic, `(nil,result,nil)`, `(payload,result,nil)`. -/
inductive UnlockOutcome where
  | err (e : Err)
  | panic
  | locked (r : UnlockResult)
  | opened (payload : Bytes) (r : UnlockResult)
deriving Repr, DecidableEq

/-! ### primitives (parameters) -/

/-- Byte-level primitives. Private keys are opaque byte strings (handles). -/
structure Prims where
  /-- `keypem.MarshalPubKeyPem(priv.GetPublic())` -/
  pub : Bytes → Bytes
  /-- `peer.EncryptToPubKey(pub, ctx, msg)` (deterministic); `pub` given by its PEM bytes -/
  pkEnc : Bytes → Bytes → Bytes → Option Bytes
  /-- `peer.DecryptWithPrivKey(priv, ctx, ct)` -/
  pkDec : Bytes → Bytes → Bytes → Option Bytes
  /-- `hashContext` -/
  ctxHash : Bytes → Bytes
  /-- auto-generated envelope id: hex(blake3(secret ‖ context)[:16]) -/
  idHash : Bytes → Bytes → Bytes
  /-- `blake3.DeriveKey(ctx, material)` → 32-byte key -/
  kdf : Bytes → Bytes → Bytes
  /-- XChaCha20-Poly1305 `Seal(key, nonce, plaintext)` -/
  aseal : Bytes → Bytes → Bytes → Bytes
  /-- XChaCha20-Poly1305 `Open(key, nonce, ciphertext)` -/
  aopen : Bytes → Bytes → Bytes → Option Bytes
  /-- whether the private half of a key object belongs to the public key it reports (`pub`).
  `crypto.UnmarshalEd25519PrivateKey` accepts a 64-byte key whose last 32 bytes are ANY public
  key: such a "shadow" key claims a recipient's keypair and decrypts nothing sealed to it. -/
  genuine : Bytes → Bool := fun _ => true

/-- Scalar field operations and the scalar byte codec. -/
structure Scalars (S : Type) where
  /-- `UnmarshalBinary` -/
  decode : Bytes → Option S
  /-- `MarshalBinary` (canonical) -/
  encode : S → Bytes
  /-- `SetUint64` -/
  ofNat : Nat → S
  zero : S
  one : S
  add : S → S → S
  sub : S → S → S
  mul : S → S → S
  inv : S → S

/-! ### context strings (`envelope/crypto.go`) -/

def itoaAux : Nat → Nat → Bytes → Bytes
  | 0, _, acc => acc
  | fuel + 1, n, acc =>
    let acc' := UInt8.ofNat (48 + n % 10) :: acc
    if n < 10 then acc' else itoaAux fuel (n / 10) acc'

/-- `strconv.Itoa` of a non-negative int, as ASCII bytes. -/
def itoa (n : Nat) : Bytes := itoaAux (n + 1) n []

/-- `"envelope 2026-02-08T00:00:00Z envelope crypto ctx v1."` -/
def baseCryptoContext : Bytes :=
  [101, 110, 118, 101, 108, 111, 112, 101, 32, 50, 48, 50, 54, 45, 48, 50, 45, 48, 56, 84, 48, 48, 58,
   48, 48, 58, 48, 48, 90, 32, 101, 110, 118, 101, 108, 111, 112, 101, 32, 99, 114, 121, 112, 116,
   111, 32, 99, 116, 120, 32, 118, 49, 46]

/-- `"key_derivation "` -/
def kdLabel : Bytes := [107, 101, 121, 95, 100, 101, 114, 105, 118, 97, 116, 105, 111, 110, 32]
/-- `"grant_enc "` -/
def geLabel : Bytes := [103, 114, 97, 110, 116, 95, 101, 110, 99, 32]

/-- `len:bytes` -/
def lenPrefixed (b : Bytes) : Bytes := itoa b.length ++ [58] ++ b

/-- `buildKeyDerivationContext(envelopeID, context)` -/
def kdContext (envId ctx : Bytes) : Bytes :=
  baseCryptoContext ++ kdLabel ++ lenPrefixed envId ++ [32] ++ lenPrefixed ctx

/-- `buildGrantEncContext(envelopeID, context, grantIndex)` -/
def grantEncContext (envId ctx : Bytes) (gi : Nat) : Bytes :=
  baseCryptoContext ++ geLabel ++ lenPrefixed envId ++ [32] ++ lenPrefixed ctx ++ [32] ++ itoa gi

/-! ### wire format of the grant plaintext (`EnvelopeGrantInner`) -/

/-- `EnvelopeShare.MarshalVT` -/
def encodeShare (s : Share) : Bytes := PW.encBytesOpt 1 s.id ++ PW.encBytesOpt 2 s.value

/-- `EnvelopeGrantInner.MarshalVT` -/
def encodeInner (shares : List Share) : Bytes :=
  shares.flatMap (fun s => PW.encBytes 1 (encodeShare s))

def shareSchema : PW.Schema := [⟨1, .bytes⟩, ⟨2, .bytes⟩]
def innerSchema : PW.Schema := [⟨1, .bytes⟩]

def decodeShare (b : Bytes) : Option Share :=
  match PW.decode shareSchema b with
  | .error _ => none
  | .ok r => some ⟨r.lastBytes 1, r.lastBytes 2⟩

/-- `EnvelopeGrantInner.UnmarshalVT` (`none` = error). -/
def decodeInner (b : Bytes) : Option (List Share) :=
  match PW.decode innerSchema b with
  | .error _ => none
  | .ok r => (r.allBytes 1).mapM decodeShare

/-! ### wire format of the envelope -/

def grantSchema : PW.Schema := [⟨1, .packed⟩, ⟨2, .bytes⟩]
def keypairSchema : PW.Schema := [⟨1, .bytes⟩, ⟨2, .bytes⟩, ⟨3, .bytes⟩]
def envelopeSchema : PW.Schema :=
  [⟨1, .bytes⟩, ⟨2, .bytes⟩, ⟨3, .varint⟩, ⟨4, .bytes⟩, ⟨5, .bytes⟩, ⟨6, .bytes⟩, ⟨7, .bytes⟩]

def decodeGrant (b : Bytes) : Option Grant :=
  match PW.decode grantSchema b with
  | .error _ => none
  | .ok r => some ⟨(r.allVarints 1).map u32, r.allBytes 2⟩

def decodeKeypair (b : Bytes) : Option Bytes :=
  match PW.decode keypairSchema b with
  | .error _ => none
  | .ok r => some (r.lastBytes 1)

/-- `Envelope.UnmarshalVT` (`none` = error). -/
def decodeEnvelope (b : Bytes) : Option Envelope :=
  match PW.decode envelopeSchema b with
  | .error _ => none
  | .ok r =>
    match (r.allBytes 5).mapM decodeGrant, (r.allBytes 6).mapM decodeKeypair with
    | some gs, some ks =>
      some { envelopeId := r.lastBytes 1, contextHash := r.lastBytes 2, threshold := u32 (r.lastVarint 3),
             ciphertext := r.lastBytes 4, grants := gs, keypairs := ks }
    | _, _ => none

/-! ### CIRCL `secretsharing` over the scalar operations -/

section Sharing
variable {S : Type} [DecidableEq S]

/-- `polynomial.Evaluate` (Horner), coefficients in ascending order. -/
def polyEval (F : Scalars S) (coeffs : List S) (x : S) : S :=
  coeffs.foldr (fun c acc => F.add (F.mul acc x) c) F.zero

/-- `SecretSharing.Share(n)`: shares with IDs 1..n of the polynomial `coeffs`. -/
def splitShares (F : Scalars S) (coeffs : List S) (n : Nat) : List (S × S) :=
  (List.range n).map (fun i => (F.ofNat (i + 1), polyEval F coeffs (F.ofNat (i + 1))))

/-- product of `f xi` over a list of nodes -/
def prodOver (F : Scalars S) (f : S → S) (xs : List S) : S :=
  xs.foldr (fun xi acc => F.mul (f xi) acc) F.one

/-- `baseRatio(j, xs, x)`: the j-th Lagrange basis polynomial at `x`; `others` are the nodes
`xs[i]`, `i ≠ j`, in order, and `xj = xs[j]`. -/
def baseRatio (F : Scalars S) (others : List S) (xj x : S) : S :=
  F.mul (prodOver F (fun xi => F.sub x xi) others) (F.inv (prodOver F (fun xi => F.sub xj xi) others))

/-- the sum over `j` of `y[j] * baseRatio(j, xs, x)`; `before` are the nodes already passed -/
def lagrangeTerms (F : Scalars S) (x : S) : List S → List (S × S) → S
  | _, [] => F.zero
  | before, (xj, yj) :: rest =>
    F.add (F.mul yj (baseRatio F (before ++ rest.map (·.1)) xj x))
      (lagrangeTerms F x (before ++ [xj]) rest)

/-- `LagrangePolynomial.Evaluate(x)` for the nodes/values `pts`. -/
def lagrangeEval (F : Scalars S) (pts : List (S × S)) (x : S) : S :=
  lagrangeTerms F x [] pts

/-- `areAllDifferent` (compares canonical encodings = scalar equality). -/
def allDifferent : List S → Bool
  | [] => true
  | x :: xs => !xs.contains x && allDifferent xs

inductive RecOutcome (S : Type) where
  | err
  | panic
  | ok (s : S)
deriving Repr, DecidableEq

/-- `secretsharing.Recover(t, shares)`. -/
def recover (F : Scalars S) (t : Nat) (shares : List (S × S)) : RecOutcome S :=
  if shares.length ≤ t then .err
  else
    let pts := shares.take (t + 1)
    if allDifferent (pts.map (·.1)) then .ok (lagrangeEval F pts F.zero) else .panic

end Sharing

/-! ### BuildEnvelope -/

def effCount (gc : GrantConfig) : Nat := if gc.shareCount = 0 then 1 else gc.shareCount

/-- the validation loop: every keypair index must be in range; sums the share counts in `uint32` -/
def sumShares (nkeys : Nat) : List GrantConfig → Nat → Option Nat
  | [], acc => some acc
  | gc :: rest, acc =>
    if gc.keypairIndexes.any (fun idx => decide (idx ≥ nkeys)) then none
    else sumShares nkeys rest (u32 (acc + effCount gc))

/-- number of shares each grant receives: the distribution loop `j < sc && shareIdx < len(shares)` -/
def placedCounts : List GrantConfig → Nat → List Nat
  | [], _ => []
  | gc :: rest, remaining =>
    let c := min (effCount gc) remaining
    c :: placedCounts rest (remaining - c)

/-- shares placed in grants that have at least one keypair index (the fixed threshold check) -/
def usableShares : List GrantConfig → Nat → Nat
  | [], _ => 0
  | gc :: rest, remaining =>
    let c := min (effCount gc) remaining
    (if gc.keypairIndexes.isEmpty then 0 else c) + usableShares rest (remaining - c)

/-- `totalShares` after the override -/
def totalOf (cfg : Config) (sum : Nat) : Nat := if cfg.totalShares > 0 then cfg.totalShares else sum

/-- distribute the shares over the grants -/
def place {α : Type} : List GrantConfig → List α → List (GrantConfig × List α)
  | [], _ => []
  | gc :: rest, sh => (gc, sh.take (effCount gc)) :: place rest (sh.drop (effCount gc))

/-- encrypt one grant plaintext to each of its keypair indexes -/
def encAll (P : Prims) (keypairs : List Bytes) (encCtx inner : Bytes) : List Nat → Outcome (List Bytes)
  | [] => .ok []
  | k :: ks =>
    match keypairs[k]? with
    | none => .panic      -- index out of range (excluded by the validation loop)
    | some pk =>
      match P.pkEnc pk encCtx inner with
      | none => .err .encrypt
      | some ct =>
        match encAll P keypairs encCtx inner ks with
        | .ok cts => .ok (ct :: cts)
        | .err e => .err e
        | .panic => .panic

section Build
variable {S : Type} [DecidableEq S]

def encShare (F : Scalars S) (s : S × S) : Share := ⟨F.encode s.1, F.encode s.2⟩

def mkGrants (P : Prims) (F : Scalars S) (keypairs : List Bytes) (envId ctx : Bytes) :
    Nat → List (GrantConfig × List (S × S)) → Outcome (List Grant)
  | _, [] => .ok []
  | gi, (gc, sh) :: rest =>
    match encAll P keypairs (grantEncContext envId ctx gi) (encodeInner (sh.map (encShare F))) gc.keypairIndexes with
    | .err e => .err e
    | .panic => .panic
    | .ok cts =>
      match mkGrants P F keypairs envId ctx (gi + 1) rest with
      | .ok gs => .ok (⟨gc.keypairIndexes, cts⟩ :: gs)
      | .err e => .err e
      | .panic => .panic

/-- the polynomial of `secretsharing.New(rnd, t, secret)`: `secret` and `t` random coefficients -/
def polyOf (secret : S) (coeff : Nat → S) (t : Nat) : List S :=
  secret :: (List.range t).map coeff

/-- `BuildEnvelope(rnd, context, payload, keypairs, config)`.
Randomness: the secret scalar, the polynomial coefficients `coeff i`, the 24-byte nonce.
`keypairs` are given by their PEM bytes. -/
def build (P : Prims) (F : Scalars S) (secret : S) (coeff : Nat → S) (nonce : Bytes)
    (ctx payload : Bytes) (keypairs : List Bytes) (cfg : Config) : Outcome Envelope :=
  if payload.isEmpty then .err .emptyPayload
  else if keypairs.isEmpty then .err .noKeypairs
  else if cfg.grants.isEmpty then .err .noGrants
  else
    match sumShares keypairs.length cfg.grants 0 with
    | none => .err .invalidKeypairIndex
    | some sum =>
      let total := totalOf cfg sum
      if usableShares cfg.grants total < cfg.threshold + 1 then .err .invalidThreshold
      else
        let secretBytes := F.encode secret
        let envId := if cfg.envelopeId.isEmpty then P.idHash secretBytes ctx else cfg.envelopeId
        let key := P.kdf (kdContext envId ctx) secretBytes
        let ciphertext := nonce ++ P.aseal key nonce payload
        let shares := splitShares F (polyOf secret coeff cfg.threshold) total
        -- `ShareWithID` panics on a zero ID
        if shares.any (fun s => decide (s.1 = F.zero)) then .panic
        else
          match mkGrants P F keypairs envId ctx 0 (place cfg.grants shares) with
          | .err e => .err e
          | .panic => .panic
          | .ok gs =>
            .ok { envelopeId := envId, contextHash := P.ctxHash ctx, threshold := cfg.threshold,
                  ciphertext := ciphertext, grants := gs, keypairs := keypairs }

/-- `BuildEnvelope` with a possibly nil `*EnvelopeConfig` (`none`): every getter of a nil config
returns the zero value, so `config == nil || len(config.GetGrantConfigs()) == 0` is the
`noGrants` test on the zero configuration. -/
def buildOpt (P : Prims) (F : Scalars S) (secret : S) (coeff : Nat → S) (nonce : Bytes)
    (ctx payload : Bytes) (keypairs : List Bytes) (cfg : Option Config) : Outcome Envelope :=
  build P F secret coeff nonce ctx payload keypairs (cfg.getD {})

/-- `BuildEnvelope` when some recipient keys are of a type that `peer.EncryptToPubKey` and
`keypem.MarshalPubKeyPem` do not support (`none`; a supported key is given by its PEM bytes).
The structural checks come first; after them an unsupported key fails either the encryption of
a grant that names it or, at the latest, the PEM marshalling of the keypair list. -/
def buildKeys (P : Prims) (F : Scalars S) (secret : S) (coeff : Nat → S) (nonce : Bytes)
    (ctx payload : Bytes) (keys : List (Option Bytes)) (cfg : Option Config) : Outcome Envelope :=
  match buildOpt P F secret coeff nonce ctx payload (keys.map fun k => k.getD []) cfg with
  | .ok env => if keys.all Option.isSome then .ok env else .err .encrypt
  | .err e => .err e
  | .panic => .panic

end Build

/-! ### what is hashed (operands of the BLAKE3 calls; the hash itself is a parameter) -/

/-- `hashContext(context)` hashes the whole context string. -/
def ctxHashPreimage (ctx : Bytes) : Bytes := ctx

/-- an auto-generated envelope id hashes `secret ‖ context` … -/
def idPreimage (secretBytes ctx : Bytes) : Bytes := secretBytes ++ ctx

/-- … and is the lower-case hex form of the first 16 digest bytes (32 characters). -/
def autoIdDigestBytes : Nat := 16

/-! ### UnlockEnvelope -/

/-- `matchPrivKeys`: envelope keypair index ↦ the offered private keys that report that PEM, in
the order offered (nil entries of the Go slice are skipped before and are not part of the list). -/
def matchKeys (P : Prims) (env : Envelope) (privKeys : List Bytes) (ki : Nat) : List Bytes :=
  match env.keypairs[ki]? with
  | none => []
  | some pem => privKeys.filter (fun sk => P.pub sk = pem)

/-- the keys claiming one keypair are tried in order until one decrypts the ciphertext -/
def tryKeys (P : Prims) (encCtx c : Bytes) : List Bytes → Option Bytes
  | [] => none
  | sk :: rest =>
    match P.pkDec sk encCtx c with
    | none => tryKeys P encCtx c rest
    | some d => some d

/-- try each (keypair index, ciphertext) pair of a grant until one decrypts -/
def tryDecrypt (P : Prims) (matched : Nat → List Bytes) (encCtx : Bytes) : List (Nat × Bytes) → Option Bytes
  | [] => none
  | (k, c) :: rest =>
    match tryKeys P encCtx c (matched k) with
    | none => tryDecrypt P matched encCtx rest
    | some d => some d

/-- the matching before the fix: only the FIRST offered key that reports a keypair's PEM is kept -/
def firstMatchOnly (matched : Nat → List Bytes) : Nat → List Bytes := fun k => (matched k).take 1

section Unlock
variable {S : Type} [DecidableEq S]

/-- collected shares and the de-duplication keys seen so far -/
structure Acc (S : Type) where
  collected : List (S × S) := []
  seen : List Bytes := []

/-- How the de-duplication key of a share is computed from its raw ID bytes and decoded ID.
The code (as fixed) uses the canonical encoding of the decoded scalar. -/
abbrev DedupKey (S : Type) := Bytes → S → Bytes

def canonicalKey (F : Scalars S) : DedupKey S := fun _ id => F.encode id
/-- the key the code used before the fix: the raw ID bytes -/
def rawKey : DedupKey S := fun raw _ => raw

/-- the share loop of one decrypted grant -/
def addShares (F : Scalars S) (dk : DedupKey S) : List Share → Acc S → Acc S
  | [], acc => acc
  | s :: rest, acc =>
    match F.decode s.id with
    | none => addShares F dk rest acc
    | some id =>
      let key := dk s.id id
      if acc.seen.contains key then addShares F dk rest acc
      else
        match F.decode s.value with
        | none => addShares F dk rest acc
        | some v => addShares F dk rest { collected := acc.collected ++ [(id, v)], seen := acc.seen ++ [key] }

/-- the grant loop: returns the collected shares and the unlocked grant indexes -/
def collect (P : Prims) (F : Scalars S) (dk : DedupKey S) (matched : Nat → List Bytes) (envId ctx : Bytes) :
    Nat → List Grant → Acc S → List Nat → Acc S × List Nat
  | _, [], acc, unl => (acc, unl)
  | gi, g :: rest, acc, unl =>
    if g.keypairIndexes.length ≠ g.ciphertexts.length then collect P F dk matched envId ctx (gi + 1) rest acc unl
    else
      match tryDecrypt P matched (grantEncContext envId ctx gi) (g.keypairIndexes.zip g.ciphertexts) with
      | none => collect P F dk matched envId ctx (gi + 1) rest acc unl
      | some innerData =>
        match decodeInner innerData with
        | none => collect P F dk matched envId ctx (gi + 1) rest acc unl
        | some shares =>
          collect P F dk matched envId ctx (gi + 1) rest (addShares F dk shares acc) (unl ++ [u32 gi])

/-- derive the key from the recovered scalar and open the payload -/
def openPayload (P : Prims) (ctx : Bytes) (env : Envelope) (scalarBytes : Bytes) (r : UnlockResult) : UnlockOutcome :=
  let key := P.kdf (kdContext env.envelopeId ctx) scalarBytes
  let ct := env.ciphertext
  if ct.length < 24 then .err .decryptionFailed
  else
    match P.aopen key (ct.take 24) (ct.drop 24) with
    | none => .err .decryptionFailed
    | some p => .opened p { r with success := true }

/-- everything after the grant loop -/
def finish (P : Prims) (F : Scalars S) (ctx : Bytes) (env : Envelope) (collected : List (S × S)) (unl : List Nat) :
    UnlockOutcome :=
  let needed := u32 (env.threshold + 1)
  let r : UnlockResult := { success := false, sharesAvailable := u32 collected.length, sharesNeeded := needed,
                            unlockedGrantIndexes := unl }
  if u32 collected.length < needed then .locked r
  else
    match recover F env.threshold collected with
    | .err => .err .recover
    | .panic => .panic
    | .ok s => openPayload P ctx env (F.encode s) r

/-- `UnlockEnvelope(context, env, privKeys)` with the de-duplication key as a parameter. -/
def unlockWith (P : Prims) (F : Scalars S) (dk : DedupKey S) (ctx : Bytes) (env : Envelope) (privKeys : List Bytes) :
    UnlockOutcome :=
  if env.grants.isEmpty then .err .noGrants
  else if env.keypairs.isEmpty then .err .noKeypairs
  else if env.contextHash ≠ P.ctxHash ctx then .err .contextMismatch
  else
    let res := collect P F dk (matchKeys P env privKeys) env.envelopeId ctx 0 env.grants {} []
    finish P F ctx env res.1.collected res.2

/-- `UnlockEnvelope` as it was before every matching key was tried (first match takes the slot). -/
def unlockFirstMatch (P : Prims) (F : Scalars S) (ctx : Bytes) (env : Envelope) (privKeys : List Bytes) :
    UnlockOutcome :=
  if env.grants.isEmpty then .err .noGrants
  else if env.keypairs.isEmpty then .err .noKeypairs
  else if env.contextHash ≠ P.ctxHash ctx then .err .contextMismatch
  else
    let res := collect P F (canonicalKey F) (firstMatchOnly (matchKeys P env privKeys)) env.envelopeId ctx 0 env.grants {} []
    finish P F ctx env res.1.collected res.2

/-- `UnlockEnvelope` (the code as fixed). -/
def unlock (P : Prims) (F : Scalars S) (ctx : Bytes) (env : Envelope) (privKeys : List Bytes) : UnlockOutcome :=
  unlockWith P F (canonicalKey F) ctx env privKeys

/-- `UnmarshalVT` followed by `UnlockEnvelope`. -/
def unlockWire (P : Prims) (F : Scalars S) (ctx : Bytes) (wire : Bytes) (privKeys : List Bytes) : UnlockOutcome :=
  match decodeEnvelope wire with
  | none => .err .unmarshal
  | some env => unlock P F ctx env privKeys

end Unlock

/-! ### what a set of offered keys can reach (specification side of C16 / C17) -/

/-- some offered GENUINE private key matches one of the grant's keypairs ("the grants those keys
can decrypt": a key object that merely reports a recipient's public key decrypts nothing) -/
def canOpen (P : Prims) (keypairs sks : List Bytes) (idxs : List Nat) : Bool :=
  idxs.any fun k =>
    match keypairs[k]? with
    | none => false
    | some pk => sks.any fun sk => P.genuine sk && decide (P.pub sk = pk)

/-- the shares inside the grants that can be opened -/
def reachShares {α : Type} (op : List Nat → Bool) : List (GrantConfig × List α) → List α
  | [] => []
  | (gc, sh) :: rest => (if op gc.keypairIndexes then sh else []) ++ reachShares op rest

/-- how many shares the grants that can be opened hold, given `remaining` shares to distribute -/
def reachCount (op : List Nat → Bool) : List GrantConfig → Nat → Nat
  | [], _ => 0
  | gc :: rest, remaining =>
    let c := min (effCount gc) remaining
    (if op gc.keypairIndexes then c else 0) + reachCount op rest (remaining - c)

/-- the indexes (from `gi` on) of the grants that can be opened -/
def reachIdx (op : List Nat → Bool) : Nat → List GrantConfig → List Nat
  | _, [] => []
  | gi, gc :: rest => if op gc.keypairIndexes then gi :: reachIdx op (gi + 1) rest else reachIdx op (gi + 1) rest

/-- the number of shares `BuildEnvelope` creates for a configuration -/
def buildTotal (nkeys : Nat) (cfg : Config) : Nat :=
  totalOf cfg ((sumShares nkeys cfg.grants 0).getD 0)

/-! ### a concrete toy instance of the primitives (non-vacuity of the laws; also run by the driver) -/

/-- self-delimiting frame: unary length, a zero, the bytes -/
def frame (b : Bytes) : Bytes := List.replicate b.length 1 ++ 0 :: b

/-- strip leading `1`s, counting them -/
def stripOnes : Bytes → Nat × Bytes
  | [] => (0, [])
  | x :: rest => if x = 1 then ((stripOnes rest).1 + 1, (stripOnes rest).2) else (0, x :: rest)

/-- inverse of `frame` on a prefix: the framed bytes and the remainder -/
def unframe (l : Bytes) : Option (Bytes × Bytes) :=
  match stripOnes l with
  | (n, x :: rest) => if x = 0 ∧ n ≤ rest.length then some (rest.take n, rest.drop n) else none
  | (_, []) => none

def toyPkDec (sk ctx c : Bytes) : Option Bytes :=
  match unframe c with
  | none => none
  | some (pk, r1) =>
    match unframe r1 with
    | none => none
    | some (ctx', m) => if pk = sk ∧ ctx' = ctx then some m else none

def toyOpen (k n c : Bytes) : Option Bytes :=
  match unframe c with
  | none => none
  | some (k', r1) =>
    match unframe r1 with
    | none => none
    | some (n', p) => if k' = k ∧ n' = n then some p else none

/-- Toy primitives: a private key is its own public key; ciphertexts are framed tuples. -/
def toyPrims : Prims where
  pub := fun sk => sk
  pkEnc := fun pk ctx m => some (frame pk ++ frame ctx ++ m)
  pkDec := toyPkDec
  ctxHash := fun c => frame c
  idHash := fun s c => (s ++ c).take 8
  kdf := fun c m => frame c ++ m
  aseal := fun k n p => frame k ++ frame n ++ p
  aopen := toyOpen

/-- Toy primitives with shadow keys: a key handle of more than two bytes reports the public key
of its first two bytes and decrypts nothing (`[2, 7, 9]` shadows the genuine key `[2, 7]`). -/
def shadowPrims : Prims :=
  { toyPrims with
    pub := fun sk => sk.take 2
    pkDec := fun sk ctx c => if sk.length ≤ 2 then toyPkDec sk ctx c else none
    genuine := fun sk => decide (sk.length ≤ 2) }

/-! ### the Ristretto255 scalar field ℤ/ℓ, executable (used by the driver) -/

def ell : Nat := 2 ^ 252 + 27742317777372353535851937790883648493

def leToNat : Bytes → Nat
  | [] => 0
  | b :: rest => b.toNat + 256 * leToNat rest

def natToLe : Nat → Nat → Bytes
  | 0, _ => []
  | k + 1, n => UInt8.ofNat (n % 256) :: natToLe k (n / 256)

def powMod (m : Nat) : Nat → Nat → Nat → Nat
  | 0, _, _ => 1 % m
  | fuel + 1, b, e =>
    if e = 0 then 1 % m
    else
      let h := powMod m fuel (b * b % m) (e / 2)
      if e % 2 = 1 then h * b % m else h

/-- ℤ/ℓ on `Nat` representatives `< ℓ`: `UnmarshalBinary` ignores the top 3 bits and reduces. -/
def zl : Scalars Nat where
  decode := fun b => if b.length = 32 then some ((leToNat b % 2 ^ 253) % ell) else none
  encode := fun s => natToLe 32 (s % ell)
  ofNat := fun n => n % ell
  zero := 0
  one := 1
  add := fun a b => (a + b) % ell
  sub := fun a b => (a + (ell - b % ell)) % ell
  mul := fun a b => (a * b) % ell
  inv := fun a => powMod ell 256 (a % ell) (ell - 2)

end Envelope
end Bifrost
