import Bifrost.Model.Varint
/-!
Generic protobuf wire decoder mirroring the code protobuf-go-lite generates
(`UnmarshalVT`) and its `Skip` helper, plus the canonical encoder (`MarshalVT`
for proto3 scalar/bytes/message fields).

A message type is described by a `Schema` (which field numbers are known and
whether they are decoded as varint or length-delimited). Decoding yields the
known fields in wire order and the retained unknown bytes; message-specific
views (last-one-wins, repeated, nested merge) are built on top.
Core Lean only.
-/
namespace Bifrost
namespace PW

inductive Err where
  | eof | overflow | invalidLength | wrongWire | illegalTag | endGroup | illegalWire
deriving Repr, DecidableEq

inductive Kind where
  | varint      -- wire type 0 required
  | bytes       -- wire type 2 required (string / bytes / embedded message)
  | packed      -- repeated varint: wire type 0 (one element) or 2 (packed)
deriving Repr, DecidableEq

structure FieldSpec where
  num : Nat
  kind : Kind
deriving Repr, DecidableEq

abbrev Schema := List FieldSpec

inductive Val where
  | varint (v : Nat)
  | bytes (b : Bytes)
deriving Repr, DecidableEq

structure Raw where
  fields : List (Nat × Val) := []
  unknown : Bytes := []
deriving Repr, DecidableEq

def two64 : Nat := 2 ^ 64
def two63 : Nat := 2 ^ 63

/-- Go `int32(x)` of a uint64, as an Int. -/
def toInt32 (x : Nat) : Int :=
  let m : Nat := x % 2 ^ 32
  if m < 2 ^ 31 then Int.ofNat m else Int.ofNat m - 2 ^ 32

/-- `DecodeVarint` on the remaining bytes: value and rest. -/
def decodeVarint (d : Bytes) : Except Err (Nat × Bytes) :=
  match Pb.consume d with
  | .ok v n => .ok (v % two64, d.drop n)
  | .eof => .error .eof
  | .overflow => .error .overflow

/-- The lenient varint loop inside `Skip`: up to 10 bytes, the 10th byte's high bits are
shifted out. Returns value mod 2^64 and bytes consumed. -/
def skipVarintFrom : Nat → Bytes → Except Err (Nat × Nat)
  | i, [] => if i ≥ 10 then .error .overflow else .error .eof
  | i, x :: rest =>
    if i ≥ 10 then .error .overflow
    else if x < 0x80 then .ok ((x.toNat <<< (7 * i)) % two64, 1)
    else match skipVarintFrom (i + 1) rest with
      | .ok (v, n) => .ok ((((x.toNat - 0x80) <<< (7 * i)) + v) % two64, n + 1)
      | .error e => .error e

/-- Note: when the 11th byte would be read Go reports overflow *before* checking for EOF. -/
def skipVarint (d : Bytes) : Except Err (Nat × Nat) :=
  -- Go checks `shift >= 64` first, then `iNdEx >= l`.
  skipVarintFrom 0 d

/-- `Skip(dAtA)`: number of bytes of the first complete field (may exceed `len`
for fixed-width / length-delimited fields at depth 0 — the caller checks). `idx` is
the current index, `d` the bytes from `idx` on. -/
def skipLoop : Nat → Nat → Nat → Bytes → Except Err Nat
  | 0, _, _, _ => .error .eof
  | fuel + 1, depth, idx, d =>
    if d.isEmpty then .error .eof else
    match skipVarint d with
    | .error e => .error e
    | .ok (wire, n) =>
      let d1 := d.drop n
      let idx1 := idx + n
      let wt := wire % 8
      let next (idx2 : Nat) (d2 : Bytes) (depth2 : Nat) : Except Err Nat :=
        if depth2 = 0 then .ok idx2 else skipLoop fuel depth2 idx2 d2
      if wt = 0 then
        match skipVarint d1 with
        | .error e => .error e
        | .ok (_, m) => next (idx1 + m) (d1.drop m) depth
      else if wt = 1 then next (idx1 + 8) (d1.drop 8) depth
      else if wt = 2 then
        match skipVarint d1 with
        | .error e => .error e
        | .ok (len, m) =>
          -- `length` is a Go int: negative iff bit 63 set
          if len ≥ two63 then .error .invalidLength
          else if idx1 + m + len ≥ two63 then .error .invalidLength
          else next (idx1 + m + len) ((d1.drop m).drop len) depth
      else if wt = 3 then next idx1 d1 (depth + 1)
      else if wt = 4 then
        if depth = 0 then .error .endGroup else next idx1 d1 (depth - 1)
      else if wt = 5 then next (idx1 + 4) (d1.drop 4) depth
      else .error .illegalWire

def skip (d : Bytes) : Except Err Nat := skipLoop (d.length + 1) 0 0 d

/-- Decode a packed run of varints filling exactly `d`. -/
def decodePackedLoop : Nat → Bytes → List Nat → Except Err (List Nat)
  | 0, _, acc => .ok acc.reverse
  | fuel + 1, d, acc =>
    if d.isEmpty then .ok acc.reverse else
    match decodeVarint d with
    | .error e => .error e
    | .ok (v, rest) => decodePackedLoop fuel rest (v :: acc)

def decodePacked (d : Bytes) : Except Err (List Nat) := decodePackedLoop (d.length + 1) d []

def findSpec (s : Schema) (n : Int) : Option FieldSpec :=
  s.find? (fun f => (f.num : Int) = n)

/-- Length-delimited payload: `(payload, rest)`. -/
def takeLen (d : Bytes) : Except Err (Bytes × Bytes) :=
  match decodeVarint d with
  | .error e => .error e
  | .ok (len, rest) =>
    if len ≥ two63 then .error .invalidLength
    else if len > rest.length then .error .eof
    else .ok (rest.take len, rest.drop len)

/-- The generated `UnmarshalVT` loop. -/
def decodeLoop (s : Schema) : Nat → Bytes → Raw → Except Err Raw
  | 0, _, acc => .ok acc
  | fuel + 1, d, acc =>
    if d.isEmpty then .ok acc else
    match decodeVarint d with
    | .error e => .error e
    | .ok (wire, rest) =>
      let fieldNum := toInt32 (wire / 8)
      let wt := wire % 8
      if wt = 4 then .error .endGroup
      else if fieldNum ≤ 0 then .error .illegalTag
      else match findSpec s fieldNum with
        | some spec =>
          match spec.kind with
          | .bytes =>
            if wt ≠ 2 then .error .wrongWire else
            match takeLen rest with
            | .error e => .error e
            | .ok (p, rest2) =>
              decodeLoop s fuel rest2 { acc with fields := acc.fields ++ [(spec.num, .bytes p)] }
          | .varint =>
            if wt ≠ 0 then .error .wrongWire else
            match decodeVarint rest with
            | .error e => .error e
            | .ok (v, rest2) =>
              decodeLoop s fuel rest2 { acc with fields := acc.fields ++ [(spec.num, .varint v)] }
          | .packed =>
            if wt = 0 then
              match decodeVarint rest with
              | .error e => .error e
              | .ok (v, rest2) =>
                decodeLoop s fuel rest2 { acc with fields := acc.fields ++ [(spec.num, .varint v)] }
            else if wt = 2 then
              match takeLen rest with
              | .error e => .error e
              | .ok (p, rest2) =>
                match decodePacked p with
                | .error e => .error e
                | .ok vs =>
                  decodeLoop s fuel rest2
                    { acc with fields := acc.fields ++ vs.map (fun v => (spec.num, Val.varint v)) }
            else .error .wrongWire
        | none =>
          match skip d with
          | .error e => .error e
          | .ok n =>
            if n > d.length then .error .eof
            else decodeLoop s fuel (d.drop n) { acc with unknown := acc.unknown ++ d.take n }

def decode (s : Schema) (d : Bytes) : Except Err Raw := decodeLoop s (d.length + 1) d {}

/-! ### Views -/

def Raw.lastBytes (r : Raw) (n : Nat) : Bytes :=
  r.fields.foldl (fun acc f => if f.1 = n then (match f.2 with | .bytes b => b | _ => acc) else acc) []

def Raw.lastVarint (r : Raw) (n : Nat) : Nat :=
  r.fields.foldl (fun acc f => if f.1 = n then (match f.2 with | .varint v => v | _ => acc) else acc) 0

def Raw.allBytes (r : Raw) (n : Nat) : List Bytes :=
  r.fields.filterMap (fun f => if f.1 = n then (match f.2 with | .bytes b => some b | _ => none) else none)

def Raw.allVarints (r : Raw) (n : Nat) : List Nat :=
  r.fields.filterMap (fun f => if f.1 = n then (match f.2 with | .varint v => some v | _ => none) else none)

def Raw.has (r : Raw) (n : Nat) : Bool := r.fields.any (fun f => f.1 = n)

/-! ### Canonical encoder -/

def tag (num wt : Nat) : Bytes := Pb.append (num * 8 + wt)

def encBytes (num : Nat) (b : Bytes) : Bytes := tag num 2 ++ Pb.append b.length ++ b

def encVarint (num : Nat) (v : Nat) : Bytes := tag num 0 ++ Pb.append v

/-- proto3 scalar: omitted when empty / zero. -/
def encBytesOpt (num : Nat) (b : Bytes) : Bytes := if b.isEmpty then [] else encBytes num b
def encVarintOpt (num : Nat) (v : Nat) : Bytes := if v = 0 then [] else encVarint num v

def encField : Nat × Val → Bytes
  | (n, .varint v) => encVarint n v
  | (n, .bytes b) => encBytes n b

def encode (fs : List (Nat × Val)) : Bytes := fs.flatMap encField

end PW
end Bifrost
