import Bifrost.Model.ProtoWire
import Bifrost.Model.Utf8
/-!
Stream-establish header framing (transport/controller/establish-header.go) over a
chunked reader. A `Reader` is the list of chunks the underlying `io.Reader` will
deliver; one `Read(buf)` returns at most one chunk, truncated to `len(buf)`, the
remainder of the chunk staying first in the reader. An exhausted reader returns an error (EOF).
-/
namespace Bifrost
namespace Framing

abbrev Reader := List Bytes

/-- Go `readAtLeast(r, n, min, buf)` with `have_ = buf[:n]`, `cap = len(buf)`.
`none` = the reader reported an error (EOF) before `min` bytes were available. -/
def readAtLeast : Reader → Bytes → Nat → Nat → Option (Bytes × Reader)
  | [], have_, min, _ => if have_.length ≥ min then some (have_, []) else none
  | ch :: rest, have_, min, cap =>
    if have_.length ≥ min then some (have_, ch :: rest) else
    let c := cap - have_.length
    if ch.length ≤ c then readAtLeast rest (have_ ++ ch) min cap
    else
      -- buffer filled completely; remainder of the chunk stays in the reader
      if (have_ ++ ch.take c).length ≥ min then some (have_ ++ ch.take c, ch.drop c :: rest)
      else none -- unreachable when min ≤ cap

inductive HdrErr where
  | io          -- reader error / EOF before the header was complete
  | badPrefix   -- varint prefix invalid
  | badLen      -- zero or over limit
  | badProto    -- StreamEstablish does not decode
  | badPid      -- protocol id empty or not UTF-8 (rejected by HandleIncomingStream)
deriving Repr, DecidableEq

def establishSchema : PW.Schema := [⟨1, .bytes⟩]

/-- `StreamEstablish.UnmarshalVT` then `GetProtocolId`. -/
def decodeEstablish (b : Bytes) : Except PW.Err Bytes :=
  match PW.decode establishSchema b with
  | .ok r => .ok (r.lastBytes 1)
  | .error e => .error e

/-- `StreamEstablish.MarshalVT` (no unknown fields). -/
def encodeEstablish (pid : Bytes) : Bytes := PW.encBytesOpt 1 pid

/-- `marshalStreamEstablishHeader`. -/
def marshalHeader (pid : Bytes) : Bytes :=
  Pb.append (encodeEstablish pid).length ++ encodeEstablish pid

def pidValid (pid : Bytes) : Bool := !pid.isEmpty && Utf8.valid pid

def maxInt32 : Nat := 2 ^ 31 - 1

/-- `readStreamEstablishHeader` followed by the protocol-ID validation of
`HandleIncomingStream`. Returns the protocol ID, the reader left for the application, and
`alloc`, the size of the buffer allocated for the header body. -/
def readHeader (maxSize : Nat) (r : Reader) : Except HdrErr (Bytes × Reader × Nat) :=
  match readAtLeast r [] 4 4 with
  | none => .error .io
  | some (b4, r1) =>
    match Pb.consume b4 with
    | .eof | .overflow => .error .badPrefix
    | .ok headerLen n =>
      if headerLen > maxInt32 then .error .badLen
      else if headerLen > maxSize ∨ headerLen = 0 then .error .badLen
      else
        let pre := (b4.drop n).take headerLen   -- copy(headerBuf, b[n:])
        let nHave := b4.length - n
        let body : Option (Bytes × Reader) :=
          if nHave ≥ headerLen then some (pre, r1)
          else readAtLeast r1 pre headerLen headerLen
        match body with
        | none => .error .io
        | some (hb, r2) =>
          match decodeEstablish hb with
          | .error _ => .error .badProto
          | .ok pid => if pidValid pid then .ok (pid, r2, headerLen) else .error .badPid

end Framing
end Bifrost

namespace Bifrost
namespace Framing

/-- Bytes allocated by `readStreamEstablishHeader` for ANY stream (also when it ends in an
error): the 4-byte prefix buffer plus, only after the length checks passed, the header buffer. -/
def readHeaderAlloc (maxSize : Nat) (r : Reader) : Nat :=
  match readAtLeast r [] 4 4 with
  | none => 4
  | some (b4, _) =>
    match Pb.consume b4 with
    | .eof | .overflow => 4
    | .ok headerLen _ =>
      if headerLen > maxInt32 then 4
      else if headerLen > maxSize ∨ headerLen = 0 then 4
      else 4 + headerLen

end Framing
end Bifrost

/-! ### Readers that hand out their final bytes together with the error

The `io.Reader` contract allows a `Read` to return `n > 0` bytes AND a non-nil error (`io.EOF`,
a reset) from the same call — quic-go does so when the data and the FIN arrive together,
`iotest.DataErrReader` does so always. The reader of the sections above ends with a bare
`(0, err)` read; here the way the stream ends is a parameter: with `lastWithErr = true` the `Read`
call that hands out the last bytes of the last chunk also returns the error (a trailing empty
chunk then is a `(0, err)` read). Every later `Read` returns `(0, err)`. -/
namespace Bifrost
namespace Framing

/-- Go `readAtLeast(r, n, min, buf)` on a reader that ends as `lastWithErr` says:
`nr, err := r.Read(buf[n:]); n += nr; if err != nil { if n >= min { break }; return n, err }`. -/
def readAtLeastE : Reader → Bool → Bytes → Nat → Nat → Option (Bytes × Reader)
  | [], _, have_, min, _ => if have_.length ≥ min then some (have_, []) else none
  | ch :: rest, lastWithErr, have_, min, cap =>
    if have_.length ≥ min then some (have_, ch :: rest) else          -- for n < min
    let c := cap - have_.length                                        -- len(buf[n:])
    if ch.length ≤ c then
      if rest.isEmpty && lastWithErr then
        -- this Read returned the final bytes AND the error: they are counted (n += nr) first
        if (have_ ++ ch).length ≥ min then some (have_ ++ ch, []) else none
      else readAtLeastE rest lastWithErr (have_ ++ ch) min cap
    else
      -- buffer filled completely (no error: bytes of the chunk remain)
      if (have_ ++ ch.take c).length ≥ min then some (have_ ++ ch.take c, ch.drop c :: rest)
      else none

/-- `readStreamEstablishHeader` + protocol-ID validation (`readHeader`) on such a reader. -/
def readHeaderE (maxSize : Nat) (r : Reader) (lastWithErr : Bool) : Except HdrErr (Bytes × Reader × Nat) :=
  match readAtLeastE r lastWithErr [] 4 4 with
  | none => .error .io
  | some (b4, r1) =>
    match Pb.consume b4 with
    | .eof | .overflow => .error .badPrefix
    | .ok headerLen n =>
      if headerLen > maxInt32 then .error .badLen
      else if headerLen > maxSize ∨ headerLen = 0 then .error .badLen
      else
        let pre := (b4.drop n).take headerLen
        let nHave := b4.length - n
        let body : Option (Bytes × Reader) :=
          if nHave ≥ headerLen then some (pre, r1)
          else readAtLeastE r1 lastWithErr pre headerLen headerLen
        match body with
        | none => .error .io
        | some (hb, r2) =>
          match decodeEstablish hb with
          | .error _ => .error .badProto
          | .ok pid => if pidValid pid then .ok (pid, r2, headerLen) else .error .badPid

end Framing
end Bifrost
