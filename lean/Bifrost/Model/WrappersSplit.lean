import Bifrost.Model.Wrappers
/-!
Hold-open (C33): the acquire goroutine with its critical section SPLIT around `AddReference`
("do not hold mtx across AddReference"): `check` evaluates `valCount != 0 && rigidRef == nil`
under the lock; the goroutine then is inside `AddReference` without the lock for as long as the
directive instance makes it wait; `store` re-takes the lock, releases the new reference if
`valCount == 0`, and otherwise stores it unconditionally. In `Bifrost.Wrappers.Hold.step` the
whole of this is ONE step (`acquire`): that `AddReference` takes time is invisible there. This
file gives the duration a Lean counterpart, so that the necessity of the atomicity is a theorem
(`Props.C33.split_*`) and the engine's blocking-`AddReference` schedules have a model-side meaning.
Core Lean only.
-/
namespace Bifrost
namespace Wrappers
namespace Hold
namespace Split

structure SState where
  base : State := {}
  inFlight : Nat := 0   -- goroutines between `check` and `store` (inside AddReference)
deriving Repr, DecidableEq

inductive SOp where
  | op (o : Op)   -- a step of the handler / environment other than the acquire critical section
  | check         -- first critical section of one acquire goroutine
  | store         -- its AddReference returned: second critical section
deriving Repr, DecidableEq

def sstep (s : SState) : SOp → SState
  | .op .acquire => s
  | .op o => { s with base := step s.base o }
  | .check =>
    if s.base.pendingAcq = 0 then s else
    let b := { s.base with pendingAcq := s.base.pendingAcq - 1 }
    if b.valCount ≠ 0 ∧ b.rigid = false then { base := b, inFlight := s.inFlight + 1 }
    else { s with base := b }
  | .store =>
    if s.inFlight = 0 then s else
    let b := s.base
    if b.valCount = 0 then
      -- the reference is released on the spot (`ref.Release()`): nothing remains
      { base := b, inFlight := s.inFlight - 1 }
    else
      -- `e.rigidRef = ref` — whatever `rigidRef` held before
      { base := takeRef b, inFlight := s.inFlight - 1 }

def srun (ops : List SOp) : SState := ops.foldl sstep {}

/-- No asynchronous work outstanding, no acquisition in flight. -/
def squiescent (s : SState) : Prop := quiescent s.base ∧ s.inFlight = 0

instance (s : SState) : Decidable (squiescent s) := by unfold squiescent; infer_instance

end Split
end Hold
end Wrappers
end Bifrost
