import Bifrost.Model.Signaling
import Bifrost.Model.SigClient
/-!
Composition of the signaling system: any number of client trackers (`Bifrost.SigC`), the relay
server (`Bifrost.Sig`), and one pair of FIFO channels per Session RPC. Every component step is
the corresponding step of the component models (whose invariants are proved separately); this
file only adds the plumbing: which request / response travels on which stream, and the
environment events (connect, disconnect, the relay noticing a dead stream).

The relay and the peers are honest here (C21 is about an honest system; the malicious relay is
C19): every relayed message verifies and is signed by the submitting stream's peer.
Core Lean only.
-/
namespace Bifrost
namespace SigSys

/-- One client tracker: local peer `me` holding a session towards `peer`. -/
structure Client where
  me : Nat
  peer : Nat
  st : SigC.State := {}
  call : Option Nat := none      -- the Session RPC currently open at the relay (if any)
deriving Repr

structure Chan where
  call : Nat
  c2s : List SigC.Req := []      -- requests in flight to the relay (oldest first)
  s2c : List Sig.Resp := []      -- responses in flight to the client (oldest first)
  open_ : Bool := true           -- false once the client side dropped the stream
deriving Repr

structure State where
  srv : Sig.State := {}
  clients : List Client := []
  chans : List Chan := []
  nextCall : Nat := 1
deriving Repr

def toSrvMsg (m : SigC.Msg) : Sig.Msg := ⟨m.seqno, m.mid⟩
def toCliMsg (m : Sig.Msg) : SigC.Msg := ⟨m.seqno, m.mid⟩

def getClient (s : State) (me peer : Nat) : Option Client := s.clients.find? fun c => c.me = me ∧ c.peer = peer
def setClient (s : State) (c : Client) : State :=
  { s with clients := s.clients.map fun x => if x.me = c.me ∧ x.peer = c.peer then c else x }
def getChan (s : State) (call : Nat) : Option Chan := s.chans.find? (·.call = call)
def setChan (s : State) (c : Chan) : State := { s with chans := s.chans.map fun x => if x.call = c.call then c else x }

inductive Ev where
  /-- a new tracker (application asks for a session from `me` to `peer`) -/
  | newClient (me peer : Nat)
  /-- the tracker's routine opens a Session RPC and the relay registers it -/
  | connect (me peer : Nat)
  /-- the client side of the stream ends (error / cancel): `handleClose` -/
  | disconnect (me peer : Nat)
  /-- the relay's handler for `call` returns (it noticed the dead stream, was replaced, …) -/
  | srvEnd (call : Nat)
  /-- application / tracker internal steps -/
  | sendStart (me peer : Nat) (m : SigC.Msg)
  | sendStep (me peer : Nat) (id : Nat)
  | sendCancel (me peer : Nat) (id : Nat)
  | recvStep (me peer : Nat)
  /-- one iteration of the tracker's main loop: at most one request goes onto the stream -/
  | clientTx (me peer : Nat)
  /-- the tracker processes the next response from the stream -/
  | clientRx (me peer : Nat)
  /-- the relay's reader processes the next request of `call` -/
  | srvRx (call : Nat)
  /-- the relay's write loop of `call` runs one critical section -/
  | srvLoop (call : Nat)
  /-- the relay transmits the next decided response of `call` -/
  | srvTx (call : Nat)
deriving Repr, DecidableEq

def liftClient (s : State) (me peer : Nat) (f : SigC.State → SigC.State) : State :=
  match getClient s me peer with
  | some c => setClient s { c with st := f c.st }
  | none => s

def step (s : State) : Ev → State
  | .newClient me peer =>
    if (getClient s me peer).isSome ∨ me = peer ∨ me = 0 ∨ peer = 0 then s
    else { s with clients := s.clients ++ [{ me := me, peer := peer }] }
  | .connect me peer =>
    match getClient s me peer with
    | some c =>
      if c.call.isSome then s else
      let id := s.nextCall
      if !Sig.enabled s.srv (.init id me peer) then s else
      let s1 := { s with srv := Sig.step s.srv (.init id me peer), chans := s.chans ++ [{ call := id }], nextCall := id + 1 }
      setClient s1 { c with call := some id }
    | none => s
  | .disconnect me peer =>
    match getClient s me peer with
    | some c =>
      match c.call with
      | some id =>
        let s1 := setClient s { c with st := SigC.step c.st .close, call := none }
        match getChan s1 id with
        | some ch => setChan s1 { ch with open_ := false, s2c := [] }
        | none => s1
      | none => s
    | none => s
  | .srvEnd call => if Sig.enabled s.srv (.end_ call) then { s with srv := Sig.step s.srv (.end_ call) } else s
  | .sendStart me peer m => liftClient s me peer (fun st => if SigC.enabled st (.sendStart m) then SigC.step st (.sendStart m) else st)
  | .sendStep me peer id => liftClient s me peer (fun st => if SigC.enabled st (.sendStep id) then SigC.step st (.sendStep id) else st)
  | .sendCancel me peer id => liftClient s me peer (fun st => if SigC.enabled st (.sendCancel id) then SigC.step st (.sendCancel id) else st)
  | .recvStep me peer => liftClient s me peer (fun st => SigC.step st .recvStep)
  | .clientTx me peer =>
    match getClient s me peer with
    | some c =>
      match c.call with
      | some id =>
        let (st', req) := SigC.txLoop c.st
        let s1 := setClient s { c with st := st' }
        match req, getChan s1 id with
        | some r, some ch => setChan s1 { ch with c2s := ch.c2s ++ [r] }
        | _, _ => s1
      | none => s
    | none => s
  | .clientRx me peer =>
    match getClient s me peer with
    | some c =>
      match c.call with
      | some id =>
        match getChan s id with
        | some ch =>
          match ch.s2c with
          | r :: rest =>
            let ev : SigC.Ev := match r with
              | .opened e => .opened e
              | .closed => .close
              | .ack k => .ackMsg k
              | .clear k => .clearMsg k
              | .recv m => .recvMsg (toCliMsg m) true true
              | .setPeer _ | .clearPeer _ => .txLoop -- never on a session stream
            let st' := match r with
              | .setPeer _ | .clearPeer _ => c.st
              | _ => SigC.step c.st ev
            setChan (setClient s { c with st := st' }) { ch with s2c := rest }
          | [] => s
        | none => s
      | none => s
    | none => s
  | .srvRx call =>
    match getChan s call, Sig.getSCall s.srv call with
    | some ch, some sc =>
      match ch.c2s with
      | r :: rest =>
        let ev : Sig.Ev := match r with
          | .send e m => .send call e (toSrvMsg m) true sc.src
          | .ack e k => .ack call e k
          | .clear e k => .clear call e k
        if Sig.enabled s.srv ev then setChan { s with srv := Sig.step s.srv ev } { ch with c2s := rest } else s
      | [] => s
    | _, _ => s
  | .srvLoop call =>
    if Sig.enabled s.srv (.loop call) then { s with srv := Sig.step s.srv (.loop call) } else s
  | .srvTx call =>
    match Sig.getSCall s.srv call, getChan s call with
    | some sc, some ch =>
      match sc.outbox with
      | r :: _ =>
        if Sig.enabled s.srv (.send_ call r) then
          let s1 := { s with srv := Sig.step s.srv (.send_ call r) }
          if ch.open_ then setChan s1 { ch with s2c := ch.s2c ++ [r] } else s1
        else s
      | [] => s
    | _, _ => s

inductive Reachable : State → Prop
  | init : Reachable {}
  | step {s : State} (e : Ev) : Reachable s → Reachable (step s e)

def run (evs : List Ev) : State := evs.foldl step {}

/-! ### The end-to-end observation (C21) -/

/-- Every `Send` that reported success names a message the partner's application has received. -/
def sendSuccessDelivered (s : State) : Bool :=
  s.clients.all fun a =>
    a.st.sends.all fun c =>
      c.result ≠ some true ||
        s.clients.any fun b => b.me = a.peer && b.peer = a.me && b.st.delivered.any fun (m, _) => m = c.msg

end SigSys
end Bifrost
