import Bifrost.Model.QuicTable
/-!
The dialing subsystem of ONE transport, through the whole stack:

* `transport/controller/controller.go` — `DialPeerAddr`, `flushEstablishedLink` (the
  `RestartAllRoutines` filter), `linkDialers` (`keyed.KeyedRefCount[linkDialerKey, *linkDialer]`);
* `transport/controller/link-dialer.go` — `executeLinkDialer` (the routine of a key), the `lnk` container;
* `transport/controller/dial-tpt-addr.go` — `resolveDialTptAddr` / `dialTptAddrResolver.Resolve`;
* `transport/controller/establish-link.go` — the reference an `EstablishLinkWithPeer` resolver holds;
* `transport/common/dialer/dialer.go` — `Dialer.Execute` (retry loop with backoff);
* `transport/common/quic/quic.go` — `Transport.DialPeer` (already-connected check, the shared
  `t.dialers[as]` entry, the peer check after `Await`), `HandleSession` (which deletes `t.dialers[rs]`);
* `transport/common/quic/dialer.go` — `Dialer.Execute` (dialFn, `HandleSession`, `SetResult`, deferred removal
  from `t.dialers[d.addr]` — the DIAL address string, whereas `HandleSession` deletes the entry of the
  session's REMOTE address string: `Cfg.resolve` maps one to the other);

composed with `Bifrost.QuicTable` (address table `t.links` + controller link tables + the
asynchronous bodies `go HandleLinkEstablished`, `go x.Close()`, `go handleLinkLost`), which is
embedded unchanged as the component `q`.

A labelled transition system. One step = one critical section or one goroutine body. The
environment decides who answers a dial attempt (`answer d who`: the authenticated peer `who` —
C03 — or nobody, `who = 0`), connects inbound (`inbound`), closes links (`close`) and issues the
requests (`addRef` / `release` / `ret` for `DialPeerAddr` and for the reference an
`EstablishLinkWithPeer` resolver holds; `tptAdd` / `tptPush` / `tptDone` for a `DialTptAddr`
directive). Peer 0 = the empty peer id. `step` is total: an op that is not enabled leaves the
state unchanged.

Scope: one `Controller.Execute` (the controller is running throughout; `init` is the state after
its start section); `DialPeer` never reports a fatal error and the backoff never gives up (quic
transport, default backoff: no max elapsed time), so a routine ends only by storing a link or by
being removed; a removed key's routine runs no further critical section of its own (the one it
might still run — creating a dialer entry — is the environment op `strayAttach`, which also
stands for any other caller of the public `Transport.DialPeer`).
-/
namespace Bifrost
namespace DialSys
open Links (Link)

/-- `linkDialerKey{peerID, dialAddress}` -/
abbrev Key := Nat × Nat

/-- `Dialer.result` (a promise) -/
inductive DRes where
  | pending
  | failed                  -- SetResult(nil, err)
  | link (l : Link)         -- SetResult(lnk, nil)
deriving Repr, DecidableEq

/-- a `transport_quic.Dialer` object -/
structure QDialer where
  id : Nat                  -- object identity = number of dialers created before it
  addr : Nat                -- d.addr
  peer : Nat                -- d.peerID: the peer id it was created for (never read — see the TODO in DialPeer)
  res : DRes
deriving Repr, DecidableEq

/-- where the goroutine `executeLinkDialer` of a key is -/
inductive Rt where
  | idle                    -- top of the loop in `dialer.Dialer.Execute`: about to call `DialPeer`
  | checked                 -- in `DialPeer`, past the already-connected check, before `t.mtx.Lock()`
  | awaiting (d : Nat)      -- in `DialPeer`: `dl.result.Await(ctx)` on dialer object `d`
  | backoff                 -- `DialPeer` returned a non-fatal error: `<-time.After(bo)`
  | got (l : Option Link)   -- `DialPeer` returned `(lnk, false, nil)`; before `l.lnk.SetValue(lnk)`
  | done                    -- the routine returned nil (keyed: `success`)
deriving Repr, DecidableEq

/-- a `linkDialer` with its keyed routine and reference count -/
structure LDialer where
  key : Key
  refs : Nat
  lnk : Option Link         -- `ld.lnk` (`ccontainer.CContainer[link.Link]`)
  rt : Rt
deriving Repr, DecidableEq

/-- A `DialTptAddr` directive: `tptaddr.NewDialTptAddr(opts, src, dst)`; `taddr = opts.Address`. -/
structure TptDir where
  src : Nat
  dst : Nat
  taddr : List Char
deriving Repr, DecidableEq

/-- Which code is modelled, and the parameters nothing is assumed about. -/
structure Cfg where
  /-- `NewLinkUUID(localAddr, remoteAddr, remotePeer)` -/
  U : Nat → Nat → Nat
  /-- `TransportDialer.MatchTransportType` -/
  matchType : List Char → Bool
  /-- the address number of a dial address string -/
  addrNo : List Char → Nat
  /-- the remote address a dial address resolves to: `t.dialers` is keyed by the DIAL address string
  given to `DialPeer`, `t.links` (and the `delete(t.dialers, rs)` of `HandleSession`) by the string
  of the session's remote address; they coincide for address literals and differ e.g. for host names -/
  resolve : Nat → Nat := id
  /-- "fix: quic DialPeer yields the link already established with the requested peer" -/
  yieldExisting : Bool := true
  /-- "fix: link dialer whose link was replaced takes over the replacement" -/
  adoptNext : Bool := true
  /-- "fix: DialTptAddr with an empty source peer id was never resolved" -/
  srcAny : Bool := true

structure State where
  q : QuicTable.State := {}
  qdialers : List QDialer := []        -- every Dialer object created so far, newest first
  dmap : List (Nat × Nat) := []        -- `t.dialers`: dial address → dialer object id
  pendExit : List Nat := []            -- dialers whose `Execute` has set its result and whose deferred removal has not run yet
  lds : List LDialer := []             -- `c.linkDialers`: the keys with at least one reference
  -- observations / history variables (never read by a transition):
  returned : List (Key × Link) := []   -- values returned by `DialPeerAddr(X, addr)`
  pushed : List (TptDir × Link) := []  -- values pushed to `DialTptAddr` directives
  staleStore : List Nat := []          -- ids stored into a container after the controller had disposed of the link
deriving Repr

inductive Op where
  -- requests
  | addRef (k : Key)
  | release (k : Key)
  | ret (k : Key)
  | tptAdd (d : TptDir)
  | tptPush (d : TptDir)
  | tptDone (d : TptDir)
  -- the routine of a key
  | rtCheck (k : Key)
  | rtAttach (k : Key)
  | rtAwait (k : Key)
  | rtTimer (k : Key)
  | rtStore (k : Key)
  -- `transport_quic.Dialer.Execute` of dialer object `d`
  | answer (d : Nat) (who : Nat)
  | dexit (d : Nat)
  -- environment
  | strayAttach (a x : Nat)
  | inbound (a p : Nat)
  | close (i : Nat)
  -- asynchronous bodies of the transport and the controller (`Bifrost.QuicTable`)
  | runEst (l : Link)
  | runClose (i : Nat)
  | runLost (a : Nat) (l : Link)
  | runCtrlLost (l : Link)
deriving Repr, DecidableEq

/-! ### small maps -/

def getLD (s : State) (k : Key) : Option LDialer := s.lds.find? (fun ld => ld.key = k)

def setLD (s : State) (ld : LDialer) : State :=
  { s with lds := s.lds.map (fun x => if x.key = ld.key then ld else x) }

def getQD (s : State) (d : Nat) : Option QDialer := s.qdialers.find? (fun x => x.id = d)

def setQDRes (s : State) (d : Nat) (r : DRes) : State :=
  { s with qdialers := s.qdialers.map (fun x => if x.id = d then { x with res := r } else x) }

/-- `t.dialers[a]` -/
def dmapGet (s : State) (a : Nat) : Option Nat := (s.dmap.find? (fun e => e.1 = a)).map (·.2)

/-- `delete(t.dialers, a)` -/
def dmapDel (m : List (Nat × Nat)) (a : Nat) : List (Nat × Nat) := m.filter (fun e => e.1 ≠ a)

/-! ### `DialTptAddr`: the resolver's decision -/

/-- `tptaddr.ParseTptAddr`: `strings.Cut(tptAddr, "|")`; error unless found and both parts non-empty. -/
def cutBar : List Char → Option (List Char × List Char)
  | [] => none
  | c :: rest =>
    if c = '|' then some ([], rest)
    else match cutBar rest with
      | none => none
      | some (a, b) => some (c :: a, b)

def parseTptAddr (s : List Char) : Option (List Char × List Char) :=
  match cutBar s with
  | none => none
  | some (tid, addr) => if tid = [] ∨ addr = [] then none else some (tid, addr)

/-- Does a `DialTptAddr` directive get a link dialer on the transport whose peer id is `tptPeer`,
and for which key? (`resolveDialTptAddr` followed by `dialTptAddrResolver.Resolve` up to
`c.linkDialers.AddKeyRef`.) -/
def resolveTpt (cfg : Cfg) (tptPeer : Nat) (d : TptDir) : Option (Nat × List Char) :=
  -- resolveDialTptAddr:
  --   if len(destPeerID) == 0 || dir.DialTptAddrDialerOpts().GetAddress() == "" { return nil, nil }
  if d.dst = 0 ∨ d.taddr = [] then none
  --   skip = (tptPeerID == destPeerID) || (srcPeerID != "" && tptPeerID != srcPeerID)   (if the lock could be taken)
  -- Resolve:
  --   if srcPeerID := o.dir.DialTptAddrSourcePeerId(); srcPeerID != "" && srcPeerID != tptPeerID { return nil }
  --   (before the fix: `srcPeerID != tptPeerID`)
  else if (if cfg.srcAny then d.src ≠ 0 ∧ d.src ≠ tptPeer else d.src ≠ tptPeer) then none
  --   if tptPeerID == destPeerID { return nil }     // self dial
  else if tptPeer = d.dst then none
  --   transportID, dialAddr, err := tptaddr.ParseTptAddr(dialerOpts.GetAddress()); if err != nil { return nil }
  else match parseTptAddr d.taddr with
    | none => none
    | some (tid, addr) =>
      --   if !tptDialer.MatchTransportType(transportID) { return nil }
      if cfg.matchType tid then some (d.dst, addr) else none

/-- the link dialer key of a directive: `linkDialerKey{peerID: destPeerID, dialAddress: dialAddr}` -/
def tptKey (cfg : Cfg) (tptPeer : Nat) (d : TptDir) : Option Key :=
  (resolveTpt cfg tptPeer d).map (fun r => (r.1, cfg.addrNo r.2))

/-! ### controller sections: which links they flush -/

/-- The `flushEstablishedLink(el, hasNextLink, nextLnk)` calls of one controller critical section
(`Links.step` does the table updates; this names the arguments of the calls). -/
def flushedBy (c : Links.State) : Links.Op → List (Link × Bool × Option Link)
  | .start _ => []
  | .shutdown => c.links.map (fun l => (l, true, none))
  | .est l =>
    -- HandleLinkEstablished: el, elOk := h.c.links[luuid]; if elOk { if el.lnk == lnk {return}; h.c.flushEstablishedLink(el, true, lnk) }
    if !c.running then []
    else if l.remote = c.localPeer then []
    else match Links.lookup c l.uuid with
      | some el => if el.id = l.id then [] else [(el, true, some l)]
      | none => []
  | .lost l =>
    -- HandleLinkLost: fast path / slow path: h.c.flushEstablishedLink(el, false, nil)
    match Links.lookup c l.uuid with
    | some el =>
      if el.id = l.id then [(el, false, none)]
      else match c.links.find? (fun x => x.id = l.id) with
        | some el' => [(el', false, none)]
        | none => []
    | none =>
      match c.links.find? (fun x => x.id = l.id) with
      | some el' => [(el', false, none)]
      | none => []

/-- `flushEstablishedLink`:
```go
c.linkDialers.RestartAllRoutines(func(lk linkDialerKey, ld *linkDialer) bool {
    if lk.peerID != peerID { return false }
    if ld.lnk.GetValue() != el.lnk { return false }
    if nextLnk != nil && nextLnk.GetRemotePeer() == peerID {   // (the fix)
        ld.lnk.SetValue(nextLnk)
        return false
    }
    ld.lnk.SetValue(nil)
    return !hasNextLink || nextLnk != nil                      // before the fix: return !hasNextLink
})
```
`restartRoutineLocked` cancels the routine and starts it again (`forceRestart`). -/
def restartOne (cfg : Cfg) (el : Link) (hasNext : Bool) (next : Option Link) (ld : LDialer) : LDialer :=
  if ld.key.1 = el.remote ∧ ld.lnk = some el then
    match (if cfg.adoptNext then next else none) with
    | some nl =>
      if nl.remote = ld.key.1 then { ld with lnk := some nl }
      else { ld with lnk := none, rt := .idle }
    | none => { ld with lnk := none, rt := if hasNext then ld.rt else .idle }
  else ld

def applyFlushes (cfg : Cfg) (fl : List (Link × Bool × Option Link)) (lds : List LDialer) : List LDialer :=
  fl.foldl (fun acc f => acc.map (restartOne cfg f.1 f.2.1 f.2.2)) lds

/-! ### the transition function -/

/-- `HandleSession` for a session with peer `p` whose remote address is `a` (both the dial path and
the inbound path): the `QuicTable` session section, in which `delete(t.dialers, rs)` also runs
(`rs` = the remote address string — not necessarily the dial address the dialer is entered under). -/
def sessionAt (cfg : Cfg) (s : State) (a p : Nat) : State :=
  { s with q := QuicTable.step cfg.U s.q (.session a p), dmap := dmapDel s.dmap a }

/-- the link object `HandleSession` creates next at `(a, p)` -/
def nextLink (cfg : Cfg) (s : State) (a p : Nat) : Link := ⟨s.q.created.length, cfg.U a p, p⟩

def addRefStep (s : State) (k : Key) : State :=
  -- DialPeerAddr: `if err := peerID.Validate(); err != nil { return nil, err }` (resolvers: empty target ⇒ no resolver)
  if k.1 = 0 then s
  else match getLD s k with
    -- ref, dial, _ := c.linkDialers.AddKeyRef(key)   (SetKey(key, true): a new key starts its routine;
    --   an existing routine that is running or has succeeded is left alone)
    | none => { s with lds := ⟨k, 1, none, .idle⟩ :: s.lds }
    | some ld => setLD s { ld with refs := ld.refs + 1 }

def releaseStep (s : State) (k : Key) : State :=
  match getLD s k with
  | none => s
  | some ld =>
    -- ref.Release(): the last reference removes the key (RemoveKey: the routine's context is cancelled)
    if ld.refs ≤ 1 then { s with lds := s.lds.filter (fun x => x.key ≠ k) }
    else setLD s { ld with refs := ld.refs - 1 }

def step (cfg : Cfg) (lp : Nat) (s : State) : Op → State
  | .addRef k => addRefStep s k
  | .release k => releaseStep s k
  | .ret k =>
    -- DialPeerAddr: return dial.lnk.WaitValue(ctx, nil)     (returns once the container is non-nil)
    match getLD s k with
    | some ld =>
      match ld.lnk with
      | some l => { s with returned := (k, l) :: s.returned }
      | none => s
    | none => s
  | .tptAdd d =>
    -- Resolve: ref, dialer, _ := c.linkDialers.AddKeyRef(linkDialerKey{peerID: destPeerID, dialAddress: dialAddr})
    match tptKey cfg lp d with
    | some k => addRefStep s k
    | none => s
  | .tptPush d =>
    -- lnk, err := dialer.lnk.WaitValue(ctx, nil); ...; _, _ = handler.AddValue(value)
    match tptKey cfg lp d with
    | some k =>
      match getLD s k with
      | some ld =>
        match ld.lnk with
        | some l => { s with pushed := (d, l) :: s.pushed }
        | none => s
      | none => s
    | none => s
  | .tptDone d =>
    -- defer ref.Release()
    match tptKey cfg lp d with
    | some k => releaseStep s k
    | none => s
  | .rtCheck k =>
    match getLD s k with
    | some ld =>
      if ld.rt = .idle then
        -- dialer.Dialer.Execute: lnk, fatal, err := d.tptDialer.DialPeer(ctx, d.peerID, d.address)
        -- Transport.DialPeer: elnk, err := LookupAlreadyConnected(t, as, peerID)     (t.mtx: t.links[addr])
        match QuicTable.lookupAddr s.q k.2 with
        | none => setLD s { ld with rt := .checked }
        | some l =>
          --   if lnkPeer != desiredPeer { return nil, errors.Errorf("already connected to %s with different peer id ...") }
          if l.remote ≠ k.1 then setLD s { ld with rt := .backoff }
          --   if elnk != nil { return elnk, false, nil }      (before the fix: `return nil, false, nil`)
          else if cfg.yieldExisting then setLD s { ld with rt := .got (some l) }
          else setLD s { ld with rt := .got none }
      else s
    | none => s
  | .rtAttach k =>
    match getLD s k with
    | some ld =>
      if ld.rt = .checked then
        -- t.mtx.Lock()
        -- if edl, dialerOk := t.dialers[as]; dialerOk { dl = edl }   // TODO: possibly override the prior if edl.peerID != peerID
        match dmapGet s k.2 with
        | some d => setLD s { ld with rt := .awaiting d }
        | none =>
          -- if dl == nil { dl, err = NewDialer(t.ctx, t, peerID, as); t.dialers[as] = dl; go dl.Execute() }
          let d := s.qdialers.length
          setLD { s with qdialers := ⟨d, k.2, k.1, .pending⟩ :: s.qdialers, dmap := (k.2, d) :: s.dmap }
            { ld with rt := .awaiting d }
      else s
    | none => s
  | .rtAwait k =>
    match getLD s k with
    | some ld =>
      match ld.rt with
      | .awaiting d =>
        match getQD s d with
        | some qd =>
          match qd.res with
          -- lnk, err := dl.result.Await(ctx); if err != nil { return nil, false, err }
          | .failed => setLD s { ld with rt := .backoff }
          | .link l =>
            -- if len(peerID) != 0 { if lnkPeer := lnk.GetRemotePeer(); lnkPeer != peerID {
            --     return nil, false, errors.Errorf("dialed %s expecting peer %s but peer %s answered", ...) } }
            if k.1 ≠ 0 ∧ l.remote ≠ k.1 then setLD s { ld with rt := .backoff }
            -- return lnk, false, err
            else setLD s { ld with rt := .got (some l) }
          | .pending => s
        | none => s
      | _ => s
    | none => s
  | .rtTimer k =>
    match getLD s k with
    | some ld =>
      -- select { case <-ctx.Done(): ...; case <-time.After(bo): }      (and round the loop)
      if ld.rt = .backoff then setLD s { ld with rt := .idle } else s
    | none => s
  | .rtStore k =>
    match getLD s k with
    | some ld =>
      match ld.rt with
      | .got ol =>
        -- dialer.Dialer.Execute: if err == nil { d.backoff.Reset(); return lnk, nil }
        -- executeLinkDialer: if ctx.Err() != nil { return context.Canceled }; l.lnk.SetValue(lnk); return nil
        let stale : List Nat :=
          match ol with
          | some l => if l.id ∈ s.q.lostSeen ∨ l.id ∈ s.q.ctrl.closed then [l.id] else []
          | none => []
        setLD { s with staleStore := stale ++ s.staleStore } { ld with lnk := ol, rt := .done }
      | _ => s
    | none => s
  | .answer d who =>
    match getQD s d with
    | some qd =>
      if qd.res = .pending then
        -- transport_quic.Dialer.Execute: rconn, _, err := d.t.dialFn(ctx, d.addr)
        if who = 0 then
          -- if err != nil { d.result.SetResult(nil, err); return }
          { setQDRes s d .failed with pendExit := d :: s.pendExit }
        else
          -- d.result.SetResult(d.t.HandleSession(ctx, rconn))     (as := sess.RemoteAddr().String())
          let ra := cfg.resolve qd.addr
          let l := nextLink cfg s ra who
          { setQDRes (sessionAt cfg s ra who) d (.link l) with pendExit := d :: s.pendExit }
      else s
    | none => s
  | .dexit d =>
    if d ∈ s.pendExit then
      match getQD s d with
      | some qd =>
        -- defer func() { d.t.mtx.Lock(); if odl, odlOk := d.t.dialers[d.addr]; odlOk && odl == d { delete(d.t.dialers, d.addr) }; ... }()
        { s with
          pendExit := s.pendExit.erase d
          dmap := if dmapGet s qd.addr = some d then dmapDel s.dmap qd.addr else s.dmap }
      | none => { s with pendExit := s.pendExit.erase d }
    else s
  | .strayAttach a x =>
    -- the `t.mtx` section of `Transport.DialPeer(ctx, x, a)` run by a caller outside `linkDialers`
    match dmapGet s a with
    | some _ => s
    | none =>
      let d := s.qdialers.length
      { s with qdialers := ⟨d, a, x, .pending⟩ :: s.qdialers, dmap := (a, d) :: s.dmap }
  | .inbound a p => sessionAt cfg s a p
  | .close i => { s with q := QuicTable.step cfg.U s.q (.close i) }
  | .runClose i => { s with q := QuicTable.step cfg.U s.q (.runClose i) }
  | .runLost a l => { s with q := QuicTable.step cfg.U s.q (.runLost a l) }
  | .runEst l =>
    if l ∈ s.q.pendEst then
      { s with
        q := QuicTable.step cfg.U s.q (.runEst l)
        lds := applyFlushes cfg (flushedBy s.q.ctrl (.est l)) s.lds }
    else s
  | .runCtrlLost l =>
    if l ∈ s.q.pendCtrlLost then
      { s with
        q := QuicTable.step cfg.U s.q (.runCtrlLost l)
        lds := applyFlushes cfg (flushedBy s.q.ctrl (.lost l)) s.lds }
    else s

/-- The state after the controller's start section (`Controller.Execute`: the transport is
constructed, `c.execCtx`, `c.peerID`, `c.tpt` are set, `c.linkDialers.SetContext(execCtx, true)`). -/
def init (cfg : Cfg) (lp : Nat) : State := { q := QuicTable.step cfg.U {} (.start lp) }

def runs (cfg : Cfg) (lp : Nat) (s : State) (ops : List Op) : State := ops.foldl (step cfg lp) s

def run (cfg : Cfg) (lp : Nat) (ops : List Op) : State := runs cfg lp (init cfg lp) ops

/-- No goroutine of the transport / controller is pending. -/
def quiescent (s : State) : Bool := QuicTable.quiescent s.q

/-- Every finished `transport_quic.Dialer.Execute` has run its deferred removal. -/
def dialersQuiescent (s : State) : Bool := s.pendExit.isEmpty

/-- Is the op an enabled transition? (`step` ignores ops that are not.) -/
def enabled (cfg : Cfg) (lp : Nat) (s : State) : Op → Bool
  | .addRef _ => true
  | .release k => (getLD s k).isSome
  | .ret k => ((getLD s k).bind (·.lnk)).isSome
  | .tptAdd _ => true
  | .tptPush d => ((tptKey cfg lp d).bind fun k => (getLD s k).bind (·.lnk)).isSome
  | .tptDone d => ((tptKey cfg lp d).bind (getLD s)).isSome
  | .rtCheck k => (getLD s k).any (fun ld => ld.rt = .idle)
  | .rtAttach k => (getLD s k).any (fun ld => ld.rt = .checked)
  | .rtAwait k =>
    (getLD s k).any fun ld =>
      match ld.rt with
      | .awaiting d => (getQD s d).any (fun qd => qd.res ≠ .pending)
      | _ => false
  | .rtTimer k => (getLD s k).any (fun ld => ld.rt = .backoff)
  | .rtStore k => (getLD s k).any fun ld => match ld.rt with | .got _ => true | _ => false
  | .answer d _ => (getQD s d).any (fun qd => qd.res = .pending)
  | .dexit d => decide (d ∈ s.pendExit)
  | .strayAttach _ _ => true
  | .inbound _ _ => true
  | .close i => QuicTable.enabled s.q (.close i)
  | .runClose i => QuicTable.enabled s.q (.runClose i)
  | .runLost a l => QuicTable.enabled s.q (.runLost a l)
  | .runEst l => QuicTable.enabled s.q (.runEst l)
  | .runCtrlLost l => QuicTable.enabled s.q (.runCtrlLost l)

end DialSys
end Bifrost
