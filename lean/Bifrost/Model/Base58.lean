import Bifrost.Model.Bytes
/-!
Base58 (Bitcoin alphabet) as implemented by github.com/mr-tron/base58: the specification
(base conversion + one leading `1` per leading zero byte). Strings are ASCII byte lists.
`decode` rejects the empty string and any byte outside the alphabet.
-/
namespace Bifrost
namespace B58

def alphabet : Bytes :=
  [49, 50, 51, 52, 53, 54, 55, 56, 57,                     -- 1-9
   65, 66, 67, 68, 69, 70, 71, 72, 74, 75, 76, 77, 78,     -- A-H J-N
   80, 81, 82, 83, 84, 85, 86, 87, 88, 89, 90,             -- P-Z
   97, 98, 99, 100, 101, 102, 103, 104, 105, 106, 107,     -- a-k
   109, 110, 111, 112, 113, 114, 115, 116, 117, 118, 119, 120, 121, 122] -- m-z

def charOf (d : Nat) : UInt8 := alphabet.getD d 49

def valOf (c : UInt8) : Option Nat :=
  let i := alphabet.idxOf c
  if i < 58 then some i else none

/-- Big-endian value of a digit string in base `base`. -/
def ofDigitsBE (base : Nat) (ds : List Nat) : Nat := ds.foldl (fun acc d => acc * base + d) 0

/-- Little-endian digits of `n` (no trailing zero digit; `[]` for 0). -/
def toDigitsLE (base : Nat) : Nat → Nat → List Nat
  | 0, _ => []
  | fuel + 1, n => if n = 0 then [] else (n % base) :: toDigitsLE base fuel (n / base)

def leadingZeros : List Nat → Nat
  | 0 :: r => leadingZeros r + 1
  | _ => 0

/-- digits (values 0..57) of the base58 text of `b`. -/
def encodeDigits (b : Bytes) : List Nat :=
  let bs := b.map UInt8.toNat
  let z := leadingZeros bs
  List.replicate z 0 ++ (toDigitsLE 58 (2 * b.length + 1) (ofDigitsBE 256 bs)).reverse

def encode (b : Bytes) : Bytes := (encodeDigits b).map charOf

def decodeDigits (ds : List Nat) : Bytes :=
  let z := leadingZeros ds
  (List.replicate z 0 ++ (toDigitsLE 256 (ds.length + 1) (ofDigitsBE 58 ds)).reverse).map UInt8.ofNat

def decode (s : Bytes) : Option Bytes :=
  if s.isEmpty then none else
  match s.mapM valOf with
  | some ds => some (decodeDigits ds)
  | none => none

end B58

/-- Bytewise lexicographic comparison = Go `strings.Compare` / `bytes.Compare` / string `<`. -/
def lexLt : Bytes → Bytes → Bool
  | [], [] => false
  | [], _ :: _ => true
  | _ :: _, [] => false
  | a :: as, b :: bs => if a < b then true else if b < a then false else lexLt as bs

def lexCmp (a b : Bytes) : Int := if lexLt a b then -1 else if lexLt b a then 1 else 0

end Bifrost
