import Bifrost.Model.SolicitSys
/-!
A solicitation controller with SEVERAL links — the hub of `link/solicit/controller/controller.go`
seen from one node: `c.solicitations` is ONE set shared by all links, `c.links` holds one
`linkState` (session id, `localIsLower`, `remoteHashes`, `matched`) per link, and every link runs
its own `runControlStream` loop, which snapshots `getSolicitEntries(ls.ml)` — the shared set
filtered by THAT link's remote peer and transport — under the lock.

Model: link `i` is an instance of the two-sided exchange `Bifrost.SolicitSys` with its own
configuration `cfgs[i]` (side `A` = the hub: `pA` is the hub's peer id on every link; `pB`, `tA`
— the transport the hub mounted the link on —, `tB`, `maxB` are the link's). A directive change
on the hub (`add` / `remove`) is ONE step that changes side `A` of EVERY link; everything else
(`link i o`: a directive change on spoke `i`, a loop iteration of either end of link `i`, a
delivery, an open, an arrival) touches link `i` only. Nothing else is shared: in particular no
state computed for one link (an entry list, a hash list) is ever used for another.

PARALLEL links (two links between the same two nodes) are two indices whose configurations name
the same peers and whose spoke side carries the same directive changes: the one directive change
of the remote node is `link i (add .B d)` for every such `i` (`Props.C30Hub.parallel_links_share_dirs`).
A link that is REMOVED and RE-ESTABLISHED is a new index as well: `removeLink` drops the
`linkState` and ends its loop (the index takes no further step), `addLink` allocates a fresh one
(same uuid, session id and `localIsLower` recomputed, `matched` empty) — an index on which nothing
but the two nodes' directive changes has happened until it comes up (`Props.C30Hub.relinked_is_fresh`).
-/
namespace Bifrost
namespace SolicitHub
open Bifrost.Solicit Bifrost.SolicitSys

inductive Op where
  | add (d : Dir)                         -- a SolicitProtocol directive is added on the hub
  | remove (id : Nat)                     -- hub directive instance `id` is removed
  | link (i : Nat) (o : SolicitSys.Op)    -- an action of link `i` that is not a hub directive change
deriving Repr, DecidableEq

/-- hub directive changes are not link-local actions -/
def hubDir : SolicitSys.Op → Bool
  | .add .A _ => true
  | .remove .A _ => true
  | _ => false

/-- one state of the two-sided exchange per link -/
abbrev State := List SolicitSys.State

def init (cfgs : List Cfg) : State := cfgs.map fun _ => {}

/-- the same exchange step on every link (each with its own configuration) -/
def stepAll (H : Bytes → Bytes) (o : SolicitSys.Op) : List Cfg → State → State
  | c :: cs, s :: ss => SolicitSys.step H c s o :: stepAll H o cs ss
  | _, ss => ss

/-- an exchange step on link `i` only -/
def stepAt (H : Bytes → Bytes) (o : SolicitSys.Op) : Nat → List Cfg → State → State
  | 0, c :: _, s :: ss => SolicitSys.step H c s o :: ss
  | i + 1, _ :: cs, s :: ss => s :: stepAt H o i cs ss
  | _, _, ss => ss

def step (H : Bytes → Bytes) (cfgs : List Cfg) (st : State) : Op → State
  | .add d => stepAll H (.add .A d) cfgs st
  | .remove id => stepAll H (.remove .A id) cfgs st
  | .link i o => if hubDir o then st else stepAt H o i cfgs st

def run (H : Bytes → Bytes) (cfgs : List Cfg) (ops : List Op) : State :=
  ops.foldl (step H cfgs) (init cfgs)

/-- What link `i` sees of a hub history: the hub's directive changes (as changes of its side `A`)
and its own actions. -/
def proj (i : Nat) : Op → List SolicitSys.Op
  | .add d => [.add .A d]
  | .remove id => [.remove .A id]
  | .link j o => if j = i ∧ hubDir o = false then [o] else []

def projOps (i : Nat) (ops : List Op) : List SolicitSys.Op := ops.flatMap (proj i)

/-- the hub's directive set as link state `s` holds it: (instance id, parameters) -/
def hubDirs (s : SolicitSys.State) : List (Nat × Dir) := s.a.dirs.map fun x => (x.id, x.d)

end SolicitHub
end Bifrost
