import Bifrost.Model.Codec
import Bifrost.Model.Utf8
/-!
Key encodings, configuration parsers and key files:
`crypto/crypto.go`, `crypto/ed25519.go`, `crypto/key-to-stdlib.go`, `keypem/keypem.go`,
`keypem/keyfile/keyfile.go`, `util/confparse/*.go`, `tptaddr/tptaddr.go`,
`tptaddr/static/controller.go`, `protocol/id.go`.

Strings are byte lists. An Ed25519 private key is its 64 raw bytes (`seed ‖ public`), a public
key its 32 raw bytes. Standard-library codecs that bifrost only wraps (encoding/pem,
time.ParseDuration, the proto3 JSON timestamp reader, net/url, regexp, strconv.Quote) are
*parameters* of the model functions. Core Lean only.
-/
namespace Bifrost
namespace Config
open Codec

/-- Outcome of a Go call that returns `(value, error)` and could panic. -/
inductive Res (α : Type) where
  | ok (a : α)
  | err
  | panic
deriving Repr, DecidableEq

/-! ### Go slice expressions with their bounds checks -/

/-- `b[lo:]` — `none` = run-time panic (slice bounds out of range). -/
def sliceFrom? (b : Bytes) (lo : Nat) : Option Bytes :=
  if lo ≤ b.length then some (b.drop lo) else none

/-- `b[lo:hi]`. -/
def slice? (b : Bytes) (lo hi : Nat) : Option Bytes :=
  if lo ≤ hi ∧ hi ≤ b.length then some ((b.take hi).drop lo) else none

/-! ### strings.TrimSpace / strings.HasPrefix -/

def asciiSpace (c : UInt8) : Bool :=
  c == 9 || c == 10 || c == 11 || c == 12 || c == 13 || c == 32

/-- Number of bytes of the white-space rune (`unicode.IsSpace`) at the head of the string,
0 if the string does not start with one. The non-ASCII white-space runes are U+0085, U+00A0,
U+1680, U+2000–U+200A, U+2028, U+2029, U+202F, U+205F, U+3000; each has exactly one valid
UTF-8 encoding, and Go's decoder yields `RuneError` (not a space) for anything invalid. -/
def spaceLen : Bytes → Nat
  | [] => 0
  | a :: rest =>
    if asciiSpace a then 1
    else if a == 0xC2 then
      match rest with
      | b :: _ => if b == 0x85 || b == 0xA0 then 2 else 0
      | _ => 0
    else if a == 0xE1 then
      match rest with
      | b :: c :: _ => if b == 0x9A && c == 0x80 then 3 else 0
      | _ => 0
    else if a == 0xE2 then
      match rest with
      | b :: c :: _ =>
        if b == 0x80 && ((0x80 ≤ c && c ≤ 0x8A) || c == 0xA8 || c == 0xA9 || c == 0xAF) then 3
        else if b == 0x81 && c == 0x9F then 3
        else 0
      | _ => 0
    else if a == 0xE3 then
      match rest with
      | b :: c :: _ => if b == 0x80 && c == 0x80 then 3 else 0
      | _ => 0
    else 0

/-- The same for the *last* rune of a string, given the string reversed
(`utf8.DecodeLastRuneInString`). -/
def spaceLenRev : Bytes → Nat
  | [] => 0
  | z :: rest =>
    if asciiSpace z then 1
    else match rest with
      | y :: rest2 =>
        if y == 0xC2 && (z == 0x85 || z == 0xA0) then 2
        else match rest2 with
          | x :: _ =>
            if x == 0xE1 && y == 0x9A && z == 0x80 then 3
            else if x == 0xE2 && y == 0x80 && ((0x80 ≤ z && z ≤ 0x8A) || z == 0xA8 || z == 0xA9 || z == 0xAF) then 3
            else if x == 0xE2 && y == 0x81 && z == 0x9F then 3
            else if x == 0xE3 && y == 0x80 && z == 0x80 then 3
            else 0
          | _ => 0
      | _ => 0

def trimWith (len : Bytes → Nat) : Nat → Bytes → Bytes
  | 0, s => s
  | fuel + 1, s =>
    let n := len s
    if n = 0 then s else trimWith len fuel (s.drop n)

def trimLeft (s : Bytes) : Bytes := trimWith spaceLen s.length s
def trimRight (s : Bytes) : Bytes := (trimWith spaceLenRev s.length s.reverse).reverse

/-- `strings.TrimSpace`. -/
def trimSpace (s : Bytes) : Bytes := trimRight (trimLeft s)

/-- `"-----BEGIN"`. -/
def pemBegin : Bytes := [45, 45, 45, 45, 45, 66, 69, 71, 73, 78]

/-- `strings.HasPrefix`. -/
def hasPrefix (s p : Bytes) : Bool := p.isPrefixOf s

/-! ### crypto.PrivateKey / Ed25519 private keys -/

/-- `MarshalPrivateKey` of an Ed25519 key with raw bytes `raw`. -/
def marshalPrivateKey (raw : Bytes) : Bytes :=
  PW.encVarintOpt 1 1 ++ PW.encBytesOpt 2 raw

/-- `subtle.ConstantTimeCompare(a, b) == 1`. -/
def ctEq (a b : Bytes) : Bool := a.length = b.length && a = b

/-- `UnmarshalEd25519PrivateKey`: the 64 raw bytes of the key. -/
def unmarshalEd25519PrivateKey (data : Bytes) : Res Bytes :=
  if data.length = 96 then
    match sliceFrom? data 64 with
    | none => .panic
    | some redundantPk =>
      match slice? data 32 64 with
      | none => .panic
      | some pk =>
        if ctEq pk redundantPk = false then .err
        else
          match slice? data 0 64 with
          | none => .panic
          | some newKey => .ok newKey
  else if data.length = 64 then .ok data
  else .err

/-- `UnmarshalPrivateKey`. -/
def unmarshalPrivateKey (b : Bytes) : Res Bytes :=
  match PW.decode pubKeySchema b with
  | .error _ => .err
  | .ok r =>
    if PW.toInt32 (r.lastVarint 1) ≠ keyTypeEd25519 then .err
    else unmarshalEd25519PrivateKey (r.lastBytes 2)

/-- `UnmarshalPublicKey` as a `Res` (it has no slice expression: it cannot panic). -/
def unmarshalPublicKeyR (b : Bytes) : Res Bytes :=
  match unmarshalPublicKey b with
  | some k => .ok k
  | none => .err

/-- `Ed25519PrivateKey.GetPublic`: `k.k[32:]`. -/
def getPublic (k : Bytes) : Res Bytes :=
  match sliceFrom? k 32 with
  | none => .panic
  | some p => .ok p

/-- `peer.IDFromPrivateKey`. -/
def idFromPrivateKey (k : Bytes) : Res Bytes :=
  match getPublic k with
  | .ok p => .ok (idFromPublicKey p)
  | .err => .err
  | .panic => .panic

/-- A freshly generated key (`ed25519.GenerateKey` / `NewKeyFromSeed`): `seed ‖ pubOf seed`. -/
def genKey (pubOf : Bytes → Bytes) (seed : Bytes) : Bytes := seed ++ pubOf seed

/-! ### crypto/key-to-stdlib.go -/

/-- `KeyPairFromStdKey` of an `ed25519.PrivateKey` (a byte slice of any length):
`p.Public()` copies `p[32:]` and panics on a short slice. Result `(priv, pub)`. -/
def keyPairFromStdKey (p : Bytes) : Res (Bytes × Bytes) :=
  match sliceFrom? p 32 with
  | none => .panic
  | some tail => .ok (p, (tail ++ List.replicate 32 0).take 32)

/-- `PrivKeyToStdKey`. -/
def privKeyToStdKey (k : Bytes) : Bytes := k

/-! ### crypto.Key.Equals -/

/-- A `crypto.Key` as `Equals` sees it: the protobuf key type (`Type()`) and the raw bytes
(`Raw()`). An Ed25519 private key is `⟨1, 64 bytes⟩`, a public key `⟨1, 32 bytes⟩`. -/
structure KeyVal where
  typ : Int
  raw : Bytes
deriving Repr, DecidableEq

/-- `k.Equals(o)` for `*Ed25519PrivateKey` / `*Ed25519PublicKey` receivers. `none` = a nil
interface or a nil key pointer (compares unequal; before the fix `basicEquals` dereferenced it).
Same Go type: `subtle.ConstantTimeCompare` / `bytes.Equal` of the raw keys; any other
implementation: `basicEquals` = same `Type()` and same raw bytes. Two Ed25519 keys have the same
`Type()`, so both paths are "type and raw bytes agree". -/
def keyEquals (k : KeyVal) (o : Option KeyVal) : Bool :=
  match o with
  | none => false
  | some o => k.typ = o.typ && ctEq k.raw o.raw

/-! ### key generation -/

/-- `crypto.GenerateKeyPairWithReader(typ, bits, src)` / `GenerateEd25519Key(src)`: `src` = the
bytes the reader can deliver before it ends or fails. `ed25519.GenerateKey` reads exactly 32 bytes
with `io.ReadFull` (fewer ⇒ error) and returns `NewKeyFromSeed` of them. Result `(priv, pub)`. -/
def generateKeyPair (pubOf : Bytes → Bytes) (typ : Int) (src : Bytes) : Res (Bytes × Bytes) :=
  if typ ≠ keyTypeEd25519 then .err
  else if src.length < 32 then .err
  else .ok (genKey pubOf (src.take 32), pubOf (src.take 32))

/-! ### marshalling a key that may be nil

`keypem.ParsePrivKeyPem` / `ParsePubKeyPem` / `confparse.ParsePrivateKeyPEM("")` return
`(nil, nil)`; a caller that marshals that result back hands a nil key to these functions.
After the fix `crypto.MarshalPrivateKey(nil)` / `MarshalPublicKey(nil)` return an error (before:
nil dereference in `k.Raw()`), and so do the PEM wrappers built on them; the base58 config
wrappers return the empty string for an absent key. -/

/-- `crypto.MarshalPrivateKey(k)`; `none` = nil. -/
def marshalPrivateKeyOpt : Option Bytes → Res Bytes
  | none => .err
  | some k => .ok (marshalPrivateKey k)

/-- `crypto.MarshalPublicKey(k)`. -/
def marshalPublicKeyOpt : Option Bytes → Res Bytes
  | none => .err
  | some p => .ok (marshalPublicKey p)

/-- The same functions BEFORE the fix: `k.Raw()` on a nil interface panics. -/
def marshalKeyOptPreFix (enc : Bytes → Bytes) : Option Bytes → Res Bytes
  | none => .panic
  | some k => .ok (enc k)

/-! ### PEM (encoding/pem is a parameter) -/

/-- `encoding/pem`: `encode type bytes` = `pem.EncodeToMemory` of a header-less block;
`decode` = `pem.Decode` giving `(type, bytes, rest)` of the first block, `none` if no block. -/
structure PemCodec where
  encode : Bytes → Bytes → Bytes
  decode : Bytes → Option (Bytes × Bytes × Bytes)

/-- `"LIBP2P PRIVATE KEY"`. -/
def privPemType : Bytes := [76, 73, 66, 80, 50, 80, 32, 80, 82, 73, 86, 65, 84, 69, 32, 75, 69, 89]
/-- `"LIBP2P PUBLIC KEY"`. -/
def pubPemType : Bytes := [76, 73, 66, 80, 50, 80, 32, 80, 85, 66, 76, 73, 67, 32, 75, 69, 89]

/-- `keypem.ParseKeyPem`: `(private?, public?)`; `(none, none)` when there is no PEM block. -/
def parseKeyPem (P : PemCodec) (d : Bytes) : Res (Option Bytes × Option Bytes) :=
  match P.decode d with
  | none => .ok (none, none)
  | some (t, b, _) =>
    if t = privPemType then
      match unmarshalPrivateKey b with
      | .ok k =>
        match getPublic k with
        | .ok p => .ok (some k, some p)
        | .err => .err
        | .panic => .panic
      | .err => .err
      | .panic => .panic
    else if t = pubPemType then
      match unmarshalPublicKeyR b with
      | .ok p => .ok (none, some p)
      | .err => .err
      | .panic => .panic
    else .err

/-- `keypem.ParsePrivKeyPem`: `ok none` = `(nil, nil)`. -/
def parsePrivKeyPem (P : PemCodec) (d : Bytes) : Res (Option Bytes) :=
  match P.decode d with
  | none => .ok none
  | some (t, b, _) =>
    if t ≠ privPemType then .err
    else match unmarshalPrivateKey b with
      | .ok k => .ok (some k)
      | .err => .err
      | .panic => .panic

/-- `keypem.ParsePubKeyPem`. -/
def parsePubKeyPem (P : PemCodec) (d : Bytes) : Res (Option Bytes) :=
  match parseKeyPem P d with
  | .ok (_, pub) => .ok pub
  | .err => .err
  | .panic => .panic

def marshalPrivKeyPem (P : PemCodec) (k : Bytes) : Bytes := P.encode privPemType (marshalPrivateKey k)
def marshalPubKeyPem (P : PemCodec) (p : Bytes) : Bytes := P.encode pubPemType (marshalPublicKey p)

/-- `keypem.MarshalPrivKeyPem(k)` = `confparse.MarshalPrivateKeyPEM(k)`; `none` = nil key. -/
def marshalPrivKeyPemOpt (P : PemCodec) (k : Option Bytes) : Res Bytes :=
  match marshalPrivateKeyOpt k with
  | .ok dat => .ok (P.encode privPemType dat)
  | .err => .err
  | .panic => .panic

/-- `keypem.MarshalPubKeyPem(k)` = `confparse.MarshalPublicKeyPEM(k)`. -/
def marshalPubKeyPemOpt (P : PemCodec) (p : Option Bytes) : Res Bytes :=
  match marshalPublicKeyOpt p with
  | .ok dat => .ok (P.encode pubPemType dat)
  | .err => .err
  | .panic => .panic

/-! ### util/confparse keys -/

/-- `confparse.ParsePrivateKeyPEM`. -/
def parsePrivateKeyPEM (P : PemCodec) (d : Bytes) : Res (Option Bytes) :=
  if d.isEmpty then .ok none else
  match parsePrivKeyPem P d with
  | .ok none => .err
  | r => r

/-- `confparse.ParsePublicKeyPEM`. -/
def parsePublicKeyPEM (P : PemCodec) (d : Bytes) : Res (Option Bytes) :=
  if d.isEmpty then .ok none else
  match parsePubKeyPem P d with
  | .ok none => .err
  | r => r

/-- `confparse.ParsePrivateKey` (PEM or base58). -/
def parsePrivateKey (P : PemCodec) (s : Bytes) : Res (Option Bytes) :=
  let s := trimSpace s
  if s.isEmpty then .ok none
  else if hasPrefix s pemBegin then parsePrivateKeyPEM P s
  else match B58.decode s with
    | none => .err
    | some d =>
      match unmarshalPrivateKey d with
      | .ok k => .ok (some k)
      | .err => .err
      | .panic => .panic

/-- `confparse.ParsePublicKey`. -/
def parsePublicKey (P : PemCodec) (s : Bytes) : Res (Option Bytes) :=
  let s := trimSpace s
  if s.isEmpty then .ok none
  else if hasPrefix s pemBegin then parsePublicKeyPEM P s
  else match B58.decode s with
    | none => .err
    | some d =>
      match unmarshalPublicKeyR d with
      | .ok k => .ok (some k)
      | .err => .err
      | .panic => .panic

/-- `confparse.MarshalPrivateKey` (base58 text) of a non-nil key. -/
def confMarshalPrivateKey (k : Bytes) : Bytes := B58.encode (marshalPrivateKey k)
/-- `confparse.MarshalPublicKey`. -/
def confMarshalPublicKey (p : Bytes) : Bytes := B58.encode (marshalPublicKey p)

/-- `confparse.MarshalPrivateKey(key)` for a key that may be nil: nil ⇒ `("", nil)`. -/
def confMarshalPrivateKeyOpt : Option Bytes → Res Bytes
  | none => .ok []
  | some k => .ok (confMarshalPrivateKey k)

/-- `confparse.MarshalPublicKey(key)`. -/
def confMarshalPublicKeyOpt : Option Bytes → Res Bytes
  | none => .ok []
  | some p => .ok (confMarshalPublicKey p)

/-! ### protocol IDs -/

/-- `protocol.ID.Validate() == nil`. -/
def protocolIdValid (s : Bytes) : Bool := !s.isEmpty && Utf8.valid s

/-- `confparse.ParseProtocolID`. -/
def parseProtocolId (s : Bytes) (allowEmpty : Bool) : Option Bytes :=
  if allowEmpty && s.isEmpty then some []
  else if protocolIdValid s then some s else none

/-- `confparse.ParseProtocolIDs`. -/
def parseProtocolIds : List Bytes → Bool → Option (List Bytes)
  | [], _ => some []
  | s :: rest, allowEmpty =>
    match parseProtocolId s allowEmpty with
    | none => none
    | some p =>
      match parseProtocolIds rest allowEmpty with
      | none => none
      | some ps => some (p :: ps)

/-- The de-duplication loop shared by `Parse…Unique`: keeps first occurrences, in order.
`acc` is the output so far (the Go map holds exactly its elements). -/
def appendUnique (acc : List Bytes) (p : Bytes) : List Bytes :=
  if acc.contains p then acc else acc ++ [p]

/-- `confparse.ParseProtocolIDsUnique`. -/
def parseProtocolIdsUniqueLoop : List Bytes → Bool → List Bytes → Option (List Bytes)
  | [], _, acc => some acc
  | s :: rest, allowEmpty, acc =>
    match parseProtocolId s allowEmpty with
    | none => none
    | some p => parseProtocolIdsUniqueLoop rest allowEmpty (appendUnique acc p)

def parseProtocolIdsUnique (l : List Bytes) (allowEmpty : Bool) : Option (List Bytes) :=
  parseProtocolIdsUniqueLoop l allowEmpty []

/-! ### peer IDs -/

/-- `confparse.ParsePeerID`: the empty string is the empty ID. -/
def parsePeerId (s : Bytes) : Option Bytes :=
  if s.isEmpty then some [] else idB58Decode s

/-- `confparse.ParsePeerIDs`. -/
def parsePeerIds : List Bytes → Bool → Option (List Bytes)
  | [], _ => some []
  | s :: rest, allowEmpty =>
    if s.isEmpty then
      if allowEmpty then parsePeerIds rest allowEmpty else none
    else match idB58Decode s with
      | none => none
      | some v =>
        match parsePeerIds rest allowEmpty with
        | none => none
        | some vs => some (v :: vs)

/-- `confparse.ParsePeerIDsUnique`. -/
def parsePeerIdsUniqueLoop : List Bytes → Bool → List Bytes → Option (List Bytes)
  | [], _, acc => some acc
  | s :: rest, allowEmpty, acc =>
    match parsePeerId (trimSpace s) with
    | none => none
    | some pid =>
      if pid.isEmpty then
        if allowEmpty then parsePeerIdsUniqueLoop rest allowEmpty acc else none
      else parsePeerIdsUniqueLoop rest allowEmpty (appendUnique acc pid)

def parsePeerIdsUnique (l : List Bytes) (allowEmpty : Bool) : Option (List Bytes) :=
  parsePeerIdsUniqueLoop l allowEmpty []

/-- `confparse.ValidatePeerID(id) == nil`: parses, and is not the empty ID. -/
def validatePeerId (s : Bytes) : Bool :=
  match parsePeerId s with
  | none => false
  | some pid => !pid.isEmpty

/-! ### confparse.ParsePeer / ValidatePubKey -/

/-- A `peer.Peer`: private key (if known), public key, peer ID. -/
structure PeerInfo where
  priv : Option Bytes
  pub : Bytes
  id : Bytes
deriving Repr, DecidableEq

/-- `confparse.ParsePeer(privKey, pubKey, peerId)`: the first of the three that is set wins. -/
def parsePeer (P : PemCodec) (priv pub pid : Bytes) : Res PeerInfo :=
  match parsePrivateKey P priv with
  | .err => .err
  | .panic => .panic
  | .ok (some k) =>
    -- peer.NewPeer: IDFromPrivateKey(k) = IDFromPublicKey(k.GetPublic())
    match getPublic k with
    | .ok p => .ok ⟨some k, p, idFromPublicKey p⟩
    | .err => .err
    | .panic => .panic
  | .ok none =>
    match parsePublicKey P pub with
    | .err => .err
    | .panic => .panic
    | .ok (some p) => .ok ⟨none, p, idFromPublicKey p⟩      -- peer.NewPeerWithPubKey
    | .ok none =>
      match parsePeerId pid with
      | none => .err
      | some id =>
        if id.isEmpty then .err
        else
          -- peer.NewPeerWithID: the ID is re-derived from the extracted key
          match extractPublicKey id with
          | none => .err
          | some p => .ok ⟨none, p, idFromPublicKey p⟩

/-- `confparse.ValidatePubKey(pubKeyString, peerID) == nil`. -/
def validatePubKey (P : PemCodec) (s peerId : Bytes) : Res Bool :=
  match parsePublicKey P s with
  | .panic => .panic
  | .err => .ok false
  | .ok none => .ok false
  | .ok (some p) => if peerId.isEmpty then .ok true else .ok (matchesPublicKey peerId p)

/-! ### transport addresses -/

/-- `'|'`. -/
def bar : UInt8 := 124

/-- `strings.Cut(s, "|")`: `(before, after, found)`. -/
def cutBar : Bytes → Bytes × Bytes × Bool
  | [] => ([], [], false)
  | a :: rest =>
    if a = bar then ([], rest, true)
    else
      let r := cutBar rest
      (a :: r.1, r.2.1, r.2.2)

/-- `tptaddr.ParseTptAddr`. -/
def parseTptAddr (s : Bytes) : Option (Bytes × Bytes) :=
  let r := cutBar s
  if !r.2.2 || r.1.isEmpty || r.2.1.isEmpty then none else some (r.1, r.2.1)

/-- The text form `{transport-id}|{address}`. -/
def formatTptAddr (t a : Bytes) : Bytes := t ++ bar :: a

/-! ### static peer address map -/

/-- `sort.Strings` (any sorting algorithm gives this result: the order is total on strings). -/
def insertSorted (x : Bytes) : List Bytes → List Bytes
  | [] => [x]
  | y :: ys => if lexLt y x then y :: insertSorted x ys else x :: y :: ys

def sortStrings : List Bytes → List Bytes
  | [] => []
  | x :: xs => insertSorted x (sortStrings xs)

/-- `slices.Compact`: drop consecutive duplicates. -/
def compact : List Bytes → List Bytes
  | [] => []
  | [x] => [x]
  | x :: y :: rest => if x = y then compact (y :: rest) else x :: compact (y :: rest)

/-- `peers[k] = append(peers[k], v)` on an association list. -/
def mapAppend : List (Bytes × List Bytes) → Bytes → Bytes → List (Bytes × List Bytes)
  | [], k, v => [(k, [v])]
  | (k', vs) :: rest, k, v =>
    if k' = k then (k', vs ++ [v]) :: rest else (k', vs) :: mapAppend rest k v

/-- What one entry of the list contributes: `inl false` = format error, `inl true` = peer ID
error, `inr (key, address)`. -/
def parsePeerAddrEntry (entry : Bytes) : Bool ⊕ (Bytes × Bytes) :=
  let r := cutBar entry
  let tptaddr := trimSpace r.2.1
  if !r.2.2 || !tptaddr.contains bar then .inl false
  else match idB58Decode (trimSpace r.1) with
    | none => .inl true
    | some pid => .inr (idB58Encode pid, tptaddr)

/-- First loop of `ParsePeerAddressMap`: `(peers, number of errors)`. -/
def peerAddrLoop : List Bytes → List (Bytes × List Bytes) → Nat → List (Bytes × List Bytes) × Nat
  | [], m, e => (m, e)
  | entry :: rest, m, e =>
    match parsePeerAddrEntry entry with
    | .inl _ => peerAddrLoop rest m (e + 1)
    | .inr (k, v) => peerAddrLoop rest (mapAppend m k v) e

/-- `tptaddr_static.ParsePeerAddressMap`. -/
def parsePeerAddressMap (l : List Bytes) : List (Bytes × List Bytes) × Nat :=
  let r := peerAddrLoop l [] 0
  (r.1.map (fun kv => (kv.1, compact (sortStrings kv.2))), r.2)

/-! ### the static address controller (consumer of the map) -/

/-- `c.peers[key]`: the slice stored under `key`, `[]` (nil slice) if the key is absent. -/
def mapLookup (m : List (Bytes × List Bytes)) (key : Bytes) : List Bytes :=
  match m.find? (fun kv => kv.1 = key) with
  | some kv => kv.2
  | none => []

/-- `tptaddr_static.NewController(conf)`: the peers map, `none` = error (the first parse error
is returned when any entry of the list is malformed). -/
def newStaticController (l : List Bytes) : Option (List (Bytes × List Bytes)) :=
  let r := parsePeerAddressMap l
  if r.2 ≠ 0 then none else some r.1

/-- `(*Config).Validate() == nil`. -/
def staticConfigValid (l : List Bytes) : Bool := (parsePeerAddressMap l).2 = 0

/-- `resolveLookupTptAddr` for a `LookupTptAddr` directive with target peer `pid` (raw ID
bytes): the values the returned resolver emits, in order; `[]` = no resolver is returned.
The map is keyed by the base58 text of the ID (`targetPeerID.String()`). -/
def resolveLookup (m : List (Bytes × List Bytes)) (pid : Bytes) : List Bytes :=
  mapLookup m (idB58Encode pid)

/-! ### wrappers around standard-library parsers -/

/-- `confparse.ParseDuration` around `time.ParseDuration` (`none` = error). -/
def parseDuration (parse : Bytes → Option Int) (s : Bytes) : Option Int :=
  if s.isEmpty then some 0 else parse s

/-- `confparse.MarshalDuration` around `time.Duration.String`. -/
def marshalDuration (format : Int → Bytes) (d : Int) (ignoreEmpty : Bool) : Bytes :=
  if d = 0 && !ignoreEmpty then [] else format d

/-- A `timestamppb.Timestamp`: seconds and nanos. -/
abbrev Ts := Int × Int

/-- `confparse.ParseTimestamp`: `quote` = `strconv.Quote`, `json` = `Timestamp.UnmarshalJSON`
(`none` = error). `ok none` = `(nil, nil)`. -/
def parseTimestamp (quote : Bytes → Bytes) (json : Bytes → Option Ts) (s : Bytes) : Option (Option Ts) :=
  if s.isEmpty then some none else
  match json (quote s) with
  | some t => some (some t)
  | none =>
    match json s with
    | some t => some (some t)
    | none => none

/-- `confparse.MarshalTimestamp`: `format` = `ts.AsTime().Format(layout)`. -/
def marshalTimestamp (format : Ts → Bytes) (ts : Option Ts) : Bytes :=
  match ts with
  | none => []
  | some t => format t

/-- `confparse.ParseURL` / `ParseRegexp`: empty ⇒ `(nil, nil)`, else the library parser. -/
def parseOptional {α : Type} (parse : Bytes → Option α) (s : Bytes) : Option (Option α) :=
  if s.isEmpty then some none else
  match parse s with
  | some v => some (some v)
  | none => none

/-- `confparse.ValidateURL(uri, allowEmpty) == nil`. -/
def validateUrl {α : Type} (parse : Bytes → Option α) (s : Bytes) (allowEmpty : Bool) : Bool :=
  match parseOptional parse s with
  | none => false
  | some none => allowEmpty
  | some (some _) => true

/-- `confparse.ParseURLs`: empty entries are removed (or an error if not allowed). -/
def parseUrls {α : Type} (parse : Bytes → Option α) : List Bytes → Bool → Option (List α)
  | [], _ => some []
  | s :: rest, allowEmpty =>
    match parseOptional parse s with
    | none => none
    | some none => if allowEmpty then parseUrls parse rest allowEmpty else none
    | some (some v) =>
      match parseUrls parse rest allowEmpty with
      | none => none
      | some vs => some (v :: vs)

/-! ### key files -/

/-- What is at the key file's path. `statErr` = `os.Stat` fails with something other than
"does not exist" (ENOTDIR, ELOOP, ENAMETOOLONG, EACCES …). -/
inductive FsState where
  | missing
  | statErr
  | dir
  | file (b : Bytes)
deriving Repr, DecidableEq

/-- `(key, err)` as returned by `OpenOrWritePrivKey` (it may return both). -/
structure KeyErr where
  key : Option Bytes
  err : Bool
deriving Repr, DecidableEq

/-- `keyfile.OpenOrWritePrivKey`. `gen` = the key `GenerateEd25519Key(rand.Reader)` returns
(`none` = the random source failed), `writeOk` = whether `os.WriteFile` succeeds.
Result: `(key, err)`, the file-system state afterwards, and `panic`. -/
def openOrWrite (P : PemCodec) (gen : Option Bytes) (writeOk : Bool) (fs : FsState) : Res (KeyErr × FsState) :=
  match fs with
  | .missing =>
    match gen with
    | none => .ok (⟨none, true⟩, fs)
    | some k =>
      let dat := marshalPrivKeyPem P k
      if writeOk then .ok (⟨some k, false⟩, .file dat)
      else .ok (⟨some k, true⟩, fs)
  | .statErr => .ok (⟨none, true⟩, fs)
  | .dir => .ok (⟨none, true⟩, fs)           -- os.ReadFile: EISDIR
  | .file b =>
    match parsePrivKeyPem P b with
    | .ok (some k) => .ok (⟨some k, false⟩, fs)
    | .ok none => .ok (⟨none, true⟩, fs)
    | .err => .ok (⟨none, true⟩, fs)
    | .panic => .panic

/-- The part of `OpenOrWritePrivKey` that runs after `os.Stat` has reported "does not exist":
generate `k`, marshal it, `os.WriteFile` (O_CREATE|O_TRUNC — it REPLACES whatever is at the path by
then). `fs` is the state of the path at the moment of the write. -/
def writeAfterMissing (P : PemCodec) (k : Bytes) (fs : FsState) : KeyErr × FsState :=
  match fs with
  | .missing => (⟨some k, false⟩, .file (marshalPrivKeyPem P k))
  | .file _ => (⟨some k, false⟩, .file (marshalPrivKeyPem P k))
  | _ => (⟨some k, true⟩, fs)

/-- Concurrent first start: every caller has already seen "does not exist" for the same missing
path (stat and write are two system calls); the callers, with generated keys `ks`, then write in list
order. Result: what each caller returns, and the path afterwards. -/
def concurrentFirstStart (P : PemCodec) (ks : List Bytes) : List KeyErr × FsState :=
  ks.foldl (fun (acc : List KeyErr × FsState) k =>
    ((acc.1 ++ [(writeAfterMissing P k acc.2).1]), (writeAfterMissing P k acc.2).2)) ([], .missing)

/-- The function as it was before the fix (known defect F20), kept to state what was wrong. -/
def openOrWritePreFix (P : PemCodec) (gen : Option Bytes) (writeOk : Bool) (fs : FsState) : Res (KeyErr × FsState) :=
  match fs with
  | .statErr => .ok (⟨none, false⟩, fs)
  | .file b =>
    match parsePrivKeyPem P b with
    | .ok (some k) => .ok (⟨some k, false⟩, fs)
    | .ok none => .ok (⟨none, false⟩, fs)
    | .err => .ok (⟨none, true⟩, fs)
    | .panic => .panic
  | _ => openOrWrite P gen writeOk fs

/-! ### read-only uses of a key file / key text (callers of the PEM parsers)

`cli/util/util.go` (`read-private`, `read-public`, `derive-public`, `derive-ssh-public`),
`daemon/api/api_pubsub_subscribe.go` (`priv_key_pem` of a Subscribe request) — read-only: after the
fixes none of them draws a random key or writes a file — and the two callers of
`keyfile.OpenOrWritePrivKey`: `cli/envelope.go` (`loadPubKeys`, `loadPrivKeys`) and
`cmd/bifrost/cmd_daemon.go` (`runDaemon`), for which a missing path means "generate, write, use". -/

/-- `os.ReadFile(path)`: the content, `none` = error (missing, unreadable, a directory). -/
def readFile : FsState → Option Bytes
  | .file b => some b
  | _ => none

/-- `peer.NewPeer(key)` for a non-nil key. -/
def newPeer (k : Bytes) : Res PeerInfo :=
  match getPublic k with
  | .ok p => .ok ⟨some k, p, idFromPublicKey p⟩
  | .err => .err
  | .panic => .panic

/-- The identity a PEM text yields where a PRIVATE key is required: `keypem.ParsePrivKeyPem`,
"no PEM block" (`(nil, nil)`) is an error, then `peer.NewPeer(key)`.
= `cliutil.readInputFilePrivKey` on the file content = the `priv_key_pem` branch of `API.Subscribe`. -/
def privPeerOfPem (P : PemCodec) (b : Bytes) : Res PeerInfo :=
  match parsePrivKeyPem P b with
  | .ok (some k) => newPeer k
  | .ok none => .err
  | .err => .err
  | .panic => .panic

/-- `UtilArgs.readInputFilePrivKey` with `FilePath` set. -/
def readPrivPeer (P : PemCodec) (fs : FsState) : Res PeerInfo :=
  match readFile fs with
  | none => .err
  | some b => privPeerOfPem P b

/-- `UtilArgs.readInputFilePubKey`: `keypem.ParsePubKeyPem` (accepts a private or a public key
PEM), "no PEM block" is an error, then `peer.NewPeerWithPubKey`. -/
def readPubPeer (P : PemCodec) (fs : FsState) : Res PeerInfo :=
  match readFile fs with
  | none => .err
  | some b =>
    match parsePubKeyPem P b with
    | .ok (some p) => .ok ⟨none, p, idFromPublicKey p⟩
    | .ok none => .err
    | .err => .err
    | .panic => .panic

/-- BEFORE the fix: `readInputFilePrivKey` passed the `(nil, nil)` of `ParsePrivKeyPem` to
`peer.NewPeer(nil)`, which GENERATES a key (`gen` = the random draw, `none` = the random source
failed): the command printed the identity of a key that exists nowhere. -/
def readPrivPeerPreFix (P : PemCodec) (gen : Option Bytes) (fs : FsState) : Res PeerInfo :=
  match readFile fs with
  | none => .err
  | some b =>
    match parsePrivKeyPem P b with
    | .ok (some k) => newPeer k
    | .ok none =>
      match gen with
      | none => .err
      | some k => newPeer k
    | .err => .err
    | .panic => .panic

/-- BEFORE the fix: `API.Subscribe` did the same and then called `peer.IDFromPrivateKey(nil)`:
nil dereference (remote-triggerable panic of the daemon's API handler). -/
def subscribePeerPreFix (P : PemCodec) (gen : Option Bytes) (b : Bytes) : Res PeerInfo :=
  match parsePrivKeyPem P b with
  | .ok (some k) => newPeer k
  | .ok none =>
    match gen with
    | none => .err
    | some _ => .panic
  | .err => .err
  | .panic => .panic

/-- BEFORE the fix: `readInputFilePubKey` passed a nil key to `peer.NewPeerWithPubKey`, which
dereferenced it in `crypto.MarshalPublicKey`. -/
def readPubPeerPreFix (P : PemCodec) (fs : FsState) : Res PeerInfo :=
  match readFile fs with
  | none => .err
  | some b =>
    match parsePubKeyPem P b with
    | .ok (some p) => .ok ⟨none, p, idFromPublicKey p⟩
    | .ok none => .panic
    | .err => .err
    | .panic => .panic

/-- One path of `EnvelopeArgs.loadPubKeys` (`envelope seal`), as the code is:
`priv, err := keyfile.OpenOrWritePrivKey(le, path); if err != nil { return … }; keys = append(keys, priv.GetPublic())`.
A path that does not exist gets a NEW key (generated, written, used). Result: the public key, and
the state of the path afterwards. -/
def loadPubKey (P : PemCodec) (gen : Option Bytes) (writeOk : Bool) (fs : FsState) : Res Bytes × FsState :=
  match openOrWrite P gen writeOk fs with
  | .ok (r, fs') =>
    if r.err then (.err, fs')
    else match r.key with
      | some k =>
        (match getPublic k with
         | .ok p => .ok p
         | .err => .err
         | .panic => .panic, fs')
      | none => (.panic, fs')          -- priv.GetPublic() on a nil key
  | .err => (.err, fs)
  | .panic => (.panic, fs)

/-- One path of `EnvelopeArgs.loadPrivKeys` (`envelope unseal`), as the code is: `OpenOrWritePrivKey`;
on an error the file is read again and parsed with `keypem.ParsePrivKeyPem` (a key there would still
be used), otherwise the first error is returned. -/
def loadPrivKey (P : PemCodec) (gen : Option Bytes) (writeOk : Bool) (fs : FsState) : Res Bytes × FsState :=
  match openOrWrite P gen writeOk fs with
  | .ok (r, fs') =>
    if r.err then
      match readFile fs' with
      | none => (.err, fs')
      | some b =>
        match parsePrivKeyPem P b with
        | .ok (some k) => (.ok k, fs')
        | .ok none => (.err, fs')
        | .err => (.err, fs')
        | .panic => (.panic, fs')
    else match r.key with
      | some k => (.ok k, fs')
      | none => (.panic, fs')          -- a nil key is appended and dereferenced by UnlockEnvelope
  | .err => (.err, fs)
  | .panic => (.panic, fs)

/-- `runDaemon`: `peerPriv, err := keyfile.OpenOrWritePrivKey(le, path); if err != nil { return err }`,
then `daemon.NewDaemon(ctx, peerPriv, …)` runs under the identity of `peerPriv`.
Result: the key the daemon runs under (`err` = the daemon does not start), and the path afterwards. -/
def daemonKey (P : PemCodec) (gen : Option Bytes) (writeOk : Bool) (fs : FsState) : Res Bytes × FsState :=
  match openOrWrite P gen writeOk fs with
  | .ok (r, fs') =>
    if r.err then (.err, fs')
    else match r.key with
      | some k => (.ok k, fs')
      | none => (.panic, fs')          -- peer.IDFromPrivateKey(nil) in NewDaemon
  | .err => (.err, fs)
  | .panic => (.panic, fs)

/-! ### one path, many loads (wave 4: history independence)

`OpenOrWritePrivKey` keeps nothing between calls: no package-level state, no cache. A process that
loads the same path again and again, while the environment replaces what is at the path in between,
is therefore a plain iteration of `openOrWrite`. -/

/-- One load in a long-running process: what the environment did to the path since the previous
load (`env`: previous state of the path ↦ state at the moment of this load), the key the random
generator would yield and whether a write would succeed. -/
structure LoadStep where
  gen : Option Bytes
  writeOk : Bool
  env : FsState → FsState

/-- The path after a load that found it in state `fs`. -/
def pathAfter (fs : FsState) : Res (KeyErr × FsState) → FsState
  | .ok (_, fs') => fs'
  | _ => fs

/-- The state of the path after the loads `history`, starting from `fs`. -/
def sessionState (P : PemCodec) : FsState → List LoadStep → FsState
  | fs, [] => fs
  | fs, s :: rest =>
    sessionState P (pathAfter (s.env fs) (openOrWrite P s.gen s.writeOk (s.env fs))) rest

/-- The outcome of the load `s` made after the loads `history` of the same path in the same process. -/
def loadAfter (P : PemCodec) (fs : FsState) (history : List LoadStep) (s : LoadStep) : Res (KeyErr × FsState) :=
  openOrWrite P s.gen s.writeOk (s.env (sessionState P fs history))

end Config
end Bifrost
