import Bifrost.Model.SigClient
/-!
`ClientPeerRef.Recv` at the level of the CALL (`signaling/rpc/client/client.go`): what one
iteration of its loop body does for the caller, including a caller whose context is already
cancelled / expired when it calls, or is cancelled while it waits.

```go
for {
    var waitCh <-chan struct{}
    tkr.bcast.HoldLock(func(...) {            // critical section  = SigC.recvStep
        if tkr.recv == nil || tkr.recvProcessed { waitCh = getWaitCh(); return }
        recv = tkr.recv; tkr.recvProcessed = true; broadcast()
    })
    if recv != nil { return recv, nil }       // nothing between the section and this return
    select {
    case <-ctx.Done(): return nil, context.Canceled
    case <-waitCh:
    }
}
```

The context is looked at only in the `select`, which is reached only when the critical section
took nothing. So a call either returns exactly the message its critical section marked processed
(whatever its context says), or returns `Canceled` / loops without having touched the tracker.
`recvProcessed = true` is what makes the main loop acknowledge the message; the ghost
`State.delivered` ("handed to the application") is therefore exactly the list of messages
returned by `Recv` calls with a nil error (`Props/C21`: `returned_eq_delivered`,
`ack_only_after_recv_returned`).
Core Lean only.
-/
namespace Bifrost
namespace SigC

/-- How the `select` after the critical section comes out (it is only reached when the critical
section took nothing). -/
inductive Sel where
  /-- `<-ctx.Done()` is chosen: the caller's context is cancelled or expired (possibly from the start) -/
  | ctxDone
  /-- `<-waitCh` is chosen: the tracker changed, next iteration -/
  | woken
deriving Repr, DecidableEq

/-- What one iteration of the loop body does for the caller. -/
inductive RecvOut where
  /-- `return recv, nil` -/
  | returned (m : Msg)
  /-- `return nil, context.Canceled` -/
  | canceled
  /-- next iteration of the loop -/
  | again
deriving Repr, DecidableEq

/-- One iteration of the loop body of `Recv`: the critical section (`recvStep`), then
`if recv != nil { return recv, nil }`, then the `select`. -/
def recvIter (s : State) (sel : Sel) : State × RecvOut :=
  -- the local `recv` after the critical section
  let taken : Option Msg :=
    match s.recv with
    | some r => if s.recvProcessed then none else some r
    | none => none
  let s' := recvStep s
  match taken with
  | some r => (s', .returned r)
  | none =>
    match sel with
    | .ctxDone => (s', .canceled)
    | .woken => (s', .again)

/-- The tracker together with what the `Recv` calls made so far returned to the application. -/
structure CallState where
  st : State := {}
  /-- messages returned by `Recv` calls with a nil error, newest first -/
  returned : List Msg := []
  /-- number of `Recv` calls that returned `context.Canceled` -/
  canceled : Nat := 0
deriving Repr

/-- One step of the tracker at call level: a `recvStep` is one iteration of some `Recv` call whose
`select` (if reached) comes out as `sel`; every other event is the tracker's. -/
def cstep (c : CallState) (e : Ev) (sel : Sel) : CallState :=
  match e with
  | .recvStep =>
    match recvIter c.st sel with
    | (st', .returned r) => { c with st := st', returned := r :: c.returned }
    | (st', .canceled) => { c with st := st', canceled := c.canceled + 1 }
    | (st', .again) => { c with st := st' }
  | e => { c with st := step c.st e }

inductive CReachable : CallState → Prop
  | init : CReachable {}
  | step {c : CallState} (e : Ev) (sel : Sel) : CReachable c → enabled c.st e = true → CReachable (cstep c e sel)

def crun (evs : List (Ev × Sel)) : CallState := evs.foldl (fun c x => cstep c x.1 x.2) {}

end SigC
end Bifrost
