import Bifrost.Model.Framing
/-!
Length-prefixed packet framing over a chunked byte stream:
* `util/rwc/packet-conn.go`  (`PacketConn.rxPump`, `ReadFrom`, `WriteTo`)
* `stream/packet/packet.go`  (`Session.SendMsg/RecvMsg`)
* `util/rwc/conn.go`         (`Conn.rxPump`, `Read`)
-/
namespace Bifrost
namespace Packets
open Framing (Reader)

inductive FullRes where
  | ok (b : Bytes) (r : Reader)
  | eof              -- io.EOF: nothing read
  | unexpectedEof    -- io.ErrUnexpectedEOF: some but not all bytes read
deriving Repr, DecidableEq

/-- `io.ReadFull(r, buf)` with `len(buf) = n`, `acc` = bytes read so far. -/
def readFull : Reader → Nat → Bytes → FullRes
  | [], n, acc => if n = 0 then .ok acc [] else if acc.isEmpty then .eof else .unexpectedEof
  | ch :: rest, n, acc =>
    if n = 0 then .ok acc (ch :: rest)
    else if ch.length ≤ n then readFull rest (n - ch.length) (acc ++ ch)
    else .ok (acc ++ ch.take n) (ch.drop n :: rest)

def le32 (n : Nat) : Bytes :=
  [UInt8.ofNat (n % 256), UInt8.ofNat (n / 256 % 256), UInt8.ofNat (n / 65536 % 256), UInt8.ofNat (n / 16777216 % 256)]

def unle32 : Bytes → Nat
  | [a, b, c, d] => a.toNat + 256 * b.toNat + 65536 * c.toNat + 16777216 * d.toNat
  | _ => 0

/-- What `PacketConn.WriteTo` / `Session.SendMsg` put on the wire for one packet. -/
def frame (p : Bytes) : Bytes := le32 p.length ++ p

inductive End where
  | eof            -- reader reported io.EOF at a read that had consumed nothing
  | unexpectedEof  -- stream ended inside a header or body
  | zeroLen        -- zero length prefix (PacketConn only)
  | tooLarge       -- length prefix above the limit
  | fuel           -- never reached when fuel > number of bytes
deriving Repr, DecidableEq

/-- `PacketConn.rxPump`: packets delivered to the channel, then the terminal error. -/
def rxPump (max : Nat) : Nat → Reader → List Bytes × End
  | 0, _ => ([], .fuel)
  | fuel + 1, r =>
    match readFull r 4 [] with
    | .eof => ([], .eof)
    | .unexpectedEof => ([], .unexpectedEof)
    | .ok h r1 =>
      let n := unle32 h
      if n = 0 then ([], .zeroLen)
      else if n > max then ([], .tooLarge)
      else match readFull r1 n [] with
        | .eof => ([], .eof)
        | .unexpectedEof => ([], .unexpectedEof)
        | .ok p r2 =>
          let res := rxPump max fuel r2
          (p :: res.1, res.2)

/-- `PacketConn.ReadFrom(buf)` of the next queued packet: bytes copied, short-buffer flag. -/
def readFrom (bufLen : Nat) (pkt : Bytes) : Bytes × Bool := (pkt.take bufLen, bufLen < pkt.length)

/-- Repeated `Session.RecvMsg`: a zero prefix is an empty message; over-limit is an error. -/
def recvMsgs (max : Nat) : Nat → Reader → List Bytes × End
  | 0, _ => ([], .fuel)
  | fuel + 1, r =>
    match readFull r 4 [] with
    | .eof => ([], .eof)
    | .unexpectedEof => ([], .unexpectedEof)
    | .ok h r1 =>
      let n := unle32 h
      if n = 0 then
        let res := recvMsgs max fuel r1
        ([] :: res.1, res.2)
      else if n > max then ([], .tooLarge)
      else match readFull r1 n [] with
        | .eof => ([], .eof)
        | .unexpectedEof => ([], .unexpectedEof)
        | .ok p r2 =>
          let res := recvMsgs max fuel r2
          (p :: res.1, res.2)

/-! ### Buffered connection (`rwc.Conn`) -/

/-- One source chunk cut into pump reads of at most `pktSize` bytes (`fuel` ≥ chunk length). -/
def chop (pktSize : Nat) : Nat → Bytes → List Bytes
  | 0, _ => []
  | fuel + 1, ch =>
    if ch.isEmpty then []
    else if ch.length ≤ pktSize ∨ pktSize = 0 then [ch]
    else ch.take pktSize :: chop pktSize fuel (ch.drop pktSize)

/-- `Conn.rxPump`: each `Read` into a `pktSize` buffer queues one packet of 1..pktSize bytes. -/
def connPump (pktSize : Nat) : Reader → List Bytes
  | [] => []
  | ch :: rest => chop pktSize (ch.length + 1) ch ++ connPump pktSize rest

/-- Successive `Conn.Read(b)` calls with buffer lengths `bufs` against the queue.
Each result: bytes returned, whether `io.ErrShortBuffer` was reported. Reads beyond the queue
are not listed (they report the close error / EOF). -/
def connReads : List Bytes → List Nat → List (Bytes × Bool)
  | [], _ => []
  | _, [] => []
  | p :: q, b :: bs => (p.take b, b < p.length) :: connReads q bs

end Packets
end Bifrost

namespace Bifrost
namespace Packets
open Framing (Reader)

/-- Largest single buffer `PacketConn.rxPump` / `Session.RecvMsg` allocates on a stream,
whatever the stream contains (a buffer is allocated only after the length check). -/
def rxMaxAlloc (max : Nat) : Nat → Reader → Nat
  | 0, _ => 0
  | fuel + 1, r =>
    match readFull r 4 [] with
    | .ok h r1 =>
      let n := unle32 h
      if n = 0 then rxMaxAlloc max fuel r1   -- Session: empty message; PacketConn stops (0 allocated either way)
      else if n > max then 0
      else match readFull r1 n [] with
        | .ok _ r2 => Nat.max n (rxMaxAlloc max fuel r2)
        | _ => n
    | _ => 0

end Packets
end Bifrost
