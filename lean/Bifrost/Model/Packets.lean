import Bifrost.Model.Framing
/-!
Length-prefixed packet framing over a chunked byte stream:
* `util/rwc/packet-conn.go`  (`PacketConn.rxPump`, `ReadFrom`, `WriteTo`)
* `stream/packet/packet.go`  (`Session.SendMsg/RecvMsg`)
* `util/rwc/conn.go`         (`Conn.rxPump`, `Read`)
-/
namespace Bifrost
namespace Packets
open Framing (Reader)

inductive FullRes where
  | ok (b : Bytes) (r : Reader)
  | eof              -- io.EOF: nothing read
  | unexpectedEof    -- io.ErrUnexpectedEOF: some but not all bytes read
deriving Repr, DecidableEq

/-- `io.ReadFull(r, buf)` with `len(buf) = n`, `acc` = bytes read so far. -/
def readFull : Reader → Nat → Bytes → FullRes
  | [], n, acc => if n = 0 then .ok acc [] else if acc.isEmpty then .eof else .unexpectedEof
  | ch :: rest, n, acc =>
    if n = 0 then .ok acc (ch :: rest)
    else if ch.length ≤ n then readFull rest (n - ch.length) (acc ++ ch)
    else .ok (acc ++ ch.take n) (ch.drop n :: rest)

def le32 (n : Nat) : Bytes :=
  [UInt8.ofNat (n % 256), UInt8.ofNat (n / 256 % 256), UInt8.ofNat (n / 65536 % 256), UInt8.ofNat (n / 16777216 % 256)]

def unle32 : Bytes → Nat
  | [a, b, c, d] => a.toNat + 256 * b.toNat + 65536 * c.toNat + 16777216 * d.toNat
  | _ => 0

/-- What `PacketConn.WriteTo` / `Session.SendMsg` put on the wire for one packet. -/
def frame (p : Bytes) : Bytes := le32 p.length ++ p

inductive End where
  | eof            -- reader reported io.EOF at a read that had consumed nothing
  | unexpectedEof  -- stream ended inside a header or body
  | zeroLen        -- zero length prefix (PacketConn only)
  | tooLarge       -- length prefix above the limit
  | fuel           -- never reached when fuel > number of bytes
deriving Repr, DecidableEq

/-- `PacketConn.rxPump`: packets delivered to the channel, then the terminal error. -/
def rxPump (max : Nat) : Nat → Reader → List Bytes × End
  | 0, _ => ([], .fuel)
  | fuel + 1, r =>
    match readFull r 4 [] with
    | .eof => ([], .eof)
    | .unexpectedEof => ([], .unexpectedEof)
    | .ok h r1 =>
      let n := unle32 h
      if n = 0 then ([], .zeroLen)
      else if n > max then ([], .tooLarge)
      else match readFull r1 n [] with
        | .eof => ([], .eof)
        | .unexpectedEof => ([], .unexpectedEof)
        | .ok p r2 =>
          let res := rxPump max fuel r2
          (p :: res.1, res.2)

/-- `PacketConn.ReadFrom(buf)` of the next queued packet: bytes copied, short-buffer flag. -/
def readFrom (bufLen : Nat) (pkt : Bytes) : Bytes × Bool := (pkt.take bufLen, bufLen < pkt.length)

/-- Repeated `Session.RecvMsg`: a zero prefix is an empty message; over-limit is an error. -/
def recvMsgs (max : Nat) : Nat → Reader → List Bytes × End
  | 0, _ => ([], .fuel)
  | fuel + 1, r =>
    match readFull r 4 [] with
    | .eof => ([], .eof)
    | .unexpectedEof => ([], .unexpectedEof)
    | .ok h r1 =>
      let n := unle32 h
      if n = 0 then
        let res := recvMsgs max fuel r1
        ([] :: res.1, res.2)
      else if n > max then ([], .tooLarge)
      else match readFull r1 n [] with
        | .eof => ([], .eof)
        | .unexpectedEof => ([], .unexpectedEof)
        | .ok p r2 =>
          let res := recvMsgs max fuel r2
          (p :: res.1, res.2)

/-! ### Buffered connection (`rwc.Conn`) -/

/-- One source chunk cut into pump reads of at most `pktSize` bytes (`fuel` ≥ chunk length). -/
def chop (pktSize : Nat) : Nat → Bytes → List Bytes
  | 0, _ => []
  | fuel + 1, ch =>
    if ch.isEmpty then []
    else if ch.length ≤ pktSize ∨ pktSize = 0 then [ch]
    else ch.take pktSize :: chop pktSize fuel (ch.drop pktSize)

/-- `Conn.rxPump`: each `Read` into a `pktSize` buffer queues one packet of 1..pktSize bytes. -/
def connPump (pktSize : Nat) : Reader → List Bytes
  | [] => []
  | ch :: rest => chop pktSize (ch.length + 1) ch ++ connPump pktSize rest

/-- Successive `Conn.Read(b)` calls with buffer lengths `bufs` against the queue.
Each result: bytes returned, whether `io.ErrShortBuffer` was reported. Reads beyond the queue
are not listed (they report the close error / EOF). -/
def connReads : List Bytes → List Nat → List (Bytes × Bool)
  | [], _ => []
  | _, [] => []
  | p :: q, b :: bs => (p.take b, b < p.length) :: connReads q bs

end Packets
end Bifrost

namespace Bifrost
namespace Packets
open Framing (Reader)

/-- Largest single buffer `PacketConn.rxPump` / `Session.RecvMsg` allocates on a stream,
whatever the stream contains (a buffer is allocated only after the length check). -/
def rxMaxAlloc (max : Nat) : Nat → Reader → Nat
  | 0, _ => 0
  | fuel + 1, r =>
    match readFull r 4 [] with
    | .ok h r1 =>
      let n := unle32 h
      if n = 0 then rxMaxAlloc max fuel r1   -- Session: empty message; PacketConn stops (0 allocated either way)
      else if n > max then 0
      else match readFull r1 n [] with
        | .ok _ r2 => Nat.max n (rxMaxAlloc max fuel r2)
        | _ => n
    | _ => 0

end Packets
end Bifrost

/-! ### Writer side (`PacketConn.WriteTo`, `Session.SendMsg`, `Conn.Write`) and end of stream -/
namespace Bifrost
namespace Packets
open Framing (Reader)

/-- One whole-frame `Write` on the underlying stream: the frame is appended to what is on the wire. -/
def writeFrame (wire : Bytes) (p : Bytes) : Bytes := wire ++ frame p

/-- What the caller of `WriteTo` / `SendMsg` is told. -/
inductive WriteRes where
  | ok (n : Nat)    -- nil error, `n` = count returned
  | err (n : Nat)   -- non-nil error, `n` = count returned
deriving Repr, DecidableEq

/-- `PacketConn.WriteTo(p)`: ONE `Write(frame p)` on the underlying stream, which takes
`accepted` bytes (at most the frame) and reports an error iff `werr`. Result: what the caller is
told and what reached the wire. An empty packet is not written at all. -/
def writeTo (p : Bytes) (accepted : Nat) (werr : Bool) : WriteRes × Bytes :=
  if p.length = 0 then (.ok 0, [])
  else
    let buf := frame p
    let n := min accepted buf.length
    if werr then (.err n, buf.take n)
    else if n < buf.length then (.err n, buf.take n)   -- "expected conn to write %d bytes in one call"
    else (.ok (n - 4), buf.take n)

/-- `Session.SendMsg(m)` with `m.MarshalVT() = p`: ONE `Write(frame p)` (an empty message is a
zero prefix); a short write is an error. `true` = nil error. -/
def sendMsg (p : Bytes) (accepted : Nat) (werr : Bool) : Bool × Bytes :=
  let buf := frame p
  let n := min accepted buf.length
  (!werr && !(n < buf.length), buf.take n)

/-- A schedule of concurrent writers: `ws[i]` is what writer `i` still has to send; each entry of
the schedule lets that writer perform its next whole-frame write (an entry naming an absent or
finished writer is a no-op). Result: the packets in the order their frames reached the wire. -/
def writeSched (ws : List (List Bytes)) : List Nat → List Bytes
  | [] => []
  | i :: is =>
    match ws[i]? with
    | some (p :: rest) => p :: writeSched (ws.set i rest) is
    | _ => writeSched ws is

/-- What the writers still hold after the schedule. -/
def schedLeft (ws : List (List Bytes)) : List Nat → List (List Bytes)
  | [] => ws
  | i :: is =>
    match ws[i]? with
    | some (_ :: rest) => schedLeft (ws.set i rest) is
    | _ => schedLeft ws is

/-- The wire after a sequence of whole-frame writes. -/
def wireOf (out : List Bytes) : Bytes := out.foldl writeFrame []

/-- Outcome of `Conn.Write`. -/
inductive ConnWriteRes where
  | ok (n : Nat)    -- (n, nil)
  | err (n : Nat)   -- (n, err): the underlying writer's error
  | spin            -- script exhausted: the Go loop is still calling Write
deriving Repr, DecidableEq

/-- The loop of `Conn.Write`: `script` lists, per underlying `Write` call, how many bytes that
call accepts and whether it reports an error. `rem` = `pkt[written:]`, `wire` = bytes accepted so far. -/
def connWriteLoop : List (Nat × Bool) → Bytes → Bytes → Nat → ConnWriteRes × Bytes
  | _, [], wire, written => (.ok written, wire)
  | [], _ :: _, wire, _ => (.spin, wire)
  | (k, e) :: script, x :: xs, wire, written =>
    let rem := x :: xs
    let n := min k rem.length
    if e then (.err (written + n), wire ++ rem.take n)
    else connWriteLoop script (rem.drop n) (wire ++ rem.take n) (written + n)

/-- `Conn.Write(pkt)` against an underlying writer behaving as `script`. -/
def connWrite (script : List (Nat × Bool)) (pkt : Bytes) : ConnWriteRes × Bytes :=
  connWriteLoop script pkt [] 0

/-- Result of one `Conn.Read` once the end of the stream is taken into account. -/
inductive ReadRes where
  | data (b : Bytes) (short : Bool)
  | ended (e : Option Nat)   -- `none` = io.EOF, `some c` = the underlying reader's error `c`
deriving Repr, DecidableEq

/-- Successive `Conn.Read` calls when the underlying reader ends with `e` after the queued
pieces `q`: the queue is drained first, every later read reports the end condition. -/
def connReadsEnd (q : List Bytes) (e : Option Nat) : List Nat → List ReadRes
  | [] => []
  | b :: bs =>
    match q with
    | [] => .ended e :: connReadsEnd [] e bs
    | p :: q' => .data (p.take b) (decide (b < p.length)) :: connReadsEnd q' e bs

end Packets
end Bifrost

/-! ### Allocation trace of a `Session.RecvMsg` read loop (C40) -/
namespace Bifrost
namespace Packets
open Framing (Reader)

/-- Sizes of the receive buffers a `Session.RecvMsg` read loop allocates, one per non-empty
message, in order, until the stream ends, a length prefix is rejected, or a message fails to
decode. `oks` = for each fully received non-empty message, whether `UnmarshalVT` accepted it
(the read loops of floodsub and of the solicit control stream stop at the first failure); with
no information the message is taken to decode. -/
def recvAllocs (max : Nat) : Nat → Reader → List Bool → List Nat
  | 0, _, _ => []
  | fuel + 1, r, oks =>
    match readFull r 4 [] with
    | .ok h r1 =>
      let n := unle32 h
      if n = 0 then recvAllocs max fuel r1 oks
      else if n > max then []
      else match readFull r1 n [] with
        | .ok _ r2 =>
          match oks with
          | false :: _ => [n]
          | _ :: oks' => n :: recvAllocs max fuel r2 oks'
          | [] => n :: recvAllocs max fuel r2 []
        | _ => [n]
    | _ => []

end Packets
end Bifrost
