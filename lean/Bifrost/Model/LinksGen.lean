import Bifrost.Model.Links
/-!
Handler generations of the transport controller (`transport/controller/controller.go:Execute`,
`transport-handler.go:HandleLinkEstablished`).

Every `Controller.Execute` constructs a NEW `transportHandler` and hands it to the transport
constructor; the handler of a previous execution stays callable (a transport that was closed
may still report a link). `HandleLinkEstablished` first runs `h.tpt.Await(h.ctx)` — which picks
AT RANDOM between the transport result and the cancelled context when both are ready, so a
stale handler reaches the critical section about every other time — and then, inside the
critical section,

```go
execCtx := h.c.execCtx
if execCtx == nil || h.c.tptHandler != h { go lnk.Close(); return }
```

(`c.tptHandler` is set together with `c.execCtx` and cleared with it). `Links.Op.est` is a report
through the handler of the CURRENT execution; `GOp.estVia g l` is a report through the handler
of execution number `g` (1 = the first). Before "fix: transport controller: a link reported
through the TransportHandler of a previous execution …" the comparison was missing
(`checkHandler := false`).
-/
namespace Bifrost
namespace LinksGen
open Links

inductive GOp where
  | op (o : Op)
  | estVia (g : Nat) (l : Link)
deriving Repr, DecidableEq

structure GState where
  s : State := {}
  /-- number of executions started so far; while running, `c.tptHandler` is the handler of execution `gen` -/
  gen : Nat := 0
deriving Repr, DecidableEq

/-- the link is closed and nothing else happens: `go lnk.Close(); return` -/
def reject (s : State) (l : Link) : State := { s with closed := l.id :: s.closed }

def gstep (checkHandler : Bool) (t : GState) : GOp → GState
  | .op (.start lp) =>
    if t.s.running then t else { s := step t.s (.start lp), gen := t.gen + 1 }
  | .op o => { t with s := step t.s o }
  | .estVia g l =>
    -- either branch of the random `Await` ends in `go lnk.Close()` for a stale handler
    if checkHandler && g != t.gen then { t with s := reject t.s l }
    else { t with s := step t.s (.est l) }

def gruns (ck : Bool) (t : GState) (ops : List GOp) : GState := ops.foldl (gstep ck) t

def grun (ck : Bool) (ops : List GOp) : GState := gruns ck {} ops

/-- The history with the reports of stale handlers erased (what the tables are a function of). -/
def lower (t : GState) : List GOp → List Op
  | [] => []
  | .op o :: r => o :: lower (gstep true t (.op o)) r
  | .estVia g l :: r =>
    if g = t.gen then .est l :: lower (gstep true t (.estVia g l)) r
    else lower (gstep true t (.estVia g l)) r

/-- the ids of the links reported through a stale handler -/
def staleIds (t : GState) : List GOp → List Nat
  | [] => []
  | .op o :: r => staleIds (gstep true t (.op o)) r
  | .estVia g l :: r =>
    if g = t.gen then staleIds (gstep true t (.estVia g l)) r
    else l.id :: staleIds (gstep true t (.estVia g l)) r

end LinksGen
end Bifrost
