import Bifrost.Gen.LayoutSign
import Bifrost.Model.Pubsub
/-!
Tie (regenerated on every run): the byte strings that `peer/signature.go` signs and verifies, and
the byte string `SignedMsg.ComputeMessageID` hashes, as extracted from the Go source by
`translator/gen_layouts.go`, ARE the layouts the hand-written models use — for all operands.
A change of operand order, separator or conversion in the source breaks these theorems.
-/
namespace Bifrost.Ties.Sign
open Bifrost

/-- `NewSignatureWithHashedData` signs exactly the model's sign body. -/
theorem signBody_create (ctx : Bytes) (ht : Int) (h : Bytes) :
    Gen.LayoutSign.signBodyCreate ctx ht h = Sign.signBody ctx ht h := by
  simp [Gen.LayoutSign.signBodyCreate, Layout.join, Sign.signBody, Sign.sep, Layout.itoaInt]

/-- `VerifyWithPublic` verifies exactly the model's sign body. -/
theorem signBody_verify (ctx : Bytes) (ht : Int) (h : Bytes) :
    Gen.LayoutSign.signBodyVerify ctx ht h = Sign.signBody ctx ht h := by
  simp [Gen.LayoutSign.signBodyVerify, Layout.join, Sign.signBody, Sign.sep, Layout.itoaInt]

/-- signer and verifier assemble the same byte string. -/
theorem create_eq_verify (ctx : Bytes) (ht : Int) (h : Bytes) :
    Gen.LayoutSign.signBodyCreate ctx ht h = Gen.LayoutSign.signBodyVerify ctx ht h := by
  rw [signBody_create, signBody_verify]

/-- `ComputeMessageID` hashes signature bytes then sender text: the model's `msgKey`. -/
theorem messageID_preimage (m : Sign.SignedMsg) :
    Gen.LayoutSign.messageIDPreimage m.signature.sigData m.fromPeerId = Pubsub.msgKey m := by
  simp [Gen.LayoutSign.messageIDPreimage, Layout.join, Pubsub.msgKey]

end Bifrost.Ties.Sign
