import Bifrost.Gen.LayoutSolicit
import Bifrost.Model.Solicit
/-!
Tie (regenerated on every run): the BLAKE3 preimages of `link/solicit/hash.go`, as extracted from
the `h.Write` sequences of the Go source, are the model's preimages — for all operands.
-/
namespace Bifrost.Ties.Solicit
open Bifrost

theorem protocol_preimage (sid pid ctx : Bytes) :
    Gen.LayoutSolicit.protocolHashPreimage sid pid ctx = Solicit.protocolPreimage sid pid ctx := by
  simp [Gen.LayoutSolicit.protocolHashPreimage, Solicit.protocolPreimage]

theorem session_preimage (a b : Bytes) :
    Gen.LayoutSolicit.sessionIDPreimage a b = Solicit.sessionPreimage a b := by
  unfold Gen.LayoutSolicit.sessionIDPreimage Gen.LayoutSolicit.sessionIDOperands
    Gen.LayoutSolicit.sessionIDWrites Solicit.sessionPreimage
  split <;> simp

/-- the digest is truncated to the full BLAKE3-256 output (no truncation below 32 bytes). -/
theorem hash_size : Gen.LayoutSolicit.hashSize = 32 := rfl

end Bifrost.Ties.Solicit
