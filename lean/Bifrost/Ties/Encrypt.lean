import Bifrost.Gen.LayoutEncrypt
import Bifrost.Model.Encrypt
/-!
Tie (regenerated on every run): KDF input of `peer.DeriveKey` and the domain-separation labels of
`EncryptToEd25519` / `DecryptWithEd25519`, as extracted from the Go source, are the model's.
-/
namespace Bifrost.Ties.Encrypt
open Bifrost

theorem derive_kdf_input (salt material : Bytes) :
    Gen.LayoutEncrypt.deriveKdfInput salt material = Encrypt.kdfInput salt material := by
  simp [Gen.LayoutEncrypt.deriveKdfInput, Encrypt.kdfInput, Encrypt.dkConst]

/-- the derive-key context is the caller's context string, unchanged. -/
theorem derive_kdf_context (ctx : Bytes) : Gen.LayoutEncrypt.deriveKdfContext ctx = ctx := rfl

/-- encryption derives, in this order: message seed, nonce, key-block prefix. -/
theorem encrypt_domains :
    Gen.LayoutEncrypt.encryptDomains = [Encrypt.domSeed, Encrypt.domNonce, Encrypt.domPrefix] := by
  decide

/-- decryption re-derives with the same three labels (prefix, nonce, seed). -/
theorem decrypt_domains :
    Gen.LayoutEncrypt.decryptDomains = [Encrypt.domPrefix, Encrypt.domNonce, Encrypt.domSeed] := by
  decide

/-- both directions use the same label set. -/
theorem domains_agree : Gen.LayoutEncrypt.decryptDomains = Gen.LayoutEncrypt.encryptDomains.reverse := by
  decide

end Bifrost.Ties.Encrypt
