import Bifrost.Gen.LayoutEncrypt
import Bifrost.Model.Encrypt
/-!
Tie (regenerated on every run): KDF input of `peer.DeriveKey` and the domain-separation labels of
`EncryptToEd25519` / `DecryptWithEd25519`, as extracted from the Go source, are the model's.
-/
namespace Bifrost.Ties.Encrypt
open Bifrost

theorem derive_kdf_input (salt material : Bytes) :
    Gen.LayoutEncrypt.deriveKdfInput salt material = Encrypt.kdfInput salt material := by
  simp [Gen.LayoutEncrypt.deriveKdfInput, Encrypt.kdfInput, Encrypt.dkConst]

/-- the derive-key context is the caller's context string, unchanged. -/
theorem derive_kdf_context (ctx : Bytes) : Gen.LayoutEncrypt.deriveKdfContext ctx = ctx := rfl

/-- encryption derives, in this order: message seed, nonce, key-block prefix. -/
theorem encrypt_domains :
    Gen.LayoutEncrypt.encryptDomains = [Encrypt.domSeed, Encrypt.domNonce, Encrypt.domPrefix] := by
  decide

/-- decryption re-derives with the same three labels (prefix, nonce, seed). -/
theorem decrypt_domains :
    Gen.LayoutEncrypt.decryptDomains = [Encrypt.domPrefix, Encrypt.domNonce, Encrypt.domSeed] := by
  decide

/-- both directions use the same label set. -/
theorem domains_agree : Gen.LayoutEncrypt.decryptDomains = Gen.LayoutEncrypt.encryptDomains.reverse := by
  decide

/-- the size bound of a sealed message is the source's constant … -/
theorem max_message : Gen.LayoutEncrypt.maxEncryptedMessageSize = Encrypt.maxMessage := by decide

/-- … checked by the sender on the message length before anything else touches s2, and by the
receiver on the length the opened payload declares, after `s2.DecodedLen` and before `s2.Decode`. -/
theorem size_guards :
    Gen.LayoutEncrypt.encryptSizeGuard = ["len(msgSrc) > MaxEncryptedMessageSize => return nil, ErrMessageTooLarge"] ∧
    Gen.LayoutEncrypt.encryptSizeGuardS2Before = [] ∧
    Gen.LayoutEncrypt.decryptSizeGuard = ["msgLen > MaxEncryptedMessageSize => return nil, ErrMessageTooLarge"] ∧
    Gen.LayoutEncrypt.decryptSizeGuardS2Before = ["s2.DecodedLen(msgDec)"] := by
  repeat' constructor

end Bifrost.Ties.Encrypt
