import Bifrost.Gen.LayoutEnvelope
import Bifrost.Model.Envelope
/-!
Tie (regenerated on every run): the KDF / grant-encryption context strings of `envelope/crypto.go`
and the envelope-id preimage of `BuildEnvelope`, as extracted from the Go source, are the model's.
-/
namespace Bifrost.Ties.Envelope
open Bifrost

theorem kd_context (envId ctx : Bytes) :
    Gen.LayoutEnvelope.keyDerivationContext envId ctx = Envelope.kdContext envId ctx := by
  simp [Gen.LayoutEnvelope.keyDerivationContext, Envelope.kdContext, Envelope.lenPrefixed,
    Envelope.baseCryptoContext, Envelope.kdLabel, Layout.itoaNat]

theorem grant_enc_context (envId ctx : Bytes) (gi : Nat) :
    Gen.LayoutEnvelope.grantEncContext envId ctx gi = Envelope.grantEncContext envId ctx gi := by
  simp [Gen.LayoutEnvelope.grantEncContext, Envelope.grantEncContext, Envelope.lenPrefixed,
    Envelope.baseCryptoContext, Envelope.geLabel, Layout.itoaNat]

/-- the envelope id is derived from secret ‖ context, in this order (the `idHash` primitive of
the model takes the two operands separately; the harness oracle hashes them in this order). -/
theorem envelope_id_preimage (secret ctx : Bytes) :
    Gen.LayoutEnvelope.envelopeIdPreimage secret ctx = secret ++ ctx := rfl

end Bifrost.Ties.Envelope
