import Bifrost.Gen.EnvelopeFacts
import Bifrost.Model.Envelope
/-!
Tie (regenerated on every run): what `hashContext` hashes and how `BuildEnvelope` cuts an
auto-generated envelope id out of the digest, as extracted from the Go source, are the model's
(`Envelope.ctxHashPreimage`, `Envelope.autoIdDigestBytes`; the operands of the id hash are tied in
`Ties.Envelope.envelope_id_preimage`). The translator also refuses the source unless the id is
taken from `config.GetEnvelopeId()` and replaced only when that is empty.
-/
namespace Bifrost.Ties.EnvelopeFacts
open Bifrost

/-- the context hash is taken over the whole context string -/
theorem context_hash_preimage (ctx : Bytes) :
    Gen.EnvelopeFacts.contextHashPreimage ctx = Envelope.ctxHashPreimage ctx := rfl

/-- an auto-generated id is the hex form of the first 16 digest bytes: 32 characters -/
theorem auto_id_digest_bytes :
    Gen.EnvelopeFacts.autoIdDigestBytes = Envelope.autoIdDigestBytes ∧ 2 * Gen.EnvelopeFacts.autoIdDigestBytes = 32 :=
  ⟨rfl, rfl⟩

/-- … of the BLAKE3-256 digest of secret ‖ context -/
theorem auto_id_preimage (secret ctx : Bytes) :
    Envelope.idPreimage secret ctx = secret ++ ctx := rfl

end Bifrost.Ties.EnvelopeFacts
