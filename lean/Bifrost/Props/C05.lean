import Bifrost.Model.Dial
/-!
C05 — Dialing a peer at an address yields a link to that peer or keeps retrying.
Model of the code as fixed by "fix: DialPeer reported success with a link to a different peer
than requested". An `Attempt` is what the environment does at one dial attempt; that
`answered p` really is peer `p` is C03 (authenticated handshake).
-/
namespace Bifrost.Props.C05
open Bifrost Bifrost.Dial

/-- One attempt: success is only ever reported with a link to the requested peer. -/
theorem dialPeer_authentic (req : Nat) (hreq : req ≠ 0) (a : Attempt) (p : Nat)
    (h : dialPeer req a = .link p) : p = req := by
  cases a <;> simp [dialPeer] at h
  · rename_i q
    split at h
    · cases h
    · cases h; omega

/-- The whole retrying dialer: whatever the sequence of answers, failures and impostors,
success is only ever reported with a link to the requested peer. -/
theorem dial_result_authentic (req : Nat) (hreq : req ≠ 0) (atts : List Attempt) (p : Nat)
    (h : execute req atts = some (.link p)) : p = req := by
  induction atts with
  | nil => simp [execute] at h
  | cons a rest ih =>
    unfold execute at h
    cases hd : dialPeer req a with
    | link q =>
      simp [hd] at h
      subst h
      exact dialPeer_authentic req hreq a q hd
    | err f =>
      cases f <;> simp [hd] at h
      exact ih h

/-- An attempt answered by a different peer is not counted: the dialer is still unresolved and
goes on to the next attempt. -/
theorem impostor_not_counted (req y : Nat) (hreq : req ≠ 0) (hy : y ≠ req) (rest : List Attempt) :
    execute req (.answered y :: rest) = execute req rest := by
  simp [execute, dialPeer, hreq, hy]

/-- No stuck state: after ANY prefix of impostors and transient failures, as soon as the
requested peer answers, the dial resolves with a link to it. -/
theorem recovers (req : Nat) (pre post : List Attempt)
    (hpre : ∀ a ∈ pre, a = .failed ∨ ∃ y, a = .answered y ∧ y ≠ req ∧ req ≠ 0) :
    execute req (pre ++ .answered req :: post) = some (.link req) := by
  induction pre with
  | nil => simp [execute, dialPeer]
  | cons a rest ih =>
    have ha := hpre a (by simp)
    have hrest : ∀ b ∈ rest, b = .failed ∨ ∃ y, b = .answered y ∧ y ≠ req ∧ req ≠ 0 :=
      fun b hb => hpre b (by simp [hb])
    rcases ha with rfl | ⟨y, rfl, hy, hr⟩
    · simpa [execute, dialPeer] using ih hrest
    · simpa [execute, dialPeer, hy, hr] using ih hrest

/-- While only impostors answer and transient failures occur, the dialer keeps retrying
(it neither succeeds nor gives up). -/
theorem keeps_retrying (req : Nat) (atts : List Attempt)
    (h : ∀ a ∈ atts, a = .failed ∨ ∃ y, a = .answered y ∧ y ≠ req ∧ req ≠ 0) :
    execute req atts = none := by
  induction atts with
  | nil => rfl
  | cons a rest ih =>
    have ha := h a (by simp)
    have hrest : ∀ b ∈ rest, b = .failed ∨ ∃ y, b = .answered y ∧ y ≠ req ∧ req ≠ 0 :=
      fun b hb => h b (by simp [hb])
    rcases ha with rfl | ⟨y, rfl, hy, hr⟩
    · simpa [execute, dialPeer] using ih hrest
    · simpa [execute, dialPeer, hy, hr] using ih hrest

/-- Non-vacuity. -/
example : execute 2 [.answered 3, .failed, .answered 3, .answered 2, .answered 3] = some (.link 2) := by
  decide

end Bifrost.Props.C05
