import Bifrost.Model.Dial
/-!
C05 — Dialing a peer at an address yields a link to that peer or keeps retrying.
Model of the code as fixed by "fix: DialPeer reported success with a link to a different peer
than requested". An `Attempt` is what the environment does at one dial attempt; that
`answered p` really is peer `p` is C03 (authenticated handshake).
-/
namespace Bifrost.Props.C05
open Bifrost Bifrost.Dial

/-- One attempt: success is only ever reported with a link to the requested peer. -/
theorem dialPeer_authentic (req : Nat) (hreq : req ≠ 0) (a : Attempt) (p : Nat)
    (h : dialPeer req a = .link p) : p = req := by
  cases a <;> simp [dialPeer] at h
  · rename_i q
    split at h
    · cases h
    · cases h; omega

/-- The whole retrying dialer: whatever the sequence of answers, failures and impostors,
success is only ever reported with a link to the requested peer. -/
theorem dial_result_authentic (req : Nat) (hreq : req ≠ 0) (atts : List Attempt) (p : Nat)
    (h : execute req atts = some (.link p)) : p = req := by
  induction atts with
  | nil => simp [execute] at h
  | cons a rest ih =>
    unfold execute at h
    cases hd : dialPeer req a with
    | link q =>
      simp [hd] at h
      subst h
      exact dialPeer_authentic req hreq a q hd
    | err f =>
      cases f <;> simp [hd] at h
      exact ih h

/-- An attempt answered by a different peer is not counted: the dialer is still unresolved and
goes on to the next attempt. -/
theorem impostor_not_counted (req y : Nat) (hreq : req ≠ 0) (hy : y ≠ req) (rest : List Attempt) :
    execute req (.answered y :: rest) = execute req rest := by
  simp [execute, dialPeer, hreq, hy]

/-- No stuck state: after ANY prefix of impostors and transient failures, as soon as the
requested peer answers, the dial resolves with a link to it. -/
theorem recovers (req : Nat) (pre post : List Attempt)
    (hpre : ∀ a ∈ pre, a = .failed ∨ ∃ y, a = .answered y ∧ y ≠ req ∧ req ≠ 0) :
    execute req (pre ++ .answered req :: post) = some (.link req) := by
  induction pre with
  | nil => simp [execute, dialPeer]
  | cons a rest ih =>
    have ha := hpre a (by simp)
    have hrest : ∀ b ∈ rest, b = .failed ∨ ∃ y, b = .answered y ∧ y ≠ req ∧ req ≠ 0 :=
      fun b hb => hpre b (by simp [hb])
    rcases ha with rfl | ⟨y, rfl, hy, hr⟩
    · simpa [execute, dialPeer] using ih hrest
    · simpa [execute, dialPeer, hy, hr] using ih hrest

/-- While only impostors answer and transient failures occur, the dialer keeps retrying
(it neither succeeds nor gives up). -/
theorem keeps_retrying (req : Nat) (atts : List Attempt)
    (h : ∀ a ∈ atts, a = .failed ∨ ∃ y, a = .answered y ∧ y ≠ req ∧ req ≠ 0) :
    execute req atts = none := by
  induction atts with
  | nil => rfl
  | cons a rest ih =>
    have ha := h a (by simp)
    have hrest : ∀ b ∈ rest, b = .failed ∨ ∃ y, b = .answered y ∧ y ≠ req ∧ req ≠ 0 :=
      fun b hb => h b (by simp [hb])
    rcases ha with rfl | ⟨y, rfl, hy, hr⟩
    · simpa [execute, dialPeer] using ih hrest
    · simpa [execute, dialPeer, hy, hr] using ih hrest

/-! ### A backoff that gives up (`max_elapsed_time`): known finding `dialsys.hist:backoff-gives-up` -/

/-- Authenticity does not depend on the backoff: success is only ever reported with a link to the
requested peer. -/
theorem budget_result_authentic (req : Nat) (hreq : req ≠ 0) (b : Nat) (atts : List Attempt) (p : Nat)
    (h : executeBudget req atts b = some (.link p)) : p = req := by
  induction atts generalizing b with
  | nil => simp [executeBudget] at h
  | cons a rest ih =>
    unfold executeBudget at h
    cases hd : dialPeer req a with
    | link q =>
      simp [hd] at h
      subst h
      exact dialPeer_authentic req hreq a q hd
    | err f =>
      cases f
      · cases b with
        | zero => simp [hd] at h
        | succ b => simp [hd] at h; exact ih b h
      · simp [hd] at h

/-- REFUTED for a dialer whose backoff gives up: "after any prefix of impostors and failures, as
soon as the requested peer answers, the dial resolves". Witness: budget 0, one failed attempt —
the dialer has ended with an error before X answers (replayed on the real code by engine
`dialsys`, history `backoff-gives-up`: the routine is dead, the held reference is never served). -/
theorem recovers_budget_false :
    ¬ (∀ (req b : Nat) (pre post : List Attempt),
        (∀ a ∈ pre, a = .failed ∨ ∃ y, a = .answered y ∧ y ≠ req ∧ req ≠ 0) →
        executeBudget req (pre ++ .answered req :: post) b = some (.link req)) := by
  intro h
  have := h 2 0 [.failed] [] (by simp)
  simp [executeBudget, dialPeer] at this

/-- … it holds as long as the prefix fits the budget … -/
theorem recovers_budget_partial (req b : Nat) (pre post : List Attempt)
    (hpre : ∀ a ∈ pre, a = .failed ∨ ∃ y, a = .answered y ∧ y ≠ req ∧ req ≠ 0)
    (hb : pre.length ≤ b) :
    executeBudget req (pre ++ .answered req :: post) b = some (.link req) := by
  induction pre generalizing b with
  | nil => simp [executeBudget, dialPeer]
  | cons a rest ih =>
    have ha := hpre a (by simp)
    have hrest : ∀ x ∈ rest, x = .failed ∨ ∃ y, x = .answered y ∧ y ≠ req ∧ req ≠ 0 :=
      fun x hx => hpre x (by simp [hx])
    cases b with
    | zero => simp at hb
    | succ b =>
      have hb' : rest.length ≤ b := by simpa using hb
      rcases ha with rfl | ⟨y, rfl, hy, hr⟩
      · simpa [executeBudget, dialPeer] using ih b hrest hb'
      · simpa [executeBudget, dialPeer, hy, hr] using ih b hrest hb'

/-- … and a LATER request that starts a fresh execution (a new reference on the key restarts the
ended routine) is satisfied as soon as the requested peer answers, whatever went before. -/
theorem later_request_recovers (req b : Nat) (post : List Attempt) :
    executeBudget req (.answered req :: post) b = some (.link req) := by
  simp [executeBudget, dialPeer]

/-- an exhausted budget is an error, never a success and never "still retrying" -/
theorem budget_exhausted_gives_up (req b : Nat) (pre rest : List Attempt)
    (hpre : ∀ a ∈ pre, a = .failed ∨ ∃ y, a = .answered y ∧ y ≠ req ∧ req ≠ 0)
    (hb : pre.length = b + 1) :
    executeBudget req (pre ++ rest) b = some (.err false) := by
  induction pre generalizing b with
  | nil => simp at hb
  | cons a tl ih =>
    have ha := hpre a (by simp)
    have htl : ∀ x ∈ tl, x = .failed ∨ ∃ y, x = .answered y ∧ y ≠ req ∧ req ≠ 0 :=
      fun x hx => hpre x (by simp [hx])
    cases b with
    | zero =>
      rcases ha with rfl | ⟨y, rfl, hy, hr⟩
      · simp [executeBudget, dialPeer]
      · simp [executeBudget, dialPeer, hy, hr]
    | succ b =>
      have hb' : tl.length = b + 1 := by simpa using hb
      rcases ha with rfl | ⟨y, rfl, hy, hr⟩
      · simpa [executeBudget, dialPeer] using ih b htl hb'
      · simpa [executeBudget, dialPeer, hy, hr] using ih b htl hb'

example : executeBudget 2 [.answered 3, .failed, .answered 2] 1 = some (.err false) ∧
    executeBudget 2 [.answered 3, .failed, .answered 2] 2 = some (.link 2) := by decide

/-- Non-vacuity. -/
example : execute 2 [.answered 3, .failed, .answered 3, .answered 2, .answered 3] = some (.link 2) := by
  decide

end Bifrost.Props.C05
