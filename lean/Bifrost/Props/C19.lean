import Bifrost.Model.SigClient
import Bifrost.Lemmas.SigClient
/-!
C19 — The signaling relay cannot forge or alter messages (client side).
The relay is the ENVIRONMENT of the client LTS `Bifrost.SigC`: it may deliver any response, in any
order, with any content. `verifyOk` is the outcome of `SessionMsg.ExtractAndVerify` (C01: under an
ideal signature scheme it holds only for messages signed by the key of the claimed sender over the
signaling context), `signerIsRemote` the comparison of that sender with the session's remote peer.
-/
namespace Bifrost.Props.C19
open Bifrost Bifrost.SigC

/-- Whatever the relay does, every message handed to the application was accepted with a
valid signature whose signer is the remote peer of this session, in the epoch it is handed
over in. -/
theorem delivered_authentic (s : State) (h : Reachable s) : deliveredAuthentic s = true := by
  exact SigClient.deliveredAuthentic_of_inv (SigClient.inv_of_reachable h)

/-- An injected, modified or re-attributed message (signature invalid, or signed by anyone but
the session's remote peer) is never stored: the session routine fails instead. -/
theorem forged_rejected (s : State) (m : Msg) (v g : Bool) (hbad : (v && g) = false) :
    (recvMsg s m v g).recv = s.recv ∧ (recvMsg s m v g).delivered = s.delivered ∧
    (recvMsg s m v g).accepted = s.accepted ∧ (recvMsg s m v g).failed = true := by
  have hb : (!(v && g)) = true := by simp [hbad]
  simp [recvMsg, hb]

/-- The client only ever acknowledges messages its application has received, in the epoch of
the acknowledgement. -/
theorem acks_are_delivered (s : State) (h : Reachable s) : acksAreDelivered s = true := by
  exact SigClient.acksAreDelivered_of_inv (SigClient.inv_of_reachable h)

/-- Known finding (format level, see DESIGN.md): a message does not name its destination or
session, so the clause "submitted by A's client for delivery to THIS peer" cannot be checked by
the receiver: the acceptance condition depends only on (verifyOk, signerIsRemote). Formally: two
messages differing only in identity are accepted alike. -/
theorem acceptance_ignores_destination (s : State) (m m' : Msg) (v g : Bool) (hq : m.seqno = m'.seqno) :
    ((recvMsg s m v g).recv.isSome ↔ (recvMsg s m' v g).recv.isSome) ∧
    ((recvMsg s m v g).failed ↔ (recvMsg s m' v g).failed) := by
  have _ := hq
  unfold recvMsg
  split <;> simp

/-- Known finding (format level): `SessionMsg.seqno` is outside the signed message. The acceptance
condition of a delivered message does not depend on its sequence number, so a relay can re-present
an authentic message of the remote peer under ANY other sequence number and the client stores it
(the "modified … messages" clause of C19 fails for this one unsigned field; the body, the sender
and the signature cannot be altered: `forged_rejected`). -/
theorem acceptance_ignores_seqno (s : State) (mid q q' : Nat) (v g : Bool) :
    ((recvMsg s ⟨q, mid⟩ v g).recv.isSome ↔ (recvMsg s ⟨q', mid⟩ v g).recv.isSome) ∧
    ((recvMsg s ⟨q, mid⟩ v g).failed ↔ (recvMsg s ⟨q', mid⟩ v g).failed) := by
  unfold recvMsg
  split <;> simp

/-- The witness of the finding: the same signed message (`mid = 7`), delivered once under the
sequence number it was submitted with and once under a rewritten one, is handed to the application
both times — and each delivery satisfies `deliveredAuthentic` (authorship is intact). -/
theorem seqno_rewrite_accepted :
    let s := run [.opened 1, .recvMsg ⟨5, 7⟩ true true, .recvStep, .txLoop, .recvMsg ⟨9, 7⟩ true true, .recvStep]
    s.delivered.map (·.1) = [⟨9, 7⟩, ⟨5, 7⟩] ∧ deliveredAuthentic s = true := by
  decide

example : deliveredAuthentic (run [.opened 1, .recvMsg ⟨5, 1⟩ true true, .recvStep, .recvMsg ⟨6, 2⟩ true false, .recvStep]) = true ∧
    (run [.opened 1, .recvMsg ⟨5, 1⟩ true true, .recvStep, .recvMsg ⟨6, 2⟩ true false, .recvStep]).delivered.length = 1 := by
  decide

end Bifrost.Props.C19
