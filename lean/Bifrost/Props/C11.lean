import Bifrost.Model.Config
import Bifrost.Lemmas.Config
import Bifrost.Gen.ConfigConsts
/-!
C11 — Key encodings round-trip and parsers are total. Property theorems only.

A private key is its 64 raw bytes (`seed ‖ public`), a public key its 32 raw bytes; the public
key of a private key is its tail (`GetPublic`), its peer ID the identity multihash of that
public key. `encoding/pem` is a parameter `P` with the law `PemLaw P` (hypothesis).
-/
namespace Bifrost.Props.C11
open Bifrost Bifrost.Codec Bifrost.Config

/-! ### protobuf -/

/-- `UnmarshalPrivateKey ∘ MarshalPrivateKey = id` for every Ed25519 private key. -/
theorem unmarshal_marshal_private (k : Bytes) (h : k.length = 64) :
    unmarshalPrivateKey (marshalPrivateKey k) = .ok k :=
  unmarshal_marshalPrivateKey k h

/-- `UnmarshalPublicKey ∘ MarshalPublicKey = id` for every Ed25519 public key. -/
theorem unmarshal_marshal_public (p : Bytes) (h : p.length = 32) :
    unmarshalPublicKeyR (marshalPublicKey p) = .ok p :=
  unmarshalPublicKeyR_marshal p h

/-- The raw private-key forms: exactly 64 bytes, or 96 bytes whose trailing redundant public
key equals bytes 32..64; the key is the first 64 bytes. Nothing else is accepted. -/
theorem ed25519_private_accepted_iff (d k : Bytes) :
    unmarshalEd25519PrivateKey d = .ok k ↔
      (d.length = 64 ∧ k = d) ∨ (d.length = 96 ∧ (d.take 64).drop 32 = d.drop 64 ∧ k = d.take 64) := by
  by_cases h96 : d.length = 96
  · rw [unmarshalEd_96 d h96]
    have h64 : d.length ≠ 64 := by omega
    constructor
    · intro h
      split at h
      · rename_i he
        injection h with h
        exact .inr ⟨h96, he, h.symm⟩
      · cases h
    · rintro (⟨h, _⟩ | ⟨_, he, rfl⟩)
      · exact absurd h h64
      · rw [if_pos he]
  · by_cases h64 : d.length = 64
    · rw [unmarshalEd_64 d h64]
      constructor
      · intro h; injection h with h; exact .inl ⟨h64, h.symm⟩
      · rintro (⟨_, rfl⟩ | ⟨h, _⟩)
        · rfl
        · exact absurd h h96
    · rw [unmarshalEd_other d h64 h96]
      constructor
      · intro h; cases h
      · rintro (⟨h, _⟩ | ⟨h, _⟩)
        · exact absurd h h64
        · exact absurd h h96

/-- A 96-byte form with a mismatched redundant public key is an error. -/
theorem redundant_mismatch_rejected (d : Bytes) (h : d.length = 96)
    (hne : (d.take 64).drop 32 ≠ d.drop 64) : unmarshalEd25519PrivateKey d = .err := by
  rw [unmarshalEd_96 d h, if_neg hne]

/-- The libp2p 96-byte encoding of a key decodes to that key. -/
theorem unmarshal_marshal_private_redundant (k : Bytes) (h : k.length = 64) :
    unmarshalPrivateKey (marshalPrivateKey (k ++ k.drop 32)) = .ok k :=
  unmarshal_marshalPrivateKey_redundant k h

/-- Whatever is accepted as a private key is a usable 64-byte key (so `GetPublic` and the peer
ID are defined), and as a public key a 32-byte key. -/
theorem accepted_private_usable (b k : Bytes) (h : unmarshalPrivateKey b = .ok k) :
    k.length = 64 ∧ getPublic k = .ok (k.drop 32) ∧
      idFromPrivateKey k = .ok (idFromPublicKey (k.drop 32)) := by
  have hl := unmarshalPrivateKey_ok_length b k h
  have hp := getPublic_of_length k (by omega)
  refine ⟨hl, hp, ?_⟩
  unfold idFromPrivateKey
  rw [hp]

theorem accepted_public_length (b p : Bytes) (h : unmarshalPublicKeyR b = .ok p) : p.length = 32 := by
  unfold unmarshalPublicKeyR at h
  split at h
  · rename_i k hk
    injection h with h
    subst h
    unfold unmarshalPublicKey at hk
    split at hk
    · cases hk
    · split at hk
      · cases hk
      · simp only at hk
        split at hk
        · cases hk
        · rename_i hl
          injection hk with hk
          subst hk
          simpa using hl
  · cases h

/-- A freshly generated key `seed ‖ pubOf seed` keeps its public key and peer ID through the
protobuf encoding (for any derivation function `pubOf` with 32-byte outputs). -/
theorem generated_key_same_public_and_id (pubOf : Bytes → Bytes) (seed : Bytes)
    (hs : seed.length = 32) (hp : (pubOf seed).length = 32) :
    ∃ k', unmarshalPrivateKey (marshalPrivateKey (genKey pubOf seed)) = .ok k' ∧
      getPublic k' = .ok (pubOf seed) ∧ idFromPrivateKey k' = .ok (idFromPublicKey (pubOf seed)) := by
  have hl : (genKey pubOf seed).length = 64 := by simp [genKey, hs, hp]
  refine ⟨genKey pubOf seed, unmarshal_marshalPrivateKey _ hl, ?_⟩
  have hd : (genKey pubOf seed).drop 32 = pubOf seed := by
    unfold genKey; rw [← hs, List.drop_left]
  have hg := getPublic_of_length (genKey pubOf seed) (by omega)
  rw [hd] at hg
  refine ⟨hg, ?_⟩
  unfold idFromPrivateKey
  rw [hg]

/-! ### PEM -/

/-- `ParsePrivKeyPem ∘ MarshalPrivKeyPem = id`. -/
theorem pem_private_roundtrip (P : PemCodec) (L : PemLaw P) (k : Bytes) (h : k.length = 64) :
    parsePrivKeyPem P (marshalPrivKeyPem P k) = .ok (some k) := by
  unfold parsePrivKeyPem marshalPrivKeyPem
  rw [L.rt _ _ (.inl rfl)]
  simp [unmarshal_marshalPrivateKey k h]

/-- `ParseKeyPem` of a private-key PEM returns the key and its public key. -/
theorem pem_key_roundtrip_private (P : PemCodec) (L : PemLaw P) (k : Bytes) (h : k.length = 64) :
    parseKeyPem P (marshalPrivKeyPem P k) = .ok (some k, some (k.drop 32)) := by
  unfold parseKeyPem marshalPrivKeyPem
  rw [L.rt _ _ (.inl rfl)]
  simp [unmarshal_marshalPrivateKey k h, getPublic_of_length k (by omega)]

/-- `ParsePubKeyPem ∘ MarshalPubKeyPem = id`. -/
theorem pem_public_roundtrip (P : PemCodec) (L : PemLaw P) (p : Bytes) (h : p.length = 32) :
    parsePubKeyPem P (marshalPubKeyPem P p) = .ok (some p) := by
  unfold parsePubKeyPem parseKeyPem marshalPubKeyPem
  rw [L.rt _ _ (.inr rfl)]
  have : pubPemType ≠ privPemType := by decide
  simp [this, unmarshalPublicKeyR_marshal p h]

/-- `ParsePubKeyPem` of a *private*-key PEM derives the same public key as the original. -/
theorem pem_public_of_private (P : PemCodec) (L : PemLaw P) (k : Bytes) (h : k.length = 64) :
    parsePubKeyPem P (marshalPrivKeyPem P k) = .ok (some (k.drop 32)) := by
  unfold parsePubKeyPem
  rw [pem_key_roundtrip_private P L k h]

/-- A PEM block of any other type never yields a key. -/
theorem pem_wrong_type_rejected (P : PemCodec) (d t b r : Bytes) (hd : P.decode d = some (t, b, r))
    (ht1 : t ≠ privPemType) (ht2 : t ≠ pubPemType) :
    parseKeyPem P d = .err ∧ parsePrivKeyPem P d = .err ∧ parsePubKeyPem P d = .err := by
  have h1 : parseKeyPem P d = .err := by
    unfold parseKeyPem; rw [hd]; simp [ht1, ht2]
  refine ⟨h1, ?_, ?_⟩
  · unfold parsePrivKeyPem; rw [hd]; simp [ht1]
  · unfold parsePubKeyPem; rw [h1]

/-- A public-key PEM is not accepted where a private key is required. -/
theorem pem_public_not_private (P : PemCodec) (d b r : Bytes)
    (hd : P.decode d = some (pubPemType, b, r)) : parsePrivKeyPem P d = .err := by
  unfold parsePrivKeyPem; rw [hd]
  have : pubPemType ≠ privPemType := by decide
  simp [this]

/-! ### configuration strings (PEM or base58) -/

/-- base58 config string of a private key parses back to the key. -/
theorem config_b58_private_roundtrip (P : PemCodec) (k : Bytes) (h : k.length = 64) :
    parsePrivateKey P (confMarshalPrivateKey k) = .ok (some k) := by
  unfold parsePrivateKey confMarshalPrivateKey
  simp only [trimSpace_b58, b58_not_pem]
  have hne : (B58.encode (marshalPrivateKey k)).isEmpty = false := by
    cases hx : B58.encode (marshalPrivateKey k) with
    | nil => exact absurd ((B58.encode_eq_nil _).mp hx) (marshalPrivateKey_ne_nil k)
    | cons => rfl
  rw [hne, B58.decode_encode _ (marshalPrivateKey_ne_nil k)]
  simp [unmarshal_marshalPrivateKey k h]

/-- base58 config string of a public key parses back to the key. -/
theorem config_b58_public_roundtrip (P : PemCodec) (p : Bytes) (h : p.length = 32) :
    parsePublicKey P (confMarshalPublicKey p) = .ok (some p) := by
  unfold parsePublicKey confMarshalPublicKey
  simp only [trimSpace_b58, b58_not_pem]
  have hne : (B58.encode (marshalPublicKey p)).isEmpty = false := by
    cases hx : B58.encode (marshalPublicKey p) with
    | nil => exact absurd ((B58.encode_eq_nil _).mp hx) (marshalPublicKey_ne_nil p)
    | cons => rfl
  rw [hne, B58.decode_encode _ (marshalPublicKey_ne_nil p)]
  simp [unmarshalPublicKeyR_marshal p h]

/-- PEM config string of a private key (`MarshalPrivateKeyPEM`) parses back to the key. -/
theorem config_pem_private_roundtrip (P : PemCodec) (L : PemLaw P) (k : Bytes) (h : k.length = 64) :
    parsePrivateKey P (marshalPrivKeyPem P k) = .ok (some k) := by
  unfold parsePrivateKey marshalPrivKeyPem
  simp only [pemLaw_trim_nonempty L _ _ (.inl rfl), L.begins _ _ (.inl rfl)]
  unfold parsePrivateKeyPEM parsePrivKeyPem
  simp only [pemLaw_trim_nonempty L _ _ (.inl rfl), L.rt_trim _ _ (.inl rfl)]
  simp [unmarshal_marshalPrivateKey k h]

/-- PEM config string of a public key parses back to the key. -/
theorem config_pem_public_roundtrip (P : PemCodec) (L : PemLaw P) (p : Bytes) (h : p.length = 32) :
    parsePublicKey P (marshalPubKeyPem P p) = .ok (some p) := by
  unfold parsePublicKey marshalPubKeyPem
  simp only [pemLaw_trim_nonempty L _ _ (.inr rfl), L.begins _ _ (.inr rfl)]
  unfold parsePublicKeyPEM parsePubKeyPem parseKeyPem
  simp only [pemLaw_trim_nonempty L _ _ (.inr rfl), L.rt_trim _ _ (.inr rfl)]
  have : pubPemType ≠ privPemType := by decide
  simp [this, unmarshalPublicKeyR_marshal p h]

/-- …and the public-key field accepts a private-key PEM, yielding the same public key. -/
theorem config_pem_public_of_private (P : PemCodec) (L : PemLaw P) (k : Bytes) (h : k.length = 64) :
    parsePublicKey P (marshalPrivKeyPem P k) = .ok (some (k.drop 32)) := by
  unfold parsePublicKey marshalPrivKeyPem
  simp only [pemLaw_trim_nonempty L _ _ (.inl rfl), L.begins _ _ (.inl rfl)]
  unfold parsePublicKeyPEM parsePubKeyPem parseKeyPem
  simp only [pemLaw_trim_nonempty L _ _ (.inl rfl), L.rt_trim _ _ (.inl rfl)]
  simp [unmarshal_marshalPrivateKey k h, getPublic_of_length k (by omega)]

/-- Every private key accepted from a config string is a usable 64-byte key. -/
theorem config_private_accepted_usable (P : PemCodec) (s k : Bytes)
    (h : parsePrivateKey P s = .ok (some k)) : k.length = 64 := by
  have key : ∀ d, (match unmarshalPrivateKey d with
      | .ok k => Res.ok (some k) | .err => .err | .panic => .panic) = .ok (some k) →
      k.length = 64 := by
    intro d hd
    cases hk : unmarshalPrivateKey d with
    | ok k' =>
      rw [hk] at hd
      simp only [Res.ok.injEq, Option.some.injEq] at hd
      subst hd
      exact unmarshalPrivateKey_ok_length _ _ hk
    | err => rw [hk] at hd; cases hd
    | panic => rw [hk] at hd; cases hd
  unfold parsePrivateKey at h
  simp only at h
  split at h
  · cases h
  · split at h
    · unfold parsePrivateKeyPEM at h
      split at h
      · cases h
      · unfold parsePrivKeyPem at h
        cases hd : P.decode (trimSpace s) with
        | none => rw [hd] at h; simp at h
        | some tbr =>
          obtain ⟨t, b, r⟩ := tbr
          rw [hd] at h
          simp only at h
          by_cases ht : t ≠ privPemType
          · rw [if_pos ht] at h; simp at h
          · rw [if_neg ht] at h
            cases hk : unmarshalPrivateKey b with
            | ok k' =>
              rw [hk] at h
              simp only [Res.ok.injEq, Option.some.injEq] at h
              subst h
              exact unmarshalPrivateKey_ok_length _ _ hk
            | err => rw [hk] at h; simp at h
            | panic => rw [hk] at h; simp at h
    · split at h
      · cases h
      · exact key _ h

/-! ### totality: no decoder can panic -/

theorem ed25519_private_total (d : Bytes) : unmarshalEd25519PrivateKey d ≠ .panic :=
  unmarshalEd_ne_panic d

theorem unmarshal_private_total (b : Bytes) : unmarshalPrivateKey b ≠ .panic :=
  unmarshalPrivateKey_ne_panic b

theorem unmarshal_public_total (b : Bytes) : unmarshalPublicKeyR b ≠ .panic :=
  unmarshalPublicKeyR_ne_panic b

theorem parseKeyPem_total (P : PemCodec) (d : Bytes) : parseKeyPem P d ≠ .panic := by
  unfold parseKeyPem
  split
  · simp
  · split
    · split
      · rename_i k hk
        rw [getPublic_of_length k (by have := unmarshalPrivateKey_ok_length _ _ hk; omega)]
        simp
      · simp
      · rename_i hk; exact absurd hk (unmarshalPrivateKey_ne_panic _)
    · split
      · split
        · simp
        · simp
        · rename_i hk; exact absurd hk (unmarshalPublicKeyR_ne_panic _)
      · simp

theorem parsePrivKeyPem_total (P : PemCodec) (d : Bytes) : parsePrivKeyPem P d ≠ .panic :=
  parsePrivKeyPem_ne_panic P d

theorem parsePubKeyPem_total (P : PemCodec) (d : Bytes) : parsePubKeyPem P d ≠ .panic := by
  unfold parsePubKeyPem
  split
  · simp
  · simp
  · rename_i hk; exact absurd hk (parseKeyPem_total P d)

theorem parsePrivateKeyPEM_total (P : PemCodec) (d : Bytes) : parsePrivateKeyPEM P d ≠ .panic := by
  unfold parsePrivateKeyPEM
  split
  · simp
  · split
    · simp
    · rename_i r hr; intro h; exact parsePrivKeyPem_total P d h

theorem parsePublicKeyPEM_total (P : PemCodec) (d : Bytes) : parsePublicKeyPEM P d ≠ .panic := by
  unfold parsePublicKeyPEM
  split
  · simp
  · split
    · simp
    · rename_i r hr; intro h; exact parsePubKeyPem_total P d h

/-- `confparse.ParsePrivateKey` on an arbitrary string returns a key, "absent" or an error. -/
theorem parsePrivateKey_total (P : PemCodec) (s : Bytes) : parsePrivateKey P s ≠ .panic := by
  unfold parsePrivateKey
  simp only
  split
  · simp
  · split
    · exact parsePrivateKeyPEM_total P _
    · split
      · simp
      · split
        · simp
        · simp
        · rename_i hk; exact absurd hk (unmarshalPrivateKey_ne_panic _)

theorem parsePublicKey_total (P : PemCodec) (s : Bytes) : parsePublicKey P s ≠ .panic := by
  unfold parsePublicKey
  simp only
  split
  · simp
  · split
    · exact parsePublicKeyPEM_total P _
    · split
      · simp
      · split
        · simp
        · simp
        · rename_i hk; exact absurd hk (unmarshalPublicKeyR_ne_panic _)

/-! ### confparse.ParsePeer: one identity, three config forms -/

/-- A private key in the config (base58) gives the peer of that key, whatever the other two
fields say. -/
theorem parsePeer_private (P : PemCodec) (k pub pid : Bytes) (h : k.length = 64) :
    parsePeer P (confMarshalPrivateKey k) pub pid =
      .ok ⟨some k, k.drop 32, idFromPublicKey (k.drop 32)⟩ := by
  unfold parsePeer
  rw [config_b58_private_roundtrip P k h]
  simp [getPublic_of_length k (by omega)]

/-- …and so does its PEM form. -/
theorem parsePeer_private_pem (P : PemCodec) (L : PemLaw P) (k pub pid : Bytes) (h : k.length = 64) :
    parsePeer P (marshalPrivKeyPem P k) pub pid =
      .ok ⟨some k, k.drop 32, idFromPublicKey (k.drop 32)⟩ := by
  unfold parsePeer
  rw [config_pem_private_roundtrip P L k h]
  simp [getPublic_of_length k (by omega)]

/-- Without a private key, the public key field gives the same public key and peer ID. -/
theorem parsePeer_public (P : PemCodec) (p pid : Bytes) (h : p.length = 32) :
    parsePeer P [] (confMarshalPublicKey p) pid = .ok ⟨none, p, idFromPublicKey p⟩ := by
  unfold parsePeer
  rw [parsePrivateKey_nil, config_b58_public_roundtrip P p h]

/-- Without either key, the peer ID's text gives the same public key and peer ID. -/
theorem parsePeer_id (P : PemCodec) (p : Bytes) (h : p.length = 32) :
    parsePeer P [] [] (idB58Encode (idFromPublicKey p)) = .ok ⟨none, p, idFromPublicKey p⟩ := by
  unfold parsePeer
  rw [parsePrivateKey_nil, parsePublicKey_nil]
  simp only
  rw [parsePeerId_of_valid _ (idFromBytes_idFromPublicKey p h)]
  have hne : (idFromPublicKey p).isEmpty = false := by
    rw [idFromPublicKey_eq p h]; rfl
  simp [hne, Codec.extract_idFromPublicKey p h]

/-- Nothing set is an error; and `ParsePeer` cannot panic. -/
theorem parsePeer_nothing (P : PemCodec) : parsePeer P [] [] [] = .err := rfl

theorem parsePeer_total (P : PemCodec) (priv pub pid : Bytes) : parsePeer P priv pub pid ≠ .panic := by
  unfold parsePeer
  cases h1 : parsePrivateKey P priv with
  | panic => exact absurd h1 (parsePrivateKey_total P priv)
  | err => simp
  | ok o =>
    cases o with
    | some k =>
      simp only
      rw [getPublic_of_length k (by have := config_private_accepted_usable P priv k h1; omega)]
      simp
    | none =>
      simp only
      cases h2 : parsePublicKey P pub with
      | panic => exact absurd h2 (parsePublicKey_total P pub)
      | err => simp
      | ok o2 =>
        cases o2 with
        | some p => simp
        | none =>
          simp only
          split
          · simp
          · split
            · simp
            · split <;> simp

/-! ### standard-library key conversion -/

/-- `KeyPairFromStdKey` on an `ed25519.PrivateKey` slice panics exactly when the slice is
shorter than 32 bytes (inside `ed25519.PrivateKey.Public`); otherwise converting back gives
the same key, and for a 64-byte key the public key is its tail. -/
theorem std_key_roundtrip (k : Bytes) :
    (keyPairFromStdKey k = .panic ↔ k.length < 32) ∧
    (32 ≤ k.length → ∃ p, keyPairFromStdKey k = .ok (privKeyToStdKey k, p) ∧
      (k.length = 64 → p = k.drop 32)) := by
  unfold keyPairFromStdKey sliceFrom? privKeyToStdKey
  constructor
  · by_cases h : 32 ≤ k.length
    · simp [h]
    · simp [h]; omega
  · intro h
    simp only [h, ↓reduceIte]
    refine ⟨_, rfl, ?_⟩
    intro h64
    have : (k.drop 32).length = 32 := by simp [h64]
    rw [List.take_append_of_le_length (by omega), List.take_of_length_le (by omega)]

/-! ### Equals: true exactly for the same key -/

/-- `k.Equals(o)` is true exactly when `o` is a (non-nil) key of the same type with the same raw
bytes: never for nil, never for another key, never for a key of another type. -/
theorem equals_iff (k : KeyVal) (o : Option KeyVal) : keyEquals k o = true ↔ o = some k := by
  cases o with
  | none => simp [keyEquals]
  | some o =>
    obtain ⟨t, r⟩ := k
    obtain ⟨t', r'⟩ := o
    simp only [keyEquals, ctEq, Bool.and_eq_true, decide_eq_true_eq, Option.some.injEq, KeyVal.mk.injEq]
    constructor
    · rintro ⟨h1, _, h3⟩; exact ⟨h1.symm, h3.symm⟩
    · rintro ⟨h1, h2⟩; exact ⟨h1.symm, by rw [h2], h2.symm⟩

/-- A private key never `Equals` a public key (64 vs 32 raw bytes), a key never equals nil, and
two keys that differ in one byte are unequal. -/
theorem equals_negative (k o : KeyVal) :
    keyEquals k none = false ∧
    (k.raw.length ≠ o.raw.length → keyEquals k (some o) = false) ∧
    (k.raw ≠ o.raw → keyEquals k (some o) = false) ∧
    (k.typ ≠ o.typ → keyEquals k (some o) = false) := by
  refine ⟨rfl, ?_, ?_, ?_⟩
  · intro h
    cases hb : keyEquals k (some o) with
    | false => rfl
    | true => rw [equals_iff] at hb; injection hb with hb; subst hb; exact absurd rfl h
  · intro h
    cases hb : keyEquals k (some o) with
    | false => rfl
    | true => rw [equals_iff] at hb; injection hb with hb; subst hb; exact absurd rfl h
  · intro h
    cases hb : keyEquals k (some o) with
    | false => rfl
    | true => rw [equals_iff] at hb; injection hb with hb; subst hb; exact absurd rfl h

/-- A decoded private key `Equals` the original (and only the original). -/
theorem decoded_equals_original (k : Bytes) (h : k.length = 64) (o : KeyVal) :
    ∃ k', unmarshalPrivateKey (marshalPrivateKey k) = .ok k' ∧
      (keyEquals ⟨keyTypeEd25519, k'⟩ (some o) = true ↔ o = ⟨keyTypeEd25519, k⟩) := by
  refine ⟨k, unmarshal_marshalPrivateKey k h, ?_⟩
  rw [equals_iff]
  constructor
  · intro e; injection e
  · intro e; rw [e]

/-! ### key generation from a reader -/

/-- `GenerateKeyPairWithReader` succeeds exactly for the Ed25519 key type and a reader that
delivers at least 32 bytes; the key is `NewKeyFromSeed` of the first 32 bytes. -/
theorem generate_ok_iff (pubOf : Bytes → Bytes) (typ : Int) (src k p : Bytes) :
    generateKeyPair pubOf typ src = .ok (k, p) ↔
      typ = keyTypeEd25519 ∧ 32 ≤ src.length ∧ k = src.take 32 ++ pubOf (src.take 32) ∧ p = pubOf (src.take 32) := by
  unfold generateKeyPair genKey
  by_cases ht : typ = keyTypeEd25519
  · by_cases hl : src.length < 32
    · simp [ht, hl]
    · simp only [ht, ne_eq, not_true_eq_false, ↓reduceIte, hl, Res.ok.injEq, Prod.mk.injEq, true_and]
      constructor
      · rintro ⟨rfl, rfl⟩; exact ⟨by omega, rfl, rfl⟩
      · rintro ⟨_, rfl, rfl⟩; exact ⟨rfl, rfl⟩
  · simp [ht]

/-- Never a panic; an unsupported key type or a short / failing reader is an error. -/
theorem generate_total (pubOf : Bytes → Bytes) (typ : Int) (src : Bytes) :
    generateKeyPair pubOf typ src ≠ .panic ∧
    (typ ≠ keyTypeEd25519 ∨ src.length < 32 → generateKeyPair pubOf typ src = .err) := by
  unfold generateKeyPair
  constructor
  · split
    · simp
    · split <;> simp
  · rintro (h | h)
    · simp [h]
    · split
      · rfl
      · simp

/-- A generated pair is consistent: the returned public key is the private key's public key,
both give the same peer ID, and the private key survives the protobuf encoding with that
public key and ID. -/
theorem generated_pair_consistent (pubOf : Bytes → Bytes) (hp : ∀ s, (pubOf s).length = 32)
    (typ : Int) (src k p : Bytes) (h : generateKeyPair pubOf typ src = .ok (k, p)) :
    k.length = 64 ∧ getPublic k = .ok p ∧ idFromPrivateKey k = .ok (idFromPublicKey p) ∧
      unmarshalPrivateKey (marshalPrivateKey k) = .ok k ∧
      unmarshalPublicKeyR (marshalPublicKey p) = .ok p := by
  obtain ⟨_, hl, rfl, rfl⟩ := (generate_ok_iff pubOf typ src k p).mp h
  have hs : (src.take 32).length = 32 := by simp; omega
  obtain ⟨k', hk', hpub, hid⟩ := generated_key_same_public_and_id pubOf (src.take 32) hs (hp _)
  have hk : (src.take 32 ++ pubOf (src.take 32)).length = 64 := by simp [hp]; omega
  have hgp : getPublic (src.take 32 ++ pubOf (src.take 32)) = .ok (pubOf (src.take 32)) := by
    rw [getPublic_of_length _ (by omega)]
    congr 1
    generalize src.take 32 = sd at hs ⊢
    rw [← hs, List.drop_left]
  refine ⟨hk, hgp, ?_, unmarshal_marshalPrivateKey _ hk, unmarshalPublicKeyR_marshal _ (hp _)⟩
  unfold idFromPrivateKey
  rw [hgp]

/-! ### marshalling the `(nil, nil)` a parser may return -/

/-- None of the six marshal functions panics on a nil key: the protobuf and PEM forms report an
error, the base58 config forms give the empty string (which parses back to "absent"). -/
theorem marshal_nil_key_total (P : PemCodec) :
    marshalPrivateKeyOpt none = .err ∧ marshalPublicKeyOpt none = .err ∧
    marshalPrivKeyPemOpt P none = .err ∧ marshalPubKeyPemOpt P none = .err ∧
    confMarshalPrivateKeyOpt none = .ok [] ∧ confMarshalPublicKeyOpt none = .ok [] ∧
    parsePrivateKey P [] = .ok none ∧ parsePublicKey P [] = .ok none :=
  ⟨rfl, rfl, rfl, rfl, rfl, rfl, rfl, rfl⟩

/-- …so marshalling whatever a PEM parser returned — a key or the `(nil, nil)` of an input without a
PEM block — never panics, for every input. -/
theorem marshal_of_parsed_total (P : PemCodec) (d : Bytes) :
    (∀ k, parsePrivKeyPem P d = .ok k → marshalPrivKeyPemOpt P k ≠ .panic ∧ marshalPrivateKeyOpt k ≠ .panic) ∧
    (∀ p, parsePubKeyPem P d = .ok p → marshalPubKeyPemOpt P p ≠ .panic ∧ marshalPublicKeyOpt p ≠ .panic) ∧
    (∀ k, parsePrivateKeyPEM P d = .ok k → marshalPrivKeyPemOpt P k ≠ .panic) ∧
    (∀ p, parsePublicKeyPEM P d = .ok p → marshalPubKeyPemOpt P p ≠ .panic) := by
  refine ⟨?_, ?_, ?_, ?_⟩ <;> intro k _ <;> cases k <;> simp [marshalPrivKeyPemOpt, marshalPubKeyPemOpt, marshalPrivateKeyOpt, marshalPublicKeyOpt]

/-- What was wrong before the fix: `k.Raw()` on the nil key panicked. -/
theorem prefix_marshal_nil_panics (enc : Bytes → Bytes) : marshalKeyOptPreFix enc none = .panic := rfl

/-- A non-nil key marshals as before (the Opt forms agree with the total ones). -/
theorem marshal_some (P : PemCodec) (k : Bytes) :
    marshalPrivateKeyOpt (some k) = .ok (marshalPrivateKey k) ∧
    marshalPrivKeyPemOpt P (some k) = .ok (marshalPrivKeyPem P k) ∧
    marshalPubKeyPemOpt P (some k) = .ok (marshalPubKeyPem P k) ∧
    confMarshalPrivateKeyOpt (some k) = .ok (confMarshalPrivateKey k) := ⟨rfl, rfl, rfl, rfl⟩

example : keyEquals ⟨1, List.replicate 64 7⟩ (some ⟨1, List.replicate 32 7⟩) = false ∧
    keyEquals ⟨1, [1, 2]⟩ (some ⟨1, [1, 3]⟩) = false ∧ keyEquals ⟨1, [1, 2]⟩ (some ⟨1, [1, 2]⟩) = true := by decide

example : generateKeyPair (fun s => s) 1 (List.replicate 40 5) = .ok (List.replicate 64 5, List.replicate 32 5) ∧
    generateKeyPair (fun s => s) 1 (List.replicate 31 5) = .err ∧ generateKeyPair (fun s => s) 2 (List.replicate 40 5) = .err := by decide

/-- The constants the model uses are the ones in the source (re-extracted on every run): the
two PEM block types and the prefix on which the config parsers choose PEM over base58. -/
theorem constants_match_source :
    Gen.ConfigConsts.privPemType = privPemType ∧ Gen.ConfigConsts.pubPemType = pubPemType ∧
    Gen.ConfigConsts.pemPrefix = pemBegin := by decide

/-- Non-vacuity: the PEM law is satisfiable, and the theorems fire on a concrete key. -/
example : parsePrivateKey ToyPem (marshalPrivKeyPem ToyPem (List.replicate 64 7)) =
    .ok (some (List.replicate 64 7)) :=
  config_pem_private_roundtrip ToyPem toyPem_law _ (by simp)

example : unmarshalEd25519PrivateKey (List.replicate 64 7 ++ List.replicate 32 9) = .err := by decide

end Bifrost.Props.C11
