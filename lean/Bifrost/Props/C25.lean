import Bifrost.Model.Signaling
import Bifrost.Lemmas.SigReg
/-!
C25 — One active listen/session per peer pair, and no leftover relay state.
-/
namespace Bifrost.Props.C25
open Bifrost Bifrost.Sig

/-- At most one active listen call per peer and at most one attached session call per ordered
pair of peers. -/
theorem at_most_one_active (s : State) (h : Reachable s) : uniqueOk s = true := by
  exact SigReg.uniqueOk_of_inv (SigReg.inv_of_reachable h)

/-- A call that has been replaced by a newer one is awake: it will observe the replacement… -/
theorem replaced_is_woken (s : State) (h : Reachable s) : replacedOk s = true := by
  exact SigReg.replacedOk_of_inv (SigReg.inv_of_reachable h)

/-- …and when its loop runs it returns with the replaced error (session). -/
theorem replaced_session_errors (s : State) (c : SCall) (t : Sess)
    (hc : getSCall s c.id = some c) (ht : getSess s c.sess = some t)
    (hrep : c.attached s = false) :
    ∃ c', getSCall (sLoop s c.id) c.id = some c' ∧ c'.failing = true ∧ c'.outbox = c.outbox := by
  exact SigReg.replaced_session_errors_aux s c t hc ht hrep

/-- …(listen). -/
theorem replaced_listen_errors (s : State) (l : LCall) (t : Tkr)
    (hl : getLCall s l.id = some l) (ht : getTkr s l.tkr = some t) (hrep : t.nonce ≠ l.myNonce) :
    ∃ s', lUsurped s l.id = some s' ∧ ∀ w n, lLoop s l.id w n = none := by
  simp [lUsurped, lLoop, hl, ht, hrep]

/-- Once all listen and session calls have ended, the relay keeps no per-peer or per-session state. -/
theorem drained_is_empty (s : State) (h : Reachable s)
    (hs : ∀ c ∈ s.scalls, c.ended = true) (hl : ∀ l ∈ s.lcalls, l.ended = true) :
    s.peerMap = [] ∧ s.sessMap = [] := by
  exact SigReg.drained_of_inv (SigReg.inv_of_reachable h) hs hl

/-- Non-vacuity: a concrete history with usurpation that drains to empty. -/
example : (run [.lreg 1 2, .init 2 1 2, .init 3 1 2, .loop 2, .end_ 2, .lreg 4 2, .lusurped 1, .lend 1,
    .end_ 3, .lend 4]).peerMap = [] := by
  decide

end Bifrost.Props.C25
