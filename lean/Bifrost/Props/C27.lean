import Bifrost.Model.Pubsub
import Bifrost.Model.Crypto
import Bifrost.Lemmas.Pubsub
import Bifrost.Props.C01
/-!
C27 — Subscribers receive only authentic messages for their channel.
`handlePublishOne` is one iteration of `streamHandler.handlePublish` followed by
`handleValidMessage` / `execPublish` (model of the code after
"fix: ExtractAndVerify returned nil instead of the signature error").
-/
namespace Bifrost.Props.C27
open Bifrost Bifrost.Codec Bifrost.Sign Bifrost.Crypto Bifrost.Pubsub

/-- A message handed to subscribers is authentic for the reported sender and was signed for
exactly the channel whose subscriptions receive it: the inner message decodes to
`(ch, data)`, the reported sender is the ID in the message, and the signature was produced by
a private key of the public key embedded in that ID over the body built from the context
`prefix ++ ch`, the hash type and the digest of the inner bytes. It goes to the `n` local
subscriptions of `ch` only. -/
theorem delivered_authentic_and_on_channel (S : SigScheme) (H : HashFam) (mid : Bytes → Bytes)
    (r r' : Router) (prev : Bytes) (m : SignedMsg) (ch sender data : Bytes) (n : Nat) (fw : List Tpl)
    (h : handlePublishOne S.verify H.sum mid r prev m = (r', .accepted ch sender data n, fw)) :
    ∃ i pk, Inner.unmarshal m.data = some i ∧ i.channel = ch ∧ i.data = data ∧ ch ≠ [] ∧
      idB58Decode m.fromPeerId = some sender ∧ extractPublicKey sender = some pk ∧
      (∃ sk d, S.pub sk = pk ∧ H.sum m.signature.hashType m.data = some d ∧
        m.signature.sigData = S.sign sk (signBody (pubContext ch) m.signature.hashType d)) ∧
      lookupCh r.channels ch = some n := by
  obtain ⟨i, pk, c, hev, hch, hd, hc, hn, _, _, _⟩ := (handlePublishOne_accepted_iff ..).mp h
  obtain ⟨hi, hv, hs⟩ := (Pubsub.extractAndVerify_ok_iff ..).mp hev
  obtain ⟨hid, hpk, hsig⟩ := C01.extractAndVerify_sound S H m _ pk sender hs
  subst hn
  refine ⟨i, pk, hi, hch, hd, ?_, hid, hpk, ?_, hc⟩
  · rw [← hch]; exact validate_channel_ne_nil i hv
  · rw [← hch]; exact hsig

/-- Everything that is not accepted — rejected, not subscribed, duplicate — is neither handed
to a subscriber nor forwarded, and leaves the router unchanged. -/
theorem rejected_not_forwarded (verify : VerifyFn) (sum : SumFn) (mid : Bytes → Bytes) (r r' : Router)
    (prev : Bytes) (m : SignedMsg) (res : PubRes) (fw : List Tpl)
    (h : handlePublishOne verify sum mid r prev m = (r', res, fw))
    (hres : ∀ ch s d n, res ≠ .accepted ch s d n) : r' = r ∧ fw = [] :=
  handlePublishOne_not_accepted verify sum mid r r' prev m res fw h hres

/-- Binding of an honest signature. Let `s` be the signature an honest publisher `sk` made
for channel `ch` over the inner bytes `data`. ANY packet carrying these signature bytes that is
accepted (under any claimed sender, any body, any relabelled hash type) is delivered on `ch`
itself, reports the honest publisher's key, and its body has the same digest. -/
theorem honest_signature_binds (S : SigScheme) (H : HashFam) (sk ch data : Bytes) (t : Int) (s : Signature)
    (hs : newSignature (S.sign sk) H.sum (pubContext ch) t data = some s)
    (mid : Bytes → Bytes) (r r' : Router) (prev : Bytes) (m' : SignedMsg)
    (ch' sender' data' : Bytes) (n : Nat) (fw : List Tpl)
    (hsig : m'.signature.sigData = s.sigData)
    (h : handlePublishOne S.verify H.sum mid r prev m' = (r', .accepted ch' sender' data' n, fw)) :
    ch' = ch ∧ extractPublicKey sender' = some (S.pub sk) ∧ m'.signature.hashType = t ∧
      H.sum t m'.data = H.sum t data := by
  obtain ⟨i, pk, c, hev, hch, _, _, _, _, _, _⟩ := (handlePublishOne_accepted_iff ..).mp h
  obtain ⟨_, _, hs'⟩ := (Pubsub.extractAndVerify_ok_iff ..).mp hev
  obtain ⟨hpk, hctx, ht, hsum⟩ := C01.tamper_rejected S H sk (pubContext ch) data t s hs m' _ pk sender' hsig hs'
  obtain ⟨_, _, _, _, hxp, _⟩ := (C01.extractAndVerify_ok_iff ..).mp hs'
  refine ⟨?_, by rw [hxp, hpk], ht, hsum⟩
  rw [← hch]
  exact pubContext_injective _ _ hctx

/-- Re-targeting: a packet that carries an honest signature made for channel `ch` but whose
inner message names another channel is rejected (not delivered, not forwarded). -/
theorem retargeted_rejected (S : SigScheme) (H : HashFam) (sk ch data : Bytes) (t : Int) (s : Signature)
    (hs : newSignature (S.sign sk) H.sum (pubContext ch) t data = some s)
    (mid : Bytes → Bytes) (r : Router) (prev : Bytes) (m' : SignedMsg) (i' : Inner)
    (hsig : m'.signature.sigData = s.sigData)
    (hi : Inner.unmarshal m'.data = some i') (hne : i'.channel ≠ ch) :
    ∃ e, handlePublishOne S.verify H.sum mid r prev m' = (r, .rejected e, []) := by
  have : ∀ i pk id, Pubsub.extractAndVerify S.verify H.sum m' ≠ .ok (i, pk, id) := by
    intro i pk id hev
    obtain ⟨hi2, _, hs'⟩ := (Pubsub.extractAndVerify_ok_iff ..).mp hev
    rw [hi] at hi2
    cases hi2
    obtain ⟨_, hctx, _, _⟩ := C01.tamper_rejected S H sk (pubContext ch) data t s hs m' _ pk id hsig hs'
    exact hne (pubContext_injective _ _ hctx)
  obtain ⟨e, he⟩ := extractAndVerify_error_of _ _ _ this
  exact ⟨e, handlePublishOne_rejected _ _ mid r prev m' e he⟩

/-- Tampering: a packet that carries an honest signature but a body with a different digest
(under the signed hash type) is rejected. -/
theorem tampered_rejected (S : SigScheme) (H : HashFam) (sk ch data : Bytes) (t : Int) (s : Signature)
    (hs : newSignature (S.sign sk) H.sum (pubContext ch) t data = some s)
    (mid : Bytes → Bytes) (r : Router) (prev : Bytes) (m' : SignedMsg)
    (hsig : m'.signature.sigData = s.sigData)
    (hdig : H.sum t m'.data ≠ H.sum t data) :
    ∃ e, handlePublishOne S.verify H.sum mid r prev m' = (r, .rejected e, []) := by
  have : ∀ i pk id, Pubsub.extractAndVerify S.verify H.sum m' ≠ .ok (i, pk, id) := by
    intro i pk id hev
    obtain ⟨_, _, hs'⟩ := (Pubsub.extractAndVerify_ok_iff ..).mp hev
    obtain ⟨_, _, _, hsum⟩ := C01.tamper_rejected S H sk (pubContext ch) data t s hs m' _ pk id hsig hs'
    exact hdig hsum
  obtain ⟨e, he⟩ := extractAndVerify_error_of _ _ _ this
  exact ⟨e, handlePublishOne_rejected _ _ mid r prev m' e he⟩

/-- Foreign signer: if the signature bytes were not produced by a private key of the CLAIMED
sender over the body prescribed for the inner channel, the packet is rejected. -/
theorem foreign_signer_rejected (S : SigScheme) (H : HashFam) (mid : Bytes → Bytes) (r : Router)
    (prev : Bytes) (m : SignedMsg)
    (hno : ∀ i id pk d sk, Inner.unmarshal m.data = some i → idB58Decode m.fromPeerId = some id →
      extractPublicKey id = some pk → H.sum m.signature.hashType m.data = some d → S.pub sk = pk →
      m.signature.sigData ≠ S.sign sk (signBody (pubContext i.channel) m.signature.hashType d)) :
    ∃ e, handlePublishOne S.verify H.sum mid r prev m = (r, .rejected e, []) := by
  have : ∀ i pk id, Pubsub.extractAndVerify S.verify H.sum m ≠ .ok (i, pk, id) := by
    intro i pk id hev
    obtain ⟨hi, _, hs'⟩ := (Pubsub.extractAndVerify_ok_iff ..).mp hev
    obtain ⟨hid, hpk, sk, d, hpub, hsum, hsig⟩ := C01.extractAndVerify_sound S H m _ pk id hs'
    exact hno i id pk d sk hi hid hpk hsum hpub hsig
  obtain ⟨e, he⟩ := extractAndVerify_error_of _ _ _ this
  exact ⟨e, handlePublishOne_rejected _ _ mid r prev m e he⟩

/-- Not subscribed: a packet whose inner channel is not a key of `m.channels` is dropped
(whatever its signature), nothing is forwarded and the seen set is untouched. -/
theorem not_subscribed_dropped (verify : VerifyFn) (sum : SumFn) (mid : Bytes → Bytes) (r r' : Router)
    (prev : Bytes) (m : SignedMsg) (i : Inner) (res : PubRes) (fw : List Tpl)
    (hi : Inner.unmarshal m.data = some i) (hns : lookupCh r.channels i.channel = none)
    (h : handlePublishOne verify sum mid r prev m = (r', res, fw)) :
    (∀ ch s d n, res ≠ .accepted ch s d n) ∧ r' = r ∧ fw = [] := by
  have hna : ∀ ch s d n, res ≠ .accepted ch s d n := by
    intro ch s d n e
    subst e
    obtain ⟨i2, pk, c, hev, hch, _, hc, _⟩ := (handlePublishOne_accepted_iff ..).mp h
    obtain ⟨hi2, _, _⟩ := (Pubsub.extractAndVerify_ok_iff ..).mp hev
    rw [hi] at hi2
    cases hi2
    rw [hch, hc] at hns
    cases hns
  exact ⟨hna, handlePublishOne_not_accepted verify sum mid r r' prev m res fw h hna⟩

/-- An inner message with an empty channel is rejected. -/
theorem empty_channel_rejected (verify : VerifyFn) (sum : SumFn) (mid : Bytes → Bytes) (r : Router)
    (prev : Bytes) (m : SignedMsg) (i : Inner)
    (hi : Inner.unmarshal m.data = some i) (he : i.channel = []) :
    handlePublishOne verify sum mid r prev m = (r, .rejected .invalidInner, []) := by
  apply handlePublishOne_rejected
  unfold Pubsub.extractAndVerify
  have : i.validate = false := by
    unfold Inner.validate
    rw [he]
    rfl
  simp only [hi, this, Bool.not_false, if_true]

/-- Completeness: an honest message (signed by `sk` for the channel its inner message names)
for a subscribed channel whose id was not seen is handed to the `c` local subscriptions with
the publisher's ID and forwarded to the peers known to subscribe, except the publisher and
the previous hop. -/
theorem honest_delivered (S : SigScheme) (H : HashFam) (mid : Bytes → Bytes) (r : Router) (prev : Bytes)
    (sk data : Bytes) (t : Int) (s : Signature) (i : Inner) (c : Nat)
    (hpk : (S.pub sk).length = 32)
    (hi : Inner.unmarshal data = some i) (hv : i.validate = true) (hd : data ≠ [])
    (hs : newSignature (S.sign sk) H.sum (pubContext i.channel) t data = some s)
    (hc : lookupCh r.channels i.channel = some c)
    (m : SignedMsg) (hm : m = { fromPeerId := idB58Encode (idFromPublicKey (S.pub sk)), signature := s, data := data })
    (hseen : r.seen.contains (mid (msgKey m)) = false) :
    handlePublishOne S.verify H.sum mid r prev m =
      ({ r with seen := mid (msgKey m) :: r.seen },
       .accepted i.channel (idFromPublicKey (S.pub sk)) i.data c,
       execPublishTargets { r with seen := mid (msgKey m) :: r.seen } i.channel m.fromPeerId prev) := by
  apply (handlePublishOne_accepted_iff ..).mpr
  refine ⟨i, S.pub sk, c, ?_, rfl, rfl, hc, rfl, hseen, rfl, rfl⟩
  apply (Pubsub.extractAndVerify_ok_iff ..).mpr
  subst hm
  exact ⟨hi, hv, C01.honest_accepted S H sk (pubContext i.channel) data t s hpk hd hs⟩

/-! ### whole packets and histories

`handlePublishBatch` is the loop of `streamHandler.handlePublish` over one `Packet.Publish` list;
a history of packets is the same fold continued on the router state the previous packet left. All
theorems above quantify over EVERY router state, so they hold after any history; the statements
below make the pairing "k-th result ↔ k-th entry" and the history independence explicit. -/

/-- The results of a packet are paired with its entries, in order. -/
theorem batch_results_in_order (verify : VerifyFn) (sum : SumFn) (mid : Bytes → Bytes) (r : Router) (prev : Bytes)
    (ms : List SignedMsg) : ((handlePublishBatch verify sum mid r prev ms).2.map (·.1)) = ms := by
  induction ms generalizing r with
  | nil => rfl
  | cons m t ih =>
    simp only [handlePublishBatch, List.map_cons]
    rw [ih]

/-- Every entry of every packet is judged on its own bytes: an accepted entry — wherever it stands
in the list, whatever rejected or valid entries precede it, whatever the router has seen before —
is authentic for ITS OWN claimed sender and signed channel (same conclusion as
`delivered_authentic_and_on_channel`, for the message the result is paired with). -/
theorem batch_delivered_authentic (S : SigScheme) (H : HashFam) (mid : Bytes → Bytes) (r : Router) (prev : Bytes)
    (ms : List SignedMsg) (m : SignedMsg) (ch sender data : Bytes) (n : Nat) (fw : List Tpl)
    (h : (m, PubRes.accepted ch sender data n, fw) ∈ (handlePublishBatch S.verify H.sum mid r prev ms).2) :
    ∃ i pk, Inner.unmarshal m.data = some i ∧ i.channel = ch ∧ i.data = data ∧ ch ≠ [] ∧
      idB58Decode m.fromPeerId = some sender ∧ extractPublicKey sender = some pk ∧
      (∃ sk d, S.pub sk = pk ∧ H.sum m.signature.hashType m.data = some d ∧
        m.signature.sigData = S.sign sk (signBody (pubContext ch) m.signature.hashType d)) := by
  induction ms generalizing r with
  | nil => simp [handlePublishBatch] at h
  | cons m0 t ih =>
    simp only [handlePublishBatch, List.mem_cons] at h
    rcases h with h | h
    · injection h with hm hrest
      injection hrest with hres hfw
      subst hm
      obtain ⟨i, pk, a, b, c, d, e, f, g, _⟩ :=
        delivered_authentic_and_on_channel S H mid r (handlePublishOne S.verify H.sum mid r prev m).1 prev m ch sender data n
          (handlePublishOne S.verify H.sum mid r prev m).2.2 (by rw [hres])
      exact ⟨i, pk, a, b, c, d, e, f, g⟩
    · exact ih _ h

/-- An entry that is not accepted is not forwarded, wherever it stands. -/
theorem batch_rejected_not_forwarded (verify : VerifyFn) (sum : SumFn) (mid : Bytes → Bytes) (r : Router) (prev : Bytes)
    (ms : List SignedMsg) (m : SignedMsg) (res : PubRes) (fw : List Tpl)
    (h : (m, res, fw) ∈ (handlePublishBatch verify sum mid r prev ms).2)
    (hres : ∀ ch s d n, res ≠ .accepted ch s d n) : fw = [] := by
  induction ms generalizing r with
  | nil => simp [handlePublishBatch] at h
  | cons m0 t ih =>
    simp only [handlePublishBatch, List.mem_cons] at h
    rcases h with h | h
    · injection h with hm hrest
      injection hrest with hr hfw
      subst hm
      exact (handlePublishOne_not_accepted verify sum mid r _ prev m res fw (by rw [hr, hfw]) hres).2
    · exact ih _ h

/-- Re-using an authentic signature: whatever came before (`pre` — e.g. the honest message itself,
dropped because its channel is not subscribed, or delivered, or replayed) and whatever follows, an
entry that carries the signature bytes of an honest message but a body with another digest is
rejected: its result in the packet is `rejected`, with nothing forwarded. -/
theorem batch_reused_signature_rejected (S : SigScheme) (H : HashFam) (sk ch data : Bytes) (t : Int) (s : Signature)
    (hs : newSignature (S.sign sk) H.sum (pubContext ch) t data = some s)
    (mid : Bytes → Bytes) (r : Router) (prev : Bytes) (pre post : List SignedMsg) (m' : SignedMsg)
    (hsig : m'.signature.sigData = s.sigData) (hdig : H.sum t m'.data ≠ H.sum t data) :
    ∃ e, (handlePublishBatch S.verify H.sum mid r prev (pre ++ m' :: post)).2[pre.length]? = some (m', .rejected e, []) := by
  induction pre generalizing r with
  | nil =>
    obtain ⟨e, he⟩ := tampered_rejected S H sk ch data t s hs mid r prev m' hsig hdig
    exact ⟨e, by simp [handlePublishBatch, he]⟩
  | cons m0 rest ih =>
    obtain ⟨e, he⟩ := ih (handlePublishOne S.verify H.sum mid r prev m0).1
    exact ⟨e, by simpa [handlePublishBatch] using he⟩

/-- …and likewise when the body names another channel than the one the signature was made for
(the signed message may have been dropped as "not subscribed" a moment before). -/
theorem batch_reused_signature_retargeted_rejected (S : SigScheme) (H : HashFam) (sk ch data : Bytes) (t : Int) (s : Signature)
    (hs : newSignature (S.sign sk) H.sum (pubContext ch) t data = some s)
    (mid : Bytes → Bytes) (r : Router) (prev : Bytes) (pre post : List SignedMsg) (m' : SignedMsg) (i' : Inner)
    (hsig : m'.signature.sigData = s.sigData) (hi : Inner.unmarshal m'.data = some i') (hne : i'.channel ≠ ch) :
    ∃ e, (handlePublishBatch S.verify H.sum mid r prev (pre ++ m' :: post)).2[pre.length]? = some (m', .rejected e, []) := by
  induction pre generalizing r with
  | nil =>
    obtain ⟨e, he⟩ := retargeted_rejected S H sk ch data t s hs mid r prev m' i' hsig hi hne
    exact ⟨e, by simp [handlePublishBatch, he]⟩
  | cons m0 rest ih =>
    obtain ⟨e, he⟩ := ih (handlePublishOne S.verify H.sum mid r prev m0).1
    exact ⟨e, by simpa [handlePublishBatch] using he⟩

/-- Non-vacuity (toy scheme): an honest message for channel "c" is accepted by a router
subscribed to "c" and handed to its two subscriptions. -/
example : ∃ s m r' fw,
    newSignature (ToySig.sign (List.replicate 32 4)) ToyHash.sum (pubContext [99]) 1 [10, 1, 97, 18, 1, 99] = some s ∧
    m = ({ fromPeerId := idB58Encode (idFromPublicKey (List.replicate 32 4)), signature := s, data := [10, 1, 97, 18, 1, 99] } : SignedMsg) ∧
    handlePublishOne ToySig.verify ToyHash.sum id { channels := [([99], 2)] } [] m =
      (r', .accepted [99] (idFromPublicKey (List.replicate 32 4)) [97] 2, fw) := by
  have h : (newSignature (ToySig.sign (List.replicate 32 4)) ToyHash.sum (pubContext [99]) 1 [10, 1, 97, 18, 1, 99]).isSome = true := by
    decide
  obtain ⟨s, hs⟩ := Option.isSome_iff_exists.mp h
  have hi : Inner.unmarshal [10, 1, 97, 18, 1, 99] = some { data := [97], channel := [99] } := by decide
  have hd := honest_delivered ToySig ToyHash id { channels := [([99], 2)] } [] (List.replicate 32 4)
    [10, 1, 97, 18, 1, 99] 1 s { data := [97], channel := [99] } 2 (List.length_replicate ..) hi (by decide)
    (by decide) hs (by decide) _ rfl (by simp)
  exact ⟨s, _, _, _, hs, rfl, hd⟩

/-- Non-vacuity of the batch theorems (toy scheme): the honest message for channel "c" (not
subscribed here: dropped), then its signature re-used over a body naming the subscribed channel
"d": the second entry is rejected, whatever follows. -/
example : ∃ s e, newSignature (ToySig.sign (List.replicate 32 4)) ToyHash.sum (pubContext [99]) 1 [10, 1, 97, 18, 1, 99] = some s ∧
    (handlePublishBatch ToySig.verify ToyHash.sum id { channels := [([100], 1)] } []
      ([({ fromPeerId := idB58Encode (idFromPublicKey (List.replicate 32 4)), signature := s, data := [10, 1, 97, 18, 1, 99] } : SignedMsg)] ++
        ({ fromPeerId := idB58Encode (idFromPublicKey (List.replicate 32 4)), signature := s, data := [10, 1, 98, 18, 1, 100] } : SignedMsg) :: [])).2[1]? =
      some (({ fromPeerId := idB58Encode (idFromPublicKey (List.replicate 32 4)), signature := s, data := [10, 1, 98, 18, 1, 100] } : SignedMsg), .rejected e, []) := by
  have h : (newSignature (ToySig.sign (List.replicate 32 4)) ToyHash.sum (pubContext [99]) 1 [10, 1, 97, 18, 1, 99]).isSome = true := by
    decide
  obtain ⟨s, hs⟩ := Option.isSome_iff_exists.mp h
  obtain ⟨e, he⟩ := batch_reused_signature_rejected ToySig ToyHash (List.replicate 32 4) [99] [10, 1, 97, 18, 1, 99] 1 s hs id
    { channels := [([100], 1)] } []
    [({ fromPeerId := idB58Encode (idFromPublicKey (List.replicate 32 4)), signature := s, data := [10, 1, 97, 18, 1, 99] } : SignedMsg)] []
    ({ fromPeerId := idB58Encode (idFromPublicKey (List.replicate 32 4)), signature := s, data := [10, 1, 98, 18, 1, 100] } : SignedMsg)
    rfl (by show ToyHash.sum 1 [10, 1, 98, 18, 1, 100] ≠ ToyHash.sum 1 [10, 1, 97, 18, 1, 99]; decide)
  exact ⟨s, e, hs, he⟩

end Bifrost.Props.C27
