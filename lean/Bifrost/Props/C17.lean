import Bifrost.Lemmas.EnvelopeField
import Bifrost.Lemmas.EnvelopeToy
import Bifrost.Lemmas.EnvelopeId
/-!
C17 — An accepted envelope configuration can be opened by its recipients. Property theorems only.
The model is of `BuildEnvelope` as fixed (threshold validated against the shares actually placed
in grants that have a keypair); `oldCheckPasses` is the check it replaced.
-/
namespace Bifrost.Props.C17
open Bifrost Bifrost.Envelope

section
variable {K : Type} [Field K] [DecidableEq K] (dec : Bytes → Option K) (enc : K → Bytes)
variable (P : Prims)
variable (secret : K) (coeff : Nat → K) (nonce ctx payload : Bytes) (keypairs : List Bytes)
variable (cfg : Config) (env : Envelope)

/-- **If sealing accepts a configuration, the private keys of all recipients (in any order, with
any extra keys — unrelated ones, or key objects that merely report a recipient's public key) unseal the envelope and get exactly the payload**; every grant that has a keypair
is reported unlocked and every share placed in such a grant is available. -/
theorem accepted_openable (hP : PrimsLaw P) (hS : FieldSetting dec enc (buildTotal keypairs.length cfg))
    (hb : build P (fieldScalars K dec enc) secret coeff nonce ctx payload keypairs cfg = .ok env)
    (hn : nonce.length = 24) (hw : cfg.totalShares < 2 ^ 32 ∧ cfg.grants.length ≤ 2 ^ 32)
    (sks : List Bytes) (hall : ∀ pk ∈ keypairs, ∃ sk ∈ sks, P.genuine sk = true ∧ P.pub sk = pk) :
    unlock P (fieldScalars K dec enc) ctx env sks = .opened payload
      { success := true
        sharesAvailable := usableShares cfg.grants (buildTotal keypairs.length cfg)
        sharesNeeded := cfg.threshold + 1
        unlockedGrantIndexes := reachIdx (fun idxs => !idxs.isEmpty) 0 cfg.grants } := by
  obtain ⟨_, _, _, sum, hsum, hth, _⟩ := build_ok P _ secret coeff nonce ctx payload keypairs cfg env hb
  have hv := sumShares_valid keypairs.length cfg.grants 0 sum hsum
  obtain ⟨hcount, hidx⟩ := reach_all P keypairs sks hall cfg.grants hv (buildTotal keypairs.length cfg)
  rw [unlock_build_field dec enc P hP secret coeff nonce ctx payload keypairs cfg env hS hb hn hw sks]
  rw [← buildTotal_eq _ _ _ hsum] at hth
  rw [if_pos (by rw [hcount]; exact hth)]
  simp only [expectedResult, hcount, hidx]

/-- No set of keys ever reaches more shares than those placed in grants that have a keypair. -/
theorem reach_le_usable (sks : List Bytes) (n : ℕ) :
    reachCount (canOpen P keypairs sks) cfg.grants n ≤ usableShares cfg.grants n :=
  Envelope.reach_le_usable P keypairs sks cfg.grants n

/-- **Configurations under which no set of recipient keys could ever reach threshold+1 shares are
rejected at seal time** (every recipient public key being the public key of some genuine private key). -/
theorem unopenable_rejected (hkeys : ∀ pk ∈ keypairs, ∃ sk, P.genuine sk = true ∧ P.pub sk = pk)
    (hno : ∀ sks : List Bytes,
      reachCount (canOpen P keypairs sks) cfg.grants (buildTotal keypairs.length cfg) < cfg.threshold + 1) :
    ∀ env, build P (fieldScalars K dec enc) secret coeff nonce ctx payload keypairs cfg ≠ .ok env := by
  intro env hb
  obtain ⟨_, _, _, sum, hsum, hth, _⟩ := build_ok P _ secret coeff nonce ctx payload keypairs cfg env hb
  have hv := sumShares_valid keypairs.length cfg.grants 0 sum hsum
  obtain ⟨sks, hall⟩ := exists_all_keys P keypairs hkeys
  obtain ⟨hcount, _⟩ := reach_all P keypairs sks hall cfg.grants hv (buildTotal keypairs.length cfg)
  have := hno sks
  rw [hcount, buildTotal_eq _ _ _ hsum] at this
  omega

/-- Exactly when: `ErrInvalidThreshold` is returned iff the structural checks pass and fewer than
threshold+1 shares land in decryptable grants (nothing openable is rejected for its threshold). -/
theorem invalidThreshold_iff :
    build P (fieldScalars K dec enc) secret coeff nonce ctx payload keypairs cfg = .err .invalidThreshold ↔
      payload ≠ [] ∧ keypairs ≠ [] ∧ cfg.grants ≠ [] ∧
      ∃ sum, sumShares keypairs.length cfg.grants 0 = some sum ∧
        usableShares cfg.grants (totalOf cfg sum) < cfg.threshold + 1 :=
  build_invalidThreshold_iff P _ secret coeff nonce ctx payload keypairs cfg

/-- **The structural guards**, in the order of the code: an empty payload, an empty recipient
list, a configuration without grants and a keypair index out of range are each rejected with
their own error before anything is sealed. -/
theorem structural_guards :
    (payload = [] → build P (fieldScalars K dec enc) secret coeff nonce ctx payload keypairs cfg = .err .emptyPayload) ∧
    (payload ≠ [] → keypairs = [] →
      build P (fieldScalars K dec enc) secret coeff nonce ctx payload keypairs cfg = .err .noKeypairs) ∧
    (payload ≠ [] → keypairs ≠ [] → cfg.grants = [] →
      build P (fieldScalars K dec enc) secret coeff nonce ctx payload keypairs cfg = .err .noGrants) ∧
    (payload ≠ [] → keypairs ≠ [] → cfg.grants ≠ [] →
      (∃ gc ∈ cfg.grants, ∃ k ∈ gc.keypairIndexes, keypairs.length ≤ k) →
      build P (fieldScalars K dec enc) secret coeff nonce ctx payload keypairs cfg = .err .invalidKeypairIndex) := by
  obtain ⟨g1, g2, g3, g4⟩ := build_guards P (fieldScalars K dec enc) secret coeff nonce ctx payload keypairs cfg
  exact ⟨g1, g2, g3, fun hp hk hg hbad => g4 hp hk hg (sumShares_bad_index _ _ _ hbad)⟩

/-- **A nil configuration is rejected** (every getter of a nil `*EnvelopeConfig` returns the zero
value): the exact error, never an envelope, never a panic. -/
theorem nil_config_rejected :
    buildOpt P (fieldScalars K dec enc) secret coeff nonce ctx payload keypairs none =
      if payload = [] then .err .emptyPayload else if keypairs = [] then .err .noKeypairs else .err .noGrants :=
  buildOpt_none P _ secret coeff nonce ctx payload keypairs

/-- **A recipient key of an unsupported type never yields an envelope** (whether or not a grant
names it) … -/
theorem unsupported_key_rejected (keys : List (Option Bytes)) (ocfg : Option Config) (hbad : none ∈ keys) :
    ∀ env, buildKeys P (fieldScalars K dec enc) secret coeff nonce ctx payload keys ocfg ≠ .ok env :=
  buildKeys_unsupported P _ secret coeff nonce ctx payload keys ocfg hbad

/-- … and with supported keys and a non-nil configuration the function the correspondence engine
drives (`buildKeys`) is `build`, the function of every other theorem. -/
theorem buildKeys_is_build :
    buildKeys P (fieldScalars K dec enc) secret coeff nonce ctx payload (keypairs.map some) (some cfg) =
      build P (fieldScalars K dec enc) secret coeff nonce ctx payload keypairs cfg :=
  buildKeys_supported P _ secret coeff nonce ctx payload keypairs (some cfg)

end

/-- The share-count sum is taken in `uint32` (the type of `totalShares`): counts 2^32-1 and 2 make
ONE share, 2^31 and 2^31 make none (rejected: `invalidThreshold_iff`). `accepted_openable` holds
for these configurations like for any other. -/
theorem share_sum_wraps :
    sumShares 2 [⟨2 ^ 32 - 1, [0]⟩, ⟨2, [1]⟩] 0 = some 1 ∧
    sumShares 2 [⟨2 ^ 31, [0]⟩, ⟨2 ^ 31, [1]⟩] 0 = some 0 ∧
    usableShares [⟨2 ^ 31, [0]⟩, ⟨2 ^ 31, [1]⟩] 0 < 0 + 1 := by decide

/-- The check this replaced (`threshold > 0 && totalShares < threshold+1` in `uint32`, against the
TotalShares override) does NOT imply openability: the three witnesses of the defect, and the
`uint32` wrap-around at threshold 2^32-1. -/
theorem old_check_insufficient :
    ¬ (∀ (cfg : Config) (nkeys : ℕ), oldCheckPasses cfg (buildTotal nkeys cfg) = true →
        cfg.threshold + 1 ≤ usableShares cfg.grants (buildTotal nkeys cfg)) := by
  intro h
  have := h { threshold := 3, totalShares := 5, grants := [⟨1, [0]⟩, ⟨1, [1]⟩] } 2 (by decide)
  revert this
  decide

theorem old_check_insufficient_no_keypair :
    oldCheckPasses { threshold := 1, grants := [⟨1, []⟩, ⟨1, [1]⟩] } 2 = true ∧
      usableShares [⟨1, []⟩, ⟨1, [1]⟩] 2 < 1 + 1 := by decide

theorem old_check_wraps :
    oldCheckPasses { threshold := 2 ^ 32 - 1, grants := [⟨1, [0]⟩] } 1 = true := by decide

/-! Non-vacuity: a configuration with a grant nobody can decrypt and a share-count override is
accepted (ℤ/251, toy primitives) and both recipients together open it. -/

def exCfg : Config := { threshold := 1, totalShares := 4, grants := [⟨1, [0]⟩, ⟨1, []⟩, ⟨2, [1, 0]⟩] }

example : ∃ env r,
    build toyPrims z251 5 (fun i => (i : ZMod 251) + 3) (List.replicate 24 9) [1] [2, 3] [[10], [11]] exCfg = .ok env ∧
    unlock toyPrims z251 [1] env [[11], [77], [10]] = .opened [2, 3] r := by
  have exSetting : FieldSetting z251Decode z251Encode (buildTotal 2 exCfg) :=
    { codec := z251_law
      ids := by
        intro i j hi hj h
        have e : buildTotal 2 exCfg = 4 := by decide
        rw [e] at hi hj
        have := (ZMod.natCast_eq_natCast_iff' i j 251).mp h
        omega }
  have hok : (build toyPrims z251 5 (fun i => (i : ZMod 251) + 3) (List.replicate 24 9) [1] [2, 3] [[10], [11]] exCfg).isOk = true := by
    decide
  cases hb : build toyPrims z251 5 (fun i => (i : ZMod 251) + 3) (List.replicate 24 9) [1] [2, 3] [[10], [11]] exCfg with
  | err e => rw [hb] at hok; cases hok
  | panic => rw [hb] at hok; cases hok
  | ok env =>
    refine ⟨env, ?r, rfl, ?_⟩
    case r => exact { success := true, sharesAvailable := usableShares exCfg.grants (buildTotal 2 exCfg), sharesNeeded := exCfg.threshold + 1, unlockedGrantIndexes := reachIdx (fun idxs => !idxs.isEmpty) 0 exCfg.grants }
    rw [show z251 = fieldScalars (ZMod 251) z251Decode z251Encode from rfl] at hb ⊢
    exact accepted_openable z251Decode z251Encode toyPrims 5 _ _ [1] [2, 3] [[10], [11]] exCfg env toyPrims_law exSetting hb
      (by decide) (by decide) [[11], [77], [10]] (by decide)

/-! Non-vacuity of the guards: each error is produced (toy primitives, ℤ/251). -/

example :
    build toyPrims z251 5 (fun i => (i : ZMod 251) + 3) (List.replicate 24 9) [1] [] [[10], [11]] exCfg = .err .emptyPayload ∧
    build toyPrims z251 5 (fun i => (i : ZMod 251) + 3) (List.replicate 24 9) [1] [2, 3] [] exCfg = .err .noKeypairs ∧
    build toyPrims z251 5 (fun i => (i : ZMod 251) + 3) (List.replicate 24 9) [1] [2, 3] [[10], [11]] {} = .err .noGrants ∧
    build toyPrims z251 5 (fun i => (i : ZMod 251) + 3) (List.replicate 24 9) [1] [2, 3] [[10], [11]]
      { grants := [⟨1, [2]⟩] } = .err .invalidKeypairIndex ∧
    buildOpt toyPrims z251 5 (fun i => (i : ZMod 251) + 3) (List.replicate 24 9) [1] [2, 3] [[10], [11]] none = .err .noGrants ∧
    buildKeys toyPrims z251 5 (fun i => (i : ZMod 251) + 3) (List.replicate 24 9) [1] [2, 3] [some [10], none]
      (some { grants := [⟨1, [0]⟩] }) = .err .encrypt := by
  refine ⟨by decide, by decide, by decide, by decide, by decide, by decide⟩

end Bifrost.Props.C17
