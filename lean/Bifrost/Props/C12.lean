import Bifrost.Model.Encrypt
import Bifrost.Lemmas.Encrypt
import Bifrost.Lemmas.EncryptLaws
import Bifrost.Lemmas.EncryptLayout
import Bifrost.Lemmas.EncryptSealed
import Bifrost.Lemmas.EncryptReencrypt
/-!
C12 — Public-key encryption round-trips and is bound to key and context. Property theorems only.

Model: `Encrypt.encryptProg` / `decryptProg` = `peer.EncryptToEd25519` / `DecryptWithEd25519` after
two fixes: the length guard is `4+32` (was 34: the slice `ciphertext[36:]` panicked on 34/35
bytes) and the 4-byte nonce prefix of the ciphertext is compared with the nonce re-derived from
the message key (before, anyone could rewrite the prefix and re-wrap the key block, obtaining a
different ciphertext that still decrypted).

The theorems are SYMBOLIC: primitives are arbitrary answer assignments `P` satisfying `LenLaws`
(output lengths) and `CryptoLaws` (ideal AEAD: opens only what was sealed, a box determines its
inputs; AES is a permutation; S2 is lossless; X25519 agrees on both sides). The cryptographic
strength of the construction is not claimed. Nothing assumes a KDF / hash / X25519 injective:
where distinct inputs must lead to distinct keys the theorem exhibits the two colliding
evaluations instead (`decrypt_of_encrypt`), and the corollaries take "these two do not collide"
as an explicit hypothesis.
-/
namespace Bifrost.Props.C12
open Bifrost Bifrost.Lo25519 Bifrost.Encrypt

/-- Arbitrary ciphertext bytes (and arbitrary key bytes and contexts) never cause a panic. -/
theorem decrypt_no_panic (P : Prims) (hl : LenLaws P) (tPriv ctx ct : Bytes) :
    decrypt P tPriv ctx ct ≠ .panic := by
  unfold decrypt decryptProg
  apply np_failIf; intro hk
  apply np_failIf; intro hct
  have hct' : 36 ≤ ct.length := by omega
  apply np_need _ _ _ _ (sliceTo_some _ _ (by omega))
  apply np_askE; intro aesSeed h1
  have l1 := hl.kdf _ _ _ _ h1
  apply np_need _ _ _ _ (sliceFrom_some _ _ (by omega))
  apply np_need _ _ _ _ (sliceTo_some _ _ (by omega))
  apply np_askE; intro d16 h2
  have l2 := hl.blkDec _ _ _ (by simp [copy32_length]) h2
  apply np_pubToX _ _ _ (by simp [l2, copy32_length]); intro o
  apply np_orErr; intro mX _
  apply np_failIf; intro _
  apply np_askE; intro tX64 h3
  have l3 := hl.clamp _ _ h3
  apply np_need _ _ _ _ (sliceTo_some _ _ (by omega))
  apply np_askE; intro ss _
  apply np_askE; intro h h4
  have l4 := hl.kdf _ _ _ _ h4
  obtain ⟨n, hn, ln⟩ := xorNonce_of_len h l4
  apply np_bindO _ _ _ (by rw [hn]; simp); intro nonce hnonce
  have lnonce : nonce.length = 24 := xorNonce_ok_len h nonce hnonce l4
  apply np_need _ _ _ _ (sliceTo_some _ _ (by omega))
  apply np_failIf; intro _
  apply np_failIf; intro _
  apply np_need _ _ _ _ (sliceFrom_some _ _ (by omega))
  apply np_askE; intro msgDec _
  apply np_askE; intro msgSrc _
  apply np_askE; intro msgSeed h5
  have l5 := hl.kdf _ _ _ _ h5
  apply np_panicIf _ _ _ (by simp [l5])
  apply np_askE; intro mEd h6
  have l6 := hl.edPub _ _ h6
  apply np_pubToX _ _ _ (by omega); intro o'
  apply np_orErr; intro exp _
  apply np_failIf; intro _
  exact np_ok _ _

/-- Neither does encryption, for any recipient key bytes, context and message. -/
theorem encrypt_no_panic (P : Prims) (hl : LenLaws P) (tPub ctx msg : Bytes) :
    encrypt P tPub ctx msg ≠ .panic := by
  unfold encrypt encryptProg
  apply np_failIf; intro hk
  have hk' : tPub.length = 32 := by simpa using hk
  apply np_askE; intro msgSeed h1
  have l1 := hl.kdf _ _ _ _ h1
  apply np_panicIf _ _ _ (by simp [l1])
  apply np_askE; intro msgPub h2
  apply np_askE; intro msgX64 h3
  have l3 := hl.clamp _ _ h3
  apply np_need _ _ _ _ (sliceTo_some _ _ (by omega))
  apply np_askE; intro h h4
  have l4 := hl.kdf _ _ _ _ h4
  obtain ⟨n, hn, ln⟩ := xorNonce_of_len h l4
  apply np_bindO _ _ _ (by rw [hn]; simp); intro nonce hnonce
  have lnonce : nonce.length = 24 := xorNonce_ok_len h nonce hnonce l4
  apply np_pubToX _ _ _ (by omega); intro o
  apply np_orErr; intro tX _
  apply np_failIf; intro _
  apply np_askE; intro cmsg _
  apply np_need _ _ _ _ (sliceTo_some _ _ (by omega))
  apply np_askE; intro aesSeed h5
  have l5 := hl.kdf _ _ _ _ h5
  apply np_need _ _ _ _ (sliceTo_some _ _ (by omega))
  apply np_askE; intro e16 _
  apply np_askE; intro ss _
  apply np_failIf; intro _
  apply np_askE; intro body _
  exact np_ok _ _

/-- Round trip: what was encrypted to the public key of `seed` decrypts, with the private key
`seed ‖ public key` and the same context, to exactly the original message — every message
(including the empty one), every context. -/
theorem decrypt_encrypt (P : Prims) (hl : LenLaws P) (hc : CryptoLaws P) (seed tPub ctx msg ct : Bytes)
    (hs : seed.length = 32) (hpub : P (.edPub seed) = some tPub)
    (he : encrypt P tPub ctx msg = .ok ct) :
    decrypt P (seed ++ tPub) ctx ct = .ok msg := by
  obtain ⟨lt, msgSeed, msgPub, msgX64, tX, cmsg, ss, nonce, hSeed, hPub, hX64, htX, hcmsg, hss, sealed⟩ :=
    encrypt_sealed P hl tPub ctx msg ct he
  have lnonce := sealed.nonce_len hl
  obtain ⟨h, hh, hnonce⟩ := sealed.nonce_of
  obtain ⟨aesSeed, e16, body, haes, he16, hbody, rfl⟩ := sealed.asm
  have lp := sealed.mp_len
  have le : e16.length = 16 := hl.blkEnc _ _ _ (by simp [lp]) he16
  have laes : aesSeed.length = 32 := hl.kdf _ _ _ _ haes
  have hk : (seed ++ tPub).length = 64 := by simp [hs, lt]
  have hdrop : (seed ++ tPub).drop 32 = tPub := by rw [← hs, List.drop_left]
  have htake : (seed ++ tPub).take 32 = seed := by rw [← hs, List.take_left]
  obtain ⟨mX, hmX⟩ := hc.honest_convertible _ _ hPub
  have hmont := toX_some P _ _ hmX
  have htmont := toX_some P _ _ htX
  obtain ⟨tX64, htX64⟩ := Option.isSome_iff_exists.mp (hc.clamp_total seed)
  have ltX64 := hl.clamp _ _ htX64
  have hdh := hc.dh_sym seed msgSeed tPub msgPub tX64 msgX64 tX mX hpub hPub htX64 hX64 htmont hmont
  have hjoin : msgPub.take 16 ++ msgPub.drop 16 = msgPub := List.take_append_drop 16 msgPub
  unfold decrypt
  rw [decryptProg_layout _ _ _ _ _ _ hk (by simp [lnonce]) le (by simp [lp])]
  unfold decryptCore
  rw [hdrop, htake]
  rw [askE_ok]; refine ⟨aesSeed, haes, ?_⟩
  rw [need_ok]; refine ⟨_, sliceTo_some _ _ (by omega), ?_⟩
  rw [askE_ok]; refine ⟨msgPub.take 16, hc.blk_dec_enc _ _ _ (by simp [laes]) (by simp [lp]) he16, ?_⟩
  rw [hjoin]
  rw [pubToX_ok]; refine ⟨some mX, hmX, ?_⟩
  rw [orErr_ok]; refine ⟨mX, rfl, ?_⟩
  rw [failIf_ok]; refine ⟨by simp [hl.mont _ _ hmont], ?_⟩
  rw [askE_ok]; refine ⟨tX64, htX64, ?_⟩
  rw [need_ok]; refine ⟨_, sliceTo_some _ _ (by omega), ?_⟩
  rw [askE_ok]; refine ⟨ss, by rw [hdh]; exact hss, ?_⟩
  rw [askE_ok]; refine ⟨h, hh, ?_⟩
  rw [bindO_ok]; refine ⟨nonce, hnonce, ?_⟩
  rw [need_ok]; refine ⟨_, sliceTo_some _ _ (by omega), ?_⟩
  rw [failIf_ok]; refine ⟨by simp, ?_⟩
  rw [failIf_ok]; refine ⟨by simp [sealed.ss_len], ?_⟩
  rw [askE_ok]; refine ⟨cmsg, hc.open_seal _ _ _ _ _ hbody, ?_⟩
  rw [askE_ok]; refine ⟨msg, hc.s2_dec_enc _ _ hcmsg, ?_⟩
  rw [askE_ok]; refine ⟨msgSeed, hSeed, ?_⟩
  rw [panicIf_ok]; refine ⟨by simp [hl.kdf _ _ _ _ hSeed], ?_⟩
  rw [askE_ok]; refine ⟨msgPub, hPub, ?_⟩
  rw [pubToX_ok]; refine ⟨some mX, hmX, ?_⟩
  rw [orErr_ok]; refine ⟨mX, rfl, ?_⟩
  rw [failIf_ok]; refine ⟨by simp, ?_⟩
  simp

/-- Encryption to the public key of an honest key pair succeeds (so the round trip is not
vacuous): for a 32-byte recipient key that converts, with total primitives. -/
theorem encrypt_succeeds (P : Prims) (hl : LenLaws P) (hc : CryptoLaws P) (tPub ctx msg tX : Bytes)
    (lt : tPub.length = 32) (htX : toX P tPub = .ok (some tX))
    (hx : ∀ s, (P (.x25519 s tX)).isSome) :
    ∃ ct, encrypt P tPub ctx msg = .ok ct := by
  obtain ⟨msgSeed, hSeed⟩ := Option.isSome_iff_exists.mp (hc.kdf_total (domSeed ++ ctx) (msg ++ tPub) 32)
  have lSeed := hl.kdf _ _ _ _ hSeed
  obtain ⟨msgPub, hPub⟩ := Option.isSome_iff_exists.mp (hc.edPub_total msgSeed lSeed)
  have lp := hl.edPub _ _ hPub
  obtain ⟨msgX64, hX64⟩ := Option.isSome_iff_exists.mp (hc.clamp_total msgSeed)
  have lX := hl.clamp _ _ hX64
  obtain ⟨h, hh⟩ := Option.isSome_iff_exists.mp (hc.kdf_total (domNonce ++ ctx) msgPub 32)
  obtain ⟨nonce, hnonce, lnonce⟩ := xorNonce_of_len h (hl.kdf _ _ _ _ hh)
  obtain ⟨cmsg, hcmsg⟩ := Option.isSome_iff_exists.mp (hc.s2_total msg)
  obtain ⟨aesSeed, haes⟩ := Option.isSome_iff_exists.mp (hc.kdf_total (domPrefix ++ ctx) (tPub ++ nonce.take 4) 32)
  have laes := hl.kdf _ _ _ _ haes
  obtain ⟨e16, he16⟩ := Option.isSome_iff_exists.mp
    (hc.blk_total (aesSeed.take 32) (msgPub.take 16) (by simp [laes]) (by simp [lp]))
  obtain ⟨ss, hss⟩ := Option.isSome_iff_exists.mp (hx (msgX64.take 32))
  have lss := hl.x25519 _ _ _ hss
  obtain ⟨body, hbody⟩ := Option.isSome_iff_exists.mp (hc.seal_total ss nonce cmsg msgPub lss lnonce)
  refine ⟨nonce.take 4 ++ e16 ++ msgPub.drop 16 ++ body, ?_⟩
  unfold encrypt encryptProg
  rw [failIf_ok]; refine ⟨by simp [lt], ?_⟩
  rw [askE_ok]; refine ⟨msgSeed, hSeed, ?_⟩
  rw [panicIf_ok]; refine ⟨by simp [lSeed], ?_⟩
  rw [askE_ok]; refine ⟨msgPub, hPub, ?_⟩
  rw [askE_ok]; refine ⟨msgX64, hX64, ?_⟩
  rw [need_ok]; refine ⟨_, sliceTo_some _ _ (by omega), ?_⟩
  rw [askE_ok]; refine ⟨h, hh, ?_⟩
  rw [bindO_ok]; refine ⟨nonce, hnonce, ?_⟩
  rw [pubToX_ok]; refine ⟨some tX, htX, ?_⟩
  rw [orErr_ok]; refine ⟨tX, rfl, ?_⟩
  rw [failIf_ok]; refine ⟨by simp [hl.mont _ _ (toX_some P _ _ htX)], ?_⟩
  rw [askE_ok]; refine ⟨cmsg, hcmsg, ?_⟩
  rw [need_ok]; refine ⟨_, sliceTo_some _ _ (by omega), ?_⟩
  rw [askE_ok]; refine ⟨aesSeed, haes, ?_⟩
  rw [need_ok]; refine ⟨_, sliceTo_some _ _ (by omega), ?_⟩
  rw [copy32_of_len _ lp]
  rw [askE_ok]; refine ⟨e16, he16, ?_⟩
  rw [askE_ok]; refine ⟨ss, hss, ?_⟩
  rw [failIf_ok]; refine ⟨by simp [lss], ?_⟩
  rw [askE_ok]; refine ⟨body, hbody, ?_⟩
  simp

/-- Every accepted ciphertext is an assembled, sealed ciphertext for this recipient and context
(`Sealed`): its AEAD part is a genuine `seal` output under the X25519 secret between the
recipient's private key and the message key, over a payload that decompresses to the returned
plaintext, and the message key has the Montgomery form of the key re-derived from
(context, plaintext, recipient public key). -/
theorem accepted_is_sealed (P : Prims) (hl : LenLaws P) (hc : CryptoLaws P) (tPriv ctx ct msg : Bytes)
    (hd : decrypt P tPriv ctx ct = .ok msg) :
    ∃ mp mX tX64 c ss nonce seed' ed',
      toX P mp = .ok (some mX) ∧ P (.clamp (tPriv.take 32)) = some tX64 ∧
      P (.x25519 (tX64.take 32) mX) = some ss ∧ P (.s2dec c) = some msg ∧
      P (.kdf (domSeed ++ ctx) (msg ++ tPriv.drop 32) 32) = some seed' ∧
      P (.edPub seed') = some ed' ∧ toX P ed' = .ok (some mX) ∧
      Sealed P (tPriv.drop 32) ctx mp c ss nonce ct :=
  (decrypt_sealed P hl hc tPriv ctx ct msg hd).2

/-- Decrypting an honest ciphertext with ANY private key and ANY context never returns other
plaintext; and if it succeeds at all, then (a) the X25519 secret of that private key with the
message key equals the sender's secret, and (b) the per-message key derived from
(that context, the message, that key's public half) has the same Montgomery form as the one
derived from the original (context, message, recipient key) — a collision between two explicit
KDF → Ed25519 → Montgomery evaluations whenever the public key or the context differ. -/
theorem decrypt_of_encrypt (P : Prims) (hl : LenLaws P) (hc : CryptoLaws P)
    (tPub ctx msg ct tPriv' ctx' msg' : Bytes)
    (he : encrypt P tPub ctx msg = .ok ct) (hd : decrypt P tPriv' ctx' ct = .ok msg') :
    msg' = msg ∧
    ∃ msgSeed msgPub msgX64 tX ss mX tX64' seed' ed',
      P (.kdf (domSeed ++ ctx) (msg ++ tPub) 32) = some msgSeed ∧ P (.edPub msgSeed) = some msgPub ∧
      P (.clamp msgSeed) = some msgX64 ∧ toX P tPub = .ok (some tX) ∧
      P (.x25519 (msgX64.take 32) tX) = some ss ∧
      toX P msgPub = .ok (some mX) ∧
      P (.clamp (tPriv'.take 32)) = some tX64' ∧ P (.x25519 (tX64'.take 32) mX) = some ss ∧
      P (.kdf (domSeed ++ ctx') (msg ++ tPriv'.drop 32) 32) = some seed' ∧
      P (.edPub seed') = some ed' ∧ toX P ed' = .ok (some mX) := by
  obtain ⟨_, msgSeed, msgPub, msgX64, tX, cmsg, ss, nonce, hSeed, hPub, hX64, htX, hcmsg, hss, s1⟩ :=
    encrypt_sealed P hl tPub ctx msg ct he
  obtain ⟨_, mp, mX, tX64, c, ss', nonce', seed', ed', hmX, hcl, hx, hs2, hk, hed, hto, s2⟩ :=
    decrypt_sealed P hl hc tPriv' ctx' ct msg' hd
  obtain ⟨e1, e2, e3, e4⟩ := Sealed.inj hl hc s1 s2 rfl
  subst e1 e2 e3 e4
  have hm : msg' = msg := by
    have := hc.s2_dec_enc _ _ hcmsg
    rw [this] at hs2
    injection hs2 with hs2
    exact hs2.symm
  subst hm
  exact ⟨rfl, msgSeed, msgPub, msgX64, tX, ss, mX, tX64, seed', ed', hSeed, hPub, hX64, htX, hss, hmX, hcl, hx, hk, hed, hto⟩

/-- Wrong key or wrong context: absent that collision the decryption returns an error. -/
theorem wrong_key_or_context_rejected (P : Prims) (hl : LenLaws P) (hc : CryptoLaws P)
    (tPub ctx msg ct tPriv' ctx' : Bytes)
    (he : encrypt P tPub ctx msg = .ok ct)
    (hnc : ∀ s s' e e' u, P (.kdf (domSeed ++ ctx) (msg ++ tPub) 32) = some s → P (.edPub s) = some e →
      P (.kdf (domSeed ++ ctx') (msg ++ tPriv'.drop 32) 32) = some s' → P (.edPub s') = some e' →
      toX P e = .ok (some u) → toX P e' ≠ .ok (some u)) :
    decrypt P tPriv' ctx' ct = .err := by
  cases hd : decrypt P tPriv' ctx' ct with
  | panic => exact absurd hd (decrypt_no_panic P hl _ _ _)
  | err => rfl
  | ok m' =>
    obtain ⟨_, msgSeed, msgPub, _, _, _, mX, _, seed', ed', h1, h2, _, _, _, h3, _, _, h4, h5, h6⟩ :=
      decrypt_of_encrypt P hl hc tPub ctx msg ct tPriv' ctx' m' he hd
    exact absurd h6 (hnc _ _ _ _ _ h1 h2 h4 h5 h3)

/-- Modified ciphertext, same key and context: any ciphertext that differs from the honest one
but keeps its AEAD part (i.e. any change confined to the nonce prefix and the wrapped message
key — the part that is not covered by the AEAD) is rejected. -/
theorem modified_prefix_rejected (P : Prims) (hl : LenLaws P) (hc : CryptoLaws P)
    (seed tPub ctx msg ct ct' : Bytes) (hs : seed.length = 32)
    (he : encrypt P tPub ctx msg = .ok ct)
    (hbody : ct'.drop 36 = ct.drop 36) (hne : ct' ≠ ct) :
    decrypt P (seed ++ tPub) ctx ct' = .err := by
  cases hd : decrypt P (seed ++ tPub) ctx ct' with
  | panic => exact absurd hd (decrypt_no_panic P hl _ _ _)
  | err => rfl
  | ok m' =>
    exfalso
    obtain ⟨_, _, msgPub, _, _, cmsg, ss, nonce, _, _, _, _, _, _, s1⟩ := encrypt_sealed P hl tPub ctx msg ct he
    obtain ⟨_, mp, _, _, c, ss', nonce', _, _, _, _, _, _, _, _, _, s2⟩ := decrypt_sealed P hl hc _ ctx ct' m' hd
    have hdrop : (seed ++ tPub).drop 32 = tPub := by rw [← hs, List.drop_left]
    rw [hdrop] at s2
    obtain ⟨e1, e2, e3, e4⟩ := Sealed.inj hl hc s1 s2 hbody.symm
    subst e1 e2 e3 e4
    exact hne (Sealed.det s2 s1)

/-- Modified ciphertext in general: whatever is accepted instead of the honest ciphertext carries
an AEAD part that differs from the honest one and is itself a `seal` output under the shared
secret — i.e. it was produced with the key, not by altering bytes. -/
theorem modified_needs_new_seal (P : Prims) (hl : LenLaws P) (hc : CryptoLaws P)
    (seed tPub ctx msg ct ct' msg' : Bytes) (hs : seed.length = 32)
    (he : encrypt P tPub ctx msg = .ok ct) (hne : ct' ≠ ct)
    (hd : decrypt P (seed ++ tPub) ctx ct' = .ok msg') :
    ct'.drop 36 ≠ ct.drop 36 ∧ ∃ ss nonce c mp, P (.seal ss nonce c mp) = some (ct'.drop 36) ∧ P (.s2dec c) = some msg' := by
  constructor
  · intro hb
    have := modified_prefix_rejected P hl hc seed tPub ctx msg ct ct' hs he hb hne
    rw [this] at hd
    cases hd
  · obtain ⟨_, mp, _, _, c, ss', nonce', _, _, _, _, _, hs2, _, _, _, s2⟩ := decrypt_sealed P hl hc _ ctx ct' msg' hd
    exact ⟨ss', nonce', c, mp, (s2.body hl).1, hs2⟩

/-- PARTIAL (what holds of "any modification of the ciphertext fails"): a ciphertext other than
the honest one is rejected unless its AEAD part differs from the honest one and is a `seal`
output under the shared secret over a payload that decompresses to the returned plaintext. -/
theorem modified_rejected_partial (P : Prims) (hl : LenLaws P) (hc : CryptoLaws P)
    (seed tPub ctx msg ct ct' : Bytes) (hs : seed.length = 32)
    (he : encrypt P tPub ctx msg = .ok ct) (hne : ct' ≠ ct) :
    decrypt P (seed ++ tPub) ctx ct' = .err ∨
    ∃ msg', decrypt P (seed ++ tPub) ctx ct' = .ok msg' ∧ ct'.drop 36 ≠ ct.drop 36 ∧
      ∃ ss nonce c mp, P (.seal ss nonce c mp) = some (ct'.drop 36) ∧ P (.s2dec c) = some msg' := by
  cases hd : decrypt P (seed ++ tPub) ctx ct' with
  | panic => exact absurd hd (decrypt_no_panic P hl _ _ _)
  | err => exact Or.inl rfl
  | ok m' =>
    obtain ⟨h1, h2⟩ := modified_needs_new_seal P hl hc seed tPub ctx msg ct ct' m' hs he hne hd
    exact Or.inr ⟨m', rfl, h1, h2⟩

set_option maxRecDepth 100000 in
/-- KNOWN FINDING (the full clause is FALSE of the code, even under ideal primitives): "every
ciphertext other than the honest one is rejected" fails — the holder of the plaintext can seal it
again under an alias of the per-message key with the same Montgomery form (the code compares
only the converted keys) or under another compressed form. Witness in the toy instance:
`toyCtAlias ≠ toyCt` decrypts to the same message. Reproduced on the real code on every run
(finding key `encrypt.dec:reencrypted`). -/
theorem modified_rejected_false :
    ¬ (∀ (P : Prims), LenLaws P → CryptoLaws P → ∀ (seed tPub ctx msg ct ct' : Bytes),
        seed.length = 32 → P (.edPub seed) = some tPub → encrypt P tPub ctx msg = .ok ct → ct' ≠ ct →
        decrypt P (seed ++ tPub) ctx ct' = .err) := by
  intro hall
  have h := hall toyPrims toy_len toy_crypto toySeed toyPub toyCtx toyMsg toyCt toyCtAlias
    (by decide) (by decide) (by decide) (by decide)
  have h' : decrypt toyPrims (toySeed ++ toyPub) toyCtx toyCtAlias = .ok toyMsg := by decide
  rw [h] at h'
  cases h'

/-! ### the size bound (`MaxEncryptedMessageSize`) -/

/-- With the size guards in place nothing changes up to the bound: a message of at most
`maxMessage` bytes (16 MiB — the bound itself included) that the sender encrypts is returned by
the receiver, and the guarded functions never panic. -/
theorem limit_round_trip (P : Prims) (hl : LenLaws P) (hc : CryptoLaws P) (seed tPub ctx msg ct : Bytes)
    (hs : seed.length = 32) (hpub : P (.edPub seed) = some tPub) (hm : msg.length ≤ maxMessage)
    (he : encryptL P tPub ctx msg = .ok ct) :
    encrypt P tPub ctx msg = .ok ct ∧ decryptL P (seed ++ tPub) ctx ct = .ok msg := by
  unfold encryptL at he
  by_cases h32 : tPub.length ≠ 32
  · simp [h32] at he
  · have hgt : ¬ msg.length > maxMessage := by omega
    simp only [h32, hgt, ↓reduceIte] at he
    refine ⟨he, ?_⟩
    unfold decryptL
    rw [decrypt_encrypt P hl hc seed tPub ctx msg ct hs hpub he]
    simp [hgt]

/-- One byte more is refused on both sides: the sender refuses every message longer than the
bound (before evaluating any primitive), and the receiver never returns one — whatever the
ciphertext, key and context. Neither side panics. -/
theorem over_limit_refused (P : Prims) (hl : LenLaws P) :
    (∀ tPub ctx msg, msg.length > maxMessage → encryptL P tPub ctx msg = .err) ∧
    (∀ tPriv ctx ct m, decryptL P tPriv ctx ct = .ok m → m.length ≤ maxMessage ∧ decrypt P tPriv ctx ct = .ok m) ∧
    (∀ tPub ctx msg, encryptL P tPub ctx msg ≠ .panic) ∧ (∀ tPriv ctx ct, decryptL P tPriv ctx ct ≠ .panic) := by
  refine ⟨?_, ?_, ?_, ?_⟩
  · intro tPub ctx msg h
    unfold encryptL
    by_cases h32 : tPub.length ≠ 32 <;> simp [h32, h]
  · intro tPriv ctx ct m h
    unfold decryptL at h
    cases hd : decrypt P tPriv ctx ct with
    | panic => simp [hd] at h
    | err => simp [hd] at h
    | ok m' =>
      simp only [hd] at h
      by_cases hgt : m'.length > maxMessage
      · simp [hgt] at h
      · simp only [hgt, ↓reduceIte, Outcome.ok.injEq] at h
        subst h
        exact ⟨by omega, rfl⟩
  · intro tPub ctx msg
    unfold encryptL
    by_cases h32 : tPub.length ≠ 32
    · simp [h32]
    · by_cases hgt : msg.length > maxMessage
      · simp [h32, hgt]
      · simp only [h32, hgt, ↓reduceIte]
        exact encrypt_no_panic P hl tPub ctx msg
  · intro tPriv ctx ct
    unfold decryptL
    have := decrypt_no_panic P hl tPriv ctx ct
    cases hd : decrypt P tPriv ctx ct with
    | panic => exact absurd hd this
    | err => simp
    | ok m => by_cases hgt : m.length > maxMessage <;> simp [hgt]

/-- Non-vacuity of the bound theorems: in the toy instance a short message passes both guards. -/
example : ∃ ct, encryptL toyPrims (9 :: pad 31 [1, 2, 3]) [99] [] = .ok ct := by
  obtain ⟨ct, h⟩ := encrypt_succeeds toyPrims toy_len toy_crypto (9 :: pad 31 [1, 2, 3]) [99] [] _
    (by simp [pad_length]) (toy_toX [1, 2, 3]) (by intro s; rfl)
  exact ⟨ct, by simp [encryptL, pad_length, maxMessage, h]⟩

/-- Short inputs (fewer than the 4+32 header bytes) are errors, not panics — in particular the
lengths 34 and 35 that used to reach the slice `ciphertext[36:]`. -/
theorem short_ciphertext_rejected (P : Prims) (tPriv ctx ct : Bytes) (h : ct.length < 36) :
    decrypt P tPriv ctx ct = .err := by
  unfold decrypt decryptProg failIf
  by_cases hk : tPriv.length ≠ 64
  · simp [hk]
  · have : ct.length < 4 + 32 := by omega
    simp [hk, this]

/-- Non-vacuity: `toyPrims` satisfies all the laws; encrypting the empty message and a non-empty
one to a toy key succeeds there, and the round trip theorem applies. -/
example : ∃ ct, encrypt toyPrims (9 :: pad 31 [1, 2, 3]) [99] [] = .ok ct ∧
    decrypt toyPrims ([1, 2, 3] ++ List.replicate 29 0 ++ (9 :: pad 31 [1, 2, 3])) [99] ct = .ok [] := by
  obtain ⟨ct, h⟩ := encrypt_succeeds toyPrims toy_len toy_crypto (9 :: pad 31 [1, 2, 3]) [99] [] _
    (by simp [pad_length]) (toy_toX [1, 2, 3]) (by intro s; rfl)
  refine ⟨ct, h, ?_⟩
  have hp : toyPrims (.edPub ([1, 2, 3] ++ List.replicate 29 0)) = some (9 :: pad 31 [1, 2, 3]) := by
    decide
  exact decrypt_encrypt toyPrims toy_len toy_crypto _ _ _ _ _ (by decide) hp h

end Bifrost.Props.C12
