import Bifrost.Model.Wrappers
import Bifrost.Lemmas.WrappersSms
/-!
C31 — A solicited stream has at most one owner.

Model: `Bifrost.Wrappers.Sms` — `solicitMountedStream` (`link/solicit/solicit-mounted.go`) and the
value creation of `resolveMatch` (`link/solicit/controller/controller.go`) as fixed by
"fix: AcceptMountedStream could return a stream that Close had just closed",
"fix: a solicited stream matching several directives was handed to several owners" and
"fix: a solicited stream that no directive takes was never closed".
Every `AcceptMountedStream` / `Close` call is one critical section under `s.mu`, so all
interleavings of concurrent calls are all op sequences. Theorems quantify over ALL op sequences:
any number of streams, any number of matching directives per stream (`resolve k`), any number of
accept/close calls on any values in any order.
-/
namespace Bifrost.Props.C31
open Bifrost.Wrappers.Sms

/-- At most one `AcceptMountedStream` call ever returns a given stream — counted on the return
values of the calls themselves — however many directives matched it and however accept and
close calls interleave. -/
theorem one_owner (ops : List Op) (m : Nat) :
    (runRes {} ops).2.count (.stream (some m)) ≤ 1 := by
  have h := returned_count_runRes {} ops m
  have hI : Inv (runRes {} ops).1 := by rw [runRes_fst]; exact inv_run ops
  have := count_le_one_of_nodup _ hI.retNodup m
  simp at h
  omega

/-- The same on the hand-over log of the final state. -/
theorem one_owner_log (ops : List Op) (m : Nat) : (run ops).returned.count m ≤ 1 :=
  count_le_one_of_nodup _ (inv_run ops).retNodup m

/-- A stream is never both handed to a caller and closed by the solicitation, in either order. -/
theorem owned_xor_closed (ops : List Op) (m : Nat) (hc : m ∈ (run ops).closed) :
    m ∉ (run ops).returned :=
  disjoint_of_inv _ (inv_run ops) m hc

/-- Once `Close` on a value has returned true, `AcceptMountedStream` on that value returns the
error — after any further calls by anybody. -/
theorem closed_never_returned (pre post : List Op) (i : Nat)
    (h : closeRes (run pre) i = .closed true) :
    acceptRes (run (pre ++ .close i :: post)) i = .err := by
  -- after the close the value carries the error
  have hs : ∃ w : Wrapper, (step (run pre) (.close i)).1.wrappers[i]? = some w ∧ w.err = true := by
    unfold closeRes at h
    cases hw : (run pre).wrappers[i]? with
    | none => simp [step, hw] at h
    | some w =>
      cases ha : w.accepted with
      | true => simp [step, hw, ha] at h
      | false =>
        cases hm : w.ms with
        | none => simp [step, hw, ha, hm] at h
        | some m0 =>
          rw [step_close_eq _ i w m0 hw ha hm]
          have hlt : i < (run pre).wrappers.length := by
            rcases Nat.lt_or_ge i (run pre).wrappers.length with h' | h'
            · exact h'
            · rw [List.getElem?_eq_none h'] at hw; cases hw
          exact ⟨{ w with err := true }, by simp only; rw [List.getElem?_set_self hlt], rfl⟩
  obtain ⟨w, hw, he⟩ := hs
  have e : run (pre ++ .close i :: post) = runFrom (step (run pre) (.close i)).1 post := by
    rw [run_append]; rfl
  obtain ⟨w', hw', he', _⟩ := err_mono _ post i w hw he
  rw [e]
  exact acceptRes_err _ i w' hw' he'

/-- Once the solicitation has closed a stream, no later `AcceptMountedStream` on any value hands
that stream to anyone. -/
theorem closed_never_returned_stream (pre post : List Op) (m : Nat) (hc : m ∈ (run pre).closed) :
    m ∉ (run (pre ++ post)).returned := by
  apply owned_xor_closed
  rw [run_append]
  exact closed_mono _ post m hc

/-- A stream that was accepted is never closed by the solicitation afterwards. -/
theorem accepted_never_closed (pre post : List Op) (m : Nat) (hr : m ∈ (run pre).returned) :
    m ∉ (run (pre ++ post)).closed := by
  intro hc
  refine owned_xor_closed (pre ++ post) m hc ?_
  rw [run_append]
  exact returned_mono _ post m hr

/-- `resolveMatch` creates ONE value for the stream however many directives match. -/
theorem one_value_per_stream (s : State) (k : Nat) :
    (step s (.resolve k)).2 = .created 1 k ∧
    (step s (.resolve k)).1.wrappers.length = s.wrappers.length + 1 := by
  simp [step]

/-- A stream that matches no local directive is handed to nobody: `resolveMatch` closes it, and
the value it made answers every later `AcceptMountedStream` with the error. -/
theorem unmatched_stream_closed (s : State) :
    (step s (.resolve 0)).1.closed = s.nextStream :: s.closed ∧
    acceptRes (step s (.resolve 0)).1 s.wrappers.length = .err := by
  constructor
  · simp [step]
  · simp [acceptRes, step]

/-! ### Handlers that refuse the value (`AddValue` = false: resolver context cancelled, directive released)

`resolveMatch` visits the matching directives in map-iteration order; `takes` lists, in visiting
order, whether each handler took the value. -/

/-- The outcome of `resolveMatch` depends only on HOW MANY handlers took the value — not on the
position of the refusing handlers in the visiting order (in particular not on what the handler
visited last answered). -/
theorem refusal_position_irrelevant (s : State) (takes takes' : List Bool)
    (h : takes.count true = takes'.count true) :
    step s (.resolveH takes) = step s (.resolveH takes') := by
  rw [step_resolveH, step_resolveH, h]

/-- Handlers that all take the value: `resolveH` is `resolve`. -/
theorem resolveH_all_take (s : State) (k : Nat) :
    step s (.resolveH (List.replicate k true)) = step s (.resolve k) := by
  rw [step_resolveH]; simp

/-- If SOME handler took the value — in whatever position, whatever the others answered —
`resolveMatch` does not close the stream, and the first `AcceptMountedStream` on the value returns
that stream. -/
theorem taken_not_closed (s : State) (takes : List Bool) (h : true ∈ takes) :
    (step s (.resolveH takes)).1.closed = s.closed ∧
    acceptRes (step s (.resolveH takes)).1 s.wrappers.length = .stream (some s.nextStream) := by
  have hk : takes.count true ≠ 0 := by
    intro e; exact (List.count_eq_zero.mp e) h
  constructor
  · simp [step, hk]
  · simp [acceptRes, step, hk]

/-- If EVERY handler refused the value (or there was none), `resolveMatch` closes the stream —
exactly once: it is a fresh stream, so it was not closed before — and the value answers every
`AcceptMountedStream` with the error. -/
theorem all_refused_closed_once (pre : List Op) (takes : List Bool) (h : true ∉ takes) :
    (run (pre ++ [.resolveH takes])).closed.count (run pre).nextStream = 1 ∧
    acceptRes (run (pre ++ [.resolveH takes])) (run pre).wrappers.length = .err := by
  have hk : takes.count true = 0 := List.count_eq_zero.mpr h
  have hfresh : (run pre).nextStream ∉ (run pre).closed := by
    intro hc
    obtain ⟨i, w, hw, hm, _⟩ := (inv_run pre).cls _ hc
    exact Nat.lt_irrefl _ ((inv_run pre).fresh i w _ hw hm)
  have e : run (pre ++ [.resolveH takes]) = (step (run pre) (.resolveH takes)).1 := by
    rw [run_append]; rfl
  rw [e]
  constructor
  · simp [step, hk, List.count_eq_zero.mpr hfresh]
  · simp [acceptRes, step, hk]

/-- A stream some handler took is not closed by the controller at all: the close log does not
mention it after `resolveMatch`. -/
theorem taken_closed_count_zero (pre : List Op) (takes : List Bool) (h : true ∈ takes) :
    (run (pre ++ [.resolveH takes])).closed.count (run pre).nextStream = 0 := by
  have hfresh : (run pre).nextStream ∉ (run pre).closed := by
    intro hc
    obtain ⟨i, w, hw, hm, _⟩ := (inv_run pre).cls _ hc
    exact Nat.lt_irrefl _ ((inv_run pre).fresh i w _ hw hm)
  have e : run (pre ++ [.resolveH takes]) = (step (run pre) (.resolveH takes)).1 := by
    rw [run_append]; rfl
  rw [e, (taken_not_closed (run pre) takes h).1]
  exact List.count_eq_zero.mpr hfresh

/-- Non-vacuity: first handler takes and its consumer accepts, last handler refuses — the stream
stays open and owned; all three refuse — closed, accept answers the error. -/
example : (runRes {} [.resolveH [true, false], .accept 0, .accept 0]).2 =
      [.created 1 1, .stream (some 0), .already] ∧
    (runRes {} [.resolveH [true, false], .accept 0]).1.closed = [] ∧
    (runRes {} [.resolveH [false, false, false], .accept 0]).2 = [.created 1 0, .err] ∧
    (runRes {} [.resolveH [false, false, false], .accept 0]).1.closed = [0] := by
  decide

/-! ### The code before the fixes violates all three clauses -/

/-- F16: two directives match one stream; each accepts "its" value; both own the stream. -/
theorem orig_one_owner_false :
    ¬ (∀ (ops : List Orig.Op) (m : Nat), (Orig.run ops).returned.count m ≤ 1) := by
  intro h
  have := h [.resolve 2, .acceptCheck 0, .acceptLock 0, .acceptCheck 1, .acceptLock 1] 0
  revert this
  decide

/-- F15: an accept passes the unlocked error check, a close runs, the accept takes the lock
and returns the stream the close has just closed. -/
theorem orig_closed_never_returned_false :
    ¬ (∀ (ops : List Orig.Op) (m : Nat), m ∈ (Orig.run ops).closed → m ∉ (Orig.run ops).returned) := by
  intro h
  have := h [.resolve 1, .acceptCheck 0, .close 0, .acceptLock 0] 0
  revert this
  decide

/-- F16, close variant: one directive's caller accepts the stream, another directive's value is
closed — which closes the accepted stream. -/
theorem orig_accepted_never_closed_false :
    ¬ (∀ (pre post : List Orig.Op) (m : Nat), m ∈ (Orig.run pre).returned →
        m ∉ (Orig.run (pre ++ post)).closed) := by
  intro h
  have := h [.resolve 2, .acceptCheck 0, .acceptLock 0] [.close 1] 0
  revert this
  decide

/-- Non-vacuity: the same schedules on the fixed code. -/
example : (runRes {} [.resolve 2, .accept 0, .accept 0]).2 =
      [.created 1 2, .stream (some 0), .already] ∧
    (runRes {} [.resolve 1, .close 0, .accept 0]).2 = [.created 1 1, .closed true, .err] ∧
    (runRes {} [.resolve 1, .accept 0, .close 0]).2 = [.created 1 1, .stream (some 0), .closed false] := by
  decide

end Bifrost.Props.C31
