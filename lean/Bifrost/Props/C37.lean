import Bifrost.Gen.Directives
import Bifrost.Lemmas.Dispatch
/-!
C37 — Directive de-duplication never merges different requests.

`Bifrost.Gen.Directives` is regenerated from the Go sources on every run: per directive type the
struct's fields and `isEquivalent` = the conjunction of the comparisons literally present in the
Go `IsEquivalent` body. Here, **by hand**, is the list of resolution-affecting parameters of each
directive (`key`); the theorems say that the generated `isEquivalent` holds exactly when the
keys are equal. A comparison dropped from (or a field added to the struct but not to) a Go
`IsEquivalent` makes the corresponding proof fail.

Judgement calls, written down:
* `DialTptAddr`: of the dialer options only the *address* decides what is dialled; the backoff
  settings are retry tuning, not part of the request (and a nil options pointer means address "").
* `LookupHTTPHandler`: a URL is identified by its `URL.String()` serialisation (net/url is
  trusted); the theorem is parametric in that function and, where it is injective, gives `a = b`.
Every other field of every directive is resolution-affecting.
-/
namespace Bifrost.Props.C37
open Bifrost Bifrost.Gen.Directives Bifrost.Dispatch

/-! ### the resolution-affecting parameters, fixed by hand -/

def SolicitProtocol.key (d : SolicitProtocol) := (d.protocolID, d.context, d.peerID, d.transportID)
def EstablishLinkWithPeer.key (d : EstablishLinkWithPeer) := (d.src, d.dest)
def HandleMountedStream.key (d : HandleMountedStream) := (d.protocolID, d.localPeerID, d.remotePeerID)
def DialTptAddr.key (d : DialTptAddr) := (DialerOpts.getAddress d.dialerOpts, d.src, d.dest)
def LookupTptAddr.key (d : LookupTptAddr) := d.dest
def LookupTransport.key (d : LookupTransport) := (d.peerIDConstraint, d.transportIDConstraint)
def LookupRpcService.key (d : LookupRpcService) := (d.serviceID, d.serverID)
def LookupRpcClient.key (d : LookupRpcClient) := (d.serviceID, d.clientID)
def LookupHTTPHandler.key {U : Type} (urlString : U → Bytes) (d : LookupHTTPHandler U) :=
  (d.handlerMethod, urlString d.handlerURL, d.clientID)
def SignalPeer.key (d : SignalPeer) := (d.signalingID, d.localPeerID, d.remotePeerID)
def GetPeer.key (d : GetPeer) := d.peerIDConstraint
/-- The session handle itself is the request: two sessions between the same pair of peers are two
sessions to handle. `S` is the abstract type of Go interface values (`==` is Go's interface `==`). -/
def HandleSignalPeer.key {S : Type} (d : HandleSignalPeer S) := (d.signalingID, d.signalPeerSession)
def BuildChannelSubscription.key {K : Type} (d : BuildChannelSubscription K) := (d.channelID, d.privKey)
def DiscoverRoutes.key (d : DiscoverRoutes) := (d.protocolID, d.localPeerID, d.remotePeerID)

/-! ### equivalent ⇔ same resolution-affecting parameters -/

/-- The transport restriction is part of the request (F17: it used to be ignored). -/
theorem solicitProtocol_iff (a b : SolicitProtocol) :
    a.isEquivalent b = true ↔ SolicitProtocol.key a = SolicitProtocol.key b := by
  simp only [SolicitProtocol.isEquivalent, SolicitProtocol.key, Bool.and_eq_true, beq_iff_eq, Prod.mk.injEq]
  constructor
  · rintro ⟨⟨⟨h1, h2⟩, h3⟩, h4⟩; exact ⟨h1, h3, h2, h4⟩
  · rintro ⟨h1, h3, h2, h4⟩; exact ⟨⟨⟨h1, h2⟩, h3⟩, h4⟩

theorem solicitProtocol_eq (a b : SolicitProtocol) : a.isEquivalent b = true ↔ a = b := by
  rw [solicitProtocol_iff]
  cases a; cases b
  simp [SolicitProtocol.key]

/-- In particular: a request with a transport restriction is never folded into one without. -/
theorem solicitProtocol_transport (a b : SolicitProtocol) (h : a.transportID ≠ b.transportID) :
    a.isEquivalent b = false := by
  cases hb : a.isEquivalent b
  · rfl
  · exact absurd (congrArg (·.transportID) ((solicitProtocol_eq a b).mp hb)) h

theorem establishLinkWithPeer_iff (a b : EstablishLinkWithPeer) :
    a.isEquivalent b = true ↔ a = b := by
  cases a; cases b
  simp only [EstablishLinkWithPeer.isEquivalent, Bool.and_eq_true, beq_iff_eq, EstablishLinkWithPeer.mk.injEq]
  exact And.comm

theorem handleMountedStream_iff (a b : HandleMountedStream) :
    a.isEquivalent b = true ↔ a = b := by
  cases a; cases b
  simp [HandleMountedStream.isEquivalent, and_assoc]

/-- Same target, same source, same dial address (backoff tuning and nil-vs-empty options do not
distinguish requests). -/
theorem dialTptAddr_iff (a b : DialTptAddr) :
    a.isEquivalent b = true ↔ DialTptAddr.key a = DialTptAddr.key b := by
  simp only [DialTptAddr.isEquivalent, DialTptAddr.key, Bool.and_eq_true, beq_iff_eq, Prod.mk.injEq]
  constructor
  · rintro ⟨⟨h1, h2⟩, h3⟩; exact ⟨h3, h2, h1⟩
  · rintro ⟨h3, h2, h1⟩; exact ⟨⟨h1, h2⟩, h3⟩

/-- …and nothing else is ignored: with equal backoff payloads and both options present,
equivalent requests are equal. -/
theorem dialTptAddr_eq (a b : DialTptAddr) (oa ob : DialerOpts) (ha : a.dialerOpts = some oa)
    (hb : b.dialerOpts = some ob) (hbk : oa.backoff = ob.backoff) :
    a.isEquivalent b = true ↔ a = b := by
  rw [dialTptAddr_iff]
  cases a; cases b; cases oa; cases ob
  simp only at ha hb hbk
  subst ha hb hbk
  simp [DialTptAddr.key, DialerOpts.getAddress]

theorem lookupTptAddr_iff (a b : LookupTptAddr) : a.isEquivalent b = true ↔ a = b := by
  cases a; cases b
  simp [LookupTptAddr.isEquivalent]

theorem lookupTransport_iff (a b : LookupTransport) : a.isEquivalent b = true ↔ a = b := by
  cases a; cases b
  simp only [LookupTransport.isEquivalent, Bool.and_eq_true, beq_iff_eq, LookupTransport.mk.injEq]
  exact And.comm

theorem lookupRpcService_iff (a b : LookupRpcService) : a.isEquivalent b = true ↔ a = b := by
  cases a; cases b
  simp [LookupRpcService.isEquivalent]

theorem lookupRpcClient_iff (a b : LookupRpcClient) : a.isEquivalent b = true ↔ a = b := by
  cases a; cases b
  simp [LookupRpcClient.isEquivalent]

theorem lookupHTTPHandler_iff {U : Type} (urlString : U → Bytes) (a b : LookupHTTPHandler U) :
    LookupHTTPHandler.isEquivalent urlString a b = true ↔
      LookupHTTPHandler.key urlString a = LookupHTTPHandler.key urlString b := by
  simp [LookupHTTPHandler.isEquivalent, LookupHTTPHandler.key, and_assoc]

/-- Where the URL serialisation distinguishes the URLs concerned, equivalent lookups are equal. -/
theorem lookupHTTPHandler_eq {U : Type} (urlString : U → Bytes) (hinj : Function.Injective urlString)
    (a b : LookupHTTPHandler U) :
    LookupHTTPHandler.isEquivalent urlString a b = true ↔ a = b := by
  rw [lookupHTTPHandler_iff]
  cases a; cases b
  simp only [LookupHTTPHandler.key, Prod.mk.injEq, LookupHTTPHandler.mk.injEq]
  constructor
  · rintro ⟨h1, h2, h3⟩; exact ⟨h1, hinj h2, h3⟩
  · rintro ⟨h1, h2, h3⟩; exact ⟨h1, congrArg urlString h2, h3⟩

/-- `SignalPeer` compares the base58 text of the peer IDs; base58 is injective. -/
theorem signalPeer_iff (a b : SignalPeer) : a.isEquivalent b = true ↔ a = b := by
  cases a; cases b
  simp only [SignalPeer.isEquivalent, Bool.and_eq_true, beq_iff_eq, SignalPeer.mk.injEq]
  constructor
  · rintro ⟨⟨h1, h2⟩, h3⟩
    exact ⟨h3, b58_encode_injective _ _ h1, b58_encode_injective _ _ h2⟩
  · rintro ⟨h3, h1, h2⟩
    exact ⟨⟨congrArg B58.encode h1, congrArg B58.encode h2⟩, h3⟩

theorem getPeer_iff (a b : GetPeer) : a.isEquivalent b = true ↔ a = b := by
  cases a; cases b
  simp [GetPeer.isEquivalent]

/-- An incoming signaling session is identified by the signaling channel and the session handle. -/
theorem handleSignalPeer_iff {S : Type} [DecidableEq S] (a b : HandleSignalPeer S) :
    a.isEquivalent b = true ↔ a = b := by
  cases a; cases b
  simp [HandleSignalPeer.isEquivalent]

/-- A channel subscription is never de-duplicated (every directive wants its own handle)… -/
theorem buildChannelSubscription_never {K : Type} [DecidableEq K] (a b : BuildChannelSubscription K) :
    a.isEquivalent b = false := rfl

/-- …so, trivially, it is merged only with an equal request (the direction the property states);
the converse is false by design (`buildChannelSubscription_never`). -/
theorem buildChannelSubscription_only_if {K : Type} [DecidableEq K] (a b : BuildChannelSubscription K) :
    a.isEquivalent b = true → BuildChannelSubscription.key a = BuildChannelSubscription.key b := by
  intro h; simp [BuildChannelSubscription.isEquivalent] at h

/-- Route discovery: protocol, local and remote peer (the remote peer and the protocol used to be
ignored: discoveries towards different peers were merged). -/
theorem discoverRoutes_iff (a b : DiscoverRoutes) : a.isEquivalent b = true ↔ a = b := by
  cases a; cases b
  simp [DiscoverRoutes.isEquivalent, and_assoc]

/-! ### across types -/

/-- The type assertion at the head of an `IsEquivalent` succeeds only on the directive's own type
(regenerated from the method sets: an interface that another directive type happens to satisfy
breaks this). -/
theorem assertOk_same (i j : Kind) : assertOk i j = true → i = j := by
  cases i <;> cases j <;> simp [assertOk]

/-- Directives of different types are never merged. -/
theorem cross_type_never {U S K : Type} [DecidableEq S] [DecidableEq K] (urlString : U → Bytes)
    (a b : AnyDirective U S K) (h : a.kind ≠ b.kind) :
    AnyDirective.isEquivalent urlString a b = false := by
  cases hb : assertOk a.kind b.kind
  · simp [AnyDirective.isEquivalent, hb]
  · exact absurd (assertOk_same _ _ hb) h

/-- Any two directives that are merged are of the same type and have equal resolution-affecting
parameters (the property, for every pair of directives of the covered types). -/
theorem merged_only_if_same_request {U S K : Type} [DecidableEq S] [DecidableEq K] (urlString : U → Bytes)
    (a b : AnyDirective U S K) (h : AnyDirective.isEquivalent urlString a b = true) :
    a.kind = b.kind ∧
    match a, b with
    | .solicitProtocol x, .solicitProtocol y => x = y
    | .establishLinkWithPeer x, .establishLinkWithPeer y => x = y
    | .handleMountedStream x, .handleMountedStream y => x = y
    | .dialTptAddr x, .dialTptAddr y => DialTptAddr.key x = DialTptAddr.key y
    | .lookupTptAddr x, .lookupTptAddr y => x = y
    | .lookupTransport x, .lookupTransport y => x = y
    | .lookupRpcService x, .lookupRpcService y => x = y
    | .lookupRpcClient x, .lookupRpcClient y => x = y
    | .lookupHTTPHandler x, .lookupHTTPHandler y =>
        LookupHTTPHandler.key urlString x = LookupHTTPHandler.key urlString y
    | .signalPeer x, .signalPeer y => x = y
    | .getPeer x, .getPeer y => x = y
    | .handleSignalPeer x, .handleSignalPeer y => x = y
    | .buildChannelSubscription x, .buildChannelSubscription y => x = y
    | .discoverRoutes x, .discoverRoutes y => x = y
    | _, _ => False := by
  have hk : a.kind = b.kind := by
    by_contra hne
    rw [cross_type_never urlString a b hne] at h
    exact Bool.noConfusion h
  refine ⟨hk, ?_⟩
  cases a <;> cases b <;> simp [AnyDirective.kind] at hk <;>
    simp only [AnyDirective.isEquivalent, Bool.and_eq_true] at h
  · exact (solicitProtocol_eq _ _).mp h.2
  · exact (establishLinkWithPeer_iff _ _).mp h.2
  · exact (handleMountedStream_iff _ _).mp h.2
  · exact (dialTptAddr_iff _ _).mp h.2
  · exact (lookupTptAddr_iff _ _).mp h.2
  · exact (lookupTransport_iff _ _).mp h.2
  · exact (lookupRpcService_iff _ _).mp h.2
  · exact (lookupRpcClient_iff _ _).mp h.2
  · exact (lookupHTTPHandler_iff urlString _ _).mp h.2
  · exact (signalPeer_iff _ _).mp h.2
  · exact (getPeer_iff _ _).mp h.2
  · exact (handleSignalPeer_iff _ _).mp h.2
  · exact absurd h.2 (by simp [buildChannelSubscription_never])
  · exact (discoverRoutes_iff _ _).mp h.2

/-- Every generated directive type is covered above: all 14 `IsEquivalent` implementations of the
repository (`grep -rn 'IsEquivalent(other directive.Directive)'`). -/
theorem all_covered : directiveNames =
    ["SolicitProtocol", "EstablishLinkWithPeer", "HandleMountedStream", "DialTptAddr", "LookupTptAddr",
     "LookupTransport", "LookupRpcService", "LookupRpcClient", "LookupHTTPHandler", "SignalPeer", "GetPeer",
     "HandleSignalPeer", "BuildChannelSubscription", "DiscoverRoutes"] := rfl

/-- …and those are ALL of them: the translator walks the whole repository on every run and lists
every method `IsEquivalent(directive.Directive)` of a non-test Go file; that list is exactly the
list of implementations the definitions above were generated from. A directive type added to the
repository with its own IsEquivalent (or one moved / renamed) breaks this proof until it is
covered (audit row 46). -/
theorem all_implementations_covered : scannedImplementations = coveredImplementations := by decide

theorem all_implementations_count : scannedImplementations.length = directiveNames.length := by decide

/-- …and the cross-type statements range over exactly those types. -/
theorem all_kinds_covered : Kind.all.length = directiveNames.length ∧ ∀ k : Kind, k ∈ Kind.all := by
  refine ⟨rfl, ?_⟩
  intro k; cases k <;> simp [Kind.all]

/-! ### non-vacuity -/

/-- The injectivity hypothesis on the URL serialisation is satisfiable (`U = Bytes`, identity). -/
example : ∃ (U : Type) (f : U → Bytes), Function.Injective f := ⟨Bytes, id, fun _ _ h => h⟩

/-- Different transports: not equivalent (concrete instance of `solicitProtocol_transport`). -/
example : SolicitProtocol.isEquivalent ⟨[1], [], [], 0⟩ ⟨[1], [], [], 7⟩ = false := by decide

example : ∃ a b : DialTptAddr, ∃ oa ob, a.dialerOpts = some oa ∧ b.dialerOpts = some ob ∧ oa.backoff = ob.backoff :=
  ⟨⟨some ⟨[], 0⟩, [], []⟩, ⟨some ⟨[], 0⟩, [], []⟩, ⟨[], 0⟩, ⟨[], 0⟩, rfl, rfl, rfl⟩

/-- Two distinct session handles on the same channel: not equivalent; the same handle: equivalent. -/
example : HandleSignalPeer.isEquivalent (S := Nat) ⟨[1], 1⟩ ⟨[1], 2⟩ = false ∧
    HandleSignalPeer.isEquivalent (S := Nat) ⟨[1], 1⟩ ⟨[1], 1⟩ = true := by decide

/-- Same protocol and local peer, different remote peer: not equivalent (was merged before the fix). -/
example : DiscoverRoutes.isEquivalent ⟨[1], [2], [3]⟩ ⟨[1], [2], [4]⟩ = false := by decide

/-- `cross_type_never` is not vacuous: two directives of different kinds exist… -/
example : (AnyDirective.getPeer (U := Bytes) (S := Nat) (K := Nat) ⟨[]⟩).kind ≠
    (AnyDirective.lookupTptAddr (U := Bytes) (S := Nat) (K := Nat) ⟨[]⟩).kind := by decide

/-- …and `merged_only_if_same_request` has a merged pair. -/
example : AnyDirective.isEquivalent (U := Bytes) (S := Nat) (K := Nat) id (.getPeer ⟨[7]⟩) (.getPeer ⟨[7]⟩) = true := by
  decide

end Bifrost.Props.C37
