import Bifrost.Model.Lo25519
import Bifrost.Model.Encrypt
import Bifrost.Lemmas.EncryptLo
import Bifrost.Lemmas.EncryptCurve
import Bifrost.Gen.EdBlacklist
/-!
C14 — Ed25519→X25519 conversion rejects exactly the small-order points. Property theorems only.
All statements are about the blacklist table regenerated from `util/extra25519/lo25519.go`
(`Bifrost.Gen.EdBlacklist.rows`): editing the table or the classifier changes these obligations.

Not proved here (cited): that E[8] of edwards25519 has no encodings other than these seven
(5 y-coordinates + the two aliases y+p < 2^255); the correspondence engine checks it against an
independent math/big computation of the torsion points on every run.
-/
namespace Bifrost.Props.C14
open Bifrost Bifrost.Lo25519 Bifrost.Lo25519.Curve Bifrost.Gen.EdBlacklist

/-- The classifier, for ALL 2^256 32-byte inputs: `IsEdLowOrder` answers true exactly when the
input with its sign bit cleared is a row of the table (never panics, never errs). -/
theorem lowOrder_iff_mem (ge : Bytes) (h : ge.length = 32) :
    isEdLowOrder rows ge = .ok true ↔ maskSign ge ∈ rows := by
  rw [isEdLowOrder_eq rows (by decide) ge (by omega)]
  constructor
  · intro h1
    injection h1 with h1
    exact of_decide_eq_true h1
  · intro h1
    rw [decide_eq_true h1]

/-- … and false exactly otherwise; longer inputs are classified by their first 32 bytes. -/
theorem lowOrder_total (ge : Bytes) (h : 32 ≤ ge.length) :
    isEdLowOrder rows ge = .ok (decide (maskSign ge ∈ rows)) :=
  isEdLowOrder_eq rows (by decide) ge h

/-- Go panics (index out of range) for every input shorter than 32 bytes. -/
theorem lowOrder_short_panics (ge : Bytes) (h : ge.length < 32) : isEdLowOrder rows ge = .panic :=
  isEdLowOrder_short rows (by decide) ge h

/-- The sign bit is ignored. -/
theorem lowOrder_ignores_sign (ge ge' : Bytes) (h : ge.length = 32) (h' : ge'.length = 32)
    (hm : maskSign ge = maskSign ge') : isEdLowOrder rows ge = isEdLowOrder rows ge' := by
  rw [lowOrder_total ge (by omega), lowOrder_total ge' (by omega), hm]

/-- The table is well formed: 7 rows of 32 bytes, pairwise distinct, top bit clear (so every
row is reachable by a masked input). -/
theorem rows_wellformed :
    rows.length = 7 ∧ (∀ r ∈ rows, r.length = 32) ∧ rows.Nodup ∧
    (∀ r ∈ rows, maskSign r = r) := by
  refine ⟨by decide, by decide, by decide, by decide⟩

/-! ### every row encodes a small-order point of edwards25519 -/

/-- Every row of the table is the encoding (y, little endian, possibly non-canonical) of a
curve point whose order divides 8. -/
theorem blacklist_is_small_order (r : Bytes) (hr : r ∈ rows) :
    ∃ x, x < p ∧ onCurve x (leNat r) ∧ mul8IsIdentity x (leNat r) := by
  have hw := rows_witnessed
  have hall := List.all_eq_true.mp hw.1
  obtain ⟨i, hi, rfl⟩ := List.getElem_of_mem hr
  have hix : i < xs.length := by rw [hw.2]; exact hi
  have hz : i < (rows.zip xs).length := by
    rw [List.length_zip]; exact Nat.lt_min.mpr ⟨hi, hix⟩
  have hm : (rows[i], xs[i]) ∈ rows.zip xs := by
    have : (rows.zip xs)[i] = (rows[i], xs[i]) := List.getElem_zip
    rw [← this]
    exact List.getElem_mem hz
  have := hall _ hm
  exact ⟨xs[i], of_decide_eq_true this⟩

/-! ### conversion -/

/-- `PublicKeyToCurve25519` refuses a 32-byte input exactly when its masked form is in the
table or `edwards25519.Point.SetBytes` rejects it (not a curve point); otherwise it returns the
Montgomery form computed by `BytesMontgomery`. It never panics on 32 bytes. -/
theorem convert_refuses_iff (edToMont : Bytes → Option Bytes) (ed : Bytes) (h : ed.length = 32) :
    publicKeyToCurve25519 rows edToMont ed = .ok none ↔ (maskSign ed ∈ rows ∨ edToMont ed = none) := by
  unfold publicKeyToCurve25519
  rw [lowOrder_total ed (by omega)]
  by_cases hm : maskSign ed ∈ rows
  · simp [hm]
  · simp only [hm, decide_false, false_or]
    constructor
    · intro h1; injection h1
    · intro h1; rw [h1]

theorem convert_accepts (edToMont : Bytes → Option Bytes) (ed u : Bytes) (h : ed.length = 32) :
    publicKeyToCurve25519 rows edToMont ed = .ok (some u) ↔ (maskSign ed ∉ rows ∧ edToMont ed = some u) := by
  unfold publicKeyToCurve25519
  rw [lowOrder_total ed (by omega)]
  by_cases hm : maskSign ed ∈ rows
  · simp [hm]
  · simp only [hm, decide_false, not_false_eq_true, true_and]
    constructor
    · intro h1; injection h1
    · intro h1; rw [h1]

/-- "Compared ignoring the sign bit" is a comparison on a masked COPY of byte 31: neither
`IsEdLowOrder` nor `PublicKeyToCurve25519` contains a statement that writes through its byte-slice
parameter (regenerated from the source on every run: index / slice assignments, `++`/`--`, `copy`
into it, `scrub.Scrub` of it; a local alias of the parameter is refused by the translator). The
pure functions `isEdLowOrder` / `publicKeyToCurve25519` of the model therefore stand for the whole
effect of a call: the caller's key is the same key afterwards (an in-place `ge[31] &= 0x7f` would
turn A into −A). The engine checks the same on every call of the real functions. -/
theorem conversion_does_not_write_its_input : Gen.EdBlacklist.inputWrites = [] := by decide

/-- The model used inside the encryption skeleton is this function. -/
theorem pubToX_run (P : Encrypt.Prims) (ed : Bytes) (k : Option Bytes → Encrypt.Prog (Outcome Bytes))
    (h : ed.length = 32) :
    (Encrypt.pubToX ed k).run P =
      match publicKeyToCurve25519 rows (fun e => P (.edToMont e)) ed with
      | .ok o => (k o).run P
      | .err => .err
      | .panic => .panic := by
  unfold Encrypt.pubToX publicKeyToCurve25519
  rw [lowOrder_total ed (by omega)]
  by_cases hm : maskSign ed ∈ rows <;> simp [hm, Encrypt.Prog.run]

/-! ### shared-secret symmetry (symbolic Diffie–Hellman) -/

/-- For every pair of key pairs the shared secret computed by either side from its own
converted private key and the other side's converted public key is the same. -/
theorem shared_secret_symmetric (D : Dh) (a b : Bytes) :
    ∃ pa pb, D.xPub (D.edPub a) = some pa ∧ D.xPub (D.edPub b) = some pb ∧
      D.act (D.xPriv a) pb = D.act (D.xPriv b) pa := by
  refine ⟨_, _, D.convert_consistent a, D.convert_consistent b, ?_⟩
  exact D.act_comm _ _ _

/-- The hypotheses are satisfiable (`ToyDh`: multiplication modulo 251). -/
example : ∃ pa pb, ToyDh.xPub (ToyDh.edPub [3]) = some pa ∧ ToyDh.xPub (ToyDh.edPub [5]) = some pb ∧
    ToyDh.act (ToyDh.xPriv [3]) pb = ToyDh.act (ToyDh.xPriv [5]) pa :=
  shared_secret_symmetric ToyDh [3] [5]

/-- Non-vacuity of the classifier theorems: a concrete 32-byte member (with the sign bit set)
and a concrete non-member. -/
example : isEdLowOrder rows (List.replicate 31 0 ++ [0x80]) = .ok true ∧
    isEdLowOrder rows (2 :: List.replicate 31 0) = .ok false := by decide

end Bifrost.Props.C14
